import Gql.Proofs.Complete
/-!
The scheduler-graph invariant, part 1: the group nodes form a forest along `σ.parent`
(`Forest`), and how the elementary graph operations preserve it.
-/
namespace Gql.Async

/-- `c` is listed as a child in the node of `p`. -/
def hasChild (q : WQ) (p c : Nat) : Prop := ∃ n, alookup q.groupNodes p = some n ∧ c ∈ n.children

def hasNode (q : WQ) (g : Nat) : Prop := ∃ n, alookup q.groupNodes g = some n

/-- The group part of the graph invariant. -/
structure Forest (σ : Static) (q : WQ) : Prop where
  /-- a child is listed only in the node of its parent -/
  parent : ∀ p c, hasChild q p c → σ.parent c = some p
  /-- … once -/
  nodup : ∀ p n, alookup q.groupNodes p = some n → n.children.Nodup
  /-- … and is not a root (it waits for its parent) -/
  notRoot : ∀ p c, hasChild q p c → c ∉ q.rootGroups

/-- `q'` has fewer group nodes than `q`, each with the same children. -/
def SubGraph (q q' : WQ) : Prop :=
  ∀ p n', alookup q'.groupNodes p = some n' → ∃ n, alookup q.groupNodes p = some n ∧ n'.children = n.children

theorem SubGraph.refl (q : WQ) : SubGraph q q := fun _ n h => ⟨n, h, rfl⟩

theorem SubGraph.trans {a b c : WQ} (h1 : SubGraph a b) (h2 : SubGraph b c) : SubGraph a c := by
  intro p n' h
  obtain ⟨n1, e1, c1⟩ := h2 p n' h
  obtain ⟨n0, e0, c0⟩ := h1 p n1 e1
  exact ⟨n0, e0, c1.trans c0⟩

theorem SubGraph.hasChild {q q' : WQ} (h : SubGraph q q') {p c : Nat} (hc : hasChild q' p c) :
    hasChild q p c := by
  obtain ⟨n', e, hm⟩ := hc
  obtain ⟨n, e0, c0⟩ := h p n' e
  exact ⟨n, e0, c0 ▸ hm⟩

/-- Deleting nodes, changing tasks / pending counters, and shrinking the roots keep the forest. -/
theorem Forest.sub {σ : Static} {q q' : WQ} (f : Forest σ q) (h : SubGraph q q')
    (hr : ∀ g, g ∈ q'.rootGroups → g ∈ q.rootGroups) : Forest σ q' where
  parent p c hc := f.parent p c (h.hasChild hc)
  nodup p n' e := by
    obtain ⟨n, e0, c0⟩ := h p n' e
    rw [c0]; exact f.nodup p n e0
  notRoot p c hc hroot := f.notRoot p c (h.hasChild hc) (hr c hroot)

theorem subGraph_erase (q : WQ) (g : Nat) :
    SubGraph q { q with groupNodes := aerase q.groupNodes g } := by
  intro p n' h
  by_cases e : g = p
  · subst e; simp only at h; rw [alookup_aerase_self] at h; cases h
  · simp only at h; rw [alookup_aerase_ne _ _ _ e] at h; exact ⟨n', h, rfl⟩

/-- `d[g] = n'` where `n'` has the children of the node that was there. -/
theorem subGraph_aset (q : WQ) (g : Nat) (n n' : GroupNode) (h : alookup q.groupNodes g = some n)
    (hc : n'.children = n.children) :
    SubGraph q { q with groupNodes := aset q.groupNodes g n' } := by
  intro p m hm
  by_cases e : g = p
  · subst e; simp only at hm; rw [alookup_aset_self] at hm; cases hm; exact ⟨n, h, hc⟩
  · simp only at hm; rw [alookup_aset_ne _ _ _ _ e] at hm; exact ⟨m, hm, rfl⟩

/-- Only the group-node map and the roots matter to `SubGraph` / `Forest`. -/
theorem subGraph_of_eq {q q' : WQ} (h : q'.groupNodes = q.groupNodes) : SubGraph q q' := by
  intro p n' e; exact ⟨n', h ▸ e, rfl⟩

/-! ### the functions that only delete -/

theorem removeTask_sub (σ : Static) (q : WQ) (t : Nat) : SubGraph q (removeTask σ q t) := by
  unfold removeTask
  simp only
  have key : ∀ (gs : List Nat) (gn : List (Nat × GroupNode)),
      (∀ p n', alookup gn p = some n' → ∃ n, alookup q.groupNodes p = some n ∧ n'.children = n.children) →
      ∀ p n', alookup (gs.foldl (fun gn g =>
        match alookup gn g with
        | some n => aset gn g { n with tasks := oerase n.tasks t }
        | none => gn) gn) p = some n' → ∃ n, alookup q.groupNodes p = some n ∧ n'.children = n.children := by
    intro gs
    induction gs with
    | nil => intro gn h; exact h
    | cons g gs ih =>
      intro gn h
      simp only [List.foldl_cons]
      apply ih
      intro p n' hp
      cases hg : alookup gn g with
      | none => simp only [hg] at hp; exact h p n' hp
      | some ng =>
        simp only [hg] at hp
        by_cases e : g = p
        · subst e; rw [alookup_aset_self] at hp; cases hp
          obtain ⟨n, a, b⟩ := h g ng hg
          exact ⟨n, a, b⟩
        · rw [alookup_aset_ne _ _ _ _ e] at hp; exact h p n' hp
  exact key (σ.tgroups t) q.groupNodes (fun p n' h => ⟨n', h, rfl⟩)

theorem dropOrphanTask_sub (σ : Static) (q : WQ) (t : Nat) : SubGraph q (dropOrphanTask σ q t) := by
  unfold dropOrphanTask
  split
  · exact removeTask_sub σ q t
  · exact SubGraph.refl q

theorem foldl_sub {α : Type} (f : WQ → α → WQ) (l : List α) (q : WQ)
    (h : ∀ q a, SubGraph q (f q a)) : SubGraph q (l.foldl f q) := by
  induction l generalizing q with
  | nil => exact SubGraph.refl q
  | cons a l ih => exact (h q a).trans (ih _)

theorem foldl_sub1 {α β : Type} (f : WQ × β → α → WQ × β) (l : List α) (acc : WQ × β)
    (h : ∀ acc a, SubGraph acc.1 (f acc a).1) : SubGraph acc.1 (l.foldl f acc).1 := by
  induction l generalizing acc with
  | nil => exact SubGraph.refl _
  | cons a l ih => exact (h acc a).trans (ih _)

theorem removeGroup_sub (σ : Static) (fuel : Nat) (q : WQ) (g : Nat) (n : GroupNode) :
    SubGraph q (removeGroup σ fuel q g n) := by
  induction fuel generalizing q g n with
  | zero => exact SubGraph.refl q
  | succ k ih =>
    unfold removeGroup
    simp only
    refine (subGraph_erase q g).trans ?_
    refine (foldl_sub _ n.tasks _ (dropOrphanTask_sub σ)).trans ?_
    refine foldl_sub _ n.children _ ?_
    intro q c
    split
    · exact ih _ _ _
    · exact SubGraph.refl q

theorem prune_sub (fuel : Nat) (gs : List Nat) (st : WQ × List Nat) :
    SubGraph st.1 (prune fuel gs st).1 := by
  induction fuel generalizing gs st with
  | zero => exact SubGraph.refl _
  | succ n ih =>
    unfold prune
    refine foldl_sub1 _ gs st ?_
    intro st g
    split
    · exact SubGraph.refl _
    · split
      · exact SubGraph.refl _
      · exact (subGraph_erase st.1 g).trans (ih _ (_, st.2))

theorem collectTask_sub (σ : Static) (acc : WQ × List GVal × List Nat) (t : Nat) :
    SubGraph acc.1 (collectTask σ acc t).1 := by
  unfold collectTask
  split
  · exact removeTask_sub σ _ t
  · exact SubGraph.refl _

end Gql.Async
