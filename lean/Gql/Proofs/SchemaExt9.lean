import Gql.Proofs.SchemaExt8
/-! When `build(A ++ B)` fails, `extend(build A, B)` fails the same way (no root stability needed). -/
namespace Gql.Types
open Gql Gql.Generated

theorem finish_pick_fail (u : Schema) (o rA : Option Str × Option Str × Option Str) (hasA inB : Str → Bool)
    (hU : ∀ c, u.hasType c = (hasA c || inB c))
    (hrA1 : ∀ n, rA.1 = some n → hasA n = true) (hrA2 : ∀ n, rA.2.1 = some n → hasA n = true)
    (hrA3 : ∀ n, rA.2.2 = some n → hasA n = true)
    (hf : (finish (withRoots u (or3 o rA))).isOk = false) :
    finish (withRoots u (or3 o (pick3 hasA rA))) = mapPick (finish (withRoots u (or3 o rA))) := by
  have hup : ∀ c, hasA c = true → u.hasType c = true := fun c h => by rw [hU, h]; rfl
  have hall : allRefsResolve (withRoots u (or3 o (pick3 hasA rA))) = allRefsResolve (withRoots u (or3 o rA)) := by
    simp only [allRefsResolve_withRoots, rootOk_eq, or3, pick3]
    rw [rootOk_comp u.hasType _ o.1 rA.1 _ (hup _) (fun n hn => hup n (hrA1 n hn)),
      rootOk_comp u.hasType _ o.2.1 rA.2.1 _ (hup _) (fun n hn => hup n (hrA2 n hn)),
      rootOk_comp u.hasType _ o.2.2 rA.2.2 _ (hup _) (fun n hn => hup n (hrA3 n hn))]
  unfold finish at hf ⊢
  rw [hall]
  split
  · rename_i h
    rw [if_pos h] at hf
    cases hf
  · rfl

theorem stage_autopick_fail (a0 : Schema) (pb : Parts) (hsd : pb.schemaDef = none)
    (hres : allRefsResolve a0 = true) :
    (stage a0 pb).isOk = false → stage (autopick a0) pb = mapPick (stage a0 pb) := by
  unfold stage
  simp only [autopick]
  cases hT1 : mapMOut (fun t => extendType t (extsFor t.kind t.name pb.typeExts)) a0.types with
  | err e => intro _; rfl
  | crash c => intro _; rfl
  | ok T1 =>
  simp only []
  cases hN1 : mapMOut (fun (dn : Option DescNode × TypeNode) =>
      buildNamedType dn.1 dn.2 (extsFor dn.2.body.kind dn.2.name pb.typeExts)) (newTypeDefs pb) with
  | err e => intro _; rfl
  | crash c => intro _; rfl
  | ok N1 =>
  simp only []
  cases hD1 : mapMOut (extendDirective pb.dirExts) a0.directives with
  | err e => intro _; rfl
  | crash c => intro _; rfl
  | ok D1 =>
  simp only []
  cases hND1 : mapMOut (buildDirective pb.dirExts) (pb.dirDefs.filter Def.isUserDirectiveDef) with
  | err e => intro _; rfl
  | crash c => intro _; rfl
  | ok ND1 =>
  simp only []
  have hT1n : T1.map TypeDef.name = a0.types.map TypeDef.name :=
    mapMOut_keys _ TypeDef.name TypeDef.name _ _ hT1 (fun t _ t' h => (extendType_name_kind t t' _ h).1)
  have hN1n : N1.map TypeDef.name = (newTypeDefs pb).map (fun dn => dn.2.name) :=
    mapMOut_keys _ (fun dn => dn.2.name) TypeDef.name _ _ hN1
      (fun dn _ t h => (buildNamedType_name_kind dn.1 dn.2 _ t h).1)
  simp only [rootsOf_eq, rootsTriple, hsd, extsRoots_ovr]
  simp only [allRefsResolve, Bool.and_eq_true, rootOk_eq] at hres
  intro hf
  exact finish_pick_fail
    { a0 with types := upsertAll TypeDef.name T1 N1, desc := descOf pb a0.desc, directives := D1 ++ ND1 }
    (ovr pb.schemaExts) (a0.query, a0.mutation, a0.subscription) a0.hasType (definesType pb)
    (by
      intro c
      rw [Bool.eq_iff_iff]
      simp only [Schema.hasType, Schema.typeNames, definesType, List.contains_iff_mem, Bool.or_eq_true,
        mem_upsertAll_keys, hT1n, hN1n])
    (fun n hn => by have := hres.1.1.2; simp only [] at hn; rw [hn] at this; exact this)
    (fun n hn => by have := hres.1.2; simp only [] at hn; rw [hn] at this; exact this)
    (fun n hn => by have := hres.2; simp only [] at hn; rw [hn] at this; exact this)
    hf

/-- If building `A ++ B` fails, extending the schema built from `A` with `B` fails identically. -/
theorem extend_eq_build_of_fail (a : Schema) (A B : List Def) (hA : A.all Def.isOther = false)
    (hB : B.all Def.isOther = false) (ha : buildFromDefs A = .ok a)
    (v : ValidExt Schema.empty (collect A) (collect B)) (hfail : (buildFromDefs (A ++ B)).isOk = false) :
    extendDefs a B = buildFromDefs (A ++ B) := by
  cases hsd : (collect A).schemaDef with
  | some d => exact extend_eq_build_of_schemaDef a A B hA hB (by rw [hsd]; rfl) ha v
  | none =>
  unfold buildFromDefs at ha hfail ⊢
  have hsd2 : (collect (A ++ B)).schemaDef = none := by
    rw [collect_append]; simp only [Parts.merge, v.noSchemaDef]; exact hsd
  cases hc : extendCore Schema.empty A with
  | err e => rw [hc] at ha; cases ha
  | crash c => rw [hc] at ha; cases ha
  | ok a0 =>
  rw [hc] at ha
  simp only [hsd, Option.isSome_none, Bool.false_eq_true, ↓reduceIte] at ha
  cases ha
  have hstage : stage Schema.empty (collect A) = .ok a0 := by
    unfold extendCore at hc
    simpa only [hA, Bool.false_eq_true, ↓reduceIte] using hc
  obtain ⟨hres, _⟩ := stage_ok_inv _ _ _ hstage
  rw [← extendCore_append Schema.empty a0 A B hA hB hc v] at hfail ⊢
  unfold extendDefs
  unfold extendCore at hfail ⊢
  simp only [hB, Bool.false_eq_true, ↓reduceIte, hsd2, Option.isSome_none] at hfail ⊢
  cases hs : stage a0 (collect B) with
  | ok s' => rw [hs] at hfail; cases hfail
  | err e =>
    rw [stage_autopick_fail a0 (collect B) v.noSchemaDef hres (by rw [hs]; rfl), hs]
    rfl
  | crash c =>
    rw [stage_autopick_fail a0 (collect B) v.noSchemaDef hres (by rw [hs]; rfl), hs]
    rfl

end Gql.Types
