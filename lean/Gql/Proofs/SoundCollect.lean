/-
C13 — CollectFields on a plain selection set (fields only, no directives, distinct response
keys) is the list of its fields, one group each.
-/
import Gql.Proofs.SoundArgs
import Gql.Proofs.ExecCollect3

namespace Gql.Exec.Valid
open Gql.Exec Gql.Exec.Refine

mutual
/-- fields only, no directives, distinct response keys at every level -/
def plainSel : Selection → Bool
  | .field _ _ _ dirs sels => dirs.isEmpty && plainSels sels
  | _ => false
def plainSels : List Selection → Bool
  | [] => true
  | sel :: rest => plainSel sel && plainSels rest
end

def keyOfSel : Selection → Name
  | .field alias name _ _ _ => (match alias with | some a => a | none => name)
  | _ => ""

def nodeOfSel : Selection → FieldNode
  | .field alias name args dirs sels => { alias := alias, name := name, args := args, dirs := dirs, sels := sels }
  | _ => default

mutual
/-- response keys are distinct in every selection set -/
def distinctSel : Selection → Bool
  | .field _ _ _ _ sels => nodupNames (sels.map keyOfSel) && distinctSelsAux sels
  | .inline _ _ sels => nodupNames (sels.map keyOfSel) && distinctSelsAux sels
  | .spread _ _ => true
def distinctSelsAux : List Selection → Bool
  | [] => true
  | sel :: rest => distinctSel sel && distinctSelsAux rest
end

def distinctSels (sels : List Selection) : Bool :=
  nodupNames (sels.map keyOfSel) && distinctSelsAux sels

def groupsOf (sels : List Selection) : Spec.Groups :=
  sels.map (fun sel => (keyOfSel sel, [nodeOfSel sel]))

theorem included_nil (scx : Spec.Ctx) : Spec.included scx [] = some true := by
  simp [Spec.included]

theorem nodupNames_iff (l : List Name) : nodupNames l = true ↔ l.Nodup := by
  induction l with
  | nil => simp [nodupNames]
  | cons a t ih => simp [nodupNames, ih]

theorem collectLoop_plain (scx : Spec.Ctx) (rt : Name)
    (recur : List Selection → List Name → Out ErrKind (Spec.Groups × List Name)) :
    ∀ (sels : List Selection) (acc : Spec.Groups) (vis : List Name),
      plainSels sels = true → (sels.map keyOfSel).Nodup →
      (∀ k ∈ sels.map keyOfSel, k ∉ keys acc) →
      Spec.collectLoop scx rt recur sels acc vis = .ok (acc ++ groupsOf sels, vis)
  | [], acc, vis, _, _, _ => by simp [Spec.collectLoop, groupsOf]
  | sel :: rest, acc, vis, hp, hnd, hdis => by
    simp only [plainSels, Bool.and_eq_true] at hp
    cases sel with
    | inline c d ss => simp [plainSel] at hp
    | spread n d => simp [plainSel] at hp
    | field alias name args dirs sels =>
      have hd : dirs = [] := by
        have := hp.1
        simp only [plainSel, Bool.and_eq_true, List.isEmpty_iff] at this
        exact this.1
      subst hd
      simp only [List.map_cons, List.nodup_cons] at hnd
      have hk : keyOfSel (.field alias name args [] sels) ∉ keys acc :=
        hdis _ (by simp)
      unfold Spec.collectLoop Spec.collectOne
      simp only [included_nil]
      have hkey : ({ alias := alias, name := name, args := args, dirs := [], sels := sels } : FieldNode).key
          = keyOfSel (.field alias name args [] sels) := by
        cases alias <;> rfl
      rw [hkey, appendGroup_of_not_mem acc _ _ hk]
      rw [collectLoop_plain scx rt recur rest _ vis hp.2 hnd.2]
      · simp [groupsOf, nodeOfSel]
      · intro k hk' hmem
        simp only [keys, List.map_append, List.map_cons, List.map_nil, List.mem_append,
          List.mem_singleton] at hmem
        rcases hmem with hmem | hmem
        · exact hdis k (by simp only [List.map_cons, List.mem_cons]; exact Or.inr hk') hmem
        · subst hmem; exact hnd.1 hk'

theorem collectFields_plain (scx : Spec.Ctx) (rt : Name) (sels : List Selection)
    (hp : plainSels sels = true) (hnd : (sels.map keyOfSel).Nodup) :
    Spec.collectFields scx rt sels = .ok (groupsOf sels) := by
  unfold Spec.collectFields Spec.fuelOf Spec.collectFieldsFuel
  rw [collectLoop_plain scx rt _ sels [] [] hp hnd (by simp [keys])]
  simp

end Gql.Exec.Valid
