import Gql.Proofs.SchemaBuild4
namespace Gql.Types
open Gql Gql.Generated

theorem types_ne_nil_of_wf (s : Schema) (h : WFSchema s = true) : s.types ≠ [] := by
  simp only [WFSchema, Bool.and_eq_true] at h
  obtain ⟨⟨⟨⟨_, hq⟩, hrq⟩, _⟩, _⟩ := h
  intro hnil
  cases hqq : s.query with
  | none => simp [hqq] at hq
  | some n => simp [hqq, rootOk, Schema.hasType, Schema.typeNames, hnil] at hrq

theorem applyOps_opEntries (s0 : Schema) (q m sub : Option Str)
    (hq : s0.query = none) (hm : s0.mutation = none) (hs : s0.subscription = none) :
    applyOps s0 (opEntry .query q ++ opEntry .mutation m ++ opEntry .subscription sub) =
      { s0 with query := q, mutation := m, subscription := sub } := by
  cases s0
  cases q <;> cases m <;> cases sub <;> simp_all [opEntry, applyOps]

/-- The schema the core builder yields for the printed definitions: `s` itself when the
schema block was printed, `s` without roots when it was omitted. -/
def coreResult (s : Schema) : Schema :=
  match schemaDefOf s with
  | [] => { s with desc := none, query := none, mutation := none, subscription := none }
  | _ => s

def opsOf (s : Schema) : List (Op × Str) :=
  opEntry .query s.query ++ opEntry .mutation s.mutation ++ opEntry .subscription s.subscription

theorem schemaDefOf_cases (s : Schema) (hq : s.query.isSome = true) :
    (schemaDefOf s = [] ∧ s.desc = none ∧ hasDefaultRoots s = true) ∨
    schemaDefOf s = [.schemaDef (descNode s.desc) [] (opsOf s)] := by
  unfold schemaDefOf opsOf
  cases hqq : s.query with
  | none => simp [hqq] at hq
  | some n =>
    by_cases hd : s.desc.isNone && hasDefaultRoots s
    · left
      simp only [Bool.and_eq_true, Option.isNone_iff_eq_none] at hd
      simp [hd.1, hd.2]
    · right
      simp only [Bool.and_eq_true, Option.isNone_iff_eq_none] at hd
      simp [hd]

theorem roots_desc_schemaToDefs (s : Schema) (hq : s.query.isSome = true) (ts : List TypeDef) (ds : List Directive)
    (hts : ts = s.types) (hds : ds = s.directives) :
    ({ rootsOf (collect (schemaToDefs s))
        { Schema.empty with types := ts, desc := descOf (collect (schemaToDefs s)) Schema.empty.desc } with
      directives := ds } : Schema) = coreResult s := by
  subst hts hds
  rw [collect_schemaToDefs]
  unfold coreResult rootsOf descOf
  rcases schemaDefOf_cases s hq with ⟨h0, _, _⟩ | h1
  · rw [h0]; simp [Schema.empty]
  · rw [h1]
    simp only [List.foldl_nil, Schema.empty, opsOf]
    rw [applyOps_opEntries _ s.query s.mutation s.subscription rfl rfl rfl]
    cases s with
    | mk desc q m sub dirs types => cases desc <;> simp [descNode]

/-- The core of the round trip, before `build_ast_schema`'s lookup of roots by name. -/
theorem extendCore_schemaToDefs (s : Schema) (h : WFSchema s = true) :
    extendCore Schema.empty (schemaToDefs s) = .ok (coreResult s) := by
  have hwf := h
  simp only [WFSchema, Bool.and_eq_true] at h
  obtain ⟨⟨⟨⟨⟨⟨⟨hnd, htypes⟩, _⟩, hdirs⟩, hq⟩, hrq⟩, hrm⟩, hrs⟩ := h
  unfold extendCore
  rw [not_all_other s (types_ne_nil_of_wf s hwf)]
  simp only [Bool.false_eq_true, ↓reduceIte]
  unfold stage
  rw [filter_nonreserved s htypes]
  have hc := collect_schemaToDefs s
  have hexts : (collect (schemaToDefs s)).typeExts = [] := by rw [hc]
  have hdexts : (collect (schemaToDefs s)).dirExts = [] := by rw [hc]
  have hddefs : (collect (schemaToDefs s)).dirDefs = s.directives.map directiveToDef := by rw [hc]
  rw [hexts, hdexts, hddefs, filter_nonspecified s hdirs, mapMOut_types s htypes, mapMOut_directives s hdirs]
  simp only [Schema.empty, mapMOut, upsertAll_nil_nodup TypeDef.name s.types hnd, List.nil_append]
  have := roots_desc_schemaToDefs s hq s.types s.directives rfl rfl
  simp only [Schema.empty] at this
  rw [this]
  unfold finish
  rw [if_pos]
  unfold coreResult
  split
  · exact allRefsResolve_of_wf s { s with desc := none, query := none, mutation := none, subscription := none }
      hwf rfl rfl (Or.inr rfl) (Or.inr rfl) (Or.inr rfl)
  · exact allRefsResolve_of_wf s s hwf rfl rfl (Or.inl rfl) (Or.inl rfl) (Or.inl rfl)

end Gql.Types
