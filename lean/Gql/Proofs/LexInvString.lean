import Gql.Proofs.LexerBlock
import Gql.Proofs.BlockForced2
import Gql.Proofs.C09Pairs
/-!
C08, converse direction (`parse_wf`), lexer inversion for STRING / BLOCK_STRING tokens: every code
point of the value is a Unicode scalar value, or a surrogate that stands verbatim in the source text
(the lexer accepts a leading surrogate immediately followed by a trailing one as one
SourceCharacter; escapes always decode to scalar values).
-/
namespace Gql.Text
open Gql Gql.Spec.Lex

/-- A surrogate code point. -/
def isSurr (c : Nat) : Bool := 0xD800 ≤ c && c ≤ 0xDFFF

/-- A code point a string value read from `body` can hold: a Unicode scalar value, or a surrogate
copied verbatim from `body`. -/
def ChOk (body : List Nat) (c : Nat) : Prop := isScalar c = true ∨ (isSurr c = true ∧ c ∈ body)

theorem ChOk.scalar {body : List Nat} {c : Nat} (h : Scalar c) : ChOk body c :=
  Or.inl ((isScalar_iff c).2 h)

/-- In a text without surrogates every admissible code point is a scalar value. -/
theorem ChOk.isScalar {body : List Nat} {c : Nat} (hb : ∀ x ∈ body, isSurr x = false) (h : ChOk body c) :
    isScalar c = true := by
  rcases h with h | ⟨hs, hm⟩
  · exact h
  · rw [hb c hm] at hs; cases hs

theorem sourceCharLen_ok (body : List Nat) {s : List Nat} {n : Nat} (hsub : ∀ c ∈ s, c ∈ body)
    (h : sourceCharLen s = some n) : ∀ c ∈ s.take n, ChOk body c := by
  cases s with
  | nil => simp [sourceCharLen] at h
  | cons c rest =>
    simp only [sourceCharLen] at h
    split at h
    · rename_i hsc
      cases h
      intro x hx
      simp only [List.take_succ_cons, List.take_zero, List.mem_singleton] at hx
      subst hx; exact ChOk.scalar hsc
    · cases rest with
      | nil => simp at h
      | cons d r =>
        simp only at h
        split at h
        · rename_i hp
          cases h
          intro x hx
          simp only [List.take_succ_cons, List.take_zero, List.mem_cons, List.not_mem_nil, or_false] at hx
          unfold LeadSurrogate TrailSurrogate at hp
          rcases hx with rfl | rfl
          · exact Or.inr ⟨by simp [isSurr]; omega, hsub _ (by simp)⟩
          · exact Or.inr ⟨by simp [isSurr]; omega, hsub _ (by simp)⟩
        · cases h

theorem escapedCharacter?_scalar {d v : Nat} (h : escapedCharacter? d = some v) : Scalar v := by
  unfold escapedCharacter? at h
  unfold Scalar
  repeat' split at h
  all_goals first | cases h | skip
  all_goals omega

theorem escapedUnicodeBraced?_ok (body : List Nat) {r : List Nat} {n : Nat} {v : List Nat}
    (h : escapedUnicodeBraced? r = some (n, v)) : ∀ c ∈ v, ChOk body c := by
  unfold escapedUnicodeBraced? at h
  simp only at h
  split at h
  · rename_i hc
    cases h
    intro c hc'
    simp only [List.mem_singleton] at hc'
    subst hc'
    exact ChOk.scalar hc.2.2.2
  · cases h

theorem escapedUnicodeFixed?_ok (body : List Nat) {r : List Nat} {n : Nat} {v : List Nat}
    (h : escapedUnicodeFixed? r = some (n, v)) : ∀ c ∈ v, ChOk body c := by
  unfold escapedUnicodeFixed? at h
  cases h4 : hex4? r with
  | none => rw [h4] at h; cases h
  | some code =>
    rw [h4] at h
    simp only at h
    split at h
    · rename_i hsc
      cases h
      intro c hc; simp only [List.mem_singleton] at hc; subst hc
      exact ChOk.scalar hsc
    · split at h
      · rename_i hl
        cases h6 : hex4? (r.drop 6) with
        | none => rw [h6] at h; cases h
        | some trail =>
          rw [h6] at h
          simp only at h
          split at h
          · rename_i ht
            cases h
            intro c hc
            rw [List.eq_of_mem_singleton hc]
            refine ChOk.scalar ?_
            have hl1 := hl.1
            unfold LeadSurrogate at hl1
            unfold TrailSurrogate at ht
            unfold Scalar
            omega
          · cases h
      · cases h

theorem stringCharacter?_ok (body : List Nat) {s : List Nat} {n : Nat} {v : List Nat}
    (hsub : ∀ c ∈ s, c ∈ body) (h : stringCharacter? s = some (n, v)) : ∀ c ∈ v, ChOk body c := by
  cases s with
  | nil => simp [stringCharacter?] at h
  | cons c rest =>
    simp only [stringCharacter?] at h
    split at h
    · cases rest with
      | nil => simp at h
      | cons d rest1 =>
        simp only at h
        split at h
        · split at h
          · exact escapedUnicodeBraced?_ok body h
          · exact escapedUnicodeFixed?_ok body h
        · cases he : escapedCharacter? d with
          | none => rw [he] at h; cases h
          | some x =>
            rw [he] at h
            cases h
            intro y hy; simp only [List.mem_singleton] at hy; subst hy
            exact ChOk.scalar (escapedCharacter?_scalar he)
    · split at h
      · cases h
      · cases hl : sourceCharLen (c :: rest) with
        | none => rw [hl] at h; cases h
        | some m =>
          rw [hl] at h
          cases h
          exact sourceCharLen_ok body hsub hl

/-- **Inversion of `StringCharacter* "`.** -/
theorem stringRest_ok (body : List Nat) : ∀ (fuel : Nat) (s : List Nat) (n : Nat) (v : List Nat),
    (∀ c ∈ s, c ∈ body) → stringRest fuel s = some (n, v) → ∀ c ∈ v, ChOk body c := by
  intro fuel
  induction fuel with
  | zero =>
    intro s n v hsub h
    by_cases hq : s.head? = some 34
    · cases s with
      | nil => simp at hq
      | cons a r =>
        simp only [List.head?_cons, Option.some.injEq] at hq
        subst hq
        rw [stringRest_quote] at h
        cases h
        intro c hc; cases hc
    · rw [stringRest_zero _ hq] at h; cases h
  | succ f ih =>
    intro s n v hsub h
    by_cases hq : s.head? = some 34
    · cases s with
      | nil => simp at hq
      | cons a r =>
        simp only [List.head?_cons, Option.some.injEq] at hq
        subst hq
        rw [stringRest_quote] at h
        cases h
        intro c hc; cases hc
    · rw [stringRest_succ _ _ hq] at h
      cases hc : stringCharacter? s with
      | none => rw [hc] at h; cases h
      | some nv =>
        obtain ⟨k, u⟩ := nv
        rw [hc] at h
        simp only at h
        cases hr : stringRest f (s.drop k) with
        | none => rw [hr] at h; cases h
        | some mw =>
          obtain ⟨m, w⟩ := mw
          rw [hr] at h
          cases h
          intro c hcm
          rw [List.mem_append] at hcm
          rcases hcm with hcm | hcm
          · exact stringCharacter?_ok body hsub hc c hcm
          · exact ih (s.drop k) m w (fun c hc => hsub c (List.mem_of_mem_drop hc)) hr c hcm

/-- **STRING tokens**: every code point of the value of the token `read_string` returns is a scalar
value or a surrogate standing verbatim in the text. -/
theorem readString_chOk (body : List Nat) (st : LexState) (pos : Nat) (hlt : pos < body.length)
    (hq : body[pos] = 34) (htr : slice body (pos + 1) (pos + 3) ≠ [34, 34]) :
    Post (fun t => t.kind = .string ∧ ∃ s, t.value = some s ∧ ∀ c ∈ s, ChOk body c)
      (readString body st pos) := by
  have hag := stringClassOK body st pos hlt hq htr
  have hpost := readString_post body st pos
  cases hr : readString body st pos with
  | ok t =>
    rw [hr] at hag hpost
    obtain ⟨mm, hm, hspec, _, _, _⟩ := hag
    refine ⟨hpost.2, ?_⟩
    have hv : t.value = mm.value := by
      have := congrArg SpecToken.value hspec
      simpa [toSpec] using this
    rw [drop_cons _ _ hlt, hq] at hm
    have e : slice body (pos + 1) (pos + 3) = (body.drop (pos + 1)).take 2 := slice_eq_take_drop _ _ 2
    rw [e] at htr
    rw [string?_not_triple _ htr] at hm
    cases hsr : stringRest (body.drop (pos + 1)).length (body.drop (pos + 1)) with
    | none => rw [hsr] at hm; cases hm
    | some nv =>
      obtain ⟨n, v⟩ := nv
      rw [hsr] at hm
      simp only [Option.some.injEq] at hm
      subst hm
      exact ⟨v, hv, stringRest_ok body _ _ n v (fun c hc => List.mem_of_mem_drop hc) hsr⟩
  | err e => trivial
  | crash c => rw [hr] at hpost; exact hpost.elim

/-! ### Block strings -/

theorem blockRest_ok (body : List Nat) : ∀ (fuel : Nat) (s : List Nat) (m : Nat) (raw : List Nat),
    (∀ c ∈ s, c ∈ body) → blockRest fuel s = some (m, raw) → ∀ c ∈ raw, ChOk body c := by
  intro fuel
  induction fuel with
  | zero => intro s m raw _ h; simp [blockRest] at h
  | succ f ih =>
    intro s m raw hsub h
    simp only [blockRest] at h
    split at h
    · cases h; intro c hc; cases hc
    · split at h
      · cases hr : blockRest f (s.drop 4) with
        | none => rw [hr] at h; cases h
        | some mw =>
          obtain ⟨k, w⟩ := mw
          rw [hr] at h
          cases h
          intro c hc
          simp only [List.cons_append, List.nil_append, List.mem_cons] at hc
          rcases hc with rfl | rfl | rfl | hc
          · exact ChOk.scalar (by unfold Scalar; omega)
          · exact ChOk.scalar (by unfold Scalar; omega)
          · exact ChOk.scalar (by unfold Scalar; omega)
          · exact ih _ k w (fun c hc => hsub c (List.mem_of_mem_drop hc)) hr c hc
      · cases hl : sourceCharLen s with
        | none => rw [hl] at h; cases h
        | some n =>
          rw [hl] at h
          simp only at h
          cases hr : blockRest f (s.drop n) with
          | none => rw [hr] at h; cases h
          | some mw =>
            obtain ⟨k, w⟩ := mw
            rw [hr] at h
            cases h
            intro c hc
            rw [List.mem_append] at hc
            rcases hc with hc | hc
            · exact sourceCharLen_ok body hsub hl c hc
            · exact ih _ k w (fun c hc => hsub c (List.mem_of_mem_drop hc)) hr c hc

theorem splitLinesAux_mem_or (cur w : List Nat) :
    ∀ l ∈ splitLinesAux cur w, ∀ c ∈ l, c ∈ cur ∨ c ∈ w := by
  fun_induction splitLinesAux cur w
  all_goals
    intro l hl c hc
    try simp only [List.mem_cons, List.not_mem_nil, or_false] at hl
  · subst hl; exact Or.inl hc
  · rename_i cur rest ih
    rcases hl with rfl | hl
    · exact Or.inl hc
    · rcases ih l hl c hc with h | h
      · cases h
      · exact Or.inr (by simp [h])
  · rename_i cur rest _ ih
    rcases hl with rfl | hl
    · exact Or.inl hc
    · rcases ih l hl c hc with h | h
      · cases h
      · exact Or.inr (by simp [h])
  · rename_i cur rest ih
    rcases hl with rfl | hl
    · exact Or.inl hc
    · rcases ih l hl c hc with h | h
      · cases h
      · exact Or.inr (by simp [h])
  · rename_i cur x rest _ _ _ ih
    rcases ih l hl c hc with h | h
    · rw [List.mem_append] at h
      rcases h with h | h
      · exact Or.inl h
      · simp only [List.mem_singleton] at h
        exact Or.inr (by simp [h])
    · exact Or.inr (by simp [h])

theorem dedentLines_mem_src (ls : List (List Nat)) :
    ∀ l ∈ dedentLines ls, ∀ c ∈ l, ∃ l' ∈ ls, c ∈ l' := by
  intro l hl c hc
  unfold dedentLines at hl
  simp only at hl
  rw [List.mem_reverse] at hl
  have h1 := (List.dropWhile_sublist _).subset hl
  rw [List.mem_reverse] at h1
  have h2 := (List.dropWhile_sublist _).subset h1
  split at h2
  · rename_i ci first rest
    simp only [List.mem_cons, List.mem_map] at h2
    rcases h2 with rfl | ⟨l', hl', rfl⟩
    · exact ⟨l, by simp, hc⟩
    · exact ⟨l', by simp [hl'], List.mem_of_mem_drop hc⟩
  · exact ⟨l, h2, hc⟩

theorem joinLF_mem_or (ls : List (List Nat)) : ∀ c ∈ joinLF ls, c = 10 ∨ ∃ l ∈ ls, c ∈ l := by
  fun_induction joinLF ls
  · intro c hc; cases hc
  · intro c hc; exact Or.inr ⟨_, by simp, hc⟩
  · rename_i l rest _ ih
    intro c hc
    simp only [List.append_assoc, List.mem_append, List.mem_singleton] at hc
    rcases hc with hc | hc | hc
    · exact Or.inr ⟨l, by simp, hc⟩
    · exact Or.inl hc
    · rcases ih c hc with h | ⟨l', hl', h⟩
      · exact Or.inl h
      · exact Or.inr ⟨l', by simp [hl'], h⟩

/-- `BlockStringValue(raw)` holds only code points of `raw` and line feeds. -/
theorem blockStringValue_mem_raw (raw : List Nat) : ∀ c ∈ blockStringValue raw, c = 10 ∨ c ∈ raw := by
  intro c hc
  unfold blockStringValue at hc
  rcases joinLF_mem_or _ c hc with h | ⟨l, hl, hcl⟩
  · exact Or.inl h
  · obtain ⟨l', hl', hcl'⟩ := dedentLines_mem_src _ l hl c hcl
    rcases splitLinesAux_mem_or [] raw l' hl' c hcl' with h | h
    · cases h
    · exact Or.inr h

/-- **BLOCK_STRING tokens**: the value is block-representable and every code point of it is a
scalar value or a surrogate standing verbatim in the text. -/
theorem readBlockString_chOk (body : List Nat) (st : LexState) (pos : Nat) (hlt : pos < body.length)
    (hq : body[pos] = 34) (htr : slice body (pos + 1) (pos + 3) = [34, 34]) :
    Post (fun r => r.1.kind = .blockString ∧
        ∃ s, r.1.value = some s ∧ (∀ c ∈ s, ChOk body c) ∧ BlockRepresentable s)
      (readBlockString body st pos) := by
  have hag := blockClassOK body st pos hlt hq htr
  have hpost := readBlockString_post body st pos
  cases hr : readBlockString body st pos with
  | ok r =>
    obtain ⟨t, st'⟩ := r
    rw [hr] at hag hpost
    obtain ⟨mm, hm, hspec, _, _, _⟩ := hag
    obtain ⟨v, hv, hrep⟩ := readBlockString_representable body st pos t st' hr
    refine ⟨hpost.2, v, hv, ?_, hrep⟩
    have hvm : t.value = mm.value := by
      have := congrArg SpecToken.value hspec
      simpa [toSpec] using this
    have h3 : (body.drop pos).take 3 = [34, 34, 34] := (take3_iff body pos hlt).mp ⟨hq, htr⟩
    have hsplit : body.drop pos = [34, 34, 34] ++ body.drop (pos + 3) := by
      have := List.take_append_drop 3 (body.drop pos)
      rw [h3, List.drop_drop] at this
      exact this.symm
    rw [hsplit] at hm
    simp only [List.cons_append, List.nil_append, blockString?] at hm
    cases hbr : blockRest (body.drop (pos + 3)).length (body.drop (pos + 3)) with
    | none => rw [hbr] at hm; cases hm
    | some nraw =>
      obtain ⟨n, raw⟩ := nraw
      rw [hbr] at hm
      simp only [Option.some.injEq] at hm
      subst hm
      simp only at hvm
      rw [hv] at hvm
      cases hvm
      intro c hc
      rcases blockStringValue_mem_raw raw c hc with rfl | hcr
      · exact ChOk.scalar (by unfold Scalar; omega)
      · exact blockRest_ok body _ _ n raw (fun c hc => List.mem_of_mem_drop hc) hbr c hcr
  | err e => trivial
  | crash c => rw [hr] at hpost; exact hpost.elim

end Gql.Text
