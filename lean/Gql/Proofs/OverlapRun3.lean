import Gql.Proofs.OverlapRun2
/-! C14, named fragments, completeness (6): the four comparison functions, when they report
nothing, establish their pass predicates and close the memo entries they write. -/
namespace Gql.Exec
open Overlap

/-- what `find_conflicts_between_sub_selection_sets(e, t1, t2)` establishes -/
def SubOK (s : Schema) (d : Doc) (σ : St) (e : Bool) (t1 t2 : TSet) : Prop :=
  PairsPass s d σ e t1 t2 ∧
    (∀ n ∈ selsDirectSpreads t2.2.sels, CovFF σ t1.2.id (keyOf d n) e) ∧
    (∀ n ∈ selsDirectSpreads t1.2.sels, CovFF σ t2.2.id (keyOf d n) e) ∧
    (∀ n1 ∈ selsDirectSpreads t1.2.sels, ∀ n2 ∈ selsDirectSpreads t2.2.sels,
      CovFR σ (keyOf d n1) (keyOf d n2) e)

section run
variable (env : Env)

theorem pairsPass_of_between {σ : St} {q : Bool} {t1 t2 : TSet} {q1' q2' : Option String}
    (hq1 : PEq env.s t1.1 q1') (hq2 : PEq env.s t2.1 q2')
    (h : ∀ u ∈ betweenPairs (fmOf env t1 q1') (fmOf env t2 q2'),
      PPass env.s env.d σ q u.2.1.inst u.2.2.inst) : PairsPass env.s env.d σ q t1 t2 := by
  intro c1 hc1 c2 hc2 hrn
  obtain ⟨c1', hc1', i1⟩ := (selsFlat_peq env.s t1.2.sels t1.1 q1' hq1).mem_left hc1
  obtain ⟨c2', hc2', i2⟩ := (selsFlat_peq env.s t2.2.sels t2.1 q2' hq2).mem_left hc2
  have hu : (c1.node.responseName, toEntry env.s c1', toEntry env.s c2') ∈
      betweenPairs (fmOf env t1 q1') (fmOf env t2 q2') := by
    refine mem_betweenPairs_grp.2 ⟨List.mem_map.2 ⟨c1', hc1', rfl⟩,
      List.mem_map.2 ⟨c2', hc2', rfl⟩, ?_, ?_⟩
    · simp only [rnE, toEntry]; rw [← i1.1]
    · simp only [rnE, toEntry]; rw [← i2.1, hrn]
  have := h _ hu
  simp only [inst_toEntry] at this
  exact this.instEq i1.symm i2.symm

theorem cov_of_spreads (hK : KeysInj env.d) {σ : St} {i : Nat} {q : Bool} {names : List String}
    (hsub : names ⊆ env.d.spreadNames)
    (h : ∀ sp ∈ spreadsOf env.d names, CovFF σ i sp.key q) :
    ∀ n ∈ names, CovFF σ i (keyOf env.d n) q :=
  fun n hn => h _ (mem_spreadsOf_of_name hK hsub hn)

theorem typed_spreads_sub {t : TSet} (ht : t ∈ env.d.typedSets env.s) :
    selsDirectSpreads t.2.sels ⊆ env.d.spreadNames :=
  Doc.allSets_spreads (Doc.typedSets_allSets ht)

end run

section run2
variable (env : Env) (hle : LinOrd env.le) (hU : TypedIdsUnique env.s env.d)
  (hA : ∀ a, DocInst env.s env.d a → a.node.argsOK)
  (hT : ∀ a, DocInst env.s env.d a → a.node.name ≠ "__typename") (hK : KeysInj env.d)
include hle hU hA hT hK

theorem run_all : ∀ n : Nat,
    (∀ P excl rn e1 e2, Known env e1 → Known env e2 →
      Tr env P (findConflict env n excl rn e1 e2)
        (fun σ => PPass env.s env.d σ excl e1.inst e2.inst)) ∧
    (∀ P excl p1 p2 (t1 t2 : TSet), t1 ∈ env.d.typedSets env.s → t2 ∈ env.d.typedSets env.s →
      PEq env.s t1.1 p1 → PEq env.s t2.1 p2 →
      Tr env P (findConflictsBetweenSubSelectionSets env n excl p1 t1.2 p2 t2.2)
        (fun σ => SubOK env.s env.d σ excl t1 t2)) ∧
    (∀ P excl (t : TSet) q' nm, t ∈ env.d.typedSets env.s → PEq env.s t.1 q' →
      nm ∈ env.d.spreadNames →
      Tr env P (collectConflictsBetweenFieldsAndFragment env n excl (fmOf env t q')
          (mkSpread env.d nm))
        (fun σ => CovFF σ t.2.id (keyOf env.d nm) excl)) ∧
    (∀ P excl n1 n2, n1 ∈ env.d.spreadNames → n2 ∈ env.d.spreadNames →
      Tr env P (collectConflictsBetweenFragments env n excl (mkSpread env.d n1)
          (mkSpread env.d n2))
        (fun σ => CovFR σ (keyOf env.d n1) (keyOf env.d n2) excl)) := by
  intro n
  induction n with
  | zero =>
    refine ⟨?_, ?_, ?_, ?_⟩
    · intro P excl rn e1 e2 _ _ σ σ' _ h; simp [findConflict] at h
    · intro P excl p1 p2 t1 t2 _ _ _ _ σ σ' _ h
      simp [findConflictsBetweenSubSelectionSets] at h
    · intro P excl t q' nm _ _ _ σ σ' _ h
      simp [collectConflictsBetweenFieldsAndFragment] at h
    · intro P excl n1 n2 _ _ σ σ' _ h
      simp [collectConflictsBetweenFragments] at h
  | succ n ih =>
    obtain ⟨ihFC, ihBS, ihFF, ihFR⟩ := ih
    have between : ∀ (P : Prog) (excl : Bool) (t1 t2 : TSet) (q1' q2' : Option String),
        t1 ∈ env.d.typedSets env.s → t2 ∈ env.d.typedSets env.s →
        PEq env.s t1.1 q1' → PEq env.s t2.1 q2' →
        Tr env P (forEach (betweenPairs (fmOf env t1 q1') (fmOf env t2 q2'))
          (fun u => findConflict env n excl u.1 u.2.1 u.2.2))
          (fun σ => PairsPass env.s env.d σ excl t1 t2) := by
      intro P excl t1 t2 q1' q2' h1 h2 hq1 hq2
      refine Tr.post env (tr_forEach env _ _
        (fun (u : String × FieldEntry × FieldEntry) σ =>
          PPass env.s env.d σ excl u.2.1.inst u.2.2.inst)
        ?_ (fun u => monoP_ppass _ _ _)) (fun σ h => pairsPass_of_between env hq1 hq2 h)
      intro u hu
      obtain ⟨k1, k2, _⟩ := between_known env h1 h2 hq1 hq2 hu
      exact ihFC P excl u.1 u.2.1 u.2.2 k1 k2
    have ffAll : ∀ (P : Prog) (excl : Bool) (t : TSet) (q' : Option String) (names : List String),
        t ∈ env.d.typedSets env.s → PEq env.s t.1 q' → names ⊆ env.d.spreadNames →
        Tr env P (forEach (spreadsOf env.d names)
          (fun sp => collectConflictsBetweenFieldsAndFragment env n excl (fmOf env t q') sp))
          (fun σ => ∀ nm ∈ names, CovFF σ t.2.id (keyOf env.d nm) excl) := by
      intro P excl t q' names ht hq hsub
      refine Tr.post env (tr_forEach env _ _ (fun (sp : Spread) σ => CovFF σ t.2.id sp.key excl) ?_
        (fun sp => monoP_covFF _ _ _)) (fun σ h => cov_of_spreads env hK hsub h)
      intro sp hsp
      obtain ⟨nm, hnm, rfl⟩ := mem_spreadsOf hsp
      exact ihFF P excl t q' nm ht hq (hsub hnm)
    refine ⟨?_, ?_, ?_, ?_⟩
    · -- find_conflict
      intro P excl rn e1 e2 k1 k2 σ σ' hg h
      obtain ⟨ha1, hd1⟩ := known_facts' env hA hT k1
      obtain ⟨ha2, hd2⟩ := known_facts' env hA hT k2
      obtain ⟨⟨a, hda, hea⟩, _⟩ := k1
      obtain ⟨⟨b, hdb, heb⟩, _⟩ := k2
      obtain ⟨hT1, hF1⟩ := fc_unfold env hle n excl rn e1 e2 σ ha1 ha2 hd1 hd2
      cases hdir : Spec.direct env.s ⟨e1.inst, e2.inst, !excl⟩ with
      | true =>
        obtain ⟨c, hc⟩ := hT1 hdir
        rw [hc] at h
        simp at h
      | false =>
        rw [hF1 hdir] at h
        by_cases hsub : (e1.node.hasSub && e2.node.hasSub) = true
        · simp only [hsub, if_true] at h
          have hs := hsub
          simp only [Bool.and_eq_true] at hs
          have en1 : e1.inst.node = a.node := hea.1
          have en2 : e2.inst.node = b.node := heb.1
          have m1 : (subP env.s e1.inst, e1.node.subSet) ∈ env.d.typedSets env.s := by
            have := hda.sub (by rw [← en1]; exact hs.1)
            rw [← en1, ← hea.subP] at this
            exact this
          have m2 : (subP env.s e2.inst, e2.node.subSet) ∈ env.d.typedSets env.s := by
            have := hdb.sub (by rw [← en2]; exact hs.2)
            rw [← en2, ← heb.subP] at this
            exact this
          have p1 : PEq env.s (subP env.s e1.inst) (e1.defTy.map Ty.named) := by
            rw [hd1]; exact PEq.refl _ _
          have p2 : PEq env.s (subP env.s e2.inst) (e2.defTy.map Ty.named) := by
            rw [hd2]; exact PEq.refl _ _
          cases hb : findConflictsBetweenSubSelectionSets env n
              (!Spec.deeper env.s ⟨e1.inst, e2.inst, !excl⟩) (e1.defTy.map Ty.named)
              e1.node.subSet (e2.defTy.map Ty.named) e2.node.subSet σ with
          | none => simp [hb] at h
          | some x =>
            obtain ⟨σ1, cs1⟩ := x
            simp only [hb, Option.some.injEq, Prod.mk.injEq] at h
            obtain ⟨rfl, hcs⟩ := h
            have hcs1 : cs1 = [] := by
              cases cs1 with
              | nil => rfl
              | cons c cs => simp [subfieldConflicts] at hcs
            subst hcs1
            obtain ⟨g, tl, hp, x1, x2, x3⟩ := ihBS P _ _ _ (subP env.s e1.inst, e1.node.subSet)
              (subP env.s e2.inst, e2.node.subSet) m1 m2 p1 p2 σ σ1 hg hb
            refine ⟨g, tl, PPass.mk hdir (fun _ _ c1 hc1 c2 hc2 hrn => hp c1 hc1 c2 hc2 hrn)
              (fun _ _ => ⟨x1, x2, x3⟩)⟩
        · simp only [hsub, Bool.false_eq_true, if_false, Option.some.injEq, Prod.mk.injEq,
            and_true] at h
          subst h
          refine ⟨hg, TLe.refl _, PPass.mk hdir ?_ ?_⟩
          · intro h1 h2
            exact absurd (by simp [show e1.node.hasSub = true from h1,
              show e2.node.hasSub = true from h2]) hsub
          · intro h1 h2
            exact absurd (by simp [show e1.node.hasSub = true from h1,
              show e2.node.hasSub = true from h2]) hsub
    · -- find_conflicts_between_sub_selection_sets
      intro P excl p1 p2 t1 t2 h1 h2 hp1 hp2 σ σ' hg h
      simp only [findConflictsBetweenSubSelectionSets] at h
      obtain ⟨g1, tl1, q1', hq1', c1eq⟩ := good_getFields env hU hg h1 hp1
      generalize getFields env.s env.d σ p1 t1.2 = r1 at g1 tl1 c1eq h
      obtain ⟨σ1, fm1, sps1⟩ := r1
      obtain ⟨g2, tl2, q2', hq2', c2eq⟩ := good_getFields env hU g1 h2 hp2
      generalize getFields env.s env.d σ1 p2 t2.2 = r2 at g2 tl2 c2eq h
      obtain ⟨σ2, fm2, sps2⟩ := r2
      simp only at g1 g2 tl1 tl2 c1eq c2eq h
      rw [computeFields_fmOf, Prod.mk.injEq] at c1eq c2eq
      obtain ⟨rfl, rfl⟩ := c1eq
      obtain ⟨rfl, rfl⟩ := c2eq
      have s1 := typed_spreads_sub env h1
      have s2 := typed_spreads_sub env h2
      have R := tr_andThen env (between P excl t1 t2 q1' q2' h1 h2 hq1' hq2')
        (tr_andThen env (ffAll P excl t1 q1' _ h1 hq1' s2)
          (tr_andThen env (ffAll P excl t2 q2' _ h2 hq2' s1)
            (tr_forEach env
              ((spreadsOf env.d (selsDirectSpreads t1.2.sels)).flatMap (fun a =>
                (spreadsOf env.d (selsDirectSpreads t2.2.sels)).map (fun b => (a, b))))
              (fun p => collectConflictsBetweenFragments env n excl p.1 p.2)
              (fun p σ => CovFR σ p.1.key p.2.key excl)
              (by
                intro pr hpr
                simp only [List.mem_flatMap, List.mem_map] at hpr
                obtain ⟨a, ha, b, hb, rfl⟩ := hpr
                obtain ⟨n1, hn1, rfl⟩ := mem_spreadsOf ha
                obtain ⟨n2, hn2, rfl⟩ := mem_spreadsOf hb
                exact ihFR P excl n1 n2 (s1 hn1) (s2 hn2))
              (fun p => monoP_covFR _ _ _))
            (monoP_forall _ _ (fun nm => monoP_covFF _ _ _)))
          (monoP_forall _ _ (fun nm => monoP_covFF _ _ _)))
        (fun σ σ' hT hpp => hpp.mono hT)
      obtain ⟨g3, tl3, hpp, c1, c2, c3⟩ := R σ2 σ' g2 h
      refine ⟨g3, (tl1.trans tl2).trans tl3, hpp, c1, c2, ?_⟩
      intro n1 hn1 n2 hn2
      exact c3 (mkSpread env.d n1, mkSpread env.d n2) (by
        simp only [List.mem_flatMap, List.mem_map]
        exact ⟨_, mem_spreadsOf_of_name hK s1 hn1, _, mem_spreadsOf_of_name hK s2 hn2, rfl⟩)
    · -- collect_conflicts_between_fields_and_fragment
      intro P excl t q' nm ht hq hnm σ σ' hg h
      simp only [collectConflictsBetweenFieldsAndFragment] at h
      by_cases hhas : σ.cfpHas (fmOf env t q').id (mkSpread env.d nm).key excl = true
      · simp only [hhas, if_true, Option.some.injEq, Prod.mk.injEq, and_true] at h
        subst h
        exact ⟨hg, TLe.refl _, hhas⟩
      · have hno : σ.cfpHas t.2.id (keyOf env.d nm) excl = false := by
          have h0 : σ.cfpHas (fmOf env t q').id (mkSpread env.d nm).key excl = false := by
            simpa using hhas
          exact h0
        simp only [hhas, Bool.false_eq_true, if_false] at h
        have hg1 : Good env (σ.cfpAdd t.2.id (keyOf env.d nm) excl)
            ⟨(t.2.id, keyOf env.d nm, excl) :: P.ff, P.fr⟩ :=
          ⟨hg.1, closedX_cfpAdd hg.2 hno⟩
        have hT1 : TLe σ (σ.cfpAdd t.2.id (keyOf env.d nm) excl) := tle_cfpAdd hno
        have hcov1 : CovFF (σ.cfpAdd t.2.id (keyOf env.d nm) excl) t.2.id (keyOf env.d nm) excl :=
          (cfpHas_cfpAdd σ _ _ excl excl).2 id
        have fin : ∀ σ2, Good env σ2 ⟨(t.2.id, keyOf env.d nm, excl) :: P.ff, P.fr⟩ →
            FFok env.s env.d σ2 t nm excl → Good env σ2 P := by
          intro σ2 g hb
          refine ⟨g.1, closedX_finishFF g.2 ?_⟩
          intro t0 ht0 nm0 hnm0 hid hkey
          have e1 : t0 = t := hU t0 ht0 t ht hid
          have e2 : nm0 = nm := hK nm0 hnm0 nm hnm hkey
          subst e1 e2
          exact hb
        have hfm : (fmOf env t q').id = t.2.id := rfl
        have hkk : (mkSpread env.d nm).key = keyOf env.d nm := rfl
        have hname : (mkSpread env.d nm).name = nm := rfl
        rw [hfm, hkk, hname] at h
        generalize σ.cfpAdd t.2.id (keyOf env.d nm) excl = σ1 at hg1 hT1 hcov1 h
        cases hfr : env.d.getFragment nm with
        | none =>
          simp only [hfr, Option.some.injEq, Prod.mk.injEq, and_true] at h
          subst h
          refine ⟨fin σ1 hg1 ?_, hT1, hcov1⟩
          intro tf hfs
          simp [fragSet, hfr] at hfs
        | some fr =>
          simp only [hfr] at h
          have hfs : fragSet env.s env.d nm = some (env.s.typeFromAst fr.typeCond, fr.ss) := by
            simp [fragSet, hfr]
          have htf := fragSet_typed hfs
          obtain ⟨g2, tl2, q2', hq2', ceq⟩ := good_getReferenced env hU hg1 hfr
          generalize getReferenced env.s env.d σ1 fr = r2 at g2 tl2 ceq h
          obtain ⟨σ2, fm2, sps⟩ := r2
          simp only at g2 tl2 ceq h
          rw [computeFields_fmOf env (env.s.typeFromAst fr.typeCond, fr.ss), Prod.mk.injEq] at ceq
          obtain ⟨rfl, rfl⟩ := ceq
          by_cases hid : (t.2.id == (fmOf env (env.s.typeFromAst fr.typeCond, fr.ss) q2').id) = true
          · simp only [hid, if_true, Option.some.injEq, Prod.mk.injEq, and_true] at h
            subst h
            refine ⟨fin σ2 g2 ?_, hT1.trans tl2, hcov1.mono tl2⟩
            intro tf hfs'
            rw [hfs] at hfs'
            cases hfs'
            exact Or.inl (by simpa [fmOf] using hid)
          · simp only [hid, Bool.false_eq_true, if_false] at h
            have R := tr_andThen env
              (between ⟨(t.2.id, keyOf env.d nm, excl) :: P.ff, P.fr⟩ excl t
                (env.s.typeFromAst fr.typeCond, fr.ss) q' q2' ht htf hq hq2')
              (ffAll ⟨(t.2.id, keyOf env.d nm, excl) :: P.ff, P.fr⟩ excl t q'
                (selsDirectSpreads fr.ss.sels) ht hq (typed_spreads_sub env htf))
              (fun σ σ' hT hpp => hpp.mono hT)
            obtain ⟨g3, tl3, hpp, hcc⟩ := R σ2 σ' g2 h
            refine ⟨fin σ' g3 ?_, (hT1.trans tl2).trans tl3, hcov1.mono (tl2.trans tl3)⟩
            intro tf hfs'
            rw [hfs] at hfs'
            cases hfs'
            exact Or.inr ⟨hpp, hcc⟩
    · -- collect_conflicts_between_fragments
      intro P excl n1 n2 hm1 hm2 σ σ' hg h
      simp only [collectConflictsBetweenFragments] at h
      have hk1 : (mkSpread env.d n1).key = keyOf env.d n1 := rfl
      have hk2 : (mkSpread env.d n2).key = keyOf env.d n2 := rfl
      have hname1 : (mkSpread env.d n1).name = n1 := rfl
      have hname2 : (mkSpread env.d n2).name = n2 := rfl
      rw [hk1, hk2, hname1, hname2] at h
      by_cases hkeq : (keyOf env.d n1 == keyOf env.d n2) = true
      · simp only [hkeq, if_true, Option.some.injEq, Prod.mk.injEq, and_true] at h
        subst h
        exact ⟨hg, TLe.refl _, Or.inl (by simpa using hkeq)⟩
      · simp only [hkeq, Bool.false_eq_true, if_false] at h
        have hkne : keyOf env.d n1 ≠ keyOf env.d n2 := by simpa using hkeq
        by_cases hhas : σ.cmpHas (keyOf env.d n1) (keyOf env.d n2) excl = true
        · simp only [hhas, if_true, Option.some.injEq, Prod.mk.injEq, and_true] at h
          subst h
          exact ⟨hg, TLe.refl _, Or.inr hhas⟩
        · have hno : σ.cmpHas (keyOf env.d n1) (keyOf env.d n2) excl = false := by simpa using hhas
          simp only [hhas, Bool.false_eq_true, if_false] at h
          have hg1 : Good env (σ.cmpAdd (keyOf env.d n1) (keyOf env.d n2) excl)
              ⟨P.ff, (pairKey (keyOf env.d n1) (keyOf env.d n2), excl) :: P.fr⟩ :=
            ⟨hg.1, closedX_cmpAdd hg.2 hno⟩
          have hT1 : TLe σ (σ.cmpAdd (keyOf env.d n1) (keyOf env.d n2) excl) := tle_cmpAdd hno
          have hcov1 : CovFR (σ.cmpAdd (keyOf env.d n1) (keyOf env.d n2) excl)
              (keyOf env.d n1) (keyOf env.d n2) excl :=
            Or.inr ((cmpHas_cmpAdd σ _ _ excl excl).2 id)
          -- which names share this unordered key
          have decode : ∀ m1 ∈ env.d.spreadNames, ∀ m2 ∈ env.d.spreadNames,
              pairKey (keyOf env.d m1) (keyOf env.d m2) =
                pairKey (keyOf env.d n1) (keyOf env.d n2) →
              (m1 = n1 ∧ m2 = n2) ∨ (m1 = n2 ∧ m2 = n1) := by
            intro m1 hm1' m2 hm2' hpk
            simp only [pairKey] at hpk
            split at hpk <;> split at hpk <;> simp only [Prod.mk.injEq] at hpk
            · exact Or.inl ⟨hK m1 hm1' n1 hm1 hpk.1, hK m2 hm2' n2 hm2 hpk.2⟩
            · exact Or.inr ⟨hK m1 hm1' n2 hm2 hpk.1, hK m2 hm2' n1 hm1 hpk.2⟩
            · exact Or.inr ⟨hK m1 hm1' n2 hm2 hpk.2, hK m2 hm2' n1 hm1 hpk.1⟩
            · exact Or.inl ⟨hK m1 hm1' n1 hm1 hpk.2, hK m2 hm2' n2 hm2 hpk.1⟩
          have fin : ∀ σ2, Good env σ2
              ⟨P.ff, (pairKey (keyOf env.d n1) (keyOf env.d n2), excl) :: P.fr⟩ →
              FRok env.s env.d σ2 n1 n2 excl → Good env σ2 P := by
            intro σ2 g hb
            refine ⟨g.1, closedX_finishFR g.2 ?_⟩
            intro m1 hm1' m2 hm2' hpk
            rcases decode m1 hm1' m2 hm2' hpk with ⟨rfl, rfl⟩ | ⟨rfl, rfl⟩
            · exact Or.inl hb
            · exact Or.inr hb
          generalize σ.cmpAdd (keyOf env.d n1) (keyOf env.d n2) excl = σ1 at hg1 hT1 hcov1 h
          cases hfr1 : env.d.getFragment n1 with
          | none =>
            simp only [hfr1, Option.some.injEq, Prod.mk.injEq, and_true] at h
            subst h
            refine ⟨fin σ1 hg1 ?_, hT1, hcov1⟩
            intro t1 t2 hfs1 _
            simp [fragSet, hfr1] at hfs1
          | some fr1 =>
            cases hfr2 : env.d.getFragment n2 with
            | none =>
              simp only [hfr1, hfr2, Option.some.injEq, Prod.mk.injEq, and_true] at h
              subst h
              refine ⟨fin σ1 hg1 ?_, hT1, hcov1⟩
              intro t1 t2 _ hfs2
              simp [fragSet, hfr2] at hfs2
            | some fr2 =>
              simp only [hfr1, hfr2] at h
              have hfs1 : fragSet env.s env.d n1 =
                  some (env.s.typeFromAst fr1.typeCond, fr1.ss) := by simp [fragSet, hfr1]
              have hfs2 : fragSet env.s env.d n2 =
                  some (env.s.typeFromAst fr2.typeCond, fr2.ss) := by simp [fragSet, hfr2]
              have ht1 := fragSet_typed hfs1
              have ht2 := fragSet_typed hfs2
              obtain ⟨g2, tl2, q1', hq1', c1eq⟩ := good_getReferenced env hU hg1 hfr1
              generalize getReferenced env.s env.d σ1 fr1 = r1 at g2 tl2 c1eq h
              obtain ⟨σ2, fm1, sps1⟩ := r1
              obtain ⟨g3, tl3, q2', hq2', c2eq⟩ := good_getReferenced env hU g2 hfr2
              generalize getReferenced env.s env.d σ2 fr2 = r2 at g3 tl3 c2eq h
              obtain ⟨σ3, fm2, sps2⟩ := r2
              simp only at g2 g3 tl2 tl3 c1eq c2eq h
              rw [computeFields_fmOf env (env.s.typeFromAst fr1.typeCond, fr1.ss),
                Prod.mk.injEq] at c1eq
              rw [computeFields_fmOf env (env.s.typeFromAst fr2.typeCond, fr2.ss),
                Prod.mk.injEq] at c2eq
              obtain ⟨rfl, rfl⟩ := c1eq
              obtain ⟨rfl, rfl⟩ := c2eq
              have s1 := typed_spreads_sub env ht1
              have s2 := typed_spreads_sub env ht2
              have R := tr_andThen env
                (between ⟨P.ff, (pairKey (keyOf env.d n1) (keyOf env.d n2), excl) :: P.fr⟩ excl
                  _ _ q1' q2' ht1 ht2 hq1' hq2')
                (tr_andThen env
                  (tr_forEach env (spreadsOf env.d (selsDirectSpreads fr2.ss.sels))
                    (fun r2 => collectConflictsBetweenFragments env n excl (mkSpread env.d n1) r2)
                    (fun sp σ => CovFR σ (keyOf env.d n1) sp.key excl)
                    (by
                      intro sp hsp
                      obtain ⟨n', hn', rfl⟩ := mem_spreadsOf hsp
                      exact ihFR _ excl n1 n' hm1 (s2 hn'))
                    (fun sp => monoP_covFR _ _ _))
                  (tr_forEach env (spreadsOf env.d (selsDirectSpreads fr1.ss.sels))
                    (fun r1 => collectConflictsBetweenFragments env n excl r1 (mkSpread env.d n2))
                    (fun sp σ => CovFR σ sp.key (keyOf env.d n2) excl)
                    (by
                      intro sp hsp
                      obtain ⟨n', hn', rfl⟩ := mem_spreadsOf hsp
                      exact ihFR _ excl n' n2 (s1 hn') hm2)
                    (fun sp => monoP_covFR _ _ _))
                  (monoP_forall _ _ (fun sp => monoP_covFR _ _ _)))
                (fun σ σ' hT hpp => hpp.mono hT)
              obtain ⟨g4, tl4, hpp, hc2, hc1⟩ := R σ3 σ' g3 h
              refine ⟨fin σ' g4 ?_, ((hT1.trans tl2).trans tl3).trans tl4,
                hcov1.mono ((tl2.trans tl3).trans tl4)⟩
              intro t1 t2 hfs1' hfs2'
              rw [hfs1] at hfs1'
              rw [hfs2] at hfs2'
              cases hfs1'
              cases hfs2'
              exact ⟨hpp, fun n' hn' => hc2 _ (mem_spreadsOf_of_name hK s2 hn'),
                fun n' hn' => hc1 _ (mem_spreadsOf_of_name hK s1 hn')⟩

end run2

end Gql.Exec
