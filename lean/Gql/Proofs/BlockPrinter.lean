import Gql.Proofs.BlockScanValue
import Gql.Proofs.BlockDedent
/-!
Facts about the printer side (`print_block_string`): the escaped text never equals a bare
`"""`, a value that ends "open" forces the trailing line feed, the lines of the escaped text are
the escaped lines of the value.
-/
namespace Gql.Text

theorem escapeTQ_eq_nil {r : List Nat} (h : escapeTQ r = []) : r = [] := by
  cases r with
  | nil => rfl
  | cons a r =>
    by_cases ht : ∃ r', a = 34 ∧ r = 34 :: 34 :: r'
    · obtain ⟨r', ha, hr⟩ := ht; subst ha hr; simp [escapeTQ_qqq] at h
    · simp [escapeTQ_cons_nt ht] at h

theorem escapeTQ_ne_nil {r : List Nat} (h : r ≠ []) : escapeTQ r ≠ [] := fun he => h (escapeTQ_eq_nil he)

/-- Peel one non-triple-starting character. -/
theorem escapeTQ_peel {a : Nat} {r x : List Nat} (h : escapeTQ (a :: r) = 34 :: x) :
    a = 34 ∧ escapeTQ r = x := by
  by_cases ht : ∃ r', a = 34 ∧ r = 34 :: 34 :: r'
  · obtain ⟨r', ha, hr⟩ := ht; subst ha hr; simp [escapeTQ_qqq] at h
  · rw [escapeTQ_cons_nt ht] at h
    simp at h
    exact h

theorem escapeTQ_ne_qqq (r : List Nat) : escapeTQ r ≠ [34, 34, 34] := by
  intro h
  match r, h with
  | [], h => simp at h
  | [a], h =>
    by_cases ha : a = 34
    · subst ha; simp at h
    · simp [escapeTQ_ne [] ha] at h
  | [a, b], h =>
    obtain ⟨ha, h1⟩ := escapeTQ_peel h
    obtain ⟨hb, h2⟩ := escapeTQ_peel h1
    simp at h2
  | a :: b :: d :: r', h =>
    have h0 := h
    obtain ⟨ha, h1⟩ := escapeTQ_peel h
    obtain ⟨hb, h2⟩ := escapeTQ_peel h1
    obtain ⟨hd, h3⟩ := escapeTQ_peel h2
    subst ha hb hd
    simp [escapeTQ_qqq] at h0

theorem endsWith_single (v : List Nat) (c : Nat) : endsWith v [c] = true ↔ v.getLast? = some c := by
  unfold endsWith
  rw [List.isSuffixOf_iff_suffix]
  constructor
  · rintro ⟨t, rfl⟩; simp
  · intro h
    obtain ⟨ys, rfl⟩ := List.getLast?_eq_some_iff.mp h
    exact ⟨ys, rfl⟩

/-- An "open" end forces the trailing line feed. -/
theorem endsOpen_forces (v : List Nat) :
    ∀ n, v.length ≤ n → endsOpen v = true →
      v.getLast? = some 92 ∨ (v.getLast? = some 34 ∧ ¬ ([92, 34, 34, 34] <:+ escapeTQ v)) := by
  intro n
  induction n generalizing v with
  | zero =>
    intro hv ho
    have : v = [] := List.eq_nil_of_length_eq_zero (by omega)
    subst this; simp [endsOpen] at ho
  | succ n ih =>
    intro hv ho
    rcases v with _ | ⟨c, r⟩
    · simp [endsOpen] at ho
    by_cases ht : ∃ r', c = 34 ∧ r = 34 :: 34 :: r'
    · obtain ⟨r', hc, hr⟩ := ht
      subst hc hr
      have ho' : endsOpen r' = true := by rw [endsOpen] at ho; exact ho
      have hr' : r' ≠ [] := by intro h; subst h; simp [endsOpen] at ho'
      have hlast : (34 :: 34 :: 34 :: r').getLast? = r'.getLast? := by
        obtain ⟨x, xs, rfl⟩ := List.exists_cons_of_ne_nil hr'
        simp [List.getLast?_cons_cons]
      have he := escapeTQ_ne_nil hr'
      have hsuf : [92, 34, 34, 34] <:+ escapeTQ (34 :: 34 :: 34 :: r') ↔ [92, 34, 34, 34] <:+ escapeTQ r' := by
        rw [escapeTQ_qqq]
        simp [List.suffix_cons_iff, he]
      rw [hlast, hsuf]
      exact ih r' (by simp at hv; omega) ho'
    · by_cases hr : r = []
      · subst hr
        rw [endsOpen_single] at ho
        simp at ho
        rcases ho with h | h <;> subst h
        · right; simp [List.suffix_cons_iff]
        · left; rfl
      · have ho' : endsOpen r = true := by rw [endsOpen_cons_nt ht hr] at ho; exact ho
        have hlast : (c :: r).getLast? = r.getLast? := by
          obtain ⟨x, xs, rfl⟩ := List.exists_cons_of_ne_nil hr
          simp [List.getLast?_cons_cons]
        have hsuf : [92, 34, 34, 34] <:+ escapeTQ (c :: r) ↔ [92, 34, 34, 34] <:+ escapeTQ r := by
          rw [escapeTQ_cons_nt ht, List.suffix_cons_iff]
          constructor
          · rintro (h | h)
            · have := escapeTQ_ne_qqq r
              simp at h
              exact absurd h.2.symm this
            · exact h
          · exact Or.inr
        rw [hlast, hsuf]
        exact ih r (by simp at hv; omega) ho'

end Gql.Text

namespace Gql.Text

/-! ### Lines -/

theorem splitLF_ne_nil (v : List Nat) : splitLF v ≠ [] := by
  induction v with
  | nil => simp [splitLF]
  | cons c r ih =>
    by_cases hc : c = 10
    · simp [splitLF, hc]
    · simp only [splitLF, hc, ↓reduceIte]
      split <;> simp

theorem splitLF_cons_ne {c : Nat} (r : List Nat) (hc : c ≠ 10) :
    ∃ l ls, splitLF r = l :: ls ∧ splitLF (c :: r) = (c :: l) :: ls := by
  obtain ⟨l, ls, h⟩ := List.exists_cons_of_ne_nil (splitLF_ne_nil r)
  exact ⟨l, ls, h, by simp [splitLF, hc, h]⟩

theorem splitLF_lf (r : List Nat) : splitLF (10 :: r) = [] :: splitLF r := by simp [splitLF]

theorem reSplitNL_plain {c : Nat} (r : List Nat) (h10 : c ≠ 10) (h13 : c ≠ 13) :
    reSplitNL (c :: r) = match reSplitNL r with
      | l :: ls => (c :: l) :: ls
      | [] => [[c]] := by
  rw [reSplitNL] <;> first | (cases reSplitNL r <;> rfl) | (intros; simp_all)

theorem reSplitNL_lf (r : List Nat) : reSplitNL (10 :: r) = [] :: reSplitNL r := by
  rw [reSplitNL]

theorem linesFrom_eq (v : List Nat) : ∀ cur, linesFrom cur v =
    match splitLF v with
    | l :: ls => (cur ++ l) :: ls
    | [] => [cur] := by
  induction v with
  | nil => intro cur; simp [linesFrom, splitLF]
  | cons c r ih =>
    intro cur
    by_cases hc : c = 10
    · subst hc
      have := ih []
      obtain ⟨l, ls, h⟩ := List.exists_cons_of_ne_nil (splitLF_ne_nil r)
      simp [linesFrom, splitLF_lf, this, h]
    · obtain ⟨l, ls, h, h'⟩ := splitLF_cons_ne r hc
      simp [linesFrom, hc, ih, h, h']

theorem linesFrom_nil (v : List Nat) : linesFrom [] v = splitLF v := by
  rw [linesFrom_eq]
  obtain ⟨l, ls, h⟩ := List.exists_cons_of_ne_nil (splitLF_ne_nil v)
  simp [h]

theorem linesFrom_ne_nil (cur v : List Nat) : linesFrom cur v ≠ [] := by
  rw [linesFrom_eq]; split <;> simp

theorem joinLines_cons (l : List Nat) (rest : List (List Nat)) (h : rest ≠ []) :
    joinLines (l :: rest) = l ++ [10] ++ joinLines rest := by
  obtain ⟨x, xs, rfl⟩ := List.exists_cons_of_ne_nil h
  simp [joinLines]

theorem joinLines_linesFrom (v : List Nat) : ∀ cur, joinLines (linesFrom cur v) = cur ++ v := by
  induction v with
  | nil => intro cur; simp [linesFrom, joinLines]
  | cons c r ih =>
    intro cur
    by_cases hc : c = 10
    · subst hc
      simp only [linesFrom, ↓reduceIte]
      rw [joinLines_cons _ _ (linesFrom_ne_nil [] r), ih]
      simp
    · simp [linesFrom, hc, ih]

/-- Head line starting with two quotes means the text starts with two quotes. -/
theorem splitLF_head_qq {r l' : List Nat} {ls : List (List Nat)}
    (h : splitLF r = (34 :: 34 :: l') :: ls) : ∃ r', r = 34 :: 34 :: r' := by
  match r, h with
  | [], h => simp [splitLF] at h
  | [a], h =>
    by_cases ha : a = 10
    · subst ha; simp [splitLF] at h
    · simp [splitLF, ha] at h
  | a :: b :: r', h =>
    by_cases ha : a = 10
    · subst ha; simp [splitLF] at h
    · obtain ⟨l1, ls1, h1, h1'⟩ := splitLF_cons_ne (b :: r') ha
      rw [h1'] at h
      by_cases hb : b = 10
      · subst hb
        simp [splitLF] at h1
        simp at h
        obtain ⟨⟨_, h2⟩, _⟩ := h
        rw [h1.1] at h2
        simp at h2
      · obtain ⟨l2, ls2, h2, h2'⟩ := splitLF_cons_ne r' hb
        rw [h2'] at h1
        simp at h h1
        obtain ⟨⟨ha', hl1⟩, _⟩ := h
        obtain ⟨hl2, _⟩ := h1
        rw [← hl2] at hl1
        simp at hl1
        exact ⟨r', by rw [ha', hl1.1]⟩

theorem reSplitNL_escapeTQ (v : List Nat) :
    ∀ n, v.length ≤ n → (∀ c ∈ v, c ≠ 13) → reSplitNL (escapeTQ v) = (splitLF v).map escapeTQ := by
  intro n
  induction n generalizing v with
  | zero =>
    intro hv _
    have : v = [] := List.eq_nil_of_length_eq_zero (by omega)
    subst this; simp [reSplitNL, splitLF]
  | succ n ih =>
    intro hv h13
    rcases v with _ | ⟨c, r⟩
    · simp [reSplitNL, splitLF]
    have h13r : ∀ d ∈ r, d ≠ 13 := fun d hd => h13 d (by simp [hd])
    by_cases ht : ∃ r', c = 34 ∧ r = 34 :: 34 :: r'
    · obtain ⟨r', hc, hr⟩ := ht
      subst hc hr
      have h13r' : ∀ d ∈ r', d ≠ 13 := fun d hd => h13 d (by simp [hd])
      have := ih r' (by simp at hv; omega) h13r'
      obtain ⟨l, ls, hl⟩ := List.exists_cons_of_ne_nil (splitLF_ne_nil r')
      rw [escapeTQ_qqq]
      rw [reSplitNL_plain _ (by decide) (by decide), reSplitNL_plain _ (by decide) (by decide),
        reSplitNL_plain _ (by decide) (by decide), reSplitNL_plain _ (by decide) (by decide), this, hl]
      simp [splitLF, hl, escapeTQ_qqq]
    · rw [escapeTQ_cons_nt ht]
      by_cases hc : c = 10
      · subst hc
        rw [reSplitNL_lf, splitLF_lf, ih r (by simp at hv; omega) h13r]
        simp
      · have hc13 : c ≠ 13 := h13 c (by simp)
        obtain ⟨l, ls, hl, hl'⟩ := splitLF_cons_ne r hc
        rw [reSplitNL_plain _ hc hc13, ih r (by simp at hv; omega) h13r, hl, hl']
        simp only [List.map_cons]
        have : escapeTQ (c :: l) = c :: escapeTQ l := by
          apply escapeTQ_cons_nt
          rintro ⟨l', hc34, hl34⟩
          obtain ⟨r', hr'⟩ := splitLF_head_qq (hl34 ▸ hl)
          exact ht ⟨r', hc34, hr'⟩
        rw [this]

theorem emptyOrIndented_escapeTQ (l : List Nat) : emptyOrIndented (escapeTQ l) = emptyOrIndented l := by
  cases l with
  | nil => simp [emptyOrIndented]
  | cons c r =>
    by_cases ht : ∃ r', c = 34 ∧ r = 34 :: 34 :: r'
    · obtain ⟨r', hc, hr⟩ := ht; subst hc hr
      simp [escapeTQ_qqq, emptyOrIndented, isBlankCh]
    · simp [escapeTQ_cons_nt ht, emptyOrIndented]

end Gql.Text
