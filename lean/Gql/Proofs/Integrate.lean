import Gql.Proofs.Shrink
/-!
`_maybe_integrate_work` of a well-formed `Work` keeps the graph invariant (relative to the
environment ghost extended by the work's fresh objects), and what it returns.
-/
namespace Gql.Async

theorem attachGroup_taskNodes (σ : Static) (hpt : Bool) (g : Nat) (r : WQ × List Nat) :
    (attachGroup σ hpt g r).1.taskNodes = r.1.taskNodes := by
  unfold attachGroup
  simp only
  split
  · split <;> rfl
  · split <;> rfl

theorem attachSeq_taskNodes (σ : Static) (hpt : Bool) (S : List Nat) (r : WQ × List Nat) :
    (attachSeq σ hpt S r).1.taskNodes = r.1.taskNodes := by
  induction S generalizing r with
  | nil => rfl
  | cons g S ih =>
    have : attachSeq σ hpt (g :: S) r = attachSeq σ hpt S (attachGroup σ hpt g r) := rfl
    rw [this, ih, attachGroup_taskNodes]

/-- The fields of `workOk`, as propositions. -/
structure WorkOk (σ : Static) (e : EnvSt) (q : WQ) (w : Work) : Prop where
  gnodup : w.groups.Nodup
  snodup : w.streams.Nodup
  gfresh : ∀ g ∈ w.groups, g ∉ e.introG
  sfresh : ∀ s ∈ w.streams, s ∉ e.introS
  noself : ∀ g ∈ w.groups, ∀ p, σ.parent g = some p → p ≠ g
  plt : ∀ g ∈ w.groups, ∀ p, σ.parent g = some p → p < g

theorem nodupB_iff (xs : List Nat) : nodupB xs = true ↔ xs.Nodup := by
  induction xs with
  | nil => simp [nodupB]
  | cons x r ih => simp [nodupB, ih, List.nodup_cons]

/-- E2: the parent of a new group is in the same work or was introduced earlier. -/
theorem workOk_parent (σ : Static) (e : EnvSt) (q : WQ) (pr : Option Nat) (w : Work)
    (h : workOk σ e q pr w = true) :
    ∀ g ∈ w.groups, ∀ p, σ.parent g = some p → p ∈ w.groups ∨ p ∈ e.introG := by
  unfold workOk at h
  simp only [Bool.and_eq_true, List.all_eq_true, Bool.not_eq_true', nodupB_iff] at h
  obtain ⟨⟨_, h7⟩, _⟩ := h
  intro g hg p hp
  have := h7 g hg
  rw [hp] at this
  simp only [Bool.and_eq_true, decide_eq_true_eq, Bool.or_eq_true, List.contains_iff_mem] at this
  exact this.2

theorem workOk_of (σ : Static) (e : EnvSt) (q : WQ) (pr : Option Nat) (w : Work)
    (h : workOk σ e q pr w = true) : WorkOk σ e q w := by
  unfold workOk at h
  simp only [Bool.and_eq_true, List.all_eq_true, Bool.not_eq_true', nodupB_iff] at h
  obtain ⟨⟨⟨⟨⟨⟨⟨h1, _⟩, h3⟩, h4⟩, _⟩, h6⟩, h7⟩, _⟩ := h
  have hpar : ∀ g ∈ w.groups, ∀ p, σ.parent g = some p → p < g := by
    intro g hg p hp
    have := h7 g hg
    rw [hp] at this
    simp only [Bool.and_eq_true, decide_eq_true_eq] at this
    exact this.1
  refine ⟨h1, h3, ?_, ?_, ?_, ?_⟩
  · intro g hg hm
    have := h4 g hg
    simp [hm] at this
  · intro s hs hm
    have := h6 s hs
    simp [hm] at this
  · intro g hg p hp
    exact Nat.ne_of_lt (hpar g hg p hp)
  · intro g hg p hp; exact hpar g hg p hp

/-- The group part of `_maybe_integrate_work`. -/
theorem addGroups_good (σ : Static) (e : EnvSt) (q : WQ) (w : Work) (hpt : Bool)
    (g : Good σ e q) (ok : WorkOk σ e q w) :
    Good σ (e.intro (some w)) (addGroups σ q w.groups hpt).1 ∧
    RootFrame q (addGroups σ q w.groups hpt).1 ∧
    (addGroups σ q w.groups hpt).1.taskNodes = q.taskNodes ∧
    (addGroups σ q w.groups hpt).2.Nodup ∧
    ∀ x ∈ (addGroups σ q w.groups hpt).2, x ∈ w.groups ∧ σ.parent x = none ∧ hpt = false := by
  obtain ⟨S, hS, hn, hsub⟩ := addGroups_seq σ q w.groups hpt
  rw [hS]
  obtain ⟨f, k, fr⟩ := attachSeq_forest σ hpt S (q, []) e.introG g.forest g.known hn
    (fun x hx => ok.gfresh x (hsub x hx)) (fun x hx => ok.noself x (hsub x hx))
  have ht := attachSeq_taskNodes σ hpt S (q, [])
  have hsnd := attachSeq_snd σ hpt S (q, [])
  refine ⟨⟨f, ?_, ?_, ?_⟩, fr, ht, ?_, ?_⟩
  · refine k.mono ?_
    intro x hx
    simp only [EnvSt.intro, List.mem_append] at hx ⊢
    rcases hx with h | h
    · exact Or.inl (hsub x h)
    · exact Or.inr h
  · exact g.sforest.shrink (tsub_of_eq ht) (fun x hx => fr.rs ▸ hx)
  · have := g.sknown.shrink (tsub_of_eq ht) (fun x hx => fr.rs ▸ hx)
    exact ⟨fun s hs => by simp only [EnvSt.intro, List.mem_append]; exact Or.inr (this.roots s hs),
      fun t tn s a b => by simp only [EnvSt.intro, List.mem_append]; exact Or.inr (this.children t tn s a b)⟩
  · rw [hsnd]; simp only [List.nil_append]
    exact hn.sublist List.filter_sublist
  · intro x hx
    rw [hsnd] at hx
    simp only [List.nil_append, List.mem_filter, Bool.and_eq_true, Bool.not_eq_true',
      Option.isNone_iff_eq_none] at hx
    exact ⟨hsub x hx.1, hx.2.2, hx.2.1⟩

/-- `_add_streams` with a producing task: fresh streams wait in the task's node. -/
theorem addStreams_good (σ : Static) (e : EnvSt) (q : WQ) (w : Work) (t : Nat)
    (g : Good σ (e.intro (some w)) q) (hold : SKnown e.introS q) (ok : WorkOk σ e q w) :
    Good σ (e.intro (some w)) (addStreams q w.streams (some t)).1 ∧
    RootFrame q (addStreams q w.streams (some t)).1 ∧ (addStreams q w.streams (some t)).2 = [] := by
  unfold addStreams
  simp only
  cases ht : alookup q.taskNodes t with
  | none => exact ⟨g, RootFrame.refl q, rfl⟩
  | some tn =>
    simp only
    refine ⟨⟨?_, ?_, ?_, ?_⟩, ⟨rfl, rfl, rfl, rfl⟩, trivial⟩
    · exact g.forest.sub (subGraph_of_eq rfl) (fun x hx => hx)
    · exact g.known.sub (subGraph_of_eq rfl) (fun x hx => hx)
    · -- streams
      have look : ∀ x tn', alookup (aset q.taskNodes t { tn with childStreams := tn.childStreams ++ w.streams }) x = some tn' →
          (x = t ∧ tn'.childStreams = tn.childStreams ++ w.streams) ∨
          (x ≠ t ∧ alookup q.taskNodes x = some tn') := by
        intro x tn' hx
        by_cases ex : t = x
        · subst ex; rw [alookup_aset_self] at hx; cases hx; exact Or.inl ⟨rfl, rfl⟩
        · rw [alookup_aset_ne _ _ _ _ ex] at hx; exact Or.inr ⟨fun h => ex h.symm, hx⟩
      refine ⟨?_, ?_, ?_⟩
      · intro x tn' hx
        rcases look x tn' hx with ⟨_, h2⟩ | ⟨_, h2⟩
        · rw [h2, List.nodup_append]
          refine ⟨g.sforest.nodup t tn ht, ok.snodup, ?_⟩
          intro a ha b hb eab
          subst eab
          exact ok.sfresh a hb (hold.children t tn a ht ha)
        · exact g.sforest.nodup x tn' h2
      · intro x tn' s hx hs hroot
        rcases look x tn' hx with ⟨_, h2⟩ | ⟨_, h2⟩
        · rw [h2] at hs
          rcases List.mem_append.mp hs with hs | hs
          · exact g.sforest.notRoot t tn s ht hs hroot
          · exact ok.sfresh s hs (hold.roots s hroot)
        · exact g.sforest.notRoot x tn' s h2 hs hroot
      · intro x y tx ty s hx hy hsx hsy
        rcases look x tx hx with ⟨ex, h2⟩ | ⟨ex, h2⟩ <;> rcases look y ty hy with ⟨ey, h3⟩ | ⟨ey, h3⟩
        · rw [ex, ey]
        · rw [h2] at hsx
          rcases List.mem_append.mp hsx with hsx | hsx
          · rw [ex]; exact g.sforest.owner t y tn ty s ht h3 hsx hsy
          · exact absurd (hold.children y ty s h3 hsy) (ok.sfresh s hsx)
        · rw [h3] at hsy
          rcases List.mem_append.mp hsy with hsy | hsy
          · rw [ey]; exact g.sforest.owner x t tx tn s h2 ht hsx hsy
          · exact absurd (hold.children x tx s h2 hsx) (ok.sfresh s hsy)
        · exact g.sforest.owner x y tx ty s h2 h3 hsx hsy
    · refine ⟨g.sknown.roots, ?_⟩
      intro x tn' s hx hs
      by_cases ex : t = x
      · subst ex
        simp only at hx
        rw [alookup_aset_self] at hx; cases hx
        simp only at hs
        rcases List.mem_append.mp hs with hs | hs
        · exact g.sknown.children t tn s ht hs
        · simp only [EnvSt.intro, List.mem_append]; exact Or.inl hs
      · simp only at hx
        rw [alookup_aset_ne _ _ _ _ ex] at hx
        exact g.sknown.children x tn' s hx hs

end Gql.Async
