import Gql.Proofs.CoerceOneOf
/-
Infrastructure for the literal side of C15: well-formedness of literals, unfolding lemmas for
`coerceLiteral` / `validateLiteral`, facts about `litGetLast` / `litNames`.
-/
namespace Gql.Values
open Gql

mutual
/-- field names of every object literal are pairwise different, recursively
(what `UniqueInputFieldNamesRule` enforces) -/
def Lit.Unique : Lit → Prop
  | .list xs => Lit.UniqueList xs
  | .obj fs => (fs.map (·.1)).Nodup ∧ Lit.UniqueFields fs
  | _ => True
def Lit.UniqueList : List Lit → Prop
  | [] => True
  | x :: xs => Lit.Unique x ∧ Lit.UniqueList xs
def Lit.UniqueFields : List (List Nat × Lit) → Prop
  | [] => True
  | (_, x) :: rest => Lit.Unique x ∧ Lit.UniqueFields rest
end

theorem Lit.UniqueList_mem {xs : List Lit} {x : Lit} (h : Lit.UniqueList xs) (hm : x ∈ xs) : x.Unique := by
  induction xs with
  | nil => simp at hm
  | cons hd tl ih =>
    simp only [Lit.UniqueList] at h
    simp only [List.mem_cons] at hm
    rcases hm with rfl | hm
    · exact h.1
    · exact ih h.2 hm

theorem Lit.UniqueFields_mem {fs : List (List Nat × Lit)} {k : List Nat} {x : Lit}
    (h : Lit.UniqueFields fs) (hm : (k, x) ∈ fs) : x.Unique := by
  induction fs with
  | nil => simp at hm
  | cons hd tl ih =>
    obtain ⟨k0, x0⟩ := hd
    simp only [Lit.UniqueFields] at h
    simp only [List.mem_cons, Prod.mk.injEq] at hm
    rcases hm with ⟨_, rfl⟩ | hm
    · exact h.1
    · exact ih h.2 hm

theorem Lit.isConstList_mem {xs : List Lit} {x : Lit} (h : Lit.isConstList xs = true) (hm : x ∈ xs) :
    x.isConst = true := by
  induction xs with
  | nil => simp at hm
  | cons hd tl ih =>
    simp only [Lit.isConstList, Bool.and_eq_true] at h
    simp only [List.mem_cons] at hm
    rcases hm with rfl | hm
    · exact h.1
    · exact ih h.2 hm

theorem Lit.isConstFields_mem {fs : List (List Nat × Lit)} {k : List Nat} {x : Lit}
    (h : Lit.isConstFields fs = true) (hm : (k, x) ∈ fs) : x.isConst = true := by
  induction fs with
  | nil => simp at hm
  | cons hd tl ih =>
    obtain ⟨k0, x0⟩ := hd
    simp only [Lit.isConstFields, Bool.and_eq_true] at h
    simp only [List.mem_cons, Prod.mk.injEq] at hm
    rcases hm with ⟨_, rfl⟩ | hm
    · exact h.1
    · exact ih h.2 hm

theorem Lit.asList_props {l : Lit} {items : List Lit} (h : l.asList = some items) :
    (l.Unique → Lit.UniqueList items) ∧ (l.isConst = true → Lit.isConstList items = true) := by
  cases l <;> simp [Lit.asList] at h
  subst h
  exact ⟨fun hu => by simpa [Lit.Unique] using hu, fun hc => by simpa [Lit.isConst] using hc⟩

theorem Lit.asObj_props {l : Lit} {fs : List (List Nat × Lit)} (h : l.asObj = some fs) :
    (l.Unique → (fs.map (·.1)).Nodup ∧ Lit.UniqueFields fs) ∧ (l.isConst = true → Lit.isConstFields fs = true) := by
  cases l <;> simp [Lit.asObj] at h
  subst h
  exact ⟨fun hu => by simpa [Lit.Unique] using hu, fun hc => by simpa [Lit.isConst] using hc⟩

theorem Lit.isVar_iff (l : Lit) : l.isVar = true ↔ ∃ x, l.asVar = some x := by
  cases l <;> simp [Lit.isVar, Lit.asVar]

theorem Lit.not_const_of_var {l : Lit} {x : List Nat} (h : l.asVar = some x) : l.isConst = false := by
  cases l <;> simp [Lit.asVar] at h; simp [Lit.isConst]

theorem litVarValue_of_asVar {vars : Option VarValues} {l : Lit} {x : List Nat} (h : l.asVar = some x) :
    litVarValue vars l = varGet vars x := by
  cases l <;> simp [Lit.asVar] at h; subst h; rfl

/-! ### `litGetLast` and `litNames` -/

theorem litGetLast_mem {fs : List (List Nat × Lit)} {k : List Nat} {v : Lit}
    (h : litGetLast fs k = some v) : (k, v) ∈ fs := by
  induction fs with
  | nil => simp [litGetLast] at h
  | cons hd tl ih =>
    obtain ⟨k0, v0⟩ := hd
    unfold litGetLast at h
    split at h
    · rename_i w hw; simp only [Option.some.injEq] at h; subst h; simp [ih hw]
    · split at h
      · rename_i hk; simp only [Option.some.injEq] at h; subst h; subst hk; simp
      · simp at h

theorem litGetLast_none {fs : List (List Nat × Lit)} {k : List Nat}
    (h : ∀ v, (k, v) ∉ fs) : litGetLast fs k = none := by
  cases hg : litGetLast fs k with
  | none => rfl
  | some v => exact absurd (litGetLast_mem hg) (h v)

theorem litGetLast_of_mem_nodup {fs : List (List Nat × Lit)} {k : List Nat} {v : Lit}
    (hnd : (fs.map (·.1)).Nodup) (h : (k, v) ∈ fs) : litGetLast fs k = some v := by
  induction fs with
  | nil => simp at h
  | cons hd tl ih =>
    obtain ⟨k0, v0⟩ := hd
    simp only [List.map_cons, List.nodup_cons, List.mem_map, not_exists, not_and] at hnd
    simp only [List.mem_cons, Prod.mk.injEq] at h
    unfold litGetLast
    rcases h with ⟨rfl, rfl⟩ | h
    · have : litGetLast tl k = none := litGetLast_none (fun v hv => hnd.1 (k, v) hv rfl)
      simp [this]
    · simp [ih hnd.2 h]

theorem eraseDups_of_nodup {l : List (List Nat)} (h : l.Nodup) : l.eraseDups = l := by
  induction l with
  | nil => rfl
  | cons a as ih =>
    simp only [List.nodup_cons] at h
    rw [List.eraseDups_cons]
    have : as.filter (fun b => !b == a) = as := by
      rw [List.filter_eq_self]
      intro b hb
      have : b ≠ a := fun hc => h.1 (hc ▸ hb)
      simpa using this
    rw [this, ih h.2]

theorem litNames_of_nodup {fs : List (List Nat × Lit)} (h : (fs.map (·.1)).Nodup) :
    litNames fs = fs.map (·.1) := eraseDups_of_nodup h

/-! ### unfolding lemmas -/

/-- per-field function of the object case of `coerceLiteral` -/
def litG (c : PyConv) (D : Field → R) (tm : TypeMap) (vars : Option VarValues) (fs : List (List Nat × Lit))
    (f : Field) : Out Unit FieldRes :=
  match _h : litGetLast fs f.name with
  | some fv =>
    if fv.isVar && !isDefined (litVarValue vars fv) then fieldMissing D f
    else fieldOfCoerced f.name (coerceLiteral c D tm vars fv f.type)
  | none => fieldMissing D f

/-- per-field function of the object case of `validateLiteral` -/
def litH (c : PyConv) (tm : TypeMap) (vars : Option VarValues) (oneOf : Bool) (fs : List (List Nat × Lit))
    (path : Path) (f : Field) : List Path :=
  match _h : litGetLast fs f.name with
  | some fv =>
    if fv.isVar && vars.isSome && !oneOf && !isDefined (litVarValue vars fv) && !f.isRequired then []
    else
      (if vars.isSome then fieldVarErrors vars oneOf path fv else [])
      ++ validateLiteral c tm vars fv f.type (path ++ [.key f.name])
  | none => if f.isRequired then [path] else []

section unfold
variable (c : PyConv) (D : Field → R) (tm : TypeMap) (vars : Option VarValues)

theorem coerceLiteral_var {l : Lit} {x : List Nat} (t : InType) (hv : l.asVar = some x) :
    coerceLiteral c D tm vars l t =
      if (varGet vars x).isNullish && t.isNonNull then .ok .undefined else .ok (varGet vars x) := by
  cases t <;> rw [coerceLiteral] <;> simp [hv]

theorem validateLiteral_var {l : Lit} {x : List Nat} (t : InType) (path : Path) (hv : l.asVar = some x) :
    validateLiteral c tm vars l t path =
      if vars.isNone then [] else if t.isNonNull && (varGet vars x).isNullish then [path] else [] := by
  cases t <;> rw [validateLiteral] <;> simp [hv]

theorem coerceLiteral_nonNull {l : Lit} {t' : InType} (hv : l.asVar = none) :
    coerceLiteral c D tm vars l (.nonNull t') =
      if l.isNull then .ok .undefined else coerceLiteral c D tm vars l t' := by
  rw [coerceLiteral]; simp [hv]

theorem validateLiteral_nonNull {l : Lit} {t' : InType} {path : Path} (hv : l.asVar = none) :
    validateLiteral c tm vars l (.nonNull t') path =
      if l.isNull then [path] else validateLiteral c tm vars l t' path := by
  rw [validateLiteral]; simp [hv]

theorem coerceLiteral_null {l : Lit} (t : InType) (hv : l.asVar = none) (hn : l.isNull = true) :
    coerceLiteral c D tm vars l t = .ok (if t.isNonNull then .undefined else .none) := by
  cases t <;> rw [coerceLiteral] <;> simp [hv, hn, InType.isNonNull]

theorem coerceLiteral_list_iter {l : Lit} {t' : InType} {items : List Lit}
    (hv : l.asVar = none) (hn : ¬ l.isNull = true) (hl : l.asList = some items) :
    coerceLiteral c D tm vars l (.list t') =
      wrapList (seqItems (items.attach.map fun ⟨it, _⟩ =>
        listItemLiteral vars it t'.isNonNull (coerceLiteral c D tm vars it t'))) := by
  rw [coerceLiteral]; simp only [hv, hn, Bool.false_eq_true, ↓reduceIte]
  split
  · rename_i xs' h'; rw [hl] at h'; cases h'; rfl
  · rename_i h'; rw [hl] at h'; cases h'

theorem coerceLiteral_list_single {l : Lit} {t' : InType}
    (hv : l.asVar = none) (hn : ¬ l.isNull = true) (hl : l.asList = none) :
    coerceLiteral c D tm vars l (.list t') =
      (match coerceLiteral c D tm vars l t' with
        | .ok .undefined => .ok .undefined
        | .ok r => .ok (.list [r])
        | .err e => .err e
        | .crash k => .crash k) := by
  rw [coerceLiteral]; simp only [hv, hn, Bool.false_eq_true, ↓reduceIte]
  split
  · rename_i xs' h'; rw [hl] at h'; cases h'
  · rfl

theorem validateLiteral_list_iter {l : Lit} {t' : InType} {items : List Lit} {path : Path}
    (hv : l.asVar = none) (hn : ¬ l.isNull = true) (hl : l.asList = some items) :
    validateLiteral c tm vars l (.list t') path =
      items.attach.zipIdx.flatMap fun ⟨⟨it, _⟩, i⟩ => validateLiteral c tm vars it t' (path ++ [.idx i]) := by
  rw [validateLiteral]; simp only [hv, hn, Bool.false_eq_true, ↓reduceIte]
  split
  · rename_i xs' h'; rw [hl] at h'; cases h'; rfl
  · rename_i h'; rw [hl] at h'; cases h'

theorem validateLiteral_list_single {l : Lit} {t' : InType} {path : Path}
    (hv : l.asVar = none) (hn : ¬ l.isNull = true) (hl : l.asList = none) :
    validateLiteral c tm vars l (.list t') path = validateLiteral c tm vars l t' path := by
  rw [validateLiteral]; simp only [hv, hn, Bool.false_eq_true, ↓reduceIte]
  split
  · rename_i xs' h'; rw [hl] at h'; cases h'
  · rfl

theorem coerceLiteral_obj {l : Lit} {n : List Nat} {fields : List Field} {oneOf : Bool}
    {fs : List (List Nat × Lit)}
    (hv : l.asVar = none) (hn : ¬ l.isNull = true) (hf : tm.find n = some (.inputObject fields oneOf))
    (ho : l.asObj = some fs) :
    coerceLiteral c D tm vars l (.named n) =
      if fs.any (fun kv => !fields.any (fun f => f.name = kv.1)) then .ok .undefined
      else
        match seqFields (fields.map (litG c D tm vars fs)) with
        | .ok (some entries) => if oneOf then oneOfLiteral fs entries else .ok (.dict entries)
        | .ok none => .ok .undefined
        | .err e => .err e
        | .crash k => .crash k := by
  rw [coerceLiteral]; simp only [hv, hn, Bool.false_eq_true, ↓reduceIte, hf]
  split
  · rename_i fs' h'; rw [ho] at h'; cases h'; rfl
  · rename_i h'; rw [ho] at h'; cases h'

theorem coerceLiteral_notobj {l : Lit} {n : List Nat} {fields : List Field} {oneOf : Bool}
    (hv : l.asVar = none) (hn : ¬ l.isNull = true) (hf : tm.find n = some (.inputObject fields oneOf))
    (ho : l.asObj = none) :
    coerceLiteral c D tm vars l (.named n) = .ok .undefined := by
  rw [coerceLiteral]; simp only [hv, hn, Bool.false_eq_true, ↓reduceIte, hf]
  split
  · rename_i fs' h'; rw [ho] at h'; cases h'
  · rfl

theorem validateLiteral_obj {l : Lit} {n : List Nat} {fields : List Field} {oneOf : Bool}
    {fs : List (List Nat × Lit)} {path : Path}
    (hv : l.asVar = none) (hn : ¬ l.isNull = true) (hf : tm.find n = some (.inputObject fields oneOf))
    (ho : l.asObj = some fs) :
    validateLiteral c tm vars l (.named n) path =
      fields.flatMap (litH c tm vars oneOf fs path)
        ++ ((fs.filter fun kv => !fields.any (fun f => f.name = kv.1)).map fun _ => path)
        ++ (if oneOf then
              oneOfLiteralErrors path (fs.filter fun kv => fields.any (fun f => f.name = kv.1))
            else []) := by
  rw [validateLiteral]; simp only [hv, hn, Bool.false_eq_true, ↓reduceIte, hf]
  split
  · rename_i fs' h'; rw [ho] at h'; cases h'; rfl
  · rename_i h'; rw [ho] at h'; cases h'

theorem validateLiteral_notobj {l : Lit} {n : List Nat} {fields : List Field} {oneOf : Bool} {path : Path}
    (hv : l.asVar = none) (hn : ¬ l.isNull = true) (hf : tm.find n = some (.inputObject fields oneOf))
    (ho : l.asObj = none) :
    validateLiteral c tm vars l (.named n) path = [path] := by
  rw [validateLiteral]; simp only [hv, hn, Bool.false_eq_true, ↓reduceIte, hf]
  split
  · rename_i fs' h'; rw [ho] at h'; cases h'
  · rfl

end unfold

end Gql.Values
