import Gql.Proofs.SchemaText7
/-!
C17, text level, part 8: the number recogniser `numOk` of `textWFb` is *complete* for C08's `IsNum`
(soundness: `isNum_of_numOk` in part 7), so the number clause of `textWFb` excludes nothing.
-/
namespace Gql.Types.PrintSchema
open Gql Gql.Text Gql.Syntax Gql.Generated Gql.Spec.Lex

theorem digit_iff (c : Nat) : Digit c ↔ isDigit c = true := by
  simp [Digit, isDigit]

/-- What follows a digit run: nothing, or a non-digit. -/
def NoDigitHead (t : List Nat) : Prop := ∀ c, t.head? = some c → ¬ Digit c

theorem digitsLen_run (ds t : List Nat) (hd : ds.all isDigit = true) (ht : NoDigitHead t) :
    digitsLen (ds ++ t) = ds.length := by
  induction ds with
  | nil =>
    cases t with
    | nil => rfl
    | cons c r => simp [digitsLen, ht c rfl]
  | cons d r ih =>
    simp only [List.all_cons, Bool.and_eq_true] at hd
    have hdd : Digit d := (digit_iff d).mpr hd.1
    simp [digitsLen, hdd, ih hd.2]

theorem digits1?_run (ds t : List Nat) (hd : digitsOK ds = true) (ht : NoDigitHead t) :
    digits1? (ds ++ t) = some ds.length := by
  simp only [digitsOK, Bool.and_eq_true, Bool.not_eq_true', List.isEmpty_eq_false_iff] at hd
  unfold digits1?
  rw [digitsLen_run ds t hd.2 ht]
  have : ds.length ≠ 0 := by
    intro h0; exact hd.1 (List.eq_nil_of_length_eq_zero h0)
  simp [this]

theorem noDigitHead_nil : NoDigitHead [] := by intro c h; simp at h

theorem noDigitHead_cons {c : Nat} {r : List Nat} (h : ¬ Digit c) : NoDigitHead (c :: r) := by
  intro d hd; simp at hd; subst hd; exact h

theorem intPartOK_cons {c : Nat} {r : List Nat} (h : intPartOK (c :: r) = true) :
    (c = 48 ∧ r = []) ∨ (NonZeroDigit c ∧ r.all isDigit = true) := by
  unfold intPartOK at h
  split at h
  · rename_i heq; cases heq; exact Or.inl ⟨rfl, rfl⟩
  · rename_i c' r' _ heq
    cases heq
    simp only [Bool.and_eq_true, decide_eq_true_eq] at h
    exact Or.inr ⟨⟨h.1.1, h.1.2⟩, h.2⟩
  · rename_i heq; cases heq

theorem unsignedIntegerPart?_run (ip t : List Nat) (hip : intPartOK ip = true) (ht : NoDigitHead t) :
    unsignedIntegerPart? (ip ++ t) = some ip.length := by
  cases ip with
  | nil => simp [intPartOK] at hip
  | cons c r =>
    rcases intPartOK_cons hip with ⟨rfl, rfl⟩ | ⟨hnz, hr⟩
    · simp [unsignedIntegerPart?]
    · have h48 : c ≠ 48 := by unfold NonZeroDigit at hnz; omega
      simp only [List.cons_append, unsignedIntegerPart?, if_neg h48, if_pos hnz, digitsLen_run r t hr ht,
        List.length_cons]
      congr 1; omega

theorem integerPart?_run (sign ip t : List Nat) (hs : sign = [] ∨ sign = [45]) (hip : intPartOK ip = true)
    (ht : NoDigitHead t) : integerPart? (sign ++ (ip ++ t)) = some (sign.length + ip.length) := by
  rcases hs with rfl | rfl
  · cases ip with
    | nil => simp [intPartOK] at hip
    | cons c r =>
      have h45 : c ≠ 45 := by
        rcases intPartOK_cons hip with ⟨rfl, _⟩ | ⟨hnz, _⟩
        · omega
        · unfold NonZeroDigit at hnz; omega
      have := unsignedIntegerPart?_run (c :: r) t hip ht
      simp only [List.cons_append] at this
      simp only [List.nil_append, List.cons_append, integerPart?, if_neg h45, this, List.length_nil, Nat.zero_add]
  · have := unsignedIntegerPart?_run ip t hip ht
    simp only [List.cons_append, List.nil_append, integerPart?, if_true, this, Option.map_some,
      List.length_cons, List.length_nil]
    congr 1; omega

theorem fractionalPart?_run (ds t : List Nat) (hd : digitsOK ds = true) (ht : NoDigitHead t) :
    fractionalPart? (46 :: ds ++ t) = some (1 + ds.length) := by
  simp only [List.cons_append, fractionalPart?, if_true, digits1?_run ds t hd ht, Option.map_some]
  congr 1; omega

theorem exponentPart?_run (e : Nat) (sg ds : List Nat) (he : e = 69 ∨ e = 101)
    (hsg : sg = [] ∨ sg = [43] ∨ sg = [45]) (hd : digitsOK ds = true) :
    exponentPart? (e :: (sg ++ ds)) = some (1 + sg.length + ds.length) := by
  have hrun := digits1?_run ds [] hd noDigitHead_nil
  simp only [List.append_nil] at hrun
  rcases hsg with rfl | rfl | rfl
  · cases ds with
    | nil => simp [digitsOK] at hd
    | cons d r =>
      have hdd : Digit d := by
        simp only [digitsOK, List.all_cons, Bool.and_eq_true] at hd
        exact (digit_iff d).mpr hd.2.1
      have hne : ¬ (d = 43 ∨ d = 45) := by unfold Digit at hdd; omega
      simp only [List.nil_append, exponentPart?, if_pos he, if_neg hne, hrun, Option.map_some,
        List.length_nil, List.length_cons]
      congr 1; omega
  · simp only [List.cons_append, List.nil_append, exponentPart?, if_pos he, true_or, if_true, hrun,
      Option.map_some, List.length_cons, List.length_nil]
    congr 1; omega
  · simp only [List.cons_append, List.nil_append, exponentPart?, if_pos he, or_true, if_true, hrun,
      Option.map_some, List.length_cons, List.length_nil]
    congr 1; omega

theorem mem_expCandidates_end (n : Nat) (fl : Bool) : (fl, n) ∈ expCandidates [] n fl := by
  simp [expCandidates, numberLookaheadOk]

theorem mem_expCandidates_exp (ex : List Nat) (n : Nat) (fl : Bool)
    (he : exponentPart? ex = some ex.length) : (true, n + ex.length) ∈ expCandidates ex n fl := by
  unfold expCandidates
  rw [he]
  simp [numberLookaheadOk]

theorem drop_two (a b t : List Nat) : (a ++ (b ++ t)).drop (a.length + b.length) = t := by
  rw [← List.append_assoc, ← List.length_append]
  simp

theorem drop_three (a b c t : List Nat) :
    (a ++ (b ++ (c ++ t))).drop (a.length + b.length + c.length) = t := by
  rw [← List.append_assoc, ← List.append_assoc, ← List.length_append, ← List.length_append]
  simp

/-- **Completeness of the number recogniser**: every `IntValue` / `FloatValue` text in C08's sense
is accepted. -/
theorem numOk_of_isNum {fl : Bool} {s : List Nat} (h : IsNum fl s) : numOk fl s = true := by
  obtain ⟨⟨sign, ip, fr, ex⟩, ⟨hsign, hip, hfr, hex⟩, rfl, rfl⟩ := h
  simp only at hsign hip hfr hex
  suffices hm : (NumParts.isFloat ⟨sign, ip, fr, ex⟩, (NumParts.text ⟨sign, ip, fr, ex⟩).length) ∈
      numberCandidates (NumParts.text ⟨sign, ip, fr, ex⟩) by
    unfold numOk; simpa using hm
  simp only [NumParts.text, NumParts.isFloat]
  -- the exponent part, when present, is recognised to the end of the text
  have hexp : ex = [] ∨ (ex ≠ [] ∧ exponentPart? ex = some ex.length ∧ NoDigitHead ex) := by
    rcases hex with rfl | ⟨e, sg, ds, rfl, he, hsg, hds⟩
    · exact Or.inl rfl
    · refine Or.inr ⟨by simp, ?_, ?_⟩
      · rw [exponentPart?_run e sg ds he hsg hds]
        congr 1; simp only [List.length_cons, List.length_append]; omega
      · apply noDigitHead_cons
        unfold Digit; rcases he with rfl | rfl <;> omega
  have hexHead : NoDigitHead ex := by
    rcases hexp with rfl | ⟨_, _, h3⟩
    · exact noDigitHead_nil
    · exact h3
  have htail : NoDigitHead (fr ++ ex) := by
    rcases hfr with rfl | ⟨ds, rfl, _⟩
    · simpa using hexHead
    · simp only [List.cons_append]
      apply noDigitHead_cons; unfold Digit; omega
  have hI := integerPart?_run sign ip (fr ++ ex) hsign hip htail
  unfold numberCandidates
  rw [hI]
  simp only [drop_two]
  rw [List.mem_append]
  rcases hfr with rfl | ⟨ds, rfl, hds⟩
  · -- no fractional part
    left
    simp only [List.nil_append, List.isEmpty_nil, Bool.not_true, Bool.false_or, List.length_append,
      List.length_nil, Nat.zero_add]
    rcases hexp with rfl | ⟨hne, he, _⟩
    · simpa using mem_expCandidates_end (sign.length + ip.length) false
    · have := mem_expCandidates_exp ex (sign.length + ip.length) false he
      have hb : (!ex.isEmpty) = true := by cases ex <;> simp at hne ⊢
      simpa [hb, Nat.add_assoc] using this
  · -- a fractional part
    right
    have hF := fractionalPart?_run ds ex hds hexHead
    rw [hF]
    simp only
    have hd3 : (sign ++ (ip ++ (46 :: ds ++ ex))).drop (sign.length + ip.length + (1 + ds.length)) = ex := by
      have := drop_three sign ip (46 :: ds) ex
      simp only [List.length_cons] at this
      rw [show sign.length + ip.length + (1 + ds.length) = sign.length + ip.length + (ds.length + 1) by omega]
      exact this
    rw [hd3]
    rcases hexp with rfl | ⟨hne, he, _⟩
    · have := mem_expCandidates_end (sign.length + ip.length + (1 + ds.length)) true
      simpa [Nat.add_assoc, Nat.add_comm, Nat.add_left_comm] using this
    · have := mem_expCandidates_exp ex (sign.length + ip.length + (1 + ds.length)) true he
      simpa [Nat.add_assoc, Nat.add_comm, Nat.add_left_comm] using this

theorem numOk_iff_isNum (fl : Bool) (s : List Nat) : numOk fl s = true ↔ IsNum fl s :=
  ⟨isNum_of_numOk, numOk_of_isNum⟩

end Gql.Types.PrintSchema
