import Gql.Proofs.SchemaText2
/-!
C17, text level, part 3: blocks and the definitions without argument lists (`scalar`, `union`,
`enum`, `input`, the `schema` block) lex to the tokens of the translated definitions.
-/
namespace Gql.Types.PrintSchema
open Gql Gql.Text Gql.Syntax Gql.Generated

/-! ## `mapFirst`, token lists as `flatMap` -/

theorem mem_mapFirst {α β : Type} (g : Bool → α → β) (xs : List α) (p : β) (h : p ∈ mapFirst g xs) :
    ∃ b x, x ∈ xs ∧ p = g b x := by
  cases xs with
  | nil => simp [mapFirst] at h
  | cons x r =>
    simp only [mapFirst, List.mem_cons, List.mem_map] at h
    rcases h with rfl | ⟨y, hy, rfl⟩
    · exact ⟨true, x, by simp, rfl⟩
    · exact ⟨false, y, by simp [hy], rfl⟩

theorem mapFirst_fst {α : Type} (t : Bool → α → List Nat) (kv : α → List KV) (xs : List α) :
    (mapFirst (fun b x => (t b x, kv x)) xs).map (·.1) = mapFirst t xs := by
  cases xs <;> simp [mapFirst]

theorem mapFirst_snd {α : Type} (t : Bool → α → List Nat) (kv : α → List KV) (xs : List α) :
    (mapFirst (fun b x => (t b x, kv x)) xs).flatMap (·.2) = xs.flatMap kv := by
  cases xs <;> simp [mapFirst, List.flatMap_cons, List.flatMap_map]

theorem mapFirst_isEmpty {α β : Type} (g : Bool → α → β) (xs : List α) : (mapFirst g xs).isEmpty = xs.isEmpty := by
  cases xs <;> simp [mapFirst]

theorem evsKvs_eq (xs : List EVDef) : Exec.evsKvs xs = xs.flatMap Exec.evKvs := by
  induction xs with
  | nil => rfl
  | cons a r ih => simp [Exec.evsKvs, ih]

theorem ivdsKvs_eq (xs : List VarDef) : Exec.ivdsKvs xs = xs.flatMap Exec.ivdKvs := by
  induction xs with
  | nil => rfl
  | cons a r ih => simp [Exec.ivdsKvs, ih]

theorem fdsKvs_eq (xs : List FDef) : Exec.fdsKvs xs = xs.flatMap Exec.fdKvs := by
  induction xs with
  | nil => rfl
  | cons a r ih => simp [Exec.fdsKvs, ih]

theorem otsKvs_eq (xs : List (List Nat × List Nat)) : Exec.otsKvs xs = xs.flatMap Exec.otKvs := by
  induction xs with
  | nil => rfl
  | cons a r ih => simp [Exec.otsKvs, ih]

/-! ## `print_block` -/

theorem ignS2 : Ignorable (S "  ") := by
  have : S "  " = List.replicate 2 32 := by decide
  rw [this]; exact ign_spaces 2

theorem ign10 : Ignorable [10] := by intro c hc; simp at hc; simp [hc]

/-- `print_block(items)` of items that lex. -/
theorem lexes_printBlock {α : Type} (t : Bool → α → List Nat) (kv : α → List KV) (xs : List α)
    (h : ∀ b, ∀ x ∈ xs, Lexes true (t b x) (kv x)) :
    Lexes true (printBlock (mapFirst t xs)) (Exec.bracketKvs .braceL .braceR (xs.flatMap kv) xs.isEmpty) ∧
      SafeStart (printBlock (mapFirst t xs)) := by
  by_cases hx : xs = []
  · subst hx
    exact ⟨by simpa [printBlock, mapFirst, Exec.bracketKvs] using lx_nil,
      by simpa [printBlock, mapFirst] using SafeStart.nil⟩
  · have hemp : xs.isEmpty = false := by cases xs <;> simp_all
    have hJ := lexes_joinTexts (mapFirst (fun b x => (t b x, kv x)) xs)
      (by
        intro p hp
        obtain ⟨b, x, hxm, rfl⟩ := mem_mapFirst _ xs p hp
        exact h b x hxm) [10] ign10 (by simp)
    rw [mapFirst_fst, mapFirst_snd] at hJ
    have hB := lexes_bracket 123 125 .braceL .braceR (by decide) (by decide) (by decide) [10] [10] _ _ ign10 ign10 hJ
    have e1 : S " {\n" = [32] ++ ([123] ++ [10]) := by decide
    have e2 : S "\n}" = [10] ++ [125] := by decide
    have htext : printBlock (mapFirst t xs) = [32] ++ ([123] ++ ([10] ++ (joinWith [10] (mapFirst t xs) ++ ([10] ++ [125])))) := by
      simp [printBlock, mapFirst_isEmpty, hemp, e1, e2]
    rw [htext]
    refine ⟨?_, SafeStart.cons (by decide)⟩
    have := lx_ign ign32 hB
    simpa [Exec.bracketKvs, hemp] using this

/-! ## keyword and name -/

theorem lexes_kwName (kw n : List Nat) (hkw : Gql.Text.validName kw = true) (hn : Gql.Text.validName n = true) :
    Lexes true (kw ++ [32] ++ n) [(.name, some kw), (.name, some n)] := by
  have := Lexes.append_l (Lexes.append_ign (Lexes.name kw hkw) ign32 (by simp)) (Lexes.name n hn)
  simpa using this

section
variable (w : Widths) (hw : 4 ≤ w.object)
variable (hT : tableOK Generated.escapeTable = true) (hC : tableComplete Generated.escapeTable = true)
include hw hT hC

/-! ## block items -/

theorem lexes_printEnumLine (first : Bool) (v : EnumVal) (h : Exec.evWf (toEVDef (enumValToEVD v))) :
    Lexes true (printEnumLine w first v) (Exec.evKvs (toEVDef (enumValToEVD v))) := by
  obtain ⟨hdesc, hname, _, _, _, hds⟩ := h
  have hd := lexes_printDescription w hw hT hC v.desc hdesc 2 first
  obtain ⟨hdep, hsafe⟩ := lexes_wrapDirs w hw hT hC _ hds
  have h1 := lx_app (Lexes.name v.name hname) hdep hsafe
  have h2 := lx_ign ignS2 h1
  have := Lexes.append_l hd h2
  simpa [printEnumLine, printDeprecated_eq w, Exec.evKvs, toEVDef, enumValToEVD, List.append_assoc] using this

theorem lexes_printInputLine (first : Bool) (a : Arg) (h : Exec.varDefWf (toVarDef (argToIVD a))) :
    Lexes true (printInputLine w first a) (Exec.ivdKvs (toVarDef (argToIVD a))) := by
  have hd := lexes_printDescription w hw hT hC a.desc h.1 2 first
  have h1 := lexes_printInputValue w hw hT hC a h
  have h2 := lx_ign ignS2 h1
  have := Lexes.append_l hd h2
  rw [ivdKvs_split]
  simpa [printInputLine, List.append_assoc] using this

/-! ## argument lists -/

theorem lexes_printArgLine (ind : Nat) (first : Bool) (a : Arg) (h : Exec.varDefWf (toVarDef (argToIVD a))) :
    Lexes true (printArgLine w ind first a) (Exec.ivdKvs (toVarDef (argToIVD a))) := by
  have hd := lexes_printDescription w hw hT hC a.desc h.1 (2 + ind) first
  have h1 := lexes_printInputValue w hw hT hC a h
  have h2 := lx_ign (ign_spaces (2 + ind)) h1
  have := Lexes.append_l hd h2
  rw [ivdKvs_split]
  simpa [printArgLine, spaces, List.append_assoc] using this

/-- `print_args`: nothing, one line, or one argument per line. -/
theorem lexes_printArgs (args : List Arg) (ind : Nat)
    (h : Exec.ivdsWf ((args.map argToIVD).map toVarDef)) :
    Lexes true (printArgs w args ind) (Exec.argDefsKvs ((args.map argToIVD).map toVarDef)) ∧
      SafeStart (printArgs w args ind) := by
  have hwf : ∀ a ∈ args, Exec.varDefWf (toVarDef (argToIVD a)) := by
    intro a ha
    exact h _ (by simp only [List.map_map, List.mem_map]; exact ⟨a, ha, rfl⟩)
  by_cases hx : args = []
  · subst hx
    exact ⟨by simpa [printArgs, Exec.argDefsKvs, Exec.bracketKvs] using lx_nil,
      by simpa [printArgs] using SafeStart.nil⟩
  · have hemp : args.isEmpty = false := by cases args <;> simp_all
    have hkv : Exec.argDefsKvs ((args.map argToIVD).map toVarDef) =
        (.parenL, none) :: args.flatMap (fun a => Exec.ivdKvs (toVarDef (argToIVD a))) ++ [(.parenR, none)] := by
      simp [Exec.argDefsKvs, Exec.bracketKvs, hemp, ivdsKvs_eq, List.flatMap_map]
    rw [hkv]
    unfold printArgs
    simp only [hemp, Bool.false_eq_true, ↓reduceIte]
    split
    · rename_i hall
      have hJ := lexes_joinTexts (args.map (fun a => (printInputValue w a, Exec.ivdKvs (toVarDef (argToIVD a)))))
        (by
          intro p hp
          simp only [List.mem_map] at hp
          obtain ⟨a, ha, rfl⟩ := hp
          have hnone : a.desc = none := by
            have := List.all_eq_true.mp hall a ha
            simpa using this
          have := lexes_printInputValue w hw hT hC a (hwf a ha)
          simpa [ivdKvs_split, hnone, toDesc, descNode, Exec.descKvs] using this)
        [44, 32] (by intro c hc; simp at hc; rcases hc with rfl | rfl <;> simp) (by simp)
      simp only [List.map_map, List.flatMap_map] at hJ
      have hB := lexes_bracket 40 41 .parenL .parenR (by decide) (by decide) (by decide) [] [] _ _
        (by intro c hc; simp at hc) (by intro c hc; simp at hc) hJ
      refine ⟨?_, SafeStart.cons (by decide)⟩
      simpa [Function.comp_def] using hB
    · have hJ := lexes_joinTexts (mapFirst (fun b a => (printArgLine w ind b a, Exec.ivdKvs (toVarDef (argToIVD a)))) args)
        (by
          intro p hp
          obtain ⟨b, a, ha, rfl⟩ := mem_mapFirst _ args p hp
          exact lexes_printArgLine w hw hT hC ind b a (hwf a ha)) [10] ign10 (by simp)
      rw [mapFirst_fst, mapFirst_snd] at hJ
      have hB := lexes_bracket 40 41 .parenL .parenR (by decide) (by decide) (by decide) [10]
        (10 :: List.replicate ind 32) _ _ ign10 (ignorable_lf_spaces ind) hJ
      have e1 : S "(\n" = [40] ++ [10] := by decide
      refine ⟨?_, by rw [e1]; exact SafeStart.cons (by decide)⟩
      simpa [e1, spaces, List.append_assoc] using hB

/-! ## field definitions -/

theorem lexes_printFieldLine (first : Bool) (f : Field) (h : Exec.fdWf (toFDef (fieldToFD f))) :
    Lexes true (printFieldLine w first f) (Exec.fdKvs (toFDef (fieldToFD f))) := by
  obtain ⟨hdesc, hname, hargs, hty, _, hds⟩ := h
  have hd := lexes_printDescription w hw hT hC f.desc hdesc 2 first
  obtain ⟨hA, hAs⟩ := lexes_printArgs w hw hT hC f.args 2 hargs
  obtain ⟨hdep, hsafe⟩ := lexes_wrapDirs w hw hT hC _ hds
  have h1 := lx_app (Lexes.name f.name hname) hA hAs
  have hty' : Lexes true (printType f.type) (toTy f.type).kvs := by rw [printType_eq]; exact Lexes.ty _ hty
  have h2 := Lexes.append_l (Lexes.punct 58 .colon (by decide)) (lx_ign ign32 (lx_app hty' hdep hsafe))
  have h3 := lx_app h1 h2 (SafeStart.cons (by decide))
  have h4 := lx_ign ignS2 h3
  have := Lexes.append_l hd h4
  simpa [printFieldLine, printDeprecated_eq w, Exec.fdKvs, toFDef, fieldToFD, S_colon, List.append_assoc] using this

end

end Gql.Types.PrintSchema
