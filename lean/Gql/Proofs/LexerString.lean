import Gql.Proofs.LexerGrammar
/-!
# `read_string` against the StringValue production of the lexical grammar
(all three escape forms and the surrogate-pair rule)
-/
open Gql Gql.Text
namespace Gql.Text
open Gql.Spec.Lex

/-! ### hex digits -/

theorem readHexDigit_some (c : Nat) :
    readHexDigit (some c) = if HexDigit c then some (hexVal c) else none := by
  unfold readHexDigit HexDigit hexVal
  by_cases h1 : 48 ≤ c ∧ c ≤ 57
  · simp [h1]
  · by_cases h2 : 65 ≤ c ∧ c ≤ 70
    · simp [h1, h2]
    · by_cases h3 : 97 ≤ c ∧ c ≤ 102
      · simp [h1, h2, h3]
      · simp [h1, h2, h3]

theorem hexVal_le (c : Nat) (h : HexDigit c) : hexVal c ≤ 15 := by
  unfold HexDigit at h; unfold hexVal
  split
  · omega
  · split <;> omega

/-- Left fold of hex digits onto an accumulator. -/
def hexFold (acc : Nat) (ds : List Nat) : Nat := ds.foldl (fun a d => a * 16 + hexVal d) acc

theorem hexNumber_eq (ds : List Nat) : hexNumber ds = hexFold 0 ds := rfl

theorem hexFold_cons (acc c : Nat) (ds : List Nat) : hexFold acc (c :: ds) = hexFold (acc * 16 + hexVal c) ds := rfl

def read16L (s : List Nat) : Option Nat :=
  match readHexDigit s[0]?, readHexDigit s[1]?, readHexDigit s[2]?, readHexDigit s[3]? with
  | some a, some b, some c, some d => some (a * 4096 + b * 256 + c * 16 + d)
  | _, _, _, _ => none

theorem read16_drop (body : List Nat) (p : Nat) : read16 body p = read16L (body.drop p) := by
  unfold read16 read16L
  have e0 := charAt_drop body p 0
  rw [Nat.add_zero] at e0
  rw [e0, charAt_drop body p 1, charAt_drop body p 2, charAt_drop body p 3]
  rfl

theorem readHexDigit_none : readHexDigit none = none := rfl

theorem read16L_eq (s : List Nat) : read16L s = hex4? s := by
  match s with
  | [] => rfl
  | [a] => simp [read16L, hex4?, readHexDigit_none]
  | [a, b] => simp [read16L, hex4?, readHexDigit_none]
  | [a, b, c] => simp [read16L, hex4?, readHexDigit_none]
  | a :: b :: c :: d :: r =>
    simp only [read16L, hex4?, List.getElem?_cons_zero, List.getElem?_cons_succ, readHexDigit_some]
    by_cases ha : HexDigit a <;> by_cases hb : HexDigit b <;> by_cases hc : HexDigit c <;>
      by_cases hd : HexDigit d <;> simp [ha, hb, hc, hd, hexNumber, List.foldl]
    omega

theorem hex4?_lt {s : List Nat} {v : Nat} (h : hex4? s = some v) : v < 65536 := by
  match s with
  | [] | [_] | [_, _] | [_, _, _] => simp [hex4?] at h
  | a :: b :: c :: d :: r =>
    simp only [hex4?] at h
    split at h
    · rename_i hh
      have := hexVal_le a hh.1; have := hexVal_le b hh.2.1
      have := hexVal_le c hh.2.2.1; have := hexVal_le d hh.2.2.2
      simp [hexNumber, List.foldl] at h; omega
    · simp at h

/-- Result of an escape reader against the grammar's escape recogniser. -/
def escOut (kind : LexErrKind) (p : Nat) (m : Option (Nat × List Nat)) : LexOut (List Nat × Nat) :=
  match m with
  | some (n, v) => .ok (v, n)
  | none => .err ⟨kind, p⟩

theorem escapedChar_eq (c : Nat) : escapedChar (some c) = escapedCharacter? c := by
  unfold escapedCharacter?
  by_cases h1 : c = 34; · subst h1; rfl
  by_cases h2 : c = 92; · subst h2; rfl
  by_cases h3 : c = 47; · subst h3; rfl
  by_cases h4 : c = 98; · subst h4; rfl
  by_cases h5 : c = 102; · subst h5; rfl
  by_cases h6 : c = 110; · subst h6; rfl
  by_cases h7 : c = 114; · subst h7; rfl
  by_cases h8 : c = 116; · subst h8; rfl
  rw [if_neg h1, if_neg h2, if_neg h3, if_neg h4, if_neg h5, if_neg h6, if_neg h7, if_neg h8]
  unfold escapedChar
  split <;> simp_all

theorem readEscapedCharacter_eq (body : List Nat) (p : Nat) :
    readEscapedCharacter body p =
      escOut .invalidCharEscape p
        (match body.drop (p + 1) with
         | [] => none
         | d :: _ => match escapedCharacter? d with
            | some v => some (2, [v])
            | none => none) := by
  unfold readEscapedCharacter
  have e := charAt_drop body (p + 1) 0
  rw [Nat.add_zero] at e
  rw [e]
  cases hd : body.drop (p + 1) with
  | nil => rfl
  | cons d r =>
    simp only [List.getElem?_cons_zero, escapedChar_eq]
    cases escapedCharacter? d <;> rfl

theorem scalar16 (code : Nat) (h : code < 65536) : (code ≤ 0xD7FF ∨ 0xE000 ≤ code) ↔ Scalar code := by
  unfold Scalar; omega

theorem readEscapedUnicodeFixedWidth_eq (body : List Nat) (p : Nat) :
    readEscapedUnicodeFixedWidth body p =
      escOut .invalidUnicodeEscape p (escapedUnicodeFixed? (body.drop (p + 2))) := by
  unfold readEscapedUnicodeFixedWidth escapedUnicodeFixed?
  rw [read16_drop, read16L_eq]
  cases hc : hex4? (body.drop (p + 2)) with
  | none => rfl
  | some code =>
    simp only []
    have hlt := hex4?_lt hc
    by_cases hs : Scalar code
    · rw [if_pos ((scalar16 code hlt).mpr hs), if_pos hs]; rfl
    · rw [if_neg (fun h => hs ((scalar16 code hlt).mp h)), if_neg hs]
      have e1 : slice body (p + 6) (p + 8) = ((body.drop (p + 2)).drop 4).take 2 := by
        simp [slice, List.drop_drop]
      have e2 : read16 body (p + 8) = hex4? ((body.drop (p + 2)).drop 6) := by
        rw [read16_drop, read16L_eq, List.drop_drop]
      have e3 : (isLeadSurrogate code = true) ↔ LeadSurrogate code := by
        simp [isLeadSurrogate, LeadSurrogate]
      rw [e1, e2]
      by_cases hl : LeadSurrogate code ∧ ((body.drop (p + 2)).drop 4).take 2 = [92, 117]
      · rw [if_pos ⟨e3.mpr hl.1, hl.2⟩, if_pos hl]
        cases ht : hex4? ((body.drop (p + 2)).drop 6) with
        | none => rfl
        | some trail =>
          simp only []
          have e4 : (isTrailSurrogate trail = true) ↔ TrailSurrogate trail := by
            simp [isTrailSurrogate, TrailSurrogate]
          by_cases htr : TrailSurrogate trail
          · rw [if_pos (e4.mpr htr), if_pos htr]; rfl
          · rw [if_neg (fun h => htr (e4.mp h)), if_neg htr]; rfl
      · rw [if_neg (fun h => hl ⟨e3.mp h.1, h.2⟩), if_neg hl]; rfl

theorem hexDigitsLen_cons (c : Nat) (r : List Nat) :
    hexDigitsLen (c :: r) = if HexDigit c then hexDigitsLen r + 1 else 0 := rfl

/-- The variable-width loop from `size` with accumulator `point`, in terms of the suffix. -/
theorem varWidthLoop_eq (body : List Nat) (p M : Nat) (hM : p + M ≤ body.length) :
    ∀ (size point : Nat),
      varWidthLoop body p M size point =
        (let rest := body.drop (p + size)
         let m := hexDigitsLen rest
         if size + m + 1 ≤ M ∧ (rest.drop m).head? = some 125 ∧ 5 ≤ size + m + 1 ∧
            Scalar (hexFold point (rest.take m))
         then .ok (hexFold point (rest.take m), size + m + 1)
         else .err ⟨.invalidUnicodeEscape, p⟩) := by
  intro size point
  fun_induction varWidthLoop body p M size point
  · rename_i size point hlt ih
    have hl : p + size < body.length := by omega
    rw [index_ok _ _ hl, Out.bind_ok, drop_cons _ _ hl]
    simp only []
    generalize hc : body[p + size] = c
    by_cases h125 : c = 125
    · subst h125
      rw [if_pos rfl]
      have hm : hexDigitsLen (125 :: body.drop (p + size + 1)) = 0 := by
        rw [hexDigitsLen_cons, if_neg (by decide)]
      rw [hm]
      simp only [List.drop_zero, List.head?_cons, List.take_zero, hexFold, List.foldl_nil, Nat.add_zero]
      by_cases hbad : size + 1 < 5 ∨ ¬ (point ≤ 0xD7FF ∨ (0xE000 ≤ point ∧ point ≤ 0x10FFFF))
      · rw [if_pos hbad, if_neg]
        rintro ⟨_, _, h5, hs⟩
        rcases hbad with hb | hb
        · omega
        · exact hb hs
      · rw [if_neg hbad, if_pos]
        · rfl
        · refine ⟨by omega, trivial, by omega, ?_⟩
          by_cases hs : Scalar point
          · exact hs
          · exact absurd (Or.inr hs) hbad
    · rw [if_neg h125, readHexDigit_some]
      by_cases hh : HexDigit c
      · rw [if_pos hh]
        simp only []
        rw [ih (hexVal c)]
        simp only []
        have e : p + (size + 1) = p + size + 1 := by omega
        rw [e, hexDigitsLen_cons, if_pos hh]
        have e2 : ∀ m, size + 1 + m + 1 = size + (m + 1) + 1 := by intro m; omega
        simp only [e2, List.drop_succ_cons, List.take_succ_cons, hexFold_cons]
      · rw [if_neg hh]
        simp only []
        rw [hexDigitsLen_cons, if_neg hh, if_neg]
        rintro ⟨_, h, _⟩
        simp at h; exact h125 h
  · rename_i size point hge
    simp only []
    rw [if_neg]
    rintro ⟨h, _⟩
    omega

theorem head?_drop_lt {l : List Nat} {n c : Nat} (h : (l.drop n).head? = some c) : n < l.length := by
  rcases Nat.lt_or_ge n l.length with h' | h'
  · exact h'
  · rw [List.drop_eq_nil_of_le h'] at h; simp at h

theorem readEscapedUnicodeVariableWidth_eq (body : List Nat) (p : Nat) (hp : p ≤ body.length) :
    (readEscapedUnicodeVariableWidth body p >>= fun x => (pure ([x.1], x.2) : LexOut (List Nat × Nat))) =
      escOut .invalidUnicodeEscape p (escapedUnicodeBraced? (body.drop (p + 3))) := by
  unfold readEscapedUnicodeVariableWidth
  rw [varWidthLoop_eq body p _ (by omega)]
  simp only []
  unfold escapedUnicodeBraced?
  simp only []
  generalize hm : hexDigitsLen (body.drop (p + 3)) = m
  have h8 : maxEscapeHexDigits = 8 := rfl
  by_cases hcond : 1 ≤ m ∧ m ≤ maxEscapeHexDigits ∧ ((body.drop (p + 3)).drop m).head? = some 125 ∧
      Scalar (hexNumber ((body.drop (p + 3)).take m))
  · rw [if_pos hcond, if_pos]
    · simp only [Out.bind_ok, Out.pure_eq, escOut]
      have e : 3 + m + 1 = m + 4 := by omega
      rw [e]; rfl
    · obtain ⟨h1, h8', hh, hs⟩ := hcond
      have := head?_drop_lt hh
      simp at this
      exact ⟨by omega, hh, by omega, hs⟩
  · rw [if_neg hcond, if_neg]
    · rfl
    · rintro ⟨h1, hh, h5, hs⟩
      exact hcond ⟨by omega, by omega, hh, hs⟩

theorem sourceCharLen_drop (body : List Nat) (p : Nat) (h : p < body.length) :
    sourceCharLen (body.drop p) =
      if isScalar body[p] = true then some 1
      else if isSupplementary body p = true then some 2 else none := by
  rw [drop_cons _ _ h]
  simp only [sourceCharLen]
  by_cases hs : isScalar body[p] = true
  · rw [if_pos hs, if_pos ((isScalar_iff _).mp hs)]
  · rw [if_neg hs, if_neg (fun h' => hs ((isScalar_iff _).mpr h'))]
    by_cases hsup : isSupplementary body p = true
    · rw [if_pos hsup]
      obtain ⟨d, rest, hd, hl, ht⟩ := (isSupplementary_iff body p h).mp hsup
      rw [hd]; simp only []; rw [if_pos ⟨hl, ht⟩]
    · rw [if_neg hsup]
      cases hd : body.drop (p + 1) with
      | nil => rfl
      | cons d rest =>
        simp only []
        rw [if_neg]
        intro hlt
        exact hsup ((isSupplementary_iff body p h).mpr ⟨d, rest, hd, hlt.1, hlt.2⟩)

theorem slice_snoc' (body : List Nat) (cs pos : Nat) (h : cs ≤ pos) (hp : pos < body.length) :
    slice body cs (pos + 1) = slice body cs pos ++ [body[pos]] := by
  unfold slice
  have h1 : pos + 1 - cs = (pos - cs) + 1 := by omega
  rw [h1, List.take_add_one]
  congr 1
  simp [List.getElem?_drop, show cs + (pos - cs) = pos by omega, hp]

theorem slice_self' (body : List Nat) (p : Nat) : slice body p p = [] := by simp [slice]

theorem take_drop_one (body : List Nat) (p : Nat) (h : p < body.length) :
    (body.drop p).take 1 = [body[p]] := by
  rw [drop_cons _ _ h]; rfl

theorem take_drop_two (body : List Nat) (p : Nat) (h : p + 1 < body.length) :
    (body.drop p).take 2 = [body[p], body[p + 1]] := by
  rw [drop_cons _ _ (by omega), drop_cons _ _ h]; rfl

/-- The escape dispatch of `read_string` at a backslash is the grammar's escape recogniser. -/
theorem escape_dispatch (body : List Nat) (p : Nat) (h : p < body.length) (hc : body[p] = 92) :
    ∃ k, (if charAt body (p + 1) = some 117 then
            if charAt body (p + 2) = some 123 then do
              let (v, size) ← readEscapedUnicodeVariableWidth body p
              pure ([v], size)
            else readEscapedUnicodeFixedWidth body p
          else readEscapedCharacter body p) = escOut k p (stringCharacter? (body.drop p)) := by
  rw [drop_cons _ _ h, hc]
  simp only [stringCharacter?, if_true]
  have e1 := charAt_drop body (p + 1) 0
  rw [Nat.add_zero] at e1
  have e2 : charAt body (p + 2) = (body.drop (p + 1))[1]? := charAt_drop body (p + 1) 1
  cases hd : body.drop (p + 1) with
  | nil =>
    rw [e1, hd]
    simp only [List.getElem?_nil]
    rw [if_neg (by simp)]
    refine ⟨.invalidCharEscape, ?_⟩
    rw [readEscapedCharacter_eq, hd]
  | cons d rest1 =>
    rw [e1, e2, hd]
    simp only [List.getElem?_cons_zero, List.getElem?_cons_succ]
    have hr1 : rest1 = body.drop (p + 2) := by
      have : p + 1 < body.length := by
        rcases Nat.lt_or_ge (p + 1) body.length with h' | h'
        · exact h'
        · rw [drop_nil _ _ h'] at hd; cases hd
      have := drop_cons _ _ this
      rw [hd] at this
      exact (List.cons.inj this).2
    by_cases h117 : d = 117
    · subst h117
      simp only [if_true]
      by_cases h123 : rest1[0]? = some 123
      · rw [if_pos h123]
        have hh : rest1.head? = some 123 := by rw [List.head?_eq_getElem?]; exact h123
        rw [if_pos hh]
        refine ⟨.invalidUnicodeEscape, ?_⟩
        have := readEscapedUnicodeVariableWidth_eq body p (by omega)
        have ht : rest1.tail = body.drop (p + 3) := by
          rw [hr1, List.tail_drop]
        rw [ht]
        exact this
      · rw [if_neg h123]
        have hh : ¬ rest1.head? = some 123 := by rw [List.head?_eq_getElem?]; exact h123
        rw [if_neg hh]
        refine ⟨.invalidUnicodeEscape, ?_⟩
        rw [readEscapedUnicodeFixedWidth_eq, hr1]
    · rw [if_neg (by simpa using h117), if_neg h117]
      refine ⟨.invalidCharEscape, ?_⟩
      rw [readEscapedCharacter_eq, hd]
      rfl

theorem readStringLoop_unfold (body : List Nat) (st : LexState) (start p cs : Nat) (acc : List Nat)
    (h : p < body.length) :
    readStringLoop body st start p cs acc =
      (if body[p] = 34 then
        pure (mkToken st .string start (p + 1) (some (acc ++ slice body cs p)))
      else if body[p] = 92 then
        (if charAt body (p + 1) = some 117 then
            if charAt body (p + 2) = some 123 then do
              let (v, size) ← readEscapedUnicodeVariableWidth body p
              pure ([v], size)
            else readEscapedUnicodeFixedWidth body p
          else readEscapedCharacter body p) >>= fun esc =>
        if esc.2 = 0 then .crash "NoProgress"
        else readStringLoop body st start (p + esc.2) (p + esc.2) (acc ++ slice body cs p ++ esc.1)
      else if body[p] = 13 ∨ body[p] = 10 then .err ⟨.unterminatedString, p⟩
      else if isScalar body[p] then readStringLoop body st start (p + 1) cs acc
      else if isSupplementary body p then readStringLoop body st start (p + 2) cs acc
      else .err ⟨.invalidCharInString, p⟩) := by
  rw [readStringLoop]
  simp only [h, dite_true]
  rw [index_ok _ _ h, Out.bind_ok]
  by_cases h34 : body[p] = 34
  · rw [if_pos h34, if_pos h34]
  rw [if_neg h34, if_neg h34]
  by_cases h92 : body[p] = 92
  · rw [if_pos h92, if_pos h92]
    by_cases h117 : charAt body (p + 1) = some 117
    · rw [if_pos h117, if_pos h117]
      by_cases h123 : charAt body (p + 2) = some 123
      · rw [if_pos h123, if_pos h123]
        cases readEscapedUnicodeVariableWidth body p <;> rfl
      · rw [if_neg h123, if_neg h123]
    · rw [if_neg h117, if_neg h117]
  · rw [if_neg h92, if_neg h92]

theorem readStringLoop_end (body : List Nat) (st : LexState) (start p cs : Nat) (acc : List Nat)
    (h : body.length ≤ p) :
    readStringLoop body st start p cs acc = .err ⟨.unterminatedString, p⟩ := by
  rw [readStringLoop]
  have : ¬ p < body.length := by omega
  simp only [this, dite_false]

/-- Agreement of the string loop with `StringCharacter* "`. -/
def StrAgree (body : List Nat) (st : LexState) (start p cs : Nat) (acc : List Nat)
    (m : Option (Nat × List Nat)) : Prop :=
  match m with
  | some (n, v) => readStringLoop body st start p cs acc =
      .ok (mkToken st .string start (p + n) (some (acc ++ slice body cs p ++ v)))
  | none => ∃ e, readStringLoop body st start p cs acc = .err e

theorem stringRest_quote (fuel : Nat) (r : List Nat) : stringRest fuel (34 :: r) = some (1, []) := by
  cases fuel <;> rfl

theorem stringRest_succ (fuel : Nat) (s : List Nat) (h : s.head? ≠ some 34) :
    stringRest (fuel + 1) s =
      match stringCharacter? s with
      | none => none
      | some (n, v) =>
        match stringRest fuel (s.drop n) with
        | none => none
        | some (m, w) => some (n + m, v ++ w) := by
  rw [stringRest]
  all_goals first | rfl | (intro r hs; subst hs; simp at h)

theorem stringRest_zero (s : List Nat) (h : s.head? ≠ some 34) : stringRest 0 s = none := by
  rw [stringRest]
  all_goals first | rfl | (intro r hs; subst hs; simp at h)

theorem escapedUnicodeBraced?_pos {r : List Nat} {n : Nat} {v : List Nat}
    (h : escapedUnicodeBraced? r = some (n, v)) : 0 < n := by
  unfold escapedUnicodeBraced? at h
  simp only [] at h
  split at h
  · simp at h; omega
  · simp at h

theorem escapedUnicodeFixed?_pos {r : List Nat} {n : Nat} {v : List Nat}
    (h : escapedUnicodeFixed? r = some (n, v)) : 0 < n := by
  unfold escapedUnicodeFixed? at h
  repeat' split at h
  all_goals (simp at h; try omega)

theorem stringCharacter?_pos {s : List Nat} {n : Nat} {v : List Nat}
    (h : stringCharacter? s = some (n, v)) : 0 < n := by
  unfold stringCharacter? at h
  split at h
  · simp at h
  · split at h
    · split at h
      · simp at h
      · split at h
        · split at h
          · exact escapedUnicodeBraced?_pos h
          · exact escapedUnicodeFixed?_pos h
        · split at h <;> simp at h; omega
    · split at h
      · simp at h
      · rename_i c rest _ _
        split at h
        · rename_i k hk
          simp at h
          unfold sourceCharLen at hk
          repeat' split at hk
          all_goals (simp at hk; try omega)
        · simp at h

/-- Prepend one `StringCharacter` (length `n`, value `v`) to the rest of a string. -/
def consRest (n : Nat) (v : List Nat) : Option (Nat × List Nat) → Option (Nat × List Nat)
  | none => none
  | some (m, w) => some (n + m, v ++ w)

theorem stringRest_succ' (fuel : Nat) (s : List Nat) (h : s.head? ≠ some 34) :
    stringRest (fuel + 1) s =
      match stringCharacter? s with
      | none => none
      | some (n, v) => consRest n v (stringRest fuel (s.drop n)) := by
  rw [stringRest_succ _ _ h]
  cases stringCharacter? s with
  | none => rfl
  | some nv =>
    obtain ⟨n, v⟩ := nv
    simp only []
    cases stringRest fuel (s.drop n) with
    | none => rfl
    | some mw => rfl

theorem StrAgree.step (body : List Nat) (st : LexState) (start p p' cs cs' : Nat) (acc acc' : List Nat)
    (k : Nat) (v : List Nat) (m' : Option (Nat × List Nat))
    (hloop : readStringLoop body st start p cs acc = readStringLoop body st start p' cs' acc')
    (hp : p' = p + k) (hval : acc' ++ slice body cs' p' = acc ++ slice body cs p ++ v)
    (hI : StrAgree body st start p' cs' acc' m') :
    StrAgree body st start p cs acc (consRest k v m') := by
  cases m' with
  | none =>
    obtain ⟨e, he⟩ := hI
    exact ⟨e, by rw [hloop, he]⟩
  | some mw =>
    obtain ⟨m, w⟩ := mw
    show readStringLoop body st start p cs acc = _
    have hI' : readStringLoop body st start p' cs' acc' = _ := hI
    rw [hloop, hI', hval, hp]
    simp only [List.append_assoc, Nat.add_assoc]

theorem slice_snoc2' (body : List Nat) (cs pos : Nat) (h : cs ≤ pos) (hp : pos + 1 < body.length) :
    slice body cs (pos + 2) = slice body cs pos ++ [body[pos], body[pos + 1]] := by
  have h1 := slice_snoc' body cs pos h (by omega)
  have h2 := slice_snoc' body cs (pos + 1) (by omega) hp
  rw [show pos + 2 = pos + 1 + 1 by omega, h2, h1]
  simp

theorem readStringLoop_agree (body : List Nat) (st : LexState) (start : Nat) :
    ∀ (fuel p cs : Nat) (acc : List Nat), body.length - p ≤ fuel → cs ≤ p →
      StrAgree body st start p cs acc (stringRest fuel (body.drop p)) := by
  intro fuel
  induction fuel with
  | zero =>
    intro p cs acc hf hcs
    rw [drop_nil _ _ (by omega), stringRest_zero _ (by simp)]
    exact ⟨_, readStringLoop_end body st start p cs acc (by omega)⟩
  | succ f ih =>
    intro p cs acc hf hcs
    by_cases hlt : p < body.length
    · have hdrop := drop_cons _ _ hlt
      have hU := readStringLoop_unfold body st start p cs acc hlt
      by_cases h34 : body[p] = 34
      · rw [hdrop, h34, stringRest_quote]
        show readStringLoop body st start p cs acc = _
        rw [hU, if_pos h34]; simp
      have hhead : (body.drop p).head? ≠ some 34 := by
        rw [hdrop]; simp only [List.head?_cons, ne_eq, Option.some.injEq]; exact h34
      rw [stringRest_succ' _ _ hhead]
      rw [if_neg h34] at hU
      by_cases h92 : body[p] = 92
      · rw [if_pos h92] at hU
        obtain ⟨k, hk⟩ := escape_dispatch body p hlt h92
        rw [hk] at hU
        cases hsc : stringCharacter? (body.drop p) with
        | none =>
          rw [hsc] at hU
          exact ⟨_, hU⟩
        | some nv =>
          obtain ⟨n, v⟩ := nv
          rw [hsc] at hU
          have hn := stringCharacter?_pos hsc
          simp only [escOut, Out.bind_ok] at hU
          rw [if_neg (by omega)] at hU
          simp only [List.drop_drop]
          exact StrAgree.step body st start p (p + n) cs (p + n) acc (acc ++ slice body cs p ++ v) n v _
            hU rfl (by rw [slice_self']; simp) (ih (p + n) (p + n) _ (by omega) (Nat.le_refl _))
      rw [if_neg h92] at hU
      by_cases hlt' : body[p] = 13 ∨ body[p] = 10
      · rw [if_pos hlt'] at hU
        have : stringCharacter? (body.drop p) = none := by
          rw [hdrop]; simp only [stringCharacter?]
          rw [if_neg h92, if_pos (show body[p] = 34 ∨ LineTerm body[p] from Or.inr (by unfold LineTerm; omega))]
        rw [this]
        exact ⟨_, hU⟩
      rw [if_neg hlt'] at hU
      have hsc : stringCharacter? (body.drop p) =
          match sourceCharLen (body.drop p) with
          | some n => some (n, (body.drop p).take n)
          | none => none := by
        rw [hdrop]; simp only [stringCharacter?]
        rw [if_neg h92, if_neg (show ¬ (body[p] = 34 ∨ LineTerm body[p]) by unfold LineTerm; omega)]
        rfl
      rw [hsc, sourceCharLen_drop body p hlt]
      by_cases hs : isScalar body[p] = true
      · rw [if_pos hs] at hU ⊢
        simp only [List.drop_drop, take_drop_one body p hlt]
        exact StrAgree.step body st start p (p + 1) cs cs acc acc 1 [body[p]] _ hU rfl
          (by rw [slice_snoc' body cs p hcs hlt]; simp) (ih (p + 1) cs acc (by omega) (by omega))
      rw [if_neg hs] at hU ⊢
      by_cases hsup : isSupplementary body p = true
      · rw [if_pos hsup] at hU ⊢
        have h1 := isSupplementary_lt _ _ hsup
        simp only [List.drop_drop, take_drop_two body p h1]
        exact StrAgree.step body st start p (p + 2) cs cs acc acc 2 [body[p], body[p + 1]] _ hU rfl
          (by rw [slice_snoc2' body cs p hcs h1]; simp) (ih (p + 2) cs acc (by omega) (by omega))
      · rw [if_neg hsup] at hU ⊢
        exact ⟨_, hU⟩
    · rw [drop_nil _ _ (by omega), stringRest_succ _ _ (by simp)]
      exact ⟨_, readStringLoop_end body st start p cs acc (by omega)⟩

theorem string?_not_triple (rest : List Nat) (h : rest.take 2 ≠ [34, 34]) :
    string? (34 :: rest) =
      match stringRest rest.length rest with
      | some (n, v) => some ⟨.string, n + 1, some v⟩
      | none => none := by
  unfold string?
  split
  · rename_i heq
    simp at heq
    subst heq
    simp at h
  · rename_i r heq
    simp at heq
    subst heq
    rfl
  · rename_i h1 h2
    exact absurd rfl (h2 rest)

/-- StringValue: `read_string` returns exactly the grammar's string token, on every text. -/
theorem stringClassOK (body : List Nat) : StringClassOK body := by
  intro st pos hlt hq htr
  have hdrop := drop_cons _ _ hlt
  rw [hdrop, hq]
  have e : slice body (pos + 1) (pos + 3) = (body.drop (pos + 1)).take 2 := slice_eq_take_drop _ _ 2
  rw [e] at htr
  rw [string?_not_triple _ htr]
  have hag := readStringLoop_agree body st pos (body.drop (pos + 1)).length (pos + 1) (pos + 1) []
    (by simp) (Nat.le_refl _)
  unfold readString
  cases hsr : stringRest (body.drop (pos + 1)).length (body.drop (pos + 1)) with
  | none =>
    rw [hsr] at hag
    obtain ⟨e, he⟩ := hag
    rw [he]; rfl
  | some nv =>
    obtain ⟨n, v⟩ := nv
    rw [hsr] at hag
    have hag' : readStringLoop body st pos (pos + 1) (pos + 1) [] = _ := hag
    rw [hag']
    simp only [Out.bind_ok, Out.pure_eq]
    refine ⟨_, rfl, ?_, by simp, by simp [mkToken], by simp [mkToken]⟩
    simp [toSpec, mkToken, kindOf, slice_self']
    omega
end Gql.Text
