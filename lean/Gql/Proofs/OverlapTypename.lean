import Gql.Proofs.OverlapLocal
import Gql.Exec.SpecMergeIds
/-! C14, the meta field `__typename`: what `find_conflict` decides for a pair when the return
types are the ones the rule looked up (`parent_type.fields.get(name)`), not the ones of the
specification.  `__typename` is in no field table, so its type `String!` is never compared. -/
namespace Gql.Exec
open Overlap

/-- the specification's local requirements on a pair *without* SameResponseShape on the return
types: identical `@stream`, and — under FieldsInSetCanMerge with overlapping parents — identical
names and arguments -/
def directNoTypes (s : Schema) (st : Spec.State) : Bool :=
  !Spec.streamsEquiv st.a.node.stream st.b.node.stream
  || (st.full && Spec.parentsOverlap s st.a st.b &&
      (st.a.node.name != st.b.node.name || !Spec.argsEquiv st.a.node.args st.b.node.args))

/-- `Spec.direct` = SameResponseShape fails on the return types, or `directNoTypes` -/
theorem direct_eq_types_or (s : Schema) (st : Spec.State) :
    Spec.direct s st =
      (Spec.typesConflict (Spec.typesOf s st).1 (Spec.typesOf s st).2 || directNoTypes s st) := by
  simp only [Spec.direct, directNoTypes, Bool.or_assoc]

/-- no type of the schema defines a field called `__typename` (GraphQL reserves names beginning
with two underscores; `assert_valid_schema` rejects such a schema) -/
def Schema.NoMetaField (s : Schema) : Prop :=
  ∀ t ∈ s, ∀ f ∈ t.fields, f.1 ≠ "__typename"

/-- what the rule's lookup `parent_type.fields.get("__typename")` returns -/
theorem fieldDef_meta_none {s : Schema} (hm : s.NoMetaField) (p : Option String) :
    s.fieldDef p "__typename" = none := by
  cases p with
  | none => rfl
  | some n =>
    simp only [Schema.fieldDef]
    cases hg : s.getType n with
    | none => rfl
    | some t =>
      simp only
      split
      · have ht : t ∈ s := List.mem_of_find?_eq_some hg
        have : t.fields.find? (fun x => x.1 == "__typename") = none := by
          apply List.find?_eq_none.2
          intro f hf
          simpa using hm t ht f hf
        rw [this]; rfl
      · rfl

/-- `find_conflict` on a pair of which at most one field has a sub-selection, for *arbitrary*
looked-up definitions: a conflict is reported iff the looked-up return types conflict or the
pair violates `directNoTypes`. -/
theorem findConflict_local_defs (env : Env) (hle : LinOrd env.le) (n : Nat) (parentExcl : Bool)
    (rn : String) (e1 e2 : FieldEntry) (σ : St)
    (h1 : e1.node.argsOK) (h2 : e2.node.argsOK)
    (hsub : (e1.node.hasSub && e2.node.hasSub) = false) :
    ∃ cs, findConflict env (n + 1) parentExcl rn e1 e2 σ = some (σ, cs) ∧
      (cs ≠ [] ↔ (Spec.typesConflict e1.defTy e2.defTy ||
        directNoTypes env.s ⟨e1.inst, e2.inst, !parentExcl⟩) = true) := by
  have hargs := sameArguments_eq_argsEquiv hle e1.node.args e2.node.args h1.1 h2.1
  have hstr := sameStreams_eq_streamsEquiv hle e1.node.stream e2.node.stream h1.2 h2.2
  have hty := defsConflict_eq e1.defTy e2.defTy
  simp only [findConflict, hsub, hargs, hstr, Bool.false_eq_true, if_false]
  simp only [directNoTypes, Overlap.FieldEntry.inst, Spec.parentsOverlap, hty]
  generalize Spec.typesConflict e1.defTy e2.defTy = tc
  generalize Spec.argsEquiv e1.node.args e2.node.args = ae
  generalize Spec.streamsEquiv e1.node.stream e2.node.stream = se
  generalize env.s.isObject e1.parent = o1
  generalize env.s.isObject e2.parent = o2
  generalize hpe : (e1.parent != e2.parent) = pne
  have hpe' : (e1.parent == e2.parent) = !pne := by rw [← hpe]; simp [bne]
  rw [hpe']
  generalize hne : (e1.node.name != e2.node.name) = nne
  cases parentExcl <;> cases pne <;> cases o1 <;> cases o2 <;> cases nne <;> cases ae <;>
    cases se <;> cases tc <;> simp

/-- a pair with a `__typename` field, entries as the rule collects them: the report is exactly
`directNoTypes` — the return types play no role -/
theorem findConflict_local_meta (env : Env) (hle : LinOrd env.le) (n : Nat) (parentExcl : Bool)
    (rn : String) (e1 e2 : FieldEntry) (σ : St)
    (h1 : e1.node.argsOK) (h2 : e2.node.argsOK) (hm : env.s.NoMetaField)
    (hn : e1.node.name = "__typename" ∨ e2.node.name = "__typename")
    (hd1 : e1.defTy = env.s.fieldDef e1.parent e1.node.name)
    (hd2 : e2.defTy = env.s.fieldDef e2.parent e2.node.name)
    (hsub : (e1.node.hasSub && e2.node.hasSub) = false) :
    ∃ cs, findConflict env (n + 1) parentExcl rn e1 e2 σ = some (σ, cs) ∧
      (cs ≠ [] ↔ directNoTypes env.s ⟨e1.inst, e2.inst, !parentExcl⟩ = true) := by
  obtain ⟨cs, e, i⟩ := findConflict_local_defs env hle n parentExcl rn e1 e2 σ h1 h2 hsub
  refine ⟨cs, e, i.trans ?_⟩
  have htc : Spec.typesConflict e1.defTy e2.defTy = false := by
    rcases hn with hn | hn
    · rw [hd1, hn, fieldDef_meta_none hm]; rfl
    · rw [hd2, hn, fieldDef_meta_none hm]
      cases e1.defTy <;> rfl
  rw [htc, Bool.false_or]

/-! ### the document with `__typename` hidden (statement of the open document-level target) -/

/-- `z` is a field name neither the schema nor the document uses -/
def FreshName (s : Schema) (d : Doc) (z : String) : Prop :=
  z ≠ "__typename" ∧ (∀ t ∈ s, ∀ f ∈ t.fields, f.1 ≠ z) ∧
    ∀ ss ∈ d.allSets, ∀ n ∈ selsFields ss.sels, n.name ≠ z

end Gql.Exec
