import Gql.Proofs.OverlapNoFrag
import Gql.Proofs.OverlapUConf
import Gql.Proofs.OverlapCollect
/-! C14, named fragments, soundness: every conflict the rule reports is an unordered conflict of
two fields of one expanded selection set (`UWConf`).  The memo tables play no role here: they
only ever skip comparisons. -/
namespace Gql.Exec
open Overlap

theorem UConfN.instEq {s : Schema} {d : Doc} : ∀ {n : Nat} {full : Bool} {a b a' b' : Spec.FieldInst},
    UConfN s d n full a b → InstEq s a a' → InstEq s b b' → UConfN s d n full a' b' := by
  intro n
  induction n with
  | zero =>
    intro full a b a' b' h ha hb
    cases h with
    | here hd => exact UConfN.here (by rw [← direct_instEq ha hb]; exact hd)
  | succ n ih =>
    intro full a b a' b' h ha hb
    have key : ∀ c, MIn s d a b c → MIn s d a' b' c := by
      intro c hc
      simp only [MIn, subSels, ← ha.subP, ← hb.subP, ← ha.1, ← hb.1]
      exact hc
    cases h with
    | here hd => exact UConfN.here (by rw [← direct_instEq ha hb]; exact hd)
    | sub h1 h2 hrn hc =>
      refine UConfN.sub (key _ h1) (key _ h2) hrn ?_
      rw [← deeper_instEq ha hb]
      exact hc

theorem UConf.instEq {s : Schema} {d : Doc} {full : Bool} {a b a' b' : Spec.FieldInst}
    (h : UConf s d full a b) (ha : InstEq s a a') (hb : InstEq s b b') : UConf s d full a' b' := by
  obtain ⟨n, hn⟩ := h
  exact ⟨n, hn.instEq ha hb⟩

/-- `c` is a field of fragment `n` or of a fragment reachable from it -/
def FragFields (s : Schema) (d : Doc) (n : String) (c : Spec.FieldInst) : Prop :=
  ∃ m, FReach d n m ∧ FieldsOfFrag s d m c

theorem FragFields.docInst {s : Schema} {d : Doc} {n : String} {c : Spec.FieldInst}
    (h : FragFields s d n c) : DocInst s d c := by
  obtain ⟨m, _, tf, htf, hc⟩ := h
  exact ⟨tf, fragSet_typed htf, hc⟩

section snd
variable (env : Env)

/-- if `r` returns it keeps the cache invariant, and a reported conflict implies `P` -/
def Snd (r : St → Res) (P : Prop) : Prop :=
  ∀ σ σ' cs, CacheNF env σ → r σ = some (σ', cs) → CacheNF env σ' ∧ (cs ≠ [] → P)

theorem Snd.imp {r : St → Res} {P Q : Prop} (h : Snd env r P) (hpq : P → Q) : Snd env r Q :=
  fun σ σ' cs hσ e => ⟨(h σ σ' cs hσ e).1, fun hc => hpq ((h σ σ' cs hσ e).2 hc)⟩

theorem snd_nil (P : Prop) : Snd env (fun σ => some (σ, [])) P := by
  intro σ σ' cs hσ e
  simp only [Option.some.injEq, Prod.mk.injEq] at e
  obtain ⟨rfl, rfl⟩ := e
  exact ⟨hσ, fun h => absurd rfl h⟩

theorem snd_andThen {r k : St → Res} {P : Prop} (hr : Snd env r P) (hk : Snd env k P) :
    Snd env (fun σ => andThen (r σ) k) P := by
  intro σ σ' cs hσ e
  simp only [andThen] at e
  cases h1 : r σ with
  | none => simp [h1] at e
  | some x =>
    obtain ⟨σ1, c1⟩ := x
    simp only [h1] at e
    cases h2 : k σ1 with
    | none => simp [h2] at e
    | some y =>
      obtain ⟨σ2, c2⟩ := y
      simp only [h2, Option.some.injEq, Prod.mk.injEq] at e
      obtain ⟨rfl, rfl⟩ := e
      obtain ⟨g1, i1⟩ := hr σ σ1 c1 hσ h1
      obtain ⟨g2, i2⟩ := hk σ1 σ2 c2 g1 h2
      refine ⟨g2, fun hne => ?_⟩
      by_cases hc1 : c1 = []
      · subst hc1
        exact i2 (by simpa using hne)
      · exact i1 hc1

theorem snd_forEach {α : Type} (xs : List α) (f : α → St → Res) (P : Prop)
    (hf : ∀ x ∈ xs, Snd env (f x) P) : Snd env (forEach xs f) P := by
  induction xs with
  | nil => exact snd_nil env P
  | cons x xs ih =>
    intro σ σ' cs hσ e
    simp only [forEach] at e
    cases h1 : f x σ with
    | none => simp [h1] at e
    | some y =>
      obtain ⟨σ1, c1⟩ := y
      simp only [h1] at e
      cases h2 : forEach xs f σ1 with
      | none => simp [h2] at e
      | some z =>
        obtain ⟨σ2, c2⟩ := z
        simp only [h2, Option.some.injEq, Prod.mk.injEq] at e
        obtain ⟨rfl, rfl⟩ := e
        obtain ⟨g1, i1⟩ := hf x List.mem_cons_self σ σ1 c1 hσ h1
        obtain ⟨g2, i2⟩ := ih (fun y hy => hf y (List.mem_cons_of_mem _ hy)) σ1 σ2 c2 g1 h2
        refine ⟨g2, fun hne => ?_⟩
        by_cases hc1 : c1 = []
        · subst hc1
          exact i2 (by simpa using hne)
        · exact i1 hc1

theorem getReferenced_nf (hU : TypedIdsUnique env.s env.d) {σ : St} (hσ : CacheNF env σ)
    {n : String} {fr : FragDef} (hfr : env.d.getFragment n = some fr) :
    (env.s.typeFromAst fr.typeCond, fr.ss) ∈ env.d.typedSets env.s ∧
    CacheNF env (getReferenced env.s env.d σ fr).1 ∧
      ∃ q', PEq env.s (env.s.typeFromAst fr.typeCond) q' ∧
        (getReferenced env.s env.d σ fr).2 = computeFields env.s env.d q' fr.ss := by
  have ht : (env.s.typeFromAst fr.typeCond, fr.ss) ∈ env.d.typedSets env.s :=
    fragSet_typed (n := n) (by simp [fragSet, hfr])
  refine ⟨ht, ?_⟩
  unfold getReferenced
  cases hg : assocGet σ.cache fr.ss.id with
  | some c =>
    obtain ⟨t', ht', hid, q', hq', hc⟩ := hσ _ _ hg
    have : t' = (env.s.typeFromAst fr.typeCond, fr.ss) := hU _ ht' _ ht hid
    subst this
    exact ⟨hσ, q', hq', hc⟩
  | none => exact getFields_nf env hU hσ ht (PEq.refl _ _)

end snd

end Gql.Exec
