import Gql.Proofs.ExecDefs2
/-!
C08, stage 3: typed trees of type-system definitions (schema, scalar, object, interface, union, enum,
input object and directive definitions), their parser trees, printed texts and token lists; documents
mixing them with the executable definitions of stage 2, with the printer's `query`-prefix rule.
-/
namespace Gql.Text
open Gql.Syntax

/-- A field definition `"desc" name(args): Type @dirs`; the arguments are input value definitions
(the `VarDef` record without the `$`). -/
structure FDef where
  desc : Desc
  name : List Nat
  args : List VarDef
  ty : Ty
  dirs : List Dir

/-- An enum value definition. -/
structure EVDef where
  desc : Desc
  name : List Nat
  dirs : List Dir

inductive TDef where
  | schema (desc : Desc) (dirs : List Dir) (ots : List (List Nat × List Nat))
  | scalar (desc : Desc) (name : List Nat) (dirs : List Dir)
  | object (iface : Bool) (desc : Desc) (name : List Nat) (ifs : List (List Nat)) (dirs : List Dir)
      (fields : List FDef)
  | union (desc : Desc) (name : List Nat) (dirs : List Dir) (types : List (List Nat))
  | enum (desc : Desc) (name : List Nat) (dirs : List Dir) (values : List EVDef)
  | input (desc : Desc) (name : List Nat) (dirs : List Dir) (fields : List VarDef)
  | directive (desc : Desc) (name : List Nat) (args : List VarDef) (dirs : List Dir) (rep : Bool)
      (locs : List (List Nat))

/-- A type-system extension (`extend schema …`, `extend scalar …`, …). -/
inductive EDef where
  | schema (dirs : List Dir) (ots : List (List Nat × List Nat))
  | scalar (name : List Nat) (dirs : List Dir)
  | object (iface : Bool) (name : List Nat) (ifs : List (List Nat)) (dirs : List Dir) (fields : List FDef)
  | union (name : List Nat) (dirs : List Dir) (types : List (List Nat))
  | enum (name : List Nat) (dirs : List Dir) (values : List EVDef)
  | input (name : List Nat) (dirs : List Dir) (fields : List VarDef)

/-- The definition an extension is printed like (without description, after `extend `). -/
def EDef.base : EDef → TDef
  | .schema ds ots => .schema none ds ots
  | .scalar n ds => .scalar none n ds
  | .object iface n ifs ds fs => .object iface none n ifs ds fs
  | .union n ds ts => .union none n ds ts
  | .enum n ds vs => .enum none n ds vs
  | .input n ds fs => .input none n ds fs

/-- A definition of a document: executable (stage 2), type-system definition or extension (stage 3). -/
inductive GDef where
  | x (d : XDef)
  | t (d : TDef)
  | e (d : EDef)

namespace Exec

def descPre (w : Widths) (d : Desc) : List Nat := wrap [] (descText w d) [10]

/-- tokens of an optional bracketed list -/
def bracketKvs (o c : TokKind) (inner : List KV) (empty : Bool) : List KV :=
  if empty then [] else (o, none) :: inner ++ [(c, none)]

/-! ### input value definitions -/

def ivdAst (vd : VarDef) : Ast :=
  .node "InputValueDefinitionNode" [("name", Val.nameNode vd.name), ("type", vd.ty.toAst),
    ("description", descAst vd.desc), ("default_value", dfltAst vd.dflt), ("directives", dirsAst vd.dirs)]

def printIvd (w : Widths) (vd : VarDef) : List Nat :=
  descPre w vd.desc ++ join [vd.name ++ S ": " ++ vd.ty.print, wrap (S "= ") (dfltText w vd.dflt),
    printDirs w vd.dirs] [32]

def ivdKvs (vd : VarDef) : List KV :=
  descKvs vd.desc ++ ((.name, some vd.name) :: (.colon, none) :: vd.ty.kvs) ++
    (match vd.dflt with
      | none => []
      | some v => (.equals, none) :: v.kvs) ++ dirsKvs vd.dirs

def ivdsKvs : List VarDef → List KV
  | [] => []
  | a :: r => ivdKvs a ++ ivdsKvs r

def argDefsKvs (args : List VarDef) : List KV := bracketKvs .parenL .parenR (ivdsKvs args) args.isEmpty

/-! ### field definitions -/

def fdAst (f : FDef) : Ast :=
  .node "FieldDefinitionNode" [("name", Val.nameNode f.name), ("type", f.ty.toAst),
    ("description", descAst f.desc), ("arguments", optL (f.args.map ivdAst)), ("directives", dirsAst f.dirs)]

def printFd (w : Widths) (f : FDef) : List Nat :=
  descPre w f.desc ++ f.name ++ argDefs (f.args.map (printIvd w)) ++ S ": " ++ f.ty.print ++
    wrap [32] (printDirs w f.dirs)

def fdKvs (f : FDef) : List KV :=
  descKvs f.desc ++ ((.name, some f.name) :: argDefsKvs f.args) ++ ((.colon, none) :: f.ty.kvs) ++ dirsKvs f.dirs

def fdsKvs : List FDef → List KV
  | [] => []
  | a :: r => fdKvs a ++ fdsKvs r

/-! ### enum values, operation types -/

def evAst (e : EVDef) : Ast :=
  .node "EnumValueDefinitionNode" [("name", Val.nameNode e.name), ("description", descAst e.desc),
    ("directives", dirsAst e.dirs)]

def printEv (w : Widths) (e : EVDef) : List Nat := descPre w e.desc ++ join [e.name, printDirs w e.dirs] [32]

def evKvs (e : EVDef) : List KV := descKvs e.desc ++ ((.name, some e.name) :: dirsKvs e.dirs)

def evsKvs : List EVDef → List KV
  | [] => []
  | a :: r => evKvs a ++ evsKvs r

def otAst (ot : List Nat × List Nat) : Ast :=
  .node "OperationTypeDefinitionNode" [("operation", .str ot.1), ("type", namedType ot.2)]

def printOt (ot : List Nat × List Nat) : List Nat := ot.1 ++ S ": " ++ ot.2

def otKvs (ot : List Nat × List Nat) : List KV := [(.name, some ot.1), (.colon, none), (.name, some ot.2)]

def otsKvs : List (List Nat × List Nat) → List KV
  | [] => []
  | a :: r => otKvs a ++ otsKvs r

/-- names separated by a punctuator -/
def delimKvs (d : TokKind) : List (List Nat) → List KV
  | [] => []
  | [a] => [(.name, some a)]
  | a :: b :: r => (.name, some a) :: (d, none) :: delimKvs d (b :: r)

def implKvs (ifs : List (List Nat)) : List KV :=
  if ifs.isEmpty then [] else (.name, some (S "implements")) :: delimKvs .amp ifs

def unionKvs (ts : List (List Nat)) : List KV :=
  if ts.isEmpty then [] else (.equals, none) :: delimKvs .pipe ts

/-! ### definitions -/

def objCls (iface : Bool) : String := if iface then "InterfaceTypeDefinitionNode" else "ObjectTypeDefinitionNode"
def objKw (iface : Bool) : List Nat := if iface then S "interface" else S "type"

def tdefAst (dd : Bool) : TDef → Ast
  | .schema desc ds ots =>
    .node "SchemaDefinitionNode" [("description", descAst desc), ("directives", dirsAst ds),
      ("operation_types", .list (ots.map otAst))]
  | .scalar desc n ds =>
    .node "ScalarTypeDefinitionNode" [("name", Val.nameNode n), ("description", descAst desc),
      ("directives", dirsAst ds)]
  | .object iface desc n ifs ds fs =>
    .node (objCls iface) [("name", Val.nameNode n), ("description", descAst desc), ("directives", dirsAst ds),
      ("interfaces", optL (ifs.map namedType)), ("fields", optL (fs.map fdAst))]
  | .union desc n ds ts =>
    .node "UnionTypeDefinitionNode" [("name", Val.nameNode n), ("description", descAst desc),
      ("directives", dirsAst ds), ("types", optL (ts.map namedType))]
  | .enum desc n ds vs =>
    .node "EnumTypeDefinitionNode" [("name", Val.nameNode n), ("description", descAst desc),
      ("directives", dirsAst ds), ("values", optL (vs.map evAst))]
  | .input desc n ds fs =>
    .node "InputObjectTypeDefinitionNode" [("name", Val.nameNode n), ("description", descAst desc),
      ("directives", dirsAst ds), ("fields", optL (fs.map ivdAst))]
  | .directive desc n args ds rep locs =>
    .node "DirectiveDefinitionNode" [("name", Val.nameNode n), ("locations", .list (locs.map Val.nameNode)),
      ("description", descAst desc), ("arguments", optL (args.map ivdAst)),
      ("directives", if dd then dirsAst ds else .none), ("repeatable", .bool rep)]

def printTDef (w : Widths) : TDef → List Nat
  | .schema desc ds ots => descPre w desc ++ join [S "schema", printDirs w ds, block (ots.map printOt)] [32]
  | .scalar desc n ds => descPre w desc ++ join [S "scalar", n, printDirs w ds] [32]
  | .object iface desc n ifs ds fs =>
    descPre w desc ++ join [objKw iface, n, wrap (S "implements ") (join ifs (S " & ")), printDirs w ds,
      block (fs.map (printFd w))] [32]
  | .union desc n ds ts =>
    descPre w desc ++ join [S "union", n, printDirs w ds, wrap (S "= ") (join ts (S " | "))] [32]
  | .enum desc n ds vs => descPre w desc ++ join [S "enum", n, printDirs w ds, block (vs.map (printEv w))] [32]
  | .input desc n ds fs => descPre w desc ++ join [S "input", n, printDirs w ds, block (fs.map (printIvd w))] [32]
  | .directive desc n args ds rep locs =>
    descPre w desc ++ S "directive @" ++ n ++ argDefs (args.map (printIvd w)) ++ wrap [32] (printDirs w ds) ++
      (if rep then S " repeatable" else []) ++ S " on " ++ join locs (S " | ")

def tdefKvs : TDef → List KV
  | .schema desc ds ots =>
    descKvs desc ++ ((.name, some (S "schema")) :: dirsKvs ds) ++ bracketKvs .braceL .braceR (otsKvs ots) ots.isEmpty
  | .scalar desc n ds => descKvs desc ++ ((.name, some (S "scalar")) :: (.name, some n) :: dirsKvs ds)
  | .object iface desc n ifs ds fs =>
    descKvs desc ++ ((.name, some (objKw iface)) :: (.name, some n) :: implKvs ifs) ++ dirsKvs ds ++
      bracketKvs .braceL .braceR (fdsKvs fs) fs.isEmpty
  | .union desc n ds ts =>
    descKvs desc ++ ((.name, some (S "union")) :: (.name, some n) :: dirsKvs ds) ++ unionKvs ts
  | .enum desc n ds vs =>
    descKvs desc ++ ((.name, some (S "enum")) :: (.name, some n) :: dirsKvs ds) ++
      bracketKvs .braceL .braceR (evsKvs vs) vs.isEmpty
  | .input desc n ds fs =>
    descKvs desc ++ ((.name, some (S "input")) :: (.name, some n) :: dirsKvs ds) ++
      bracketKvs .braceL .braceR (ivdsKvs fs) fs.isEmpty
  | .directive desc n args ds rep locs =>
    descKvs desc ++ ((.name, some (S "directive")) :: (.at, none) :: (.name, some n) :: argDefsKvs args) ++
      dirsKvs ds ++ (if rep then [(.name, some (S "repeatable"))] else []) ++
      ((.name, some (S "on")) :: delimKvs .pipe locs)

/-! ### well-formedness -/

def ivdsWf (vds : List VarDef) : Prop := ∀ a ∈ vds, varDefWf a

def fdWf (f : FDef) : Prop :=
  descWf f.desc ∧ validName f.name = true ∧ ivdsWf f.args ∧ f.ty.wf = true ∧ TyP.shaped f.ty = true ∧
    dirsWfC true f.dirs

def evWf (e : EVDef) : Prop :=
  descWf e.desc ∧ validName e.name = true ∧ e.name ≠ S "true" ∧ e.name ≠ S "false" ∧ e.name ≠ S "null" ∧
    dirsWfC true e.dirs

def namesWf (ns : List (List Nat)) : Prop := ∀ a ∈ ns, validName a = true

def isLocation (l : List Nat) : Prop := l ∈ Generated.ParserTables.directiveLocations.map strCps

def tdefWf (dd : Bool) : TDef → Prop
  | .schema desc ds ots =>
    descWf desc ∧ dirsWfC true ds ∧ ots ≠ [] ∧ ∀ ot ∈ ots, isOpType ot.1 ∧ validName ot.2 = true
  | .scalar desc n ds => descWf desc ∧ validName n = true ∧ dirsWfC true ds
  | .object _ desc n ifs ds fs =>
    descWf desc ∧ validName n = true ∧ namesWf ifs ∧ dirsWfC true ds ∧ ∀ f ∈ fs, fdWf f
  | .union desc n ds ts => descWf desc ∧ validName n = true ∧ dirsWfC true ds ∧ namesWf ts
  | .enum desc n ds vs => descWf desc ∧ validName n = true ∧ dirsWfC true ds ∧ ∀ e ∈ vs, evWf e
  | .input desc n ds fs => descWf desc ∧ validName n = true ∧ dirsWfC true ds ∧ ivdsWf fs
  | .directive desc n args ds _ locs =>
    descWf desc ∧ validName n = true ∧ ivdsWf args ∧ dirsWfC true ds ∧ (ds = [] ∨ dd = true) ∧ locs ≠ [] ∧
      ∀ l ∈ locs, isLocation l

/-! ### extensions -/

def objExtCls (iface : Bool) : String := if iface then "InterfaceTypeExtensionNode" else "ObjectTypeExtensionNode"

def edefAst : EDef → Ast
  | .schema ds ots =>
    .node "SchemaExtensionNode" [("directives", dirsAst ds), ("operation_types", optL (ots.map otAst))]
  | .scalar n ds => .node "ScalarTypeExtensionNode" [("name", Val.nameNode n), ("directives", dirsAst ds)]
  | .object iface n ifs ds fs =>
    .node (objExtCls iface) [("name", Val.nameNode n), ("directives", dirsAst ds),
      ("interfaces", optL (ifs.map namedType)), ("fields", optL (fs.map fdAst))]
  | .union n ds ts =>
    .node "UnionTypeExtensionNode" [("name", Val.nameNode n), ("directives", dirsAst ds),
      ("types", optL (ts.map namedType))]
  | .enum n ds vs =>
    .node "EnumTypeExtensionNode" [("name", Val.nameNode n), ("directives", dirsAst ds),
      ("values", optL (vs.map evAst))]
  | .input n ds fs =>
    .node "InputObjectTypeExtensionNode" [("name", Val.nameNode n), ("directives", dirsAst ds),
      ("fields", optL (fs.map ivdAst))]

def printEDef (w : Widths) (d : EDef) : List Nat := S "extend " ++ printTDef w d.base

def edefKvs (d : EDef) : List KV := (.name, some (S "extend")) :: tdefKvs d.base

/-- Well-formedness of an extension: that of the parts, and the parser's requirement that an
extension extends something. -/
def edefWf : EDef → Prop
  | .schema ds ots =>
    dirsWfC true ds ∧ (∀ ot ∈ ots, isOpType ot.1 ∧ validName ot.2 = true) ∧ (ds ≠ [] ∨ ots ≠ [])
  | .scalar n ds => validName n = true ∧ dirsWfC true ds ∧ ds ≠ []
  | .object _ n ifs ds fs =>
    validName n = true ∧ namesWf ifs ∧ dirsWfC true ds ∧ (∀ f ∈ fs, fdWf f) ∧ (ifs ≠ [] ∨ ds ≠ [] ∨ fs ≠ [])
  | .union n ds ts => validName n = true ∧ dirsWfC true ds ∧ namesWf ts ∧ (ds ≠ [] ∨ ts ≠ [])
  | .enum n ds vs => validName n = true ∧ dirsWfC true ds ∧ (∀ e ∈ vs, evWf e) ∧ (ds ≠ [] ∨ vs ≠ [])
  | .input n ds fs => validName n = true ∧ dirsWfC true ds ∧ ivdsWf fs ∧ (ds ≠ [] ∨ fs ≠ [])

/-! ### documents -/

def gdefAst (fa dd : Bool) : GDef → Ast
  | .x d => xdefAst fa d
  | .t d => tdefAst dd d
  | .e d => edefAst d

def printGDef (w : Widths) : GDef → List Nat
  | .x d => printXDef w d
  | .t d => printTDef w d
  | .e d => printEDef w d

def gdefKvs : GDef → List KV
  | .x d => xdefKvs d
  | .t d => tdefKvs d
  | .e d => edefKvs d

def gdefWf (fa dd : Bool) : GDef → Prop
  | .x d => xdefWf fa d
  | .t d => tdefWf dd d
  | .e d => edefWf d

def gdefsWf (fa dd : Bool) (defs : List GDef) : Prop := ∀ d ∈ defs, gdefWf fa dd d

def gdocAst (fa dd : Bool) (defs : List GDef) : Ast :=
  .node "DocumentNode" [("definitions", .list (defs.map (gdefAst fa dd)))]

def printGDoc (w : Widths) (defs : List GDef) : List Nat :=
  join (documentDefs none (defs.map (printGDef w))) [10, 10]

/-- The printed definition ends with the `}` of a block. -/
def endsBlock : GDef → Bool
  | .x _ => true
  | .t (.schema ..) => true
  | .t (.object _ _ _ _ _ fs) => !fs.isEmpty
  | .t (.enum _ _ _ vs) => !vs.isEmpty
  | .t (.input _ _ _ fs) => !fs.isEmpty
  | .t _ => false
  | .e (.schema _ ots) => !ots.isEmpty
  | .e (.object _ _ _ _ fs) => !fs.isEmpty
  | .e (.enum _ _ vs) => !vs.isEmpty
  | .e (.input _ _ fs) => !fs.isEmpty
  | .e _ => false

/-- The definition prints as a shorthand query `{ … }`. -/
def isShortG : GDef → Bool
  | .x (.op desc ot n vds ds _) => desc.isNone && decide (ot = S "query") && n.isEmpty && vds.isEmpty && ds.isEmpty
  | _ => false

/-- The tokens of the printed document: a shorthand query that follows a definition not ending with
a block carries the `query` keyword (printer fix e7002aa). -/
def gdefsKvs : Bool → List GDef → List KV
  | _, [] => []
  | pb, d :: r =>
    (if isShortG d && !pb then [(.name, some (S "query"))] else []) ++ gdefKvs d ++ gdefsKvs (endsBlock d) r

end Exec
end Gql.Text
