import Gql.Proofs.ValidationTI
/-!
Lemmas for C12-2 (`rules_union`): without a limit the `errors` list of `validate()` is, at every
moment, a permutation of the concatenation of what each member has handed to `on_error`.
-/
namespace Gql.Validation
variable {τ σ ε : Type}

theorem perm_flatMap_append {α β : Type} (a b : α → List β) (ms : List α) :
    (ms.flatMap (fun m => a m ++ b m)).Perm (ms.flatMap a ++ ms.flatMap b) := by
  induction ms with
  | nil => simp
  | cons m ms ih =>
    simp only [List.flatMap_cons]
    have h1 : (a m ++ b m ++ List.flatMap (fun m => a m ++ b m) ms).Perm (a m ++ b m ++ (List.flatMap a ms ++ List.flatMap b ms)) :=
      List.Perm.append_left _ ih
    refine h1.trans ?_
    have h2 : (b m ++ (List.flatMap a ms ++ List.flatMap b ms)).Perm (List.flatMap a ms ++ (b m ++ List.flatMap b ms)) := by
      rw [← List.append_assoc, ← List.append_assoc]
      exact List.Perm.append_right _ List.perm_append_comm
    simpa [List.append_assoc] using List.Perm.append_left (a m) h2

theorem map_eq_flatMap_singleton {α β : Type} (f : α → β) (l : List α) :
    l.map f = l.flatMap (fun x => [f x]) := by
  induction l with
  | nil => rfl
  | cons x xs ih => simp [List.flatMap_cons, ih]

theorem perm_flatMap_congr {α β : Type} (f g : α → List β) (l : List α) (h : ∀ x ∈ l, (f x).Perm (g x)) :
    (l.flatMap f).Perm (l.flatMap g) := by
  induction l with
  | nil => simp
  | cons x xs ih =>
    simp only [List.flatMap_cons]
    exact List.Perm.append (h x List.mem_cons_self) (ih (fun y hy => h y (List.mem_cons_of_mem _ hy)))

theorem Member.enter_errs (ti : TI τ) (i : Info) (m : Member τ σ ε) :
    (Member.enter ti i m).1.errs = m.errs ++ (Member.enter ti i m).2 := by
  unfold Member.enter
  split <;> simp

theorem Member.leave_errs (ti : TI τ) (i : Info) (m : Member τ σ ε) :
    (Member.leave ti i m).1.errs = m.errs ++ (Member.leave ti i m).2 := by
  unfold Member.leave
  split
  · split <;> simp
  · split <;> simp
  · simp

/-- `errors` is a permutation of everything the members reported so far (no limit, not aborted) -/
def UnionInv (ps : PState τ σ ε) : Prop :=
  ps.sink.aborted = false ∧ ps.sink.errs.Perm (ps.members.flatMap (fun m => m.errs))

theorem loop_union (f : Member τ σ ε → Member τ σ ε × List ε) (hf : ∀ m, (f m).1.errs = m.errs ++ (f m).2)
    (ps : PState τ σ ε) (h : UnionInv ps) :
    UnionInv ⟨(memberLoop none f ps.members ps.sink).1, (memberLoop none f ps.members ps.sink).2⟩ := by
  rw [memberLoop_none f _ _ h.1]
  refine ⟨rfl, ?_⟩
  simp only [List.flatMap_map]
  have h1 : (List.flatMap (fun m => (f m).1.errs) ps.members) = List.flatMap (fun m => m.errs ++ (f m).2) ps.members := by
    congr 1; funext m; exact hf m
  rw [h1]
  exact (List.Perm.append_right _ h.2).trans (perm_flatMap_append _ _ _).symm

theorem union_inv (D : Driver τ) :
    (∀ t (s : TI τ × PState τ σ ε), UnionInv s.2 → UnionInv (run0 (Vu D) s t).1.2) ∧
    (∀ ts (s : TI τ × PState τ σ ε), UnionInv s.2 → UnionInv (run0List (Vu D) s ts).1.2) := by
  apply run0_inv (Vu D) (fun s => UnionInv s.2)
  · intro s i h
    obtain ⟨ti, ps⟩ := s
    cases hc : (parallel (τ := τ) (σ := σ) (ε := ε) none).hEnter ps i.kind with
    | true =>
      simp only [Vu]
      rw [tiVisitor_enter_pos D _ _ _ hc]
      dsimp only
      rw [parallel_enter_eq]
      exact loop_union _ (Member.enter_errs _ _) ps h
    | false =>
      simp only [Vu]
      rw [tiVisitor_enter_neg D _ _ _ hc]
      exact h
  · intro s i h
    obtain ⟨ti, ps⟩ := s
    cases hc : (parallel (τ := τ) (σ := σ) (ε := ε) none).hLeave ps i.kind with
    | true =>
      simp only [Vu]
      rw [tiVisitor_leave_pos D _ _ _ hc]
      dsimp only
      rw [parallel_leave_eq]
      exact loop_union _ (Member.leave_errs _ _) ps h
    | false =>
      simp only [Vu]
      rw [tiVisitor_leave_neg D _ _ _ hc]
      exact h

end Gql.Validation
