import Gql.Types.Introspection
/-! Lemmas for C18: `restrict` against `introspect`, single-type lookup. -/
namespace Gql.Types
open Json

variable {V : Type} (printV : V → List Nat)

@[simp] theorem key_beq (a b : Key) : (a == b) = decide (a = b) := rfl

@[simp] theorem full_descriptions (d : Nat) : (Options.full d).descriptions = true := rfl
@[simp] theorem full_specifiedByUrl (d : Nat) : (Options.full d).specifiedByUrl = true := rfl
@[simp] theorem full_directiveIsRepeatable (d : Nat) : (Options.full d).directiveIsRepeatable = true := rfl
@[simp] theorem full_schemaDescription (d : Nat) : (Options.full d).schemaDescription = true := rfl
@[simp] theorem full_inputValueDeprecation (d : Nat) : (Options.full d).inputValueDeprecation = true := rfl
@[simp] theorem full_directiveDeprecation (d : Nat) : (Options.full d).directiveDeprecation = true := rfl
@[simp] theorem full_oneOf (d : Nat) : (Options.full d).oneOf = true := rfl
@[simp] theorem full_typeDepth (d : Nat) : (Options.full d).typeDepth = d := rfl

theorem isDeprecatedEntry_ivJson (d : Nat) (iv : InputValue V) :
    isDeprecatedEntry (ivJson printV (Options.full d) iv) = iv.deprecationReason.isSome := by
  cases h : iv.deprecationReason <;>
    simp [isDeprecatedEntry, ivJson, descPart, Json.get?, List.lookup, h]

theorem restrictInputValue_ivJson (o : Options) (iv : InputValue V) :
    restrictInputValue o (ivJson printV (Options.full o.typeDepth) iv) = ivJson printV o iv := by
  cases ha : o.descriptions <;> cases he : o.inputValueDeprecation <;>
    simp [restrictInputValue, ivJson, descPart, descKeys, dropKeys, ha, he]

theorem restrictInputValues_ivsJson (o : Options) (ivs : List (InputValue V)) :
    restrictInputValues o (ivsJson printV (Options.full o.typeDepth) ivs) = ivsJson printV o ivs := by
  have h1 : (fun x => restrictInputValue o (ivJson printV (Options.full o.typeDepth) x)) = ivJson printV o :=
    funext (restrictInputValue_ivJson printV o)
  have h2 : (fun x => !isDeprecatedEntry (ivJson printV (Options.full o.typeDepth) x))
      = fun iv : InputValue V => iv.deprecationReason.isNone := by
    funext iv; rw [isDeprecatedEntry_ivJson]; cases iv.deprecationReason <;> rfl
  unfold restrictInputValues ivsJson
  cases he : o.inputValueDeprecation <;>
    simp [visibleInputs, mapArr, filterArr, List.filter_map, Function.comp_def, h1, h2, he]

@[simp] theorem restrictInputValues_null (o : Options) : restrictInputValues o null = null := by
  cases he : o.inputValueDeprecation <;> simp [restrictInputValues, mapArr, filterArr, he]

theorem restrictField_fieldJson (o : Options) (f : Field V) :
    restrictField o (fieldJson printV (Options.full o.typeDepth) f) = fieldJson printV o f := by
  have h := restrictInputValues_ivsJson printV o f.args
  cases ha : o.descriptions <;>
    simp [restrictField, fieldJson, descPart, descKeys, dropKeys, mapKey, ha, h]

theorem restrictEnumValue_enumValueJson (o : Options) (e : EnumValue) :
    restrictEnumValue o (enumValueJson (Options.full o.typeDepth) e) = enumValueJson o e := by
  cases ha : o.descriptions <;>
    simp [restrictEnumValue, enumValueJson, descPart, descKeys, dropKeys, ha]

theorem restrictType_typeJson (types : List (TypeDef V)) (o : Options) (t : TypeDef V) :
    restrictType o (typeJson printV types (Options.full o.typeDepth) t) = typeJson printV types o t := by
  have h1 : (fun x => restrictField o (fieldJson printV (Options.full o.typeDepth) x)) = fieldJson printV o :=
    funext (restrictField_fieldJson printV o)
  have h2 : (fun x => restrictEnumValue o (enumValueJson (Options.full o.typeDepth) x)) = enumValueJson o :=
    funext (restrictEnumValue_enumValueJson o)
  have h3 := restrictInputValues_ivsJson printV o t.inputFields
  cases ha : o.descriptions <;> cases hb : o.specifiedByUrl <;> cases hg : o.oneOf <;>
    cases hk : t.kind <;>
    simp [restrictType, typeJson, descPart, descKeys, dropKeys, mapKey, mapArr, ha, hb, hg, hk, h1, h2, h3,
      Function.comp_def]

theorem isDeprecatedEntry_directiveJson (d : Nat) (x : Directive V) :
    isDeprecatedEntry (directiveJson printV (Options.full d) x) = x.deprecationReason.isSome := by
  cases h : x.deprecationReason <;>
    simp [isDeprecatedEntry, directiveJson, descPart, Json.get?, List.lookup, h]

theorem restrictDirective_directiveJson (o : Options) (x : Directive V) :
    restrictDirective o (directiveJson printV (Options.full o.typeDepth) x) = directiveJson printV o x := by
  have h := restrictInputValues_ivsJson printV o x.args
  cases ha : o.descriptions <;> cases hc : o.directiveIsRepeatable <;> cases hf : o.directiveDeprecation <;>
    simp [restrictDirective, directiveJson, descPart, descKeys, dropKeys, mapKey, ha, hc, hf, h]

theorem restrictDirectives_json (o : Options) (ds : List (Directive V)) :
    restrictDirectives o (arr ((visibleDirectives (Options.full o.typeDepth) ds).map
        (directiveJson printV (Options.full o.typeDepth))))
      = arr ((visibleDirectives o ds).map (directiveJson printV o)) := by
  have h1 : (fun x => restrictDirective o (directiveJson printV (Options.full o.typeDepth) x))
      = directiveJson printV o := funext (restrictDirective_directiveJson printV o)
  have h2 : (fun x => !isDeprecatedEntry (directiveJson printV (Options.full o.typeDepth) x))
      = fun x : Directive V => x.deprecationReason.isNone := by
    funext x; rw [isDeprecatedEntry_directiveJson]; cases x.deprecationReason <;> rfl
  unfold restrictDirectives
  cases hf : o.directiveDeprecation <;>
    simp [visibleDirectives, mapArr, filterArr, List.filter_map, Function.comp_def, h1, h2, hf]

theorem restrictSchema_schemaJson (s : Schema V) (o : Options) :
    restrictSchema o (schemaJson printV s (Options.full o.typeDepth)) = schemaJson printV s o := by
  have h1 : (fun x => restrictType o (typeJson printV s.types (Options.full o.typeDepth) x))
      = typeJson printV s.types o := funext (restrictType_typeJson printV s.types o)
  have h2 := restrictDirectives_json printV o s.directives
  cases ha : o.descriptions <;> cases hd : o.schemaDescription <;>
    simp [restrictSchema, schemaJson, dropKeys, mapKey, mapArr, ha, hd, h1, h2, Function.comp_def]

theorem introspect_restrict (s : Schema V) (o : Options) :
    introspect printV s o = restrict o (introspect printV s (Options.full o.typeDepth)) := by
  simp [introspect, restrict, mapKey, restrictSchema_schemaJson]

/-! ### single-type lookup -/

theorem hasName_typeJson (types : List (TypeDef V)) (o : Options) (n : List Nat) (t : TypeDef V) :
    hasName n (typeJson printV types o t) = decide (t.name = n) := by
  simp [hasName, typeJson, Json.get?, List.lookup]

theorem type_lookup (s : Schema V) (o : Options) (n : List Nat) :
    typeLookup printV s o n = findTypeEntry n (introspect printV s o) := by
  have hent : typeEntries (introspect printV s o) = s.types.map (typeJson printV s.types o) := by
    cases ha : o.descriptions <;> cases hd : o.schemaDescription <;>
      simp [typeEntries, introspect, schemaJson, Json.get?, List.lookup, ha, hd]
  unfold typeLookup findTypeEntry
  rw [hent, List.find?_map]
  have : (hasName n ∘ typeJson printV s.types o) = fun t => decide (t.name = n) := by
    funext t; simp [hasName_typeJson]
  rw [this]
  cases s.types.find? (fun t => decide (t.name = n)) <;> rfl

end Gql.Types
