import Gql.Proofs.ExecDocParse
/-!
The printer model on the parser's trees of the executable sub-grammar prints `Exec.printDoc`.
-/
namespace Gql.Text
open Gql Gql.Syntax

theorem prArgs (w : Widths) (args : Args) : prList w (Exec.argsAst args) = .ok (Val.printFields w args) := by
  induction args with
  | nil => simp [Exec.argsAst, Val.printFields, prList]
  | cons a r ih =>
    obtain ⟨n, v⟩ := a
    have h1 := prV w v
    simp [Exec.argsAst, Val.printFields, prList, pr, prFields, leave, baseClass, reqText, reqRaw, fld,
      Val.nameNode, h1, ih]

theorem pr_optL_args (w : Widths) (args : Args) :
    pr w (optL (Exec.argsAst args)) = .ok (if args = [] then .none else .texts (Val.printFields w args)) := by
  cases args with
  | nil => simp [optL, Exec.argsAst, pr]
  | cons a r =>
    obtain ⟨n, v⟩ := a
    have := prArgs w ((n, v) :: r)
    simp only [Exec.argsAst] at this
    simp [optL, Exec.argsAst, pr, this]

theorem prDir (w : Widths) (d : Dir) : pr w (Exec.dirAst d) = .ok (.text (Exec.printDir w d)) := by
  have h := pr_optL_args w d.args
  by_cases ha : d.args = []
  · simp [ha] at h
    simp [Exec.dirAst, Exec.printDir, pr, prFields, leave, baseClass, reqText, reqRaw, optTexts, fld, Val.nameNode, h, ha,
      Val.printFields]
  · simp [ha] at h
    simp [Exec.dirAst, Exec.printDir, pr, prFields, leave, baseClass, reqText, reqRaw, optTexts, fld, Val.nameNode, h]

theorem prDirsList (w : Widths) (ds : List Dir) :
    prList w (ds.map Exec.dirAst) = .ok (ds.map (Exec.printDir w)) := by
  induction ds with
  | nil => simp [prList]
  | cons d r ih => simp [prList, prDir, ih]

theorem pr_dirsAst (w : Widths) (ds : List Dir) :
    pr w (Exec.dirsAst ds) = .ok (if ds = [] then .none else .texts (ds.map (Exec.printDir w))) := by
  cases ds with
  | nil => simp [Exec.dirsAst, optL, pr]
  | cons d r =>
    have := prDirsList w (d :: r)
    simp only [List.map_cons] at this
    simp [Exec.dirsAst, optL, pr, this]

end Gql.Text

namespace Gql.Text
open Gql Gql.Syntax

theorem dirs_join (w : Widths) (ds : List Dir) :
    (match (if ds = [] then Printed.none else Printed.texts (ds.map (Exec.printDir w))) with
      | .texts ts => join ts [32]
      | _ => join [] [32]) = Exec.printDirs w ds := by
  cases ds <;> simp [Exec.printDirs]

mutual
  theorem prSel (w : Widths) (s : Sel) : pr w (Exec.selAst s) = .ok (.text (Exec.printSel w s)) := by
    match s with
    | .field al n args ds ss =>
      have hA := pr_optL_args w args
      have hD := pr_dirsAst w ds
      have hS := prSels w ss
      rw [selAst_field]
      cases ss with
      | nil =>
        rw [Exec.printSel.eq_1]
        simp only [pr, prFields, hA, hD, Out.bind_ok, Out.pure_eq]
        by_cases hal : al = [] <;> by_cases ha : args = [] <;> by_cases hd : ds = [] <;>
          simp [pr, prFields, leave, baseClass, reqText, reqRaw, optText, optTexts, fld, Val.nameNode, optName,
            hal, ha, hd, Val.printFields, Exec.printDirs]
      | cons s0 r0 =>
        rw [Exec.printSel.eq_2]
        have hS' : prList w (Exec.selsAst (s0 :: r0)) = .ok (Exec.printSels w (s0 :: r0)) := hS
        simp only [pr, prFields, hA, hD, Out.bind_ok, Out.pure_eq]
        by_cases hal : al = [] <;> by_cases ha : args = [] <;> by_cases hd : ds = [] <;>
          simp [pr, prFields, leave, baseClass, reqText, reqRaw, optText, optTexts, fld, Val.nameNode, optName,
            hal, ha, hd, Val.printFields, Exec.printDirs, Exec.ssAst, hS']
    | .spread n ds =>
      have hD := pr_dirsAst w ds
      rw [Exec.selAst.eq_3, Exec.printSel.eq_3]
      simp only [pr, prFields, hD, Out.bind_ok, Out.pure_eq]
      by_cases hd : ds = [] <;>
        simp [pr, prFields, leave, baseClass, reqText, reqRaw, optTexts, fld, Val.nameNode, hd, Exec.printDirs]
    | .inline tc ds ss =>
      have hD := pr_dirsAst w ds
      have hS := prSels w ss
      rw [selAst_inline, Exec.printSel.eq_4]
      simp only [pr, prFields, hD, Out.bind_ok, Out.pure_eq]
      by_cases htc : tc = [] <;> by_cases hd : ds = [] <;>
        simp [pr, prFields, leave, baseClass, reqText, reqRaw, optText, optTexts, fld, Val.nameNode, namedType,
          hd, htc, Exec.printDirs, Exec.ssAst, hS]
  theorem prSels (w : Widths) (ss : List Sel) : prList w (Exec.selsAst ss) = .ok (Exec.printSels w ss) := by
    match ss with
    | [] => simp [Exec.selsAst, Exec.printSels, prList]
    | s :: r =>
      have h1 := prSel w s
      have h2 := prSels w r
      simp [Exec.selsAst, Exec.printSels, prList, h1, h2]
end

end Gql.Text

namespace Gql.Text
open Gql Gql.Syntax

theorem prSS (w : Widths) (ss : List Sel) : pr w (Exec.ssAst ss) = .ok (.text (block (Exec.printSels w ss))) := by
  have := prSels w ss
  simp [Exec.ssAst, pr, prFields, leave, baseClass, optTexts, fld, this]

theorem prDef (w : Widths) (fa : Bool) (d : Def) : pr w (Exec.defAst fa d) = .ok (.text (Exec.printDef w d)) := by
  cases d with
  | op ot n ds ss =>
    have hD := pr_dirsAst w ds
    have hS := prSS w ss
    simp only [Exec.defAst, pr, prFields, hD, hS, Out.bind_ok, Out.pure_eq]
    by_cases hn : n = [] <;> by_cases hd : ds = [] <;>
      simp [pr, prFields, leave, baseClass, reqText, reqRaw, optText, optTexts, fld, Val.nameNode, optName, hn, hd,
        Exec.printDef, Exec.printDirs, hasMultilineItems, wrap, join, joinWith]
  | frag n tc ds ss =>
    have hD := pr_dirsAst w ds
    have hS := prSS w ss
    cases fa <;> simp only [Exec.defAst, pr, prFields, prList, hD, hS, Out.bind_ok, Out.pure_eq, namedType] <;>
    by_cases hd : ds = [] <;>
      simp [pr, prFields, prList, leave, baseClass, reqText, reqRaw, optText, optTexts, fld, Val.nameNode, hd,
        Exec.printDef, Exec.printDirs, wrap, join, joinWith]

theorem prDefs (w : Widths) (fa : Bool) (defs : List Def) :
    prList w (defs.map (Exec.defAst fa)) = .ok (defs.map (Exec.printDef w)) := by
  induction defs with
  | nil => simp [prList]
  | cons d r ih => simp [prList, prDef, ih]

/-- The printer model on the parser's tree of an executable document prints `Exec.printDoc`. -/
theorem printAst_doc (w : Widths) (fa : Bool) (defs : List Def) :
    printAst w (Exec.docAst fa defs) = .ok (Exec.printDoc w defs) := by
  have := prDefs w fa defs
  simp [printAst, Exec.docAst, pr, prFields, leave, baseClass, optTexts, fld, this, Exec.printDoc]

end Gql.Text
