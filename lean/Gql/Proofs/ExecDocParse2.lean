import Gql.Proofs.ExecParse2
/-!
The parser model on printed stage-2 operation / fragment definitions and documents.
-/
namespace Gql.Syntax
open Gql Gql.Text
open Gql.Generated

theorem firstK_desc (d : Desc) (dk : TokKind) :
    firstK (Exec.descKvs d) dk = match d with
      | none => dk
      | some (_, b) => if b then .blockString else .string := by
  match d with
  | none => rfl
  | some (s, b) => rfl

theorem firstK_varDefs (vds : List VarDef) (d : TokKind) :
    firstK (Exec.varDefsKvs vds) d = if vds = [] then d else .parenL := by
  cases vds <;> simp [Exec.varDefsKvs, firstK]

theorem optL_varDefs (vds : List VarDef) :
    optListO (if vds = [] then none else some (vds.map Exec.varDefAst)) = optL (vds.map Exec.varDefAst) := by
  cases vds <;> simp [optListO, optL]

section
variable (cfg : Cfg) (hm : cfg.maxTokens = none)
include hm

/-- `parse_operation_definition` on the keyword form of an operation (also for `query { … }`). -/
theorem parseXOp_long_ok (n : Nat) (desc : Desc) (ot nm : List Nat) (vds : List VarDef) (ds : List Dir) (ss : List Sel)
    (fa : Bool) (h : Exec.xdefWf fa (.op desc ot nm vds ds ss)) (toks : List Token) (r : Stream) (cnt : Nat)
    (hn : (Exec.descKvs desc ++ (((TokKind.name, some ot) : KV) :: (if nm.isEmpty then [] else [(TokKind.name, some nm)])) ++
      Exec.varDefsKvs vds ++ Exec.dirsKvs ds ++ Exec.ssKvs ss).length < n)
    (hkv : toks.map Token.kv = Exec.descKvs desc ++ (((TokKind.name, some ot) : KV) ::
      (if nm.isEmpty then [] else [(TokKind.name, some nm)])) ++ Exec.varDefsKvs vds ++ Exec.dirsKvs ds ++ Exec.ssKvs ss)
    (hne : NonEof toks) (hr : r.Ready) :
    ∃ c', parseOperationDefinition cfg n (PSat cnt (feed toks r)) =
      .ok (Exec.xdefAst fa (.op desc ot nm vds ds ss), PSat c' r) := by
  obtain ⟨hdesc, hot, hnm, hvds, hds, hssne, hss⟩ := h
  rw [List.map_eq_append_iff] at hkv
  obtain ⟨t1234, tss, rfl, hk1234, hkss⟩ := hkv
  rw [List.map_eq_append_iff] at hk1234
  obtain ⟨t123, tds, rfl, hk123, hkds⟩ := hk1234
  rw [List.map_eq_append_iff] at hk123
  obtain ⟨t12, tvd, rfl, hk12, hkvd⟩ := hk123
  rw [List.map_eq_append_iff] at hk12
  obtain ⟨tdesc, t2, rfl, hkdesc, hk2⟩ := hk12
  rw [List.map_eq_cons_iff] at hk2
  obtain ⟨tO, tNl, rfl, hkO, hkNl⟩ := hk2
  obtain ⟨hOk, hOv⟩ := tok_of_kv hkO
  have hOne : tO.kind ≠ .eof := by rw [hOk]; decide
  have hne_ss : NonEof tss := hne.append_right
  have hne_ds : NonEof tds := hne.append_left.append_right
  have hne_vd : NonEof tvd := hne.append_left.append_left.append_right
  have hne_2 : NonEof (tO :: tNl) := hne.append_left.append_left.append_left.append_right
  have hR4 : (feed tss r).Ready := feed_ready _ _ hne_ss hr
  have hR3 : (feed tds (feed tss r)).Ready := feed_ready _ _ hne_ds hR4
  have hR2 : (feed tvd (feed tds (feed tss r))).Ready := feed_ready _ _ hne_vd hR3
  have hk4 : headKind (feed tss r) = .braceL := by rw [headKind_feed tss _ r hkss]; rfl
  have hk3 : headKind (feed tds (feed tss r)) = if ds = [] then .braceL else .at := by
    rw [headKind_feed tds _ _ hkds, firstK_dirs, hk4]
  have hk2 : headKind (feed tvd (feed tds (feed tss r))) =
      if vds = [] then headKind (feed tds (feed tss r)) else .parenL := by
    rw [headKind_feed tvd _ _ hkvd, firstK_varDefs]
  have hk3ne : headKind (feed tds (feed tss r)) ≠ .parenL ∧ headKind (feed tds (feed tss r)) ≠ .name := by
    rw [hk3]; split <;> exact ⟨by decide, by decide⟩
  have hk2ne : headKind (feed tvd (feed tds (feed tss r))) ≠ .name := by
    rw [hk2]; split
    · exact hk3ne.2
    · decide
  simp only [List.length_append, List.length_cons] at hn
  have hDirs : ∀ c0, ∃ cd, parseDirectives cfg n false (PSat c0 (feed tds (feed tss r))) =
      .ok ((if ds = [] then none else some (ds.map Exec.dirAst)), PSat cd (feed tss r)) := by
    intro c0
    exact parseDirectives_raw cfg hm false ds hds n tds _ c0 (by omega) hkds hne_ds hR4 (by rw [hk4]; decide)
      (by rw [hk4]; decide)
  have hdirsAst : optListO (if ds = [] then none else some (ds.map Exec.dirAst)) = Exec.dirsAst ds := by
    cases ds <;> simp [optListO, Exec.dirsAst, optL]
  have hSS : ∀ c0, ∃ cs, selectionSet n cfg (PSat c0 (feed tss r)) = .ok (Exec.ssAst ss, PSat cs r) := by
    intro c0
    exact parseSS cfg hm ss hssne hss n tss r c0 (by omega) hkss hne_ss hr
  have hVD : ∀ c0, ∃ cv, parseVariableDefinitions cfg n (PSat c0 (feed tvd (feed tds (feed tss r)))) =
      .ok ((if vds = [] then none else some (vds.map Exec.varDefAst)), PSat cv (feed tds (feed tss r))) := by
    intro c0
    exact parseVarDefs_ok cfg hm vds hvds n tvd _ c0 (by omega) hkvd hne_vd hR3 (fun _ => hk3ne.1)
  have hany := opTypes_any tO ot hOv hot
  -- description
  have hRO : (feed (tO :: tNl) (feed tvd (feed tds (feed tss r)))).Ready := feed_ready _ _ hne_2 hR2
  obtain ⟨c1, h1⟩ := parseDesc_ok cfg hm desc tdesc (feed (tO :: tNl) (feed tvd (feed tds (feed tss r)))) cnt
    hkdesc hRO (fun _ => by simp [headKind_feed_cons, hOk])
  have hpk : ((PSat cnt (feed (tdesc ++ tO :: tNl ++ tvd ++ tds ++ tss) r)).cur.kind == TokKind.braceL) = false := by
    have hall : (tdesc ++ tO :: tNl ++ tvd ++ tds ++ tss).map Token.kv =
        Exec.descKvs desc ++ ((.name, some ot) :: tNl.map Token.kv ++ tvd.map Token.kv ++ tds.map Token.kv ++
          tss.map Token.kv) := by
      simp [hkdesc, hkO]
    rw [PSat_cur_kind _ _ (feed_ready _ _ hne hr), headKind_feed _ _ r hall, firstK_append, firstK_desc]
    match desc with
    | none => simp [firstK]
    | some (s, true) => simp
    | some (s, false) => simp
  by_cases hn0 : nm = []
  · subst hn0
    simp only [List.isEmpty_nil, ↓reduceIte, List.map_eq_nil_iff] at hkNl
    subst hkNl
    obtain ⟨c2, h2⟩ := expectToken_ok cfg hm .name tO (feed tvd (feed tds (feed tss r))) c1 hOk hOne hR2
    have hnn : ((PSat c2 (feed tvd (feed tds (feed tss r)))).cur.kind == TokKind.name) = false := by
      rw [PSat_cur_kind _ _ hR2]; simpa using hk2ne
    obtain ⟨cv, hV⟩ := hVD c2
    obtain ⟨cd, hD⟩ := hDirs cv
    obtain ⟨cs, hS⟩ := hSS cd
    refine ⟨cs, ?_⟩
    simp only [parseOperationDefinition, bind_eq, peek_eq, hpk, Bool.false_eq_true, ↓reduceIte]
    simp only [List.append_assoc, List.cons_append, List.nil_append, feed_append, feed, PSat_cons] at h1 h2 ⊢
    simp only [h1, parseOperationType, bind_eq, h2, hany, ↓reduceIte, pure_eq', peek_eq, hnn, Bool.false_eq_true,
      hV, hD, hS, mk_opNode, hdirsAst, tokVal, hOv, optL_varDefs]
    simp [Exec.xdefAst, optName]
  · have hv : validName nm = true := hnm.resolve_left hn0
    have hne' : nm.isEmpty = false := by cases nm <;> simp_all
    simp only [hne', Bool.false_eq_true, ↓reduceIte, List.map_eq_cons_iff, List.map_eq_nil_iff] at hkNl
    obtain ⟨tN, tE, rfl, hkN, rfl⟩ := hkNl
    obtain ⟨hNk, hNv⟩ := tok_of_kv hkN
    have hNne : tN.kind ≠ .eof := by rw [hNk]; decide
    obtain ⟨c2, h2⟩ := expectToken_ok cfg hm .name tO (.cons tN (feed tvd (feed tds (feed tss r)))) c1 hOk hOne
      (by simp [Stream.Ready, hNne])
    obtain ⟨c3, h3⟩ := parseName_ok cfg hm tN nm (feed tvd (feed tds (feed tss r))) c2 hNk hNv hR2
    obtain ⟨cv, hV⟩ := hVD c3
    obtain ⟨cd, hD⟩ := hDirs cv
    obtain ⟨cs, hS⟩ := hSS cd
    refine ⟨cs, ?_⟩
    simp only [parseOperationDefinition, bind_eq, peek_eq, hpk, Bool.false_eq_true, ↓reduceIte]
    simp only [List.append_assoc, List.cons_append, List.nil_append, feed_append, feed, PSat_cons] at h1 h2 ⊢
    simp only [h1, parseOperationType, bind_eq, h2, hany, ↓reduceIte, pure_eq', peek_eq, hNk, beq_self_eq_true,
      h3, hV, hD, hS, mk_opNode, hdirsAst, tokVal, hOv, optL_varDefs]
    simp [Exec.xdefAst, optName, hne', Val.nameNode]


/-- `parse_operation_definition` on a printed stage-2 operation. -/
theorem parseXOp_ok (n : Nat) (desc : Desc) (ot nm : List Nat) (vds : List VarDef) (ds : List Dir) (ss : List Sel)
    (fa : Bool) (h : Exec.xdefWf fa (.op desc ot nm vds ds ss)) (toks : List Token) (r : Stream) (cnt : Nat)
    (hn : (Exec.xdefKvs (.op desc ot nm vds ds ss)).length < n)
    (hkv : toks.map Token.kv = Exec.xdefKvs (.op desc ot nm vds ds ss)) (hne : NonEof toks) (hr : r.Ready) :
    ∃ c', parseOperationDefinition cfg n (PSat cnt (feed toks r)) =
      .ok (Exec.xdefAst fa (.op desc ot nm vds ds ss), PSat c' r) := by
  obtain ⟨hdesc, hot, hnm, hvds, hds, hssne, hss⟩ := h
  simp only [Exec.xdefKvs] at hkv hn
  by_cases hs : desc = none ∧ ot = S "query" ∧ nm = [] ∧ vds.isEmpty = true ∧ ds.isEmpty = true
  · simp only [hs, and_self, ↓reduceIte] at hkv hn
    obtain ⟨rfl, rfl, rfl, hv, hd⟩ := hs
    have hv' : vds = [] := by cases vds <;> simp_all
    have hd' : ds = [] := by cases ds <;> simp_all
    subst hv' hd'
    obtain ⟨c1, h1⟩ := parseSS cfg hm ss hssne hss n toks r cnt hn hkv hne hr
    have hpk : ((PSat cnt (feed toks r)).cur.kind == TokKind.braceL) = true := by
      rw [PSat_cur_kind _ _ (feed_ready _ _ hne hr), headKind_feed toks _ r hkv]; rfl
    refine ⟨c1, ?_⟩
    simp only [parseOperationDefinition, bind_eq, peek_eq, hpk, ↓reduceIte, h1, pure_eq', mk_opNode]
    simp [Exec.xdefAst, Exec.descAst, optName, Exec.dirsAst, optL, strCps, S]
  · simp only [hs, ↓reduceIte] at hkv hn
    exact parseXOp_long_ok cfg hm n desc ot nm vds ds ss fa ⟨hdesc, hot, hnm, hvds, hds, hssne, hss⟩ toks r cnt hn hkv
      hne hr

end

end Gql.Syntax

namespace Gql.Syntax
open Gql Gql.Text
open Gql.Generated

section
variable (cfg : Cfg) (hm : cfg.maxTokens = none)
include hm

/-- `parse_fragment_definition` on a printed stage-2 fragment definition. -/
theorem parseXFrag_ok (n : Nat) (desc : Desc) (nm : List Nat) (vds : List VarDef) (tc : List Nat) (ds : List Dir)
    (ss : List Sel) (h : Exec.xdefWf cfg.fragArgs (.frag desc nm vds tc ds ss)) (toks : List Token) (r : Stream)
    (cnt : Nat) (hn : (Exec.xdefKvs (.frag desc nm vds tc ds ss)).length < n)
    (hkv : toks.map Token.kv = Exec.xdefKvs (.frag desc nm vds tc ds ss)) (hne : NonEof toks) (hr : r.Ready) :
    ∃ c', parseFragmentDefinition cfg n (PSat cnt (feed toks r)) =
      .ok (Exec.xdefAst cfg.fragArgs (.frag desc nm vds tc ds ss), PSat c' r) := by
  obtain ⟨hdesc, hnm, hon, hfa, hvds, htc, hds, hssne, hss⟩ := h
  simp only [Exec.xdefKvs] at hkv hn
  rw [List.map_eq_append_iff] at hkv
  obtain ⟨t123, tss, rfl, hk123, hkss⟩ := hkv
  rw [List.map_eq_append_iff] at hk123
  obtain ⟨t12, t3, rfl, hk12, hk3⟩ := hk123
  rw [List.map_eq_append_iff] at hk12
  obtain ⟨tdesc, t2, rfl, hkdesc, hk2⟩ := hk12
  simp only [List.map_eq_cons_iff] at hk2 hk3
  obtain ⟨tF, t2a, rfl, hkF, tN, tvd, rfl, hkN, hkvd⟩ := hk2
  obtain ⟨tOn, t3a, rfl, hkOn, tT, tds, rfl, hkT, hkds⟩ := hk3
  obtain ⟨hFk, hFv⟩ := tok_of_kv hkF
  obtain ⟨hNk, hNv⟩ := tok_of_kv hkN
  obtain ⟨hOnk, hOnv⟩ := tok_of_kv hkOn
  obtain ⟨hTk, hTv⟩ := tok_of_kv hkT
  have hFne : tF.kind ≠ .eof := by rw [hFk]; decide
  have hNne : tN.kind ≠ .eof := by rw [hNk]; decide
  have hOne : tOn.kind ≠ .eof := by rw [hOnk]; decide
  have hTne : tT.kind ≠ .eof := by rw [hTk]; decide
  have hne_ss : NonEof tss := hne.append_right
  have hne_3 : NonEof (tOn :: tT :: tds) := hne.append_left.append_right
  have hne_ds : NonEof tds := hne_3.tail.tail
  have hne_2 : NonEof (tF :: tN :: tvd) := hne.append_left.append_left.append_right
  have hne_vd : NonEof tvd := hne_2.tail.tail
  have hR4 : (feed tss r).Ready := feed_ready _ _ hne_ss hr
  have hR3 : (feed tds (feed tss r)).Ready := feed_ready _ _ hne_ds hR4
  have hRon : (feed (tOn :: tT :: tds) (feed tss r)).Ready := feed_ready _ _ hne_3 hR4
  have hR2 : (feed tvd (feed (tOn :: tT :: tds) (feed tss r))).Ready := feed_ready _ _ hne_vd hRon
  have hk4 : headKind (feed tss r) = .braceL := by rw [headKind_feed tss _ r hkss]; rfl
  simp only [List.length_append, List.length_cons] at hn
  obtain ⟨c1, h1⟩ := parseDesc_ok cfg hm desc tdesc
    (feed (tF :: tN :: tvd) (feed (tOn :: tT :: tds) (feed tss r))) cnt hkdesc (feed_ready _ _ hne_2 hRon)
    (fun _ => by simp [headKind_feed_cons, hFk])
  obtain ⟨c2, h2⟩ := expectKeyword_ok cfg hm "fragment" tF
    (.cons tN (feed tvd (feed (tOn :: tT :: tds) (feed tss r)))) c1 hFk ((valueIs_iff hFv _).mpr rfl)
    (by simp [Stream.Ready, hNne])
  have hvon : valueIs tN "on" = false := valueIs_false hNv "on" hon
  obtain ⟨c3, h3⟩ := parseName_ok cfg hm tN nm (feed tvd (feed (tOn :: tT :: tds) (feed tss r))) c2 hNk hNv hR2
  have hVD : ∀ c0, ∃ cv, parseVariableDefinitions cfg n (PSat c0 (feed tvd (feed (tOn :: tT :: tds) (feed tss r)))) =
      .ok ((if vds = [] then none else some (vds.map Exec.varDefAst)),
        PSat cv (feed (tOn :: tT :: tds) (feed tss r))) := by
    intro c0
    exact parseVarDefs_ok cfg hm vds hvds n tvd _ c0 (by omega) hkvd hne_vd hRon
      (fun _ => by simp [headKind_feed_cons, hOnk])
  have hOnAll : ∀ c0, ∃ c5, (do expectKeyword cfg "on"
                                parseNamedType cfg : P Ast) (PSat c0 (feed (tOn :: tT :: tds) (feed tss r))) =
      .ok (namedType tc, PSat c5 (feed tds (feed tss r))) := by
    intro c0
    obtain ⟨c4, h4⟩ := expectKeyword_ok cfg hm "on" tOn (.cons tT (feed tds (feed tss r))) c0 hOnk
      ((valueIs_iff hOnv _).mpr rfl) (by simp [Stream.Ready, hTne])
    obtain ⟨c5, h5⟩ := parseName_ok cfg hm tT tc (feed tds (feed tss r)) c4 hTk hTv hR3
    exact ⟨c5, by simp only [feed, PSat_cons, bind_eq, h4, parseNamedType, h5, pure_eq', mk_namedType, namedType,
      Val.nameNode]⟩
  have hDirs : ∀ c0, ∃ cd, parseDirectives cfg n false (PSat c0 (feed tds (feed tss r))) =
      .ok ((if ds = [] then none else some (ds.map Exec.dirAst)), PSat cd (feed tss r)) := by
    intro c0
    exact parseDirectives_raw cfg hm false ds hds n tds _ c0 (by omega) hkds hne_ds hR4 (by rw [hk4]; decide)
      (by rw [hk4]; decide)
  have hdirsAst : optListO (if ds = [] then none else some (ds.map Exec.dirAst)) = Exec.dirsAst ds := by
    cases ds <;> simp [optListO, Exec.dirsAst, optL]
  have hSS : ∀ c0, ∃ cs, selectionSet n cfg (PSat c0 (feed tss r)) = .ok (Exec.ssAst ss, PSat cs r) := by
    intro c0
    exact parseSS cfg hm ss hssne hss n tss r c0 (by omega) hkss hne_ss hr
  cases hfa' : cfg.fragArgs
  · -- without the flag there are no variable definitions
    have hv0 : vds = [] := by
      rcases hfa with h | h
      · exact h
      · rw [hfa'] at h; cases h
    subst hv0
    simp only [Exec.varDefsKvs, List.map_eq_nil_iff] at hkvd
    subst hkvd
    obtain ⟨c5, h5⟩ := hOnAll c3
    obtain ⟨cd, hD⟩ := hDirs c5
    obtain ⟨cs, hS⟩ := hSS cd
    refine ⟨cs, ?_⟩
    simp only [List.append_assoc, List.cons_append, List.nil_append, feed_append, feed, PSat_cons] at h1 h2 h3 h5 ⊢
    simp only [parseFragmentDefinition, bind_eq, h1, h2, parseFragmentName, P.cur, hvon, Bool.false_eq_true,
      ↓reduceIte, h3, hfa', pure_eq', parseTypeCondition]
    simp only [bind_eq] at h5
    simp only [h5, hD, hS, mk_fragNode, hdirsAst]
    simp [Exec.xdefAst, hfa', Val.nameNode]
  · obtain ⟨cv, hV⟩ := hVD c3
    obtain ⟨c5, h5⟩ := hOnAll cv
    obtain ⟨cd, hD⟩ := hDirs c5
    obtain ⟨cs, hS⟩ := hSS cd
    refine ⟨cs, ?_⟩
    simp only [List.append_assoc, List.cons_append, List.nil_append, feed_append, feed, PSat_cons] at h1 h2 h3 h5 hV ⊢
    simp only [parseFragmentDefinition, bind_eq, h1, h2, parseFragmentName, P.cur, hvon, Bool.false_eq_true,
      ↓reduceIte, h3, hfa', hV, pure_eq', parseTypeCondition]
    simp only [bind_eq] at h5
    simp only [h5, hD, hS, mk_fragNode, hdirsAst, optL_varDefs]
    simp [Exec.xdefAst, hfa', Val.nameNode]

end

end Gql.Syntax

namespace Gql.Syntax
open Gql Gql.Text
open Gql.Generated

/-- `parse_definition` when a description precedes a NAME keyword of an executable definition. -/
theorem parseDefinition_desc_kw (cfg : Cfg) (n : Nat) (tD tK : Token) (rest : Stream) (cnt : Nat) (v : List Nat)
    (m : String) (hD : tD.kind = .string ∨ tD.kind = .blockString) (hk : tK.kind = .name)
    (hv : tK.value = some v)
    (h1 : methodFor ParserTables.typeSystemDefinitionMethods (some v) = none)
    (h2 : methodFor ParserTables.executableDefinitionMethods (some v) = some m) :
    parseDefinition cfg n { cur := tD, rest := .cons tK rest, count := cnt } =
      dispatchDefinition cfg n m { cur := tD, rest := .cons tK rest, count := cnt } := by
  have hne : tD.kind ≠ .eof := by rcases hD with h | h <;> rw [h] <;> decide
  have hnb : (tD.kind == TokKind.braceL) = false := by rcases hD with h | h <;> rw [h] <;> rfl
  have hpd : (tD.kind == TokKind.string || tD.kind == TokKind.blockString) = true := by
    rcases hD with h | h <;> rw [h] <;> rfl
  simp [parseDefinition, bind_eq, peek_eq, peekDescription, P.cur, pure_eq', hnb, hpd, lookahead, hne, hk, hv, h1, h2]

theorem xdefKvs_head (fa : Bool) (d : XDef) (h : Exec.xdefWf fa d) :
    ∃ k ks, Exec.xdefKvs d = k :: ks ∧ k.1 ≠ .eof := by
  cases d with
  | op desc ot nm vds ds ss =>
    simp only [Exec.xdefKvs]
    split
    · exact ⟨_, _, rfl, by simp⟩
    · match desc with
      | none =>
        simp only [Exec.descKvs, List.nil_append, List.cons_append, List.append_assoc]
        exact ⟨_, _, rfl, by simp⟩
      | some (s, b) =>
        simp only [Exec.descKvs, List.nil_append, List.cons_append, List.append_assoc]
        exact ⟨_, _, rfl, by cases b <;> simp⟩
  | frag desc nm vds tc ds ss =>
    simp only [Exec.xdefKvs]
    match desc with
    | none =>
      simp only [Exec.descKvs, List.nil_append, List.cons_append, List.append_assoc]
      exact ⟨_, _, rfl, by simp⟩
    | some (s, b) =>
      simp only [Exec.descKvs, List.nil_append, List.cons_append, List.append_assoc]
      exact ⟨_, _, rfl, by cases b <;> simp⟩

theorem xdefsKvs_length_le (fa : Bool) (defs : List XDef) (h : Exec.xdefsWf fa defs) :
    defs.length ≤ (Exec.xdefsKvs defs).length := by
  induction defs with
  | nil => simp [Exec.xdefsKvs]
  | cons d r ih =>
    obtain ⟨k, ks, hk, _⟩ := xdefKvs_head fa d h.1
    have := ih h.2
    simp [Exec.xdefsKvs, hk]; omega

section
variable (cfg : Cfg) (hm : cfg.maxTokens = none)
include hm

theorem parseXDef_ok (n : Nat) (d : XDef) (h : Exec.xdefWf cfg.fragArgs d) (toks : List Token) (r : Stream)
    (cnt : Nat) (hn : (Exec.xdefKvs d).length < n) (hkv : toks.map Token.kv = Exec.xdefKvs d) (hne : NonEof toks)
    (hr : r.Ready) :
    ∃ c', parseDefinition cfg n (PSat cnt (feed toks r)) = .ok (Exec.xdefAst cfg.fragArgs d, PSat c' r) := by
  cases d with
  | op desc ot nm vds ds ss =>
    obtain ⟨c', hp⟩ := parseXOp_ok cfg hm n desc ot nm vds ds ss cfg.fragArgs h toks r cnt hn hkv hne hr
    refine ⟨c', ?_⟩
    obtain ⟨_, hot, _⟩ := h
    obtain ⟨m1, m2⟩ := methodFor_ts_op ot hot
    simp only [Exec.xdefKvs] at hkv
    by_cases hs : desc = none ∧ ot = S "query" ∧ nm = [] ∧ vds.isEmpty = true ∧ ds.isEmpty = true
    · simp only [hs, and_self, ↓reduceIte] at hkv
      rw [parseDefinition_brace cfg n _ (by
        rw [PSat_cur_kind _ _ (feed_ready _ _ hne hr), headKind_feed toks _ r hkv]; rfl)]
      exact hp
    · simp only [hs, ↓reduceIte] at hkv
      match desc, hkv with
      | none, hkv =>
        simp only [Exec.descKvs, List.nil_append, List.cons_append, List.append_assoc, List.map_eq_cons_iff] at hkv
        obtain ⟨t0, ts, rfl, ht0, _⟩ := hkv
        rw [parseDefinition_kw cfg n _ ot "operation_definition" (by simp [feed, (tok_of_kv ht0).1])
          (by simp [feed, (tok_of_kv ht0).2]) m1 m2, dd_op]
        exact hp
      | some (s, b), hkv =>
        simp only [Exec.descKvs, List.cons_append, List.nil_append, List.append_assoc, List.map_eq_cons_iff] at hkv
        obtain ⟨tD, ts, rfl, htD, tK, ts2, rfl, htK, _⟩ := hkv
        have hDk : tD.kind = .string ∨ tD.kind = .blockString := by
          rw [(tok_of_kv htD).1]; cases b <;> simp
        simp only [feed, PSat_cons] at hp ⊢
        rw [parseDefinition_desc_kw cfg n tD tK _ cnt ot "operation_definition" hDk (tok_of_kv htK).1
          (tok_of_kv htK).2 m1 m2, dd_op]
        exact hp
  | frag desc nm vds tc ds ss =>
    obtain ⟨c', hp⟩ := parseXFrag_ok cfg hm n desc nm vds tc ds ss h toks r cnt hn hkv hne hr
    refine ⟨c', ?_⟩
    simp only [Exec.xdefKvs] at hkv
    match desc, hkv with
    | none, hkv =>
      simp only [Exec.descKvs, List.nil_append, List.cons_append, List.append_assoc, List.map_eq_cons_iff] at hkv
      obtain ⟨t0, ts, rfl, ht0, _⟩ := hkv
      rw [parseDefinition_kw cfg n _ (S "fragment") "fragment_definition" (by simp [feed, (tok_of_kv ht0).1])
        (by simp [feed, (tok_of_kv ht0).2]) methodFor_ts_frag.1 methodFor_ts_frag.2, dd_frag]
      exact hp
    | some (s, b), hkv =>
      simp only [Exec.descKvs, List.cons_append, List.nil_append, List.append_assoc, List.map_eq_cons_iff] at hkv
      obtain ⟨tD, ts, rfl, htD, tK, ts2, rfl, htK, _⟩ := hkv
      have hDk : tD.kind = .string ∨ tD.kind = .blockString := by
        rw [(tok_of_kv htD).1]; cases b <;> simp
      simp only [feed, PSat_cons] at hp ⊢
      rw [parseDefinition_desc_kw cfg n tD tK _ cnt (S "fragment") "fragment_definition" hDk (tok_of_kv htK).1
        (tok_of_kv htK).2 methodFor_ts_frag.1 methodFor_ts_frag.2, dd_frag]
      exact hp

end

end Gql.Syntax

namespace Gql.Syntax
open Gql Gql.Text

section
variable (cfg : Cfg) (hm : cfg.maxTokens = none)
include hm

theorem xdefsLoop_ok (defs : List XDef) (h : Exec.xdefsWf cfg.fragArgs defs) : ∀ (n m : Nat) (toks : List Token)
    (a l cc : Nat) (cnt : Nat) (acc : List Ast), (Exec.xdefsKvs defs).length < n → defs.length < m →
    toks.map Token.kv = Exec.xdefsKvs defs → NonEof toks →
    ∃ c', untilClose cfg .eof (parseDefinition cfg n) m acc (PSat cnt (feed toks (.eof a l cc))) =
      .ok (acc ++ defs.map (Exec.xdefAst cfg.fragArgs), PSat c' (.eof a l cc)) := by
  induction defs with
  | nil =>
    intro n m toks a l cc cnt acc _ hmm hkv _
    obtain ⟨m, rfl⟩ : ∃ m', m = m' + 1 := ⟨m - 1, by simp at hmm; omega⟩
    simp only [Exec.xdefsKvs, List.map_eq_nil_iff] at hkv
    subst hkv
    refine ⟨cnt, ?_⟩
    simp [untilClose, feed, bind_eq, expectOptionalToken, P.cur, PSat, eofToken, advanceLexer, pure_eq']
  | cons d rest ih =>
    intro n m toks a l cc cnt acc hn hmm hkv hne
    obtain ⟨m, rfl⟩ : ∃ m', m = m' + 1 := ⟨m - 1, by simp at hmm; omega⟩
    rw [show Exec.xdefsKvs (d :: rest) = Exec.xdefKvs d ++ Exec.xdefsKvs rest from rfl] at hkv hn
    rw [List.map_eq_append_iff] at hkv
    obtain ⟨td, ts', rfl, hkd, hkr⟩ := hkv
    obtain ⟨k0, ks0, hk0, hk0ne⟩ := xdefKvs_head cfg.fragArgs d h.1
    have hhead : ∃ t0 td', td = t0 :: td' ∧ t0.kind ≠ .eof := by
      rw [hk0, List.map_eq_cons_iff] at hkd
      obtain ⟨t0, td', rfl, ht0, _⟩ := hkd
      exact ⟨t0, td', rfl, by rw [(tok_of_kv ht0).1]; exact hk0ne⟩
    obtain ⟨t0, td', rfl, ht0⟩ := hhead
    have hready : (feed ts' (.eof a l cc)).Ready := feed_ready _ _ hne.append_right (by simp [Stream.Ready])
    simp only [List.length_append] at hn
    obtain ⟨c1, h1⟩ := parseXDef_ok cfg hm n d h.1 (t0 :: td') (feed ts' (.eof a l cc)) cnt (by omega) hkd
      hne.append_left hready
    obtain ⟨c2, h2⟩ := ih h.2 n m ts' a l cc c1 (acc ++ [Exec.xdefAst cfg.fragArgs d]) (by omega)
      (by simp at hmm; omega) hkr hne.append_right
    have hno : expectOptionalToken cfg .eof (PSat cnt (feed (t0 :: td' ++ ts') (.eof a l cc))) =
        .ok (false, PSat cnt (feed (t0 :: td' ++ ts') (.eof a l cc))) :=
      expectOptionalToken_no cfg .eof _ (by simpa [feed] using ht0)
    refine ⟨c2, ?_⟩
    rw [feed_append] at hno ⊢
    simp only [untilClose, bind_eq, hno, Bool.false_eq_true, ↓reduceIte, h1, h2]
    simp

/-- **Round trip for executable documents (stage 2) at the source level.** -/
theorem parseSource_xdoc_print (w : Widths) (hw : 4 ≤ w.object)
    (hT : tableOK Generated.escapeTable = true) (hC : tableComplete Generated.escapeTable = true)
    (defs : List XDef) (hdne : defs ≠ []) (hwf : Exec.xdefsWf cfg.fragArgs defs) :
    parseSource .document cfg (Exec.printXDoc w defs) = .ok (Exec.xdocAst cfg.fragArgs defs) := by
  obtain ⟨tks, e, hall, hkv, hek, hne0⟩ := lexAll_of_lexes (lexes_xdoc w hw hT hC cfg.fragArgs defs hwf)
  have hne : NonEof tks := hne0
  have hstream : streamOf (Exec.printXDoc w defs) = feed tks (.eof e.start e.line e.column) := by
    rw [streamOf_of_lexAll _ _ hall, toStream_feed tks e hne hek]
  have hlen : tks.length = (Exec.xdefsKvs defs).length := by rw [← hkv]; simp
  obtain ⟨d, rest, rfl⟩ := List.exists_cons_of_ne_nil hdne
  rw [show Exec.xdefsKvs (d :: rest) = Exec.xdefKvs d ++ Exec.xdefsKvs rest from rfl] at hkv hlen
  rw [List.map_eq_append_iff] at hkv
  obtain ⟨td, ts', rfl, hkd, hkr⟩ := hkv
  have hfuel : parseFuel (feed (td ++ ts') (.eof e.start e.line e.column)) = (td ++ ts').length + 3 := by
    simp [parseFuel, feed_length]
  have hready : (feed ts' (.eof e.start e.line e.column)).Ready :=
    feed_ready _ _ hne.append_right (by simp [Stream.Ready])
  have hreadyAll : (feed (td ++ ts') (.eof e.start e.line e.column)).Ready :=
    feed_ready _ _ hne (by simp [Stream.Ready])
  simp only [List.length_append] at hlen
  obtain ⟨c0, h0⟩ := advance_PSat cfg hm sofToken (feed (td ++ ts') (.eof e.start e.line e.column)) 0
    (by decide) hreadyAll
  obtain ⟨c1, h1⟩ := parseXDef_ok cfg hm ((td ++ ts').length + 3) d hwf.1 td
    (feed ts' (.eof e.start e.line e.column)) c0 (by simp only [List.length_append]; omega) hkd hne.append_left hready
  have hl := xdefsKvs_length_le cfg.fragArgs rest hwf.2
  obtain ⟨c2, h2⟩ := xdefsLoop_ok cfg hm rest hwf.2 ((td ++ ts').length + 3) ((td ++ ts').length + 3) ts'
    e.start e.line e.column c1 [Exec.xdefAst cfg.fragArgs d] (by simp only [List.length_append]; omega)
    (by simp only [List.length_append]; omega) hkr hne.append_right
  have hsof : expectToken cfg .sof (initState (feed (td ++ ts') (.eof e.start e.line e.column))) =
      .ok (sofToken, PSat c0 (feed (td ++ ts') (.eof e.start e.line e.column))) := by
    simp only [expectToken, bind_eq, P.cur, initState, sofToken, ↓reduceIte, pure_eq']
    simp only [sofToken] at h0
    rw [h0]
  unfold parseSource parseStream parseStreamWith
  simp only [show (Entry.document = Entry.schemaCoordinate) = False by simp, ↓reduceIte, hstream, runEntry, hfuel]
  rw [feed_append] at hsof ⊢
  simp only [parseDocument, parseMany, bind_eq, hsof, h1, h2, pure_eq', mk_docNode]
  simp [Exec.xdocAst]

end

end Gql.Syntax
