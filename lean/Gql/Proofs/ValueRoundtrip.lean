import Gql.Proofs.ValueParse
import Gql.Proofs.LexerBasic
/-!
Assembly for values: `lexAll` of the printed text, the parser model on the source text, and the
printer model on the parser's tree.
-/
namespace Gql.Text
open Gql.Syntax

/-- More fuel does not change a result that is not a crash. -/
theorem lexAllAux_mono (body : List Nat) : ∀ (f : Nat) (st : LexState) (pos : Nat) (acc : List Token)
    (r : LexOut (List Token)), lexAllAux body f st pos acc = r → ¬ r.isCrash →
    ∀ f', f ≤ f' → lexAllAux body f' st pos acc = r := by
  intro f
  induction f with
  | zero => intro st pos acc r h hc; rw [lexAllAux] at h; subst h; simp [Out.isCrash] at hc
  | succ f ih =>
    intro st pos acc r h hc f' hf'
    obtain ⟨g, rfl⟩ : ∃ g, f' = g + 1 := ⟨f' - 1, by omega⟩
    rw [lexAllAux] at h ⊢
    cases hr : readNextToken body st pos with
    | err e => rw [hr] at h; simpa using h
    | crash x => rw [hr] at h; simpa using h
    | ok p =>
      obtain ⟨t, st'⟩ := p
      rw [hr] at h
      simp only [Out.bind_ok] at h ⊢
      by_cases he : t.kind = .eof
      · simpa [he] using h
      · simp only [he, ↓reduceIte] at h ⊢
        by_cases hcm : t.kind = .comment
        · simp only [hcm, ↓reduceIte] at h ⊢
          exact ih st' t.stop acc r h hc g (by omega)
        · simp only [hcm, ↓reduceIte] at h ⊢
          exact ih st' t.stop (acc ++ [t]) r h hc g (by omega)

theorem lexAll_of_big (body : List Nat) (F : Nat) (hF : body.length + 2 ≤ F) (ts : List Token)
    (h : lexAllAux body F {} 0 [] = .ok ts) : lexAll body = .ok ts := by
  have hnc := lexAll_no_crash body
  have := lexAllAux_mono body (body.length + 2) {} 0 [] (lexAll body) rfl hnc F hF
  rw [h] at this
  exact this.symm

/-- All tokens `lexAll` returns before the last are not `<EOF>`; the last one is. -/
theorem lexAllAux_shape (body : List Nat) : ∀ (fuel : Nat) (st : LexState) (pos : Nat) (acc ts : List Token),
    lexAllAux body fuel st pos acc = .ok ts →
    ∃ tks e, ts = acc ++ tks ++ [e] ∧ (∀ t ∈ tks, t.kind ≠ .eof) ∧ e.kind = .eof := by
  intro fuel
  induction fuel with
  | zero => intro st pos acc ts h; simp [lexAllAux] at h
  | succ fuel ih =>
    intro st pos acc ts h
    rw [lexAllAux] at h
    cases hr : readNextToken body st pos with
    | err e => simp [hr] at h
    | crash c => simp [hr] at h
    | ok p =>
      obtain ⟨t, st'⟩ := p
      simp only [hr, Out.bind_ok] at h
      by_cases he : t.kind = .eof
      · simp only [he, ↓reduceIte, Out.pure_eq, Out.ok.injEq] at h
        exact ⟨[], t, by simp [h], by simp, he⟩
      · simp only [he, ↓reduceIte] at h
        by_cases hc : t.kind = .comment
        · simp only [hc, ↓reduceIte] at h
          exact ih st' t.stop acc ts h
        · simp only [hc, ↓reduceIte] at h
          obtain ⟨tks, e, h1, h2, h3⟩ := ih st' t.stop (acc ++ [t]) ts h
          refine ⟨t :: tks, e, by simp [h1], ?_, h3⟩
          intro x hx
          rcases List.mem_cons.mp hx with rfl | hx
          · exact he
          · exact h2 x hx

/-- From `Lexes`: `lexAll` of a text that is exactly one lexable piece. -/
theorem lexAll_of_lexes {text : List Nat} {ks : List KV} {s : Bool} (h : Lexes s text ks) :
    ∃ tks e, lexAll text = .ok (tks ++ [e]) ∧ tks.map Token.kv = ks ∧ e.kind = .eof ∧
      (∀ t ∈ tks, t.kind ≠ .eof) := by
  obtain ⟨toks, st', hkv, heq⟩ := h [] [] (text.length + 2) {} [] (fun _ => Safe.nil)
  simp only [List.nil_append, List.append_nil, List.length_nil, Nat.zero_add] at heq
  have heof := lexAux_eof text (text.length + 1) st' st' text.length toks _ (next_eof text st') rfl
  rw [heof] at heq
  have hall := lexAll_of_big text (text.length + 2 + ks.length) (by omega) _ heq
  obtain ⟨tks, e, h1, h2, h3⟩ := lexAllAux_shape text _ _ _ _ _ heq
  simp only [List.nil_append] at h1
  have hlast := List.append_inj' h1 rfl
  obtain ⟨ht, he⟩ := hlast
  simp at he
  subst ht
  exact ⟨toks, _, hall, hkv, rfl, h2⟩

end Gql.Text

namespace Gql.Syntax
open Gql Gql.Text

/-- **Round trip for values at the source level**: parsing the printed text of a well-formed value
with `parse_value` (`c = false`) / `parse_const_value` (`c = true`) rebuilds the tree. -/
theorem parseSource_value_print (cfg : Cfg) (hm : cfg.maxTokens = none) (w : Widths) (hw : 4 ≤ w.object)
    (hT : tableOK Generated.escapeTable = true) (hC : tableComplete Generated.escapeTable = true)
    (c : Bool) (v : Val) (hwf : Val.wf c v) :
    parseSource (if c then .constValue else .value) cfg (Val.print w v) = .ok v.toAst := by
  have hlex := lexV w hw c hT hC v hwf 0
  rw [indentLF_zero] at hlex
  obtain ⟨tks, e, hall, hkv, hek, hne⟩ := lexAll_of_lexes hlex
  have hstream : streamOf (Val.print w v) = feed tks (.eof e.start e.line e.column) := by
    rw [streamOf_of_lexAll _ _ hall, toStream_feed tks e hne hek]
  have hlen : tks.length = v.kvs.length := by rw [← hkv]; simp
  have hbody : ∀ cnt, ∃ c', valueLit (parseFuel (feed tks (.eof e.start e.line e.column))) cfg c
      (PSat cnt (feed tks (.eof e.start e.line e.column))) = .ok (v.toAst, PSat c' (.eof e.start e.line e.column)) := by
    intro cnt
    exact parseV cfg hm c v hwf _ tks _ cnt (by simp only [parseFuel, feed_length]; omega) hkv hne
      (by simp [Stream.Ready])
  obtain ⟨c'', h⟩ := entry_frame cfg hm tks e.start e.line e.column hne _ v.toAst hbody
  unfold parseSource parseStream parseStreamWith
  cases c
  · simp only [Bool.false_eq_true, ↓reduceIte, show (Entry.value = Entry.schemaCoordinate) = False by simp,
      hstream, runEntry]
    rw [h]
  · simp only [↓reduceIte, show (Entry.constValue = Entry.schemaCoordinate) = False by simp,
      hstream, runEntry]
    rw [h]

end Gql.Syntax

namespace Gql.Text
open Gql Gql.Syntax

mutual
  /-- The printer model on the parser's tree of a value prints `Val.print`. -/
  theorem prV (w : Widths) (v : Val) : pr w v.toAst = .ok (.text (Val.print w v)) := by
    match v with
    | .var n => simp [Val.toAst, Val.nameNode, Val.print, pr, prFields, leave, baseClass, reqText, reqRaw, fld]
    | .int s => simp [Val.toAst, Val.print, pr, prFields, leave, baseClass, reqRaw, fld]
    | .float s => simp [Val.toAst, Val.print, pr, prFields, leave, baseClass, reqRaw, fld]
    | .str s b => cases b <;> simp [Val.toAst, Val.print, pr, prFields, leave, baseClass, reqRaw, optBool, fld]
    | .bool b => cases b <;> simp [Val.toAst, Val.print, pr, prFields, leave, baseClass, reqBool, fld]
    | .null => simp [Val.toAst, Val.print, pr, prFields, leave, baseClass]
    | .enum n => simp [Val.toAst, Val.print, pr, prFields, leave, baseClass, reqRaw, fld]
    | .list vs =>
      have := prL w vs
      simp [Val.toAst, Val.print, pr, prFields, leave, baseClass, optTexts, fld, this]
    | .obj fs =>
      have := prF w fs
      simp [Val.toAst, Val.print, pr, prFields, leave, baseClass, optTexts, fld, this]
  theorem prL (w : Widths) (vs : List Val) : prList w (Val.toAstList vs) = .ok (Val.printList w vs) := by
    match vs with
    | [] => simp [Val.toAstList, Val.printList, prList]
    | v :: vs' =>
      have h1 := prV w v
      have h2 := prL w vs'
      simp [Val.toAstList, Val.printList, prList, h1, h2]
  theorem prF (w : Widths) (fs : List (List Nat × Val)) :
      prList w (Val.toAstFields fs) = .ok (Val.printFields w fs) := by
    match fs with
    | [] => simp [Val.toAstFields, Val.printFields, prList]
    | (n, v) :: fs' =>
      have h1 := prV w v
      have h2 := prF w fs'
      simp [Val.toAstFields, Val.printFields, prList, pr, prFields, leave, baseClass, reqText, reqRaw, fld,
        Val.nameNode, h1, h2]
end

theorem printAst_val (w : Widths) (v : Val) : printAst w v.toAst = .ok (Val.print w v) := by
  unfold printAst
  rw [prV w v]
  rfl

end Gql.Text
