import Gql.Proofs.BlockScanValue
/-!
Token-level lemmas about `readNextToken` / `lexAllAux` used to show that printed types lex
back to exactly their token sequence.
-/
namespace Gql.Text

/-- Kind and value of a token (positions and line bookkeeping erased). -/
def Token.kv (t : Token) : TokKind × Option (List Nat) := (t.kind, t.value)

theorem punct_cases {c : Nat} {k : TokKind} (h : punctKind c = some k) :
    c = 33 ∨ c = 36 ∨ c = 38 ∨ c = 40 ∨ c = 41 ∨ c = 58 ∨ c = 61 ∨ c = 64 ∨ c = 91 ∨ c = 93 ∨
      c = 123 ∨ c = 125 ∨ c = 124 := by
  false_or_by_contra
  rename_i hne
  simp only [not_or] at hne
  obtain ⟨a1, a2, a3, a4, a5, a6, a7, a8, a9, a10, a11, a12, a13⟩ := hne
  simp [punctKind, a1, a2, a3, a4, a5, a6, a7, a8, a9, a10, a11, a12, a13] at h

/-- A punctuator character is one token. -/
theorem next_punct (body : List Nat) (st : LexState) (pos c : Nat) (k : TokKind)
    (h0 : body[pos]? = some c) (hk : punctKind c = some k) :
    readNextToken body st pos = .ok (mkToken st k pos (pos + 1) none, st) := by
  obtain ⟨hlen, hidx⟩ := index_of_getElem? h0
  have hc := punct_cases hk
  rw [readNextToken]
  simp only [hlen, ↓reduceDIte, hidx, Out.bind_ok]
  rcases hc with h | h | h | h | h | h | h | h | h | h | h | h | h <;> subst h <;>
    simp [punctKind] at hk ⊢ <;> simp [hk]

/-- End of input. -/
theorem next_eof (body : List Nat) (st : LexState) :
    readNextToken body st body.length = .ok (mkToken st .eof body.length body.length none, st) := by
  rw [readNextToken]; simp

/-- Blank and comma are skipped. -/
theorem next_skip (body : List Nat) (st : LexState) (pos c : Nat) (h0 : body[pos]? = some c)
    (hc : c = 32 ∨ c = 44) : readNextToken body st pos = readNextToken body st (pos + 1) := by
  obtain ⟨hlen, hidx⟩ := index_of_getElem? h0
  rw [readNextToken]
  rcases hc with h | h <;> subst h <;> simp [hlen, hidx]

/-! ### Names -/

def validName : List Nat → Bool
  | [] => false
  | c :: r => isNameStart c && r.all isNameContinue

/-- What may follow a name: the end, or a character that cannot continue it. -/
def stopsName (rest : List Nat) : Bool :=
  match rest with
  | [] => true
  | c :: _ => !isNameContinue c

theorem readNameLoop_run (pre rest : List Nat) (hr : stopsName rest = true) :
    ∀ (n : List Nat) (done : List Nat), n.all isNameContinue = true →
      readNameLoop (pre ++ (done ++ n ++ rest)) (pre.length + done.length) =
        .ok (pre.length + done.length + n.length) := by
  intro n
  induction n with
  | nil =>
    intro done _
    rw [readNameLoop]
    cases rest with
    | nil => simp
    | cons c r =>
      have hc : isNameContinue c = false := by simpa [stopsName] using hr
      simp only [List.append_nil]
      have hget : (pre ++ (done ++ c :: r))[pre.length + done.length]? = some c := by
        rw [getElem?_pre]; simp
      obtain ⟨hlen, hidx⟩ := index_of_getElem? hget
      simp [hlen, hidx, hc]
  | cons c r ih =>
    intro done hall
    simp only [List.all_cons, Bool.and_eq_true] at hall
    have hget : (pre ++ (done ++ c :: r ++ rest))[pre.length + done.length]? = some c := by
      rw [getElem?_pre]; simp
    obtain ⟨hlen, hidx⟩ := index_of_getElem? hget
    rw [readNameLoop]
    simp only [hlen, ↓reduceDIte, hidx, Out.bind_ok, hall.1, ↓reduceIte]
    have := ih (done ++ [c]) hall.2
    simp only [List.append_assoc, List.cons_append, List.nil_append, List.length_append,
      List.length_cons, List.length_nil] at this ⊢
    rw [show pre.length + done.length + 1 = pre.length + (done.length + (0 + 1)) by omega, this]
    congr 1; omega

theorem nameStart_facts {c : Nat} (h : isNameStart c = true) :
    c ≠ 32 ∧ c ≠ 9 ∧ c ≠ 44 ∧ c ≠ 65279 ∧ c ≠ 10 ∧ c ≠ 13 ∧ c ≠ 35 ∧ c ≠ 34 ∧ punctKind c = none ∧
      isDigit c = false ∧ c ≠ 45 := by
  simp only [isNameStart, isLetter, Bool.or_eq_true, Bool.and_eq_true, decide_eq_true_eq] at h
  have hr : (65 ≤ c ∧ c ≤ 90) ∨ (97 ≤ c ∧ c ≤ 122) ∨ c = 95 := by
    rcases h with (h | h) | h
    · exact Or.inl h
    · exact Or.inr (Or.inl h)
    · exact Or.inr (Or.inr h)
  refine ⟨by omega, by omega, by omega, by omega, by omega, by omega, by omega, by omega, ?_, ?_, by omega⟩
  · cases hp : punctKind c with
    | none => rfl
    | some k => have := punct_cases hp; omega
  · cases hd : isDigit c with
    | false => rfl
    | true => simp [isDigit] at hd; omega

/-- A name followed by something that cannot continue it is one NAME token. -/
theorem next_name (pre n rest : List Nat) (st : LexState) (hn : validName n = true)
    (hr : stopsName rest = true) :
    readNextToken (pre ++ (n ++ rest)) st pre.length =
      .ok (mkToken st .name pre.length (pre.length + n.length) (some n), st) := by
  cases n with
  | nil => simp [validName] at hn
  | cons c r =>
    simp only [validName, Bool.and_eq_true] at hn
    obtain ⟨h1, h2, h3, h4, h5, h6, h7, h8, h9, h10, h11⟩ := nameStart_facts hn.1
    have hget : (pre ++ (c :: r ++ rest))[pre.length]? = some c := by
      rw [getElem?_pre0]; rfl
    obtain ⟨hlen, hidx⟩ := index_of_getElem? hget
    have hloop := readNameLoop_run pre rest hr r [c] hn.2
    simp only [List.length_cons, List.length_nil, Nat.zero_add, List.cons_append, List.nil_append] at hloop
    rw [readNextToken]
    simp only [hlen, ↓reduceDIte, hidx, Out.bind_ok]
    simp only [h1, h2, h3, h4, h5, h6, h7, h8, h9, h10, h11, or_self, ↓reduceIte, hn.1,
      Bool.false_eq_true, readName]
    simp only [List.cons_append] at hloop ⊢
    rw [hloop]
    have hsl : slice (pre ++ c :: (r ++ rest)) pre.length (pre.length + (r.length + 1)) = c :: r := by
      unfold slice
      rw [List.drop_left]
      have : pre.length + (r.length + 1) - pre.length = (c :: r).length := by simp
      rw [this, ← List.cons_append, List.take_left]
    simp [hsl, Nat.add_assoc, Nat.add_comm 1]

end Gql.Text
