import Gql.Syntax.Parser
/-
Totality of the parser model, part 1: the `Good`/`GoodC` framework, the `pgood` proof search, the
parser's core utilities, its loops and the two small recursive knots (value literals, type references).
Part 2 is `Gql/Proofs/ParserTotal.lean`.

`Good n p`  : from every state whose remaining input is smaller than `n` and whose stream holds no
              lexer crash, `p` returns a value or a syntax error — never `crash` (in particular never
              `OutOfFuel`) — and the state it returns has not grown (and still holds no crash).
`GoodC n p` : the same, and on success the remaining input has become strictly smaller (`p` consumes).
Both are closed under the monadic structure, which is what the `pgood` tactic exploits.
-/
namespace Gql.Syntax
open Gql Gql.Text

/-- remaining input: `0` at `<EOF>`, else the current token and everything behind it -/
def size (s : PS) : Nat := if s.cur.kind = .eof then 0 else s.rest.length + 1

def PPost {α : Type} (R : Nat → Nat → Prop) (s : PS) : Out PErr (α × PS) → Prop
  | .ok (_, s') => s'.rest.NoCrash ∧ R (size s') (size s)
  | .err _ => True
  | .crash _ => False

@[simp] theorem PPost_ok {α} (R : Nat → Nat → Prop) (s s' : PS) (a : α) :
    PPost R s (.ok (a, s')) = (s'.rest.NoCrash ∧ R (size s') (size s)) := rfl
@[simp] theorem PPost_err {α} (R : Nat → Nat → Prop) (s : PS) (e : PErr) :
    PPost (α := α) R s (.err e) = True := rfl
@[simp] theorem PPost_crash {α} (R : Nat → Nat → Prop) (s : PS) (c : String) :
    PPost (α := α) R s (.crash c) = False := rfl

def Good {α : Type} (n : Nat) (p : P α) : Prop :=
  ∀ s : PS, s.rest.NoCrash → size s < n → PPost (· ≤ ·) s (p s)

def GoodC {α : Type} (n : Nat) (p : P α) : Prop :=
  ∀ s : PS, s.rest.NoCrash → size s < n → PPost (· < ·) s (p s)

theorem PPost.weaken {α} {s : PS} {r : Out PErr (α × PS)} (h : PPost (· < ·) s r) : PPost (· ≤ ·) s r := by
  cases r with
  | ok x => obtain ⟨a, s'⟩ := x; simp at h ⊢; exact ⟨h.1, Nat.le_of_lt h.2⟩
  | err e => trivial
  | crash c => exact h

theorem GoodC.toGood {α} {n : Nat} {p : P α} (h : GoodC n p) : Good n p :=
  fun s hs hn => (h s hs hn).weaken

theorem Good.anti {α} {n m : Nat} {p : P α} (h : Good n p) (hm : m ≤ n) : Good m p :=
  fun s hs hn => h s hs (Nat.lt_of_lt_of_le hn hm)

theorem GoodC.anti {α} {n m : Nat} {p : P α} (h : GoodC n p) (hm : m ≤ n) : GoodC m p :=
  fun s hs hn => h s hs (Nat.lt_of_lt_of_le hn hm)

theorem bind_apply {α β} (p : P α) (f : α → P β) (s : PS) :
    (p >>= f) s = match p s with
      | .ok (a, s') => f a s'
      | .err e => .err e
      | .crash c => .crash c := rfl

theorem pure_apply {α} (a : α) (s : PS) : (pure a : P α) s = .ok (a, s) := rfl

/-- the generic sequencing lemma: `R1` for the first part, `R2` for the second, `R` for the whole;
`m` is the fuel bound under which the continuation is good after the first part -/
theorem bind_post {α β} {R1 R2 R : Nat → Nat → Prop} {n m : Nat} {p : P α} {f : α → P β}
    (hp : ∀ s : PS, s.rest.NoCrash → size s < n → PPost R1 s (p s))
    (hf : ∀ a, ∀ s : PS, s.rest.NoCrash → size s < m → PPost R2 s (f a s))
    (hm : ∀ a b : Nat, R1 a b → b < n → a < m)
    (hR : ∀ a b c : Nat, R2 a b → R1 b c → R a c) :
    ∀ s : PS, s.rest.NoCrash → size s < n → PPost R s ((p >>= f) s) := by
  intro s hs hn
  have h := hp s hs hn
  rw [bind_apply]
  cases hps : p s with
  | ok x =>
    obtain ⟨a, s'⟩ := x
    rw [hps] at h
    simp at h
    have h2 := hf a s' h.1 (hm _ _ h.2 hn)
    simp only []
    cases hfs : f a s' with
    | ok y =>
      obtain ⟨b, s''⟩ := y
      rw [hfs] at h2
      simp at h2 ⊢
      exact ⟨h2.1, hR _ _ _ h2.2 h.2⟩
    | err e => trivial
    | crash c => rw [hfs] at h2; exact h2
  | err e => trivial
  | crash c => rw [hps] at h; exact h

theorem Good.pure {α} {n : Nat} (a : α) : Good n (pure a : P α) := by
  intro s hs _; rw [pure_apply]; simp; exact hs

theorem Good.bind {α β} {n : Nat} {p : P α} {f : α → P β} (hp : Good n p) (hf : ∀ a, Good n (f a)) :
    Good n (p >>= f) :=
  bind_post hp hf (fun _ _ h1 h2 => Nat.lt_of_le_of_lt h1 h2) (fun _ _ _ h1 h2 => Nat.le_trans h1 h2)

theorem GoodC.bindL {α β} {n : Nat} {p : P α} {f : α → P β} (hp : GoodC n p) (hf : ∀ a, Good n (f a)) :
    GoodC n (p >>= f) :=
  bind_post hp hf (fun _ _ h1 h2 => Nat.lt_trans h1 h2) (fun _ _ _ h1 h2 => Nat.lt_of_le_of_lt h1 h2)

theorem GoodC.bindR {α β} {n : Nat} {p : P α} {f : α → P β} (hp : Good n p) (hf : ∀ a, GoodC n (f a)) :
    GoodC n (p >>= f) :=
  bind_post hp hf (fun _ _ h1 h2 => Nat.lt_of_le_of_lt h1 h2) (fun _ _ _ h1 h2 => Nat.lt_of_lt_of_le h1 h2)

/-- after a consuming step the continuation only needs to be good for one unit of fuel less -/
theorem GoodC.step {α β} {n : Nat} {p : P α} {f : α → P β} (hp : GoodC (n + 1) p)
    (hf : ∀ a, Good n (f a)) : GoodC (n + 1) (p >>= f) :=
  bind_post hp hf (fun _ _ h1 h2 => by omega) (fun _ _ _ h1 h2 => Nat.lt_of_le_of_lt h1 h2)

theorem Good.ite {α} {n : Nat} {c : Prop} [Decidable c] {t e : P α} (ht : Good n t) (he : Good n e) :
    Good n (if c then t else e) := by
  split <;> assumption

theorem GoodC.ite {α} {n : Nat} {c : Prop} [Decidable c] {t e : P α} (ht : GoodC n t) (he : GoodC n e) :
    GoodC n (if c then t else e) := by
  split <;> assumption

theorem Good.fail {α} {n : Nat} (e : PErr) : Good n (P.fail e : P α) := fun _ _ _ => trivial
theorem GoodC.fail {α} {n : Nat} (e : PErr) : GoodC n (P.fail e : P α) := fun _ _ _ => trivial

/-! ### the proof-search tactic -/

syntax "pgood_leaf" : tactic
syntax "pgood" : tactic

macro_rules | `(tactic| pgood_leaf) => `(tactic| (with_reducible assumption))
macro_rules | `(tactic| pgood_leaf) => `(tactic| (with_reducible exact Good.pure _))
macro_rules | `(tactic| pgood_leaf) => `(tactic| (with_reducible exact Good.fail _))
macro_rules | `(tactic| pgood_leaf) => `(tactic| (with_reducible exact GoodC.fail _))
macro_rules | `(tactic| pgood_leaf) => `(tactic| ((with_reducible apply GoodC.toGood); with_reducible assumption))

macro_rules
  | `(tactic| pgood) => `(tactic| first
      | pgood_leaf
      | ((with_reducible intro _); (try dsimp only); pgood)
      | ((with_reducible apply Good.bind) <;> pgood)
      | ((with_reducible apply Good.ite) <;> pgood)
      | ((with_reducible apply GoodC.ite) <;> pgood)
      | ((with_reducible apply GoodC.bindL) <;> pgood)
      | ((with_reducible apply GoodC.bindR) <;> pgood)
      | ((with_reducible apply GoodC.toGood) <;> pgood)
      | (split <;> pgood))

/-! ### primitives -/

theorem cur_good {n : Nat} : Good n P.cur := by
  intro s hs _; simp [P.cur]; exact hs

theorem peek_good {n : Nat} (k : TokKind) : Good n (peek k) := by
  intro s hs _; simp [peek]; exact hs

theorem unexpected_good {α} {n : Nat} (a : Option Token) : Good n (unexpected a : P α) := by
  intro s hs _; simp [unexpected, bind_apply, P.cur, P.fail]

theorem unexpected_goodC {α} {n : Nat} (a : Option Token) : GoodC n (unexpected a : P α) := by
  intro s hs _; simp [unexpected, bind_apply, P.cur, P.fail]

theorem lookahead_good {n : Nat} : Good n lookahead := by
  intro s hs _
  unfold lookahead
  split
  · simp; exact hs
  · split <;> simp_all [Stream.NoCrash]

theorem size_eof {s : PS} (h : s.cur.kind = .eof) : size s = 0 := by simp [size, h]
theorem size_ne {s : PS} (h : ¬ s.cur.kind = .eof) : size s = s.rest.length + 1 := by simp [size, h]

theorem size_le (cur : Token) (rest : Stream) (count : Nat) :
    size { cur := cur, rest := rest, count := count } ≤ rest.length + 1 := by
  show (if cur.kind = .eof then 0 else rest.length + 1) ≤ rest.length + 1
  split <;> omega

/-- `advance_lexer` never grows the input, and strictly shrinks it unless at `<EOF>` -/
theorem advanceLexer_post (cfg : Cfg) (s : PS) (hs : s.rest.NoCrash) :
    PPost (fun a b => a ≤ b ∧ (¬ s.cur.kind = .eof → a < b)) s (advanceLexer cfg s) := by
  unfold advanceLexer
  split
  · next h => simp [h]; exact hs
  · next h =>
    split
    · next t r hr =>
      have hsz : size s = r.length + 2 := by simp [size, h, hr, Stream.length]
      have hs' : r.NoCrash := by rw [hr] at hs; simpa [Stream.NoCrash] using hs
      split
      · have := size_le t r s.count
        simp only [PPost_ok]
        exact ⟨hs', by omega, fun _ => by omega⟩
      · have := size_le t r (s.count + 1)
        split
        · dsimp only
          split
          · trivial
          · simp only [PPost_ok]
            exact ⟨hs', by omega, fun _ => by omega⟩
        · simp only [PPost_ok]
          exact ⟨hs', by omega, fun _ => by omega⟩
    · next a l c hr =>
      have hsz : size s = 1 := by simp [size, h, hr, Stream.length]
      have h0 : size { s with cur := eofToken a l c } = 0 := by simp [size, eofToken]
      simp only [PPost_ok]
      rw [h0, hsz]
      exact ⟨hs, by omega, fun _ => by omega⟩
    · trivial
    · next c hr => rw [hr] at hs; exact hs

theorem advanceLexer_good {n : Nat} (cfg : Cfg) : Good n (advanceLexer cfg) := by
  intro s hs _
  have h := advanceLexer_post cfg s hs
  cases hr : advanceLexer cfg s with
  | ok x => obtain ⟨a, s'⟩ := x; rw [hr] at h; simp at h ⊢; exact ⟨h.1, h.2.1⟩
  | err e => trivial
  | crash c => rw [hr] at h; exact h

/-- the consuming use of `advance_lexer`: the current token is known not to be `<EOF>` -/
theorem advance_then {α} {n : Nat} (cfg : Cfg) {f : P α} (hf : Good n f) (s : PS)
    (hs : s.rest.NoCrash) (hn : size s ≤ n) (hk : ¬ s.cur.kind = .eof) :
    PPost (· < ·) s ((advanceLexer cfg >>= fun _ => f) s) := by
  have h := advanceLexer_post cfg s hs
  rw [bind_apply]
  cases hr : advanceLexer cfg s with
  | ok x =>
    obtain ⟨a, s'⟩ := x
    rw [hr] at h
    simp at h
    have h2 := hf s' h.1 (by have := h.2.2 hk; omega)
    simp only []
    cases hfs : f s' with
    | ok y =>
      obtain ⟨b, s''⟩ := y
      rw [hfs] at h2
      simp at h2 ⊢
      exact ⟨h2.1, by have := h.2.2 hk; omega⟩
    | err e => trivial
    | crash c => rw [hfs] at h2; exact h2
  | err e => trivial
  | crash c => rw [hr] at h; exact h

macro_rules | `(tactic| pgood_leaf) => `(tactic| (with_reducible exact cur_good))
macro_rules | `(tactic| pgood_leaf) => `(tactic| (with_reducible exact peek_good _))
macro_rules | `(tactic| pgood_leaf) => `(tactic| (with_reducible exact unexpected_good _))
macro_rules | `(tactic| pgood_leaf) => `(tactic| (with_reducible exact unexpected_goodC _))
macro_rules | `(tactic| pgood_leaf) => `(tactic| (with_reducible exact lookahead_good))
macro_rules | `(tactic| pgood_leaf) => `(tactic| (with_reducible exact advanceLexer_good _))

theorem expectToken_good {n : Nat} (cfg : Cfg) (k : TokKind) : Good n (expectToken cfg k) := by
  unfold expectToken; pgood

theorem expectOptionalToken_good {n : Nat} (cfg : Cfg) (k : TokKind) :
    Good n (expectOptionalToken cfg k) := by
  unfold expectOptionalToken; pgood

theorem expectKeyword_good {n : Nat} (cfg : Cfg) (v : String) : Good n (expectKeyword cfg v) := by
  unfold expectKeyword; pgood

theorem expectOptionalKeyword_good {n : Nat} (cfg : Cfg) (v : String) :
    Good n (expectOptionalKeyword cfg v) := by
  unfold expectOptionalKeyword; pgood

/-- `expect_token(kind)` consumes when `kind` is not `<EOF>` -/
theorem expectToken_goodC {n : Nat} (cfg : Cfg) (k : TokKind) (hk : k ≠ .eof) :
    GoodC n (expectToken cfg k) := by
  intro s hs hn
  unfold expectToken
  rw [bind_apply]
  simp only [P.cur]
  split
  · next h =>
    exact advance_then cfg (Good.pure s.cur) s hs (Nat.le_of_lt hn) (by rw [h]; exact hk)
  · trivial

theorem expectKeyword_goodC {n : Nat} (cfg : Cfg) (v : String) : GoodC n (expectKeyword cfg v) := by
  intro s hs hn
  unfold expectKeyword
  rw [bind_apply]
  simp only [P.cur]
  split
  · next h =>
    have := advance_then cfg (Good.pure ()) s hs (Nat.le_of_lt hn) (by rw [h.1]; decide)
    rw [bind_apply] at this
    cases hr : advanceLexer cfg s with
    | ok x => obtain ⟨a, s'⟩ := x; rw [hr] at this; simpa [pure_apply] using this
    | err e => trivial
    | crash c => rw [hr] at this; exact this
  · trivial

macro_rules | `(tactic| pgood_leaf) => `(tactic| (with_reducible exact expectToken_good _ _))
macro_rules | `(tactic| pgood_leaf) => `(tactic| (with_reducible exact expectOptionalToken_good _ _))
macro_rules | `(tactic| pgood_leaf) => `(tactic| (with_reducible exact expectKeyword_good _ _))
macro_rules | `(tactic| pgood_leaf) => `(tactic| (with_reducible exact expectKeyword_goodC _ _))
macro_rules | `(tactic| pgood_leaf) => `(tactic| (with_reducible exact expectOptionalKeyword_good _ _))
macro_rules | `(tactic| pgood_leaf) => `(tactic| (with_reducible exact expectToken_goodC _ _ (by decide)))

/-! ### loops -/

theorem untilClose_good {n : Nat} (cfg : Cfg) (close : TokKind) {item : P Ast} (hitem : GoodC n item) :
    ∀ (m : Nat) (acc : List Ast), m ≤ n → Good m (untilClose cfg close item m acc) := by
  intro m
  induction m with
  | zero => intro acc _ s _ hn; omega
  | succ m ih =>
    intro acc hm
    unfold untilClose
    apply Good.bind (expectOptionalToken_good cfg close)
    intro closed
    apply Good.ite (Good.pure _)
    exact (GoodC.step (hitem.anti hm) (fun x => ih _ (by omega))).toGood

theorem parseAny_goodC {n : Nat} (cfg : Cfg) (o c : TokKind) (ho : o ≠ .eof) {item : P Ast}
    (hitem : GoodC n item) : GoodC (n + 1) (parseAny cfg n o item c) := by
  unfold parseAny
  exact GoodC.step (expectToken_goodC cfg o ho) (fun _ => untilClose_good cfg c hitem n [] (Nat.le_refl _))

theorem parseMany_goodC {n : Nat} (cfg : Cfg) (o c : TokKind) (ho : o ≠ .eof) {item : P Ast}
    (hitem : GoodC n item) : GoodC (n + 1) (parseMany cfg n o item c) := by
  unfold parseMany
  exact GoodC.step (expectToken_goodC cfg o ho)
    (fun _ => Good.bind hitem.toGood (fun x => untilClose_good cfg c hitem n [x] (Nat.le_refl _)))

theorem parseOptionalMany_good {n : Nat} (cfg : Cfg) (o c : TokKind) {item : P Ast}
    (hitem : GoodC n item) : Good n (parseOptionalMany cfg n o item c) := by
  unfold parseOptionalMany
  apply Good.bind (expectOptionalToken_good cfg o)
  intro opened
  apply Good.ite
  · apply Good.bind hitem.toGood
    intro x
    apply Good.bind (untilClose_good cfg c hitem n [x] (Nat.le_refl _))
    intro xs
    exact Good.pure _
  · exact Good.pure _

theorem delimitedLoop_good {n : Nat} (cfg : Cfg) (d : TokKind) {item : P Ast} (hitem : GoodC n item) :
    ∀ (m : Nat) (acc : List Ast), m ≤ n → Good m (delimitedLoop cfg d item m acc) := by
  intro m
  induction m with
  | zero => intro acc _ s _ hn; omega
  | succ m ih =>
    intro acc hm
    unfold delimitedLoop
    refine (GoodC.step (hitem.anti hm) (fun x => ?_)).toGood
    apply Good.bind (expectOptionalToken_good cfg d)
    intro more
    exact Good.ite (ih _ (by omega)) (Good.pure _)

/-- a delimited list consumes because its first item does -/
theorem delimitedLoop_goodC {n : Nat} (cfg : Cfg) (d : TokKind) {item : P Ast} (hitem : GoodC n item)
    (acc : List Ast) : GoodC n (delimitedLoop cfg d item n acc) := by
  cases n with
  | zero => intro s _ hn; omega
  | succ m =>
    unfold delimitedLoop
    refine GoodC.step hitem (fun x => ?_)
    apply Good.bind (expectOptionalToken_good cfg d)
    intro more
    exact Good.ite (delimitedLoop_good cfg d hitem m _ (by omega)) (Good.pure _)

theorem parseDelimitedMany_goodC {n : Nat} (cfg : Cfg) (d : TokKind) {item : P Ast}
    (hitem : GoodC n item) : GoodC n (parseDelimitedMany cfg n d item) := by
  unfold parseDelimitedMany
  exact GoodC.bindR (expectOptionalToken_good cfg d) (fun _ => delimitedLoop_goodC cfg d hitem [])

theorem parseMany_good {n : Nat} (cfg : Cfg) (o c : TokKind) (ho : o ≠ .eof) {item : P Ast}
    (hitem : GoodC n item) : Good n (parseMany cfg n o item c) :=
  ((parseMany_goodC cfg o c ho hitem).anti (Nat.le_succ n)).toGood

macro_rules | `(tactic| pgood_leaf) => `(tactic| ((with_reducible apply parseOptionalMany_good) <;> pgood))
macro_rules | `(tactic| pgood_leaf) => `(tactic| ((with_reducible apply parseMany_good _ _ _ (by decide)) <;> pgood))
macro_rules | `(tactic| pgood_leaf) => `(tactic| ((with_reducible apply parseDelimitedMany_goodC) <;> pgood))

/-! ### names, strings, values -/

theorem parseName_goodC {n : Nat} (cfg : Cfg) : GoodC n (parseName cfg) := by
  unfold parseName; pgood
macro_rules | `(tactic| pgood_leaf) => `(tactic| (with_reducible exact parseName_goodC _))

theorem parseNamedType_goodC {n : Nat} (cfg : Cfg) : GoodC n (parseNamedType cfg) := by
  unfold parseNamedType; pgood
macro_rules | `(tactic| pgood_leaf) => `(tactic| (with_reducible exact parseNamedType_goodC _))

theorem parseStringLiteral_good {n : Nat} (cfg : Cfg) : Good n (parseStringLiteral cfg) := by
  unfold parseStringLiteral; pgood
macro_rules | `(tactic| pgood_leaf) => `(tactic| (with_reducible exact parseStringLiteral_good _))

theorem peekDescription_good {n : Nat} : Good n peekDescription := by
  unfold peekDescription; pgood
macro_rules | `(tactic| pgood_leaf) => `(tactic| (with_reducible exact peekDescription_good))

theorem parseDescription_good {n : Nat} (cfg : Cfg) : Good n (parseDescription cfg) := by
  unfold parseDescription; pgood
macro_rules | `(tactic| pgood_leaf) => `(tactic| (with_reducible exact parseDescription_good _))

theorem parseVariable_goodC {n : Nat} (cfg : Cfg) : GoodC n (parseVariable cfg) := by
  unfold parseVariable; pgood
macro_rules | `(tactic| pgood_leaf) => `(tactic| (with_reducible exact parseVariable_goodC _))

theorem parseVariableValue_goodC {n : Nat} (cfg : Cfg) (c : Bool) : GoodC n (parseVariableValue cfg c) := by
  unfold parseVariableValue; pgood

theorem parseObjectField_goodC {n : Nat} (cfg : Cfg) {value : P Ast} (hv : Good n value) :
    GoodC n (parseObjectField cfg value) := by
  unfold parseObjectField; pgood

/-- shape `token = self._lexer.token; self.advance_lexer(); …` at a token that is not `<EOF>` -/
theorem curAdv_post {α} {n : Nat} (cfg : Cfg) {f : Token → P α} (hf : ∀ t, Good n (f t)) (s : PS)
    (hs : s.rest.NoCrash) (hn : size s ≤ n) (hk : ¬ s.cur.kind = .eof) :
    PPost (· < ·) s ((P.cur >>= fun t => advanceLexer cfg >>= fun _ => f t) s) := by
  rw [bind_apply]
  simp only [P.cur]
  exact advance_then cfg (hf s.cur) s hs hn hk

/-- checker for what the generated value-literal table says about a token kind: `<EOF>` dispatches
nowhere (so every dispatched method sits on a real token and consumes it) and every method is known -/
def valueMethodOk (k : TokKind) : Bool :=
  match valueMethodOf k with
  | some m => k != .eof && knownValueMethods.contains m
  | none => true

theorem valueMethodOk_all (k : TokKind) : valueMethodOk k = true := by
  cases k <;> decide

theorem valueMethodOf_spec {k : TokKind} {m : String} (h : valueMethodOf k = some m) :
    k ≠ .eof ∧ m ∈ knownValueMethods := by
  have := valueMethodOk_all k
  simp only [valueMethodOk, h, Bool.and_eq_true, bne_iff_ne, ne_eq, List.contains_iff_mem] at this
  exact this

theorem dispatchValue_post {n : Nat} (cfg : Cfg) (c : Bool) {value : P Ast} (hv : GoodC n value)
    (m : String) (hm : m ∈ knownValueMethods) (s : PS) (hs : s.rest.NoCrash) (hn : size s < n + 1)
    (hk : ¬ s.cur.kind = .eof) : PPost (· < ·) s (dispatchValue cfg n c value m s) := by
  simp only [knownValueMethods, List.mem_cons, List.not_mem_nil, or_false] at hm
  rcases hm with rfl | rfl | rfl | rfl | rfl | rfl | rfl
  · simp only [dispatchValue]
    exact GoodC.bindL (parseAny_goodC cfg .bracketL .bracketR (by decide) hv) (fun _ => Good.pure _) s hs hn
  · simp (config := { decide := true }) only [dispatchValue, ↓reduceIte]
    exact GoodC.bindL (parseAny_goodC cfg .braceL .braceR (by decide) (parseObjectField_goodC cfg hv.toGood))
      (fun _ => Good.pure _) s hs hn
  · simp (config := { decide := true }) only [dispatchValue, ↓reduceIte, parseNumber]
    exact curAdv_post cfg (fun t => Good.pure _) s hs (Nat.le_of_lt_succ hn) hk
  · simp (config := { decide := true }) only [dispatchValue, ↓reduceIte, parseNumber]
    exact curAdv_post cfg (fun t => Good.pure _) s hs (Nat.le_of_lt_succ hn) hk
  · simp (config := { decide := true }) only [dispatchValue, ↓reduceIte, parseStringLiteral]
    exact curAdv_post cfg (fun t => Good.pure _) s hs (Nat.le_of_lt_succ hn) hk
  · simp (config := { decide := true }) only [dispatchValue, ↓reduceIte, parseNamedValues]
    refine curAdv_post cfg (fun t => ?_) s hs (Nat.le_of_lt_succ hn) hk
    pgood
  · simp (config := { decide := true }) only [dispatchValue, ↓reduceIte]
    exact parseVariableValue_goodC cfg c s hs hn

theorem valueLit_goodC (cfg : Cfg) (c : Bool) : ∀ n, GoodC n (valueLit n cfg c) := by
  intro n
  induction n with
  | zero => intro s _ hn; omega
  | succ n ih =>
    intro s hs hn
    unfold valueLit
    rw [bind_apply]
    simp only [P.cur]
    cases hm : valueMethodOf s.cur.kind with
    | some m =>
      have hspec := valueMethodOf_spec hm
      exact dispatchValue_post cfg c ih m hspec.2 s hs hn hspec.1
    | none => exact unexpected_goodC none s hs hn
macro_rules | `(tactic| pgood_leaf) => `(tactic| (with_reducible exact valueLit_goodC _ _ _))

/-! ### types -/

/-- `expect_optional_token(kind)` followed by a continuation: the `True` branch has consumed -/
theorem expectOptional_bind_goodC {α} {n : Nat} (cfg : Cfg) (k : TokKind) (hk : k ≠ .eof)
    {f : Bool → P α} (ht : Good n (f true)) (hf : GoodC (n + 1) (f false)) :
    GoodC (n + 1) (expectOptionalToken cfg k >>= f) := by
  intro s hs hn
  have key : (expectOptionalToken cfg k >>= f) s =
      if s.cur.kind = k then (advanceLexer cfg >>= fun _ => f true) s else f false s := by
    simp only [expectOptionalToken, bind_apply, P.cur]
    by_cases h : s.cur.kind = k
    · simp only [if_pos h, bind_apply, pure_apply]
      cases advanceLexer cfg s with
      | ok x => rfl
      | err e => rfl
      | crash c => rfl
    · simp only [if_neg h, pure_apply]
  rw [key]
  split
  · next h => exact advance_then cfg ht s hs (Nat.le_of_lt_succ hn) (by rw [h]; exact hk)
  · exact hf s hs hn

theorem typeRef_goodC (cfg : Cfg) : ∀ n, GoodC n (typeRef n cfg) := by
  intro n
  induction n with
  | zero => intro s _ hn; omega
  | succ n ih =>
    unfold typeRef
    apply expectOptional_bind_goodC cfg .bracketL (by decide)
    · simp only [↓reduceIte]
      pgood
    · simp only [Bool.false_eq_true, ↓reduceIte]
      pgood
macro_rules | `(tactic| pgood_leaf) => `(tactic| (with_reducible exact typeRef_goodC _ _))

end Gql.Syntax
