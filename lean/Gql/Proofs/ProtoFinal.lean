import Gql.Proofs.ProtoAccept
import Gql.Proofs.ProtoRun
/-!
Assembly: the per-clause facts about the payload stream (P1 … P7, each proved separately) give
`StreamOk`, hence acceptance by the executable validator (`checkPrefix_of_streamOk`).
-/
namespace Gql.Async
open Gql.Spec.Protocol

/-! ### split forms of the recursive clause predicates -/

theorem hasNextOk_split (pre : List Payload) (pl : Payload) (post : List Payload)
    (h : HasNextOk (pre ++ pl :: post)) (hp : post ≠ []) : pl.hasNext = true := by
  induction pre with
  | nil =>
    cases post with
    | nil => exact absurd rfl hp
    | cons q r => exact h.1
  | cons x pre ih =>
    apply ih
    cases hpre : pre ++ pl :: post with
    | nil => cases pre <;> simp at hpre
    | cons y r =>
      simp only [List.cons_append, hpre, HasNextOk] at h
      exact h.2

theorem nodup_mid_left {l1 l2 l3 : List Nat} (h : (l1 ++ l2 ++ l3).Nodup) :
    l2.Nodup ∧ ∀ x ∈ l2, x ∉ l1 := by
  have h12 := (List.nodup_append.mp h).1
  obtain ⟨_, h2, hd⟩ := List.nodup_append.mp h12
  exact ⟨h2, fun x hx hx1 => hd x hx1 x hx rfl⟩

theorem announcedIds_split (pre : List Payload) (pl : Payload) (post : List Payload) :
    announcedIds (pre ++ pl :: post) = announcedIds pre ++ pl.pending.map (·.id) ++ announcedIds post := by
  simp [announcedIds, List.flatMap_append]

theorem completedIds_split (pre : List Payload) (pl : Payload) (post : List Payload) :
    completedIds (pre ++ pl :: post) = completedIds pre ++ pl.completed.map (·.id) ++ completedIds post := by
  simp [completedIds, List.flatMap_append]

theorem mem_announcedIds_of_pend (ps : List Payload) (a : Pending) (h : a ∈ pendEntries ps) :
    a.id ∈ announcedIds ps := by
  simp only [pendEntries, List.mem_flatMap] at h
  obtain ⟨p, hp, ha⟩ := h
  simp only [announcedIds, List.mem_flatMap, List.mem_map]
  exact ⟨p, hp, a, ha, rfl⟩

/-- The per-clause facts give `StreamOk`. -/
theorem streamOk_of_facts (encl : Pending → Pending → Bool) (ps : List Payload)
    (hann : (announcedIds ps).Nodup) (hreuse : NoReuse [] ps) (hlate : NoLateData [] ps)
    (hcomp : (completedIds ps).Nodup) (hdata : DataAnnounced [] ps) (hnext : HasNextOk ps)
    (hnest : ∀ k, k < ps.length → ∀ a ∈ pendEntries (ps.take (k + 1)), ∀ b ∈ pendEntries (ps.take (k + 1)),
      a.id ∉ completedIds (ps.take (k + 1)) → encl a b = false)
    (hlast : ∀ p ∈ ps, p.hasNext = false → ∀ i ∈ announcedIds ps, i ∈ completedIds ps) :
    StreamOk encl ps := by
  intro pre pl post hsplit
  subst hsplit
  have htake : (pre ++ pl :: post).take (pre.length + 1) = pre ++ [pl] := by
    have : pre ++ pl :: post = (pre ++ [pl]) ++ post := by simp
    rw [this, List.take_left' (by simp)]
  refine ⟨⟨?_, ?_, ?_, ?_, ?_, ?_, ?_⟩, hasNextOk_split pre pl post hnext⟩
  · rw [announcedIds_split] at hann
    exact (nodup_mid_left hann).1
  · intro a ha
    constructor
    · rw [announcedIds_split] at hann
      exact (nodup_mid_left hann).2 a.id (List.mem_map_of_mem ha)
    · have := ((noReuse_append [] pre (pl :: post)).mp hreuse).2
      simp only [NoReuse, List.nil_append] at this
      exact this.1 a ha
  · intro e he
    constructor
    · have := (hdata.split pre pl post rfl).1 e he
      simpa using this
    · have := ((noLateData_append [] pre (pl :: post)).mp hlate).2
      simp only [NoLateData, List.nil_append] at this
      exact this.1 e he
  · rw [completedIds_split] at hcomp
    exact (nodup_mid_left hcomp).1
  · intro c hc
    constructor
    · rw [completedIds_split] at hcomp
      exact (nodup_mid_left hcomp).2 c.id (List.mem_map_of_mem hc)
    · have := (hdata.split pre pl post rfl).2 c hc
      simpa using this
  · intro b hb a ha hnc _
    have hk : pre.length < (pre ++ pl :: post).length := by simp
    have hb' : b ∈ pendEntries (pre ++ [pl]) := by
      simp only [pendEntries, List.flatMap_append, List.mem_append]
      right; simpa using hb
    have := hnest pre.length hk
    rw [htake] at this
    exact this a ha b hb' hnc
  · intro hn a ha
    have hpost : post = [] := by
      cases post with
      | nil => rfl
      | cons q r =>
        have := hasNextOk_split pre pl (q :: r) hnext (by simp)
        rw [hn] at this; cases this
    subst hpost
    exact hlast pl (by simp) hn a.id (mem_announcedIds_of_pend _ a ha)

/-! ### the label nesting used by the validator is the scheduler's ancestor relation -/

theorem ancestorLabel_anc (σ : Static) (parents : List (Nat × Nat))
    (hpar : ∀ g p, σ.parent g = some p ↔ (g, p) ∈ parents) :
    ∀ fuel a b, ancestorLabel parents fuel a b = true → Anc σ a b := by
  intro fuel
  induction fuel with
  | zero => intro a b h; simp [ancestorLabel] at h
  | succ n ih =>
    intro a b h
    unfold ancestorLabel at h
    split at h
    · cases h
    · rename_i k p hf
      have hk : k = b := by
        have := List.find?_some hf
        simpa using this
      have hm : (k, p) ∈ parents := List.mem_of_find?_eq_some hf
      subst hk
      have hp : σ.parent k = some p := (hpar k p).mpr hm
      simp only [Bool.or_eq_true, beq_iff_eq] at h
      rcases h with h | h
      · subst h; exact Anc.parent hp
      · exact Anc.step hp (ih a p h)

theorem enclByLabels_anc (σ : Static) (parents : List (Nat × Nat))
    (hpar : ∀ g p, σ.parent g = some p ↔ (g, p) ∈ parents) (a b : Pending)
    (h : enclByLabels parents a b = true) : ∃ ga gb, a.label = some ga ∧ b.label = some gb ∧ Anc σ ga gb := by
  unfold enclByLabels at h
  split at h
  · rename_i la lb ha hb
    simp only [Bool.and_eq_true] at h
    exact ⟨la, lb, ha, hb, ancestorLabel_anc σ parents hpar _ _ _ h.1⟩
  · cases h

/-- `DataAnnounced` for the whole payload stream of a well-formed history. -/
theorem payloads_dataAnnounced (σ : Static) (π : PubStatic) (fuel : Nat) (work : Option Work)
    (h : List Tick) (hok : envOk σ fuel work h = true) :
    DataAnnounced [] (payloads σ π fuel work h) := by
  rw [(payloads_eq σ π fuel work h).1]
  have hpre := evsPre_final σ fuel work h hok
  have hsup : DomSup (initialPayload π (init σ work).2.1 (init σ work).2.2).1
      (nodesOf (init σ work).2.1 (init σ work).2.2) := by
    have := toPending_sup π {} (init σ work).2.1 (init σ work).2.2 [] (by intro n hn; cases hn)
    simpa [initialPayload] using this
  have htab : TableAnn (initialPayload π (init σ work).2.1 (init σ work).2.2).1
      ((initialPayload π (init σ work).2.1 (init σ work).2.2).2.pending.map (·.id)) := by
    have := toPending_tableAnn π {} (init σ work).2.1 (init σ work).2.2 []
      (by intro i ⟨n, hn⟩; simp [alookup] at hn)
    simpa [initialPayload] using this
  have := publish_pre π (wqRun σ fuel (wqStart σ fuel work) h).2
    (initialPayload π (init σ work).2.1 (init σ work).2.2).1 _ _ hsup htab hpre
  simp only [DataAnnounced, List.nil_append]
  refine ⟨?_, ?_, this⟩
  · intro e he; simp [initialPayload] at he
  · intro c hc; simp [initialPayload] at hc

end Gql.Async
