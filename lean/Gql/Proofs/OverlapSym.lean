import Gql.Proofs.OverlapNatural
import Gql.Proofs.OverlapLocal
/-! C14: the specification's local requirement on a pair does not depend on the order of the
pair, and a field never conflicts with itself. -/
namespace Gql.Exec
open Overlap

theorem shapeConflict_comm : ∀ (a b : Ty), Spec.shapeConflict a b = Spec.shapeConflict b a
  | .leaf x, .leaf y => by
    simp only [Spec.shapeConflict]
    rw [Bool.eq_iff_iff]; simp only [bne_iff_ne]; exact ⟨Ne.symm, Ne.symm⟩
  | .leaf _, .comp _ => by simp [Spec.shapeConflict]
  | .leaf _, .list _ => by simp [Spec.shapeConflict]
  | .leaf _, .nonNull _ => by simp [Spec.shapeConflict]
  | .comp _, .leaf _ => by simp [Spec.shapeConflict]
  | .comp _, .comp _ => by simp [Spec.shapeConflict]
  | .comp _, .list _ => by simp [Spec.shapeConflict]
  | .comp _, .nonNull _ => by simp [Spec.shapeConflict]
  | .list _, .leaf _ => by simp [Spec.shapeConflict]
  | .list _, .comp _ => by simp [Spec.shapeConflict]
  | .list a, .list b => by simp [Spec.shapeConflict, shapeConflict_comm a b]
  | .list _, .nonNull _ => by simp [Spec.shapeConflict]
  | .nonNull _, .leaf _ => by simp [Spec.shapeConflict]
  | .nonNull _, .comp _ => by simp [Spec.shapeConflict]
  | .nonNull _, .list _ => by simp [Spec.shapeConflict]
  | .nonNull a, .nonNull b => by simp [Spec.shapeConflict, shapeConflict_comm a b]

theorem shapeConflict_self : ∀ (a : Ty), Spec.shapeConflict a a = false
  | .leaf x => by simp [Spec.shapeConflict]
  | .comp _ => by simp [Spec.shapeConflict]
  | .list a => by simp [Spec.shapeConflict, shapeConflict_self a]
  | .nonNull a => by simp [Spec.shapeConflict, shapeConflict_self a]

theorem typesConflict_comm (a b : Option Ty) : Spec.typesConflict a b = Spec.typesConflict b a := by
  cases a <;> cases b <;> simp [Spec.typesConflict, shapeConflict_comm]

theorem typesConflict_self (a : Option Ty) : Spec.typesConflict a a = false := by
  cases a <;> simp [Spec.typesConflict, shapeConflict_self]

/-- "identical sets of arguments" is equality of the sorted argument objects -/
theorem argsEquiv_eq_sorted {a b : Args} (ha : argsWF a = true) (hb : argsWF b = true) :
    Spec.argsEquiv a b = valueBeq (sortValue naturalLe (.obj a)) (sortValue naturalLe (.obj b)) := by
  have h := sameValue_eq naturalLe_linOrd (.obj a) (.obj b)
    (by simpa [Value.keysUnique, argsWF] using ha) (by simpa [Value.keysUnique, argsWF] using hb)
  rw [h]
  simp [Spec.valueEquiv, Spec.argsEquiv]

theorem valueBeq_comm (a b : Value) : valueBeq a b = valueBeq b a := by
  rw [Bool.eq_iff_iff, valueBeq_iff, valueBeq_iff]
  exact eq_comm

theorem valueBeq_self (a : Value) : valueBeq a a = true := (valueBeq_iff a a).2 rfl

theorem argsEquiv_comm {a b : Args} (ha : argsWF a = true) (hb : argsWF b = true) :
    Spec.argsEquiv a b = Spec.argsEquiv b a := by
  rw [argsEquiv_eq_sorted ha hb, argsEquiv_eq_sorted hb ha, valueBeq_comm]

theorem argsEquiv_self {a : Args} (ha : argsWF a = true) : Spec.argsEquiv a a = true := by
  rw [argsEquiv_eq_sorted ha ha, valueBeq_self]

theorem streamsEquiv_comm {a b : Option Args} (ha : ∀ x, a = some x → argsWF x = true)
    (hb : ∀ x, b = some x → argsWF x = true) : Spec.streamsEquiv a b = Spec.streamsEquiv b a := by
  cases a <;> cases b <;> simp [Spec.streamsEquiv]
  exact argsEquiv_comm (ha _ rfl) (hb _ rfl)

theorem streamsEquiv_self {a : Option Args} (ha : ∀ x, a = some x → argsWF x = true) :
    Spec.streamsEquiv a a = true := by
  cases a <;> simp [Spec.streamsEquiv]
  exact argsEquiv_self (ha _ rfl)

theorem parentsOverlap_comm (s : Schema) (a b : Spec.FieldInst) :
    Spec.parentsOverlap s a b = Spec.parentsOverlap s b a := by
  simp only [Spec.parentsOverlap]
  have : (a.parent == b.parent) = (b.parent == a.parent) := by
    rw [Bool.eq_iff_iff]; simp only [beq_iff_eq]; exact ⟨Eq.symm, Eq.symm⟩
  rw [this]
  cases (b.parent == a.parent) <;> cases s.isObject a.parent <;> cases s.isObject b.parent <;> rfl

theorem deeper_comm (s : Schema) (a b : Spec.FieldInst) (full : Bool) :
    Spec.deeper s ⟨a, b, full⟩ = Spec.deeper s ⟨b, a, full⟩ := by
  simp only [Spec.deeper, parentsOverlap_comm s a b]

theorem direct_comm (s : Schema) {a b : Spec.FieldInst} (ha : a.node.argsOK) (hb : b.node.argsOK)
    (full : Bool) : Spec.direct s ⟨a, b, full⟩ = Spec.direct s ⟨b, a, full⟩ := by
  simp only [Spec.direct, Spec.typesOf]
  rw [typesConflict_comm, streamsEquiv_comm ha.2 hb.2, parentsOverlap_comm s a b,
    argsEquiv_comm ha.1 hb.1]
  have : (a.node.name != b.node.name) = (b.node.name != a.node.name) := by
    rw [Bool.eq_iff_iff]; simp only [bne_iff_ne]; exact ⟨Ne.symm, Ne.symm⟩
  rw [this]

theorem direct_self (s : Schema) {a : Spec.FieldInst} (ha : a.node.argsOK) (full : Bool) :
    Spec.direct s ⟨a, a, full⟩ = false := by
  simp [Spec.direct, Spec.typesOf, typesConflict_self, streamsEquiv_self ha.2,
    argsEquiv_self ha.1]

end Gql.Exec
