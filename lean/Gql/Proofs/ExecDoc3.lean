import Gql.Proofs.ExecDocParse3
import Gql.Proofs.ExecDocLex3
/-!
C08, stage 3: `parse` of the printed text of a document of executable and type-system definitions.
-/
namespace Gql.Syntax
open Gql Gql.Text
open Gql.Generated

/-- The first token of a definition: `{` for a shorthand query, else a description or a keyword
other than `implements`. -/
def GoodHead (short : Bool) (k : KV) : Prop :=
  (short = true ∧ k.1 = .braceL) ∨
  (short = false ∧ (k.1 = .string ∨ k.1 = .blockString ∨ (k.1 = .name ∧ k.2 ≠ some (S "implements"))))

theorem goodHead_desc_kw (d : Desc) (kw : List Nat) (hkw : kw ≠ S "implements") (rest : List KV) :
    ∃ k ks, Exec.descKvs d ++ ((.name, some kw) :: rest) = k :: ks ∧ GoodHead false k := by
  rcases descKvs_cases d with h | ⟨k, h, hk⟩
  · rw [h]; exact ⟨_, _, rfl, Or.inr ⟨rfl, Or.inr (Or.inr ⟨rfl, by simpa using hkw⟩)⟩⟩
  · rw [h]
    refine ⟨k, _, rfl, Or.inr ⟨rfl, ?_⟩⟩
    rcases hk with hk | hk
    · exact Or.inl hk
    · exact Or.inr (Or.inl hk)

theorem tdefKw_ne (d : TDef) : tdefKw d ≠ S "implements" := by
  cases d with
  | object iface => cases iface <;> (simp only [tdefKw, Exec.objKw]; decide)
  | _ => simp only [tdefKw] <;> decide

theorem gdefKvs_head (fa dd : Bool) (d : GDef) (h : Exec.gdefWf fa dd d) :
    ∃ k ks, Exec.gdefKvs d = k :: ks ∧ GoodHead (Exec.isShortG d) k := by
  cases d with
  | t d =>
    obtain ⟨rest, hsh⟩ := tdefKvs_shape d
    simp only [Exec.gdefKvs, Exec.isShortG, hsh]
    exact goodHead_desc_kw _ _ (tdefKw_ne d) _
  | e d =>
    simp only [Exec.gdefKvs, Exec.isShortG, Exec.edefKvs]
    exact ⟨_, _, rfl, Or.inr ⟨rfl, Or.inr (Or.inr ⟨rfl, by decide⟩)⟩⟩
  | x d =>
    cases d with
    | frag desc nm vds tc ds ss =>
      simp only [Exec.gdefKvs, Exec.isShortG, Exec.xdefKvs, List.append_assoc, List.cons_append]
      exact goodHead_desc_kw _ _ (by decide) _
    | op desc ot nm vds ds ss =>
      obtain ⟨_, hot, _⟩ := h
      simp only [Exec.gdefKvs, Exec.xdefKvs]
      by_cases hs : desc = none ∧ ot = S "query" ∧ nm = [] ∧ vds.isEmpty = true ∧ ds.isEmpty = true
      · rw [if_pos hs]
        have : Exec.isShortG (.x (.op desc ot nm vds ds ss)) = true := (isShortG_iff _ _ _ _ _ _).mpr hs
        rw [this]
        exact ⟨_, _, rfl, Or.inl ⟨rfl, rfl⟩⟩
      · rw [if_neg hs]
        have : Exec.isShortG (.x (.op desc ot nm vds ds ss)) = false := by
          cases hh : Exec.isShortG (.x (.op desc ot nm vds ds ss)) with
          | false => rfl
          | true => exact absurd ((isShortG_iff _ _ _ _ _ _).mp hh) hs
        rw [this]
        simp only [List.append_assoc, List.cons_append]
        refine goodHead_desc_kw _ _ ?_ _
        rcases hot with rfl | rfl | rfl <;> decide

theorem defNext_eof (a l cc : Nat) : DefNext (.eof a l cc) :=
  ⟨Or.inl rfl, fun c hc => by simp [PSat, eofToken] at hc⟩

theorem defNext_of_head (toks : List Token) (r : Stream) (k : KV) (ks : List KV)
    (hkv : toks.map Token.kv = k :: ks)
    (h : k.1 = .string ∨ k.1 = .blockString ∨ (k.1 = .name ∧ k.2 ≠ some (S "implements"))) :
    DefNext (feed toks r) := by
  constructor
  · rw [headKind_feed toks _ r hkv]
    simp only [firstK]
    rcases h with h | h | h
    · exact Or.inr (Or.inl h)
    · exact Or.inr (Or.inr (Or.inl h))
    · exact Or.inr (Or.inr (Or.inr h.1))
  · refine notKw_feed "implements" toks _ r hkv (fun h0 => by cases h0) ?_
    intro k' ks' h0 hk'
    obtain ⟨rfl, _⟩ := List.cons.inj h0
    rcases h with h | h | h
    · rw [h] at hk'; cases hk'
    · rw [h] at hk'; cases hk'
    · exact h.2

section
variable (cfg : Cfg) (hm : cfg.maxTokens = none)
include hm

/-- `parse_definition` on one definition of a printed document, possibly with the `query` keyword
the printer adds to a shorthand query. -/
theorem parseGDef_ok (n : Nat) (d : GDef) (pre : Bool) (h : Exec.gdefWf cfg.fragArgs cfg.dirOnDir d)
    (hpre : pre = true → Exec.isShortG d = true) (toks : List Token) (r : Stream) (cnt : Nat)
    (hn : ((if pre then [((TokKind.name, some (S "query")) : KV)] else []) ++ Exec.gdefKvs d).length < n)
    (hkv : toks.map Token.kv = (if pre then [((TokKind.name, some (S "query")) : KV)] else []) ++ Exec.gdefKvs d)
    (hne : NonEof toks) (hr : r.Ready) (hnx : Exec.endsBlock d = false → DefNext r) :
    ∃ c', parseDefinition cfg n (PSat cnt (feed toks r)) =
      .ok (Exec.gdefAst cfg.fragArgs cfg.dirOnDir d, PSat c' r) := by
  cases pre with
  | false =>
    simp only [Bool.false_eq_true, ↓reduceIte, List.nil_append] at hkv hn
    cases d with
    | x d => exact parseXDef_ok cfg hm n d h toks r cnt hn hkv hne hr
    | t d => exact parseTDef_ok cfg hm n d h toks r cnt hn hkv hne hr hnx
    | e d => exact parseEDef_ok cfg hm n d h toks r cnt hn hkv hne hr hnx
  | true =>
    have hs := hpre rfl
    cases d with
    | t d => simp [Exec.isShortG] at hs
    | e d => simp [Exec.isShortG] at hs
    | x d =>
      cases d with
      | frag => simp [Exec.isShortG] at hs
      | op desc ot nm vds ds ss =>
        have hsc := (isShortG_iff _ _ _ _ _ _).mp hs
        obtain ⟨rfl, rfl, rfl, hv, hd⟩ := hsc
        have hv' : vds = [] := by cases vds <;> simp_all
        have hd' : ds = [] := by cases ds <;> simp_all
        subst hv' hd'
        simp only [↓reduceIte, Exec.gdefKvs, Exec.xdefKvs, List.isEmpty_nil, and_self, List.cons_append,
          List.nil_append] at hkv hn
        obtain ⟨c', hp⟩ := parseXOp_long_ok cfg hm n none (S "query") [] [] [] ss cfg.fragArgs h toks r cnt
          (by simpa [Exec.descKvs, Exec.varDefsKvs, Exec.dirsKvs] using hn)
          (by simpa [Exec.descKvs, Exec.varDefsKvs, Exec.dirsKvs] using hkv) hne hr
        refine ⟨c', ?_⟩
        rw [List.map_eq_cons_iff] at hkv
        obtain ⟨t0, ts, rfl, ht0, _⟩ := hkv
        obtain ⟨m1, m2⟩ := methodFor_ts_op (S "query") (Or.inl rfl)
        rw [parseDefinition_kw cfg n _ (S "query") "operation_definition" (by simp [feed, (tok_of_kv ht0).1])
          (by simp [feed, (tok_of_kv ht0).2]) m1 m2, dd_op]
        exact hp

end


theorem gdefsKvs_length_le (fa dd : Bool) (defs : List GDef) (h : Exec.gdefsWf fa dd defs) :
    ∀ pb, defs.length ≤ (Exec.gdefsKvs pb defs).length := by
  induction defs with
  | nil => intro pb; simp [Exec.gdefsKvs]
  | cons d r ih =>
    intro pb
    obtain ⟨k, ks, hk, _⟩ := gdefKvs_head fa dd d (h d (by simp))
    have := ih (fun x hx => h x (by simp [hx])) (Exec.endsBlock d)
    simp only [Exec.gdefsKvs, hk, List.length_append, List.length_cons]
    omega

/-- What follows a definition that does not end with a block, in a printed document. -/
theorem defNext_rest (fa dd : Bool) (rest : List GDef) (h : Exec.gdefsWf fa dd rest) (ts : List Token)
    (a l cc : Nat) (hkv : ts.map Token.kv = Exec.gdefsKvs false rest) : DefNext (feed ts (.eof a l cc)) := by
  cases rest with
  | nil =>
    simp only [Exec.gdefsKvs, List.map_eq_nil_iff] at hkv
    subst hkv
    exact defNext_eof a l cc
  | cons d2 r2 =>
    obtain ⟨k, ks, hk, hg⟩ := gdefKvs_head fa dd d2 (h d2 (by simp))
    simp only [Exec.gdefsKvs, Bool.not_false, Bool.and_true] at hkv
    cases hs : Exec.isShortG d2 with
    | true =>
      rw [hs] at hkv
      simp only [↓reduceIte, List.cons_append, List.nil_append] at hkv
      exact defNext_of_head ts _ _ _ hkv (Or.inr (Or.inr ⟨rfl, by decide⟩))
    | false =>
      rw [hs] at hkv hg
      simp only [Bool.false_eq_true, ↓reduceIte, List.nil_append, hk, List.cons_append] at hkv
      rcases hg with ⟨h0, _⟩ | ⟨_, hg⟩
      · cases h0
      · exact defNext_of_head ts _ _ _ hkv hg

section
variable (cfg : Cfg) (hm : cfg.maxTokens = none)
include hm

theorem gdefsLoop_ok (defs : List GDef) (h : Exec.gdefsWf cfg.fragArgs cfg.dirOnDir defs) :
    ∀ (pb : Bool) (n m : Nat) (toks : List Token) (a l cc : Nat) (cnt : Nat) (acc : List Ast),
    (Exec.gdefsKvs pb defs).length < n → defs.length < m →
    toks.map Token.kv = Exec.gdefsKvs pb defs → NonEof toks →
    ∃ c', untilClose cfg .eof (parseDefinition cfg n) m acc (PSat cnt (feed toks (.eof a l cc))) =
      .ok (acc ++ defs.map (Exec.gdefAst cfg.fragArgs cfg.dirOnDir), PSat c' (.eof a l cc)) := by
  induction defs with
  | nil =>
    intro pb n m toks a l cc cnt acc _ hmm hkv _
    obtain ⟨m, rfl⟩ : ∃ m', m = m' + 1 := ⟨m - 1, by simp at hmm; omega⟩
    simp only [Exec.gdefsKvs, List.map_eq_nil_iff] at hkv
    subst hkv
    refine ⟨cnt, ?_⟩
    simp [untilClose, feed, bind_eq, expectOptionalToken, P.cur, PSat, eofToken, advanceLexer, pure_eq']
  | cons d rest ih =>
    intro pb n m toks a l cc cnt acc hn hmm hkv hne
    obtain ⟨m, rfl⟩ : ∃ m', m = m' + 1 := ⟨m - 1, by simp at hmm; omega⟩
    have hwf := h d (by simp)
    have hwfr : Exec.gdefsWf cfg.fragArgs cfg.dirOnDir rest := fun x hx => h x (by simp [hx])
    simp only [Exec.gdefsKvs] at hkv hn
    rw [List.map_eq_append_iff] at hkv
    obtain ⟨td, ts', rfl, hkd, hkr⟩ := hkv
    obtain ⟨k0, ks0, hk0, _⟩ := gdefKvs_head cfg.fragArgs cfg.dirOnDir d hwf
    have hhead : ∃ t0 td', td = t0 :: td' := by
      cases td with
      | nil => simp [hk0] at hkd
      | cons t0 td' => exact ⟨t0, td', rfl⟩
    obtain ⟨t0, td', rfl⟩ := hhead
    have ht0 : t0.kind ≠ .eof := hne t0 (by simp)
    have hready : (feed ts' (.eof a l cc)).Ready := feed_ready _ _ hne.append_right (by simp [Stream.Ready])
    simp only [List.length_append] at hn
    obtain ⟨c1, h1⟩ := parseGDef_ok cfg hm n d (Exec.isShortG d && !pb) hwf
      (by intro hp; simp only [Bool.and_eq_true] at hp; exact hp.1) (t0 :: td') (feed ts' (.eof a l cc)) cnt
      (by simp only [List.length_append]; omega) hkd hne.append_left hready
      (by intro he; rw [he] at hkr; exact defNext_rest cfg.fragArgs cfg.dirOnDir rest hwfr ts' a l cc hkr)
    obtain ⟨c2, h2⟩ := ih hwfr (Exec.endsBlock d) n m ts' a l cc c1
      (acc ++ [Exec.gdefAst cfg.fragArgs cfg.dirOnDir d]) (by omega) (by simp at hmm; omega) hkr hne.append_right
    have hno : expectOptionalToken cfg .eof (PSat cnt (feed (t0 :: td' ++ ts') (.eof a l cc))) =
        .ok (false, PSat cnt (feed (t0 :: td' ++ ts') (.eof a l cc))) :=
      expectOptionalToken_no cfg .eof _ (by simpa [feed] using ht0)
    refine ⟨c2, ?_⟩
    rw [feed_append] at hno ⊢
    simp only [untilClose, bind_eq, hno, Bool.false_eq_true, ↓reduceIte, h1, h2]
    simp

/-- **Round trip for documents of executable and type-system definitions (stage 3) at the source level.** -/
theorem parseSource_gdoc_print (w : Widths) (hw : 4 ≤ w.object)
    (hT : tableOK Generated.escapeTable = true) (hC : tableComplete Generated.escapeTable = true)
    (defs : List GDef) (hdne : defs ≠ []) (hwf : Exec.gdefsWf cfg.fragArgs cfg.dirOnDir defs) :
    parseSource .document cfg (Exec.printGDoc w defs) = .ok (Exec.gdocAst cfg.fragArgs cfg.dirOnDir defs) := by
  obtain ⟨tks, e, hall, hkv, hek, hne0⟩ :=
    lexAll_of_lexes (lexes_gdoc w hw hT hC cfg.fragArgs cfg.dirOnDir defs hwf)
  have hne : NonEof tks := hne0
  have hstream : streamOf (Exec.printGDoc w defs) = feed tks (.eof e.start e.line e.column) := by
    rw [streamOf_of_lexAll _ _ hall, toStream_feed tks e hne hek]
  have hlen : tks.length = (Exec.gdefsKvs true defs).length := by rw [← hkv]; simp
  obtain ⟨d, rest, rfl⟩ := List.exists_cons_of_ne_nil hdne
  have hwfd := hwf d (by simp)
  have hwfr : Exec.gdefsWf cfg.fragArgs cfg.dirOnDir rest := fun x hx => hwf x (by simp [hx])
  simp only [Exec.gdefsKvs, Bool.not_true, Bool.and_false, Bool.false_eq_true, ↓reduceIte, List.nil_append] at hkv hlen
  rw [List.map_eq_append_iff] at hkv
  obtain ⟨td, ts', rfl, hkd, hkr⟩ := hkv
  have hfuel : parseFuel (feed (td ++ ts') (.eof e.start e.line e.column)) = (td ++ ts').length + 3 := by
    simp [parseFuel, feed_length]
  have hready : (feed ts' (.eof e.start e.line e.column)).Ready :=
    feed_ready _ _ hne.append_right (by simp [Stream.Ready])
  have hreadyAll : (feed (td ++ ts') (.eof e.start e.line e.column)).Ready :=
    feed_ready _ _ hne (by simp [Stream.Ready])
  simp only [List.length_append] at hlen
  obtain ⟨c0, h0⟩ := advance_PSat cfg hm sofToken (feed (td ++ ts') (.eof e.start e.line e.column)) 0
    (by decide) hreadyAll
  obtain ⟨c1, h1⟩ := parseGDef_ok cfg hm ((td ++ ts').length + 3) d false hwfd (by intro h; cases h) td
    (feed ts' (.eof e.start e.line e.column)) c0
    (by simp only [Bool.false_eq_true, ↓reduceIte, List.nil_append, List.length_append]; omega)
    (by simpa using hkd) hne.append_left hready
    (by intro he; rw [he] at hkr; exact defNext_rest cfg.fragArgs cfg.dirOnDir rest hwfr ts' _ _ _ hkr)
  have hl := gdefsKvs_length_le cfg.fragArgs cfg.dirOnDir rest hwfr (Exec.endsBlock d)
  obtain ⟨c2, h2⟩ := gdefsLoop_ok cfg hm rest hwfr (Exec.endsBlock d) ((td ++ ts').length + 3)
    ((td ++ ts').length + 3) ts' e.start e.line e.column c1 [Exec.gdefAst cfg.fragArgs cfg.dirOnDir d]
    (by simp only [List.length_append]; omega) (by simp only [List.length_append]; omega) hkr hne.append_right
  have hsof : expectToken cfg .sof (initState (feed (td ++ ts') (.eof e.start e.line e.column))) =
      .ok (sofToken, PSat c0 (feed (td ++ ts') (.eof e.start e.line e.column))) := by
    simp only [expectToken, bind_eq, P.cur, initState, sofToken, ↓reduceIte, pure_eq']
    simp only [sofToken] at h0
    rw [h0]
  unfold parseSource parseStream parseStreamWith
  simp only [show (Entry.document = Entry.schemaCoordinate) = False by simp, ↓reduceIte, hstream, runEntry, hfuel]
  rw [feed_append] at hsof ⊢
  simp only [parseDocument, parseMany, bind_eq, hsof, h1, h2, pure_eq', mk_docNode]
  simp [Exec.gdocAst]

end

end Gql.Syntax
