import Gql.Proofs.ValidationParallel
/-!
Lemmas for C12-4 (`limit_prefix`): the run with `max_errors = n` and the run without limit are in
lock-step until the (n+1)-th `on_error`; from then on the limited run has stopped with exactly `n`
errors stored and the unlimited one only appends.
-/
namespace Gql.Validation
variable {τ σ ε : Type}

def SinkOK (n : Nat) (snk : Sink ε) : Prop := snk.aborted = false ∧ snk.errs.length ≤ n

/-- the limited sink `s1` has aborted holding `n` errors; the unlimited `s2` holds those and more -/
def SinkAB (n : Nat) (s1 s2 : Sink ε) : Prop :=
  s1.aborted = true ∧ s1.errs.length = n ∧ s2.aborted = false ∧ ∃ rest, rest ≠ [] ∧ s2.errs = s1.errs ++ rest

theorem SinkAB.grow {n : Nat} {s1 s2 : Sink ε} (h : SinkAB n s1 s2) (es : List ε) :
    SinkAB n s1 ⟨s2.errs ++ es, false⟩ := by
  obtain ⟨a, b, _, rest, hr, he⟩ := h
  refine ⟨a, b, rfl, rest ++ es, ?_, ?_⟩
  · intro h0; exact hr (List.append_eq_nil_iff.mp h0).1
  · simp [he, List.append_assoc]

theorem Sink.reportAll_aborted (max : Option Nat) (snk : Sink ε) (es : List ε) (h : snk.aborted = true) :
    snk.reportAll max es = snk := by
  induction es with
  | nil => rfl
  | cons e es ih =>
    simp only [Sink.reportAll, List.foldl_cons] at *
    have : Sink.report max snk e = snk := by simp [Sink.report, h]
    rw [this]; exact ih

theorem Sink.reportAll_some (n : Nat) (snk : Sink ε) (es : List ε) (h : SinkOK n snk) :
    (snk.reportAll (some n) es = ⟨snk.errs ++ es, false⟩ ∧ SinkOK n (snk.reportAll (some n) es)) ∨
    SinkAB n (snk.reportAll (some n) es) ⟨snk.errs ++ es, false⟩ := by
  induction es generalizing snk with
  | nil =>
    left
    obtain ⟨ha, hl⟩ := h
    cases snk
    simp_all [Sink.reportAll, SinkOK]
  | cons e es ih =>
    obtain ⟨ha, hl⟩ := h
    by_cases hfull : n ≤ snk.errs.length
    · right
      have hrep : Sink.report (some n) snk e = { snk with aborted := true } := by
        simp [Sink.report, ha, hfull]
      have : snk.reportAll (some n) (e :: es) = { snk with aborted := true } := by
        simp only [Sink.reportAll, List.foldl_cons, hrep]
        exact Sink.reportAll_aborted _ _ _ rfl
      rw [this]
      exact ⟨rfl, by simp; omega, rfl, e :: es, by simp, rfl⟩
    · have hrep : Sink.report (some n) snk e = ⟨snk.errs ++ [e], false⟩ := by
        cases snk; simp_all [Sink.report]
      have hstep : snk.reportAll (some n) (e :: es) = (⟨snk.errs ++ [e], false⟩ : Sink ε).reportAll (some n) es := by
        simp only [Sink.reportAll, List.foldl_cons, hrep]
      rw [hstep]
      have hok : SinkOK n (⟨snk.errs ++ [e], false⟩ : Sink ε) := ⟨rfl, by simp; omega⟩
      rcases ih _ hok with ⟨h1, h2⟩ | h3
      · left
        refine ⟨?_, h2⟩
        rw [h1]; simp [List.append_assoc]
      · right
        simpa [List.append_assoc] using h3

theorem memberLoop_aborted (max : Option Nat) (f : Member τ σ ε → Member τ σ ε × List ε) (ms : List (Member τ σ ε))
    (snk : Sink ε) (h : snk.aborted = true) : memberLoop max f ms snk = (ms, snk) := by
  cases ms with
  | nil => rfl
  | cons m ms => simp [memberLoop, h]

/-- The member loop with and without limit. -/
theorem memberLoop_sim (n : Nat) (f : Member τ σ ε → Member τ σ ε × List ε) (ms : List (Member τ σ ε)) (snk : Sink ε)
    (h : SinkOK n snk) :
    (memberLoop (some n) f ms snk = memberLoop none f ms snk ∧ SinkOK n (memberLoop (some n) f ms snk).2) ∨
    SinkAB n (memberLoop (some n) f ms snk).2 (memberLoop none f ms snk).2 := by
  induction ms generalizing snk with
  | nil => left; exact ⟨rfl, h⟩
  | cons m ms ih =>
    have ha := h.1
    rw [memberLoop, memberLoop]
    simp only [ha, Bool.false_eq_true, if_false]
    rw [Sink.reportAll_none snk _ ha]
    rcases Sink.reportAll_some n snk (f m).2 h with ⟨h1, h2⟩ | h3
    · rw [h1] at h2 ⊢
      rcases ih _ h2 with ⟨h4, h5⟩ | h6
      · left; rw [h4]; exact ⟨rfl, by rw [← h4]; exact h5⟩
      · right; exact h6
    · right
      rw [memberLoop_aborted _ _ _ _ h3.1]
      rw [memberLoop_none _ _ _ rfl]
      exact h3.grow _

abbrev Vl (D : Driver τ) (n : Nat) : V0 (TI τ × PState τ σ ε) := tiVisitor D (parallel (some n))
abbrev Vu (D : Driver τ) : V0 (TI τ × PState τ σ ε) := tiVisitor D (parallel none)

theorem par_hEnter_eq (m1 m2 : Option Nat) (ps : PState τ σ ε) (k : String) :
    (parallel m1).hEnter ps k = (parallel m2).hEnter ps k := rfl
theorem par_hLeave_eq (m1 m2 : Option Nat) (ps : PState τ σ ε) (k : String) :
    (parallel m1).hLeave ps k = (parallel m2).hLeave ps k := rfl

theorem parallel_enter_eq (max : Option Nat) (ps : PState τ σ ε) (ti : TI τ) (i : Info) :
    (parallel max).enter ps ti i =
      (if (memberLoop max (Member.enter ti i) ps.members ps.sink).2.aborted then Action.brk else Action.idle,
        ⟨(memberLoop max (Member.enter ti i) ps.members ps.sink).1, (memberLoop max (Member.enter ti i) ps.members ps.sink).2⟩) := rfl

theorem parallel_leave_eq (max : Option Nat) (ps : PState τ σ ε) (ti : TI τ) (i : Info) :
    (parallel max).leave ps ti i =
      (if (memberLoop max (Member.leave ti i) ps.members ps.sink).2.aborted then Action.brk else Action.idle,
        ⟨(memberLoop max (Member.leave ti i) ps.members ps.sink).1, (memberLoop max (Member.leave ti i) ps.members ps.sink).2⟩) := rfl

/-- enter step, limited vs unlimited -/
theorem enter_sim (D : Driver τ) (n : Nat) (s : TI τ × PState τ σ ε) (i : Info) (h : SinkOK n s.2.sink) :
    ((Vl D n).enter s i = (Vu D).enter s i ∧ ((Vl D n).enter s i).1 = Action.idle ∧ SinkOK n ((Vl D n).enter s i).2.2.sink) ∨
    (((Vl D n).enter s i).1 = Action.brk ∧ ((Vu D).enter s i).1 = Action.idle ∧
      SinkAB n ((Vl D n).enter s i).2.2.sink ((Vu D).enter s i).2.2.sink) := by
  obtain ⟨ti, ms, snk⟩ := s
  cases hc : (parallel (τ := τ) (σ := σ) (ε := ε) none).hEnter ⟨ms, snk⟩ i.kind with
  | true =>
    have hc' : (parallel (τ := τ) (σ := σ) (ε := ε) (some n)).hEnter ⟨ms, snk⟩ i.kind = true := hc
    simp only [Vl, Vu]
    have hu := memberLoop_none (Member.enter (D.enter ti i) i) ms snk h.1
    have eU : (parallel (τ := τ) (σ := σ) (ε := ε) none).enter ⟨ms, snk⟩ (D.enter ti i) i =
        (Action.idle, ⟨(memberLoop none (Member.enter (D.enter ti i) i) ms snk).1, (memberLoop none (Member.enter (D.enter ti i) i) ms snk).2⟩) := by
      rw [parallel_enter_eq]; simp [hu]
    rcases memberLoop_sim n (Member.enter (D.enter ti i) i) ms snk h with ⟨h1, h2⟩ | h3
    · left
      have eL : (parallel (τ := τ) (σ := σ) (ε := ε) (some n)).enter ⟨ms, snk⟩ (D.enter ti i) i =
          (Action.idle, ⟨(memberLoop none (Member.enter (D.enter ti i) i) ms snk).1, (memberLoop none (Member.enter (D.enter ti i) i) ms snk).2⟩) := by
        rw [parallel_enter_eq]; simp only; rw [h1]; simp [hu]
      rw [tiVisitor_enter_pos D _ _ _ hc, tiVisitor_enter_pos D _ _ _ hc']
      dsimp only
      rw [eL, eU]
      rw [h1] at h2
      exact ⟨rfl, rfl, h2⟩
    · right
      have eL : (parallel (τ := τ) (σ := σ) (ε := ε) (some n)).enter ⟨ms, snk⟩ (D.enter ti i) i =
          (Action.brk, ⟨(memberLoop (some n) (Member.enter (D.enter ti i) i) ms snk).1, (memberLoop (some n) (Member.enter (D.enter ti i) i) ms snk).2⟩) := by
        rw [parallel_enter_eq]; simp [h3.1]
      rw [tiVisitor_enter_pos D _ _ _ hc, tiVisitor_enter_pos D _ _ _ hc']
      dsimp only
      rw [eL, eU]
      exact ⟨rfl, rfl, h3⟩
  | false =>
    have hc' : (parallel (τ := τ) (σ := σ) (ε := ε) (some n)).hEnter ⟨ms, snk⟩ i.kind = false := hc
    left
    simp only [Vl, Vu]
    rw [tiVisitor_enter_neg D _ _ _ hc, tiVisitor_enter_neg D _ _ _ hc']
    exact ⟨rfl, rfl, h⟩

/-- leave step, limited vs unlimited -/
theorem leave_sim (D : Driver τ) (n : Nat) (s : TI τ × PState τ σ ε) (i : Info) (h : SinkOK n s.2.sink) :
    ((Vl D n).leave s i = (Vu D).leave s i ∧ ((Vl D n).leave s i).1 = Action.idle ∧ SinkOK n ((Vl D n).leave s i).2.2.sink) ∨
    (((Vl D n).leave s i).1 = Action.brk ∧
      SinkAB n ((Vl D n).leave s i).2.2.sink ((Vu D).leave s i).2.2.sink) := by
  obtain ⟨ti, ms, snk⟩ := s
  cases hc : (parallel (τ := τ) (σ := σ) (ε := ε) none).hLeave ⟨ms, snk⟩ i.kind with
  | true =>
    have hc' : (parallel (τ := τ) (σ := σ) (ε := ε) (some n)).hLeave ⟨ms, snk⟩ i.kind = true := hc
    simp only [Vl, Vu]
    have hu := memberLoop_none (Member.leave ti i) ms snk h.1
    rcases memberLoop_sim n (Member.leave ti i) ms snk h with ⟨h1, h2⟩ | h3
    · left
      have eL : (parallel (τ := τ) (σ := σ) (ε := ε) (some n)).leave ⟨ms, snk⟩ ti i =
          (parallel (τ := τ) (σ := σ) (ε := ε) none).leave ⟨ms, snk⟩ ti i := by
        rw [parallel_leave_eq, parallel_leave_eq]; simp only; rw [h1]
      have eA : ((parallel (τ := τ) (σ := σ) (ε := ε) none).leave ⟨ms, snk⟩ ti i).1 = Action.idle := by
        rw [parallel_leave_eq]; simp [hu]
      rw [tiVisitor_leave_pos D _ _ _ hc, tiVisitor_leave_pos D _ _ _ hc']
      dsimp only
      rw [eL]
      refine ⟨rfl, eA, ?_⟩
      rw [parallel_leave_eq]; simp only; rw [← h1]; exact h2
    · right
      rw [tiVisitor_leave_pos D _ _ _ hc, tiVisitor_leave_pos D _ _ _ hc']
      dsimp only
      rw [parallel_leave_eq, parallel_leave_eq]
      simp only [h3.1, if_true]
      exact ⟨trivial, h3⟩
  | false =>
    have hc' : (parallel (τ := τ) (σ := σ) (ε := ε) (some n)).hLeave ⟨ms, snk⟩ i.kind = false := hc
    left
    simp only [Vl, Vu]
    rw [tiVisitor_leave_neg D _ _ _ hc, tiVisitor_leave_neg D _ _ _ hc']
    exact ⟨rfl, rfl, h⟩

/-- the unlimited run only appends to its sink -/
theorem unl_enter_sink (D : Driver τ) (s : TI τ × PState τ σ ε) (i : Info) (h : s.2.sink.aborted = false) :
    ∃ es, ((Vu D).enter s i).2.2.sink = ⟨s.2.sink.errs ++ es, false⟩ := by
  obtain ⟨ti, ms, snk⟩ := s
  obtain ⟨es, he⟩ := par_enter_step D ti ms snk i h
  exact ⟨es, by simp only [Vu]; rw [he]⟩

theorem unl_leave_sink (D : Driver τ) (s : TI τ × PState τ σ ε) (i : Info) (h : s.2.sink.aborted = false) :
    ∃ es, ((Vu D).leave s i).2.2.sink = ⟨s.2.sink.errs ++ es, false⟩ := by
  obtain ⟨ti, ms, snk⟩ := s
  cases hc : (parallel (τ := τ) (σ := σ) (ε := ε) none).hLeave ⟨ms, snk⟩ i.kind with
  | true =>
    simp only [Vu]
    rw [tiVisitor_leave_pos D _ _ _ hc]
    dsimp only
    rw [parallel_leave_eq]
    simp only [memberLoop_none _ _ _ h]
    exact ⟨_, rfl⟩
  | false =>
    simp only [Vu]
    rw [tiVisitor_leave_neg D _ _ _ hc]
    exact ⟨[], by cases snk; simp_all⟩

theorem unl_keeps_AB (D : Driver τ) (n : Nat) (b : Sink ε) :
    (∀ t (s : TI τ × PState τ σ ε), SinkAB n b s.2.sink → SinkAB n b (run0 (Vu D) s t).1.2.sink) ∧
    (∀ ts (s : TI τ × PState τ σ ε), SinkAB n b s.2.sink → SinkAB n b (run0List (Vu D) s ts).1.2.sink) := by
  apply run0_inv (Vu D) (fun s => SinkAB n b s.2.sink)
  · intro s i h
    obtain ⟨es, he⟩ := unl_enter_sink D s i h.2.2.1
    rw [he]; exact h.grow es
  · intro s i h
    obtain ⟨es, he⟩ := unl_leave_sink D s i h.2.2.1
    rw [he]; exact h.grow es

theorem run0_node_always {σ' : Type} (v : V0 σ') (hE : ∀ s k, v.hEnter s k = true) (hL : ∀ s k, v.hLeave s k = true)
    (s : σ') (i : Info) (cs : List Tree) :
    run0 v s (.node i cs) =
      match (v.enter s i).1 with
      | .brk => ((v.enter s i).2, true)
      | .skip => ((v.enter s i).2, false)
      | .idle =>
        if (run0List v (v.enter s i).2 cs).2 then ((run0List v (v.enter s i).2 cs).1, true)
        else ((v.leave (run0List v (v.enter s i).2 cs).1 i).2, (v.leave (run0List v (v.enter s i).2 cs).1 i).1 == Action.brk) := by
  rw [run0]
  simp only [hE, hL, if_true]
  cases (v.enter s i).1 <;> rfl

/-- **Lock-step.**  From a common state whose sink has not reached the limit, either both runs end in the
same state (not stopped, limit not reached), or the limited run has stopped with exactly `n` errors which
the unlimited run's list extends by at least one. -/
theorem limit_sim (D : Driver τ) (n : Nat) :
    (∀ t (s : TI τ × PState τ σ ε), SinkOK n s.2.sink →
      (run0 (Vl D n) s t = run0 (Vu D) s t ∧ (run0 (Vl D n) s t).2 = false ∧ SinkOK n (run0 (Vl D n) s t).1.2.sink) ∨
      ((run0 (Vl D n) s t).2 = true ∧ SinkAB n (run0 (Vl D n) s t).1.2.sink (run0 (Vu D) s t).1.2.sink)) ∧
    (∀ ts (s : TI τ × PState τ σ ε), SinkOK n s.2.sink →
      (run0List (Vl D n) s ts = run0List (Vu D) s ts ∧ (run0List (Vl D n) s ts).2 = false ∧ SinkOK n (run0List (Vl D n) s ts).1.2.sink) ∨
      ((run0List (Vl D n) s ts).2 = true ∧ SinkAB n (run0List (Vl D n) s ts).1.2.sink (run0List (Vu D) s ts).1.2.sink)) := by
  apply Tree.induct
  · intro i cs ih s h
    rw [run0_node_always (Vl D n) (fun _ _ => rfl) (fun _ _ => rfl), run0_node_always (Vu D) (fun _ _ => rfl) (fun _ _ => rfl)]
    rcases enter_sim D n s i h with ⟨e1, e2, e3⟩ | ⟨e1, e2, e3⟩
    · -- same enter step, both descend
      rw [← e1, e2]
      dsimp only
      rcases ih _ e3 with ⟨c1, c2, c3⟩ | ⟨c1, c2⟩
      · rw [← c1, c2]
        simp only [Bool.false_eq_true, if_false]
        rcases leave_sim D n _ i c3 with ⟨l1, l2, l3⟩ | ⟨l1, l2⟩
        · left
          rw [← l1, l2]
          exact ⟨rfl, rfl, l3⟩
        · right
          rw [l1]
          exact ⟨rfl, l2⟩
      · right
        rw [c1]
        simp only [if_true]
        refine ⟨trivial, ?_⟩
        split
        · exact c2
        · obtain ⟨es, he⟩ := unl_leave_sink D (run0List (Vu D) ((Vl D n).enter s i).2 cs).1 i c2.2.2.1
          rw [he]; exact c2.grow es
    · -- the limit is hit inside this enter
      right
      rw [e1, e2]
      dsimp only
      refine ⟨rfl, ?_⟩
      have hk := (unl_keeps_AB D n ((Vl D n).enter s i).2.2.sink).2 cs _ e3
      split
      · exact hk
      · obtain ⟨es, he⟩ := unl_leave_sink D (run0List (Vu D) ((Vu D).enter s i).2 cs).1 i hk.2.2.1
        rw [he]; exact hk.grow es
  · intro s h
    left
    simp only [run0List]
    exact ⟨trivial, trivial, h⟩
  · intro t ts iht ihts s h
    rw [run0List, run0List]
    rcases iht s h with ⟨c1, c2, c3⟩ | ⟨c1, c2⟩
    · rw [← c1, c2]
      simp only [Bool.false_eq_true, if_false]
      exact ihts _ c3
    · right
      rw [c1]
      simp only [if_true]
      refine ⟨trivial, ?_⟩
      split
      · exact c2
      · exact (unl_keeps_AB D n _).2 ts _ c2

end Gql.Validation
