import Gql.Proofs.BlockForced
/-!
Forcedness, part 2: the dedentation of any list of lines is block-representable.
-/
namespace Gql.Text

/-- Non-blank line. -/
def NB (x : List Nat) : Prop := leadingWhiteSpace x ≠ x.length

theorem getElem?_cons_zero' {α : Type} (a : α) (l : List α) : (a :: l)[0]? = some a := rfl

theorem firstNB_none {lines : List (List Nat)} {i0 : Nat} (h : firstNB lines i0 = none) : AllBlank lines := by
  induction lines generalizing i0 with
  | nil => intro x hx; simp at hx
  | cons y rest ih =>
    by_cases hb : leadingWhiteSpace y = y.length
    · simp only [firstNB, hb, ↓reduceIte] at h
      intro x hx
      rcases List.mem_cons.mp hx with rfl | hx
      · exact hb
      · exact ih h x hx
    · simp [firstNB, hb] at h

theorem firstNB_some {lines : List (List Nat)} {i0 i : Nat} (h : firstNB lines i0 = some i) :
    ∃ (k : Nat) (x : List Nat), i = i0 + k ∧ lines[k]? = some x ∧ NB x ∧
      ∀ (k' : Nat) (y : List Nat), k' < k → lines[k']? = some y → leadingWhiteSpace y = y.length := by
  induction lines generalizing i0 with
  | nil => simp [firstNB] at h
  | cons y rest ih =>
    by_cases hb : leadingWhiteSpace y = y.length
    · simp only [firstNB, hb, ↓reduceIte] at h
      obtain ⟨k, x, hi, hk, hx, hall⟩ := ih h
      refine ⟨k + 1, x, by omega, by simpa using hk, hx, ?_⟩
      intro k' z hk' hz
      cases k' with
      | zero => simp at hz; subst hz; exact hb
      | succ k' => exact hall k' z (by omega) (by simpa using hz)
    · simp only [firstNB, hb, ↓reduceIte, Option.some.injEq] at h
      exact ⟨0, y, by omega, rfl, hb, by intro k' z hk'; omega⟩

theorem lastNB_none {lines : List (List Nat)} {i0 : Nat} (h : lastNB lines i0 = none) : AllBlank lines := by
  induction lines generalizing i0 with
  | nil => intro x hx; simp at hx
  | cons y rest ih =>
    simp only [lastNB] at h
    cases hr : lastNB rest (i0 + 1) with
    | some j => simp [hr] at h
    | none =>
      simp only [hr] at h
      by_cases hb : leadingWhiteSpace y = y.length
      · intro x hx
        rcases List.mem_cons.mp hx with rfl | hx
        · exact hb
        · exact ih hr x hx
      · simp [hb] at h

theorem lastNB_some {lines : List (List Nat)} {i0 j : Nat} (h : lastNB lines i0 = some j) :
    ∃ (k : Nat) (x : List Nat), j = i0 + k ∧ lines[k]? = some x ∧ NB x ∧
      ∀ (k' : Nat) (y : List Nat), k < k' → lines[k']? = some y → leadingWhiteSpace y = y.length := by
  induction lines generalizing i0 with
  | nil => simp [lastNB] at h
  | cons y rest ih =>
    simp only [lastNB] at h
    cases hr : lastNB rest (i0 + 1) with
    | some j' =>
      simp only [hr, Option.some.injEq] at h
      subst h
      obtain ⟨k, x, hi, hk, hx, hall⟩ := ih hr
      refine ⟨k + 1, x, by omega, by simpa using hk, hx, ?_⟩
      intro k' z hk' hz
      cases k' with
      | zero => omega
      | succ k' => exact hall k' z (by omega) (by simpa using hz)
    | none =>
      simp only [hr] at h
      by_cases hb : leadingWhiteSpace y = y.length
      · simp [hb] at h
      · simp only [hb, ↓reduceIte, Option.some.injEq] at h
        refine ⟨0, y, by omega, rfl, hb, ?_⟩
        intro k' z hk' hz
        cases k' with
        | zero => omega
        | succ k' =>
          have := lastNB_none hr
          simp at hz
          exact this z (List.mem_of_getElem? hz)

end Gql.Text

namespace Gql.Text

/-- The update of the common indent at a non-blank line with index ≠ 0. -/
def ciStep (ci : Option Nat) (n : Nat) : Option Nat :=
  match ci with
  | none => some n
  | some c => if n < c then some n else some c

theorem commonI_cons_nb (y : List Nat) (rest : List (List Nat)) (i0 : Nat) (ci : Option Nat)
    (hb : leadingWhiteSpace y ≠ y.length) (hi : i0 ≠ 0) :
    commonI (y :: rest) i0 ci = commonI rest (i0 + 1) (ciStep ci (leadingWhiteSpace y)) := by
  simp only [commonI, hb, ↓reduceIte, hi, ne_eq, not_false_eq_true]
  cases ci <;> rfl

theorem commonI_cons_nb0 (y : List Nat) (rest : List (List Nat)) (ci : Option Nat)
    (hb : leadingWhiteSpace y ≠ y.length) :
    commonI (y :: rest) 0 ci = commonI rest 1 ci := by
  simp [commonI, hb]

theorem commonI_cons_b (y : List Nat) (rest : List (List Nat)) (i0 : Nat) (ci : Option Nat)
    (hb : leadingWhiteSpace y = y.length) :
    commonI (y :: rest) i0 ci = commonI rest (i0 + 1) ci := by
  simp [commonI, hb]

/-- Specification of the common indent: a lower bound of the indentation of all non-blank
lines with index ≠ 0 (and of the initial value), attained by one of them (or the initial value). -/
theorem commonI_spec (lines : List (List Nat)) :
    ∀ (i0 : Nat) (ci : Option Nat),
      (commonI lines i0 ci = none →
        ci = none ∧ ∀ (k : Nat) (x : List Nat), lines[k]? = some x → NB x → i0 + k = 0) ∧
      (∀ c, commonI lines i0 ci = some c →
        (∀ (k : Nat) (x : List Nat), lines[k]? = some x → NB x → i0 + k ≠ 0 → c ≤ leadingWhiteSpace x) ∧
        (∀ c0, ci = some c0 → c ≤ c0) ∧
        (ci = some c ∨ ∃ (k : Nat) (x : List Nat), lines[k]? = some x ∧ NB x ∧ i0 + k ≠ 0 ∧
          leadingWhiteSpace x = c)) := by
  induction lines with
  | nil =>
    intro i0 ci
    simp only [commonI, List.getElem?_nil]
    refine ⟨fun h => ⟨h, (by intro k x hk; cases hk)⟩, ?_⟩
    intro c hc
    refine ⟨(by intro k x hk; cases hk), ?_, Or.inl hc⟩
    intro c0 hc0
    rw [hc] at hc0; cases hc0; exact Nat.le_refl _
  | cons y rest ih =>
    intro i0 ci
    by_cases hb : leadingWhiteSpace y = y.length
    · rw [commonI_cons_b y rest i0 ci hb]
      obtain ⟨ihn, ihs⟩ := ih (i0 + 1) ci
      constructor
      · intro h
        obtain ⟨h1, h2⟩ := ihn h
        refine ⟨h1, ?_⟩
        intro k x hk hx
        cases k with
        | zero => simp at hk; subst hk; exact absurd hb hx
        | succ k => have := h2 k x (by simpa using hk) hx; omega
      · intro c h
        obtain ⟨h1, h2, h3⟩ := ihs c h
        refine ⟨?_, h2, ?_⟩
        · intro k x hk hx hik
          cases k with
          | zero => simp at hk; subst hk; exact absurd hb hx
          | succ k => exact h1 k x (by simpa using hk) hx (by omega)
        · rcases h3 with h3 | ⟨k, x, hk, hx, hik, hl⟩
          · exact Or.inl h3
          · exact Or.inr ⟨k + 1, x, by simpa using hk, hx, by omega, hl⟩
    · by_cases hi : i0 = 0
      · subst hi
        rw [commonI_cons_nb0 y rest ci hb]
        obtain ⟨ihn, ihs⟩ := ih 1 ci
        constructor
        · intro h
          obtain ⟨h1, h2⟩ := ihn h
          refine ⟨h1, ?_⟩
          intro k x hk hx
          cases k with
          | zero => rfl
          | succ k => have := h2 k x (by simpa using hk) hx; omega
        · intro c h
          obtain ⟨h1, h2, h3⟩ := ihs c h
          refine ⟨?_, h2, ?_⟩
          · intro k x hk hx hik
            cases k with
            | zero => omega
            | succ k => exact h1 k x (by simpa using hk) hx (by omega)
          · rcases h3 with h3 | ⟨k, x, hk, hx, hik, hl⟩
            · exact Or.inl h3
            · exact Or.inr ⟨k + 1, x, by simpa using hk, hx, by omega, hl⟩
      · rw [commonI_cons_nb y rest i0 ci hb hi]
        obtain ⟨ihn, ihs⟩ := ih (i0 + 1) (ciStep ci (leadingWhiteSpace y))
        constructor
        · intro h
          obtain ⟨h1, _⟩ := ihn h
          cases ci <;> simp [ciStep] at h1
          split at h1 <;> cases h1
        · intro c h
          obtain ⟨h1, h2, h3⟩ := ihs c h
          have hstep : ∀ c', ciStep ci (leadingWhiteSpace y) = some c' →
              c' ≤ leadingWhiteSpace y ∧ (∀ c0, ci = some c0 → c' ≤ c0) ∧
              (c' = leadingWhiteSpace y ∨ ci = some c') := by
            intro c' hc'
            cases ci with
            | none => simp [ciStep] at hc'; subst hc'; simp
            | some c0 =>
              simp only [ciStep] at hc'
              split at hc'
              · simp at hc'; subst hc'; simp; omega
              · simp at hc'; subst hc'; simp; omega
          cases hs : ciStep ci (leadingWhiteSpace y) with
          | none => cases ci <;> simp [ciStep] at hs; split at hs <;> cases hs
          | some c' =>
            obtain ⟨hs1, hs2, hs3⟩ := hstep c' hs
            have hcc' : c ≤ c' := h2 c' hs
            refine ⟨?_, ?_, ?_⟩
            · intro k x hk hx hik
              cases k with
              | zero => simp at hk; subst hk; omega
              | succ k => exact h1 k x (by simpa using hk) hx (by omega)
            · intro c0 hc0
              have := hs2 c0 hc0; omega
            · rcases h3 with h3 | ⟨k, x, hk, hx, hik, hl⟩
              · rw [hs] at h3
                simp at h3
                subst h3
                rcases hs3 with hs3 | hs3
                · exact Or.inr ⟨0, y, rfl, hb, by omega, hs3.symm⟩
                · exact Or.inl hs3
              · exact Or.inr ⟨k + 1, x, by simpa using hk, hx, by omega, hl⟩

theorem dropIndent_getElem? (ci : Option Nat) (lines : List (List Nat)) :
    ∀ (i0 k : Nat), (dropIndent ci lines i0)[k]? =
      (lines[k]?).map (fun x => if i0 + k ≠ 0 then (match ci with | some c => x.drop c | none => []) else x) := by
  induction lines with
  | nil => intro i0 k; simp [dropIndent]
  | cons y rest ih =>
    intro i0 k
    cases k with
    | zero =>
      simp only [dropIndent, List.getElem?_cons_zero, Option.map_some, Nat.add_zero]
      by_cases hi : i0 = 0 <;> cases ci <;> simp [hi]
    | succ k =>
      simp only [dropIndent, List.getElem?_cons_succ]
      rw [ih (i0 + 1) k]
      have : i0 + 1 + k = i0 + (k + 1) := by omega
      rw [this]

end Gql.Text

namespace Gql.Text

theorem lws_le_length (x : List Nat) : leadingWhiteSpace x ≤ x.length := by
  induction x with
  | nil => simp [leadingWhiteSpace]
  | cons c r ih => simp only [leadingWhiteSpace]; split <;> simp <;> omega

theorem lws_drop (x : List Nat) : ∀ c, c ≤ leadingWhiteSpace x →
    leadingWhiteSpace (x.drop c) = leadingWhiteSpace x - c := by
  induction x with
  | nil => intro c _; simp [leadingWhiteSpace]
  | cons a r ih =>
    intro c hc
    cases c with
    | zero => simp
    | succ c =>
      by_cases ha : a = 32 ∨ a = 9
      · have : leadingWhiteSpace (a :: r) = leadingWhiteSpace r + 1 := by simp [leadingWhiteSpace, ha]
        rw [this] at hc ⊢
        simp only [List.drop_succ_cons]
        rw [ih c (by omega)]
        omega
      · have : leadingWhiteSpace (a :: r) = 0 := by simp [leadingWhiteSpace, ha]
        omega

theorem NB_drop {x : List Nat} {c : Nat} (hx : NB x) (hc : c ≤ leadingWhiteSpace x) : NB (x.drop c) := by
  unfold NB at *
  rw [lws_drop x c hc, List.length_drop]
  have := lws_le_length x
  omega

theorem NoNL_drop {x : List Nat} (c : Nat) (hx : NoNL x) : NoNL (x.drop c) :=
  fun d hd => hx d (List.mem_of_mem_drop hd)

/-! ### `splitLF` inverts `joinLines` on lines without LF -/

theorem splitLF_no10 (l : List Nat) (h : ∀ c ∈ l, c ≠ 10) : splitLF l = [l] := by
  induction l with
  | nil => rfl
  | cons a r ih =>
    have ha : a ≠ 10 := h a (by simp)
    have := ih (fun c hc => h c (by simp [hc]))
    simp [splitLF, ha, this]

theorem splitLF_append_lf (l X : List Nat) (h : ∀ c ∈ l, c ≠ 10) :
    splitLF (l ++ 10 :: X) = l :: splitLF X := by
  induction l with
  | nil => simp [splitLF]
  | cons a r ih =>
    have ha : a ≠ 10 := h a (by simp)
    have := ih (fun c hc => h c (by simp [hc]))
    simp [splitLF, ha, this]

theorem splitLF_joinLines (D : List (List Nat)) (hD : D ≠ []) (h : ∀ l ∈ D, NoNL l) :
    splitLF (joinLines D) = D := by
  induction D with
  | nil => exact absurd rfl hD
  | cons l rest ih =>
    have hl : ∀ c ∈ l, c ≠ 10 := fun c hc => (h l (by simp) c hc).1
    by_cases hr : rest = []
    · subst hr; simp [joinLines, splitLF_no10 l hl]
    · rw [joinLines_cons l rest hr]
      simp only [List.append_assoc, List.singleton_append]
      rw [splitLF_append_lf l _ hl, ih hr (fun x hx => h x (by simp [hx]))]

theorem joinLines_no13 (D : List (List Nat)) (h : ∀ l ∈ D, NoNL l) : ∀ c ∈ joinLines D, c ≠ 13 := by
  induction D with
  | nil => intro c hc; simp [joinLines] at hc
  | cons l rest ih =>
    by_cases hr : rest = []
    · subst hr; intro c hc; simp [joinLines] at hc; exact (h l (by simp) c hc).2
    · rw [joinLines_cons l rest hr]
      intro c hc
      simp at hc
      rcases hc with hc | hc | hc
      · exact (h l (by simp) c hc).2
      · subst hc; decide
      · exact ih (fun x hx => h x (by simp [hx])) c hc

end Gql.Text

namespace Gql.Text

theorem dropIndent_length (ci : Option Nat) (lines : List (List Nat)) :
    ∀ i0, (dropIndent ci lines i0).length = lines.length := by
  induction lines with
  | nil => intro i0; rfl
  | cons y rest ih => intro i0; simp [dropIndent, ih]

/-- The per-line effect of `dropIndent`. -/
def ddLine (ci : Option Nat) (idx : Nat) (x : List Nat) : List Nat :=
  if 0 + idx ≠ 0 then (match ci with | some c => x.drop c | none => []) else x

theorem ddLine_NoNL (ci : Option Nat) (idx : Nat) {x : List Nat} (hx : NoNL x) : NoNL (ddLine ci idx x) := by
  unfold ddLine
  split
  · cases ci with
    | none => exact NoNL_nil
    | some c => exact NoNL_drop c hx
  · exact hx

theorem lt_length_of_getElem? {α : Type} {l : List α} {k : Nat} {x : α} (h : l[k]? = some x) : k < l.length := by
  rcases Nat.lt_or_ge k l.length with h' | h'
  · exact h'
  · simp [List.getElem?_eq_none h'] at h

/-- The dedentation of any lines without line terminators is block-representable. -/
theorem dedent_representable (lines : List (List Nat)) (hnl : ∀ l ∈ lines, NoNL l) :
    blockRepresentable (joinLines (dedentBlockStringLines lines)) = true := by
  unfold dedentBlockStringLines
  rw [dedentScan_eq]
  simp only
  cases hf : firstNB lines 0 with
  | none =>
    have hb := firstNB_none hf
    rw [lastNB_allBlank lines hb 0]
    simp [joinLines, blockRepresentable]
  | some i =>
    obtain ⟨ki, xi, hi, hki, hxi, hbefore⟩ := firstNB_some hf
    have hi' : ki = i := by omega
    subst hi'
    cases hl : lastNB lines 0 with
    | none =>
      have hb := lastNB_none hl
      exact absurd (hb xi (List.mem_of_getElem? hki)) hxi
    | some j =>
      obtain ⟨kj, xj, hj, hkj, hxj, hafter⟩ := lastNB_some hl
      have hj' : kj = j := by omega
      subst hj'
      have hij : ki ≤ kj := by
        rcases Nat.lt_or_ge kj ki with h | h
        · exact absurd (hbefore kj xj h hkj) hxj
        · exact h
      have hjlen : kj < lines.length := lt_length_of_getElem? hkj
      generalize hci : commonI lines 0 none = ci
      obtain ⟨hcn, hcs⟩ := commonI_spec lines 0 none
      rw [hci] at hcn hcs
      -- elements of the result
      have hD : ∀ t, t < kj + 1 - ki →
          (List.take (kj + 1 - ki) (List.drop ki (dropIndent ci lines 0)))[t]? =
            (lines[ki + t]?).map (ddLine ci (ki + t)) := by
        intro t ht
        rw [List.getElem?_take, if_pos ht, List.getElem?_drop, dropIndent_getElem?]
        rfl
      have hDlen : (List.take (kj + 1 - ki) (List.drop ki (dropIndent ci lines 0))).length = kj + 1 - ki := by
        rw [List.length_take, List.length_drop, dropIndent_length]
        omega
      generalize hDdef : List.take (kj + 1 - ki) (List.drop ki (dropIndent ci lines 0)) = D at hD hDlen
      -- non-blank lines stay non-blank
      have hNB : ∀ (idx : Nat) (x : List Nat), lines[idx]? = some x → NB x → NB (ddLine ci idx x) := by
        intro idx x hx hnb
        unfold ddLine
        by_cases h0 : 0 + idx ≠ 0
        · rw [if_pos h0]
          cases hc : ci with
          | none =>
            have := (hcn hc).2 idx x hx hnb
            omega
          | some c =>
            have := (hcs c hc).1 idx x hx hnb h0
            exact NB_drop hnb this
        · rw [if_neg h0]; exact hnb
      have hDne : D ≠ [] := by
        intro h; rw [h] at hDlen; simp at hDlen; omega
      have hDnl : ∀ l ∈ D, NoNL l := by
        intro l hl
        obtain ⟨t, ht⟩ := exists_getElem?_of_mem hl
        have htl : t < kj + 1 - ki := by
          have := lt_length_of_getElem? ht; omega
        rw [hD t htl] at ht
        cases hx : lines[ki + t]? with
        | none => simp [hx] at ht
        | some x =>
          simp [hx] at ht
          rw [← ht]
          exact ddLine_NoNL ci _ (hnl x (List.mem_of_getElem? hx))
      have hhead : D.head? = some (ddLine ci ki xi) := by
        rw [List.head?_eq_getElem?, hD 0 (by omega)]
        simp [hki]
      have hlast : D.getLast? = some (ddLine ci kj xj) := by
        rw [List.getLast?_eq_getElem?, hDlen, hD (kj + 1 - ki - 1) (by omega)]
        have : ki + (kj + 1 - ki - 1) = kj := by omega
        simp [this, hkj]
      have hthird : (D.length == 1 || D.any startsUnindented) = true := by
        by_cases heq : kj = ki
        · simp [hDlen, heq]
        · have hj0 : 0 + kj ≠ 0 := by omega
          cases hc : ci with
          | none =>
            have := (hcn hc).2 kj xj hkj hxj
            omega
          | some c =>
            obtain ⟨hlow, _, hatt⟩ := hcs c hc
            rcases hatt with h | ⟨k, x, hk, hx, hk0, hlw⟩
            · cases h
            · have hik : ki ≤ k := by
                rcases Nat.lt_or_ge k ki with h | h
                · exact absurd (hbefore k x h hk) hx
                · exact h
              have hkj' : k ≤ kj := by
                rcases Nat.lt_or_ge kj k with h | h
                · exact absurd (hafter k x h hk) hx
                · exact h
              have hel : D[k - ki]? = some (x.drop c) := by
                rw [hD (k - ki) (by omega)]
                have : ki + (k - ki) = k := by omega
                rw [this, hk]
                have hk0' : k ≠ 0 := by omega
                simp only [ddLine, Nat.zero_add, ne_eq, hk0', not_false_eq_true, ↓reduceIte, Option.map_some]
                rw [hc]
              have hun : startsUnindented (x.drop c) = true := by
                rw [startsUnindented_iff]
                refine ⟨NB_drop hx (by omega), ?_⟩
                rw [lws_drop x c (by omega)]; omega
              have : D.any startsUnindented = true := by
                rw [List.any_eq_true]
                exact ⟨x.drop c, List.mem_of_getElem? hel, hun⟩
              simp [this]
      have hsplit := splitLF_joinLines D hDne hDnl
      have h13 := joinLines_no13 D hDnl
      unfold blockRepresentable
      have hc13 : (joinLines D).contains 13 = false := by
        cases hcc : (joinLines D).contains 13 with
        | false => rfl
        | true =>
          rw [List.contains_iff_mem] at hcc
          exact absurd rfl (h13 13 hcc)
      rw [hc13, hsplit]
      unfold blockRepresentableLines
      rw [hhead, hlast]
      have h1 : isBlankLine (ddLine ci ki xi) = false := by
        have := hNB ki xi hki hxi
        simp [isBlankLine, NB] at this ⊢
        exact this
      have h2 : isBlankLine (ddLine ci kj xj) = false := by
        have := hNB kj xj hkj hxj
        simp [isBlankLine, NB] at this ⊢
        exact this
      simp only [h1, h2, hthird, Bool.not_false, Bool.and_self, Bool.or_true]

/-- **Forcedness.** Every block string token value the lexer produces is block-representable. -/
theorem readBlockString_representable (body : List Nat) (st : LexState) (start : Nat) (tok : Token)
    (st' : LexState) (h : readBlockString body st start = .ok (tok, st')) :
    ∃ v, tok.value = some v ∧ BlockRepresentable v := by
  obtain ⟨lines, hv, hnl⟩ := readBlockString_lines body st start tok st' h
  exact ⟨_, hv, dedent_representable lines hnl⟩

end Gql.Text
