/-
C02 — every resolver invocation of the specification's algorithm happens at its own response
position: the paths of the call log are pairwise distinct (each field position is invoked
exactly once).
-/
import Gql.Proofs.SpecKeys

namespace Gql.Exec.Refine
open Gql.Exec

/-- the calls logged by a computation at `pos`: distinct paths, all at or below `pos`
(`strict`: properly below) -/
structure LogOk (pos : List PSeg) (strict : Bool) {α : Type} (r : Spec.R α) : Prop where
  nodup : (r.log.map (·.path)).Nodup
  under : ∀ c ∈ r.log, pos <+: c.path ∧ (strict = true → c.path ≠ pos)

theorem LogOk.pure {pos : List PSeg} {strict : Bool} {α : Type} (a : α) :
    LogOk pos strict (Spec.R.pure a) := ⟨by simp [Spec.R.pure], by simp [Spec.R.pure]⟩

theorem LogOk.fail {pos : List PSeg} {strict : Bool} {α : Type} (p : List PSeg) (k : ErrKind) :
    LogOk pos strict (Spec.R.fail p k : Spec.R α) := ⟨by simp [Spec.R.fail], by simp [Spec.R.fail]⟩

theorem LogOk.of_log {pos : List PSeg} {strict : Bool} {α β : Type} {r : Spec.R α} {r' : Spec.R β}
    (h : LogOk pos strict r) (hl : r'.log = r.log) : LogOk pos strict r' :=
  ⟨by rw [hl]; exact h.nodup, by rw [hl]; exact h.under⟩

theorem absorb_log (t : TypeRef) (r : Spec.R Json) : (Spec.absorb t r).log = r.log := by
  unfold Spec.absorb
  split
  · rfl
  · split <;> rfl

theorem prefix_snoc_inj {pos p : List PSeg} {a b : PSeg} (h1 : (pos ++ [a]) <+: p)
    (h2 : (pos ++ [b]) <+: p) : a = b := by
  obtain ⟨r1, rfl⟩ := h1
  obtain ⟨r2, h2⟩ := h2
  simp only [List.append_assoc, List.singleton_append] at h2
  have := List.append_cancel_left h2
  exact (List.cons.inj this).1.symm

theorem prefix_snoc_ne {pos p : List PSeg} {a : PSeg} (h : (pos ++ [a]) <+: p) : p ≠ pos := by
  intro heq
  subst heq
  have := List.IsPrefix.length_le h
  simp only [List.length_append, List.length_cons, List.length_nil] at this
  omega

def ChildLog (child : Spec.Child) : Prop :=
  ∀ name args t fields pos, LogOk pos true (child name args t fields pos)

theorem coerceResult_log (cx : Spec.Ctx) (pos : List PSeg) (n : Name) (l : PyLeaf) :
    (Spec.coerceResult cx pos n l).log = [] := by
  unfold Spec.coerceResult
  cases cx.ops.serialize cx.schema n l with
  | none => rfl
  | some j => cases j <;> rfl

theorem completeNull_log (t : TypeRef) (pos : List PSeg) : (Spec.completeNull t pos).log = [] := by
  unfold Spec.completeNull
  split <;> rfl

theorem executeField_logOk (cx : Spec.Ctx) (objectType : Name) (child : Spec.Child)
    (hch : ChildLog child) (pos : List PSeg) (fields : List FieldNode) :
    LogOk pos false (Spec.executeField cx objectType child pos fields) := by
  unfold Spec.executeField
  cases fields with
  | nil => exact ⟨by simp, by simp⟩
  | cons field rest =>
    simp only
    split
    · refine ⟨?_, ?_⟩ <;> simp [absorb_log, coerceResult_log]
    · cases cx.schema.getField objectType field.name with
      | none => exact ⟨by simp, by simp⟩
      | some fd =>
        simp only
        cases Spec.coerceArgumentValues cx field.args fd.args [] with
        | none => refine ⟨?_, ?_⟩ <;> simp [absorb_log, Spec.R.fail]
        | some a =>
          have hc := hch field.name a fd.type (field :: rest) pos
          refine ⟨?_, ?_⟩
          · simp only [absorb_log, List.map_cons, List.nodup_cons]
            refine ⟨?_, hc.nodup⟩
            intro hm
            obtain ⟨c, hc', hp⟩ := List.mem_map.1 hm
            exact (hc.under c hc').2 rfl hp
          · intro c hc'
            simp only [absorb_log, List.mem_cons] at hc'
            rcases hc' with rfl | hc'
            · exact ⟨List.prefix_refl _, by simp⟩
            · exact ⟨(hc.under c hc').1, by simp⟩

/-- calls of a grouped field set: distinct, each below the position of one of its keys -/
theorem executeGroups_logOk (cx : Spec.Ctx) (objectType : Name) (child : Spec.Child)
    (hch : ChildLog child) (pos : List PSeg) :
    ∀ groups : Spec.Groups, (keys groups).Nodup →
      ((Spec.executeGroups cx objectType child pos groups).log.map (·.path)).Nodup ∧
      ∀ c ∈ (Spec.executeGroups cx objectType child pos groups).log,
        ∃ k ∈ keys groups, (pos ++ [PSeg.key k]) <+: c.path
  | [], _ => by simp [Spec.executeGroups, Spec.R.pure]
  | (k, fields) :: rest, hnd => by
    have h1 := executeField_logOk cx objectType child hch (pos ++ [.key k]) fields
    simp only [keys, List.map_cons, List.nodup_cons] at hnd
    have ih := executeGroups_logOk cx objectType child hch pos rest hnd.2
    unfold Spec.executeGroups
    simp only
    split
    · exact ⟨h1.nodup, fun c hc => ⟨k, by simp [keys], (h1.under c hc).1⟩⟩
    · refine ⟨?_, ?_⟩
      · simp only [List.map_append]
        rw [List.nodup_append]
        refine ⟨h1.nodup, ih.1, ?_⟩
        intro p hp1 q hp2 heq
        subst heq
        obtain ⟨c1, hc1, rfl⟩ := List.mem_map.1 hp1
        obtain ⟨c2, hc2, hpeq⟩ := List.mem_map.1 hp2
        obtain ⟨k', hk', hpre⟩ := ih.2 c2 hc2
        have := prefix_snoc_inj (hpeq ▸ hpre) (h1.under c1 hc1).1
        cases this
        exact hnd.1 hk'
      · intro c hc
        simp only at hc
        rcases List.mem_append.1 hc with hc | hc
        · exact ⟨k, by simp [keys], (h1.under c hc).1⟩
        · obtain ⟨k', hk', hpre⟩ := ih.2 c hc
          exact ⟨k', by simp only [keys, List.map_cons, List.mem_cons]; exact Or.inr hk', hpre⟩

theorem executeSelectionSet_logOk (cx : Spec.Ctx) (objectType : Name) (sels : List Selection)
    (pos : List PSeg) (child : Spec.Child) (hch : ChildLog child) :
    LogOk pos true (Spec.executeSelectionSet cx objectType sels pos child) := by
  unfold Spec.executeSelectionSet
  cases hc : Spec.collectFields cx objectType sels with
  | crash c => exact LogOk.fail _ _
  | err k => exact LogOk.fail _ _
  | ok groups =>
    have h := executeGroups_logOk cx objectType child hch pos groups (collectFields_nodup cx _ _ _ hc)
    refine ⟨h.1, ?_⟩
    intro c hc'
    obtain ⟨k, _, hpre⟩ := h.2 c hc'
    exact ⟨List.IsPrefix.trans (List.prefix_append pos _) hpre, fun _ => prefix_snoc_ne hpre⟩

theorem completeNamed_logOk (cx : Spec.Ctx) (t : TypeRef) (fields : List FieldNode)
    (pos : List PSeg) (leaf? : Option PyLeaf) (tn : TN) (child : Spec.Child) (hch : ChildLog child) :
    LogOk pos true (Spec.completeNamed cx t fields pos leaf? tn child) := by
  unfold Spec.completeNamed
  cases t with
  | list t' nn => exact LogOk.fail _ _
  | named n nn =>
    simp only
    cases cx.schema.kind n with
    | leaf =>
      cases leaf? with
      | none => exact LogOk.fail _ _
      | some l => exact ⟨by simp [coerceResult_log], by simp [coerceResult_log]⟩
    | object => exact executeSelectionSet_logOk cx n _ pos child hch
    | abstract =>
      simp only
      cases Spec.resolveAbstractType cx.schema n tn with
      | error k => exact LogOk.fail _ _
      | ok rt => exact executeSelectionSet_logOk cx rt _ pos child hch
    | input => exact LogOk.fail _ _
    | unknown => exact LogOk.fail _ _

theorem nullChild_log : ChildLog Spec.nullChild :=
  fun _ _ t _ pos => ⟨by simp [Spec.nullChild, completeNull_log], by simp [Spec.nullChild, completeNull_log]⟩

mutual
theorem completeValue_logOk (cx : Spec.Ctx) : (d : RVal) → ∀ (t : TypeRef) (fields : List FieldNode)
    (pos : List PSeg), LogOk pos true (Spec.completeValue cx t fields pos d)
  | .raise tag none, t, fields, pos => by unfold Spec.completeValue; exact LogOk.fail _ _
  | .raise tag (some p), t, fields, pos => by unfold Spec.completeValue; exact ⟨by simp, by simp⟩
  | .null, t, fields, pos => by
    unfold Spec.completeValue
    exact ⟨by simp [completeNull_log], by simp [completeNull_log]⟩
  | .leaf l, t, fields, pos => by
    unfold Spec.completeValue
    exact completeNamed_logOk cx t fields pos _ _ _ nullChild_log
  | .obj tn f, t, fields, pos => by
    unfold Spec.completeValue
    exact completeNamed_logOk cx t fields pos _ _ _
      (fun name args t' fields' pos' => completeValue_logOk cx (f name args) t' fields' pos')
  | .list items, t, fields, pos => by
    unfold Spec.completeValue
    cases t with
    | named n nn => exact completeNamed_logOk cx _ fields pos _ _ _ nullChild_log
    | list t' nn =>
      have h := completeItems_logOk cx items t' fields pos 0
      refine ⟨h.1, ?_⟩
      intro c hc
      obtain ⟨j, _, hpre⟩ := h.2 c hc
      exact ⟨List.IsPrefix.trans (List.prefix_append pos _) hpre, fun _ => prefix_snoc_ne hpre⟩

theorem completeItems_logOk (cx : Spec.Ctx) : (items : List RVal) → ∀ (t : TypeRef)
    (fields : List FieldNode) (pos : List PSeg) (i : Nat),
    ((Spec.completeItems cx t fields pos i items).log.map (·.path)).Nodup ∧
    ∀ c ∈ (Spec.completeItems cx t fields pos i items).log,
      ∃ j, i ≤ j ∧ (pos ++ [PSeg.idx j]) <+: c.path
  | [], t, fields, pos, i => by unfold Spec.completeItems; simp [Spec.R.pure]
  | x :: xs, t, fields, pos, i => by
    have h1 := completeValue_logOk cx x t fields (pos ++ [.idx i])
    have ih := completeItems_logOk cx xs t fields pos (i + 1)
    unfold Spec.completeItems
    simp only
    split
    · refine ⟨by rw [absorb_log]; exact h1.nodup, ?_⟩
      intro c hc
      simp only [absorb_log] at hc
      exact ⟨i, Nat.le_refl _, (h1.under c hc).1⟩
    · refine ⟨?_, ?_⟩
      · simp only [absorb_log, List.map_append]
        rw [List.nodup_append]
        refine ⟨h1.nodup, ih.1, ?_⟩
        intro p hp1 q hp2 heq
        subst heq
        obtain ⟨c1, hc1, rfl⟩ := List.mem_map.1 hp1
        obtain ⟨c2, hc2, hpeq⟩ := List.mem_map.1 hp2
        obtain ⟨j, hj, hpre⟩ := ih.2 c2 hc2
        have := prefix_snoc_inj (hpeq ▸ hpre) (h1.under c1 hc1).1
        cases this
        omega
      · intro c hc
        simp only [absorb_log] at hc
        rcases List.mem_append.1 hc with hc | hc
        · exact ⟨i, Nat.le_refl _, (h1.under c hc).1⟩
        · obtain ⟨j, hj, hpre⟩ := ih.2 c hc
          exact ⟨j, by omega, hpre⟩
end

/-- request level: the call log has pairwise distinct paths -/
theorem executeRequest_log_nodup (ops : Ops) (s : Schema) (doc : Doc) (opName : Option Name)
    (vars : Vars) (root : RVal) :
    ((Spec.executeRequest ops s doc opName vars root).log.map (·.path)).Nodup := by
  unfold Spec.executeRequest
  cases Spec.getOperation doc.ops opName with
  | none => simp
  | some op =>
    simp only
    cases Spec.rootType s op.kind with
    | none => simp
    | some rt =>
      simp only
      cases hc : Spec.collectFields { ops := ops, schema := s, doc := doc, vars := vars } rt op.sels with
      | crash c => simp
      | err k => simp
      | ok groups =>
        simp only
        exact (executeGroups_logOk _ rt _
          (fun name args t fields pos => completeValue_logOk _ (root.child name args) t fields pos) []
          groups (collectFields_nodup _ _ _ _ hc)).1

end Gql.Exec.Refine
