import Gql.Types.Introspection
import Gql.Generated.IntrospectionTypes
/-! Lemmas for C18: every value produced by `introspect` conforms to the declared introspection types
(the T1 table `Gql.Generated.introspectionTable`). -/
namespace Gql.Types
open Json Spec Gql.Generated

local notation "T" => introspectionTable

/-- The declared fields of an object type of the meta-schema. -/
def rowOf (n : String) : List (Key × ITy) := (introspectionTable.objects.lookup n).getD []
def valuesOf (n : String) : List (List Nat) := (introspectionTable.enums.lookup n).getD []

theorem lookup_Schema : introspectionTable.objects.lookup "__Schema" = some (rowOf "__Schema") := by decide
theorem lookup_Type : introspectionTable.objects.lookup "__Type" = some (rowOf "__Type") := by decide
theorem lookup_Field : introspectionTable.objects.lookup "__Field" = some (rowOf "__Field") := by decide
theorem lookup_InputValue : introspectionTable.objects.lookup "__InputValue" = some (rowOf "__InputValue") := by
  decide
theorem lookup_EnumValue : introspectionTable.objects.lookup "__EnumValue" = some (rowOf "__EnumValue") := by decide
theorem lookup_Directive : introspectionTable.objects.lookup "__Directive" = some (rowOf "__Directive") := by decide
theorem lookup_TypeKind : introspectionTable.enums.lookup "__TypeKind" = some (valuesOf "__TypeKind") := by decide
theorem lookup_DirectiveLocation :
    introspectionTable.enums.lookup "__DirectiveLocation" = some (valuesOf "__DirectiveLocation") := by decide

/-- Every entry is a declared field whose value conforms to the declared type. -/
def EntriesOK (fields : List (Key × ITy)) (kvs : List (Key × Json)) : Prop :=
  ∀ kv ∈ kvs, ∃ ty, fields.lookup kv.1 = some ty ∧ Conforms T ty kv.2

theorem entriesOK_nil (fields : List (Key × ITy)) : EntriesOK fields [] := by
  intro kv h; simp at h

theorem entriesOK_cons (fields : List (Key × ITy)) (k : Key) (v : Json) (ty : ITy) (rest : List (Key × Json))
    (hl : fields.lookup k = some ty) (hc : Conforms T ty v) (hr : EntriesOK fields rest) :
    EntriesOK fields ((k, v) :: rest) := by
  intro kv h
  rcases List.mem_cons.mp h with rfl | h
  · exact ⟨ty, hl, hc⟩
  · exact hr kv h

theorem entriesOK_append (fields : List (Key × ITy)) (a b : List (Key × Json))
    (ha : EntriesOK fields a) (hb : EntriesOK fields b) : EntriesOK fields (a ++ b) := by
  intro kv h
  rcases List.mem_append.mp h with h | h
  · exact ha kv h
  · exact hb kv h

theorem entriesOK_ite (fields : List (Key × ITy)) (c : Bool) (a : List (Key × Json)) (ha : EntriesOK fields a) :
    EntriesOK fields (if c then a else []) := by
  cases c
  · exact entriesOK_nil _
  · exact ha

theorem conf_object (n : String) (kvs : List (Key × Json))
    (hl : introspectionTable.objects.lookup n = some (rowOf n)) (h : EntriesOK (rowOf n) kvs) :
    Conforms T (.named n) (.obj kvs) := by
  refine Conforms.object n (rowOf n) kvs hl ?_ ?_
  · intro kv hkv
    obtain ⟨ty, hty, _⟩ := h kv hkv
    simp [hty]
  · intro kv hkv ty hty
    obtain ⟨ty', hty', hc⟩ := h kv hkv
    rw [hty] at hty'
    cases hty'
    exact hc

/-! value-level facts -/

theorem conf_optStr (x : Option (List Nat)) : Conforms T (.named "String") (ofOptStr x) := by
  cases x with
  | none => exact Conforms.null _ rfl
  | some s => exact Conforms.string s

theorem conf_str_nn (s : List Nat) : Conforms T (.nonNull (.named "String")) (.str s) :=
  Conforms.nonNull _ _ (by simp) (Conforms.string s)

theorem conf_bool_nn (b : Bool) : Conforms T (.nonNull (.named "Boolean")) (.bool b) :=
  Conforms.nonNull _ _ (by simp) (Conforms.boolean b)

theorem conf_kind (s : List Nat) (h : s ∈ valuesOf "__TypeKind") :
    Conforms T (.nonNull (.named "__TypeKind")) (.str s) :=
  Conforms.nonNull _ _ (by simp) (Conforms.enum _ _ s lookup_TypeKind h)

theorem kindName_mem (k : Kind) : k.name ∈ valuesOf "__TypeKind" := by cases k <;> decide
theorem cLIST_mem : cLIST ∈ valuesOf "__TypeKind" := by decide
theorem cNON_NULL_mem : cNON_NULL ∈ valuesOf "__TypeKind" := by decide

/-- A non-null list of non-null items. -/
theorem conf_list_nn (t : ITy) (xs : List Json) (h : ∀ x ∈ xs, x ≠ .null ∧ Conforms T t x) :
    Conforms T (.nonNull (.list (.nonNull t))) (.arr xs) :=
  Conforms.nonNull _ _ (by simp)
    (Conforms.list _ xs fun x hx => Conforms.nonNull _ _ (h x hx).1 (h x hx).2)

theorem conf_list_opt (t : ITy) (xs : List Json) (h : ∀ x ∈ xs, x ≠ .null ∧ Conforms T t x) :
    Conforms T (.list (.nonNull t)) (.arr xs) :=
  Conforms.list _ xs fun x hx => Conforms.nonNull _ _ (h x hx).1 (h x hx).2

theorem conf_null_list (t : ITy) : Conforms T (.list t) .null := Conforms.null _ rfl

/-! type references -/

theorem refJson_ne_null (d : Nat) (r : TypeRef) : refJson d r ≠ .null := by
  cases d <;> cases r <;> simp [refJson]

theorem row_Type_kind : (rowOf "__Type").lookup .kind = some (.nonNull (.named "__TypeKind")) := by decide
theorem row_Type_name : (rowOf "__Type").lookup .name = some (.named "String") := by decide
theorem row_Type_ofType : (rowOf "__Type").lookup .ofType = some (.named "__Type") := by decide

theorem conf_refJson (r : TypeRef) : ∀ d, Conforms T (.named "__Type") (refJson d r) := by
  induction r with
  | named n k =>
    intro d
    cases d <;> simp only [refJson] <;> refine conf_object _ _ lookup_Type ?_
    · exact entriesOK_cons _ _ _ _ _ row_Type_kind (conf_kind _ (kindName_mem k))
        (entriesOK_cons _ _ _ _ _ row_Type_name (Conforms.string n) (entriesOK_nil _))
    · exact entriesOK_cons _ _ _ _ _ row_Type_kind (conf_kind _ (kindName_mem k))
        (entriesOK_cons _ _ _ _ _ row_Type_name (Conforms.string n)
          (entriesOK_cons _ _ _ _ _ row_Type_ofType (Conforms.null _ rfl) (entriesOK_nil _)))
  | list r ih =>
    intro d
    cases d <;> simp only [refJson] <;> refine conf_object _ _ lookup_Type ?_
    · exact entriesOK_cons _ _ _ _ _ row_Type_kind (conf_kind _ cLIST_mem)
        (entriesOK_cons _ _ _ _ _ row_Type_name (Conforms.null _ rfl) (entriesOK_nil _))
    · exact entriesOK_cons _ _ _ _ _ row_Type_kind (conf_kind _ cLIST_mem)
        (entriesOK_cons _ _ _ _ _ row_Type_name (Conforms.null _ rfl)
          (entriesOK_cons _ _ _ _ _ row_Type_ofType (ih _) (entriesOK_nil _)))
  | nonNull r ih =>
    intro d
    cases d <;> simp only [refJson] <;> refine conf_object _ _ lookup_Type ?_
    · exact entriesOK_cons _ _ _ _ _ row_Type_kind (conf_kind _ cNON_NULL_mem)
        (entriesOK_cons _ _ _ _ _ row_Type_name (Conforms.null _ rfl) (entriesOK_nil _))
    · exact entriesOK_cons _ _ _ _ _ row_Type_kind (conf_kind _ cNON_NULL_mem)
        (entriesOK_cons _ _ _ _ _ row_Type_name (Conforms.null _ rfl)
          (entriesOK_cons _ _ _ _ _ row_Type_ofType (ih _) (entriesOK_nil _)))

theorem conf_refJson_nn (d : Nat) (r : TypeRef) : Conforms T (.nonNull (.named "__Type")) (refJson d r) :=
  Conforms.nonNull _ _ (refJson_ne_null d r) (conf_refJson r d)

/-! input values, fields, enum values -/

section
variable {V : Type} (printV : V → List Nat)

theorem row_IV_name : (rowOf "__InputValue").lookup .name = some (.nonNull (.named "String")) := by decide
theorem row_IV_description : (rowOf "__InputValue").lookup .description = some (.named "String") := by decide
theorem row_IV_type : (rowOf "__InputValue").lookup .type = some (.nonNull (.named "__Type")) := by decide
theorem row_IV_defaultValue : (rowOf "__InputValue").lookup .defaultValue = some (.named "String") := by decide
theorem row_IV_isDeprecated :
    (rowOf "__InputValue").lookup .isDeprecated = some (.nonNull (.named "Boolean")) := by decide
theorem row_IV_deprecationReason :
    (rowOf "__InputValue").lookup .deprecationReason = some (.named "String") := by decide

theorem entriesOK_descPart (fields : List (Key × ITy)) (o : Options) (d : Option (List Nat))
    (h : fields.lookup .description = some (.named "String")) : EntriesOK fields (descPart o d) := by
  unfold descPart
  exact entriesOK_ite _ _ _ (entriesOK_cons _ _ _ _ _ h (conf_optStr d) (entriesOK_nil _))

theorem conf_ivJson (o : Options) (iv : InputValue V) :
    Conforms T (.named "__InputValue") (ivJson printV o iv) := by
  unfold ivJson
  refine conf_object _ _ lookup_InputValue ?_
  refine entriesOK_append _ _ _ (entriesOK_append _ _ _ (entriesOK_append _ _ _ ?_ ?_) ?_) ?_
  · exact entriesOK_cons _ _ _ _ _ row_IV_name (conf_str_nn _) (entriesOK_nil _)
  · exact entriesOK_descPart _ o _ row_IV_description
  · exact entriesOK_cons _ _ _ _ _ row_IV_type (conf_refJson_nn _ _)
      (entriesOK_cons _ _ _ _ _ row_IV_defaultValue (conf_optStr _) (entriesOK_nil _))
  · exact entriesOK_ite _ _ _ (entriesOK_cons _ _ _ _ _ row_IV_isDeprecated (conf_bool_nn _)
      (entriesOK_cons _ _ _ _ _ row_IV_deprecationReason (conf_optStr _) (entriesOK_nil _)))

theorem ivJson_ne_null (o : Options) (iv : InputValue V) : ivJson printV o iv ≠ .null := by simp [ivJson]

theorem conf_ivsJson_nn (o : Options) (ivs : List (InputValue V)) :
    Conforms T (.nonNull (.list (.nonNull (.named "__InputValue")))) (ivsJson printV o ivs) := by
  unfold ivsJson
  refine conf_list_nn _ _ ?_
  intro x hx
  obtain ⟨iv, _, rfl⟩ := List.mem_map.mp hx
  exact ⟨ivJson_ne_null printV o iv, conf_ivJson printV o iv⟩

theorem conf_ivsJson_opt (o : Options) (ivs : List (InputValue V)) :
    Conforms T (.list (.nonNull (.named "__InputValue"))) (ivsJson printV o ivs) := by
  unfold ivsJson
  refine conf_list_opt _ _ ?_
  intro x hx
  obtain ⟨iv, _, rfl⟩ := List.mem_map.mp hx
  exact ⟨ivJson_ne_null printV o iv, conf_ivJson printV o iv⟩

theorem row_F_name : (rowOf "__Field").lookup .name = some (.nonNull (.named "String")) := by decide
theorem row_F_description : (rowOf "__Field").lookup .description = some (.named "String") := by decide
theorem row_F_args :
    (rowOf "__Field").lookup .args = some (.nonNull (.list (.nonNull (.named "__InputValue")))) := by decide
theorem row_F_type : (rowOf "__Field").lookup .type = some (.nonNull (.named "__Type")) := by decide
theorem row_F_isDeprecated : (rowOf "__Field").lookup .isDeprecated = some (.nonNull (.named "Boolean")) := by
  decide
theorem row_F_deprecationReason : (rowOf "__Field").lookup .deprecationReason = some (.named "String") := by
  decide

theorem conf_fieldJson (o : Options) (f : Field V) : Conforms T (.named "__Field") (fieldJson printV o f) := by
  unfold fieldJson
  refine conf_object _ _ lookup_Field ?_
  refine entriesOK_append _ _ _ (entriesOK_append _ _ _ ?_ ?_) ?_
  · exact entriesOK_cons _ _ _ _ _ row_F_name (conf_str_nn _) (entriesOK_nil _)
  · exact entriesOK_descPart _ o _ row_F_description
  · exact entriesOK_cons _ _ _ _ _ row_F_args (conf_ivsJson_nn printV o f.args)
      (entriesOK_cons _ _ _ _ _ row_F_type (conf_refJson_nn _ _)
        (entriesOK_cons _ _ _ _ _ row_F_isDeprecated (conf_bool_nn _)
          (entriesOK_cons _ _ _ _ _ row_F_deprecationReason (conf_optStr _) (entriesOK_nil _))))

theorem row_EV_name : (rowOf "__EnumValue").lookup .name = some (.nonNull (.named "String")) := by decide
theorem row_EV_description : (rowOf "__EnumValue").lookup .description = some (.named "String") := by decide
theorem row_EV_isDeprecated :
    (rowOf "__EnumValue").lookup .isDeprecated = some (.nonNull (.named "Boolean")) := by decide
theorem row_EV_deprecationReason :
    (rowOf "__EnumValue").lookup .deprecationReason = some (.named "String") := by decide

theorem conf_enumValueJson (o : Options) (e : EnumValue) :
    Conforms T (.named "__EnumValue") (enumValueJson o e) := by
  unfold enumValueJson
  refine conf_object _ _ lookup_EnumValue ?_
  refine entriesOK_append _ _ _ (entriesOK_append _ _ _ ?_ ?_) ?_
  · exact entriesOK_cons _ _ _ _ _ row_EV_name (conf_str_nn _) (entriesOK_nil _)
  · exact entriesOK_descPart _ o _ row_EV_description
  · exact entriesOK_cons _ _ _ _ _ row_EV_isDeprecated (conf_bool_nn _)
      (entriesOK_cons _ _ _ _ _ row_EV_deprecationReason (conf_optStr _) (entriesOK_nil _))

/-! named types -/

theorem row_Type_description : (rowOf "__Type").lookup .description = some (.named "String") := by decide
theorem row_Type_specifiedByURL : (rowOf "__Type").lookup .specifiedByURL = some (.named "String") := by decide
theorem row_Type_isOneOf : (rowOf "__Type").lookup .isOneOf = some (.named "Boolean") := by decide
theorem row_Type_fields : (rowOf "__Type").lookup .fields = some (.list (.nonNull (.named "__Field"))) := by
  decide
theorem row_Type_inputFields :
    (rowOf "__Type").lookup .inputFields = some (.list (.nonNull (.named "__InputValue"))) := by decide
theorem row_Type_interfaces :
    (rowOf "__Type").lookup .interfaces = some (.list (.nonNull (.named "__Type"))) := by decide
theorem row_Type_enumValues :
    (rowOf "__Type").lookup .enumValues = some (.list (.nonNull (.named "__EnumValue"))) := by decide
theorem row_Type_possibleTypes :
    (rowOf "__Type").lookup .possibleTypes = some (.list (.nonNull (.named "__Type"))) := by decide

theorem conf_refs_opt (d : Nat) (rs : List TypeRef) :
    Conforms T (.list (.nonNull (.named "__Type"))) (.arr (rs.map (refJson d))) := by
  refine conf_list_opt _ _ ?_
  intro x hx
  obtain ⟨r, _, rfl⟩ := List.mem_map.mp hx
  exact ⟨refJson_ne_null d r, conf_refJson r d⟩

theorem conf_typeJson (types : List (TypeDef V)) (o : Options) (t : TypeDef V) :
    Conforms T (.named "__Type") (typeJson printV types o t) := by
  unfold typeJson
  refine conf_object _ _ lookup_Type ?_
  refine entriesOK_append _ _ _ (entriesOK_append _ _ _ (entriesOK_append _ _ _ (entriesOK_append _ _ _ ?_ ?_) ?_)
    ?_) ?_
  · exact entriesOK_cons _ _ _ _ _ row_Type_kind (conf_kind _ (kindName_mem _))
      (entriesOK_cons _ _ _ _ _ row_Type_name (Conforms.string _) (entriesOK_nil _))
  · exact entriesOK_descPart _ o _ row_Type_description
  · exact entriesOK_ite _ _ _ (entriesOK_cons _ _ _ _ _ row_Type_specifiedByURL (conf_optStr _) (entriesOK_nil _))
  · refine entriesOK_ite _ _ _ (entriesOK_cons _ _ _ _ _ row_Type_isOneOf ?_ (entriesOK_nil _))
    split
    · exact Conforms.boolean _
    · exact Conforms.null _ rfl
  · refine entriesOK_cons _ _ _ _ _ row_Type_fields ?_
      (entriesOK_cons _ _ _ _ _ row_Type_inputFields ?_
        (entriesOK_cons _ _ _ _ _ row_Type_interfaces ?_
          (entriesOK_cons _ _ _ _ _ row_Type_enumValues ?_
            (entriesOK_cons _ _ _ _ _ row_Type_possibleTypes ?_ (entriesOK_nil _)))))
    · split
      · refine conf_list_opt _ _ ?_
        intro x hx
        obtain ⟨f, _, rfl⟩ := List.mem_map.mp hx
        exact ⟨by simp [fieldJson], conf_fieldJson printV o f⟩
      · exact conf_null_list _
    · split
      · exact conf_ivsJson_opt printV o _
      · exact conf_null_list _
    · split
      · exact conf_refs_opt _ _
      · exact conf_null_list _
    · split
      · refine conf_list_opt _ _ ?_
        intro x hx
        obtain ⟨e, _, rfl⟩ := List.mem_map.mp hx
        exact ⟨by simp [enumValueJson], conf_enumValueJson o e⟩
      · exact conf_null_list _
    · split
      · exact conf_refs_opt _ _
      · split
        · exact conf_refs_opt _ _
        · exact conf_null_list _

theorem typeJson_ne_null (types : List (TypeDef V)) (o : Options) (t : TypeDef V) :
    typeJson printV types o t ≠ .null := by simp [typeJson]

/-! directives, schema -/

theorem row_D_name : (rowOf "__Directive").lookup .name = some (.nonNull (.named "String")) := by decide
theorem row_D_description : (rowOf "__Directive").lookup .description = some (.named "String") := by decide
theorem row_D_isRepeatable :
    (rowOf "__Directive").lookup .isRepeatable = some (.nonNull (.named "Boolean")) := by decide
theorem row_D_locations : (rowOf "__Directive").lookup .locations
    = some (.nonNull (.list (.nonNull (.named "__DirectiveLocation")))) := by decide
theorem row_D_args :
    (rowOf "__Directive").lookup .args = some (.nonNull (.list (.nonNull (.named "__InputValue")))) := by decide
theorem row_D_isDeprecated :
    (rowOf "__Directive").lookup .isDeprecated = some (.nonNull (.named "Boolean")) := by decide
theorem row_D_deprecationReason :
    (rowOf "__Directive").lookup .deprecationReason = some (.named "String") := by decide

theorem conf_directiveJson (o : Options) (d : Directive V)
    (hloc : ∀ l ∈ d.locations, l ∈ valuesOf "__DirectiveLocation") :
    Conforms T (.named "__Directive") (directiveJson printV o d) := by
  unfold directiveJson
  refine conf_object _ _ lookup_Directive ?_
  refine entriesOK_append _ _ _ (entriesOK_append _ _ _ (entriesOK_append _ _ _ (entriesOK_append _ _ _ ?_ ?_) ?_)
    ?_) ?_
  · exact entriesOK_cons _ _ _ _ _ row_D_name (conf_str_nn _) (entriesOK_nil _)
  · exact entriesOK_descPart _ o _ row_D_description
  · exact entriesOK_ite _ _ _ (entriesOK_cons _ _ _ _ _ row_D_isRepeatable (conf_bool_nn _) (entriesOK_nil _))
  · exact entriesOK_ite _ _ _ (entriesOK_cons _ _ _ _ _ row_D_isDeprecated (conf_bool_nn _)
      (entriesOK_cons _ _ _ _ _ row_D_deprecationReason (conf_optStr _) (entriesOK_nil _)))
  · refine entriesOK_cons _ _ _ _ _ row_D_locations ?_
      (entriesOK_cons _ _ _ _ _ row_D_args (conf_ivsJson_nn printV o d.args) (entriesOK_nil _))
    refine conf_list_nn _ _ ?_
    intro x hx
    obtain ⟨l, hl, rfl⟩ := List.mem_map.mp hx
    exact ⟨by simp, Conforms.enum _ _ l lookup_DirectiveLocation (hloc l hl)⟩

theorem row_S_description : (rowOf "__Schema").lookup .description = some (.named "String") := by decide
theorem row_S_types :
    (rowOf "__Schema").lookup .types = some (.nonNull (.list (.nonNull (.named "__Type")))) := by decide
theorem row_S_queryType : (rowOf "__Schema").lookup .queryType = some (.nonNull (.named "__Type")) := by decide
theorem row_S_mutationType : (rowOf "__Schema").lookup .mutationType = some (.named "__Type") := by decide
theorem row_S_subscriptionType : (rowOf "__Schema").lookup .subscriptionType = some (.named "__Type") := by
  decide
theorem row_S_directives :
    (rowOf "__Schema").lookup .directives = some (.nonNull (.list (.nonNull (.named "__Directive")))) := by decide

theorem conf_rootJson (r : Option (List Nat × Kind)) : Conforms T (.named "__Type") (rootJson r) := by
  cases r with
  | none => exact Conforms.null _ rfl
  | some nk =>
    obtain ⟨n, k⟩ := nk
    simp only [rootJson]
    refine conf_object _ _ lookup_Type ?_
    exact entriesOK_cons _ _ _ _ _ row_Type_name (Conforms.string n)
      (entriesOK_cons _ _ _ _ _ row_Type_kind (conf_kind _ (kindName_mem k)) (entriesOK_nil _))

/-- What a `GraphQLSchema` that executes queries guarantees beyond the shape of `Schema V`: it has a query
root, and directive locations are `DirectiveLocation` members (the constructor of `GraphQLDirective`). -/
def Introspectable (s : Schema V) : Prop :=
  s.query.isSome = true ∧ ∀ d ∈ s.directives, ∀ l ∈ d.locations, l ∈ valuesOf "__DirectiveLocation"

theorem conf_schemaJson (s : Schema V) (o : Options) (h : Introspectable s) :
    Conforms T schemaMetaFieldType (schemaJson printV s o) := by
  obtain ⟨hq, hloc⟩ := h
  unfold schemaJson schemaMetaFieldType
  refine Conforms.nonNull _ _ (by simp) (conf_object _ _ lookup_Schema ?_)
  refine entriesOK_append _ _ _ ?_ ?_
  · exact entriesOK_ite _ _ _ (entriesOK_cons _ _ _ _ _ row_S_description (conf_optStr _) (entriesOK_nil _))
  · refine entriesOK_cons _ _ _ _ _ row_S_queryType ?_
      (entriesOK_cons _ _ _ _ _ row_S_mutationType (conf_rootJson _)
        (entriesOK_cons _ _ _ _ _ row_S_subscriptionType (conf_rootJson _)
          (entriesOK_cons _ _ _ _ _ row_S_types ?_
            (entriesOK_cons _ _ _ _ _ row_S_directives ?_ (entriesOK_nil _)))))
    · refine Conforms.nonNull _ _ ?_ (conf_rootJson _)
      cases hs : s.query with
      | none => simp [hs] at hq
      | some nk => obtain ⟨n, k⟩ := nk; simp [rootJson]
    · refine conf_list_nn _ _ ?_
      intro x hx
      obtain ⟨t, _, rfl⟩ := List.mem_map.mp hx
      exact ⟨typeJson_ne_null printV _ o t, conf_typeJson printV _ o t⟩
    · refine conf_list_nn _ _ ?_
      intro x hx
      obtain ⟨d, hd, rfl⟩ := List.mem_map.mp hx
      have hd' : d ∈ s.directives := by
        unfold visibleDirectives at hd
        split at hd
        · exact hd
        · exact (List.mem_filter.mp hd).1
      exact ⟨by simp [directiveJson], conf_directiveJson printV o d (hloc d hd')⟩

theorem conf_typeLookup (s : Schema V) (o : Options) (n : List Nat) :
    Conforms T typeMetaFieldType (typeLookup printV s o n) := by
  unfold typeLookup typeMetaFieldType
  split
  · exact conf_typeJson printV _ o _
  · exact Conforms.null _ rfl

end

end Gql.Types
