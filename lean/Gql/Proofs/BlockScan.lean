import Gql.Proofs.StringRoundtrip
import Gql.Text.BlockString
/-!
Single steps of the lexer's `read_block_string` loop, stated for an opaque `body` with facts
about the characters at and after `pos`, and the induction that reads the text
`escapeTQ v ++ after ++ '"""'` produced by `print_block_string`.
-/
namespace Gql.Text

theorem slice_two (body : List Nat) (p a b : Nat) (h1 : body[p]? = some a) (h2 : body[p + 1]? = some b) :
    slice body p (p + 2) = [a, b] := by
  unfold slice
  have : p + 2 - p = 2 := by omega
  rw [this]
  have hl : p + 1 < body.length := (index_of_getElem? h2).1
  rw [List.take_add_one, List.take_add_one]
  simp [List.getElem?_drop, h1, h2]

theorem slice_three (body : List Nat) (p a b c : Nat) (h1 : body[p]? = some a)
    (h2 : body[p + 1]? = some b) (h3 : body[p + 2]? = some c) :
    slice body p (p + 3) = [a, b, c] := by
  unfold slice
  have : p + 3 - p = 3 := by omega
  rw [this, List.take_add_one, List.take_add_one, List.take_add_one]
  simp [List.getElem?_drop, h1, h2, h3]

theorem slice_two_ne (body : List Nat) (p : Nat)
    (h : ¬ (body[p]? = some 34 ∧ body[p + 1]? = some 34)) : slice body p (p + 2) ≠ [34, 34] := by
  intro hs
  apply h
  unfold slice at hs
  have : p + 2 - p = 2 := by omega
  rw [this] at hs
  have h0 := congrArg (fun l => l[0]?) hs
  have h1 := congrArg (fun l => l[1]?) hs
  simp [List.getElem?_take, List.getElem?_drop] at h0 h1
  exact ⟨h0, h1⟩

theorem slice_three_ne (body : List Nat) (p : Nat)
    (h : ¬ (body[p]? = some 34 ∧ body[p + 1]? = some 34 ∧ body[p + 2]? = some 34)) :
    slice body p (p + 3) ≠ [34, 34, 34] := by
  intro hs
  apply h
  unfold slice at hs
  have : p + 3 - p = 3 := by omega
  rw [this] at hs
  have h0 := congrArg (fun l => l[0]?) hs
  have h1 := congrArg (fun l => l[1]?) hs
  have h2 := congrArg (fun l => l[2]?) hs
  simp [List.getElem?_take, List.getElem?_drop] at h0 h1 h2
  exact ⟨h0, h1, h2⟩

/-- Closing `"""`. -/
theorem blk_close (body : List Nat) (st : LexState) (start pos cs ls : Nat) (cl : List Nat)
    (bl : List (List Nat)) (h0 : body[pos]? = some 34) (h1 : body[pos + 1]? = some 34)
    (h2 : body[pos + 2]? = some 34) :
    readBlockStringLoop body st start pos cs ls cl bl =
      .ok (mkToken st .blockString start (pos + 3)
            (some (joinLines (dedentBlockStringLines (bl ++ [cl ++ slice body cs pos])))),
           { line := st.line + ((bl ++ [cl ++ slice body cs pos]).length - 1), lineStart := ls }) := by
  obtain ⟨hlen, hidx⟩ := index_of_getElem? h0
  have hs : slice body (pos + 1) (pos + 3) = [34, 34] := slice_two body (pos + 1) 34 34 h1 h2
  rw [readBlockStringLoop]
  simp [hlen, hidx, hs]

/-- Escaped triple quote `\"""`. -/
theorem blk_esc (body : List Nat) (st : LexState) (start pos cs ls : Nat) (cl : List Nat)
    (bl : List (List Nat)) (h0 : body[pos]? = some 92) (h1 : body[pos + 1]? = some 34)
    (h2 : body[pos + 2]? = some 34) (h3 : body[pos + 3]? = some 34) :
    readBlockStringLoop body st start pos cs ls cl bl =
      readBlockStringLoop body st start (pos + 4) (pos + 1) ls (cl ++ slice body cs pos) bl := by
  obtain ⟨hlen, hidx⟩ := index_of_getElem? h0
  have hs : slice body (pos + 1) (pos + 4) = [34, 34, 34] := slice_three body (pos + 1) 34 34 34 h1 h2 h3
  rw [readBlockStringLoop]
  simp [hlen, hidx, hs]

/-- A line feed (the printer never emits CR). -/
theorem blk_lf (body : List Nat) (st : LexState) (start pos cs ls : Nat) (cl : List Nat)
    (bl : List (List Nat)) (h0 : body[pos]? = some 10) :
    readBlockStringLoop body st start pos cs ls cl bl =
      readBlockStringLoop body st start (pos + 1) (pos + 1) (pos + 1) [] (bl ++ [cl ++ slice body cs pos]) := by
  obtain ⟨hlen, hidx⟩ := index_of_getElem? h0
  rw [readBlockStringLoop]
  simp [hlen, hidx]

/-- Any other scalar value that does not start `"""` or `\"""`. -/
theorem blk_plain (body : List Nat) (st : LexState) (start pos cs ls c : Nat) (cl : List Nat)
    (bl : List (List Nat)) (h0 : body[pos]? = some c) (hs : isScalar c = true)
    (h10 : c ≠ 10) (h13 : c ≠ 13)
    (hq : c = 34 → ¬ (body[pos + 1]? = some 34 ∧ body[pos + 2]? = some 34))
    (hb : c = 92 → ¬ (body[pos + 1]? = some 34 ∧ body[pos + 2]? = some 34 ∧ body[pos + 3]? = some 34)) :
    readBlockStringLoop body st start pos cs ls cl bl =
      readBlockStringLoop body st start (pos + 1) cs ls cl bl := by
  obtain ⟨hlen, hidx⟩ := index_of_getElem? h0
  have e1 : ¬ (c = 34 ∧ slice body (pos + 1) (pos + 3) = [34, 34]) := by
    rintro ⟨hc, hsl⟩
    exact slice_two_ne body (pos + 1) (hq hc) hsl
  have e2 : ¬ (c = 92 ∧ slice body (pos + 1) (pos + 4) = [34, 34, 34]) := by
    rintro ⟨hc, hsl⟩
    exact slice_three_ne body (pos + 1) (hb hc) hsl
  rw [readBlockStringLoop]
  simp [hlen, hidx, e1, e2, h10, h13, hs]

end Gql.Text
