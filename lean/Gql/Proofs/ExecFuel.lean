/-
C02 — fragment recursion is cut by the visited set: the fuel `doc.frags.length + 1` is never
exhausted, for any document (cyclic fragments included).  Measure: the number of fragment
definitions whose name has not been visited yet; entering a fragment strictly decreases it.
-/
import Gql.Exec.SpecExec

namespace Gql.Exec.Refine
open Gql.Exec

abbrev SGroups := Spec.Groups

/-- number of fragment definitions whose name is not in `vis` -/
def unvisited (d : Doc) (vis : List Name) : Nat :=
  ((d.frags.map (·.name)).filter (fun n => !vis.contains n)).length

theorem filter_length_le {α} (l : List α) (p q : α → Bool) (h : ∀ x, q x = true → p x = true) :
    (l.filter q).length ≤ (l.filter p).length := by
  induction l with
  | nil => simp
  | cons a t ih =>
    simp only [List.filter_cons]
    cases hq : q a with
    | true => simp [h a hq]; exact ih
    | false =>
      cases hp : p a with
      | true => simp; omega
      | false => simpa using ih

theorem filter_length_lt {α} (l : List α) (p q : α → Bool) (h : ∀ x, q x = true → p x = true)
    (x : α) (hx : x ∈ l) (hpx : p x = true) (hqx : q x = false) :
    (l.filter q).length < (l.filter p).length := by
  induction l with
  | nil => cases hx
  | cons a t ih =>
    simp only [List.filter_cons]
    rcases List.mem_cons.1 hx with hxa | hxt
    · subst hxa
      simp only [hqx, hpx, Bool.false_eq_true, ↓reduceIte, List.length_cons]
      have := filter_length_le t p q h
      omega
    · have := ih hxt
      cases hq : q a with
      | true => simp [h a hq]; exact this
      | false =>
        cases hp : p a with
        | true => simp; omega
        | false => simpa using this

theorem unvisited_mono (d : Doc) (vis vis' : List Name) (h : ∀ x ∈ vis, x ∈ vis') :
    unvisited d vis' ≤ unvisited d vis := by
  apply filter_length_le
  intro x hx
  simp only [Bool.not_eq_true', List.contains_eq_mem, decide_eq_false_iff_not] at hx ⊢
  exact fun hm => hx (h x hm)

theorem frag_name_mem {d : Doc} {n : Name} {fr : FragDef} (h : d.frag n = some fr) :
    n ∈ d.frags.map (·.name) := by
  unfold Doc.frag at h
  have hm := List.mem_of_find?_eq_some h
  have hk := List.find?_some h
  have : fr.name = n := by simpa using hk
  subst this
  exact List.mem_map_of_mem (List.mem_reverse.1 hm)

theorem unvisited_cons_lt (d : Doc) (vis : List Name) (n : Name) (fr : FragDef)
    (hf : d.frag n = some fr) (hn : vis.contains n = false) :
    unvisited d (n :: vis) < unvisited d vis := by
  apply filter_length_lt _ _ _ _ n (frag_name_mem hf)
  · simpa using hn
  · simp
  · intro x hx
    simp only [Bool.not_eq_true', List.contains_eq_mem, decide_eq_false_iff_not, List.mem_cons,
      not_or] at hx ⊢
    exact hx.2

/-- no crash, and the visited set only grows -/
def NoCrash (vis : List Name) : Out ErrKind (SGroups × List Name) → Prop
  | .crash _ => False
  | .ok (_, vis') => ∀ x ∈ vis, x ∈ vis'
  | .err _ => True

variable (scx : Spec.Ctx) (rt : Name) (n : Nat)
variable (srecur : List Selection → List Name → Out ErrKind (SGroups × List Name))
variable (hrec : ∀ sels vis, unvisited scx.doc vis < n → NoCrash vis (srecur sels vis))

include hrec in
mutual
theorem collectOne_noCrash : (sel : Selection) → ∀ (acc : SGroups) (vis : List Name),
    unvisited scx.doc vis ≤ n → NoCrash vis (Spec.collectOne scx rt srecur sel acc vis)
  | .field alias name args dirs sels, acc, vis, _ => by
    unfold Spec.collectOne
    cases Spec.included scx dirs with
    | none => simp [NoCrash]
    | some b => cases b <;> simp [NoCrash]
  | .spread name dirs, acc, vis, hu => by
    unfold Spec.collectOne
    cases Spec.included scx dirs with
    | none => simp [NoCrash]
    | some b =>
      cases b with
      | false => simp [NoCrash]
      | true =>
        simp only
        cases hv : vis.contains name with
        | true => simp [NoCrash]
        | false =>
          simp only [Bool.false_eq_true, ↓reduceIte]
          cases hf : scx.doc.frag name with
          | none => simp only [NoCrash]; intro x hx; exact List.mem_cons_of_mem _ hx
          | some fr =>
            simp only
            cases Spec.doesFragmentTypeApply scx.schema rt fr.cond with
            | false => simp only [Bool.not_false, ↓reduceIte, NoCrash]; intro x hx; exact List.mem_cons_of_mem _ hx
            | true =>
              simp only [Bool.not_true, Bool.false_eq_true, ↓reduceIte]
              have hlt := unvisited_cons_lt scx.doc vis name fr hf hv
              have h := hrec fr.sels (name :: vis) (by omega)
              revert h
              cases srecur fr.sels (name :: vis) with
              | crash c => simp [NoCrash]
              | err e => simp [NoCrash]
              | ok r =>
                obtain ⟨fg, vis'⟩ := r
                simp only [NoCrash]
                intro h x hx
                exact h x (List.mem_cons_of_mem _ hx)
  | .inline cond dirs sels, acc, vis, hu => by
    unfold Spec.collectOne
    cases Spec.included scx dirs with
    | none => simp [NoCrash]
    | some b =>
      cases b with
      | false => simp [NoCrash]
      | true =>
        simp only
        have h := collectLoop_noCrash sels [] vis hu
        revert h
        cases Spec.collectLoop scx rt srecur sels [] vis with
        | crash c => simp [NoCrash]
        | err e =>
          intro _
          cases cond with
          | none => simp [NoCrash]
          | some c => cases hd : Spec.doesFragmentTypeApply scx.schema rt c <;> simp [NoCrash, hd]
        | ok r =>
          obtain ⟨fg, vis'⟩ := r
          simp only [NoCrash]
          intro h
          cases cond with
          | none => simpa [NoCrash] using h
          | some c => cases hd : Spec.doesFragmentTypeApply scx.schema rt c <;> simpa [NoCrash, hd] using h

theorem collectLoop_noCrash : (sels : List Selection) → ∀ (acc : SGroups) (vis : List Name),
    unvisited scx.doc vis ≤ n → NoCrash vis (Spec.collectLoop scx rt srecur sels acc vis)
  | [], acc, vis, _ => by
    unfold Spec.collectLoop
    simp [NoCrash]
  | sel :: rest, acc, vis, hu => by
    unfold Spec.collectLoop
    have h := collectOne_noCrash sel acc vis hu
    revert h
    cases Spec.collectOne scx rt srecur sel acc vis with
    | crash c => simp [NoCrash]
    | err e => simp [NoCrash]
    | ok r =>
      obtain ⟨acc', vis'⟩ := r
      simp only [NoCrash]
      intro h
      have hu' : unvisited scx.doc vis' ≤ n := Nat.le_trans (unvisited_mono scx.doc vis vis' h) hu
      have h2 := collectLoop_noCrash rest acc' vis' hu'
      revert h2
      cases Spec.collectLoop scx rt srecur rest acc' vis' with
      | crash c => simp [NoCrash]
      | err e => simp [NoCrash]
      | ok r2 =>
        obtain ⟨acc2, vis2⟩ := r2
        simp only [NoCrash]
        intro h2 x hx
        exact h2 x (h x hx)
end

theorem collectFieldsFuel_noCrash (scx : Spec.Ctx) (rt : Name) :
    ∀ (n : Nat) (sels : List Selection) (vis : List Name), unvisited scx.doc vis < n →
      NoCrash vis (Spec.collectFieldsFuel scx rt n sels vis)
  | 0, _, _, h => by omega
  | n + 1, sels, vis, h => by
    unfold Spec.collectFieldsFuel
    exact collectLoop_noCrash scx rt n _ (fun s v hv => collectFieldsFuel_noCrash scx rt n s v hv)
      sels [] vis (by omega)

/-- `Spec.collectFields` never runs out of fuel. -/
theorem collectFields_noCrash (scx : Spec.Ctx) (rt : Name) (sels : List Selection) (c : String) :
    Spec.collectFields scx rt sels ≠ .crash c := by
  unfold Spec.collectFields
  have hlt : unvisited scx.doc [] < Spec.fuelOf scx.doc := by
    unfold unvisited Spec.fuelOf
    have := List.length_filter_le (fun n => !([] : List Name).contains n) (scx.doc.frags.map (·.name))
    simp only [List.length_map] at this
    omega
  have h := collectFieldsFuel_noCrash scx rt (Spec.fuelOf scx.doc) sels [] hlt
  revert h
  cases Spec.collectFieldsFuel scx rt (Spec.fuelOf scx.doc) sels [] with
  | crash c' => simp [NoCrash]
  | err e => simp
  | ok r => simp

end Gql.Exec.Refine
