import Gql.Proofs.BlockForced2
import Gql.Proofs.BlockValue
import Gql.Proofs.LexerBlock
/-!
# Texts with verbatim surrogate pairs (C09, `strip_ignored_characters`)

The lexer accepts, inside strings, block strings and comments, a leading surrogate immediately
followed by a trailing surrogate (`is_supplementary_code_point`).  `Paired l` says that `l` is a
sequence of Unicode scalar values and such pairs.  This file shows

* the value of a block string token is `Paired` (`blockString?_value_paired`), and
* `print_block_string` followed by the lexer's `read_block_string` is the identity on
  block-representable `Paired` values (`printBlockStringW_roundtrip_paired`), which extends the
  round trip of `Gql.Proofs.BlockRoundtrip` from scalar values to everything the lexer can produce.

Everything lives in the namespace `Gql.Text.Pairs` (opened by `StripProofs` and `Props/C09`).
-/
namespace Gql.Text.Pairs
open Gql.Spec.Lex

/-! ## `Paired`: scalar values and lead/trail pairs, as a two-state automaton -/

/-- One step: the state says whether a trailing surrogate is due. -/
def pstep (s : Bool) (c : Nat) : Option Bool :=
  if s then (if isTrailSurrogate c then some false else none)
  else if isScalar c then some false
  else if isLeadSurrogate c then some true else none

def prun : Bool → List Nat → Option Bool
  | s, [] => some s
  | s, c :: r =>
    match pstep s c with
    | some s' => prun s' r
    | none => none

/-- Every code point is a Unicode scalar value, or a leading surrogate immediately followed by a
trailing one, or that trailing one. -/
def Paired (l : List Nat) : Prop := prun false l = some false

instance : DecidablePred Paired := fun l => by unfold Paired; exact inferInstance

theorem scalar_not_trail {c : Nat} (h : isScalar c = true) : isTrailSurrogate c = false := by
  unfold isScalar at h; unfold isTrailSurrogate
  simp only [Bool.or_eq_true, Bool.and_eq_true, decide_eq_true_eq] at h
  simp only [Bool.and_eq_false_iff, decide_eq_false_iff_not]
  omega

theorem lead_facts {c : Nat} (h : isLeadSurrogate c = true) :
    c ≠ 34 ∧ c ≠ 92 ∧ c ≠ 10 ∧ c ≠ 13 ∧ c ≠ 32 ∧ c ≠ 9 := by
  unfold isLeadSurrogate at h
  simp only [Bool.and_eq_true, decide_eq_true_eq] at h
  omega

theorem trail_facts {c : Nat} (h : isTrailSurrogate c = true) :
    c ≠ 34 ∧ c ≠ 92 ∧ c ≠ 10 ∧ c ≠ 13 ∧ c ≠ 32 ∧ c ≠ 9 := by
  unfold isTrailSurrogate at h
  simp only [Bool.and_eq_true, decide_eq_true_eq] at h
  omega

theorem pstep_scalar {s s' : Bool} {c : Nat} (hc : isScalar c = true) (h : pstep s c = some s') :
    s = false ∧ s' = false := by
  unfold pstep at h
  cases s with
  | true => simp [scalar_not_trail hc] at h
  | false => simp [hc] at h; exact ⟨rfl, h⟩

theorem pstep_false_scalar {c : Nat} (hc : isScalar c = true) : pstep false c = some false := by
  simp [pstep, hc]

theorem prun_append (X Y : List Nat) : ∀ s, prun s (X ++ Y) = (prun s X).bind (fun s' => prun s' Y) := by
  induction X with
  | nil => intro s; rfl
  | cons c X ih =>
    intro s
    simp only [List.cons_append, prun]
    cases pstep s c with
    | none => rfl
    | some s' => exact ih s'

theorem prun_scalar_cons {s : Bool} {c : Nat} {r : List Nat} (hc : isScalar c = true)
    (h : prun s (c :: r) = some false) : s = false ∧ prun false r = some false := by
  simp only [prun] at h
  cases hp : pstep s c with
  | none => rw [hp] at h; simp at h
  | some s' =>
    rw [hp] at h
    obtain ⟨h1, h2⟩ := pstep_scalar hc hp
    subst h1 h2
    exact ⟨rfl, h⟩

theorem Paired.nil : Paired [] := rfl

theorem Paired.cons_scalar {c : Nat} {r : List Nat} (hc : isScalar c = true) (h : Paired r) :
    Paired (c :: r) := by
  unfold Paired at *
  simp only [prun, pstep_false_scalar hc]
  exact h

theorem Paired.tail_of_scalar {c : Nat} {r : List Nat} (hc : isScalar c = true) (h : Paired (c :: r)) :
    Paired r := (prun_scalar_cons hc h).2

theorem Paired.cases {c : Nat} {r : List Nat} (h : Paired (c :: r)) :
    (isScalar c = true ∧ Paired r) ∨
    (∃ b r', r = b :: r' ∧ isScalar c = false ∧ isLeadSurrogate c = true ∧
      isTrailSurrogate b = true ∧ Paired r') := by
  by_cases hc : isScalar c = true
  · exact Or.inl ⟨hc, h.tail_of_scalar hc⟩
  · right
    have hcf : isScalar c = false := by simpa using hc
    unfold Paired at h
    simp only [prun, pstep, hcf] at h
    by_cases hl : isLeadSurrogate c = true
    · simp only [hl] at h
      cases r with
      | nil => simp [prun] at h
      | cons b r' =>
        simp only [prun, pstep] at h
        by_cases ht : isTrailSurrogate b = true
        · simp only [ht] at h
          exact ⟨b, r', rfl, hcf, hl, ht, h⟩
        · simp [ht] at h
    · simp [hl] at h

theorem Paired.append {X Y : List Nat} (hX : Paired X) (hY : Paired Y) : Paired (X ++ Y) := by
  unfold Paired at *
  rw [prun_append, hX]
  exact hY

theorem Paired.of_forall_scalar {X : List Nat} (h : ∀ c ∈ X, isScalar c = true) : Paired X := by
  induction X with
  | nil => rfl
  | cons c X ih => exact Paired.cons_scalar (h c (by simp)) (ih (fun d hd => h d (by simp [hd])))

theorem Paired.pair {a b : Nat} (hs : isScalar a = false) (hl : isLeadSurrogate a = true)
    (ht : isTrailSurrogate b = true) : Paired [a, b] := by
  unfold Paired
  simp [prun, pstep, hs, hl, ht]

/-! ## The lexer step over a verbatim pair, and the scan of a printed `Paired` value -/

/-- A leading surrogate followed by a trailing one inside a block string: two code points on. -/
theorem blk_pair (body : List Nat) (st : LexState) (start pos cs ls a b : Nat) (cl : List Nat)
    (bl : List (List Nat)) (h0 : body[pos]? = some a) (h1 : body[pos + 1]? = some b)
    (hns : isScalar a = false) (hl : isLeadSurrogate a = true) (ht : isTrailSurrogate b = true) :
    readBlockStringLoop body st start pos cs ls cl bl =
      readBlockStringLoop body st start (pos + 2) cs ls cl bl := by
  obtain ⟨hlen, hidx⟩ := index_of_getElem? h0
  obtain ⟨f1, f2, f3, f4, _, _⟩ := lead_facts hl
  have hbp : body[pos] = a := by
    have := List.getElem?_eq_getElem hlen
    rw [h0] at this; exact (Option.some.inj this).symm
  rw [readBlockStringLoop]
  simp [hlen, hidx, f1, f2, f3, f4, hns, isSupplementary, h1, hbp, hl, ht]

/-- Surrogate pairs and scalar values only, and no carriage return. -/
def PGood (v : List Nat) : Prop := Paired v ∧ ∀ c ∈ v, c ≠ 13

theorem scan_value_paired (st : LexState) (start : Nat) (rest after : List Nat)
    (hafter : after = [] ∨ after = [10]) :
    ∀ (n : Nat) (v : List Nat), v.length ≤ n → ∀ (pre : List Nat) (cs ls : Nat) (cl : List Nat)
      (bl : List (List Nat)), cs ≤ pre.length → PGood v → (endsOpen v = true → after = [10]) →
      tokOf (readBlockStringLoop (pre ++ (escapeTQ v ++ (after ++ 34 :: 34 :: 34 :: rest))) st start
          pre.length cs ls cl bl) =
        .ok (blockTok st start (pre.length + (escapeTQ v).length + after.length + 3)
            (bl ++ linesFrom
              (cl ++ slice (pre ++ (escapeTQ v ++ (after ++ 34 :: 34 :: 34 :: rest))) cs pre.length) v
              ++ afterLines after)) := by
  intro n
  induction n using Nat.strongRecOn with
  | _ n ih =>
    intro v hv pre cs ls cl bl hcs hgood hopen
    rcases v with _ | ⟨c, r⟩
    · -- the empty value: as in the scalar proof
      have hg0 : GoodVal [] := by intro c hc; simp at hc
      exact scan_value st start rest after hafter 0 [] (by simp) pre cs ls cl bl hcs hg0 hopen
    obtain ⟨m, rfl⟩ : ∃ m, n = m + 1 := ⟨n - 1, by simp at hv; omega⟩
    by_cases htq : ∃ r', c = 34 ∧ r = 34 :: 34 :: r'
    · obtain ⟨r, hc, hr⟩ := htq
      subst hc hr
      have hb : pre ++ (escapeTQ (34 :: 34 :: 34 :: r) ++ (after ++ 34 :: 34 :: 34 :: rest)) =
          pre ++ (92 :: 34 :: 34 :: 34 :: (escapeTQ r ++ (after ++ 34 :: 34 :: 34 :: rest))) := by
        simp [escapeTQ_qqq]
      have hb2 : pre ++ (92 :: 34 :: 34 :: 34 :: (escapeTQ r ++ (after ++ 34 :: 34 :: 34 :: rest))) =
          (pre ++ [92, 34, 34, 34]) ++ (escapeTQ r ++ (after ++ 34 :: 34 :: 34 :: rest)) := by simp
      have hgood' : PGood r :=
        ⟨((hgood.1.tail_of_scalar (by decide)).tail_of_scalar (by decide)).tail_of_scalar (by decide),
          fun c hc => hgood.2 c (by simp [hc])⟩
      have hopen' : endsOpen r = true → after = [10] := by
        intro h; apply hopen; rw [endsOpen]; exact h
      have hlen : (pre ++ [92, 34, 34, 34]).length = pre.length + 4 := by simp
      have h := ih r.length (by simp at hv; omega) r (Nat.le_refl _) (pre ++ [92, 34, 34, 34]) (pre.length + 1) ls
        (cl ++ slice ((pre ++ [92, 34, 34, 34]) ++ (escapeTQ r ++ (after ++ 34 :: 34 :: 34 :: rest))) cs pre.length)
        bl (by simp) hgood' hopen'
      rw [hlen] at h
      rw [hb, blk_esc _ st start pre.length cs ls cl bl ((getElem?_pre0 pre _).trans rfl)
        ((getElem?_pre pre _ 1).trans rfl) ((getElem?_pre pre _ 2).trans rfl)
        ((getElem?_pre pre _ 3).trans rfl)]
      have hs : slice (pre ++ (92 :: 34 :: 34 :: 34 :: (escapeTQ r ++ (after ++ 34 :: 34 :: 34 :: rest))))
          (pre.length + 1) (pre.length + 1 + 3) = [34, 34, 34] :=
        slice_three _ (pre.length + 1) 34 34 34 ((getElem?_pre pre _ 1).trans rfl)
          ((getElem?_pre pre _ 2).trans rfl) ((getElem?_pre pre _ 3).trans rfl)
      rw [hb2] at hs ⊢
      rw [h, hs, linesFrom_qqq]
      simp only [escapeTQ_qqq, List.length_cons, List.append_assoc]
      congr 2
      omega
    · rcases hgood.1.cases with ⟨hsc, hPr⟩ | ⟨b, r', hr, hns, hl, ht, hPr'⟩
      · -- an ordinary scalar value
        have hgood' : PGood r := ⟨hPr, fun d hd => hgood.2 d (by simp [hd])⟩
        have hc13 := hgood.2 c (by simp)
        have hb : pre ++ (escapeTQ (c :: r) ++ (after ++ 34 :: 34 :: 34 :: rest)) =
            pre ++ (c :: (escapeTQ r ++ (after ++ 34 :: 34 :: 34 :: rest))) := by
          simp [escapeTQ_cons_nt htq]
        have hb2 : pre ++ (c :: (escapeTQ r ++ (after ++ 34 :: 34 :: 34 :: rest))) =
            (pre ++ [c]) ++ (escapeTQ r ++ (after ++ 34 :: 34 :: 34 :: rest)) := by simp
        have hlen : (pre ++ [c]).length = pre.length + 1 := by simp
        have hopen' : endsOpen r = true → after = [10] := by
          intro h
          apply hopen
          by_cases hr : r = []
          · subst hr; simp [endsOpen] at h
          · rw [endsOpen_cons_nt htq hr]; exact h
        have hget0 : (pre ++ (c :: (escapeTQ r ++ (after ++ 34 :: 34 :: 34 :: rest))))[pre.length]? = some c :=
          (getElem?_pre0 pre _).trans rfl
        by_cases h10 : c = 10
        · subst h10
          have h := ih r.length (by simp at hv; omega) r (Nat.le_refl _) (pre ++ [10]) (pre.length + 1)
            (pre.length + 1) []
            (bl ++ [cl ++ slice (pre ++ (10 :: (escapeTQ r ++ (after ++ 34 :: 34 :: 34 :: rest)))) cs pre.length])
            (by simp) hgood' hopen'
          rw [hlen] at h
          rw [hb, blk_lf _ st start pre.length cs ls cl bl hget0]
          rw [hb2] at h ⊢
          rw [h, slice_self]
          simp [linesFrom, escapeTQ_cons_nt htq, Nat.add_assoc, Nat.add_comm 1]
        · have hT : (after ++ 34 :: 34 :: 34 :: rest)[0]? = some 34 → after = [] := by
            intro h
            rcases hafter with ha | ha <;> subst ha
            · rfl
            · simp at h
          have hq : c = 34 → ¬ ((pre ++ (c :: (escapeTQ r ++ (after ++ 34 :: 34 :: 34 :: rest))))[pre.length + 1]? = some 34 ∧
              (pre ++ (c :: (escapeTQ r ++ (after ++ 34 :: 34 :: 34 :: rest))))[pre.length + 2]? = some 34) := by
            intro hc
            subst hc
            have e0 := getElem?_pre_cons pre 34 (escapeTQ r ++ (after ++ 34 :: 34 :: 34 :: rest)) 0
            have e1 := getElem?_pre_cons pre 34 (escapeTQ r ++ (after ++ 34 :: 34 :: 34 :: rest)) 1
            simp only [Nat.add_zero] at e0
            rw [e0, show pre.length + 2 = pre.length + 1 + 1 by omega, e1]
            apply look2
            · intro r' hr'
              exact htq ⟨r', rfl, hr'⟩
            · intro ho hq
              have := hopen ho
              have := hT hq
              simp_all
          have hbs : c = 92 → ¬ ((pre ++ (c :: (escapeTQ r ++ (after ++ 34 :: 34 :: 34 :: rest))))[pre.length + 1]? = some 34 ∧
              (pre ++ (c :: (escapeTQ r ++ (after ++ 34 :: 34 :: 34 :: rest))))[pre.length + 2]? = some 34 ∧
              (pre ++ (c :: (escapeTQ r ++ (after ++ 34 :: 34 :: 34 :: rest))))[pre.length + 3]? = some 34) := by
            intro hc
            subst hc
            have e0 := getElem?_pre_cons pre 92 (escapeTQ r ++ (after ++ 34 :: 34 :: 34 :: rest)) 0
            have e1 := getElem?_pre_cons pre 92 (escapeTQ r ++ (after ++ 34 :: 34 :: 34 :: rest)) 1
            have e2 := getElem?_pre_cons pre 92 (escapeTQ r ++ (after ++ 34 :: 34 :: 34 :: rest)) 2
            simp only [Nat.add_zero] at e0
            rw [e0, show pre.length + 2 = pre.length + 1 + 1 by omega, e1,
              show pre.length + 3 = pre.length + 1 + 2 by omega, e2]
            apply look3
            intro ho hq
            have := hopen ho
            have := hT hq
            simp_all
          have h := ih r.length (by simp at hv; omega) r (Nat.le_refl _) (pre ++ [c]) cs ls cl bl
            (by simp; omega) hgood' hopen'
          rw [hlen] at h
          rw [hb, blk_plain _ st start pre.length cs ls c cl bl hget0 hsc h10 hc13 hq hbs]
          have hsl := slice_snoc (pre ++ (c :: (escapeTQ r ++ (after ++ 34 :: 34 :: 34 :: rest)))) cs pre.length c
            hcs hget0
          rw [hb2] at hsl ⊢
          rw [h, hsl]
          simp [linesFrom, h10, escapeTQ_cons_nt htq, Nat.add_assoc, Nat.add_comm 1]
      · -- a verbatim surrogate pair
        subst hr
        obtain ⟨a34, _, a10, _, _, _⟩ := lead_facts hl
        obtain ⟨b34, b92, b10, _, _, _⟩ := trail_facts ht
        have hgood' : PGood r' := ⟨hPr', fun d hd => hgood.2 d (by simp [hd])⟩
        have hesc : escapeTQ (c :: b :: r') = c :: b :: escapeTQ r' := by
          rw [escapeTQ_ne _ a34, escapeTQ_ne _ b34]
        have hb : pre ++ (escapeTQ (c :: b :: r') ++ (after ++ 34 :: 34 :: 34 :: rest)) =
            pre ++ (c :: b :: (escapeTQ r' ++ (after ++ 34 :: 34 :: 34 :: rest))) := by
          simp [hesc]
        have hb2 : pre ++ (c :: b :: (escapeTQ r' ++ (after ++ 34 :: 34 :: 34 :: rest))) =
            (pre ++ [c, b]) ++ (escapeTQ r' ++ (after ++ 34 :: 34 :: 34 :: rest)) := by simp
        have hlen : (pre ++ [c, b]).length = pre.length + 2 := by simp
        have hopen' : endsOpen r' = true → after = [10] := by
          intro h
          apply hopen
          by_cases hr : r' = []
          · subst hr; simp [endsOpen] at h
          · rw [endsOpen_ne _ a34 (by simp), endsOpen_ne _ b34 hr]; exact h
        have hget0 : (pre ++ (c :: b :: (escapeTQ r' ++ (after ++ 34 :: 34 :: 34 :: rest))))[pre.length]? = some c :=
          (getElem?_pre0 pre _).trans rfl
        have hget1 : (pre ++ (c :: b :: (escapeTQ r' ++ (after ++ 34 :: 34 :: 34 :: rest))))[pre.length + 1]? = some b :=
          (getElem?_pre pre _ 1).trans rfl
        have h := ih r'.length (by simp at hv; omega) r' (Nat.le_refl _) (pre ++ [c, b]) cs ls cl bl
          (by simp; omega) hgood' hopen'
        rw [hlen] at h
        rw [hb, blk_pair _ st start pre.length cs ls c b cl bl hget0 hget1 hns hl ht]
        have hsl := slice_snoc2 (pre ++ (c :: b :: (escapeTQ r' ++ (after ++ 34 :: 34 :: 34 :: rest)))) cs pre.length
          c b hcs hget0 hget1
        rw [hb2] at hsl ⊢
        rw [h, hsl]
        simp [linesFrom, a10, b10, hesc, Nat.add_assoc, Nat.add_comm 1]
        congr 1
        omega

/-- `read_printed_lines` for values with verbatim surrogate pairs. -/
theorem read_printed_lines_paired (w : Nat) (v : List Nat) (m : Bool) (rest : List Nat) (st : LexState)
    (start ls : Nat) (hgood : PGood v) :
    tokOf (readBlockStringLoop (printBlockStringW w v m ++ rest) st start 3 3 ls [] []) =
      .ok (blockTok st start (printBlockStringW w v m).length
        (afterLines (pbsBefore (pbsFlags w v m)) ++ linesFrom [] v ++ afterLines (pbsAfter (pbsFlags w v m)))) := by
  have hopen : endsOpen v = true → pbsAfter (pbsFlags w v m) = [10] := pbsAfter_of_endsOpen w v m
  generalize hA : pbsAfter (pbsFlags w v m) = after at hopen
  have hafter : after = [] ∨ after = [10] := hA ▸ pbsAfter_cases _
  unfold printBlockStringW
  simp only [hA]
  rcases pbsBefore_cases (pbsFlags w v m) with hb | hb <;> rw [hb]
  · have := scan_value_paired st start rest after hafter v.length v (Nat.le_refl _) [34, 34, 34] 3 ls [] []
      (by simp) hgood hopen
    simp only [List.length_cons, List.length_nil, Nat.zero_add, slice_self, List.append_nil,
      List.nil_append] at this
    simp only [List.append_nil, List.append_assoc, List.cons_append, List.nil_append, Nat.zero_add,
      afterLines, List.map_nil, List.length_append, List.length_cons, List.length_nil]
    simp only [List.cons_append, List.nil_append] at this
    rw [this]
    congr 2
    simp [afterLines]
    omega
  · have := scan_value_paired st start rest after hafter v.length v (Nat.le_refl _) [34, 34, 34, 10] 4 4 []
      [[]] (by simp) hgood hopen
    simp only [List.length_cons, List.length_nil, Nat.zero_add, slice_self, List.append_nil,
      List.nil_append] at this
    simp only [List.append_assoc, List.cons_append, List.nil_append, Nat.zero_add,
      afterLines, List.map_nil, List.map_cons, List.length_append, List.length_cons, List.length_nil]
    simp only [List.cons_append, List.nil_append] at this
    rw [blk_lf _ st start 3 3 ls [] [] (by simp)]
    simp only [slice_self, List.append_nil, List.nil_append]
    rw [this]
    congr 2
    simp [afterLines]
    omega

/-- `print_block_string` followed by `read_block_string` is the identity on block-representable
values made of Unicode scalar values and verbatim surrogate pairs (any width, both settings of
`minimize`). -/
theorem printBlockStringW_roundtrip_loop_paired (w : Nat) (v : List Nat) (m : Bool) (rest : List Nat)
    (st : LexState) (start ls : Nat) (hs : Paired v) (hrep : BlockRepresentable v) :
    tokOf (readBlockStringLoop (printBlockStringW w v m ++ rest) st start 3 3 ls [] []) =
      .ok (mkToken st .blockString start (printBlockStringW w v m).length (some v)) := by
  by_cases hne : v = []
  · subst hne
    exact printBlockStringW_roundtrip_loop w [] m rest st start ls (by intro c hc; simp at hc) hrep
  · obtain ⟨h13, l0, M, xs, lN, hL, hxs, h0, hN, hU⟩ := representable_lines v hne hrep
    have hgood : PGood v := ⟨hs, h13⟩
    rw [read_printed_lines_paired w v m rest st start ls hgood, linesFrom_nil]
    have hA := pbsAfter_cases (pbsFlags w v m)
    have hAl : afterLines (pbsAfter (pbsFlags w v m)) = [] ∨ afterLines (pbsAfter (pbsFlags w v m)) = [[]] := by
      rcases hA with h | h <;> rw [h] <;> simp [afterLines]
    have hBl : afterLines (pbsBefore (pbsFlags w v m)) = [] ∨ afterLines (pbsBefore (pbsFlags w v m)) = [[]] := by
      rcases pbsBefore_cases (pbsFlags w v m) with h | h <;> rw [h] <;> simp [afterLines]
    have hci := before_cond w v m h13 l0 M hL h0 hU
    have hd : dedentBlockStringLines
        (afterLines (pbsBefore (pbsFlags w v m)) ++ splitLF v ++ afterLines (pbsAfter (pbsFlags w v m))) = splitLF v := by
      apply dedent_sandwich _ _ _ hBl hAl l0 M hL h0 xs lN hxs hN
      rcases hci with ⟨hb, hc⟩ | ⟨hb, hc⟩
      · left; exact ⟨by rw [hb]; rfl, hc⟩
      · right; exact ⟨by rw [hb]; rfl, hc⟩
    unfold blockTok
    rw [hd]
    have := joinLines_linesFrom v []
    rw [linesFrom_nil] at this
    simp only [List.nil_append] at this
    rw [this]

theorem printBlockStringW_roundtrip_paired (w : Nat) (v : List Nat) (m : Bool) (rest : List Nat)
    (st : LexState) (hs : Paired v) (hrep : BlockRepresentable v) :
    tokOf (readBlockString (printBlockStringW w v m ++ rest) st 0) =
      .ok (mkToken st .blockString 0 (printBlockStringW w v m).length (some v)) := by
  unfold readBlockString
  exact printBlockStringW_roundtrip_loop_paired w v m rest st 0 st.lineStart hs hrep

/-! ## The value of a block string token is `Paired` -/

theorem sourceCharLen_paired {s : List Nat} {k : Nat} (h : sourceCharLen s = some k) :
    Paired (s.take k) := by
  cases s with
  | nil => simp [sourceCharLen] at h
  | cons c rest =>
    simp only [sourceCharLen] at h
    by_cases hc : Scalar c
    · rw [if_pos hc] at h
      have : k = 1 := (Option.some.inj h).symm
      subst this
      exact Paired.cons_scalar ((isScalar_iff c).mpr hc) Paired.nil
    · rw [if_neg hc] at h
      cases rest with
      | nil => simp at h
      | cons d rest' =>
        simp only [] at h
        by_cases hp : LeadSurrogate c ∧ TrailSurrogate d
        · rw [if_pos hp] at h
          have : k = 2 := (Option.some.inj h).symm
          subst this
          have hcs : isScalar c = false := by
            cases hh : isScalar c with
            | false => rfl
            | true => exact absurd ((isScalar_iff c).mp hh) hc
          have hl : isLeadSurrogate c = true := by
            have := hp.1; unfold LeadSurrogate at this; simp [isLeadSurrogate, this]
          have ht : isTrailSurrogate d = true := by
            have := hp.2; unfold TrailSurrogate at this; simp [isTrailSurrogate, this]
          exact Paired.pair hcs hl ht
        · rw [if_neg hp] at h; simp at h

theorem blockRest_paired : ∀ (f : Nat) (s : List Nat) (n : Nat) (raw : List Nat),
    blockRest f s = some (n, raw) → Paired raw := by
  intro f
  induction f with
  | zero => intro s n raw h; simp [blockRest] at h
  | succ f0 ih =>
    intro s n raw h
    rw [blockRest_succ] at h
    split at h
    · simp at h; rw [h.2]; exact Paired.nil
    · split at h
      · cases hr : blockRest f0 (s.drop 4) with
        | none => rw [hr] at h; simp [consB] at h
        | some mw =>
          obtain ⟨m, w⟩ := mw
          rw [hr] at h; simp only [consB, Option.some.injEq, Prod.mk.injEq] at h
          rw [← h.2]
          exact Paired.append (by decide) (ih _ _ _ hr)
      · cases hk : sourceCharLen s with
        | none => rw [hk] at h; simp at h
        | some k =>
          rw [hk] at h; simp only [] at h
          cases hr : blockRest f0 (s.drop k) with
          | none => rw [hr] at h; simp [consB] at h
          | some mw =>
            obtain ⟨m, w⟩ := mw
            rw [hr] at h; simp only [consB, Option.some.injEq, Prod.mk.injEq] at h
            rw [← h.2]
            exact Paired.append (sourceCharLen_paired hk) (ih _ _ _ hr)

theorem prun_snoc {cur : List Nat} {s s' : Bool} {c : Nat} (hc : prun false cur = some s)
    (hp : pstep s c = some s') : prun false (cur ++ [c]) = some s' := by
  rw [prun_append, hc]
  simp [prun, hp]

/-- Splitting at line terminators never separates a pair. -/
theorem splitLinesAux_paired : ∀ (n : Nat) (raw cur : List Nat) (s : Bool), raw.length ≤ n →
    prun false cur = some s → prun s raw = some false → ∀ l ∈ splitLinesAux cur raw, Paired l := by
  intro n
  induction n using Nat.strongRecOn with
  | _ n ih =>
    intro raw cur s hn hc hr l hl
    cases raw with
    | nil =>
      simp [splitLinesAux] at hl; subst hl
      simp [prun] at hr; subst hr; exact hc
    | cons c rest =>
      by_cases h10 : c = 10
      · subst h10
        obtain ⟨rfl, hr1⟩ := prun_scalar_cons (by decide) hr
        rw [splitLinesAux_lf] at hl
        rcases List.mem_cons.mp hl with h | h
        · subst h; exact hc
        · exact ih rest.length (by simp at hn; omega) rest [] false (Nat.le_refl _) rfl hr1 l h
      by_cases h13 : c = 13
      · subst h13
        obtain ⟨rfl, hr1⟩ := prun_scalar_cons (by decide) hr
        by_cases hh : rest.head? = some 10
        · cases rest with
          | nil => simp at hh
          | cons d rest' =>
            simp at hh; subst hh
            obtain ⟨_, hr2⟩ := prun_scalar_cons (by decide) hr1
            rw [splitLinesAux_crlf] at hl
            rcases List.mem_cons.mp hl with h | h
            · subst h; exact hc
            · exact ih rest'.length (by simp at hn; omega) rest' [] false (Nat.le_refl _) rfl hr2 l h
        · rw [splitLinesAux_cr _ _ hh] at hl
          rcases List.mem_cons.mp hl with h | h
          · subst h; exact hc
          · exact ih rest.length (by simp at hn; omega) rest [] false (Nat.le_refl _) rfl hr1 l h
      · rw [splitLinesAux_plain cur c rest h10 h13] at hl
        simp only [prun] at hr
        cases hp : pstep s c with
        | none => rw [hp] at hr; simp at hr
        | some s' =>
          rw [hp] at hr
          exact ih rest.length (by simp at hn; omega) rest (cur ++ [c]) s' (Nat.le_refl _)
            (prun_snoc hc hp) hr l hl

theorem paired_of_blank (x : List Nat) (h : Blank x) : Paired x := by
  induction x with
  | nil => exact Paired.nil
  | cons c r ih =>
    obtain ⟨hc, hr⟩ := (blank_cons c r).mp h
    exact Paired.cons_scalar (by rcases hc with rfl | rfl <;> decide) (ih hr)

theorem paired_drop_lws : ∀ (l : List Nat) (n : Nat), Paired l → n ≤ leadingWhiteSpace l →
    Paired (l.drop n) := by
  intro l
  induction l with
  | nil => intro n h _; simpa using h
  | cons c r ih =>
    intro n h hn
    cases n with
    | zero => simpa using h
    | succ n' =>
      simp only [leadingWhiteSpace] at hn
      by_cases hc : c = 32 ∨ c = 9
      · rw [if_pos hc] at hn
        have hsc : isScalar c = true := by rcases hc with rfl | rfl <;> decide
        simp only [List.drop_succ_cons]
        exact ih n' (h.tail_of_scalar hsc) (by omega)
      · rw [if_neg hc] at hn; omega

theorem joinLF_paired (ls : List (List Nat)) (h : ∀ l ∈ ls, Paired l) : Paired (joinLF ls) := by
  fun_induction joinLF ls
  · exact Paired.nil
  · exact h _ (by simp)
  · rename_i l rest hne ih
    exact Paired.append (Paired.append (h l (by simp)) (by decide)) (ih (fun l' hl' => h l' (by simp [hl'])))

theorem dedentLines_paired (lines : List (List Nat)) (h : ∀ l ∈ lines, Paired l) :
    ∀ l' ∈ dedentLines lines, Paired l' := by
  intro l' hl'
  unfold dedentLines at hl'
  simp only [] at hl'
  have h1 := List.mem_reverse.mp hl'
  have h2 := (List.dropWhile_sublist _).subset h1
  have h3 := List.mem_reverse.mp h2
  have h4 := (List.dropWhile_sublist _).subset h3
  revert h4
  split
  · rename_i ci first rest hci
    intro h4
    rcases List.mem_cons.mp h4 with hh | hh
    · subst hh; exact h l' (by simp)
    · obtain ⟨l, hl, hdl⟩ := List.mem_map.mp hh
      subst hdl
      have hcm : cmin none rest = some ci := by
        rw [← hci]
        unfold cmin
        simp only [List.tail_cons]
        congr 1; funext ci line; rw [← lws_eq_spec]
      have hP := h l (by simp [hl])
      by_cases hb : leadingWhiteSpace l = l.length
      · exact paired_of_blank _ (blank_drop l ci hb)
      · exact paired_drop_lws l ci hP ((cmin_some rest none ci hcm).1 l hl hb)
  · intro h4; exact h l' h4

theorem blockStringValue_paired (raw : List Nat) (h : Paired raw) : Paired (blockStringValue raw) := by
  unfold blockStringValue
  apply joinLF_paired
  apply dedentLines_paired
  unfold splitLines
  exact splitLinesAux_paired raw.length raw [] false (Nat.le_refl _) rfl h

/-- The value of a block string token consists of Unicode scalar values and surrogate pairs. -/
theorem blockString?_value_paired {u : List Nat} {m : Match} (h : blockString? u = some m) :
    ∀ v, m.value = some v → Paired v := by
  unfold blockString? at h
  split at h
  · rename_i rest
    cases hbr : blockRest rest.length rest with
    | none => rw [hbr] at h; simp at h
    | some nraw =>
      obtain ⟨n, raw⟩ := nraw
      rw [hbr] at h
      simp only [Option.some.injEq] at h
      intro v hv
      rw [← h] at hv
      simp only [Option.some.injEq] at hv
      rw [← hv]
      exact blockStringValue_paired raw (blockRest_paired _ _ _ _ hbr)
  · simp at h

end Gql.Text.Pairs
