import Gql.Proofs.Forest
/-!
What `_prune_empty_groups` returns: the promoted groups are pairwise distinct, each is an
element of the argument list or a listed child of a node that `prune` deleted, and each still
has its node.
-/
namespace Gql.Async

theorem SubGraph.none {q q' : WQ} (h : SubGraph q q') {p : Nat}
    (hn : alookup q.groupNodes p = none) : alookup q'.groupNodes p = none := by
  cases h' : alookup q'.groupNodes p with
  | none => rfl
  | some n' => obtain ⟨n, e, _⟩ := h p n' h'; rw [hn] at e; cases e

theorem SubGraph.hasNode {q q' : WQ} (h : SubGraph q q') {p : Nat} (hn : hasNode q' p) : hasNode q p := by
  obtain ⟨n', e⟩ := hn
  obtain ⟨n, e0, _⟩ := h p n' e
  exact ⟨n, e0⟩

/-- `x` is not listed as a child anywhere. -/
def Detached (q : WQ) (x : Nat) : Prop := ∀ p, ¬ hasChild q p x

theorem Detached.sub {q q' : WQ} {x : Nat} (h : Detached q x) (s : SubGraph q q') : Detached q' x :=
  fun p hc => h p (s.hasChild hc)

/-- The preconditions of `prune` on a graph: the `parent` / `nodup` halves of `Forest`. -/
structure TreeLike (σ : Static) (q : WQ) : Prop where
  parent : ∀ p c, hasChild q p c → σ.parent c = some p
  nodup : ∀ p n, alookup q.groupNodes p = some n → n.children.Nodup

theorem TreeLike.sub {σ : Static} {q q' : WQ} (t : TreeLike σ q) (h : SubGraph q q') : TreeLike σ q' where
  parent p c hc := t.parent p c (h.hasChild hc)
  nodup p n' e := by
    obtain ⟨n, e0, c0⟩ := h p n' e
    rw [c0]; exact t.nodup p n e0

theorem Forest.treeLike {σ : Static} {q : WQ} (f : Forest σ q) : TreeLike σ q := ⟨f.parent, f.nodup⟩

structure PruneOut (qin : WQ) (gs : List Nat) (qout : WQ) (new : List Nat) : Prop where
  nodup : new.Nodup
  src : ∀ x ∈ new, x ∈ gs ∨ ∃ p, hasChild qin p x ∧ alookup qout.groupNodes p = none
  kept : ∀ x ∈ new, hasNode qout x
  del : ∀ p, hasNode qin p → ¬ hasNode qout p →
    p ∈ gs ∨ ∃ p', hasChild qin p' p ∧ alookup qout.groupNodes p' = none

theorem prune_spec (σ : Static) (fuel : Nat) :
    ∀ (gs : List Nat) (q : WQ) (acc : List Nat), TreeLike σ q → gs.Nodup → (∀ x ∈ gs, Detached q x) →
    ∃ new, (prune fuel gs (q, acc)).2 = acc ++ new ∧ PruneOut q gs (prune fuel gs (q, acc)).1 new := by
  induction fuel with
  | zero =>
    intro gs q acc _ _ _
    exact ⟨[], by simp [prune], ⟨List.nodup_nil, fun _ h => by simp at h, fun _ h => by simp at h,
      fun p h1 h2 => absurd h1 h2⟩⟩
  | succ fuel ihf =>
    intro gs
    induction gs with
    | nil =>
      intro q acc _ _ _
      exact ⟨[], by simp [prune], ⟨List.nodup_nil, fun _ h => by simp at h, fun _ h => by simp at h,
        fun p h1 h2 => absurd h1 h2⟩⟩
    | cons a rest ih =>
      intro q acc tl hnd hdet
      have hnd' := List.nodup_cons.mp hnd
      have hdet_rest : ∀ x ∈ rest, Detached q x := fun x hx => hdet x (List.mem_cons_of_mem _ hx)
      have hdet_a : Detached q a := hdet a (by simp)
      -- unfold one step of the fold
      have hstep : prune (fuel + 1) (a :: rest) (q, acc) =
          prune (fuel + 1) rest
            (match alookup q.groupNodes a with
             | none => (q, acc)
             | some n =>
               if n.pending != 0 then (q, acc ++ [a])
               else prune fuel n.children ({ q with groupNodes := aerase q.groupNodes a }, acc)) := by
        conv => lhs; unfold prune
        simp only [List.foldl_cons]
        conv => rhs; unfold prune
        rfl
      rw [hstep]
      cases hl : alookup q.groupNodes a with
      | none =>
        simp only
        obtain ⟨new, e, po⟩ := ih q acc tl hnd'.2 hdet_rest
        refine ⟨new, e, ⟨po.nodup, ?_, po.kept, ?_⟩⟩
        · intro x hx
          rcases po.src x hx with h | h
          · exact Or.inl (List.mem_cons_of_mem _ h)
          · exact Or.inr h
        · intro p h1 h2
          rcases po.del p h1 h2 with h | h
          · exact Or.inl (List.mem_cons_of_mem _ h)
          · exact Or.inr h
      | some n =>
        simp only
        by_cases hp : (n.pending != 0) = true
        · -- `a` is non-empty: promoted
          simp only [hp, if_true]
          obtain ⟨new, e, po⟩ := ih q (acc ++ [a]) tl hnd'.2 hdet_rest
          have ha_not : a ∉ new := by
            intro ha
            rcases po.src a ha with h | ⟨p, h, _⟩
            · exact hnd'.1 h
            · exact hdet_a p h
          refine ⟨a :: new, by rw [e]; simp, ⟨List.nodup_cons.mpr ⟨ha_not, po.nodup⟩, ?_, ?_, ?_⟩⟩
          · intro x hx
            rcases List.mem_cons.mp hx with rfl | hx
            · exact Or.inl (by simp)
            · rcases po.src x hx with h | h
              · exact Or.inl (List.mem_cons_of_mem _ h)
              · exact Or.inr h
          · intro x hx
            rcases List.mem_cons.mp hx with rfl | hx
            · -- `a` keeps its node: it is neither in `rest` nor anybody's child
              apply Classical.byContradiction
              intro hno
              rcases po.del x ⟨n, hl⟩ hno with h | ⟨p', h, _⟩
              · exact hnd'.1 h
              · exact hdet_a p' h
            · exact po.kept x hx
          · intro p h1 h2
            rcases po.del p h1 h2 with h | h
            · exact Or.inl (List.mem_cons_of_mem _ h)
            · exact Or.inr h
        · -- `a` is empty: deleted, its children are looked at
          have hp' : (n.pending != 0) = false := by simpa using hp
          simp only [hp', Bool.false_eq_true, if_false]
          have hqa : SubGraph q { q with groupNodes := aerase q.groupNodes a } := subGraph_erase q a
          have hla : alookup ({ q with groupNodes := aerase q.groupNodes a } : WQ).groupNodes a = none :=
            alookup_aerase_self _ _
          have hdet_c : ∀ x ∈ n.children, Detached { q with groupNodes := aerase q.groupNodes a } x := by
            intro x hx p hc
            have h1 := tl.parent p x (hqa.hasChild hc)
            have h2 := tl.parent a x ⟨n, hl, hx⟩
            rw [h1] at h2; cases h2
            obtain ⟨m, hm, _⟩ := hc
            rw [hla] at hm; cases hm
          obtain ⟨newc, ec, pc⟩ := ihf n.children { q with groupNodes := aerase q.groupNodes a } acc
            (tl.sub hqa) (tl.nodup a n hl) hdet_c
          have hq1 : SubGraph q (prune fuel n.children ({ q with groupNodes := aerase q.groupNodes a }, acc)).1 :=
            hqa.trans (prune_sub fuel n.children _)
          have hq1a : alookup (prune fuel n.children ({ q with groupNodes := aerase q.groupNodes a }, acc)).1.groupNodes a
              = none := (prune_sub fuel n.children _).none hla
          obtain ⟨newr, er, pr⟩ := ih (prune fuel n.children ({ q with groupNodes := aerase q.groupNodes a }, acc)).1
            (prune fuel n.children ({ q with groupNodes := aerase q.groupNodes a }, acc)).2
            (tl.sub hq1) hnd'.2 (fun x hx => (hdet_rest x hx).sub hq1)
          have heta : ((prune fuel n.children ({ q with groupNodes := aerase q.groupNodes a }, acc)).1,
              (prune fuel n.children ({ q with groupNodes := aerase q.groupNodes a }, acc)).2)
              = prune fuel n.children ({ q with groupNodes := aerase q.groupNodes a }, acc) := rfl
          rw [heta] at er pr
          have hq2 : SubGraph (prune fuel n.children ({ q with groupNodes := aerase q.groupNodes a }, acc)).1
              (prune (fuel + 1) rest (prune fuel n.children ({ q with groupNodes := aerase q.groupNodes a }, acc))).1 :=
            prune_sub (fuel + 1) rest _
          -- the source of an element of `newc`, seen from `q`
          have srcC : ∀ x ∈ newc, ∃ p, hasChild q p x ∧
              alookup (prune fuel n.children ({ q with groupNodes := aerase q.groupNodes a }, acc)).1.groupNodes p = none := by
            intro x hx
            rcases pc.src x hx with h | ⟨p, h1, h2⟩
            · exact ⟨a, ⟨n, hl, h⟩, hq1a⟩
            · exact ⟨p, hqa.hasChild h1, h2⟩
          have srcR : ∀ x ∈ newr, x ∈ rest ∨ ∃ p, hasChild q p x ∧
              hasNode (prune fuel n.children ({ q with groupNodes := aerase q.groupNodes a }, acc)).1 p ∧
              alookup (prune (fuel + 1) rest (prune fuel n.children ({ q with groupNodes := aerase q.groupNodes a }, acc))).1.groupNodes p = none := by
            intro x hx
            rcases pr.src x hx with h | ⟨p, h1, h2⟩
            · exact Or.inl h
            · exact Or.inr ⟨p, hq1.hasChild h1, ⟨_, h1.choose_spec.1⟩, h2⟩
          have hdisj : ∀ x, x ∈ newc → x ∉ newr := by
            intro x hc hr
            obtain ⟨p, hp1, hp2⟩ := srcC x hc
            rcases srcR x hr with h | ⟨p', hp1', ⟨m, hm⟩, _⟩
            · exact hdet_rest x h p hp1
            · have e1 := tl.parent p x hp1
              have e2 := tl.parent p' x hp1'
              rw [e1] at e2; cases e2
              rw [hp2] at hm; cases hm
          refine ⟨newc ++ newr, by rw [er, ec]; simp, ⟨?_, ?_, ?_, ?_⟩⟩
          · rw [List.nodup_append]
            exact ⟨pc.nodup, pr.nodup, fun x hx y hy e => hdisj x hx (e ▸ hy)⟩
          · intro x hx
            rcases List.mem_append.mp hx with hx | hx
            · obtain ⟨p, hp1, hp2⟩ := srcC x hx
              exact Or.inr ⟨p, hp1, hq2.none hp2⟩
            · rcases srcR x hx with h | ⟨p, hp1, _, hp3⟩
              · exact Or.inl (List.mem_cons_of_mem _ h)
              · exact Or.inr ⟨p, hp1, hp3⟩
          · intro x hx
            rcases List.mem_append.mp hx with hx | hx
            · -- kept by the recursive call, and not touched by the rest
              apply Classical.byContradiction
              intro hno
              obtain ⟨p, hp1, hp2⟩ := srcC x hx
              rcases pr.del x (pc.kept x hx) hno with h | ⟨p', h, _⟩
              · exact hdet_rest x h p hp1
              · have e1 := tl.parent p x hp1
                have e2 := tl.parent p' x (hq1.hasChild h)
                rw [e1] at e2; cases e2
                obtain ⟨m, hm, _⟩ := h
                rw [hp2] at hm; cases hm
            · exact pr.kept x hx
          · intro p h1 h2
            by_cases hpa : p = a
            · exact Or.inl (by simp [hpa])
            · -- deleted by the recursive call or by the rest
              by_cases hmid : hasNode (prune fuel n.children ({ q with groupNodes := aerase q.groupNodes a }, acc)).1 p
              · rcases pr.del p hmid h2 with h | ⟨p', h, h'⟩
                · exact Or.inl (List.mem_cons_of_mem _ h)
                · exact Or.inr ⟨p', hq1.hasChild h, h'⟩
              · have h1a : hasNode { q with groupNodes := aerase q.groupNodes a } p := by
                  obtain ⟨m, hm⟩ := h1
                  exact ⟨m, by simp only; rw [alookup_aerase_ne _ _ _ (fun e => hpa e.symm)]; exact hm⟩
                rcases pc.del p h1a hmid with h | ⟨p', h, h'⟩
                · exact Or.inr ⟨a, ⟨n, hl, h⟩, hq2.none hq1a⟩
                · exact Or.inr ⟨p', hqa.hasChild h, hq2.none h'⟩

end Gql.Async
