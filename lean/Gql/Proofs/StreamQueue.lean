import Gql.Async.StreamQueue
/-!
Lemmas about the `StreamItemQueue.batches()` model: what is delivered is always a prefix, in
queue order, of the values the queue will ever hold before its first failure.
-/
namespace Gql.Async

/-- The values the queue delivers if nothing fails first: entries in order, pending futures
settled as scripted, up to the first rejected future / end / error entry. -/
def sqFinal (es : List SQEntry) : List Nat := sqValues (es.map resolveFut)

theorem sqFinal_item (v : Nat) (r : List SQEntry) : sqFinal (.item v :: r) = v :: sqFinal r := rfl
theorem sqFinal_done (v : Nat) (r : List SQEntry) : sqFinal (.doneFut v :: r) = v :: sqFinal r := rfl

theorem sqFinal_resolve (h : SQEntry) (r : List SQEntry) :
    sqFinal (resolveFut h :: r) = sqFinal (h :: r) := by
  cases h <;> simp [sqFinal, resolveFut]
  rename_i i
  by_cases h1 : i % 4 = 1
  · simp [h1, sqValues]
  · by_cases h3 : i % 4 = 3 <;> simp [h1, h3, sqValues]

def heldList : Option SQEntry → List SQEntry
  | none => []
  | some h => [h]

/-- The inner collection loop splits the remaining values exactly. -/
theorem sqCollect_split (r : List SQEntry) (acc : List Nat) :
    ∃ k, acc ++ sqFinal r =
      (sqCollect r acc).1 ++ k ∧
      k = sqFinal (heldList (sqCollect r acc).2.1 ++ (sqCollect r acc).2.2.1) := by
  induction r generalizing acc with
  | nil => exact ⟨[], by simp [sqCollect, sqFinal, sqValues, heldList]⟩
  | cons e r ih =>
    cases e with
    | item v =>
      obtain ⟨k, h1, h2⟩ := ih (acc ++ [v])
      refine ⟨k, ?_, ?_⟩
      · simp only [sqCollect, sqFinal_item]; rw [← h1]; simp
      · simpa [sqCollect] using h2
    | doneFut v =>
      obtain ⟨k, h1, h2⟩ := ih (acc ++ [v])
      refine ⟨k, ?_, ?_⟩
      · simp only [sqCollect, sqFinal_done]; rw [← h1]; simp
      · simpa [sqCollect] using h2
    | pendingFut i => exact ⟨_, by simp [sqCollect, heldList], rfl⟩
    | failedFut i => exact ⟨_, by simp [sqCollect, heldList], rfl⟩
    | cancelledFut i => exact ⟨_, by simp [sqCollect, heldList], rfl⟩
    | endMark => exact ⟨_, by simp [sqCollect, heldList], rfl⟩
    | errorMark => exact ⟨_, by simp [sqCollect, heldList], rfl⟩

/-- Everything a run of `batches()` delivers is a prefix of the queue's values, in order. -/
theorem sqRun_prefix (n : Nat) (held : Option SQEntry) (es : List SQEntry) :
    sqDelivered (sqRun n held es) <+: sqFinal (heldList held ++ es) := by
  induction n generalizing held es with
  | zero => simp [sqRun, sqDelivered]
  | succ n ih =>
    -- normalise to "head entry h, rest r"
    have key : ∀ (h : SQEntry) (r : List SQEntry) (held' : Option SQEntry) (es' : List SQEntry),
        heldList held' ++ es' = h :: r →
        (held' = some h ∧ es' = r) ∨ (held' = none ∧ es' = h :: r) := by
      intro h r held' es' hh
      cases held' with
      | none => right; simpa [heldList] using hh
      | some x => left; simp [heldList] at hh; simp [hh.1, hh.2]
    cases hl : heldList held ++ es with
    | nil =>
      have : held = none ∧ es = [] := by
        cases held <;> simp [heldList] at hl; exact ⟨rfl, hl⟩
      simp [sqRun, batchesStep, this.1, this.2, sqDelivered]
    | cons h r =>
      cases h with
      | pendingFut i =>
        have e1 : batchesStep held es = .wait i := by
          rcases key _ r held es hl with ⟨h1, h2⟩ | ⟨h1, h2⟩ <;> simp [batchesStep, h1, h2]
        rcases key _ r held es hl with ⟨h1, h2⟩ | ⟨h1, h2⟩
        · subst h1; subst h2
          simp only [sqRun, e1, sqDelivered]
          have := ih (some (resolveFut (.pendingFut i))) es
          simpa [heldList, sqFinal_resolve] using this
        · subst h1; subst h2
          simp only [sqRun, e1, sqDelivered]
          have := ih none (resolveFut (.pendingFut i) :: r)
          simpa [heldList, sqFinal_resolve] using this
      | failedFut i =>
        have e1 : batchesStep held es = .raise true := by
          rcases key _ r held es hl with ⟨h1, h2⟩ | ⟨h1, h2⟩ <;> simp [batchesStep, h1, h2]
        simp [sqRun, e1, sqDelivered]
      | cancelledFut i =>
        have e1 : batchesStep held es = sqSkip r := by
          rcases key _ r held es hl with ⟨h1, h2⟩ | ⟨h1, h2⟩ <;> simp [batchesStep, h1, h2]
        have hskip : ∀ l : List SQEntry, sqSkip l = .park ∨ sqSkip l = .finish ∨ sqSkip l = .raise false := by
          intro l
          induction l with
          | nil => simp [sqSkip]
          | cons a l ih => cases a <;> simp [sqSkip, ih]
        rcases hskip r with h | h | h <;> simp [sqRun, e1, h, sqDelivered]
      | endMark =>
        have e1 : batchesStep held es = .finish := by
          rcases key _ r held es hl with ⟨h1, h2⟩ | ⟨h1, h2⟩ <;> simp [batchesStep, h1, h2]
        simp [sqRun, e1, sqDelivered]
      | errorMark =>
        have e1 : batchesStep held es = .raise false := by
          rcases key _ r held es hl with ⟨h1, h2⟩ | ⟨h1, h2⟩ <;> simp [batchesStep, h1, h2]
        simp [sqRun, e1, sqDelivered]
      | item v =>
        have e1 : batchesStep held es =
            .yield (sqCollect r [v]).1 (sqCollect r [v]).2.1 (sqCollect r [v]).2.2.1 (sqCollect r [v]).2.2.2 := by
          rcases key _ r held es hl with ⟨h1, h2⟩ | ⟨h1, h2⟩ <;> simp [batchesStep, h1, h2]
        obtain ⟨k, h1, h2⟩ := sqCollect_split r [v]
        simp only [sqRun, e1, sqDelivered]
        have hf : sqFinal (SQEntry.item v :: r) = (sqCollect r [v]).1 ++ k := by
          rw [sqFinal_item]; simpa using h1
        rw [hf]
        refine (List.prefix_append_right_inj _).mpr ?_
        rw [h2]
        exact ih _ _
      | doneFut v =>
        have e1 : batchesStep held es =
            .yield (sqCollect r [v]).1 (sqCollect r [v]).2.1 (sqCollect r [v]).2.2.1 (sqCollect r [v]).2.2.2 := by
          rcases key _ r held es hl with ⟨h1, h2⟩ | ⟨h1, h2⟩ <;> simp [batchesStep, h1, h2]
        obtain ⟨k, h1, h2⟩ := sqCollect_split r [v]
        simp only [sqRun, e1, sqDelivered]
        have hf : sqFinal (SQEntry.doneFut v :: r) = (sqCollect r [v]).1 ++ k := by
          rw [sqFinal_done]; simpa using h1
        rw [hf]
        refine (List.prefix_append_right_inj _).mpr ?_
        rw [h2]
        exact ih _ _

end Gql.Async
