import Gql.Async.Publisher
/-!
Lemmas about the `WorkQueue` model needed for clause P7: graph-event handlers never emit the
termination event; `settle` emits it at most once, as the last event of the last batch, and
emits nothing once the queue is stopped.
-/
namespace Gql.Async
open Gql.Spec.Protocol

theorem foldl_inv {α β : Type} (P : β → Prop) (f : β → α → β) (l : List α) (b : β)
    (h0 : P b) (hs : ∀ b a, P b → P (f b a)) : P (l.foldl f b) := by
  induction l generalizing b with
  | nil => exact h0
  | cons a l ih => exact ih _ (hs b a h0)

def NoTerm (evs : List WQEvent) : Prop := ∀ e ∈ evs, e.isTerm = false

theorem NoTerm.nil : NoTerm [] := fun _ h => by simp at h

theorem NoTerm.append {a b : List WQEvent} (ha : NoTerm a) (hb : NoTerm b) : NoTerm (a ++ b) := by
  intro e he
  rcases List.mem_append.mp he with h | h
  · exact ha e h
  · exact hb e h

theorem groupEvents_noTerm (g : Nat) (v : List GVal) (ng ns : List Nat) :
    NoTerm (groupEvents g v ng ns) := by
  intro e he
  unfold groupEvents at he
  split at he <;> simp at he <;> rcases he with rfl | rfl <;> rfl

theorem finishGroupSuccess_noTerm (σ : Static) (q : WQ) (g : Nat) (n : GroupNode) :
    NoTerm (finishGroupSuccess σ q g n).2.1 := groupEvents_noTerm _ _ _ _

theorem successStep_noTerm (σ : Static) (acc : WQ × List WQEvent × List Nat × List Nat) (g : Nat)
    (h : NoTerm acc.2.1) : NoTerm (successStep σ acc g).2.1 := by
  unfold successStep
  split
  · simp only
    split
    · exact h.append (finishGroupSuccess_noTerm σ _ g _)
    · exact h
  · exact h

theorem taskSuccess_noTerm (σ : Static) (q : WQ) (t : Nat) (r : TResult) :
    NoTerm (taskSuccess σ q t r).2 := by
  unfold taskSuccess
  exact foldl_inv (fun acc : WQ × List WQEvent × List Nat × List Nat => NoTerm acc.2.1) _ _ _
    NoTerm.nil (fun acc g h => successStep_noTerm σ acc g h)

theorem failureStep_noTerm (σ : Static) (acc : WQ × List WQEvent) (g : Nat) (h : NoTerm acc.2) :
    NoTerm (failureStep σ acc g).2 := by
  unfold failureStep
  split
  · exact h.append (fun e he => by simp [finishGroupFailure] at he; subst he; rfl)
  · exact h

theorem taskFailure_noTerm (σ : Static) (q : WQ) (t : Nat) : NoTerm (taskFailure σ q t).2 := by
  unfold taskFailure
  exact foldl_inv (fun acc : WQ × List WQEvent => NoTerm acc.2) _ _ _ NoTerm.nil
    (fun acc g h => failureStep_noTerm σ acc g h)

theorem streamItems_noTerm (σ : Static) (q : WQ) (s : Nat) (items : List IResult) (st : Bool) :
    NoTerm (streamItems σ q s items st).2 := by
  unfold streamItems
  simp only
  split <;> intro e he <;> simp at he
  · rcases he with rfl | rfl <;> rfl
  · subst he; rfl

theorem handleGraphEvent_noTerm (σ : Static) (q : WQ) (e : GraphEvent) :
    NoTerm (handleGraphEvent σ q e).2 := by
  cases e with
  | taskSuccess t r => exact taskSuccess_noTerm σ q t r
  | taskFailure t => exact taskFailure_noTerm σ q t
  | streamItems s items st => exact streamItems_noTerm σ q s items st
  | streamSuccess s =>
    simp only [handleGraphEvent]
    split <;> intro e he <;> simp at he
    subst he; rfl
  | streamFailure s => intro e he; simp [handleGraphEvent] at he; subst he; rfl
  | stop => exact NoTerm.nil

theorem drain_noTerm (σ : Static) (fuel : Nat) (q : WQ) (acc : List WQEvent) (h : NoTerm acc) :
    NoTerm (drain σ fuel q acc).2 := by
  induction fuel generalizing q acc with
  | zero => exact h
  | succ n ih =>
    unfold drain
    split
    · exact h
    · exact ih _ _ (h.append (handleGraphEvent_noTerm σ _ _))

/-- A batch either carries no termination event, or it ends with the only one and stops the queue. -/
theorem batch_spec (σ : Static) (fuel : Nat) (q : WQ) :
    NoTerm (batch σ fuel q).2 ∨
    ((batch σ fuel q).1.stopped = true ∧
      ∃ pre, (batch σ fuel q).2 = pre ++ [.termination] ∧ NoTerm pre) := by
  unfold batch
  have h := drain_noTerm σ fuel q [] NoTerm.nil
  simp only
  split
  · right; exact ⟨rfl, _, rfl, h⟩
  · left; exact h

theorem push_stopped (q : WQ) (e : GraphEvent) : (push q e).stopped = q.stopped := by
  unfold push; split <;> rfl

theorem foldl_push_stopped (q : WQ) (es : List GraphEvent) : (es.foldl push q).stopped = q.stopped := by
  induction es generalizing q with
  | nil => rfl
  | cons e es ih => simp only [List.foldl_cons]; rw [ih, push_stopped]

/-- Batches without any termination event. -/
def AllNoTerm (bs : List (List WQEvent)) : Prop := ∀ b ∈ bs, NoTerm b

/-- The shape of what `settle` appends: batches without termination, optionally followed by one
last batch that ends with the termination event — and then the queue is stopped. -/
def SettleShape (stoppedAfter : Bool) (new : List (List WQEvent)) : Prop :=
  AllNoTerm new ∨
  (stoppedAfter = true ∧ ∃ pre last lastPre, new = pre ++ [last] ∧ AllNoTerm pre ∧
    last = lastPre ++ [.termination] ∧ NoTerm lastPre)

theorem settle_stopped (σ : Static) (fuel n : Nat) (q : WQ) (acc : List (List WQEvent))
    (h : q.stopped = true) :
    settle σ fuel (n + 1) q acc = ({ q with deferred := [], channel := [] }, acc) := by
  simp [settle, h]

theorem settle_idle (σ : Static) (fuel n : Nat) (q : WQ) (acc : List (List WQEvent))
    (h : q.stopped = false) (hc : q.channel = []) (hd : q.deferred = []) :
    settle σ fuel (n + 1) q acc = (q, acc) := by
  simp [settle, h, hc, hd]

theorem settle_deferred (σ : Static) (fuel n : Nat) (q : WQ) (acc : List (List WQEvent))
    (h : q.stopped = false) (hc : q.channel = []) (d : GraphEvent) (ds : List GraphEvent)
    (hd : q.deferred = d :: ds) :
    settle σ fuel (n + 1) q acc =
      settle σ fuel n ((d :: ds).foldl push { q with deferred := [] }) acc := by
  simp [settle, h, hc, hd]

theorem settle_batch (σ : Static) (fuel n : Nat) (q : WQ) (acc : List (List WQEvent))
    (h : q.stopped = false) (e : GraphEvent) (es : List GraphEvent) (hc : q.channel = e :: es) :
    settle σ fuel (n + 1) q acc =
      settle σ fuel n (batch σ fuel q).1
        (if (batch σ fuel q).2.isEmpty then acc else acc ++ [(batch σ fuel q).2]) := by
  simp [settle, h, hc]

theorem settle_spec (σ : Static) (fuel n : Nat) (q : WQ) (acc : List (List WQEvent)) :
    ∃ new, (settle σ fuel n q acc).2 = acc ++ new ∧
      SettleShape (settle σ fuel n q acc).1.stopped new ∧
      (q.stopped = true → new = [] ∧ (settle σ fuel n q acc).1.stopped = true) := by
  induction n generalizing q acc with
  | zero => exact ⟨[], by simp [settle], Or.inl (fun _ h => by simp at h), fun h => ⟨rfl, h⟩⟩
  | succ n ih =>
    cases hs : q.stopped with
    | true =>
      rw [settle_stopped σ fuel n q acc hs]
      exact ⟨[], by simp, Or.inl (fun _ h => by simp at h), fun _ => ⟨rfl, hs⟩⟩
    | false =>
      cases hc : q.channel with
      | nil =>
        cases hd : q.deferred with
        | nil =>
          rw [settle_idle σ fuel n q acc hs hc hd]
          exact ⟨[], by simp, Or.inl (fun _ h => by simp at h), fun h => by simp at h⟩
        | cons d ds =>
          rw [settle_deferred σ fuel n q acc hs hc d ds hd]
          obtain ⟨new, h1, h2, _⟩ := ih (List.foldl push { q with deferred := [] } (d :: ds)) acc
          exact ⟨new, h1, h2, fun h => by simp at h⟩
      | cons e es =>
        rw [settle_batch σ fuel n q acc hs e es hc]
        rcases batch_spec σ fuel q with hb | ⟨hst, pre, hpre, hnt⟩
        · -- a batch without termination, then whatever follows
          obtain ⟨new, h1, h2, _⟩ := ih (batch σ fuel q).1
            (if (batch σ fuel q).2.isEmpty then acc else acc ++ [(batch σ fuel q).2])
          cases he : (batch σ fuel q).2.isEmpty with
          | true =>
            simp only [he, if_true] at h1 h2 ⊢
            exact ⟨new, h1, h2, fun h => by simp at h⟩
          | false =>
            simp only [he] at h1 h2 ⊢
            refine ⟨(batch σ fuel q).2 :: new, by simpa using h1, ?_, fun h => by simp at h⟩
            rcases h2 with h2 | ⟨h2a, pre', last, lp, e1, e2, e3, e4⟩
            · left; intro b hb'
              rcases List.mem_cons.mp hb' with rfl | hb'
              · exact hb
              · exact h2 b hb'
            · right
              refine ⟨h2a, (batch σ fuel q).2 :: pre', last, lp, by simp [e1], ?_, e3, e4⟩
              intro b hb'
              rcases List.mem_cons.mp hb' with rfl | hb'
              · exact hb
              · exact e2 b hb'
        · -- the termination batch: the queue is stopped, nothing follows
          obtain ⟨new, h1, _, h3⟩ := ih (batch σ fuel q).1
            (if (batch σ fuel q).2.isEmpty then acc else acc ++ [(batch σ fuel q).2])
          obtain ⟨hnew, hst'⟩ := h3 hst
          subst hnew
          have he : (batch σ fuel q).2.isEmpty = false := by rw [hpre]; simp
          simp only [he] at h1 hst' ⊢
          refine ⟨[(batch σ fuel q).2], by simpa using h1, ?_, fun h => by simp at h⟩
          right
          exact ⟨hst', [], _, pre, by simp, fun _ h => by simp at h, hpre, hnt⟩

end Gql.Async
