import Gql.Proofs.OverlapPure2
/-! C14, named fragments, completeness (3): every pair of fields of an expanded selection set
passed (in one order); hence no unordered conflict. -/
namespace Gql.Exec
open Overlap

section pure
variable {s : Schema} {d : Doc} {T : St} (hC : Closed s d T)
  (hW : ∀ t ∈ d.typedSets s, WithinOK s d T t) (hU : TypedIdsUnique s d) (hK : KeysInj d)

/-- a member of the closure of fragment `nn`, as a member of the expanded set of its definition -/
theorem fragFields_inEN {L : Nat} {nn : String} {c : Spec.FieldInst}
    (h : FragFieldsN s d L nn c) : ∃ tf, fragSet s d nn = some tf ∧ InEN s d tf L c := by
  obtain ⟨m, hreach, hf⟩ := h
  cases hreach with
  | refl _ =>
    obtain ⟨tf, hfs, hc⟩ := hf
    exact ⟨tf, hfs, Or.inl ⟨rfl, hc⟩⟩
  | step he hrest =>
    obtain ⟨fr, hfr, hn'⟩ := he
    exact ⟨(s.typeFromAst fr.typeCond, fr.ss), by simp [fragSet, hfr],
      Or.inr ⟨_, hn', _, rfl, m, hrest, hf⟩⟩

include hC hW hU hK in
theorem wl_frl : ∀ M : Nat,
    (∀ (t : TSet) (k1 k2 : Nat) (c1 c2 : Spec.FieldInst), t ∈ d.typedSets s → k1 + k2 = M →
      InEN s d t k1 c1 → InEN s d t k2 c2 → c1.node.responseName = c2.node.responseName →
      Out s d T false c1 c2) ∧
    (∀ (n1 n2 : String) (q : Bool) (L1 L2 : Nat) (c1 c2 : Spec.FieldInst), n1 ∈ d.spreadNames →
      n2 ∈ d.spreadNames → L1 + L2 = M → CovFR T (keyOf d n1) (keyOf d n2) q →
      FragFieldsN s d L1 n1 c1 → FragFieldsN s d L2 n2 c2 →
      c1.node.responseName = c2.node.responseName → Out s d T q c1 c2) := by
  intro M
  induction M using Nat.strongRecOn with
  | _ M ih =>
    have WL : ∀ (t : TSet) (k1 k2 : Nat) (c1 c2 : Spec.FieldInst), t ∈ d.typedSets s →
        k1 + k2 = M → InEN s d t k1 c1 → InEN s d t k2 c2 →
        c1.node.responseName = c2.node.responseName → Out s d T false c1 c2 := by
      intro t k1 k2 c1 c2 ht hM h1 h2 hrn
      rcases h1 with ⟨_, o1⟩ | ⟨n1, hn1, j1, e1, f1⟩
      · rcases h2 with ⟨_, o2⟩ | ⟨n2, hn2, j2, _, f2⟩
        · exact own_pair hW ht o1 o2 hrn
        · exact ffl hC hW hU j2 t n2 false ht (spread_name_mem ht hn2) ((hW t ht).2.1 n2 hn2)
            c1 o1 c2 f2 hrn
      · rcases h2 with ⟨_, o2⟩ | ⟨n2, hn2, j2, e2, f2⟩
        · exact (ffl hC hW hU j1 t n1 false ht (spread_name_mem ht hn1) ((hW t ht).2.1 n1 hn1)
            c2 o2 c1 f1 hrn.symm).symm
        · exact (ih (j1 + j2) (by omega)).2 n1 n2 false j1 j2 c1 c2 (spread_name_mem ht hn1)
            (spread_name_mem ht hn2) rfl ((hW t ht).2.2 n1 hn1 n2 hn2) f1 f2 hrn
    refine ⟨WL, ?_⟩
    -- one orientation of a recorded fragment/fragment comparison
    have FRstep : ∀ (n1 n2 : String) (r : Bool) (L1 L2 : Nat) (c1 c2 : Spec.FieldInst),
        n1 ∈ d.spreadNames → n2 ∈ d.spreadNames → L1 + L2 = M → FRok s d T n1 n2 r →
        FragFieldsN s d L1 n1 c1 → FragFieldsN s d L2 n2 c2 →
        c1.node.responseName = c2.node.responseName → Out s d T r c1 c2 := by
      intro n1 n2 r L1 L2 c1 c2 hm1 hm2 hM hok f1 f2 hrn
      obtain ⟨t1, hfs1, _⟩ := fragFields_inEN f1
      obtain ⟨t2, hfs2, _⟩ := fragFields_inEN f2
      obtain ⟨hpp, hc2, hc1⟩ := hok t1 t2 hfs1 hfs2
      obtain ⟨m2, hreach2, hfm2⟩ := f2
      cases hreach2 with
      | @step k _ _ _ he hrest =>
        obtain ⟨fr, hfr, hn'⟩ := he
        have e : t2 = (s.typeFromAst fr.typeCond, fr.ss) := by
          simp [fragSet, hfr] at hfs2; exact hfs2.symm
        subst e
        exact (ih (L1 + k) (by omega)).2 n1 _ r L1 k c1 c2 hm1
          (spread_name_mem (fragSet_typed hfs2) hn') rfl (hc2 _ hn') f1 ⟨m2, hrest, hfm2⟩ hrn
      | refl _ =>
        obtain ⟨m1, hreach1, hfm1⟩ := f1
        cases hreach1 with
        | @step k _ _ _ he hrest =>
          obtain ⟨fr, hfr, hn'⟩ := he
          have e : t1 = (s.typeFromAst fr.typeCond, fr.ss) := by
            simp [fragSet, hfr] at hfs1; exact hfs1.symm
          subst e
          exact (ih (k + 0) (by omega)).2 _ n2 r k 0 c1 c2
            (spread_name_mem (fragSet_typed hfs1) hn') hm2 rfl (hc1 _ hn') ⟨m1, hrest, hfm1⟩
            ⟨n2, FReachN.refl _, hfm2⟩ hrn
        | refl _ =>
          obtain ⟨t1', hfs1', hcc1⟩ := hfm1
          obtain ⟨t2', hfs2', hcc2⟩ := hfm2
          rw [hfs1] at hfs1'
          rw [hfs2] at hfs2'
          cases hfs1'
          cases hfs2'
          exact Or.inl (Or.inl (hpp c1 hcc1 c2 hcc2 hrn))
    intro n1 n2 q L1 L2 c1 c2 hm1 hm2 hM hcov f1 f2 hrn
    -- both inside one fragment's closure
    have same : keyOf d n1 = keyOf d n2 → Out s d T q c1 c2 := by
      intro hk
      have e : n1 = n2 := hK n1 hm1 n2 hm2 hk
      subst e
      obtain ⟨tf, hfs, i1⟩ := fragFields_inEN f1
      obtain ⟨tf', hfs', i2⟩ := fragFields_inEN f2
      rw [hfs] at hfs'
      cases hfs'
      exact (WL tf L1 L2 c1 c2 (fragSet_typed hfs) hM i1 i2 hrn).weaken (fun h => by cases h)
    rcases hcov with hk | hh
    · exact same hk
    · by_cases hk : keyOf d n1 = keyOf d n2
      · exact same hk
      · obtain ⟨r, hr, himp⟩ := cmpHas_entry hh
        rcases hC.2 n1 hm1 n2 hm2 r hk hr with hok | hok
        · exact (FRstep n1 n2 r L1 L2 c1 c2 hm1 hm2 hM hok f1 f2 hrn).weaken himp
        · exact ((FRstep n2 n1 r L2 L1 c2 c1 hm2 hm1 (by omega) hok f2 f1 hrn.symm).symm).weaken himp

include hC hW hU hK in
/-- two members of one expanded set passed, in full mode -/
theorem wl {t : TSet} (ht : t ∈ d.typedSets s) {c1 c2 : Spec.FieldInst}
    (h1 : InE s d t.1 t.2.sels c1) (h2 : InE s d t.1 t.2.sels c2)
    (hrn : c1.node.responseName = c2.node.responseName) : Out s d T false c1 c2 := by
  obtain ⟨k1, i1⟩ := h1.toN
  obtain ⟨k2, i2⟩ := h2.toN
  exact (wl_frl hC hW hU hK (k1 + k2)).1 t k1 k2 c1 c2 ht rfl i1 i2 hrn

include hC hW hU hK in
/-- a member of each sub-selection of a pair that passed -/
theorem sub_pair {excl : Bool} {a b : Spec.FieldInst} (ha : DocInst s d a) (hb : DocInst s d b)
    (hp : PPass s d T excl a b) {c1 c2 : Spec.FieldInst}
    (h1 : InE s d (subP s a) (subSels a) c1) (h2 : InE s d (subP s b) (subSels b) c2)
    (hrn : c1.node.responseName = c2.node.responseName) :
    Out s d T (!Spec.deeper s ⟨a, b, !excl⟩) c1 c2 := by
  have hsa := subSels_mem h1
  have hsb := subSels_mem h2
  rw [subSels_eq hsa] at h1
  rw [subSels_eq hsb] at h2
  have hta : (subP s a, a.node.subSet) ∈ d.typedSets s := ha.sub hsa
  have htb : (subP s b, b.node.subSet) ∈ d.typedSets s := hb.sub hsb
  cases hp with
  | mk _ hsub hcov =>
    obtain ⟨x1, x2, x3⟩ := hcov hsa hsb
    rcases h1 with o1 | ⟨n1, hn1, m1, hr1, hf1⟩
    · rcases h2 with o2 | ⟨n2, hn2, m2, hr2, hf2⟩
      · exact Or.inl (Or.inl (hsub hsa hsb c1 o1 c2 o2 hrn))
      · obtain ⟨j, hj⟩ := hr2.toN
        exact ffl hC hW hU j (subP s a, a.node.subSet) n2 _ hta (spread_name_mem htb hn2)
          (x1 n2 hn2) c1 o1 c2 ⟨m2, hj, hf2⟩ hrn
    · obtain ⟨j1, hj1⟩ := hr1.toN
      rcases h2 with o2 | ⟨n2, hn2, m2, hr2, hf2⟩
      · exact (ffl hC hW hU j1 (subP s b, b.node.subSet) n1 _ htb (spread_name_mem hta hn1)
          (x2 n1 hn1) c2 o2 c1 ⟨m1, hj1, hf1⟩ hrn.symm).symm
      · obtain ⟨j2, hj2⟩ := hr2.toN
        exact (wl_frl hC hW hU hK (j1 + j2)).2 n1 n2 _ j1 j2 c1 c2 (spread_name_mem hta hn1)
          (spread_name_mem htb hn2) rfl (x3 n1 hn1 n2 hn2) ⟨m1, hj1, hf1⟩ ⟨m2, hj2, hf2⟩ hrn

end pure

section refute
variable {s : Schema} {d : Doc} {T : St} (hC : Closed s d T)
  (hW : ∀ t ∈ d.typedSets s, WithinOK s d T t) (hU : TypedIdsUnique s d) (hK : KeysInj d)
  (hA : ∀ a, DocInst s d a → a.node.argsOK)
include hC hW hU hK hA

theorem no_uconf : ∀ n : Nat,
    (∀ excl a b, DocInst s d a → DocInst s d b → PPass s d T excl a b →
      ¬ UConfN s d n (!excl) a b) ∧
    (∀ c f, DocInst s d c → ¬ UConfN s d n f c c) := by
  intro n
  induction n with
  | zero =>
    refine ⟨?_, ?_⟩
    · intro excl a b _ _ hp hu
      cases hu with
      | here hd => cases hp with | mk hd' _ _ => rw [hd'] at hd; cases hd
    · intro c f hc hu
      cases hu with
      | here hd => rw [direct_self s (hA c hc)] at hd; cases hd
  | succ n ih =>
    obtain ⟨IH1, IH2⟩ := ih
    -- an outcome for a pair refutes a conflict of that pair
    have refute : ∀ (e : Bool) (c1 c2 : Spec.FieldInst), DocInst s d c1 → DocInst s d c2 →
        Out s d T e c1 c2 → ¬ UConfN s d n (!e) c1 c2 := by
      intro e c1 c2 d1 d2 ho hu
      rcases ho with (hp | hp) | he
      · exact IH1 e c1 c2 d1 d2 hp hu
      · exact IH1 e c2 c1 d2 d1 hp (hu.symm hA d1 d2)
      · subst he; exact IH2 c1 _ d1 hu
    have within : ∀ (x c1 c2 : Spec.FieldInst) (f : Bool), DocInst s d x →
        InE s d (subP s x) (subSels x) c1 → InE s d (subP s x) (subSels x) c2 →
        c1.node.responseName = c2.node.responseName → ¬ UConfN s d n f c1 c2 := by
      intro x c1 c2 f hx e1 e2 hrn hu
      have hs := subSels_mem e1
      have d1 := InE.sub_docInst hx e1
      have d2 := InE.sub_docInst hx e2
      rw [subSels_eq hs] at e1 e2
      have ho := wl hC hW hU hK (t := (subP s x, x.node.subSet)) (hx.sub hs) e1 e2 hrn
      exact refute false c1 c2 d1 d2 ho (by simpa using hu.mono_full (full' := true) (fun _ => rfl))
    refine ⟨?_, ?_⟩
    · intro excl a b ha hb hp hu
      cases hu with
      | here hd => cases hp with | mk hd' _ _ => rw [hd'] at hd; cases hd
      | @sub _ _ _ _ c1 c2 h1 h2 hrn hc =>
        rcases h1 with e1 | e1
        · rcases h2 with e2 | e2
          · exact within a c1 c2 _ ha e1 e2 hrn hc
          · have ho := sub_pair hC hW hU hK ha hb hp e1 e2 hrn
            exact refute _ c1 c2 (InE.sub_docInst ha e1) (InE.sub_docInst hb e2) ho
              (by rw [Bool.not_not]; exact hc)
        · rcases h2 with e2 | e2
          · have ho := (sub_pair hC hW hU hK ha hb hp e2 e1 hrn.symm).symm
            exact refute _ c1 c2 (InE.sub_docInst hb e1) (InE.sub_docInst ha e2) ho
              (by rw [Bool.not_not]; exact hc)
          · exact within b c1 c2 _ hb e1 e2 hrn hc
    · intro c f hc hu
      cases hu with
      | here hd => rw [direct_self s (hA c hc)] at hd; cases hd
      | @sub _ _ _ _ c1 c2 h1 h2 hrn hcc =>
        have e1 : InE s d (subP s c) (subSels c) c1 := by rcases h1 with h | h <;> exact h
        have e2 : InE s d (subP s c) (subSels c) c2 := by rcases h2 with h | h <;> exact h
        exact within c c1 c2 _ hc e1 e2 hrn hcc

/-- Closed tables and passing visits: no two fields of an expanded set conflict. -/
theorem no_uwconf : ¬ UWConf s d := by
  rintro ⟨t, ht, c1, c2, h1, h2, hrn, n, hu⟩
  obtain ⟨IH1, IH2⟩ := no_uconf hC hW hU hK hA n
  have d1 := InE.docInst ht h1
  have d2 := InE.docInst ht h2
  rcases wl hC hW hU hK ht h1 h2 hrn with (hp | hp) | he
  · exact IH1 false c1 c2 d1 d2 hp (by simpa using hu)
  · exact IH1 false c2 c1 d2 d1 hp (by simpa using hu.symm hA d1 d2)
  · subst he; exact IH2 c1 _ d1 hu

end refute

end Gql.Exec
