import Gql.Syntax.Parser
import Gql.Proofs.TokenLex
/-!
From `lexAll` to the parser's lazily lexed `Stream`, and the parser's token-level primitives on a
stream whose tokens are known (no `max_tokens`).
-/
namespace Gql.Syntax
open Gql Gql.Text

/-- The stream that holds the given tokens; the `<EOF>` token ends it. -/
def toStream : List Token → Stream
  | [] => .crash "NoEOF"
  | t :: rest => if t.kind = .eof then .eof t.start t.line t.column else .cons t (toStream rest)

/-- `streamAux` and `lexAllAux` walk the text in the same way. -/
theorem streamAux_of_lexAllAux (body : List Nat) :
    ∀ (fuel : Nat) (st : LexState) (pos : Nat) (acc ts : List Token),
      lexAllAux body fuel st pos acc = .ok ts →
      ∃ ts', ts = acc ++ ts' ∧ streamAux body fuel st pos = toStream ts' := by
  intro fuel
  induction fuel with
  | zero => intro st pos acc ts h; simp [lexAllAux] at h
  | succ fuel ih =>
    intro st pos acc ts h
    rw [lexAllAux] at h
    cases hr : readNextToken body st pos with
    | err e => simp [hr] at h
    | crash c => simp [hr] at h
    | ok p =>
      obtain ⟨t, st'⟩ := p
      simp only [hr, Out.bind_ok] at h
      by_cases he : t.kind = .eof
      · simp only [he, ↓reduceIte, Out.pure_eq, Out.ok.injEq] at h
        refine ⟨[t], h.symm, ?_⟩
        simp [streamAux, hr, he, toStream]
      · simp only [he, ↓reduceIte] at h
        by_cases hc : t.kind = .comment
        · simp only [hc, ↓reduceIte] at h
          obtain ⟨ts', h1, h2⟩ := ih st' t.stop acc ts h
          exact ⟨ts', h1, by simp [streamAux, hr, he, hc, h2]⟩
        · simp only [hc, ↓reduceIte] at h
          obtain ⟨ts', h1, h2⟩ := ih st' t.stop (acc ++ [t]) ts h
          refine ⟨t :: ts', by simp [h1], ?_⟩
          simp [streamAux, hr, he, hc, h2, toStream]

theorem streamOf_of_lexAll (body : List Nat) (ts : List Token) (h : lexAll body = .ok ts) :
    streamOf body = toStream ts := by
  obtain ⟨ts', h1, h2⟩ := streamAux_of_lexAllAux body _ _ _ _ _ h
  simp at h1
  rw [streamOf, h2, h1]

/-- Put tokens in front of a stream. -/
def feed : List Token → Stream → Stream
  | [], r => r
  | t :: ts, r => .cons t (feed ts r)

/-- The state of the parser after advancing into a stream (token counter `c`). -/
def PSat (c : Nat) : Stream → PS
  | .cons t r => { cur := t, rest := r, count := c }
  | .eof a l cc => { cur := eofToken a l cc, rest := .eof a l cc, count := c }
  | .lexErr e => { cur := sofToken, rest := .lexErr e, count := c }
  | .crash x => { cur := sofToken, rest := .crash x, count := c }

/-- A stream the parser can advance into: a non-EOF token or the end. -/
def Stream.Ready : Stream → Prop
  | .cons t _ => t.kind ≠ .eof
  | .eof _ _ _ => True
  | _ => False

def cfg0 (fragArgs dirOnDir : Bool) : Cfg := { maxTokens := none, fragArgs, dirOnDir }

/-- `advance_lexer` from a state whose current token is not `<EOF>`. -/
theorem advance_PSat (cfg : Cfg) (hm : cfg.maxTokens = none) (t : Token) (r : Stream) (c : Nat)
    (ht : t.kind ≠ .eof) (hr : r.Ready) :
    ∃ c', advanceLexer cfg { cur := t, rest := r, count := c } = .ok ((), PSat c' r) := by
  unfold advanceLexer
  simp only [ht, ↓reduceIte]
  cases r with
  | cons t' r' =>
    have : t'.kind ≠ .eof := hr
    simp [this, hm, PSat]
  | eof a l cc => exact ⟨c, by simp [PSat]⟩
  | lexErr e => exact absurd hr (by simp [Stream.Ready])
  | crash x => exact absurd hr (by simp [Stream.Ready])

end Gql.Syntax

namespace Gql.Syntax
open Gql Gql.Text

def NonEof (ts : List Token) : Prop := ∀ t ∈ ts, t.kind ≠ .eof

theorem feed_ready (ts : List Token) (r : Stream) (h : NonEof ts) (hr : r.Ready) : (feed ts r).Ready := by
  cases ts with
  | nil => exact hr
  | cons t ts => exact h t (by simp)

theorem feed_append (a b : List Token) (r : Stream) : feed (a ++ b) r = feed a (feed b r) := by
  induction a with
  | nil => rfl
  | cons t a ih => simp [feed, ih]

@[simp] theorem PSat_cons (c : Nat) (t : Token) (r : Stream) :
    PSat c (.cons t r) = { cur := t, rest := r, count := c } := rfl

theorem bind_eq {α β : Type} (p : P α) (f : α → P β) (s : PS) :
    (p >>= f) s = match p s with
      | .ok (a, s') => f a s'
      | .err e => .err e
      | .crash c => .crash c := rfl

theorem pure_eq' {α : Type} (a : α) (s : PS) : (pure a : P α) s = .ok (a, s) := rfl

/-- `expect_token(kind)` on a matching (non-EOF) token. -/
theorem expectToken_ok (cfg : Cfg) (hm : cfg.maxTokens = none) (k : TokKind) (t : Token) (r : Stream)
    (c : Nat) (hk : t.kind = k) (ht : t.kind ≠ .eof) (hr : r.Ready) :
    ∃ c', expectToken cfg k { cur := t, rest := r, count := c } = .ok (t, PSat c' r) := by
  obtain ⟨c', h⟩ := advance_PSat cfg hm t r c ht hr
  refine ⟨c', ?_⟩
  simp only [expectToken, bind_eq, P.cur, hk, ↓reduceIte, h, pure_eq']

theorem expectOptionalToken_yes (cfg : Cfg) (hm : cfg.maxTokens = none) (k : TokKind) (t : Token)
    (r : Stream) (c : Nat) (hk : t.kind = k) (ht : t.kind ≠ .eof) (hr : r.Ready) :
    ∃ c', expectOptionalToken cfg k { cur := t, rest := r, count := c } = .ok (true, PSat c' r) := by
  obtain ⟨c', h⟩ := advance_PSat cfg hm t r c ht hr
  refine ⟨c', ?_⟩
  simp only [expectOptionalToken, bind_eq, P.cur, hk, ↓reduceIte, h, pure_eq']

theorem expectOptionalToken_no (cfg : Cfg) (k : TokKind) (s : PS) (hk : s.cur.kind ≠ k) :
    expectOptionalToken cfg k s = .ok (false, s) := by
  simp only [expectOptionalToken, bind_eq, P.cur, hk, ↓reduceIte, pure_eq']

/-- The current token of `PSat c s` for a ready stream. -/
def headKind : Stream → TokKind
  | .cons t _ => t.kind
  | _ => .eof

theorem PSat_cur_kind (c : Nat) (s : Stream) (hs : s.Ready) : (PSat c s).cur.kind = headKind s := by
  cases s with
  | cons t r => rfl
  | eof a l cc => rfl
  | lexErr e => exact absurd hs (by simp [Stream.Ready])
  | crash x => exact absurd hs (by simp [Stream.Ready])

theorem mkNode_name (v : Ast) : mkNode "NameNode" [("value", v)] = .node "NameNode" [("value", v)] := by
  rfl

/-- `parse_name` on a NAME token. -/
theorem parseName_ok (cfg : Cfg) (hm : cfg.maxTokens = none) (t : Token) (n : List Nat) (r : Stream)
    (c : Nat) (hk : t.kind = .name) (hv : t.value = some n) (hr : r.Ready) :
    ∃ c', parseName cfg { cur := t, rest := r, count := c } =
      .ok (.node "NameNode" [("value", .str n)], PSat c' r) := by
  obtain ⟨c', h⟩ := expectToken_ok cfg hm .name t r c hk (by rw [hk]; decide) hr
  refine ⟨c', ?_⟩
  simp only [parseName, bind_eq, h, pure_eq', mkNode_name, tokVal, hv]

end Gql.Syntax
