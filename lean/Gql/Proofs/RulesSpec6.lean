import Gql.Proofs.RulesSpec5
import Gql.Proofs.RulesUndefinedVars
/-!
C12 — `rule_iff_spec` for NoUndefinedVariables, stated on the document (spread graph) only.
-/
namespace Gql.Validation.Rules
open Gql.Validation

variable {τ : Type}

namespace Spec
/-- "Every variable used is defined" (spec §5.8.3): every variable definition has a name; and for every operation,
every variable occurring in it, or occurring in a fragment it reaches through spreads without being one of that
fragment's own (fragment-)variables, has a name that one of the operation's variable definitions defines. -/
def noUndefinedVariables (doc : ATree) : Prop :=
  (∀ vd ∈ doc.nodes, vd.kind = "variable_definition" → ((vd.kid "variable").bind (·.nameValue)).isSome = true) ∧
  ∀ op ∈ doc.nodes, op.kind = "operation_definition" →
    (∀ x ∈ variablesIn op, ∃ v, x.nameValue = some v ∧ v ∈ definedVars op) ∧
    (∀ ss, op.kid "selection_set" = some ss → ∀ m f, Reaches doc ss m → getFragment doc m = some f →
      ∀ x ∈ variablesIn f, fragVarDefined doc f.nameValue x.nameValue = false →
        ∃ v, x.nameValue = some v ∧ v ∈ definedVars op)
end Spec

theorem noUndefinedVariables_iff (tbl : TITable) (L : Lookups τ) (doc : ATree) (hu : doc.uniqueIds)
    (hno : ∀ n ∈ doc.nodes, n.kind = "operation_definition" →
      ∀ m ∈ ATree.nodesList n.children, m.kind ≠ "operation_definition") :
    validate tbl L none [(noUndefinedVariables doc, RS.init)] doc.erase = [] ↔ Spec.noUndefinedVariables doc := by
  rw [noUndefinedVariables_iff_getters tbl L doc hu hno]
  unfold Spec.noUndefinedVariables
  apply and_congr Iff.rfl
  apply forall_congr'; intro n
  apply imp_congr_right; intro _
  apply imp_congr_right; intro hk
  exact recUsages_forall_iff doc n hk (fun _ nm => ∃ v, nm = some v ∧ v ∈ definedVars n)

end Gql.Validation.Rules
