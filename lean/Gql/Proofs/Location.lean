import Gql.Text.Location
namespace Gql.Text
open Spec

/-- Scan of a prefix keeping (number of terminators seen, length of the current line). -/
def scan : List Nat → Nat → Nat → Nat × Nat
  | [], n, c => (n, c)
  | 13 :: 10 :: rest, n, _ => scan rest (n + 1) 0
  | 13 :: rest, n, _ => scan rest (n + 1) 0
  | 10 :: rest, n, _ => scan rest (n + 1) 0
  | _ :: rest, n, c => scan rest n (c + 1)

theorem scan_shift (s : List Nat) (n c k : Nat) :
    scan s (n + k) c = ((scan s n c).1 + k, (scan s n c).2) := by
  fun_induction scan s n c <;> simp_all [scan] <;> grind

theorem splitNLAux_ne_nil (s cur : List Nat) : splitNLAux s cur ≠ [] := by
  fun_induction splitNLAux s cur <;> simp_all

theorem splitNLAux_shape (s : List Nat) (cur : List Nat) :
    ∃ last, (splitNLAux s cur).getLast? = some last ∧
      (splitNLAux s cur).length = (scan s 0 cur.length).1 + 1 ∧
      last.length = (scan s 0 cur.length).2 := by
  fun_induction splitNLAux s cur
  · simp [scan]
  all_goals
    rename_i ih
    obtain ⟨last, h1, h2, h3⟩ := ih
    refine ⟨last, ?_, ?_, ?_⟩
    · simp_all [List.getLast?_cons]
      try (cases h : splitNLAux _ [] <;> simp_all [splitNLAux_ne_nil])
    · simp_all [scan, scan_shift _ 0 _ 1]
    · simp_all [scan, scan_shift _ 0 _ 1]

end Gql.Text

namespace Gql.Text
open Spec

theorem terms_end_gt (body : List Nat) (i : Nat) : ∀ t ∈ terms body i, i < t.2 := by
  fun_induction terms body i <;> simp_all <;> grind

theorem filter_terms_zero (body : List Nat) (i : Nat) :
    (terms body i).filter (fun t => t.2 ≤ i) = [] := by
  simp only [List.filter_eq_nil_iff]
  intro t ht
  have := terms_end_gt body i t ht
  simp; omega

theorem filter_terms_le (body : List Nat) (i j : Nat) (h : j ≤ i) :
    (terms body i).filter (fun t => t.2 ≤ j) = [] := by
  simp only [List.filter_eq_nil_iff]
  intro t ht
  have := terms_end_gt body i t ht
  simp; omega

theorem scan_cr (l : List Nat) (n c : Nat) (h : ∀ r, l = 10 :: r → False) :
    scan (13 :: l) n c = scan l (n + 1) 0 := by
  rw [scan]; exact h

theorem take_not_lf (rest : List Nat) (q : Nat) (h : ∀ r, rest = 10 :: r → False) :
    ∀ r, rest.take q = 10 :: r → False := by
  intro r hr
  cases rest with
  | nil => simp at hr
  | cons x xs =>
    cases q with
    | zero => simp at hr
    | succ q => simp at hr; exact h xs (by rw [hr.1])

theorem lastEnd_cons (t : Nat × Nat) (ts : List (Nat × Nat)) :
    lastEnd (t :: ts) = if ts = [] then t.2 else lastEnd ts := by
  cases ts <;> simp [lastEnd, List.getLast?_cons_cons]

@[simp] theorem lastEnd_nil : lastEnd [] = 0 := rfl

theorem inside_cons (x : Nat) (rest : List Nat) (q : Nat) :
    insideCRLF rest q → insideCRLF (x :: rest) (q + 1) := by
  rintro ⟨h0, h1, h2⟩
  refine ⟨by omega, ?_, ?_⟩
  · have : q + 1 - 1 = (q - 1) + 1 := by omega
    simp [this, h1]
  · simpa using h2

/-- Main relation between the prefix scan and the specification's terminator list. -/
theorem scan_take (body : List Nat) (i : Nat) :
    ∀ (q n c : Nat), q ≤ body.length → ¬ insideCRLF body q →
      let r := scan (body.take q) n c
      let ts := (terms body i).filter (fun t => t.2 ≤ i + q)
      r.1 = n + ts.length ∧ r.2 = (if ts = [] then c + q else i + q - lastEnd ts) := by
  fun_induction terms body i
  · intro q n c hq _; simp at hq; subst hq; simp [scan]
  · rename_i rest i ih
    intro q n c hq hin
    match q, hq, hin with
    | 0, _, _ =>
      have := filter_terms_zero (13 :: 10 :: rest) i
      simp only [terms] at this
      simp [scan, this]
    | 1, _, hin => exact absurd (by simp [insideCRLF]) hin
    | q + 2, hq, hin =>
      have hq' : q ≤ rest.length := by simp at hq; omega
      have hin' : ¬ insideCRLF rest q := by
        intro h; apply hin
        obtain ⟨h0, h1, h2⟩ := h
        refine ⟨by omega, ?_, ?_⟩
        · have : q + 2 - 1 = (q - 1) + 2 := by omega
          simp [this, h1]
        · simpa using h2
      have := ih q (n + 1) 0 hq' hin'
      simp only [List.take_succ_cons, scan]
      have e : i + (q + 2) = i + 2 + q := by omega
      have e2 : i + 2 ≤ i + 2 + q := by omega
      simp only [e, List.filter_cons, e2, decide_true, if_true, lastEnd_cons] at this ⊢
      obtain ⟨t1, t2⟩ := this
      refine ⟨by rw [t1]; simp; omega, ?_⟩
      rw [t2]; simp
      split <;> omega
  · rename_i rest i hne ih
    intro q n c hq hin
    match q, hq, hin with
    | 0, _, _ =>
      have := filter_terms_le rest (i + 1) i (by omega)
      simp [scan, this]
    | q + 1, hq, hin =>
      have hq' : q ≤ rest.length := by simp at hq; omega
      have hin' : ¬ insideCRLF rest q := fun h => hin (inside_cons _ _ _ h)
      have := ih q (n + 1) 0 hq' hin'
      simp only [List.take_succ_cons, scan_cr _ _ _ (take_not_lf rest q hne)]
      have e : i + (q + 1) = i + 1 + q := by omega
      have e2 : i + 1 ≤ i + 1 + q := by omega
      simp only [e, List.filter_cons, e2, decide_true, if_true, lastEnd_cons] at this ⊢
      obtain ⟨t1, t2⟩ := this
      refine ⟨by rw [t1]; simp; omega, ?_⟩
      rw [t2]; simp
      split <;> omega
  · rename_i rest i ih
    intro q n c hq hin
    match q, hq, hin with
    | 0, _, _ =>
      have := filter_terms_le rest (i + 1) i (by omega)
      simp [scan, this]
    | q + 1, hq, hin =>
      have hq' : q ≤ rest.length := by simp at hq; omega
      have hin' : ¬ insideCRLF rest q := fun h => hin (inside_cons _ _ _ h)
      have := ih q (n + 1) 0 hq' hin'
      simp only [List.take_succ_cons, scan]
      have e : i + (q + 1) = i + 1 + q := by omega
      have e2 : i + 1 ≤ i + 1 + q := by omega
      simp only [e, List.filter_cons, e2, decide_true, if_true, lastEnd_cons] at this ⊢
      obtain ⟨t1, t2⟩ := this
      refine ⟨by rw [t1]; simp; omega, ?_⟩
      rw [t2]; simp
      split <;> omega
  · rename_i x rest i h1 h2 h3 ih
    intro q n c hq hin
    match q, hq, hin with
    | 0, _, _ =>
      have := filter_terms_le rest (i + 1) i (by omega)
      simp [scan, this]
    | q + 1, hq, hin =>
      have hq' : q ≤ rest.length := by simp at hq; omega
      have hin' : ¬ insideCRLF rest q := fun h => hin (inside_cons _ _ _ h)
      have := ih q n (c + 1) hq' hin'
      have hs : scan (x :: List.take q rest) n c = scan (List.take q rest) n (c + 1) := by
        rw [scan]
        · intro r hx _; exact h2 hx
        · intro hx; exact h2 hx
        · intro hx; exact h3 hx
      simp only [List.take_succ_cons, hs]
      have e : i + (q + 1) = i + 1 + q := by omega
      simp only [e] at this ⊢
      obtain ⟨t1, t2⟩ := this
      refine ⟨t1, ?_⟩
      rw [t2]
      split <;> omega

/-- `get_location` never raises. -/
theorem getLocation_no_crash (body : List Nat) (p : Nat) : ¬ (getLocation body p).isCrash := by
  unfold getLocation splitNL
  obtain ⟨last, h, _, _⟩ := splitNLAux_shape (body.take p) []
  simp [h, Out.isCrash]

/-- `get_location` is the specification's line/column for every offset that does not fall
between a CR and its LF. -/
theorem getLocation_eq_spec (body : List Nat) (p : Nat) (hp : p ≤ body.length)
    (hin : ¬ insideCRLF body p) : getLocation body p = .ok (lineCol body p) := by
  unfold getLocation splitNL
  obtain ⟨last, h, h1, h2⟩ := splitNLAux_shape (body.take p) []
  have := scan_take body 0 p 0 0 hp hin
  simp only [h, h1, h2, lineCol]
  simp only [List.length_nil, Nat.zero_add] at this h1 h2 ⊢
  obtain ⟨t1, t2⟩ := this
  rw [t1, t2]
  congr 1
  ext <;> simp
  · omega
  · split
    · next h => simp [h]; omega
    · omega

end Gql.Text

namespace Gql.Text
open Spec

theorem scan_fst_ge (s : List Nat) (n c : Nat) : n ≤ (scan s n c).1 := by
  fun_induction scan s n c <;> omega

theorem scan_fst_indep (s : List Nat) (n c c' : Nat) : (scan s n c).1 = (scan s n c').1 := by
  have key : ∀ (i : Nat) (n c c' : Nat), (scan s n c).1 = (scan s n c').1 := by
    intro i
    fun_induction terms s i
    · intro n c c'; simp [scan]
    · intro n c c'; simp [scan]
    · rename_i hne _; intro n c c'; simp [scan_cr _ _ _ hne]
    · intro n c c'; simp [scan]
    · rename_i x rest i h1 h2 h3 ih
      intro n c c'
      have hs : ∀ c, scan (x :: rest) n c = scan rest n (c + 1) := by
        intro c
        rw [scan]
        · intro r hx _; exact h2 hx
        · intro hx; exact h2 hx
        · intro hx; exact h3 hx
      rw [hs, hs]; exact ih _ _ _
  exact key 0 n c c'

theorem scan_take_le (body : List Nat) (n c : Nat) :
    ∀ q c', (scan (body.take q) n c').1 ≤ (scan body n c).1 := by
  fun_induction scan body n c
  · intro q c'; simp [scan]
  · rename_i rest n c ih
    intro q c'
    match q with
    | 0 => simp [scan]; have := scan_fst_ge rest (n + 1) 0; omega
    | 1 => simp [scan]; exact scan_fst_ge rest (n + 1) 0
    | q + 2 => simp only [List.take_succ_cons, scan]; exact ih q 0
  · rename_i rest n c hne ih
    intro q c'
    match q with
    | 0 => simp [scan]; have := scan_fst_ge rest (n + 1) 0; omega
    | q + 1 =>
      simp only [List.take_succ_cons, scan_cr _ _ _ (take_not_lf rest q hne)]; exact ih q 0
  · rename_i rest n c ih
    intro q c'
    match q with
    | 0 => simp [scan]; have := scan_fst_ge rest (n + 1) 0; omega
    | q + 1 => simp only [List.take_succ_cons, scan]; exact ih q 0
  · rename_i x rest n c h1 h2 h3 ih
    intro q c'
    match q with
    | 0 => simp [scan]; have := scan_fst_ge rest n (c + 1); omega
    | q + 1 =>
      have hs : scan (x :: List.take q rest) n c' = scan (List.take q rest) n (c' + 1) := by
        rw [scan]
        · intro r hx _; exact h2 hx
        · intro hx; exact h2 hx
        · intro hx; exact h3 hx
      simp only [List.take_succ_cons, hs]; exact ih q _

theorem scan_pad (k : Nat) (body : List Nat) (n c : Nat) :
    scan (List.replicate k 32 ++ body) n c = scan body n (c + k) := by
  induction k generalizing c with
  | zero => simp
  | succ k ih =>
    simp only [List.replicate_succ, List.cons_append]
    rw [scan]
    · rw [ih]; congr 1; omega
    all_goals simp

theorem splitNL_length (s : List Nat) : (splitNL s).length = (scan s 0 0).1 + 1 := by
  obtain ⟨_, _, h, _⟩ := splitNLAux_shape s []
  simpa [splitNL] using h

/-- Rendering never fails on a location that came from `get_location` on the same source:
the subscript `lines[line_index]` of `print_source_location` is in range, whatever the
configured column offset. -/
theorem excerpt_no_crash (body : List Nat) (p colOffset : Nat) (loc : Nat × Nat)
    (h : getLocation body p = .ok loc) : (excerptLine body colOffset loc.1).isOk := by
  unfold getLocation at h
  simp only at h
  split at h
  · next last hl =>
    simp only [Out.ok.injEq] at h
    subst h
    unfold excerptLine
    have h1 := splitNL_length (body.take p)
    have h2 := splitNL_length (List.replicate colOffset 32 ++ body)
    rw [scan_pad] at h2
    have h3 := scan_take_le body 0 0 p 0
    have h4 := scan_fst_indep body 0 0 (0 + colOffset)
    simp only
    rw [if_neg (by omega)]
    unfold Out.index
    have : (splitNL (body.take p)).length - 1 <
        (splitNL (List.replicate colOffset 32 ++ body)).length := by omega
    simp [List.getElem?_eq_getElem this, Out.isOk]
  · simp at h

end Gql.Text
