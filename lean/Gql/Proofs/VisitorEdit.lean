import Gql.Proofs.SpecTotal
import Gql.Proofs.EditApply
import Gql.Proofs.VisitorSafe
/-!
C11-2/4 in full: the stack machine `visit` refines the documented contract `Spec.specNode` for
*every* visitor — remove and replace on enter and on leave included.
-/
namespace Gql.Syntax
open Gql Gql.Syntax.Spec

variable {σ : Type}

/-- `edits[-1][1]` with a removed root as `None`, else `root` -/
def finishVal (root : Node) (es : Edits) : Option Val :=
  match es.getLast? with
  | some (_, .rm) => none
  | some (_, .val v) => some v
  | none => some (.node root)

theorem finish_eq (root : Node) (st : St σ) : finish root st = .stop (finishVal root st.edits) st.vs := by
  unfold finish finishVal
  split <;> simp_all

/-- as long as the contract has seen no edit, no level of the machine holds one -/
def EdInv (w : W σ) (st : St σ) : Prop := w.edited = false → Clean st

/-- the machine has stopped on a BREAK: its result is the untouched root unless an edit was made -/
def BrkOut (root : Node) (w' : W σ) (nx : Next σ) : Prop :=
  ∃ r, nx = .stop r w'.s ∧ (w'.edited = false → r = some (.node root))

/-- where the machine stands after a node has been dealt with, against the contract's answer -/
def OutG (root : Node) (st1 : St σ) (w : W σ) (res : Res σ Slot) (nx : Next σ) : Prop :=
  match res with
  | .brk w' => BrkOut root w' nx
  | .done w' slot => ∃ es nd, SlotEdits st1.key slot es ∧ (w'.edited = false → es = [] ∧ w.edited = false) ∧
      nx = if st1.stack.isEmpty then .stop (finishVal root (st1.edits ++ es)) w'.s
           else .cont { st1 with edits := st1.edits ++ es, node := nd, rpath := st1.rpath.tail,
                                 idx := st1.idx + 1, vs := w'.s }

def NodeSimG (root : Node) (vk : String → List String) (v : Visitor σ) (rec : Rec σ) : Prop :=
  ∀ (st1 : St σ) (c : Node) (w : W σ) (res : Res σ Slot),
    st1.node = some (.node c) → Pos st1 → EdInv w st1 → w.s = st1.vs →
    rec w c st1.key st1.parent st1.ranc.reverse st1.rpath.reverse = some res →
    ∃ k nx, res.w.iters = w.iters + k + 1 ∧
      procIter root vk v k st1 false false = .ok nx ∧ OutG root st1 w res nx

theorem sim_itemsG {root : Node} {vk : String → List String} {v : Visitor σ} {rec : Rec σ}
    (hrec : NodeSimG root vk v rec) (cs : List Node) :
    ∀ (suf pre : List Node) (U : St σ) (w : W σ) (res : Res σ (List Node × Bool)),
      cs = pre ++ suf → U.idx = pre.length → U.keys = .items cs → U.inArray = true →
      U.parent = some (.arr cs) → U.stack ≠ [] → EdInv w U → w.s = U.vs →
      specItems rec (some (.arr cs)) U.ranc.reverse U.rpath.reverse w suf pre.length = some res →
      ∃ k, res.w.iters = w.iters + k ∧
        match res with
        | .brk w' => ∃ nx, iter false root vk v k U = .ok nx ∧ BrkOut root w' nx
        | .done w' out => ∃ es nd ky, ArrEdits pre.length suf es out ∧
            (w'.edited = false → es = [] ∧ w.edited = false) ∧
            iter false root vk v k U =
              .ok (.cont { U with idx := cs.length, edits := U.edits ++ es, node := nd, key := ky, vs := w'.s }) := by
  intro suf
  induction suf with
  | nil =>
    intro pre U w res hcs hidx hkeys hin hpar hst hinv hw hspec
    simp [specItems] at hspec
    subst hspec
    refine ⟨0, by simp [Res.w], [], U.node, U.key, ArrEdits.nil _, fun h => ⟨rfl, h⟩, ?_⟩
    simp only [iter, List.append_nil]
    have : cs.length = U.idx := by simp [hcs, hidx]
    rw [this, hw]
  | cons c suf ih =>
    intro pre U w res hcs hidx hkeys hin hpar hst hinv hw hspec
    have hlen : cs.length = pre.length + (suf.length + 1) := by simp [hcs]
    have hget : cs[U.idx]? = some c := by simp [hcs, hidx]
    have hne : cs ≠ [] := by intro h; simp [h] at hlen
    let st1 : St σ := { U with key := .idx U.idx, node := some (.node c), rpath := .idx U.idx :: U.rpath }
    have hfetch : fetch U = .ok (.got st1 false false) := by
      have h1 : (U.idx == U.keys.length) = false := by
        simp [hkeys, Keys.length, hidx, hlen]
      have h2 : truthy (some (Val.arr cs)) = true := by
        cases cs with
        | nil => exact absurd rfl hne
        | cons a b => simp [truthy]
      simp [fetch, h1, h2, hin, hpar, hget, st1]
    simp only [specItems] at hspec
    have hpath : U.rpath.reverse ++ [Key.idx pre.length] = st1.rpath.reverse := by simp [st1, hidx]
    rw [hpath] at hspec
    have hpos : Pos st1 := Or.inr ⟨hst, by
      cases cs with
      | nil => exact absurd rfl hne
      | cons a b => simp [st1, hpar, truthy], U.rpath, rfl⟩
    have hstk : st1.stack.isEmpty = false := by
      cases hs : U.stack with
      | nil => exact absurd hs hst
      | cons a b => simp [st1]
    cases hr : rec w c (.idx pre.length) (some (.arr cs)) U.ranc.reverse st1.rpath.reverse with
    | none => simp [hr] at hspec
    | some r1 =>
      have hr' : rec w c st1.key st1.parent st1.ranc.reverse st1.rpath.reverse = some r1 := by
        simpa [st1, hidx, hpar] using hr
      obtain ⟨k, nx, hit, hrun, hout⟩ := hrec st1 c w r1 rfl hpos hinv hw hr'
      rw [hr] at hspec
      cases r1 with
      | brk w1 =>
        simp at hspec
        subst hspec
        refine ⟨k + 1, by simp [Res.w] at hit ⊢; omega, nx, ?_, hout⟩
        rw [iter_succ_of_fetch root vk v k U st1 false false hfetch, hrun]
      | done w1 slot =>
        obtain ⟨es1, nd1, hslot, hed1, hnx⟩ := hout
        simp only [hstk, Bool.false_eq_true, reduceIte] at hnx
        subst hnx
        let U1 : St σ := { st1 with edits := st1.edits ++ es1, node := nd1, rpath := st1.rpath.tail,
                                    idx := st1.idx + 1, vs := w1.s }
        have hinv1 : EdInv w1 U1 := by
          intro he
          obtain ⟨h1, h2⟩ := hed1 he
          have hc := hinv h2
          exact ⟨by simp [U1, st1, h1, hc.1], hc.2⟩
        have hstep : ∀ k2, iter false root vk v (k + 1 + k2) U = iter false root vk v k2 U1 := by
          intro k2
          rw [iter_add, iter_succ_of_fetch root vk v k U st1 false false hfetch, hrun]
        simp only [] at hspec
        cases hr2 : specItems rec (some (.arr cs)) U.ranc.reverse U.rpath.reverse w1 suf (pre.length + 1) with
        | none => cases slot <;> simp [hr2] at hspec
        | some r2 =>
          obtain ⟨k2, hit2, hrun2⟩ := ih (pre ++ [c]) U1 w1 r2 (by simp [hcs]) (by simp [U1, st1, hidx]) hkeys hin hpar hst
            hinv1 rfl (by simpa [U1, st1] using hr2)
          rw [hr2] at hspec
          cases r2 with
          | brk w2 =>
            have : res = .brk w2 := by cases slot <;> simp at hspec <;> exact hspec.symm
            subst this
            obtain ⟨nx2, hrun2, hb⟩ := hrun2
            refine ⟨k + 1 + k2, by simp [Res.w] at hit hit2 ⊢; omega, nx2, ?_, hb⟩
            rw [hstep, hrun2]
          | done w2 rest =>
            obtain ⟨es2, nd, ky, harr, hed2, hrun2⟩ := hrun2
            have : res = .done w2 (slotOut slot c rest) := by
              obtain ⟨cs', ch⟩ := rest
              cases slot <;> simp at hspec <;> subst hspec <;> rfl
            subst this
            refine ⟨k + 1 + k2, by simp [Res.w] at hit hit2 ⊢; omega, es1 ++ es2, nd, ky,
              ArrEdits.cons _ _ _ _ _ _ _ (by simpa [st1, hidx] using hslot) (by simpa using harr), ?_, ?_⟩
            · intro he
              obtain ⟨h1, h2⟩ := hed2 he
              obtain ⟨h3, h4⟩ := hed1 h2
              exact ⟨by simp [h1, h3], h4⟩
            · rw [hstep, hrun2]
              simp [U1, st1, List.append_assoc]


/-- one loop iteration that leaves a tuple level with pending edits: the rebuilt tuple is recorded
as an edit of the attribute that holds it -/
theorem leave_arr_edited (root : Node) (vk : String → List String) (v : Visitor σ) (U : St σ)
    (cs cs' : List Node) (fr : Frame) (rest : List Frame) (p : Val) (ra : List Val) (ky : Key) (rp : List Key)
    (hidx : U.idx = cs.length) (hkeys : U.keys = .items cs) (hin : U.inArray = true)
    (hne : U.edits ≠ []) (happ : applyArr U.edits cs 0 = .ok cs')
    (hpar : U.parent = some (.arr cs)) (hstack : U.stack = fr :: rest) (hrest : rest ≠ [])
    (hranc : U.ranc = p :: ra) (hrpath : U.rpath = ky :: rp) :
    iter false root vk v 1 U = .ok (.cont
      { stack := rest, inArray := fr.inArray, keys := fr.keys, idx := fr.idx + 1,
        edits := fr.edits ++ [(ky, .val (.arr cs'))],
        node := some (.arr cs'), key := ky, parent := some p, rpath := rp, ranc := ra, vs := U.vs }) := by
  have h1 : (U.idx == U.keys.length) = true := by simp [hkeys, Keys.length, hidx]
  have h3 : rest.isEmpty = false := by cases rest with
    | nil => exact absurd rfl hrest
    | cons a b => rfl
  have h4 : U.edits.isEmpty = false := by
    cases he : U.edits with
    | nil => exact absurd he hne
    | cons a b => rfl
  have hf : fetch U = .ok (.got { U with idx := fr.idx, keys := fr.keys, edits := fr.edits, inArray := fr.inArray, stack := rest, node := some (.arr cs'), key := ky, parent := some p, ranc := ra } true true) := by
    simp only [fetch, h1, reduceIte, Bool.true_and, h4, Bool.not_false, hranc, hrpath, lastKey, popAnc, hpar, hstack,
      applyEdits, hin]
    show (Out.ok ky >>= fun key => _) = _
    simp only [Out.bind_ok]
    show ((applyArr U.edits cs 0 >>= fun ns' => Out.ok (some (Val.arr ns'))) >>= fun node => _) = _
    rw [happ]
    rfl
  rw [iter_succ_of_fetch root vk v 0 U _ true true hf]
  simp [procIter, process, tail, h3, hrpath, iter]


/-- conclusion of the attribute-level simulation -/
def KeysOutG (root : Node) (vk : String → List String) (v : Visitor σ) (m : Node) (klen : Nat) (T : St σ)
    (w : W σ) (suf : List String) (res : Res σ (List (String × Child))) : Prop :=
  ∃ n, res.w.iters = w.iters + n ∧
    match res with
    | .brk w' => ∃ nx, iter false root vk v n T = .ok nx ∧ BrkOut root w' nx
    | .done w' sp => ∃ es nd ky, FieldEdits (m.fields.map Prod.fst) suf es sp ∧
        (w'.edited = false → es = [] ∧ w.edited = false) ∧
        iter false root vk v n T =
          .ok (.cont { T with idx := klen, edits := T.edits ++ es, node := nd, key := ky, vs := w'.s })

theorem sim_keysG {root : Node} {vk : String → List String} {v : Visitor σ} {rec : Rec σ}
    (hrec : NodeSimG root vk v rec) (m : Node) (ks : List String) :
    ∀ (suf pre : List String) (T : St σ) (w : W σ) (res : Res σ (List (String × Child))),
      ks = pre ++ suf → T.idx = pre.length → T.keys = .names ks → T.inArray = false →
      T.parent = some (.node m) → T.stack ≠ [] → EdInv w T → w.s = T.vs →
      specKeys rec m T.ranc.reverse T.rpath.reverse w suf = some res →
      KeysOutG root vk v m ks.length T w suf res := by
  intro suf
  induction suf with
  | nil =>
    intro pre T w res hks hidx hkeys hin hpar hst hinv hw hspec
    simp [specKeys] at hspec
    subst hspec
    refine ⟨0, by simp [Res.w], [], T.node, T.key, FieldEdits.nil, fun h => ⟨rfl, h⟩, ?_⟩
    simp only [iter, List.append_nil]
    have : ks.length = T.idx := by simp [hks, hidx]
    rw [this, hw]
  | cons k suf ih =>
    intro pre T w res hks hidx hkeys hin hpar hst hinv hw hspec
    have hlen : ks.length = pre.length + (suf.length + 1) := by simp [hks]
    have hget : ks[T.idx]? = some k := by simp [hks, hidx]
    have h1 : (T.idx == (Keys.names ks).length) = false := by simp [Keys.length, hidx, hlen]
    have hstk : T.stack.isEmpty = false := by
      cases hs : T.stack with
      | nil => exact absurd hs hst
      | cons a b => rfl
    simp only [specKeys] at hspec
    -- continuation shared by the shapes of the attribute
    have hrest : ∀ (T1 : St σ) (w1 : W σ) (k1 : Nat) (es1 : Edits)
        (f : List (String × Child) → List (String × Child)) (r2 : Res σ (List (String × Child))),
        iter false root vk v k1 T = .ok (.cont T1) → w1.iters = w.iters + k1 → w1.s = T1.vs →
        T1.stack = T.stack → T1.inArray = T.inArray → T1.keys = T.keys → T1.idx = T.idx + 1 →
        T1.edits = T.edits ++ es1 → T1.parent = T.parent → T1.rpath = T.rpath → T1.ranc = T.ranc →
        (w1.edited = false → es1 = [] ∧ w.edited = false) →
        (∀ es sp, FieldEdits (m.fields.map Prod.fst) suf es sp →
          FieldEdits (m.fields.map Prod.fst) (k :: suf) (es1 ++ es) (f sp)) →
        specKeys rec m T.ranc.reverse T.rpath.reverse w1 suf = some r2 →
        ((∃ w2, r2 = .brk w2 ∧ res = .brk w2) ∨ (∃ w2 sp, r2 = .done w2 sp ∧ res = .done w2 (f sp))) →
        KeysOutG root vk v m ks.length T w (k :: suf) res := by
      intro T1 w1 k1 es1 f r2 hrun hit hs1 e1 e2 e3 e4 e5 e6 e7 e8 hed1 hcomb hr2 hres
      have hinv1 : EdInv w1 T1 := by
        intro he
        obtain ⟨h1, h2⟩ := hed1 he
        have hc := hinv h2
        exact ⟨by rw [e5, h1, hc.1]; rfl, by rw [e1]; exact hc.2⟩
      obtain ⟨k2, hit2, hrun2⟩ := ih (pre ++ [k]) T1 w1 r2 (by simp [hks]) (by simp [e4, hidx]) (by rw [e3, hkeys])
        (by rw [e2, hin]) (by rw [e6, hpar]) (by rw [e1]; exact hst) hinv1 hs1 (by rw [e8, e7]; exact hr2)
      have hstep : iter false root vk v (k1 + k2) T = iter false root vk v k2 T1 := by
        rw [iter_add, hrun]
      rcases hres with ⟨w2, rfl, rfl⟩ | ⟨w2, sp, rfl, rfl⟩
      · obtain ⟨nx, hrun2, hb⟩ := hrun2
        refine ⟨k1 + k2, by simp [Res.w] at hit2 ⊢; omega, nx, ?_, hb⟩
        rw [hstep, hrun2]
      · obtain ⟨es2, nd, ky, hfe, hed2, hrun2⟩ := hrun2
        refine ⟨k1 + k2, by simp [Res.w] at hit2 ⊢; omega, es1 ++ es2, nd, ky, hcomb _ _ hfe, ?_, ?_⟩
        · intro he
          obtain ⟨h1, h2⟩ := hed2 he
          obtain ⟨h3, h4⟩ := hed1 h2
          exact ⟨by simp [h1, h3], h4⟩
        · rw [hstep, hrun2, e1, e2, e3, e5, e6, e7, e8, List.append_assoc]
    cases hattr : m.attr k with
    | absent =>
      rw [hattr] at hspec
      simp only [] at hspec
      let T1 : St σ := { T with key := .name k, node := none, idx := T.idx + 1 }
      have hfetch : fetch T = .ok (.cont T1) := by
        simp [fetch, hkeys, h1, hpar, truthy, hin, hget, hattr, T1]
      cases hr2 : specKeys rec m T.ranc.reverse T.rpath.reverse { w with iters := w.iters + 1 } suf with
      | none => simp [hr2] at hspec
      | some r2 =>
        rw [hr2] at hspec
        refine hrest T1 { w with iters := w.iters + 1 } 1 [] id r2 (by simp [iter, step, hfetch]) rfl hw rfl rfl rfl rfl
          (by simp [T1]) rfl rfl rfl (fun h => ⟨rfl, h⟩) (fun es sp h => FieldEdits.same _ _ _ _ h) hr2 ?_
        cases r2 with
        | brk w2 => simp at hspec; exact Or.inl ⟨w2, rfl, hspec.symm⟩
        | done w2 sp => simp at hspec; exact Or.inr ⟨w2, sp, rfl, hspec.symm⟩
    | one c =>
      rw [hattr] at hspec
      simp only [] at hspec
      let st1 : St σ := { T with key := .name k, node := some (.node c), rpath := .name k :: T.rpath }
      have hfetch : fetch T = .ok (.got st1 false false) := by
        simp [fetch, hkeys, h1, hpar, truthy, hin, hget, hattr, st1]
      have hpos : Pos st1 := Or.inr ⟨hst, by simp [st1, hpar, truthy], T.rpath, rfl⟩
      have hpath : T.rpath.reverse ++ [Key.name k] = st1.rpath.reverse := by simp [st1]
      rw [hpath] at hspec
      have hkmem : k ∈ m.fields.map Prod.fst := attr_mem m k (by rw [hattr]; simp)
      cases hr : rec w c (.name k) (some (.node m)) T.ranc.reverse st1.rpath.reverse with
      | none => simp [hr] at hspec
      | some r1 =>
        have hr' : rec w c st1.key st1.parent st1.ranc.reverse st1.rpath.reverse = some r1 := by
          simpa [st1, hpar] using hr
        obtain ⟨k1, nx, hit, hrun, hout⟩ := hrec st1 c w r1 rfl hpos hinv hw hr'
        rw [hr] at hspec
        cases r1 with
        | brk w1 =>
          simp at hspec
          subst hspec
          refine ⟨k1 + 1, by simp [Res.w] at hit ⊢; omega, nx, ?_, hout⟩
          rw [iter_succ_of_fetch root vk v k1 T st1 false false hfetch, hrun]
        | done w1 slot =>
          obtain ⟨es1, nd1, hslot, hed1, hnx⟩ := hout
          have hstk1 : st1.stack.isEmpty = false := hstk
          simp only [hstk1, Bool.false_eq_true, reduceIte] at hnx
          subst hnx
          let T1 : St σ := { st1 with edits := st1.edits ++ es1, node := nd1, rpath := st1.rpath.tail,
                                      idx := st1.idx + 1, vs := w1.s }
          have hrunT : iter false root vk v (k1 + 1) T = .ok (.cont T1) := by
            rw [iter_succ_of_fetch root vk v k1 T st1 false false hfetch, hrun]
          have hslot' : SlotEdits (.name k) slot es1 := hslot
          cases slot with
          | keep =>
            simp only [] at hspec
            cases hr2 : specKeys rec m T.ranc.reverse T.rpath.reverse w1 suf with
            | none => simp [hr2] at hspec
            | some r2 =>
              rw [hr2] at hspec
              refine hrest T1 w1 (k1 + 1) es1 id r2 hrunT (by simp [Res.w] at hit; omega) rfl rfl rfl rfl rfl rfl rfl rfl rfl
                hed1 (fun es sp h => by rw [hslot'.nil_iff.mpr rfl]; exact FieldEdits.same _ _ _ _ h) hr2 ?_
              cases r2 with
              | brk w2 => simp at hspec; exact Or.inl ⟨w2, rfl, hspec.symm⟩
              | done w2 sp => simp at hspec; exact Or.inr ⟨w2, sp, rfl, hspec.symm⟩
          | gone =>
            simp only [] at hspec
            cases hr2 : specKeys rec m T.ranc.reverse T.rpath.reverse w1 suf with
            | none => simp [hr2] at hspec
            | some r2 =>
              rw [hr2] at hspec
              refine hrest T1 w1 (k1 + 1) es1 (fun sp => (k, Child.absent) :: sp) r2 hrunT (by simp [Res.w] at hit; omega) rfl rfl rfl rfl rfl rfl rfl rfl rfl
                hed1 (fun es sp h => FieldEdits.single k suf .gone es1 es sp hkmem hslot' (by simp) h) hr2 ?_
              cases r2 with
              | brk w2 => simp at hspec; exact Or.inl ⟨w2, rfl, hspec.symm⟩
              | done w2 sp => simp at hspec; exact Or.inr ⟨w2, sp, rfl, hspec.symm⟩
          | put c' =>
            simp only [] at hspec
            cases hr2 : specKeys rec m T.ranc.reverse T.rpath.reverse w1 suf with
            | none => simp [hr2] at hspec
            | some r2 =>
              rw [hr2] at hspec
              refine hrest T1 w1 (k1 + 1) es1 (fun sp => (k, Child.one c') :: sp) r2 hrunT (by simp [Res.w] at hit; omega) rfl rfl rfl rfl rfl rfl rfl rfl rfl
                hed1 (fun es sp h => FieldEdits.single k suf (.put c') es1 es sp hkmem hslot' (by simp) h) hr2 ?_
              cases r2 with
              | brk w2 => simp at hspec; exact Or.inl ⟨w2, rfl, hspec.symm⟩
              | done w2 sp => simp at hspec; exact Or.inr ⟨w2, sp, rfl, hspec.symm⟩
    | many cs =>
      rw [hattr] at hspec
      simp only [] at hspec
      have hkmem : k ∈ m.fields.map Prod.fst := attr_mem m k (by rw [hattr]; simp)
      let st1 : St σ := { T with key := .name k, node := some (.arr cs), rpath := .name k :: T.rpath }
      have hfetch : fetch T = .ok (.got st1 false false) := by
        simp [fetch, hkeys, h1, hpar, truthy, hin, hget, hattr, st1]
      let U : St σ :=
        { stack := ⟨false, T.idx, .names ks, T.edits⟩ :: T.stack, inArray := true,
          keys := .items cs, idx := 0, edits := [], node := some (.arr cs), key := .name k,
          parent := some (.arr cs), rpath := .name k :: T.rpath, ranc := .node m :: T.ranc, vs := T.vs }
      have hproc : process false root vk v st1 false false = .ok (.cont U) := by
        simp [process, tail, st1, U, hpar, truthy, hin, hkeys]
      have hinvU : EdInv { w with iters := w.iters + 1 } U := by
        intro he
        have hc := hinv he
        refine ⟨rfl, ?_⟩
        intro fr hfr
        simp only [U, List.mem_cons] at hfr
        rcases hfr with h | h
        · rw [h]; exact hc.1
        · exact hc.2 fr h
      have hsp0 : specItems rec (some (.arr cs)) (T.ranc.reverse ++ [.node m]) (T.rpath.reverse ++ [.name k])
          { w with iters := w.iters + 1 } cs 0 =
          specItems rec (some (.arr cs)) U.ranc.reverse U.rpath.reverse { w with iters := w.iters + 1 } cs
            0 := by simp [U]
      rw [hsp0] at hspec
      cases hr : specItems rec (some (.arr cs)) U.ranc.reverse U.rpath.reverse { w with iters := w.iters + 1 } cs
          0 with
      | none => simp [hr] at hspec
      | some r1 =>
        obtain ⟨k1, hit, hrun⟩ := sim_itemsG hrec cs cs [] U { w with iters := w.iters + 1 } r1 rfl rfl rfl rfl rfl
          (by simp [U]) hinvU hw hr
        rw [hr] at hspec
        have hstep1 : iter false root vk v (k1 + 1) T = iter false root vk v k1 U := by
          rw [iter_succ_of_fetch root vk v k1 T st1 false false hfetch]
          simp [procIter, hproc]
        cases r1 with
        | brk w1 =>
          simp at hspec
          subst hspec
          obtain ⟨nx, hrun, hb⟩ := hrun
          refine ⟨k1 + 1, by simp [Res.w] at hit ⊢; omega, nx, ?_, hb⟩
          rw [hstep1, hrun]
        | done w1 out =>
          obtain ⟨es_a, nd, ky, harr, heda, hrun⟩ := hrun
          obtain ⟨cs', ch⟩ := out
          simp only [] at hspec
          simp only [Res.w] at hit
          by_cases hes : es_a = []
          · -- nothing below was edited: the tuple is kept
            have hout := harr.nil_case.1 hes
            simp only [Prod.mk.injEq] at hout
            obtain ⟨_, hch⟩ := hout
            subst hch
            subst hes
            simp only [Bool.false_eq_true, reduceIte] at hspec
            let T1 : St σ := { T with idx := T.idx + 1, node := some (.arr cs), key := .name k, vs := w1.s }
            have hleave := leave_arr root vk v { U with idx := cs.length, edits := U.edits ++ [], node := nd, key := ky, vs := w1.s } cs
              ⟨false, T.idx, .names ks, T.edits⟩ T.stack (.node m) T.ranc (.name k) T.rpath rfl rfl rfl rfl rfl hst rfl rfl
            have hrunT1 : iter false root vk v (k1 + 1 + 1) T = .ok (.cont T1) := by
              rw [iter_add, hstep1, hrun]
              simp only []
              rw [hleave]
              simp [T1, hin, hkeys, hpar]
            cases hr2 : specKeys rec m T.ranc.reverse T.rpath.reverse { w1 with iters := w1.iters + 1 } suf with
            | none => simp [hr2] at hspec
            | some r2 =>
              rw [hr2] at hspec
              refine hrest T1 { w1 with iters := w1.iters + 1 } (k1 + 1 + 1) [] id r2 hrunT1 (by simp only []; omega) rfl
                rfl rfl rfl rfl (by simp [T1]) rfl rfl rfl (fun h => ⟨rfl, (heda h).2⟩)
                (fun es sp h => FieldEdits.same _ _ _ _ h) hr2 ?_
              cases r2 with
              | brk w2 => simp at hspec; exact Or.inl ⟨w2, rfl, hspec.symm⟩
              | done w2 sp => simp at hspec; exact Or.inr ⟨w2, sp, rfl, hspec.symm⟩
          · -- the rebuilt tuple replaces the attribute
            have hch : ch = true := harr.nil_case.2 hes
            subst hch
            have happ : applyArr es_a cs 0 = .ok cs' := by
              have := harr.apply [] 0 rfl
              simpa using this
            simp only [reduceIte] at hspec
            let T1 : St σ := { T with idx := T.idx + 1, edits := T.edits ++ [(.name k, .val (.arr cs'))],
                                      node := some (.arr cs'), key := .name k, vs := w1.s }
            have hleave := leave_arr_edited root vk v
              { U with idx := cs.length, edits := U.edits ++ es_a, node := nd, key := ky, vs := w1.s } cs cs'
              ⟨false, T.idx, .names ks, T.edits⟩ T.stack (.node m) T.ranc (.name k) T.rpath rfl rfl rfl
              (by simpa [U] using hes) (by simpa [U] using happ) rfl rfl hst rfl rfl
            have hrunT1 : iter false root vk v (k1 + 1 + 1) T = .ok (.cont T1) := by
              rw [iter_add, hstep1, hrun]
              simp only []
              rw [hleave]
              simp [T1, hin, hkeys, hpar]
            cases hr2 : specKeys rec m T.ranc.reverse T.rpath.reverse { w1 with iters := w1.iters + 1 } suf with
            | none => simp [hr2] at hspec
            | some r2 =>
              rw [hr2] at hspec
              refine hrest T1 { w1 with iters := w1.iters + 1 } (k1 + 1 + 1) [(.name k, .val (.arr cs'))]
                (fun sp => (k, Child.many cs') :: sp) r2 hrunT1 (by simp only []; omega) rfl
                rfl rfl rfl rfl rfl rfl rfl rfl (fun h => absurd (heda h).1 hes)
                (fun es sp h => FieldEdits.arr k suf cs' es sp hkmem h) hr2 ?_
              cases r2 with
              | brk w2 => simp at hspec; exact Or.inl ⟨w2, rfl, hspec.symm⟩
              | done w2 sp => simp at hspec; exact Or.inr ⟨w2, sp, rfl, hspec.symm⟩


/-- the edit `leave` contributes for a node `m` found under key `ky` (`replaced`: `m` was put
there by `enter`) against the documented effect -/
def LeaveEdits (ky : Key) (m : Node) (replaced : Bool) (slot : Slot) (es' : Edits) : Prop :=
  (es' = [] ∧ slot = (if replaced then .put m else .keep)) ∨ (es' = [(ky, .rm)] ∧ slot = .gone) ∨
    (∃ x, es' = [(ky, .val (.node x))] ∧ slot = .put x)

/-- push the level of node `m`, then `k` further loop iterations -/
def contIter (root : Node) (vk : String → List String) (v : Visitor σ) (k : Nat) (r : O (Next σ)) : O (Next σ) :=
  match r with
  | .ok (.cont st') => iter false root vk v k st'
  | r => r

def tailIter (root : Node) (vk : String → List String) (v : Visitor σ) (k : Nat) (S : St σ) (m : Node)
    (na : Bool) : O (Next σ) :=
  contIter root vk v k (tail root vk S false false (.node m) na)

theorem procIter_eq (root : Node) (vk : String → List String) (v : Visitor σ) (k : Nat) (st : St σ) (l e : Bool) :
    procIter root vk v k st l e = contIter root vk v k (process false root vk v st l e) := by
  unfold procIter contIter
  cases process false root vk v st l e with
  | ok nx => cases nx <;> rfl
  | err e => rfl
  | crash c => rfl

def BodyOut (root : Node) (S : St σ) (w1 : W σ) (m : Node) (replaced : Bool) (res : Res σ Slot)
    (nx : Next σ) : Prop :=
  match res with
  | .brk w' => BrkOut root w' nx
  | .done w' slot => ∃ es' nd, LeaveEdits S.key m replaced slot es' ∧
      (w'.edited = false → es' = [] ∧ w1.edited = false) ∧
      nx = if S.stack.isEmpty then .stop (finishVal root (S.edits ++ es')) w'.s
           else .cont { S with edits := S.edits ++ es', node := nd, rpath := S.rpath.tail,
                               idx := S.idx + 1, vs := w'.s }

theorem sim_bodyG {root : Node} {vk : String → List String} {v : Visitor σ} {rec : Rec σ}
    (hrec : NodeSimG root vk v rec) (S : St σ) (m : Node) (w1 : W σ) (replaced na : Bool) (res : Res σ Slot)
    (hpos : Pos S) (hinv : EdInv w1 S) (hw : w1.s = S.vs)
    (hspec : specBody vk v rec S.key S.parent S.ranc.reverse S.rpath.reverse w1 m replaced = some res) :
    ∃ k nx, res.w.iters = w1.iters + k ∧ tailIter root vk v k S m na = .ok nx ∧
      BodyOut root S w1 m replaced res nx := by
  simp only [specBody] at hspec
  obtain ⟨ranc0, hF1, hF2, hF3, hF4⟩ : ∃ ranc0 : List Val,
      (if truthy S.parent then (match S.parent with | some p => p :: S.ranc | none => S.ranc)
        else S.ranc) = ranc0 ∧
      ranc0.reverse = S.ranc.reverse ++ S.parent.toList ∧
      lastKey ranc0 S.rpath = .ok S.key ∧ popAnc ranc0 = (S.parent, S.ranc) := by
    rcases hpos with ⟨_, h2, h3, h4, h5⟩ | ⟨_, h2, r, h3⟩
    · exact ⟨S.ranc, by simp [h2, truthy], by simp [h2], by simp [h4, lastKey, h5], by simp [h4, popAnc, h2]⟩
    · cases hp : S.parent with
      | none => simp [hp, truthy] at h2
      | some p =>
        rw [hp] at h2
        exact ⟨p :: S.ranc, by simp [h2], by simp, by rw [h3]; simp [lastKey], by simp [popAnc]⟩
  let T0 : St σ :=
    { stack := ⟨S.inArray, S.idx, S.keys, S.edits⟩ :: S.stack, inArray := false,
      keys := .names (vk m.kind), idx := 0, edits := [], node := some (.node m), key := S.key,
      parent := some (.node m), rpath := S.rpath, ranc := ranc0, vs := S.vs }
  have htail : tail root vk S false false (.node m) na = .ok (.cont T0) := by
    simp [tail, T0]
    exact hF1
  have hinvT0 : EdInv w1 T0 := by
    intro he
    have hc := hinv he
    refine ⟨rfl, ?_⟩
    intro fr hfr
    simp only [T0, List.mem_cons] at hfr
    rcases hfr with h | h
    · rw [h]; exact hc.1
    · exact hc.2 fr h
  have hstep0 : ∀ j, tailIter root vk v j S m na = iter false root vk v j T0 := by
    intro j; simp [tailIter, contIter, htail]
  rw [← hF2] at hspec
  cases hk : specKeys rec m ranc0.reverse S.rpath.reverse w1 (vk m.kind) with
  | none => simp [hk] at hspec
  | some rk =>
    obtain ⟨kk, hit, hrun⟩ := sim_keysG hrec m (vk m.kind) (vk m.kind) [] T0 w1 rk rfl rfl rfl rfl rfl
      (by simp [T0]) hinvT0 hw hk
    rw [hk] at hspec
    cases rk with
    | brk w2 =>
      simp at hspec
      subst hspec
      obtain ⟨nx, hrun, hb⟩ := hrun
      exact ⟨kk, nx, by simpa [Res.w] using hit, by rw [hstep0, hrun], hb⟩
    | done w2 sp =>
      obtain ⟨es_m, nd, ky, hfe, hedm, hrun⟩ := hrun
      simp only [Res.w] at hit
      simp only [] at hspec
      -- the node handed to `leave`
      let m' : Node := if sp.isEmpty then m else Node.mk m.kind 0 m.payload (withFields m.fields sp)
      have hemp : es_m.isEmpty = sp.isEmpty := by
        cases hsp : sp with
        | nil => simp [hfe.nil_iff.mpr hsp]
        | cons a b =>
          have : es_m ≠ [] := fun h => by have := hfe.nil_iff.mp h; simp [hsp] at this
          cases hes : es_m with
          | nil => exact absurd hes this
          | cons c d => rfl
      let T1 : St σ := { T0 with idx := (vk m.kind).length, edits := T0.edits ++ es_m, node := nd, key := ky, vs := w2.s }
      let L : St σ := { S with node := some (.node m'), vs := w2.s }
      have hfetchL : fetch T1 = .ok (.got L true (!sp.isEmpty)) := by
        have h1 : (T1.idx == T1.keys.length) = true := by simp [T1, T0, Keys.length]
        simp only [fetch, h1, reduceIte, Bool.true_and]
        have h2 : T1.edits.isEmpty = sp.isEmpty := by simpa [T1, T0] using hemp
        rw [h2]
        cases hsp : sp.isEmpty with
        | true =>
          simp only [Bool.not_true, Bool.false_eq_true, reduceIte, T1, T0, hF3, hF4, L, m', hsp]
          rfl
        | false =>
          have hreb : applyEdits false (some (.node m)) (T0.edits ++ es_m) = .ok (some (.node m')) := by
            simp only [applyEdits, Bool.false_eq_true, reduceIte, T0, List.nil_append]
            show (rebuild m es_m >>= fun m' => Out.ok (some (Val.node m'))) = _
            rw [hfe.rebuild]
            simp [m', hsp]
          simp only [Bool.not_false, reduceIte, T1, T0, hF3, hF4, L, hsp]
          show (Out.ok S.key >>= fun key => _) = _
          simp only [Out.bind_ok]
          have hreb' : applyEdits false (some (Val.node m)) ([] ++ es_m) = .ok (some (.node m')) := hreb
          rw [hreb']
          rfl
      have hstepL : iter false root vk v (kk + 1) T0 = process false root vk v L true (!sp.isEmpty) := by
        rw [iter_add, hrun]
        simp only []
        rw [iter_succ_of_fetch root vk v 0 T1 L true _ hfetchL]
        simp only [procIter]
        cases process false root vk v L true (!sp.isEmpty) with
        | ok nx => cases nx <;> rfl
        | err e => rfl
        | crash c => rfl
      rcases hcall2 : v w2.s ⟨.leave, m', S.key, S.parent, S.rpath.reverse, S.ranc.reverse⟩ with ⟨a2, s3⟩
      have hcall2' : v w2.s ⟨.leave, if sp.isEmpty = true then m else Node.mk m.kind 0 m.payload (withFields m.fields sp),
          S.key, S.parent, S.rpath.reverse, S.ranc.reverse⟩ = (a2, s3) := hcall2
      rw [hcall2'] at hspec
      simp only [] at hspec
      have hrunAll : tailIter root vk v (kk + 1) S m na = process false root vk v L true (!sp.isEmpty) := by
        rw [hstep0, hstepL]
      have hnilS : w2.edited = false → S.edits = [] := fun he => (hinv (hedm he).2).1
      cases a2 with
      | brk =>
        simp at hspec
        subst hspec
        have hproc : process false root vk v L true (!sp.isEmpty) = .ok (.stop (finishVal root S.edits) s3) := by
          simp only [process, L, reduceIte, hcall2]
          simp [finish_eq]
        refine ⟨kk + 1, _, by simp only [Res.w]; omega, by rw [hrunAll, hproc], ?_⟩
        exact ⟨_, rfl, fun he => by rw [hnilS he]; rfl⟩
      | remove =>
        simp at hspec
        subst hspec
        have hproc : process false root vk v L true (!sp.isEmpty) =
            .ok (if S.stack.isEmpty then .stop (finishVal root (S.edits ++ [(S.key, .rm)])) s3
                 else .cont { S with edits := S.edits ++ [(S.key, .rm)], node := some (.node m'),
                                     rpath := S.rpath.tail, idx := S.idx + 1, vs := s3 }) := by
          simp only [process, L, reduceIte, hcall2]
          cases hs : S.stack <;> simp [tail, finish_eq]
        refine ⟨kk + 1, _, by simp only [Res.w]; omega, by rw [hrunAll, hproc], ?_⟩
        exact ⟨[(S.key, .rm)], some (.node m'), Or.inr (Or.inl ⟨rfl, rfl⟩), by simp, rfl⟩
      | replace q =>
        simp at hspec
        subst hspec
        have hproc : process false root vk v L true (!sp.isEmpty) =
            .ok (if S.stack.isEmpty then .stop (finishVal root (S.edits ++ [(S.key, .val (.node q))])) s3
                 else .cont { S with edits := S.edits ++ [(S.key, .val (.node q))], node := some (.node m'),
                                     rpath := S.rpath.tail, idx := S.idx + 1, vs := s3 }) := by
          simp only [process, L, reduceIte, hcall2]
          cases hs : S.stack <;> simp [tail, finish_eq]
        refine ⟨kk + 1, _, by simp only [Res.w]; omega, by rw [hrunAll, hproc], ?_⟩
        exact ⟨[(S.key, .val (.node q))], some (.node m'), Or.inr (Or.inr ⟨q, rfl, rfl⟩), by simp, rfl⟩
      | idle =>
        simp at hspec
        subst hspec
        by_cases hsp : sp.isEmpty = true
        · -- nothing below was edited
          have hproc : process false root vk v L true (!sp.isEmpty) =
              .ok (if S.stack.isEmpty then .stop (finishVal root (S.edits ++ [])) s3
                   else .cont { S with edits := S.edits ++ [], node := some (.node m'),
                                       rpath := S.rpath.tail, idx := S.idx + 1, vs := s3 }) := by
            simp only [process, L, reduceIte, hcall2, hsp]
            cases hs : S.stack <;> simp [tail, finish_eq]
          refine ⟨kk + 1, _, by simp only [Res.w]; omega, by rw [hrunAll, hproc], ?_⟩
          refine ⟨[], some (.node m'), Or.inl ⟨rfl, by simp [List.isEmpty_iff.mp hsp]⟩, fun he => ⟨rfl, (hedm he).2⟩, rfl⟩
        · have hproc : process false root vk v L true (!sp.isEmpty) =
              .ok (if S.stack.isEmpty then .stop (finishVal root (S.edits ++ [(S.key, .val (.node m'))])) s3
                   else .cont { S with edits := S.edits ++ [(S.key, .val (.node m'))], node := some (.node m'),
                                       rpath := S.rpath.tail, idx := S.idx + 1, vs := s3 }) := by
            simp only [process, L, reduceIte, hcall2, hsp]
            cases hs : S.stack <;> simp [tail, finish_eq]
          refine ⟨kk + 1, _, by simp only [Res.w]; omega, by rw [hrunAll, hproc], ?_⟩
          refine ⟨[(S.key, .val (.node m'))], some (.node m'), Or.inr (Or.inr ⟨m', rfl, by
            have hne : sp ≠ [] := fun h => hsp (by simp [h])
            simp [hne, m']⟩), ?_, rfl⟩
          intro he
          have := (hedm he).1
          rw [this] at hemp
          simp [hsp] at hemp
      | skip =>
        simp at hspec
        subst hspec
        by_cases hsp : sp.isEmpty = true
        · have hproc : process false root vk v L true (!sp.isEmpty) =
              .ok (if S.stack.isEmpty then .stop (finishVal root (S.edits ++ [])) s3
                   else .cont { S with edits := S.edits ++ [], node := some (.node m'),
                                       rpath := S.rpath.tail, idx := S.idx + 1, vs := s3 }) := by
            simp only [process, L, reduceIte, hcall2, hsp]
            cases hs : S.stack <;> simp [tail, finish_eq]
          refine ⟨kk + 1, _, by simp only [Res.w]; omega, by rw [hrunAll, hproc], ?_⟩
          refine ⟨[], some (.node m'), Or.inl ⟨rfl, by simp [List.isEmpty_iff.mp hsp]⟩, fun he => ⟨rfl, (hedm he).2⟩, rfl⟩
        · have hproc : process false root vk v L true (!sp.isEmpty) =
              .ok (if S.stack.isEmpty then .stop (finishVal root (S.edits ++ [(S.key, .val (.node m'))])) s3
                   else .cont { S with edits := S.edits ++ [(S.key, .val (.node m'))], node := some (.node m'),
                                       rpath := S.rpath.tail, idx := S.idx + 1, vs := s3 }) := by
            simp only [process, L, reduceIte, hcall2, hsp]
            cases hs : S.stack <;> simp [tail, finish_eq]
          refine ⟨kk + 1, _, by simp only [Res.w]; omega, by rw [hrunAll, hproc], ?_⟩
          refine ⟨[(S.key, .val (.node m'))], some (.node m'), Or.inr (Or.inr ⟨m', rfl, by
            have hne : sp ≠ [] := fun h => hsp (by simp [h])
            simp [hne, m']⟩), ?_, rfl⟩
          intro he
          have := (hedm he).1
          rw [this] at hemp
          simp [hsp] at hemp


theorem sim_node_succG {root : Node} {vk : String → List String} {v : Visitor σ}
    (d : Nat) (hrec : NodeSimG root vk v (specNode vk v d)) : NodeSimG root vk v (specNode vk v (d + 1)) := by
  intro st1 c w res hnode hpos hinv hw hspec
  simp only [specNode] at hspec
  rw [hw] at hspec
  rcases hcall : v st1.vs ⟨.enter, c, st1.key, st1.parent, st1.rpath.reverse, st1.ranc.reverse⟩ with ⟨a, s1⟩
  rw [hcall] at hspec
  simp only [] at hspec
  cases a with
  | brk =>
    simp at hspec
    subst hspec
    refine ⟨0, .stop (finishVal root st1.edits) s1, by simp [Res.w], ?_, ?_⟩
    · simp only [procIter, process, hnode, Bool.false_eq_true, reduceIte, hcall, finish_eq]
    · exact ⟨_, rfl, fun he => by rw [(hinv he).1]; rfl⟩
  | skip =>
    simp at hspec
    subst hspec
    rcases hpos with ⟨h1, h2, h3, h4, h5⟩ | ⟨h1, h2, r, h3⟩
    · refine ⟨0, .stop (finishVal root st1.edits) s1, by simp [Res.w], ?_, ?_⟩
      · simp only [procIter, process, hnode, Bool.false_eq_true, reduceIte, hcall, h1, finish_eq]
        simp
      · exact ⟨[], st1.node, SlotEdits.keep, fun he => ⟨rfl, he⟩, by simp [h1]⟩
    · have hs : st1.stack.isEmpty = false := by
        cases hs : st1.stack with
        | nil => exact absurd hs h1
        | cons a b => rfl
      refine ⟨0, .cont { st1 with vs := s1, rpath := r, idx := st1.idx + 1 }, by simp [Res.w], ?_, ?_⟩
      · simp only [procIter, process, hnode, Bool.false_eq_true, reduceIte, hcall, hs, Bool.and_false]
        rw [h3]
        simp [iter, hnode]
      · refine ⟨[], st1.node, SlotEdits.keep, fun he => ⟨rfl, he⟩, ?_⟩
        simp [hs, h3]
  | remove =>
    simp at hspec
    subst hspec
    rcases hpos with ⟨h1, h2, h3, h4, h5⟩ | ⟨h1, h2, r, h3⟩
    · refine ⟨0, .stop (finishVal root (st1.edits ++ [(st1.key, .rm)])) s1, by simp [Res.w], ?_, ?_⟩
      · simp only [procIter, process, hnode, Bool.false_eq_true, reduceIte, hcall, h1, finish_eq]
        simp
      · exact ⟨[(st1.key, .rm)], st1.node, SlotEdits.gone1, by simp, by simp [h1]⟩
    · have hs : st1.stack.isEmpty = false := by
        cases hs : st1.stack with
        | nil => exact absurd hs h1
        | cons a b => rfl
      refine ⟨0, .cont { st1 with vs := s1, edits := st1.edits ++ [(st1.key, .rm)], rpath := r, idx := st1.idx + 1 },
        by simp [Res.w], ?_, ?_⟩
      · simp only [procIter, process, hnode, Bool.false_eq_true, reduceIte, hcall, hs, Bool.and_false]
        rw [h3]
        simp [iter, hnode]
      · refine ⟨[(st1.key, .rm)], st1.node, SlotEdits.gone1, by simp, ?_⟩
        simp [hs, h3]
  | idle =>
    simp only [] at hspec
    let S : St σ := { st1 with vs := s1, node := some (.node c) }
    have hproc : ∀ k, procIter root vk v k st1 false false = tailIter root vk v k S c true := by
      intro k
      rw [procIter_eq]
      simp only [process, hnode, Bool.false_eq_true, reduceIte, hcall, tailIter, S]
    obtain ⟨k, nx, hit, hrun, hout⟩ := sim_bodyG hrec S c { s := s1, iters := w.iters + 1, edited := w.edited } false true res
      hpos hinv rfl hspec
    refine ⟨k, nx, by simp only [] at hit; omega, by rw [hproc, hrun], ?_⟩
    cases res with
    | brk w' => exact hout
    | done w' slot =>
      obtain ⟨es', nd, hle, hed, hnx⟩ := hout
      refine ⟨es', nd, ?_, hed, hnx⟩
      rcases hle with ⟨h1, h2⟩ | ⟨h1, h2⟩ | ⟨x, h1, h2⟩
      · subst h1; simp at h2; subst h2; exact SlotEdits.keep
      · subst h1; subst h2; exact SlotEdits.gone1
      · subst h1; subst h2; exact SlotEdits.put1 x
  | replace r =>
    simp only [] at hspec
    let S : St σ := { st1 with vs := s1, edits := st1.edits ++ [(st1.key, .val (.node r))], node := some (.node r) }
    have hproc : ∀ k, procIter root vk v k st1 false false = tailIter root vk v k S r false := by
      intro k
      rw [procIter_eq]
      simp only [process, hnode, Bool.false_eq_true, reduceIte, hcall, tailIter, S]
    have hinvS : EdInv { s := s1, iters := w.iters + 1, edited := true } S := by
      intro he; simp at he
    obtain ⟨k, nx, hit, hrun, hout⟩ := sim_bodyG hrec S r { s := s1, iters := w.iters + 1, edited := true } true false res
      hpos hinvS rfl hspec
    refine ⟨k, nx, by simp only [] at hit; omega, by rw [hproc, hrun], ?_⟩
    cases res with
    | brk w' => exact hout
    | done w' slot =>
      obtain ⟨es', nd, hle, hed, hnx⟩ := hout
      refine ⟨[(st1.key, .val (.node r))] ++ es', nd, ?_, ?_, ?_⟩
      · rcases hle with ⟨h1, h2⟩ | ⟨h1, h2⟩ | ⟨x, h1, h2⟩
        · subst h1; simp at h2; subst h2; exact SlotEdits.put1 r
        · subst h1; subst h2; exact SlotEdits.gone2 r
        · subst h1; subst h2; exact SlotEdits.put2 r x
      · intro he
        have := (hed he).2
        simp at this
      · rw [hnx]
        simp [S, List.append_assoc]

theorem sim_allG {root : Node} {vk : String → List String} {v : Visitor σ} :
    ∀ d, NodeSimG root vk v (specNode vk v d)
  | 0 => by
    intro st1 c w res _ _ _ _ hspec
    simp [specNode] at hspec
  | d + 1 => sim_node_succG d (sim_allG d)


/-- the machine against the contract, for every visitor -/
theorem visit_of_spec_full {vk : String → List String} {v : Visitor σ} (d : Nat)
    (root : Node) (s : σ) (out : Outcome σ) (h : specVisit vk v d root s = some out) :
    ∀ fuel, out.iters ≤ fuel →
      ∃ r, visitFuel root vk v s fuel = some (.ok (r, out.state)) ∧ ∀ x, out.result = some x → r = x := by
  unfold specVisit at h
  cases hn : specNode vk v d ⟨s, 0, false⟩ root .none none [] [] with
  | none => simp [hn] at h
  | some res =>
    have hpos : Pos (St.init root s) := Or.inl ⟨rfl, rfl, rfl, rfl, rfl⟩
    have hinv : EdInv (⟨s, 0, false⟩ : W σ) (St.init root s) :=
      fun _ => ⟨rfl, by intro fr hfr; simp [St.init] at hfr⟩
    obtain ⟨k, nx, hit, hrun, hout⟩ := sim_allG (root := root) (vk := vk) (v := v) d (St.init root s) root
      ⟨s, 0, false⟩ res rfl hpos hinv rfl (by simpa [St.init] using hn)
    rw [hn] at h
    have hiter : iter false root vk v (k + 1) (St.init root s) = .ok nx := by
      rw [iter_succ_of_fetch root vk v k _ _ false false (fetch_init root s), hrun]
    have key : ∀ (r : Option Val) (st' : σ), nx = .stop r st' → ∀ fuel, k + 1 ≤ fuel →
        visitFuel root vk v s fuel = some (.ok (r, st')) := by
      intro r st' hnx fuel hle
      rw [hnx] at hiter
      have := iter_stop_mono root vk v (k + 1) fuel _ _ _ hiter hle
      simp [visitFuel, this]
    simp only [Res.w] at hit
    cases res with
    | brk w' =>
      obtain ⟨r, hnx, hr⟩ := hout
      simp at h
      subst h
      intro fuel hf
      refine ⟨r, key r _ hnx fuel (by simp only [Res.w] at hit; simp only [] at hf; omega), ?_⟩
      intro x hx
      cases he : w'.edited with
      | true => simp [he] at hx
      | false => simp [he] at hx; rw [hr he, hx]
    | done w' slot =>
      obtain ⟨es, nd, hslot, _, hnx⟩ := hout
      simp only [St.init, List.isEmpty_nil, reduceIte, List.nil_append] at hnx
      intro fuel hf
      cases hslot with
      | keep =>
        simp at h; subst h
        exact ⟨_, key _ _ hnx fuel (by simp only [Res.w] at hit; simp only [] at hf; omega),
          fun x hx => by simp at hx; subst hx; rfl⟩
      | gone1 =>
        simp at h; subst h
        exact ⟨_, key _ _ hnx fuel (by simp only [Res.w] at hit; simp only [] at hf; omega),
          fun x hx => by simp at hx; subst hx; rfl⟩
      | gone2 r =>
        simp at h; subst h
        exact ⟨_, key _ _ hnx fuel (by simp only [Res.w] at hit; simp only [] at hf; omega),
          fun x hx => by simp at hx; subst hx; rfl⟩
      | put1 y =>
        simp at h; subst h
        exact ⟨_, key _ _ hnx fuel (by simp only [Res.w] at hit; simp only [] at hf; omega),
          fun x hx => by simp at hx; subst hx; rfl⟩
      | put2 r y =>
        simp at h; subst h
        exact ⟨_, key _ _ hnx fuel (by simp only [Res.w] at hit; simp only [] at hf; omega),
          fun x hx => by simp at hx; subst hx; rfl⟩

end Gql.Syntax
