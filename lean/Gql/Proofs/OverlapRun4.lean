import Gql.Proofs.OverlapRun3
import Gql.Proofs.OverlapHyps
/-! C14, named fragments, completeness (7): the visitor, and the equivalence for all documents. -/
namespace Gql.Exec
open Overlap

theorem WithinOK.mono {s : Schema} {d : Doc} {T T' : St} (hT : TLe T T') {t : TSet}
    (h : WithinOK s d T t) : WithinOK s d T' t :=
  ⟨fun pr hpr hrn => (h.1 pr hpr hrn).mono hT, fun n hn => (h.2.1 n hn).mono hT,
    fun n1 h1 n2 h2 => (h.2.2 n1 h1 n2 h2).mono hT⟩

theorem fieldsFrag_mem_tasks {sps : List Spread} {sp : Spread} (h : sp ∈ sps) :
    Task.fieldsFrag sp ∈ withinTasks sps := by
  induction sps with
  | nil => cases h
  | cons x xs ih =>
    simp only [withinTasks, List.mem_cons, List.mem_append, List.mem_map]
    rcases List.mem_cons.1 h with rfl | h
    · exact Or.inl rfl
    · exact Or.inr (Or.inr (ih h))

theorem frags_mem_tasks {sps : List Spread} {a b : Spread} (h : (a, b) ∈ Spec.pairsOf sps) :
    Task.frags a b ∈ withinTasks sps := by
  induction sps with
  | nil => simp [Spec.pairsOf] at h
  | cons x xs ih =>
    simp only [Spec.pairsOf, List.mem_append, List.mem_map, Prod.mk.injEq] at h
    simp only [withinTasks, List.mem_cons, List.mem_append, List.mem_map]
    rcases h with ⟨y, hy, rfl, rfl⟩ | h
    · exact Or.inr (Or.inl ⟨_, hy, rfl⟩)
    · exact Or.inr (Or.inr (ih h))

/-- what a task of `find_conflicts_within_selection_set` establishes -/
def taskPost (i : Nat) (tk : Task) (σ : St) : Prop :=
  match tk with
  | .fieldsFrag sp => CovFF σ i sp.key false
  | .frags a b => CovFR σ a.key b.key false

section run4
variable (env : Env) (hle : LinOrd env.le) (hU : TypedIdsUnique env.s env.d)
  (hA : ∀ a, DocInst env.s env.d a → a.node.argsOK)
  (hT : ∀ a, DocInst env.s env.d a → a.node.name ≠ "__typename") (hK : KeysInj env.d)
include hle hU hA hT hK

theorem within_tr (P : Prog) (n : Nat) {t : TSet} (ht : t ∈ env.d.typedSets env.s)
    {pTI : Option String} (hp : PEq env.s t.1 pTI) :
    Tr env P (findConflictsWithinSelectionSet env n pTI t.2)
      (fun σ => WithinOK env.s env.d σ t) := by
  obtain ⟨hFC, _, hFF, hFR⟩ := run_all env hle hU hA hT hK n
  intro σ σ' hg h
  simp only [findConflictsWithinSelectionSet] at h
  obtain ⟨g1, tl1, q', hq', ceq⟩ := good_getFields env hU hg ht hp
  generalize getFields env.s env.d σ pTI t.2 = r1 at g1 tl1 ceq h
  obtain ⟨σ1, fm, sps⟩ := r1
  simp only at g1 tl1 ceq h
  rw [computeFields_fmOf, Prod.mk.injEq] at ceq
  obtain ⟨rfl, rfl⟩ := ceq
  have ssub := typed_spreads_sub env ht
  have R := tr_andThen env
    (tr_forEach env (withinPairs (fmOf env t q'))
      (fun u => findConflict env n false u.1 u.2.1 u.2.2)
      (fun (u : String × FieldEntry × FieldEntry) σ =>
        PPass env.s env.d σ false u.2.1.inst u.2.2.inst)
      (by
        intro u hu
        obtain ⟨k1, k2, _⟩ := within_known env ht hq' hu
        exact hFC P false u.1 u.2.1 u.2.2 k1 k2)
      (fun u => monoP_ppass _ _ _))
    (tr_forEach env (withinTasks (spreadsOf env.d (selsDirectSpreads t.2.sels)))
      (fun tk => match tk with
        | .fieldsFrag sp => collectConflictsBetweenFieldsAndFragment env n false (fmOf env t q') sp
        | .frags a b => collectConflictsBetweenFragments env n false a b)
      (taskPost t.2.id)
      (by
        intro tk htk
        have hm := withinTasks_mem htk
        cases tk with
        | fieldsFrag sp =>
          obtain ⟨nm, hnm, rfl⟩ := mem_spreadsOf hm
          exact hFF P false t q' nm ht hq' (ssub hnm)
        | frags a b =>
          obtain ⟨n1, hn1, rfl⟩ := mem_spreadsOf hm.1
          obtain ⟨n2, hn2, rfl⟩ := mem_spreadsOf hm.2
          exact hFR P false n1 n2 (ssub hn1) (ssub hn2))
      (by
        intro tk
        cases tk with
        | fieldsFrag sp => exact monoP_covFF _ _ _
        | frags a b => exact monoP_covFR _ _ _))
    (monoP_forall _ _ (fun u => monoP_ppass _ _ _))
  obtain ⟨g2, tl2, hpairs, htasks⟩ := R σ1 σ' g1 h
  refine ⟨g2, tl1.trans tl2, ?_, ?_, ?_⟩
  · intro pr hpr hrn
    obtain ⟨p', hp', i1, i2⟩ := (selsFlat_peq env.s t.2.sels t.1 q' hq').pairs_left hpr
    have hu : (pr.1.node.responseName, toEntry env.s p'.1, toEntry env.s p'.2) ∈
        withinPairs (fmOf env t q') := by
      refine mem_withinPairs_grp.2 ⟨?_, ?_, ?_⟩
      · rw [Spec.pairsOf_map]
        exact List.mem_map.2 ⟨p', hp', rfl⟩
      · simp only [rnE, toEntry]; rw [← i1.1]
      · simp only [rnE, toEntry]; rw [← i2.1, hrn]
    have := hpairs _ hu
    simp only [inst_toEntry] at this
    exact this.instEq i1.symm i2.symm
  · intro nm hnm
    exact htasks _ (fieldsFrag_mem_tasks (mem_spreadsOf_of_name hK ssub hnm))
  · intro n1 hn1 n2 hn2
    have m1 := mem_spreadsOf_of_name hK ssub hn1
    have m2 := mem_spreadsOf_of_name hK ssub hn2
    rcases mem_pairs_or m1 m2 with hp | hp | he
    · exact htasks _ (frags_mem_tasks hp)
    · exact (htasks _ (frags_mem_tasks hp) : CovFR σ' _ _ false).symm
    · exact Or.inl (congrArg Spread.key he)

mutual
theorem visitSel_tr (P : Prog) (n : Nat) : ∀ (x : Sel) (pTI q : Option String),
    PEq env.s q pTI → x.typedSets env.s q ⊆ env.d.typedSets env.s →
    (∀ a ∈ x.flat env.s q, a.node.name ≠ "__typename") →
    Tr env P (visitSel env n pTI x)
      (fun σ => ∀ t ∈ x.typedSets env.s q, WithinOK env.s env.d σ t)
  | .field id al name args st hasSub subId sub, pTI, q, hp, hsub, hname => by
    cases hasSub with
    | false =>
      intro σ σ' hg h
      simp only [visitSel, Bool.false_eq_true, if_false, Option.some.injEq, Prod.mk.injEq,
        and_true] at h
      subst h
      exact ⟨hg, TLe.refl _, by simp [Sel.typedSets]⟩
    | true =>
      have hnm : name ≠ "__typename" := hname ⟨q, ⟨id, al, name, args, st, true, subId, sub⟩⟩
        (by simp [Sel.flat])
      have hq' : (Spec.fieldType env.s q name).map Ty.named =
          (env.s.fieldDef pTI name).map Ty.named := by
        rw [fieldType_of_ne hnm, hp.fieldDef]
      have hmem : ((Spec.fieldType env.s q name).map Ty.named, (⟨subId, sub⟩ : SelSet)) ∈
          env.d.typedSets env.s := hsub (by simp [Sel.typedSets])
      have hpc : PEq env.s ((Spec.fieldType env.s q name).map Ty.named)
          (compositeOrNone env.s ((env.s.fieldDef pTI name).map Ty.named)) := by
        rw [hq']; exact (cON_idem _ _).symm
      have R := tr_andThen env
        (within_tr env hle hU hA hT hK P n hmem hpc)
        (visitSels_tr P n sub
          (compositeOrNone env.s ((env.s.fieldDef pTI name).map Ty.named))
          ((Spec.fieldType env.s q name).map Ty.named) hpc
          (fun u hu => hsub (by simp [Sel.typedSets, hu]))
          (fun a ha => hT a ⟨_, hmem, ha⟩))
        (fun σ σ' hT' h => h.mono hT')
      intro σ σ' hg h
      obtain ⟨g, tl, w1, w2⟩ := R σ σ' hg (by simpa [visitSel] using h)
      refine ⟨g, tl, ?_⟩
      intro t ht
      simp only [Sel.typedSets, if_true, List.mem_cons] at ht
      rcases ht with rfl | ht
      · exact w1
      · exact w2 t ht
  | .inline tc ssId sels, pTI, q, hp, hsub, hname => by
    have key : ∀ (q' pc : Option String), PEq env.s q' pc →
        (q', (⟨ssId, sels⟩ : SelSet)) ∈ env.d.typedSets env.s →
        selsTypedSets env.s q' sels ⊆ env.d.typedSets env.s →
        (∀ a ∈ selsFlat env.s q' sels, a.node.name ≠ "__typename") →
        Tr env P (fun σ => andThen (findConflictsWithinSelectionSet env n pc ⟨ssId, sels⟩ σ)
          (visitSels env n pc sels))
          (fun σ => WithinOK env.s env.d σ (q', ⟨ssId, sels⟩) ∧
            ∀ t ∈ selsTypedSets env.s q' sels, WithinOK env.s env.d σ t) :=
      fun q' pc hpc hmem hs hnm => tr_andThen env
        (within_tr env hle hU hA hT hK P n hmem hpc)
        (visitSels_tr P n sels pc q' hpc hs hnm)
        (fun σ σ' hT' h => h.mono hT')
    cases tc with
    | none =>
      have R := key q pTI hp (hsub (by simp [Sel.typedSets]))
        (fun u hu => hsub (by simp [Sel.typedSets, hu])) (by simpa [Sel.flat] using hname)
      intro σ σ' hg h
      obtain ⟨g, tl, w1, w2⟩ := R σ σ' hg (by simpa [visitSel] using h)
      refine ⟨g, tl, ?_⟩
      intro t ht
      simp only [Sel.typedSets, List.mem_cons] at ht
      rcases ht with rfl | ht
      · exact w1
      · exact w2 t ht
    | some tn =>
      have R := key (env.s.typeFromAst tn) (compositeOrNone env.s (env.s.typeFromAst tn))
        (cON_idem _ _).symm (hsub (by simp [Sel.typedSets]))
        (fun u hu => hsub (by simp [Sel.typedSets, hu])) (by simpa [Sel.flat] using hname)
      intro σ σ' hg h
      obtain ⟨g, tl, w1, w2⟩ := R σ σ' hg (by simpa [visitSel] using h)
      refine ⟨g, tl, ?_⟩
      intro t ht
      simp only [Sel.typedSets, List.mem_cons] at ht
      rcases ht with rfl | ht
      · exact w1
      · exact w2 t ht
  | .spread _, pTI, q, _, _, _ => by
    intro σ σ' hg h
    simp only [visitSel, Option.some.injEq, Prod.mk.injEq, and_true] at h
    subst h
    exact ⟨hg, TLe.refl _, by simp [Sel.typedSets]⟩
theorem visitSels_tr (P : Prog) (n : Nat) : ∀ (xs : List Sel) (pTI q : Option String),
    PEq env.s q pTI → selsTypedSets env.s q xs ⊆ env.d.typedSets env.s →
    (∀ a ∈ selsFlat env.s q xs, a.node.name ≠ "__typename") →
    Tr env P (visitSels env n pTI xs)
      (fun σ => ∀ t ∈ selsTypedSets env.s q xs, WithinOK env.s env.d σ t)
  | [], pTI, q, _, _, _ => by
    intro σ σ' hg h
    simp only [visitSels, Option.some.injEq, Prod.mk.injEq, and_true] at h
    subst h
    exact ⟨hg, TLe.refl _, by simp [selsTypedSets]⟩
  | x :: xs, pTI, q, hp, hsub, hname => by
    have R := tr_andThen env
      (visitSel_tr P n x pTI q hp (fun u hu => hsub (by simp [selsTypedSets, hu]))
        (fun a ha => hname a (by simp [selsFlat, ha])))
      (visitSels_tr P n xs pTI q hp (fun u hu => hsub (by simp [selsTypedSets, hu]))
        (fun a ha => hname a (by simp [selsFlat, ha])))
      (fun σ σ' hT' h t ht => (h t ht).mono hT')
    intro σ σ' hg h
    obtain ⟨g, tl, w1, w2⟩ := R σ σ' hg (by simpa [visitSels] using h)
    refine ⟨g, tl, ?_⟩
    intro t ht
    simp only [selsTypedSets, List.mem_append] at ht
    rcases ht with ht | ht
    · exact w1 t ht
    · exact w2 t ht
end

theorem visitDefn_tr (hR : RootsObject env.s env.d) (P : Prog) (n : Nat) {df : Defn}
    (hdf : df ∈ env.d) :
    Tr env P (visitDefn env n df)
      (fun σ => ∀ t ∈ (df.parent env.s, df.ss) :: selsTypedSets env.s (df.parent env.s) df.ss.sels,
        WithinOK env.s env.d σ t) := by
  have hmem : (df.parent env.s, df.ss) ∈ env.d.typedSets env.s := by
    simp only [Doc.typedSets, List.mem_flatMap, List.mem_cons]
    exact ⟨df, hdf, Or.inl rfl⟩
  have hsub : selsTypedSets env.s (df.parent env.s) df.ss.sels ⊆ env.d.typedSets env.s :=
    Doc.typedSets_closed hmem
  have key : ∀ pc, PEq env.s (df.parent env.s) pc →
      Tr env P (fun σ => andThen (findConflictsWithinSelectionSet env n pc df.ss σ)
        (visitSels env n pc df.ss.sels))
        (fun σ => WithinOK env.s env.d σ (df.parent env.s, df.ss) ∧
          ∀ t ∈ selsTypedSets env.s (df.parent env.s) df.ss.sels, WithinOK env.s env.d σ t) :=
    fun pc hpc => tr_andThen env
      (within_tr env hle hU hA hT hK P n hmem hpc)
      (visitSels_tr env hle hU hA hT hK P n df.ss.sels pc (df.parent env.s) hpc hsub
        (fun a ha => hT a ⟨_, hmem, ha⟩))
      (fun σ σ' hT' h => h.mono hT')
  have fin : ∀ σ, (WithinOK env.s env.d σ (df.parent env.s, df.ss) ∧
      ∀ t ∈ selsTypedSets env.s (df.parent env.s) df.ss.sels, WithinOK env.s env.d σ t) →
      ∀ t ∈ (df.parent env.s, df.ss) :: selsTypedSets env.s (df.parent env.s) df.ss.sels,
        WithinOK env.s env.d σ t := by
    intro σ ⟨w1, w2⟩ t ht
    rcases List.mem_cons.1 ht with rfl | ht
    · exact w1
    · exact w2 t ht
  cases df with
  | op root ss =>
    have hpc : PEq env.s root (if env.s.isObject root = true then root else none) := by
      rcases (hR _ hdf : root = none ∨ env.s.isObject root = true) with rfl | h
      · simp [PEq]
      · simp [h, PEq]
    intro σ σ' hg h
    obtain ⟨g, tl, w⟩ := key _ hpc σ σ' hg (by simpa [visitDefn, Defn.ss] using h)
    exact ⟨g, tl, fin σ' w⟩
  | frag f =>
    intro σ σ' hg h
    obtain ⟨g, tl, w⟩ := key _ (cON_idem _ _).symm σ σ' hg
      (by simpa [visitDefn, Defn.ss, Defn.parent] using h)
    exact ⟨g, tl, fin σ' w⟩

end run4

/-- **Completeness of the rule, all documents**: if it reports nothing, no two fields of an
expanded selection set have an unordered conflict. -/
theorem implConflictsFuel_complete (le : String → String → Bool) (hle : LinOrd le) (s : Schema)
    (d : Doc) (hU : TypedIdsUnique s d) (hA : ∀ a, DocInst s d a → a.node.argsOK)
    (hT : ∀ a, DocInst s d a → a.node.name ≠ "__typename") (hR : RootsObject s d)
    (hK : KeysInj d) (n : Nat) (h : implConflictsFuel le n s d = some []) : ¬ UWConf s d := by
  simp only [implConflictsFuel, Option.map_eq_some_iff] at h
  obtain ⟨⟨σ', cs'⟩, e, hcs⟩ := h
  simp only at hcs
  subst hcs
  have R := tr_forEach ⟨s, d, le⟩ (P := ⟨[], []⟩) d (visitDefn ⟨s, d, le⟩ n)
    (fun df σ => ∀ t ∈ (df.parent s, df.ss) :: selsTypedSets s (df.parent s) df.ss.sels,
      WithinOK s d σ t)
    (fun df hdf => visitDefn_tr ⟨s, d, le⟩ hle hU hA hT hK hR ⟨[], []⟩ n hdf)
    (fun df σ σ' hT' h t ht => (h t ht).mono hT')
  have h0 : Good ⟨s, d, le⟩ {} ⟨[], []⟩ := by
    refine ⟨fun i c h => by simp [assocGet] at h, ?_, ?_⟩
    · intro t _ nm _ r hr; simp [assocGet] at hr
    · intro n1 _ n2 _ r _ hr; simp [assocGet] at hr
  obtain ⟨g, _, hw⟩ := R {} σ' h0 e
  have hC : Closed s d σ' := closedX_nil g.2
  have hW : ∀ t ∈ d.typedSets s, WithinOK s d σ' t := by
    intro t ht
    simp only [Doc.typedSets, List.mem_flatMap] at ht
    obtain ⟨df, hdf, htd⟩ := ht
    exact hw df hdf t htd
  exact no_uwconf hC hW hU hK hA

end Gql.Exec
