import Gql.Proofs.OverlapFlat
/-! C14, named fragments: the specification's expansion "including visiting fragments" (depth
first, one shared visited set, fuel = number of fragment definitions + 1) collects exactly the
fields of the selection set itself and of every fragment reachable through spreads. -/
namespace Gql.Exec
open Overlap

/-- fragment `n` is defined and directly spreads `m` -/
def Edge (d : Doc) (n m : String) : Prop :=
  ∃ fr, d.getFragment n = some fr ∧ m ∈ selsDirectSpreads fr.ss.sels

inductive FReach (d : Doc) : String → String → Prop where
  | refl (n : String) : FReach d n n
  | step {n m k : String} : Edge d n m → FReach d m k → FReach d n k

theorem FReach.trans {d : Doc} {a b c : String} (h1 : FReach d a b) (h2 : FReach d b c) :
    FReach d a c := by
  induction h1 with
  | refl _ => exact h2
  | step he _ ih => exact FReach.step he (ih h2)

/-- the typed selection set of fragment `n` -/
def fragSet (s : Schema) (d : Doc) (n : String) : Option (Option String × SelSet) :=
  (d.getFragment n).map (fun fr => (s.typeFromAst fr.typeCond, fr.ss))

/-- `c` is one of the fields of fragment `m` itself -/
def FieldsOfFrag (s : Schema) (d : Doc) (m : String) (c : Spec.FieldInst) : Prop :=
  ∃ t, fragSet s d m = some t ∧ c ∈ selsFlat s t.1 t.2.sels

/-- `c` is a field of the selection set, or of a fragment reachable from one of its spreads -/
def InE (s : Schema) (d : Doc) (p : Option String) (xs : List Sel) (c : Spec.FieldInst) : Prop :=
  c ∈ selsFlat s p xs ∨
    ∃ n ∈ selsDirectSpreads xs, ∃ m, FReach d n m ∧ FieldsOfFrag s d m c

/-! ### the fuel is enough -/

def defNames (d : Doc) : List String := d.frags.map (·.name)

/-- number of defined fragment names not yet visited -/
def unvisited (d : Doc) (vis : List String) : Nat :=
  ((defNames d).filter (fun m => !vis.contains m)).length

theorem getFragment_name {d : Doc} {n : String} {fr : FragDef} (h : d.getFragment n = some fr) :
    fr.name = n ∧ n ∈ defNames d := by
  have h1 := List.find?_some h
  have h2 := List.mem_reverse.1 (List.mem_of_find?_eq_some h)
  have e : fr.name = n := by simpa using h1
  exact ⟨e, List.mem_map.2 ⟨fr, h2, e⟩⟩

theorem unvisited_le (d : Doc) (vis : List String) : unvisited d vis ≤ d.frags.length := by
  simp only [unvisited, defNames]
  exact Nat.le_trans (List.length_filter_le _ _) (by simp)

theorem filter_length_mono {α : Type} (p q : α → Bool) (l : List α)
    (h : ∀ x ∈ l, q x = true → p x = true) : (l.filter q).length ≤ (l.filter p).length := by
  induction l with
  | nil => simp
  | cons x xs ih =>
    have ih' := ih (fun y hy => h y (List.mem_cons_of_mem _ hy))
    simp only [List.filter_cons]
    by_cases hq : q x = true
    · have hp := h x List.mem_cons_self hq
      simp [hq, hp]; omega
    · have hq' : q x = false := by simpa using hq
      by_cases hp : p x = true
      · simp [hq', hp]; omega
      · have hp' : p x = false := by simpa using hp
        simp [hq', hp', ih']

theorem filter_length_lt {α : Type} (p q : α → Bool) (l : List α)
    (h : ∀ x ∈ l, q x = true → p x = true) {y : α} (hy : y ∈ l) (hpy : p y = true)
    (hqy : q y = false) : (l.filter q).length < (l.filter p).length := by
  induction l with
  | nil => cases hy
  | cons x xs ih =>
    have hmono := filter_length_mono p q xs (fun z hz => h z (List.mem_cons_of_mem _ hz))
    simp only [List.filter_cons]
    rcases List.mem_cons.1 hy with rfl | hy'
    · simp [hpy, hqy]; omega
    · have ih' := ih (fun z hz => h z (List.mem_cons_of_mem _ hz)) hy'
      by_cases hq : q x = true
      · have hp := h x List.mem_cons_self hq
        simp [hq, hp]; omega
      · have hq' : q x = false := by simpa using hq
        by_cases hp : p x = true
        · simp [hq', hp]; omega
        · have hp' : p x = false := by simpa using hp
          simp [hq', hp', ih']

theorem unvisited_mono (d : Doc) {vis vis' : List String} (h : vis ⊆ vis') :
    unvisited d vis' ≤ unvisited d vis := by
  apply filter_length_mono
  intro x _ hx
  simp only [Bool.not_eq_true', List.contains_eq_mem, decide_eq_false_iff_not] at hx ⊢
  exact fun hm => hx (h hm)

theorem unvisited_cons_lt (d : Doc) {vis : List String} {n : String} (hn : n ∈ defNames d)
    (hv : n ∉ vis) : unvisited d (n :: vis) < unvisited d vis := by
  apply filter_length_lt (y := n) _ _ _ _ hn
  · simp [hv]
  · simp
  · intro x _ hx
    simp only [Bool.not_eq_true', List.contains_eq_mem, decide_eq_false_iff_not, List.mem_cons,
      not_or] at hx ⊢
    exact hx.2

/-! ### what one expansion returns -/

/-- `r = (fields, visited)` is a correct expansion of a selection with own fields `F` and direct
spreads `D` from the visited set `vis`. -/
structure ExpOK (s : Schema) (d : Doc) (F : List Spec.FieldInst) (D : List String)
    (vis : List String) (r : List Spec.FieldInst × List String) : Prop where
  sub : vis ⊆ r.2
  explored : ∀ m ∈ r.2, m ∉ vis → ∀ k, Edge d m k → k ∈ r.2
  spreads : D ⊆ r.2
  outSub : ∀ c ∈ r.1, c ∈ F ∨ ∃ m ∈ r.2, m ∉ vis ∧ FieldsOfFrag s d m c
  own : ∀ c ∈ F, c ∈ r.1
  newFields : ∀ m ∈ r.2, m ∉ vis → ∀ c, FieldsOfFrag s d m c → c ∈ r.1
  newReach : ∀ m ∈ r.2, m ∉ vis → ∃ n0 ∈ D, FReach d n0 m

theorem ExpOK.seq {s : Schema} {d : Doc} {F1 F2 : List Spec.FieldInst} {D1 D2 : List String}
    {vis : List String} {r1 r2 : List Spec.FieldInst × List String}
    (h1 : ExpOK s d F1 D1 vis r1) (h2 : ExpOK s d F2 D2 r1.2 r2) :
    ExpOK s d (F1 ++ F2) (D1 ++ D2) vis (r1.1 ++ r2.1, r2.2) := by
  refine ⟨fun x hx => h2.sub (h1.sub hx), ?_, ?_, ?_, ?_, ?_, ?_⟩
  · intro m hm hv k hk
    by_cases hm1 : m ∈ r1.2
    · exact h2.sub (h1.explored m hm1 hv k hk)
    · exact h2.explored m hm hm1 k hk
  · intro x hx
    rcases List.mem_append.1 hx with hx | hx
    · exact h2.sub (h1.spreads hx)
    · exact h2.spreads hx
  · intro c hc
    rcases List.mem_append.1 hc with hc | hc
    · rcases h1.outSub c hc with h | ⟨m, hm, hv, hf⟩
      · exact Or.inl (List.mem_append_left _ h)
      · exact Or.inr ⟨m, h2.sub hm, hv, hf⟩
    · rcases h2.outSub c hc with h | ⟨m, hm, hv, hf⟩
      · exact Or.inl (List.mem_append_right _ h)
      · exact Or.inr ⟨m, hm, fun hx => hv (h1.sub hx), hf⟩
  · intro c hc
    rcases List.mem_append.1 hc with hc | hc
    · exact List.mem_append_left _ (h1.own c hc)
    · exact List.mem_append_right _ (h2.own c hc)
  · intro m hm hv c hc
    by_cases hm1 : m ∈ r1.2
    · exact List.mem_append_left _ (h1.newFields m hm1 hv c hc)
    · exact List.mem_append_right _ (h2.newFields m hm hm1 c hc)
  · intro m hm hv
    by_cases hm1 : m ∈ r1.2
    · obtain ⟨n0, h0, hr⟩ := h1.newReach m hm1 hv
      exact ⟨n0, List.mem_append_left _ h0, hr⟩
    · obtain ⟨n0, h0, hr⟩ := h2.newReach m hm hm1
      exact ⟨n0, List.mem_append_right _ h0, hr⟩

theorem ExpOK.triv (s : Schema) (d : Doc) (F : List Spec.FieldInst) (D : List String)
    (vis : List String) (hD : D ⊆ vis) : ExpOK s d F D vis (F, vis) :=
  { sub := fun _ h => h
    explored := fun m hm hv => absurd hm hv
    spreads := hD
    outSub := fun c hc => Or.inl hc
    own := fun c hc => hc
    newFields := fun m hm hv => absurd hm hv
    newReach := fun m hm hv => absurd hm hv }

section rec
variable (s : Schema) (d : Doc) (rec : Spec.Expander) (B : Nat)
  (hrec : ∀ p xs vis, unvisited d vis < B →
    ExpOK s d (selsFlat s p xs) (selsDirectSpreads xs) vis (rec p xs vis))
include hrec

mutual
theorem expandSel_ok : ∀ (x : Sel) (p : Option String) (vis : List String),
    unvisited d vis ≤ B →
      ExpOK s d (x.flat s p) x.directSpreads vis (Spec.expandSel s d rec p x vis)
  | .field id al name args st hasSub subId sub, p, vis, _ => by
    simp only [Spec.expandSel, Sel.flat, Sel.directSpreads]
    exact ExpOK.triv s d _ _ vis (by simp)
  | .inline tc ssId sels, p, vis, hB => by
    cases tc <;> simp only [Spec.expandSel, Sel.flat, Sel.directSpreads] <;>
      exact expandSels_ok sels _ vis hB
  | .spread name, p, vis, hB => by
    simp only [Spec.expandSel, Sel.flat, Sel.directSpreads]
    by_cases hc : vis.contains name = true
    · have hmem : name ∈ vis := by simpa using hc
      simp only [hc, if_true]
      exact ExpOK.triv s d _ _ vis (by simpa using hmem)
    · have hnm : name ∉ vis := by simpa using hc
      simp only [hc, Bool.false_eq_true, if_false]
      cases hg : d.getFragment name with
      | none =>
        simp only
        refine ⟨fun _ h => List.mem_cons_of_mem _ h, ?_, by simp, ?_, ?_, ?_, ?_⟩
        · intro m hm hv k hk
          rcases List.mem_cons.1 hm with rfl | hm
          · obtain ⟨fr, hfr, _⟩ := hk
            rw [hg] at hfr; cases hfr
          · exact absurd hm hv
        · intro c hc; cases hc
        · intro c hc; cases hc
        · intro m hm hv c hcf
          rcases List.mem_cons.1 hm with rfl | hm
          · obtain ⟨t, ht, _⟩ := hcf
            simp [fragSet, hg] at ht
          · exact absurd hm hv
        · intro m hm hv
          rcases List.mem_cons.1 hm with rfl | hm
          · exact ⟨m, by simp, FReach.refl _⟩
          · exact absurd hm hv
      | some fr =>
        simp only
        have hlt : unvisited d (name :: vis) < B :=
          Nat.lt_of_lt_of_le (unvisited_cons_lt d (getFragment_name hg).2 hnm) hB
        have R := hrec (s.typeFromAst fr.typeCond) fr.ss.sels (name :: vis) hlt
        have hfs : fragSet s d name = some (s.typeFromAst fr.typeCond, fr.ss) := by
          simp [fragSet, hg]
        refine ⟨fun x hx => R.sub (List.mem_cons_of_mem _ hx), ?_, ?_, ?_, ?_, ?_, ?_⟩
        · intro m hm hv k hk
          by_cases hmn : m = name
          · subst hmn
            obtain ⟨fr', hfr', hk'⟩ := hk
            rw [hg] at hfr'
            cases hfr'
            exact R.spreads hk'
          · exact R.explored m hm (by simp [hmn, hv]) k hk
        · intro x hx
          simp only [List.mem_singleton] at hx
          subst hx
          exact R.sub List.mem_cons_self
        · intro c hc
          rcases R.outSub c hc with h | ⟨m, hm, hv, hf⟩
          · exact Or.inr ⟨name, R.sub List.mem_cons_self, hnm, _, hfs, h⟩
          · exact Or.inr ⟨m, hm, fun hx => hv (List.mem_cons_of_mem _ hx), hf⟩
        · intro c hc; cases hc
        · intro m hm hv c hcf
          by_cases hmn : m = name
          · subst hmn
            obtain ⟨t, ht, hct⟩ := hcf
            rw [hfs] at ht
            cases ht
            exact R.own c hct
          · exact R.newFields m hm (by simp [hmn, hv]) c hcf
        · intro m hm hv
          by_cases hmn : m = name
          · subst hmn
            exact ⟨m, by simp, FReach.refl _⟩
          · obtain ⟨n0, h0, hr⟩ := R.newReach m hm (by simp [hmn, hv])
            exact ⟨name, by simp, FReach.step ⟨fr, hg, h0⟩ hr⟩
theorem expandSels_ok : ∀ (xs : List Sel) (p : Option String) (vis : List String),
    unvisited d vis ≤ B →
      ExpOK s d (selsFlat s p xs) (selsDirectSpreads xs) vis (Spec.expandSels s d rec p xs vis)
  | [], p, vis, _ => by
    simp only [Spec.expandSels, selsFlat, selsDirectSpreads]
    exact ExpOK.triv s d _ _ vis (by simp)
  | x :: xs, p, vis, hB => by
    simp only [Spec.expandSels, selsFlat, selsDirectSpreads]
    have h1 := expandSel_ok x p vis hB
    have h2 := expandSels_ok xs p (Spec.expandSel s d rec p x vis).2
      (Nat.le_trans (unvisited_mono d h1.sub) hB)
    exact h1.seq h2
end
end rec

theorem expandLvl_ok (s : Schema) (d : Doc) : ∀ (n : Nat) (p : Option String) (xs : List Sel)
    (vis : List String), unvisited d vis < n →
      ExpOK s d (selsFlat s p xs) (selsDirectSpreads xs) vis (Spec.expandLvl s d n p xs vis) := by
  intro n
  induction n with
  | zero => intro p xs vis h; omega
  | succ n ih =>
    intro p xs vis h
    simp only [Spec.expandLvl]
    exact expandSels_ok s d _ n ih xs p vis (by omega)

theorem expandWith_ok (s : Schema) (d : Doc) (p : Option String) (xs : List Sel)
    (vis : List String) :
    ExpOK s d (selsFlat s p xs) (selsDirectSpreads xs) vis (Spec.expandWith s d p xs vis) :=
  expandLvl_ok s d _ p xs vis (Nat.lt_succ_of_le (unvisited_le d vis))

/-! ### membership in the specification's expanded sets -/

def ClosedVis (d : Doc) (vis : List String) : Prop := ∀ m ∈ vis, ∀ k, Edge d m k → k ∈ vis

theorem ClosedVis.reach {d : Doc} {vis : List String} (h : ClosedVis d vis) {n m : String}
    (hn : n ∈ vis) (hr : FReach d n m) : m ∈ vis := by
  induction hr with
  | refl _ => exact hn
  | step he _ ih => exact ih (h _ hn _ he)

theorem ExpOK.closed {s : Schema} {d : Doc} {F : List Spec.FieldInst} {D vis : List String}
    {r : List Spec.FieldInst × List String} (h : ExpOK s d F D vis r) (hv : ClosedVis d vis) :
    ClosedVis d r.2 := by
  intro m hm k hk
  by_cases hmv : m ∈ vis
  · exact h.sub (hv m hmv k hk)
  · exact h.explored m hm hmv k hk

theorem expand_mem (s : Schema) (d : Doc) (p : Option String) (xs : List Sel)
    (c : Spec.FieldInst) : c ∈ (Spec.expandWith s d p xs []).1 ↔ InE s d p xs c := by
  have R := expandWith_ok s d p xs []
  have hc : ClosedVis d (Spec.expandWith s d p xs []).2 := R.closed (fun m hm => by cases hm)
  constructor
  · intro h
    rcases R.outSub c h with h | ⟨m, hm, hv, hf⟩
    · exact Or.inl h
    · obtain ⟨n0, h0, hr⟩ := R.newReach m hm hv
      exact Or.inr ⟨n0, h0, m, hr, hf⟩
  · rintro (h | ⟨n0, h0, m, hr, hf⟩)
    · exact R.own c h
    · exact R.newFields m (hc.reach (R.spreads h0) hr) (by simp) c hf

/-- the selections of a field's sub-selection set (none if it has none) -/
def subSels (a : Spec.FieldInst) : List Sel := if a.node.hasSub = true then a.node.sub else []

/-- a field of the merged sub-selections of `a` and `b`, fragments visited -/
def MIn (s : Schema) (d : Doc) (a b c : Spec.FieldInst) : Prop :=
  InE s d (subP s a) (subSels a) c ∨ InE s d (subP s b) (subSels b) c

theorem merged_mem (s : Schema) (d : Doc) (a b c : Spec.FieldInst) :
    c ∈ Spec.mergedFields s d a b ↔ MIn s d a b c := by
  simp only [Spec.mergedFields, MIn]
  have RA := expandWith_ok s d (subP s a) (subSels a) []
  have hcA : ClosedVis d (Spec.expandWith s d (subP s a) (subSels a) []).2 :=
    RA.closed (fun m hm => by cases hm)
  have RB := expandWith_ok s d (subP s b) (subSels b)
    (Spec.expandWith s d (subP s a) (subSels a) []).2
  have hcB := RB.closed hcA
  simp only [subP, subSels] at RA hcA RB hcB ⊢
  rw [List.mem_append]
  constructor
  · rintro (h | h)
    · exact Or.inl ((expand_mem s d _ _ c).1 h)
    · rcases RB.outSub c h with h | ⟨m, hm, hv, hf⟩
      · exact Or.inr (Or.inl h)
      · obtain ⟨n0, h0, hr⟩ := RB.newReach m hm hv
        exact Or.inr (Or.inr ⟨n0, h0, m, hr, hf⟩)
  · rintro (h | h)
    · exact Or.inl ((expand_mem s d _ _ c).2 h)
    · rcases h with h | ⟨n0, h0, m, hr, hf⟩
      · exact Or.inr (RB.own c h)
      · have hm : m ∈ _ := hcB.reach (RB.spreads h0) hr
        by_cases hmA : m ∈ (Spec.expandWith s d
            (Option.map Ty.named (Spec.fieldType s a.parent a.node.name))
            (if a.node.hasSub = true then a.node.sub else []) []).2
        · exact Or.inl (RA.newFields m hmA (by simp) c hf)
        · exact Or.inr (RB.newFields m hm hmA c hf)

end Gql.Exec
