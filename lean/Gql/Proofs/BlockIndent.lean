import Gql.Proofs.BlockForced2
/-!
Re-indentation.  The printer's `indent` replaces every LF of an already printed child by
LF + two spaces — also inside block strings (nested selections, definitions, wrapped argument
lists), once per nesting level.  `indent_roundtrip`: for every `k`, indenting the printed block
string by `k` spaces after every LF does not change the value the lexer reads.
-/
namespace Gql.Text

/-- `s.replace("\n", "\n" + " " * k)` -/
def indentLF (k : Nat) : List Nat → List Nat
  | [] => []
  | c :: r => if c = 10 then 10 :: (List.replicate k 32 ++ indentLF k r) else c :: indentLF k r

theorem indentLF_append (k : Nat) (a b : List Nat) : indentLF k (a ++ b) = indentLF k a ++ indentLF k b := by
  induction a with
  | nil => rfl
  | cons c r ih => by_cases hc : c = 10 <;> simp [indentLF, hc, ih]

theorem indentLF_no10 (k : Nat) (x : List Nat) (h : ∀ c ∈ x, c ≠ 10) : indentLF k x = x := by
  induction x with
  | nil => rfl
  | cons c r ih =>
    have hc : c ≠ 10 := h c (by simp)
    simp [indentLF, hc, ih (fun d hd => h d (by simp [hd]))]

theorem indentLF_indentLF (a b : Nat) (x : List Nat) : indentLF a (indentLF b x) = indentLF (a + b) x := by
  induction x with
  | nil => rfl
  | cons c r ih =>
    by_cases hc : c = 10
    · subst hc
      simp only [indentLF, ↓reduceIte, indentLF_append, ih]
      rw [indentLF_no10 a (List.replicate b 32) (by intro c hc; simp at hc; omega)]
      rw [← List.append_assoc, List.replicate_append_replicate]
    · simp [indentLF, hc, ih]

/-! ### `escapeTQ` and texts without quotes -/

theorem escapeTQ_noq (x : List Nat) (h : ∀ c ∈ x, c ≠ 34) : escapeTQ x = x := by
  induction x with
  | nil => simp
  | cons c r ih =>
    have hc : c ≠ 34 := h c (by simp)
    rw [escapeTQ_ne r hc, ih (fun d hd => h d (by simp [hd]))]

theorem escapeTQ_append_noq (n : Nat) : ∀ (a b : List Nat), a.length ≤ n → b.head? ≠ some 34 →
    escapeTQ (a ++ b) = escapeTQ a ++ escapeTQ b := by
  induction n with
  | zero =>
    intro a b ha _
    have : a = [] := List.eq_nil_of_length_eq_zero (by omega)
    subst this; simp
  | succ n ih =>
    intro a b ha hb
    rcases a with _ | ⟨c, r⟩
    · simp
    by_cases ht : ∃ r', c = 34 ∧ r = 34 :: 34 :: r'
    · obtain ⟨r', hc, hr⟩ := ht
      subst hc hr
      simp only [List.cons_append, escapeTQ_qqq]
      rw [ih r' b (by simp at ha; omega) hb]
    · have ht' : ¬ ∃ r', c = 34 ∧ r ++ b = 34 :: 34 :: r' := by
        rintro ⟨r', hc, hr⟩
        subst hc
        match r, hr with
        | [], hr => simp at hr; rw [hr] at hb; simp at hb
        | [x], hr => simp at hr; rw [hr.2] at hb; simp at hb
        | x :: y :: r'', hr =>
          simp at hr
          exact ht ⟨r'', rfl, by rw [hr.1, hr.2.1]⟩
      simp only [List.cons_append]
      rw [escapeTQ_cons_nt ht, escapeTQ_cons_nt ht', ih r b (by simp at ha; omega) hb]
      rfl

theorem escapeTQ_replicate_append (k : Nat) (y : List Nat) :
    escapeTQ (List.replicate k 32 ++ y) = List.replicate k 32 ++ escapeTQ y := by
  induction k with
  | zero => simp
  | succ k ih =>
    simp only [List.replicate_succ, List.cons_append]
    rw [escapeTQ_ne _ (by decide), ih]

theorem escapeTQ_indentLF (k : Nat) (x : List Nat) :
    ∀ n, x.length ≤ n → escapeTQ (indentLF k x) = indentLF k (escapeTQ x) := by
  intro n
  induction n generalizing x with
  | zero =>
    intro hx
    have : x = [] := List.eq_nil_of_length_eq_zero (by omega)
    subst this; simp [indentLF]
  | succ n ih =>
    intro hx
    rcases x with _ | ⟨c, r⟩
    · simp [indentLF]
    by_cases ht : ∃ r', c = 34 ∧ r = 34 :: 34 :: r'
    · obtain ⟨r', hc, hr⟩ := ht
      subst hc hr
      have := ih r' (by simp at hx; omega)
      simp [indentLF, escapeTQ_qqq, this]
    · by_cases hc : c = 10
      · subst hc
        rw [escapeTQ_ne r (by decide)]
        simp only [indentLF, ↓reduceIte]
        rw [escapeTQ_ne _ (by decide), escapeTQ_replicate_append, ih r (by simp at hx; omega)]
      · rw [escapeTQ_cons_nt ht]
        simp only [indentLF, hc, ↓reduceIte]
        have ht' : ¬ ∃ r', c = 34 ∧ indentLF k r = 34 :: 34 :: r' := by
          rintro ⟨r', hc34, hr⟩
          match r, hr with
          | [], hr => simp [indentLF] at hr
          | [x], hr =>
            by_cases hx10 : x = 10
            · subst hx10; simp [indentLF] at hr
            · simp [indentLF, hx10] at hr
          | x :: y :: r'', hr =>
            by_cases hx10 : x = 10
            · subst hx10; simp [indentLF] at hr
            · by_cases hy10 : y = 10
              · subst hy10; simp [indentLF, hx10] at hr
              · simp [indentLF, hx10, hy10] at hr
                exact ht ⟨r'', hc34, by rw [hr.1, hr.2.1]⟩
        rw [escapeTQ_cons_nt ht', ih r (by simp at hx; omega)]

end Gql.Text

namespace Gql.Text

/-! ### Lines of an indented text -/

/-- Prefix every line but the first with `k` spaces. -/
def padTail (k : Nat) : List (List Nat) → List (List Nat)
  | [] => []
  | l :: ls => l :: ls.map (fun x => List.replicate k 32 ++ x)

theorem linesFrom_append_cur (cur y : List Nat) (sp : List Nat) (h : ∀ c ∈ sp, c ≠ 10) :
    linesFrom cur (sp ++ y) = linesFrom (cur ++ sp) y := by
  induction sp generalizing cur with
  | nil => simp
  | cons c r ih =>
    have hc : c ≠ 10 := h c (by simp)
    simp only [List.cons_append, linesFrom, hc, ↓reduceIte]
    rw [ih (cur ++ [c]) (fun d hd => h d (by simp [hd]))]
    simp

theorem linesFrom_cur (cur v : List Nat) : ∃ l ls, linesFrom [] v = l :: ls ∧ linesFrom cur v = (cur ++ l) :: ls := by
  obtain ⟨l, ls, h⟩ := List.exists_cons_of_ne_nil (splitLF_ne_nil v)
  refine ⟨l, ls, ?_, ?_⟩
  · rw [linesFrom_nil, h]
  · rw [linesFrom_eq, h]

theorem linesFrom_indentLF (k : Nat) (x : List Nat) : ∀ cur,
    linesFrom cur (indentLF k x) = padTail k (linesFrom cur x) := by
  induction x with
  | nil => intro cur; simp [indentLF, linesFrom, padTail]
  | cons c r ih =>
    intro cur
    by_cases hc : c = 10
    · subst hc
      simp only [indentLF, ↓reduceIte, linesFrom]
      rw [linesFrom_append_cur [] _ (List.replicate k 32) (by intro c hc; simp at hc; omega)]
      rw [ih]
      obtain ⟨l, ls, h0, h1⟩ := linesFrom_cur ([] ++ List.replicate k 32) r
      rw [h1, h0]
      simp [padTail]
    · simp only [indentLF, hc, ↓reduceIte, linesFrom]
      exact ih _

theorem linesFrom_append_lf (x y : List Nat) : ∀ cur,
    linesFrom cur (x ++ 10 :: y) = linesFrom cur x ++ linesFrom [] y := by
  induction x with
  | nil => intro cur; simp [linesFrom]
  | cons c r ih =>
    intro cur
    by_cases hc : c = 10
    · subst hc; simp [linesFrom, ih]
    · simp [linesFrom, hc, ih]

theorem linesFrom_no10 (cur x : List Nat) (h : ∀ c ∈ x, c ≠ 10) : linesFrom cur x = [cur ++ x] := by
  induction x generalizing cur with
  | nil => simp [linesFrom]
  | cons c r ih =>
    have hc : c ≠ 10 := h c (by simp)
    simp [linesFrom, hc, ih (cur ++ [c]) (fun d hd => h d (by simp [hd]))]

/-! ### Dedentation ignores a uniform extra indentation of the lines after the first -/

theorem lws_pad (k : Nat) (x : List Nat) :
    leadingWhiteSpace (List.replicate k 32 ++ x) = k + leadingWhiteSpace x := by
  induction k with
  | zero => simp
  | succ k ih => simp [List.replicate_succ, leadingWhiteSpace, ih]; omega

theorem blank_pad (k : Nat) (x : List Nat) :
    (leadingWhiteSpace (List.replicate k 32 ++ x) = (List.replicate k 32 ++ x).length) ↔
      (leadingWhiteSpace x = x.length) := by
  rw [lws_pad]; simp

theorem firstNB_pad (k : Nat) (ls : List (List Nat)) (i : Nat) :
    firstNB (ls.map (fun x => List.replicate k 32 ++ x)) i = firstNB ls i := by
  induction ls generalizing i with
  | nil => rfl
  | cons y rest ih =>
    simp only [List.map_cons, firstNB, ih]
    by_cases hb : leadingWhiteSpace y = y.length
    · have hp := (blank_pad k y).mpr hb
      simp only [List.length_append, List.length_replicate] at hp
      simp [hb, hp]
    · have : ¬ leadingWhiteSpace (List.replicate k 32 ++ y) = (List.replicate k 32 ++ y).length :=
        fun h => hb ((blank_pad k y).mp h)
      simp only [List.length_append, List.length_replicate] at this
      simp [hb, this]

theorem lastNB_pad (k : Nat) (ls : List (List Nat)) (i : Nat) :
    lastNB (ls.map (fun x => List.replicate k 32 ++ x)) i = lastNB ls i := by
  induction ls generalizing i with
  | nil => rfl
  | cons y rest ih =>
    simp only [List.map_cons, lastNB, ih]
    by_cases hb : leadingWhiteSpace y = y.length
    · have hp := (blank_pad k y).mpr hb
      simp only [List.length_append, List.length_replicate] at hp
      simp [hb, hp]
    · have : ¬ leadingWhiteSpace (List.replicate k 32 ++ y) = (List.replicate k 32 ++ y).length :=
        fun h => hb ((blank_pad k y).mp h)
      simp only [List.length_append, List.length_replicate] at this
      simp [hb, this]

theorem commonI_pad (k : Nat) (ls : List (List Nat)) : ∀ (i : Nat) (ci : Option Nat), i ≠ 0 →
    commonI (ls.map (fun x => List.replicate k 32 ++ x)) i (ci.map (· + k)) =
      (commonI ls i ci).map (· + k) := by
  induction ls with
  | nil => intro i ci _; rfl
  | cons y rest ih =>
    intro i ci hi
    by_cases hb : leadingWhiteSpace y = y.length
    · simp only [List.map_cons]
      rw [commonI_cons_b _ _ _ _ ((blank_pad k y).mpr hb), commonI_cons_b _ _ _ _ hb]
      exact ih (i + 1) ci (by omega)
    · have hb' : leadingWhiteSpace (List.replicate k 32 ++ y) ≠ (List.replicate k 32 ++ y).length :=
        fun h => hb ((blank_pad k y).mp h)
      simp only [List.map_cons]
      rw [commonI_cons_nb _ _ _ _ hb' hi, commonI_cons_nb _ _ _ _ hb hi, lws_pad]
      have : ciStep (ci.map (· + k)) (k + leadingWhiteSpace y) = (ciStep ci (leadingWhiteSpace y)).map (· + k) := by
        cases ci with
        | none => simp [ciStep]; omega
        | some c =>
          simp only [ciStep, Option.map_some]
          by_cases hlt : leadingWhiteSpace y < c
          · have : k + leadingWhiteSpace y < c + k := by omega
            simp [hlt, this]; omega
          · have : ¬ k + leadingWhiteSpace y < c + k := by omega
            simp [hlt, this]
      rw [this]
      exact ih (i + 1) _ (by omega)

theorem dropIndent_pad (k : Nat) (ls : List (List Nat)) : ∀ (i : Nat) (ci : Option Nat), i ≠ 0 →
    dropIndent (ci.map (· + k)) (ls.map (fun x => List.replicate k 32 ++ x)) i = dropIndent ci ls i := by
  induction ls with
  | nil => intro i ci _; rfl
  | cons y rest ih =>
    intro i ci hi
    simp only [List.map_cons, dropIndent, hi, ne_eq, not_false_eq_true, ↓reduceIte]
    rw [ih (i + 1) ci (by omega)]
    cases ci with
    | none => rfl
    | some c =>
      simp only [Option.map_some]
      congr 1
      rw [Nat.add_comm c k, ← List.drop_drop]
      simp

/-- `dedent_block_string_lines` does not see an extra indentation of all lines after the first. -/
theorem dedent_padTail (k : Nat) (X : List (List Nat)) :
    dedentBlockStringLines (padTail k X) = dedentBlockStringLines X := by
  cases X with
  | nil => rfl
  | cons l ls =>
    unfold dedentBlockStringLines
    rw [dedentScan_eq, dedentScan_eq]
    simp only [padTail]
    have hf : firstNB (l :: ls.map (fun x => List.replicate k 32 ++ x)) 0 = firstNB (l :: ls) 0 := by
      simp [firstNB, firstNB_pad]
    have hl : lastNB (l :: ls.map (fun x => List.replicate k 32 ++ x)) 0 = lastNB (l :: ls) 0 := by
      simp [lastNB, lastNB_pad]
    have hc : commonI (l :: ls.map (fun x => List.replicate k 32 ++ x)) 0 none =
        (commonI (l :: ls) 0 none).map (· + k) := by
      have := commonI_pad k ls 1 none (by omega)
      by_cases hb : leadingWhiteSpace l = l.length
      · rw [commonI_cons_b _ _ _ _ hb, commonI_cons_b _ _ _ _ hb]; exact this
      · rw [commonI_cons_nb0 _ _ _ hb, commonI_cons_nb0 _ _ _ hb]; exact this
    have hd : dropIndent ((commonI (l :: ls) 0 none).map (· + k))
        (l :: ls.map (fun x => List.replicate k 32 ++ x)) 0 = dropIndent (commonI (l :: ls) 0 none) (l :: ls) 0 := by
      simp only [dropIndent, ne_eq, not_true_eq_false, ↓reduceIte]
      rw [dropIndent_pad k ls 1 _ (by omega)]
    rw [hf, hl, hc, hd]

end Gql.Text

namespace Gql.Text

theorem mem_indentLF {k c : Nat} {x : List Nat} (h : c ∈ indentLF k x) : c ∈ x ∨ c = 32 := by
  induction x with
  | nil => simp [indentLF] at h
  | cons a r ih =>
    by_cases ha : a = 10
    · subst ha
      simp only [indentLF, ↓reduceIte, List.mem_cons, List.mem_append, List.mem_replicate] at h
      rcases h with h | h | h
      · left; simp [h]
      · right; exact h.2
      · rcases ih h with h' | h'
        · left; simp [h']
        · right; exact h'
    · simp only [indentLF, ha, ↓reduceIte, List.mem_cons] at h
      rcases h with h | h
      · left; simp [h]
      · rcases ih h with h' | h'
        · left; simp [h']
        · right; exact h'

/-- A text that ends with characters other than quote and backslash does not end "open". -/
theorem endsOpen_tail_plain (b : List Nat) (hb : b ≠ []) (hq : ∀ c ∈ b, c ≠ 34 ∧ c ≠ 92) :
    ∀ n (a : List Nat), a.length ≤ n → endsOpen (a ++ b) = false := by
  have hbase : ∀ b : List Nat, b ≠ [] → (∀ c ∈ b, c ≠ 34 ∧ c ≠ 92) → endsOpen b = false := by
    intro b
    induction b with
    | nil => intro h; exact absurd rfl h
    | cons c r ih =>
      intro _ hq
      have hc := hq c (by simp)
      by_cases hr : r = []
      · subst hr; rw [endsOpen_single]; simp [hc.1, hc.2]
      · rw [endsOpen_ne r hc.1 hr]
        exact ih hr (fun d hd => hq d (by simp [hd]))
  intro n
  induction n with
  | zero =>
    intro a ha
    have : a = [] := List.eq_nil_of_length_eq_zero (by omega)
    subst this; simpa using hbase b hb hq
  | succ n ih =>
    intro a ha
    rcases a with _ | ⟨c, r⟩
    · simpa using hbase b hb hq
    by_cases ht : ∃ r', c = 34 ∧ r = 34 :: 34 :: r'
    · obtain ⟨r', hc, hr⟩ := ht
      subst hc hr
      simp only [List.cons_append]
      rw [endsOpen]
      exact ih r' (by simp at ha; omega)
    · have hne : r ++ b ≠ [] := by simp [hb]
      have ht' : ¬ ∃ r', c = 34 ∧ r ++ b = 34 :: 34 :: r' := by
        rintro ⟨r', hc, hr⟩
        obtain ⟨b0, bs, rfl⟩ := List.exists_cons_of_ne_nil hb
        have hb0 := (hq b0 (by simp)).1
        match r, hr with
        | [], hr => simp at hr; exact hb0 hr.1
        | [x], hr => simp at hr; exact hb0 hr.2.1
        | x :: y :: r'', hr =>
          simp at hr
          exact ht ⟨r'', hc, by rw [hr.1, hr.2.1]⟩
      simp only [List.cons_append]
      rw [endsOpen_cons_nt ht' hne]
      exact ih r (by simp at ha; omega)

theorem padTail_snoc (k : Nat) (X : List (List Nat)) (hX : X ≠ []) :
    padTail k (X ++ [[]]) = padTail k X ++ [List.replicate k 32] := by
  obtain ⟨l, ls, rfl⟩ := List.exists_cons_of_ne_nil hX
  simp [padTail]

theorem reSplitNL_ne_nil (x : List Nat) : ∀ n, x.length ≤ n → reSplitNL x ≠ [] := by
  intro n
  induction n generalizing x with
  | zero =>
    intro hx
    have : x = [] := List.eq_nil_of_length_eq_zero (by omega)
    subst this; simp [reSplitNL]
  | succ n ih =>
    intro hx
    rcases x with _ | ⟨c, r⟩
    · simp [reSplitNL]
    by_cases h13 : c = 13
    · subst h13
      rcases r with _ | ⟨d, r'⟩
      · simp [reSplitNL]
      · by_cases hd : d = 10
        · subst hd; simp [reSplitNL]
        · rw [reSplitNL]
          · simp
          · intro rest h; cases h; exact hd rfl
    · by_cases h10 : c = 10
      · subst h10; simp [reSplitNL_lf]
      · rw [reSplitNL_plain r h10 h13]
        split <;> simp

theorem reSplitNL_len1 (x : List Nat) (h : (reSplitNL x).length = 1) : ∀ c ∈ x, c ≠ 10 := by
  induction x with
  | nil => intro c hc; simp at hc
  | cons a r ih =>
    by_cases h13 : a = 13
    · subst h13
      exfalso
      rcases r with _ | ⟨d, r'⟩
      · simp [reSplitNL] at h
      · by_cases hd : d = 10
        · subst hd
          simp only [reSplitNL, List.length_cons] at h
          have := reSplitNL_ne_nil r' r'.length (Nat.le_refl _)
          cases hr : reSplitNL r' with
          | nil => exact this hr
          | cons _ _ => simp [hr] at h
        · rw [reSplitNL] at h
          · simp only [List.length_cons] at h
            have := reSplitNL_ne_nil (d :: r') (d :: r').length (Nat.le_refl _)
            cases hr : reSplitNL (d :: r') with
            | nil => exact this hr
            | cons _ _ => simp [hr] at h
          · intro rest h'; cases h'; exact hd rfl
    · by_cases h10 : a = 10
      · subst h10
        exfalso
        rw [reSplitNL_lf] at h
        have := reSplitNL_ne_nil r r.length (Nat.le_refl _)
        cases hr : reSplitNL r with
        | nil => exact this hr
        | cons _ _ => simp [hr] at h
      · rw [reSplitNL_plain r h10 h13] at h
        have hlen : (reSplitNL r).length = 1 := by
          cases hr : reSplitNL r with
          | nil => exact absurd hr (reSplitNL_ne_nil r r.length (Nat.le_refl _))
          | cons l ls => simp [hr] at h ⊢; exact h
        intro c hc
        rcases List.mem_cons.mp hc with rfl | hc
        · exact h10
        · exact ih hlen c hc

end Gql.Text

namespace Gql.Text

/-- The dedentation step of the round trip, for the raw lines of the unindented literal. -/
theorem dedent_printed (w : Nat) (v : List Nat) (m : Bool) (hne : v ≠ []) (hrep : BlockRepresentable v) :
    dedentBlockStringLines
      (afterLines (pbsBefore (pbsFlags w v m)) ++ splitLF v ++ afterLines (pbsAfter (pbsFlags w v m))) =
      splitLF v := by
  obtain ⟨h13, l0, M, xs, lN, hL, hxs, h0, hN, hU⟩ := representable_lines v hne hrep
  have hAl : afterLines (pbsAfter (pbsFlags w v m)) = [] ∨ afterLines (pbsAfter (pbsFlags w v m)) = [[]] := by
    rcases pbsAfter_cases (pbsFlags w v m) with h | h <;> rw [h] <;> simp [afterLines]
  have hBl : afterLines (pbsBefore (pbsFlags w v m)) = [] ∨ afterLines (pbsBefore (pbsFlags w v m)) = [[]] := by
    rcases pbsBefore_cases (pbsFlags w v m) with h | h <;> rw [h] <;> simp [afterLines]
  have hci := before_cond w v m h13 l0 M hL h0 hU
  apply dedent_sandwich _ _ _ hBl hAl l0 M hL h0 xs lN hxs hN
  rcases hci with ⟨hb, hc⟩ | ⟨hb, hc⟩
  · left; exact ⟨by rw [hb]; rfl, hc⟩
  · right; exact ⟨by rw [hb]; rfl, hc⟩

/-- Without `minimize`, a literal whose closing `"""` is not on its own line contains no LF. -/
theorem no_lf_of_after_nil (w : Nat) (v : List Nat) (hA : pbsAfter (pbsFlags w v false) = []) :
    ∀ c ∈ printBlockStringW w v false, c ≠ 10 := by
  have hpm : (pbsFlags w v false).printAsMultipleLines = false ∧ (pbsFlags w v false).forceTrailingNewLine = false := by
    unfold pbsAfter at hA
    split at hA
    · simp at hA
    · rename_i h; simpa using h
  have hsingle : (reSplitNL (escapeTQ v)).length = 1 ∧ (pbsFlags w v false).forceLeadingNewLine = false := by
    have := hpm.1
    simp only [pbsFlags, Bool.not_false, Bool.true_and, Bool.or_eq_false_iff, Bool.not_eq_false',
      beq_iff_eq] at this
    refine ⟨this.1.1.1.1, ?_⟩
    simp only [pbsFlags]
    exact this.1.2
  have hB : pbsBefore (pbsFlags w v false) = [] := by
    simp [pbsBefore, hpm.1, hsingle.2]
  have hesc := reSplitNL_len1 (escapeTQ v) hsingle.1
  unfold printBlockStringW
  simp only [hA, hB, List.append_nil]
  intro c hc
  simp only [List.mem_append, List.mem_cons, List.not_mem_nil, or_false] at hc
  rcases hc with (hc | hc) | hc
  · rcases hc with rfl | rfl | rfl <;> decide
  · exact hesc c hc
  · rcases hc with rfl | rfl | rfl <;> decide

/-- **Re-indentation.**  Indenting a printed block string (as the printer's `indent` does, `k`
spaces after every LF, any `k`) does not change the value the lexer reads. -/
theorem indent_printed_roundtrip_loop (k w : Nat) (v rest : List Nat) (st : LexState) (start ls : Nat)
    (hs : ∀ c ∈ v, isScalar c = true) (hrep : BlockRepresentable v) :
    tokOf (readBlockStringLoop (indentLF k (printBlockStringW w v false) ++ rest) st start 3 3 ls [] []) =
      .ok (mkToken st .blockString start (indentLF k (printBlockStringW w v false)).length (some v)) := by
  rcases pbsAfter_cases (pbsFlags w v false) with hA | hA
  · rw [indentLF_no10 k _ (no_lf_of_after_nil w v hA)]
    exact printBlockStringW_roundtrip_loop w v false rest st start ls hs hrep
  · have hne : v ≠ [] := by
      intro h; subst h
      simp [pbsFlags, pbsAfter, escapeTQ, reSplitNL, endsWith] at hA
    obtain ⟨h13, _⟩ := representable_lines v hne hrep
    -- the indented text is the escaped form of `V`
    generalize hBdef : pbsBefore (pbsFlags w v false) = before
    have hBc : before = [] ∨ before = [10] := hBdef ▸ pbsBefore_cases _
    let Y := before ++ v
    let V := indentLF k Y ++ 10 :: List.replicate k 32
    have hescY : escapeTQ Y = before ++ escapeTQ v := by
      rcases hBc with h | h <;> subst h
      · rfl
      · show escapeTQ (10 :: v) = 10 :: escapeTQ v
        exact escapeTQ_ne v (by decide)
    have hsp : ∀ c ∈ (10 :: List.replicate k 32), c ≠ 34 := by
      intro c hc; simp at hc; rcases hc with rfl | ⟨_, rfl⟩ <;> decide
    have hescV : escapeTQ V = indentLF k (before ++ escapeTQ v ++ [10]) := by
      show escapeTQ (indentLF k Y ++ 10 :: List.replicate k 32) = _
      rw [escapeTQ_append_noq _ _ _ (Nat.le_refl _) (by simp), escapeTQ_noq _ hsp,
        escapeTQ_indentLF k Y _ (Nat.le_refl _), hescY, indentLF_append k _ [10]]
      simp [indentLF]
    have htext : indentLF k (printBlockStringW w v false) =
        [34, 34, 34] ++ (escapeTQ V ++ ([] ++ [34, 34, 34])) := by
      unfold printBlockStringW
      simp only [hA, hBdef, indentLF_append]
      rw [hescV, indentLF_append, indentLF_append]
      simp [indentLF]
    have hgoodV : GoodVal V := by
      intro c hc
      have hc' : c ∈ indentLF k Y ∨ c ∈ (10 :: List.replicate k 32) := List.mem_append.mp hc
      rcases hc' with hc' | hc'
      · rcases mem_indentLF hc' with h | h
        · have : c ∈ before ∨ c ∈ v := List.mem_append.mp h
          rcases this with h | h
          · rcases hBc with hb | hb <;> subst hb
            · simp at h
            · simp at h; subst h; decide
          · exact ⟨hs c h, h13 c h⟩
        · subst h; decide
      · simp at hc'; rcases hc' with rfl | ⟨_, rfl⟩ <;> decide
    have hopenV : endsOpen V = true → ([] : List Nat) = [10] := by
      intro h
      have := endsOpen_tail_plain (10 :: List.replicate k 32) (by simp)
        (by intro c hc; simp at hc; rcases hc with rfl | ⟨_, rfl⟩ <;> decide) _ (indentLF k Y) (Nat.le_refl _)
      rw [this] at h; cases h
    have hscan := scan_value st start rest [] (Or.inl rfl) V.length V (Nat.le_refl _) [34, 34, 34] 3
      ls [] [] (by simp) hgoodV hopenV
    simp only [List.length_cons, List.length_nil, Nat.zero_add, slice_self, List.append_nil,
      List.nil_append, afterLines, List.map_nil] at hscan
    -- the raw lines
    have hlinesY : linesFrom [] Y = afterLines before ++ splitLF v := by
      rcases hBc with h | h <;> subst h
      · simp [Y, afterLines, linesFrom_nil]
      · simp [Y, afterLines, linesFrom, linesFrom_nil, splitLF_lf]
    have hYne : afterLines before ++ splitLF v ≠ [] := by simp [splitLF_ne_nil]
    have hlines : linesFrom [] V = padTail k (afterLines before ++ splitLF v ++ [[]]) := by
      show linesFrom [] (indentLF k Y ++ 10 :: List.replicate k 32) = _
      rw [linesFrom_append_lf, linesFrom_indentLF, hlinesY,
        linesFrom_no10 [] _ (by intro c hc; simp at hc; omega), padTail_snoc k _ hYne]
      simp
    have hded : dedentBlockStringLines (linesFrom [] V) = splitLF v := by
      rw [hlines, dedent_padTail]
      have := dedent_printed w v false hne hrep
      rw [hA, hBdef] at this
      simpa [afterLines] using this
    rw [htext]
    simp only [List.append_assoc, List.cons_append, List.nil_append, Nat.zero_add] at hscan ⊢
    rw [hscan]
    unfold blockTok
    rw [hded]
    have hj := joinLines_linesFrom v []
    rw [linesFrom_nil] at hj
    simp only [List.nil_append] at hj
    rw [hj]
    congr 2
    simp
    omega

theorem indent_printed_roundtrip (k w : Nat) (v rest : List Nat) (st : LexState)
    (hs : ∀ c ∈ v, isScalar c = true) (hrep : BlockRepresentable v) :
    tokOf (readBlockString (indentLF k (printBlockStringW w v false) ++ rest) st 0) =
      .ok (mkToken st .blockString 0 (indentLF k (printBlockStringW w v false)).length (some v)) := by
  unfold readBlockString
  exact indent_printed_roundtrip_loop k w v rest st 0 st.lineStart hs hrep

end Gql.Text
