/-
C02 — the response keys of a grouped field set produced by CollectFields are distinct.
-/
import Gql.Proofs.ExecGroups

namespace Gql.Exec.Refine
open Gql.Exec

def NodupOut : Out ErrKind (SG × List Name) → Prop
  | .ok (gs, _) => (keys gs).Nodup
  | _ => True

variable (scx : Spec.Ctx) (rt : Name)
variable (srecur : List Selection → List Name → Out ErrKind (SG × List Name))

mutual
theorem collectOne_nodup : (sel : Selection) → ∀ (acc : SG) (vis : List Name), (keys acc).Nodup →
    NodupOut (Spec.collectOne scx rt srecur sel acc vis)
  | .field alias name args dirs sels, acc, vis, h => by
    unfold Spec.collectOne
    cases Spec.included scx dirs with
    | none => simp [NodupOut]
    | some b =>
      cases b with
      | false => exact h
      | true => exact nodup_keys_appendGroup _ _ _ h
  | .spread name dirs, acc, vis, h => by
    unfold Spec.collectOne
    cases Spec.included scx dirs with
    | none => simp [NodupOut]
    | some b =>
      cases b with
      | false => exact h
      | true =>
        simp only
        split
        · exact h
        · cases scx.doc.frag name with
          | none => exact h
          | some fr =>
            simp only
            split
            · exact h
            · cases srecur fr.sels (name :: vis) with
              | crash c => simp [NodupOut]
              | err e => simp [NodupOut]
              | ok r => obtain ⟨fg, v'⟩ := r; exact nodup_keys_mergeGroups _ _ h
  | .inline cond dirs sels, acc, vis, h => by
    unfold Spec.collectOne
    cases Spec.included scx dirs with
    | none => simp [NodupOut]
    | some b =>
      cases b with
      | false => exact h
      | true =>
        simp only
        cases cond with
        | none =>
          simp only [Bool.not_true, Bool.false_eq_true, ↓reduceIte]
          cases Spec.collectLoop scx rt srecur sels [] vis with
          | crash c => simp [NodupOut]
          | err e => simp [NodupOut]
          | ok r => obtain ⟨fg, v'⟩ := r; exact nodup_keys_mergeGroups _ _ h
        | some c =>
          simp only
          by_cases happ : Spec.doesFragmentTypeApply scx.schema rt c = true
          case neg =>
            have happ' : Spec.doesFragmentTypeApply scx.schema rt c = false := by simpa using happ
            simp only [happ', Bool.not_false, ↓reduceIte]
            exact h
          case pos =>
            simp only [happ, Bool.not_true, Bool.false_eq_true, ↓reduceIte]
            cases Spec.collectLoop scx rt srecur sels [] vis with
            | crash c => simp [NodupOut]
            | err e => simp [NodupOut]
            | ok r => obtain ⟨fg, v'⟩ := r; exact nodup_keys_mergeGroups _ _ h

theorem collectLoop_nodup : (sels : List Selection) → ∀ (acc : SG) (vis : List Name), (keys acc).Nodup →
    NodupOut (Spec.collectLoop scx rt srecur sels acc vis)
  | [], acc, vis, h => by unfold Spec.collectLoop; exact h
  | sel :: rest, acc, vis, h => by
    have h1 := collectOne_nodup sel acc vis h
    unfold Spec.collectLoop
    revert h1
    cases Spec.collectOne scx rt srecur sel acc vis with
    | crash c => simp [NodupOut]
    | err e => simp [NodupOut]
    | ok r =>
      obtain ⟨acc', vis'⟩ := r
      simp only [NodupOut]
      exact fun h1 => collectLoop_nodup rest acc' vis' h1
end

theorem collectFields_nodup (scx : Spec.Ctx) (rt : Name) (sels : List Selection) (gs : SG)
    (h : Spec.collectFields scx rt sels = .ok gs) : (keys gs).Nodup := by
  unfold Spec.collectFields at h
  have h1 : NodupOut (Spec.collectFieldsFuel scx rt (Spec.fuelOf scx.doc) sels []) := by
    cases Spec.fuelOf scx.doc with
    | zero => simp [Spec.collectFieldsFuel, NodupOut]
    | succ n =>
      unfold Spec.collectFieldsFuel
      exact collectLoop_nodup scx rt _ sels [] [] (by simp [keys])
  revert h h1
  cases Spec.collectFieldsFuel scx rt (Spec.fuelOf scx.doc) sels [] with
  | crash c => simp
  | err e => simp
  | ok r =>
    obtain ⟨g', v⟩ := r
    simp only [NodupOut, Out.ok.injEq]
    rintro rfl h1
    exact h1

end Gql.Exec.Refine
