import Gql.Proofs.SchemaText6
import Gql.Proofs.LexInvNumber
import Gql.Types.PrintSchemaTextWF
/-!
C17, text level, part 7: the decidable predicate `textWFb` (`Gql/Types/PrintSchemaTextWF.lean`)
implies the hypothesis `TextWF` of the text theorems (C08's `Exec.gdefsWf` of the translated
definitions).
-/
namespace Gql.Types.PrintSchema
open Gql Gql.Text Gql.Syntax Gql.Generated

theorem nameOk_eq (n : List Nat) : nameOk n = Gql.Text.validName n := by
  cases n <;> rfl

theorem validName_of_nameOk {n : List Nat} (h : nameOk n = true) : Gql.Text.validName n = true := by
  rw [← nameOk_eq]; exact h

/-- The `Bool` recogniser of number texts is sound for C08's `IsNum`. -/
theorem isNum_of_numOk {fl : Bool} {s : List Nat} (h : numOk fl s = true) : IsNum fl s := by
  unfold numOk at h
  have hm : (fl, s.length) ∈ Gql.Spec.Lex.numberCandidates s := by
    simpa using h
  have := numberCandidates_isNum hm
  simpa using this

theorem scalars_of_scalarStr {s : List Nat} (h : scalarStr s = true) : ∀ c ∈ s, isScalar c = true := by
  unfold scalarStr at h
  exact List.all_eq_true.mp h

theorem notKeyword_ne {n : List Nat} (h : notKeyword n = true) :
    n ≠ S "true" ∧ n ≠ S "false" ∧ n ≠ S "null" := by
  unfold notKeyword at h
  simp only [Bool.and_eq_true, bne_iff_ne, ne_eq] at h
  exact ⟨h.1.1, h.1.2, h.2⟩

theorem descWf_of_descOk {d : Option Str} (h : descOk d = true) : Exec.descWf (toDesc (descNode d)) := by
  cases d with
  | none => trivial
  | some v =>
    simp only [descOk, Bool.and_eq_true, Bool.or_eq_true, Bool.not_eq_true'] at h
    refine ⟨scalars_of_scalarStr h.1, ?_⟩
    intro hb
    simp only at hb
    rcases h.2 with h2 | h2
    · rw [h2] at hb; cases hb
    · exact h2

mutual
  theorem wf_of_valueOk : ∀ (v : Value), valueOk v = true → Val.wf true (toVal v)
    | .int s, h => by
      simp only [valueOk] at h; simp only [toVal, Val.wf]; exact isNum_of_numOk h
    | .float s, h => by
      simp only [valueOk] at h; simp only [toVal, Val.wf]; exact isNum_of_numOk h
    | .str s b, h => by
      simp only [valueOk, Bool.and_eq_true, Bool.or_eq_true, Bool.not_eq_true'] at h
      simp only [toVal, Val.wf]
      refine ⟨scalars_of_scalarStr h.1, ?_⟩
      intro hb
      rcases h.2 with h2 | h2
      · rw [h2] at hb; cases hb
      · exact h2
    | .bool _, _ => by simp only [toVal, Val.wf]
    | .null, _ => by simp only [toVal, Val.wf]
    | .enum n, h => by
      simp only [valueOk, Bool.and_eq_true] at h
      simp only [toVal, Val.wf]
      exact ⟨validName_of_nameOk h.1, notKeyword_ne h.2⟩
    | .list items, h => by
      simp only [valueOk] at h
      simp only [toVal, Val.wf]
      exact wfList_of_itemsOk items h
    | .obj fields, h => by
      simp only [valueOk] at h
      simp only [toVal, Val.wf]
      exact wfFields_of_fieldsOk fields h
    | .vnil, h => by simp [valueOk] at h
    | .lcons _ _, h => by simp [valueOk] at h
    | .fcons _ _ _, h => by simp [valueOk] at h
  theorem wfList_of_itemsOk : ∀ (v : Value), itemsOk v = true → Val.wfList true (toValList v)
    | .lcons v rest, h => by
      simp only [itemsOk, Bool.and_eq_true] at h
      simp only [toValList, Val.wfList]
      exact ⟨wf_of_valueOk v h.1, wfList_of_itemsOk rest h.2⟩
    | .int _, _ | .float _, _ | .str _ _, _ | .bool _, _ | .null, _ | .enum _, _ | .list _, _
    | .obj _, _ | .vnil, _ | .fcons _ _ _, _ => by simp only [toValList, Val.wfList]
  theorem wfFields_of_fieldsOk : ∀ (v : Value), fieldsOk v = true → Val.wfFields true (toValFields v)
    | .fcons n v rest, h => by
      simp only [fieldsOk, Bool.and_eq_true] at h
      simp only [toValFields, Val.wfFields]
      exact ⟨validName_of_nameOk h.1.1, wf_of_valueOk v h.1.2, wfFields_of_fieldsOk rest h.2⟩
    | .int _, _ | .float _, _ | .str _ _, _ | .bool _, _ | .null, _ | .enum _, _ | .list _, _
    | .obj _, _ | .vnil, _ | .lcons _ _, _ => by simp only [toValFields, Val.wfFields]
end

theorem ty_of_typeOk (t : TypeRef) (h : typeOk t = true) :
    (toTy t).wf = true ∧ TyP.shaped (toTy t) = true := by
  induction t with
  | named n =>
    simp only [typeOk] at h
    exact ⟨by simp only [toTy, Ty.wf]; exact validName_of_nameOk h, by simp [toTy, TyP.shaped]⟩
  | list t ih =>
    simp only [typeOk] at h
    have := ih h
    exact ⟨by simp only [toTy, Ty.wf]; exact this.1, by simp only [toTy, TyP.shaped]; exact this.2⟩
  | nonNull t ih =>
    simp only [typeOk, Bool.and_eq_true] at h
    have := ih h.2
    refine ⟨by simp only [toTy, Ty.wf]; exact this.1, ?_⟩
    simp only [toTy, TyP.shaped, Bool.and_eq_true]
    refine ⟨?_, this.2⟩
    cases t with
    | nonNull _ => simp at h
    | named _ => rfl
    | list _ => rfl

theorem deprDirs_wf {r : Option Str} (h : strOk r = true) :
    Exec.dirsWfC true ((deprDirs r).map toDir) := by
  cases r with
  | none => simp [deprDirs, Exec.dirsWfC]
  | some v =>
    simp only [strOk] at h
    by_cases hr : v = SchemaConsts.defaultDeprecationReason
    · simp only [deprDirs, hr, if_true, List.map, toDir, Exec.dirsWfC, Exec.dirWfC, Exec.argsWfC,
        Val.wfFields, and_true]
      decide
    · simp only [deprDirs, hr, if_false, List.map, toDir, toVal, Exec.dirsWfC, Exec.dirWfC, Exec.argsWfC,
        Val.wfFields, Val.wf, and_true]
      refine ⟨by decide, by decide, scalars_of_scalarStr h, ?_⟩
      intro hb; cases hb

theorem specifiedByDirs_wf {r : Option Str} (h : strOk r = true) :
    Exec.dirsWfC true ((specifiedByDirs r).map toDir) := by
  cases r with
  | none => simp [specifiedByDirs, Exec.dirsWfC]
  | some v =>
    simp only [strOk] at h
    simp only [specifiedByDirs, List.map, toDir, toVal, Exec.dirsWfC, Exec.dirWfC, Exec.argsWfC,
      Val.wfFields, Val.wf, and_true]
    refine ⟨by decide, by decide, scalars_of_scalarStr h, ?_⟩
    intro hb; cases hb

theorem varDefWf_of_argOk {a : Arg} (h : argOk a = true) : Exec.varDefWf (toVarDef (argToIVD a)) := by
  simp only [argOk, Bool.and_eq_true] at h
  obtain ⟨⟨⟨⟨hd, hn⟩, ht⟩, hv⟩, hr⟩ := h
  have hty := ty_of_typeOk a.type ht
  refine ⟨descWf_of_descOk hd, validName_of_nameOk hn, hty.1, hty.2, ?_, deprDirs_wf hr⟩
  simp only [toVarDef, argToIVD]
  cases hdf : a.default with
  | none => trivial
  | some v =>
    rw [hdf] at hv
    exact wf_of_valueOk v hv

theorem ivdsWf_of_argsOk {as : List Arg} (h : as.all argOk = true) :
    Exec.ivdsWf ((as.map argToIVD).map toVarDef) := by
  intro vd hvd
  simp only [List.map_map, List.mem_map, Function.comp] at hvd
  obtain ⟨a, ha, rfl⟩ := hvd
  exact varDefWf_of_argOk (List.all_eq_true.mp h a ha)

theorem fdWf_of_fieldOk {f : Field} (h : fieldOk f = true) : Exec.fdWf (toFDef (fieldToFD f)) := by
  simp only [fieldOk, Bool.and_eq_true] at h
  obtain ⟨⟨⟨⟨hd, hn⟩, ha⟩, ht⟩, hr⟩ := h
  have hty := ty_of_typeOk f.type ht
  exact ⟨descWf_of_descOk hd, validName_of_nameOk hn, ivdsWf_of_argsOk ha, hty.1, hty.2, deprDirs_wf hr⟩

theorem evWf_of_enumValOk {v : EnumVal} (h : enumValOk v = true) : Exec.evWf (toEVDef (enumValToEVD v)) := by
  simp only [enumValOk, Bool.and_eq_true] at h
  obtain ⟨⟨⟨hd, hn⟩, hk⟩, hr⟩ := h
  have := notKeyword_ne hk
  exact ⟨descWf_of_descOk hd, validName_of_nameOk hn, this.1, this.2.1, this.2.2, deprDirs_wf hr⟩

theorem namesWf_of_all {ns : List Str} (h : ns.all nameOk = true) : Exec.namesWf ns := by
  intro a ha
  exact validName_of_nameOk (List.all_eq_true.mp h a ha)

theorem fdsWf_of_all {fs : List Field} (h : fs.all fieldOk = true) :
    ∀ f ∈ (fs.map fieldToFD).map toFDef, Exec.fdWf f := by
  intro fd hfd
  simp only [List.map_map, List.mem_map, Function.comp] at hfd
  obtain ⟨f, hf, rfl⟩ := hfd
  exact fdWf_of_fieldOk (List.all_eq_true.mp h f hf)

theorem tdefWf_of_typeDefOk (dd : Bool) {t : TypeDef} (h : typeDefOk t = true) :
    Exec.tdefWf dd (typeTDef t) := by
  cases t with
  | scalar n d u =>
    simp only [typeDefOk, Bool.and_eq_true] at h
    exact ⟨descWf_of_descOk h.1.1, validName_of_nameOk h.1.2, specifiedByDirs_wf h.2⟩
  | object n d is fs =>
    simp only [typeDefOk, Bool.and_eq_true] at h
    exact ⟨descWf_of_descOk h.1.1.1, validName_of_nameOk h.1.1.2, namesWf_of_all h.1.2, trivial,
      fdsWf_of_all h.2⟩
  | interface n d is fs =>
    simp only [typeDefOk, Bool.and_eq_true] at h
    exact ⟨descWf_of_descOk h.1.1.1, validName_of_nameOk h.1.1.2, namesWf_of_all h.1.2, trivial,
      fdsWf_of_all h.2⟩
  | union n d ms =>
    simp only [typeDefOk, Bool.and_eq_true] at h
    exact ⟨descWf_of_descOk h.1.1, validName_of_nameOk h.1.2, trivial, namesWf_of_all h.2⟩
  | enum n d vs =>
    simp only [typeDefOk, Bool.and_eq_true] at h
    refine ⟨descWf_of_descOk h.1.1, validName_of_nameOk h.1.2, trivial, ?_⟩
    intro e he
    simp only [List.map_map, List.mem_map, Function.comp] at he
    obtain ⟨v, hv, rfl⟩ := he
    exact evWf_of_enumValOk (List.all_eq_true.mp h.2 v hv)
  | input n d o fs =>
    simp only [typeDefOk, Bool.and_eq_true] at h
    refine ⟨descWf_of_descOk h.1.1, validName_of_nameOk h.1.2, ?_, ivdsWf_of_argsOk h.2⟩
    show Exec.dirsWfC true ((if o then [⟨SchemaConsts.oneOfName, []⟩] else []).map toDir)
    cases o
    · trivial
    · simp only [if_true, List.map, toDir, Exec.dirsWfC, Exec.dirWfC, Exec.argsWfC, Val.wfFields, and_true]
      decide

theorem locationOk_isLocation {l : Str} (h : locationOk l = true) : Exec.isLocation l := by
  unfold locationOk at h
  unfold Exec.isLocation
  have : l ∈ ParserTables.directiveLocations.map S := by simpa using h
  exact this

theorem tdefWf_of_directiveOk {dd : Bool} {d : Directive} (h : directiveOk dd d = true) :
    Exec.tdefWf dd (directiveTDef d) := by
  simp only [directiveOk, Bool.and_eq_true, Bool.or_eq_true, Bool.not_eq_true'] at h
  obtain ⟨⟨⟨⟨⟨⟨hd, hn⟩, ha⟩, hr⟩, hdd⟩, hne⟩, hl⟩ := h
  refine ⟨descWf_of_descOk hd, validName_of_nameOk hn, ivdsWf_of_argsOk ha, deprDirs_wf hr, ?_, ?_, ?_⟩
  · rcases hdd with h1 | h1
    · left
      cases hdep : d.depr with
      | none => rfl
      | some _ => rw [hdep] at h1; cases h1
    · exact Or.inr h1
  · intro h0; rw [h0] at hne; cases hne
  · intro l hl'
    exact locationOk_isLocation (List.all_eq_true.mp hl l hl')

theorem tdefWf_of_schemaBlockOk (dd : Bool) {s : Schema} (h : schemaBlockOk s = true) :
    ∀ td ∈ schemaDefTDef s, Exec.tdefWf dd td := by
  simp only [schemaBlockOk, Bool.and_eq_true] at h
  obtain ⟨⟨⟨hd, hq⟩, hm⟩, hs⟩ := h
  intro td htd
  unfold schemaDefTDef schemaDefOf at htd
  split at htd
  · simp at htd
  · rename_i hroots
    split at htd
    · simp at htd
    · simp only [List.filterMap_cons, List.filterMap_nil, List.mem_singleton] at htd
      subst htd
      refine ⟨descWf_of_descOk hd, trivial, ?_, ?_⟩
      · intro h0
        apply hroots
        cases hqq : s.query <;> cases hmm : s.mutation <;> cases hss : s.subscription <;>
          simp [hqq, hmm, hss, toOts, opEntry] at h0 ⊢
      · intro ot hot
        simp only [toOts, List.map_append, List.mem_append, List.mem_map] at hot
        rcases hot with (⟨p, hp, rfl⟩ | ⟨p, hp, rfl⟩) | ⟨p, hp, rfl⟩
        · cases hqq : s.query with
          | none => simp [hqq, opEntry] at hp
          | some n =>
            simp [hqq, opEntry] at hp; subst hp
            rw [hqq] at hq
            exact ⟨Or.inl rfl, validName_of_nameOk hq⟩
        · cases hmm : s.mutation with
          | none => simp [hmm, opEntry] at hp
          | some n =>
            simp [hmm, opEntry] at hp; subst hp
            rw [hmm] at hm
            exact ⟨Or.inr (Or.inl rfl), validName_of_nameOk hm⟩
        · cases hss : s.subscription with
          | none => simp [hss, opEntry] at hp
          | some n =>
            simp [hss, opEntry] at hp; subst hp
            rw [hss] at hs
            exact ⟨Or.inr (Or.inr rfl), validName_of_nameOk hs⟩

/-- **The decidable predicate implies the hypothesis of the text theorems.** -/
theorem textWF_of_textWFb {fa dd : Bool} {s : Schema} (h : textWFb fa dd s = true) : TextWF fa dd s := by
  apply textWF_of_tdefs
  simp only [textWFb, Bool.and_eq_true] at h
  obtain ⟨⟨hb, hds⟩, hts⟩ := h
  intro td htd
  simp only [schemaTDefs, List.mem_append, List.mem_map] at htd
  rcases htd with (htd | ⟨d, hd, rfl⟩) | ⟨t, ht, rfl⟩
  · exact tdefWf_of_schemaBlockOk dd hb td htd
  · exact tdefWf_of_directiveOk (List.all_eq_true.mp hds d hd)
  · exact tdefWf_of_typeDefOk dd (List.all_eq_true.mp hts t ht)

/-! ## `textWFb` contains `schemaShaped` -/

mutual
  theorem ofVal_toVal_of_valueOk : ∀ (v : Value), valueOk v = true → ofVal (toVal v) = v
    | .int _, _ | .float _, _ | .str _ _, _ | .bool _, _ | .null, _ | .enum _, _ => by
      simp only [toVal, ofVal]
    | .list items, h => by
      simp only [valueOk] at h
      simp only [toVal, ofVal, ofValList_toValList_of_itemsOk items h]
    | .obj fields, h => by
      simp only [valueOk] at h
      simp only [toVal, ofVal, ofValFields_toValFields_of_fieldsOk fields h]
    | .vnil, h => by simp [valueOk] at h
    | .lcons _ _, h => by simp [valueOk] at h
    | .fcons _ _ _, h => by simp [valueOk] at h
  theorem ofValList_toValList_of_itemsOk : ∀ (v : Value), itemsOk v = true → ofValList (toValList v) = v
    | .lcons v rest, h => by
      simp only [itemsOk, Bool.and_eq_true] at h
      simp only [toValList, ofValList, ofVal_toVal_of_valueOk v h.1, ofValList_toValList_of_itemsOk rest h.2]
    | .vnil, _ => by simp only [toValList, ofValList]
    | .int _, h | .float _, h | .str _ _, h | .bool _, h | .null, h | .enum _, h | .list _, h
    | .obj _, h | .fcons _ _ _, h => by simp [itemsOk] at h
  theorem ofValFields_toValFields_of_fieldsOk : ∀ (v : Value), fieldsOk v = true →
      ofValFields (toValFields v) = v
    | .fcons n v rest, h => by
      simp only [fieldsOk, Bool.and_eq_true] at h
      simp only [toValFields, ofValFields, ofVal_toVal_of_valueOk v h.1.2,
        ofValFields_toValFields_of_fieldsOk rest h.2]
    | .vnil, _ => by simp only [toValFields, ofValFields]
    | .int _, h | .float _, h | .str _ _, h | .bool _, h | .null, h | .enum _, h | .list _, h
    | .obj _, h | .lcons _ _, h => by simp [fieldsOk] at h
end

theorem argShaped_of_argOk {a : Arg} (h : argOk a = true) : argShaped a = true := by
  simp only [argOk, Bool.and_eq_true] at h
  have hv := h.1.2
  unfold argShaped
  cases hdf : a.default with
  | none => rfl
  | some v =>
    rw [hdf] at hv
    simp only [defaultOk] at hv
    simp only [valueShaped, ofVal_toVal_of_valueOk v hv, beq_self_eq_true]

theorem argsShaped_of_all {as : List Arg} (h : as.all argOk = true) : as.all argShaped = true :=
  List.all_eq_true.mpr (fun a ha => argShaped_of_argOk (List.all_eq_true.mp h a ha))

theorem fieldsShaped_of_all {fs : List Field} (h : fs.all fieldOk = true) :
    fs.all (fun f => f.args.all argShaped) = true := by
  refine List.all_eq_true.mpr (fun f hf => ?_)
  have := List.all_eq_true.mp h f hf
  simp only [fieldOk, Bool.and_eq_true] at this
  exact argsShaped_of_all this.1.1.2

/-- The decidable predicate includes the shape hypothesis of `text_roundtrip_defs`. -/
theorem schemaShaped_of_textWFb {fa dd : Bool} {s : Schema} (h : textWFb fa dd s = true) :
    schemaShaped s = true := by
  simp only [textWFb, Bool.and_eq_true] at h
  obtain ⟨⟨_, hds⟩, hts⟩ := h
  simp only [schemaShaped, Bool.and_eq_true]
  constructor
  · refine List.all_eq_true.mpr (fun d hd => ?_)
    have := List.all_eq_true.mp hds d hd
    simp only [directiveOk, Bool.and_eq_true] at this
    exact argsShaped_of_all this.1.1.1.1.2
  · refine List.all_eq_true.mpr (fun t ht => ?_)
    have := List.all_eq_true.mp hts t ht
    cases t with
    | scalar n d u => rfl
    | union n d ms => rfl
    | enum n d vs => rfl
    | object n d is fs =>
      simp only [typeDefOk, Bool.and_eq_true] at this
      exact fieldsShaped_of_all this.2
    | interface n d is fs =>
      simp only [typeDefOk, Bool.and_eq_true] at this
      exact fieldsShaped_of_all this.2
    | input n d o fs =>
      simp only [typeDefOk, Bool.and_eq_true] at this
      exact argsShaped_of_all this.2

end Gql.Types.PrintSchema
