import Gql.Proofs.CoerceOneOf
/-
"A coerced result conforms to the type" (C15): the inductive predicate and its proof for
`coerceValue`.
-/
namespace Gql.Values
open Gql

/-- The conformance clause of the property: 32-bit Int, finite Float, text, boolean, a declared
enum value; lists of conforming items; for input objects exactly the declared fields in declared
order, each conforming, non-null and defaulted fields present, and for OneOf exactly one entry that
is not `None`; `None` only where the type is nullable. -/
inductive Conforms (D : Field → R) (tm : TypeMap) : InType → PyVal → Prop where
  | null (t : InType) : t.isNonNull = false → Conforms D tm t .none
  | nonNull (t : InType) (cv : PyVal) : cv ≠ .none → Conforms D tm t cv → Conforms D tm (.nonNull t) cv
  | list (t : InType) (cs : List PyVal) : (∀ x ∈ cs, Conforms D tm t x) → Conforms D tm (.list t) (.list cs)
  | scalar (n : List Nat) (s : Scalar) (cv : PyVal) : tm.find n = some (.scalar s) → ScalarConforms s cv →
      Conforms D tm (.named n) cv
  | enum (n : List Nat) (e : EnumType) (name : List Nat) (cv : PyVal) : tm.find n = some (.enum e) →
      (name, cv) ∈ e.values → Conforms D tm (.named n) cv
  | obj (n : List Nat) (fields : List Field) (oneOf : Bool) (es : List (List Nat × PyVal)) :
      tm.find n = some (.inputObject fields oneOf) →
      -- exactly the declared fields, in declared order …
      (es.map (·.1)).Sublist (fields.map (·.name)) →
      (∀ k cv, (k, cv) ∈ es → ∀ f ∈ fields, f.name = k → Conforms D tm f.type cv) →
      -- … non-null fields present, defaults applied …
      (∀ f ∈ fields, (f.type.isNonNull = true ∨ D f ≠ .ok .undefined) → f.name ∈ es.map (·.1)) →
      -- … and exactly one non-null entry for OneOf
      (oneOf = true → ∃ k cv, es = [(k, cv)] ∧ cv ≠ .none) →
      Conforms D tm (.named n) (.dict es)

/-- what `coerce_default_value` guarantees besides totality: its results conform, and a non-null
field that is not "required" really has a default -/
structure DefaultsConform (D : Field → R) (tm : TypeMap) : Prop where
  conform : ∀ f cv, D f = .ok cv → cv ≠ .undefined → Conforms D tm f.type cv
  present : ∀ f, f.type.isNonNull = true → f.isRequired = false → D f ≠ .ok .undefined

theorem seqItems_some_mem {rs : List R} {cs : List PyVal} (h : seqItems rs = .ok (some cs)) :
    ∀ x ∈ cs, (Out.ok x : R) ∈ rs ∧ x ≠ .undefined := by
  induction rs generalizing cs with
  | nil => simp [seqItems] at h; subst h; simp
  | cons r rs ih =>
    unfold seqItems at h
    split at h
    · simp at h
    · rename_i cv hne
      split at h
      · rename_i cs' hcs'
        simp only [Out.ok.injEq, Option.some.injEq] at h
        subst h
        intro x hx
        simp only [List.mem_cons] at hx
        rcases hx with rfl | hx
        · exact ⟨by simp, fun hc => hne (by rw [hc])⟩
        · obtain ⟨h1, h2⟩ := ih hcs' x hx
          exact ⟨by simp [h1], h2⟩
      · rename_i hno
        cases hs : seqItems rs with
        | ok o =>
          cases o with
          | none => rw [hs] at h; simp at h
          | some cs' => exact absurd hs (hno cs')
        | err e => rw [hs] at h; simp at h
        | crash k => rw [hs] at h; simp at h
    · simp at h
    · simp at h

theorem seqFields_some_all {rs : List (Out Unit FieldRes)} {es : List (List Nat × PyVal)}
    (h : seqFields rs = .ok (some es)) : ∀ r ∈ rs, ∃ x, r = .ok x ∧ x ≠ .invalid := by
  induction rs generalizing es with
  | nil => simp
  | cons r rs ih =>
    unfold seqFields at h
    split at h
    · simp at h
    · intro r' hr'
      simp only [List.mem_cons] at hr'
      rcases hr' with rfl | hr'
      · exact ⟨.skip, rfl, by simp⟩
      · exact ih h r' hr'
    · rename_i k cv
      cases hs : seqFields rs with
      | ok o =>
        cases o with
        | none => rw [hs] at h; simp at h
        | some es' =>
          intro r' hr'
          simp only [List.mem_cons] at hr'
          rcases hr' with rfl | hr'
          · exact ⟨.entry k cv, rfl, by simp⟩
          · exact ih hs r' hr'
      | err e => rw [hs] at h; simp at h
      | crash k' => rw [hs] at h; simp at h
    · simp at h
    · simp at h

theorem nodup_name_eq {fields : List Field} (hnd : (fields.map (·.name)).Nodup) {f g : Field}
    (hf : f ∈ fields) (hg : g ∈ fields) (h : f.name = g.name) : f = g := by
  induction fields with
  | nil => simp at hf
  | cons hd tl ih =>
    simp only [List.map_cons, List.nodup_cons, List.mem_map, not_exists, not_and] at hnd
    simp only [List.mem_cons] at hf hg
    rcases hf with rfl | hf <;> rcases hg with rfl | hg
    · rfl
    · exact absurd h.symm (hnd.1 g hg)
    · exact absurd h (hnd.1 f hf)
    · exact ih hnd.2 hf hg

theorem filterMap_keys_sublist {fields : List Field} (φ : Field → Option (List Nat × PyVal))
    (hφ : ∀ f k cv, φ f = some (k, cv) → k = f.name) :
    ((fields.filterMap φ).map (·.1)).Sublist (fields.map (·.name)) := by
  induction fields with
  | nil => simp
  | cons hd tl ih =>
    simp only [List.filterMap_cons, List.map_cons]
    cases h : φ hd with
    | none => exact List.Sublist.cons _ ih
    | some kv =>
      obtain ⟨k, cv⟩ := kv
      have := hφ hd k cv h
      subst this
      simp only [List.map_cons]
      exact List.Sublist.cons_cons _ ih

section
variable (c : PyConv) (D : Field → R) (tm : TypeMap)

theorem objG_entry {kvs : List (List Nat × PyVal)} {f : Field} {k : List Nat} {cv : PyVal}
    (h : objG c D tm kvs f = .ok (.entry k cv)) :
    k = f.name ∧ cv ≠ .undefined ∧
      ((∃ fv, dictGetDefined kvs f.name = some fv ∧ coerceValue c D tm fv f.type = .ok cv) ∨
       (dictGetDefined kvs f.name = none ∧ D f = .ok cv)) := by
  unfold objG at h
  split at h
  · rename_i fv hfv
    cases hc : coerceValue c D tm fv f.type with
    | ok r =>
      rw [hc] at h
      cases r <;> simp only [fieldOfCoerced, Out.ok.injEq, FieldRes.entry.injEq, reduceCtorEq] at h
      all_goals (obtain ⟨rfl, rfl⟩ := h; exact ⟨rfl, by simp, Or.inl ⟨fv, hfv, hc⟩⟩)
    | err e => rw [hc] at h; simp [fieldOfCoerced] at h
    | crash k' => rw [hc] at h; simp [fieldOfCoerced] at h
  · rename_i hnone
    unfold fieldMissing at h
    split at h
    · simp at h
    · cases hd : D f with
      | ok r =>
        rw [hd] at h
        cases r <;> simp only [Out.ok.injEq, FieldRes.entry.injEq, reduceCtorEq] at h
        all_goals (obtain ⟨rfl, rfl⟩ := h; exact ⟨rfl, by simp, Or.inr ⟨hnone, rfl⟩⟩)
      | err e => rw [hd] at h; simp at h
      | crash k' => rw [hd] at h; simp at h

theorem objG_present {kvs : List (List Nat × PyVal)} {f : Field} {x : FieldRes}
    (hpres : ∀ f, f.type.isNonNull = true → f.isRequired = false → D f ≠ .ok .undefined)
    (h : objG c D tm kvs f = .ok x) (hx : x ≠ .invalid)
    (hneed : f.type.isNonNull = true ∨ D f ≠ .ok .undefined) : ∃ cv, x = .entry f.name cv := by
  unfold objG at h
  split at h
  · cases hc : coerceValue c D tm _ f.type with
    | ok r =>
      rw [hc] at h
      cases r <;> simp only [fieldOfCoerced, Out.ok.injEq] at h <;> subst h
      all_goals first | exact absurd rfl hx | exact ⟨_, rfl⟩
    | err e => rw [hc] at h; simp [fieldOfCoerced] at h
    | crash k' => rw [hc] at h; simp [fieldOfCoerced] at h
  · unfold fieldMissing at h
    split at h
    · simp only [Out.ok.injEq] at h; exact absurd h.symm hx
    · rename_i hreq
      have hreq' : f.isRequired = false := by simpa using hreq
      cases hd : D f with
      | ok r =>
        rw [hd] at h
        have hne : r ≠ .undefined := by
          rcases hneed with hn | hn
          · intro hr; subst hr; exact hpres f hn hreq' hd
          · intro hr; subst hr; exact hn hd
        cases r <;> simp only [Out.ok.injEq] at h <;> subst h
        all_goals first | exact absurd rfl hne | exact ⟨_, rfl⟩
      | err e => rw [hd] at h; simp at h
      | crash k' => rw [hd] at h; simp at h

theorem oneOfValue_ok {n : Nat} {es : List (List Nat × PyVal)} {cv : PyVal}
    (h : oneOfValue n es = .ok cv) (hu : cv ≠ .undefined) :
    ∃ k c, es = [(k, c)] ∧ c ≠ .none ∧ cv = .dict es := by
  unfold oneOfValue at h
  split at h
  · rename_i k c
    split at h
    · simp only [Out.ok.injEq] at h; exact absurd h.symm hu
    · split at h
      · simp only [Out.ok.injEq] at h; exact absurd h.symm hu
      · rename_i hne
        simp only [Out.ok.injEq] at h
        exact ⟨k, c, rfl, fun hc => hne (by rw [hc]), h.symm⟩
  · simp only [Out.ok.injEq] at h; exact absurd h.symm hu

/-- A value `coerce_input_value` returns conforms to the type. -/
theorem coerceValue_conforms (hW : TmWF D tm) (hDC : DefaultsConform D tm) (v : PyVal) (t : InType) (path : Path) :
    ∀ cv, coerceValue c D tm v t = .ok cv → cv ≠ .undefined → Conforms D tm t cv := by
  induction v, t, path using validateValue.induct c tm with
  | case1 v path t' hn =>
    intro cv h hu; rw [coerceValue] at h; simp only [hn, ↓reduceIte, Out.ok.injEq] at h; exact absurd h.symm hu
  | case2 v path t' hn ih =>
    intro cv h hu
    rw [coerceValue] at h
    simp only [hn, Bool.false_eq_true, ↓reduceIte] at h
    exact .nonNull t' cv (coerceValue_ne_none c D tm hW.enumsNonNull v hn t' cv h) (ih cv h hu)
  | case3 v path t' hn =>
    intro cv h hu; rw [coerceValue] at h; simp only [hn, ↓reduceIte, Out.ok.injEq] at h
    subst h; exact .null _ rfl
  | case4 v path t' hn xs hit ih =>
    intro cv h hu
    rw [coerceValue_list_iter c D tm hn hit] at h
    cases hs : seqItems (xs.attach.map fun ⟨x, _⟩ => coerceValue c D tm x t') with
    | ok o =>
      rw [hs] at h
      cases o with
      | none => simp only [wrapList, Out.ok.injEq] at h; exact absurd h.symm hu
      | some cs =>
        simp only [wrapList, Out.ok.injEq] at h
        subst h
        refine .list t' cs ?_
        intro x hx
        obtain ⟨hmem, hxu⟩ := seqItems_some_mem hs x hx
        simp only [List.mem_map, List.mem_attach, true_and, Subtype.exists] at hmem
        obtain ⟨y, hy, hyc⟩ := hmem
        exact ih y hy 0 x hyc hxu
    | err e => rw [hs] at h; simp [wrapList] at h
    | crash k => rw [hs] at h; simp [wrapList] at h
  | case5 v path t' hn hit ih =>
    intro cv h hu
    rw [coerceValue_list_single c D tm hn hit] at h
    cases hc : coerceValue c D tm v t' with
    | ok r =>
      rw [hc] at h
      by_cases hr : r = .undefined
      · subst hr; simp only [Out.ok.injEq] at h; exact absurd h.symm hu
      · have : cv = .list [r] := by cases r <;> simp_all
        subst this
        exact .list t' [r] (by intro x hx; rw [List.mem_singleton.1 hx]; exact ih r hc hr)
    | err e => rw [hc] at h; simp at h
    | crash k => rw [hc] at h; simp at h
  | case6 v path n hn =>
    intro cv h hu; rw [coerceValue] at h; simp only [hn, ↓reduceIte, Out.ok.injEq] at h
    subst h; exact .null _ rfl
  | case7 v path n hn fields oneOf hf kvs hd ih =>
    intro cv h hu
    have hnames := hW.fieldsNodup n fields oneOf hf
    rw [coerceValue_obj' c D tm hn hf hd] at h
    split at h
    · simp only [Out.ok.injEq] at h; exact absurd h.symm hu
    · cases hs : seqFields (fields.map (objG c D tm kvs)) with
      | ok o =>
        rw [hs] at h
        cases o with
        | none => simp only [Out.ok.injEq] at h; exact absurd h.symm hu
        | some es =>
          simp only at h
          have hes := seqFields_some hs
          rw [List.filterMap_map] at hes
          have hallok := seqFields_some_all hs
          -- the structural facts about `es`
          have hsub : (es.map (·.1)).Sublist (fields.map (·.name)) := by
            rw [hes]
            apply filterMap_keys_sublist
            intro f k cv' hφ
            simp only [Function.comp] at hφ
            cases hg : objG c D tm kvs f with
            | ok x =>
              rw [hg] at hφ
              cases x <;> simp only [entryOf, Option.some.injEq, Prod.mk.injEq, reduceCtorEq] at hφ
              obtain ⟨rfl, rfl⟩ := hφ
              exact (objG_entry c D tm hg).1
            | err e => rw [hg] at hφ; simp [entryOf] at hφ
            | crash k' => rw [hg] at hφ; simp [entryOf] at hφ
          have hconf : ∀ k cv', (k, cv') ∈ es → ∀ f ∈ fields, f.name = k → Conforms D tm f.type cv' := by
            intro k cv' hmem f hf' hfk
            rw [hes] at hmem
            obtain ⟨f', hf'', hφ⟩ := List.mem_filterMap.1 hmem
            simp only [Function.comp] at hφ
            cases hg : objG c D tm kvs f' with
            | ok x =>
              rw [hg] at hφ
              cases x <;> simp only [entryOf, Option.some.injEq, Prod.mk.injEq, reduceCtorEq] at hφ
              obtain ⟨rfl, rfl⟩ := hφ
              obtain ⟨hk, hcu, hsrc⟩ := objG_entry c D tm hg
              have : f = f' := nodup_name_eq hnames hf' hf'' (hfk.trans hk)
              subst this
              rcases hsrc with ⟨fv, hfv, hcv⟩ | ⟨_, hdf⟩
              · exact ih f fv hfv _ hcv hcu
              · exact hDC.conform f _ hdf hcu
            | err e => rw [hg] at hφ; simp [entryOf] at hφ
            | crash k' => rw [hg] at hφ; simp [entryOf] at hφ
          have hpres : ∀ f ∈ fields, (f.type.isNonNull = true ∨ D f ≠ .ok .undefined) → f.name ∈ es.map (·.1) := by
            intro f hf' hneed
            obtain ⟨x, hx, hxn⟩ := hallok _ (List.mem_map.2 ⟨f, hf', rfl⟩)
            obtain ⟨cv', hxe⟩ := objG_present c D tm hDC.present hx hxn hneed
            rw [hes]
            simp only [List.mem_map, List.mem_filterMap, Function.comp]
            exact ⟨(f.name, cv'), ⟨f, hf', by rw [hx, hxe]; rfl⟩, rfl⟩
          by_cases ho : oneOf = true
          · subst ho
            simp only [↓reduceIte] at h
            obtain ⟨k, c', hes1, hcn, hcv⟩ := oneOfValue_ok h hu
            subst hcv
            exact .obj n fields true es hf hsub hconf hpres (fun _ => ⟨k, c', hes1, hcn⟩)
          · simp only [ho, Bool.false_eq_true, ↓reduceIte, Out.ok.injEq] at h
            subst h
            exact .obj n fields oneOf es hf hsub hconf hpres (fun h' => absurd h' ho)
      | err e => rw [hs] at h; simp at h
      | crash k => rw [hs] at h; simp at h
  | case8 v path n hn fields oneOf hf hd =>
    intro cv h hu
    rw [coerceValue_notobj c D tm hn hf hd] at h
    simp only [Out.ok.injEq] at h; exact absurd h.symm hu
  | case9 v path n hn s hf hdv =>
    intro cv h hu
    rw [coerceValue] at h
    simp only [hn, Bool.false_eq_true, ↓reduceIte, hf, Out.ok.injEq] at h
    subst h
    unfold leafValue at hu ⊢
    simp only [Leaf.coerceInputValue] at hu ⊢
    split
    · rename_i r hr; exact .scalar n s r hf (scalar_value_conforms' c s v r hr)
    · rename_i hno
      split at hu
      · rename_i r hr; exact absurd hr (hno r)
      · exact absurd rfl hu
  | case10 v path n hn s hf hdv =>
    intro cv h hu
    rw [coerceValue] at h
    simp only [hn, Bool.false_eq_true, ↓reduceIte, hf, Out.ok.injEq] at h
    subst h
    exact absurd ((isDefined_iff _).2 hu) hdv
  | case11 v path n hn e hf hdv =>
    intro cv h hu
    rw [coerceValue] at h
    simp only [hn, Bool.false_eq_true, ↓reduceIte, hf, Out.ok.injEq] at h
    subst h
    unfold leafValue at hu ⊢
    simp only [Leaf.coerceInputValue] at hu ⊢
    split
    · rename_i r hr
      cases v <;> simp only [EnumType.coerceInputValue] at hr
      all_goals try (simp at hr; done)
      rename_i s
      split at hr
      · rename_i w hw
        simp only [Out.ok.injEq] at hr; subst hr
        exact .enum n e s w hf (dictGet_mem hw)
      · simp at hr
    · rename_i hno
      split at hu
      · rename_i r hr; exact absurd hr (hno r)
      · exact absurd rfl hu
  | case12 v path n hn e hf hdv =>
    intro cv h hu
    rw [coerceValue] at h
    simp only [hn, Bool.false_eq_true, ↓reduceIte, hf, Out.ok.injEq] at h
    subst h
    exact absurd ((isDefined_iff _).2 hu) hdv
  | case13 v path n hn hf =>
    intro cv h hu
    rw [coerceValue] at h
    simp only [hn, Bool.false_eq_true, ↓reduceIte, hf, Out.ok.injEq] at h
    exact absurd h.symm hu

end
end Gql.Values
