import Gql.Proofs.SchemaExt7
/-! Converse of `extend_eq_build_of_noSchemaDef`: when `build(A ++ B)` succeeds, equality forces
root stability. -/
namespace Gql.Types
open Gql Gql.Generated

theorem pick_comp_conv (inA inB : Bool) (x rA : Option Str) (c : Str) (hr : rA = some c → inA = true)
    (h : x.or (if inA = true then some c else rA) = (if (inA || inB) = true then some c else x.or rA)) :
    rootStableFor inA inB x c = true := by
  cases x with
  | none =>
    simp only [Option.none_or] at h
    cases inA with
    | true => simp [rootStableFor]
    | false =>
      cases inB with
      | false => simp [rootStableFor]
      | true =>
        simp only [Bool.false_eq_true, ↓reduceIte, Bool.or_true] at h
        exact absurd (hr h) (by simp)
  | some n =>
    simp only [Option.some_or] at h
    cases hab : (inA || inB) with
    | true =>
      rw [hab] at h
      simp only [↓reduceIte, Option.some.injEq] at h
      simp [rootStableFor, h]
    | false =>
      simp only [Bool.or_eq_false_iff] at hab
      simp [rootStableFor, hab.1, hab.2]

theorem withRoots_self (s : Schema) : withRoots s (s.query, s.mutation, s.subscription) = s := by
  cases s; rfl

/-- The roots of a successfully extended schema: those the schema extensions set, else the old ones. -/
theorem stage_roots (s t : Schema) (pb : Parts) (hsd : pb.schemaDef = none)
    (r : Option Str × Option Str × Option Str) (h : stage (withRoots s r) pb = .ok t) :
    (t.query, t.mutation, t.subscription) = or3 (ovr pb.schemaExts) r := by
  unfold stage at h
  simp only [withRoots] at h
  cases hT1 : mapMOut (fun t => extendType t (extsFor t.kind t.name pb.typeExts)) s.types with
  | err e => rw [hT1] at h; cases h
  | crash c => rw [hT1] at h; cases h
  | ok T1 =>
  rw [hT1] at h; simp only [] at h
  cases hN1 : mapMOut (fun (dn : Option DescNode × TypeNode) =>
      buildNamedType dn.1 dn.2 (extsFor dn.2.body.kind dn.2.name pb.typeExts)) (newTypeDefs pb) with
  | err e => rw [hN1] at h; cases h
  | crash c => rw [hN1] at h; cases h
  | ok N1 =>
  rw [hN1] at h; simp only [] at h
  cases hD1 : mapMOut (extendDirective pb.dirExts) s.directives with
  | err e => rw [hD1] at h; cases h
  | crash c => rw [hD1] at h; cases h
  | ok D1 =>
  rw [hD1] at h; simp only [] at h
  cases hND1 : mapMOut (buildDirective pb.dirExts) (pb.dirDefs.filter Def.isUserDirectiveDef) with
  | err e => rw [hND1] at h; cases h
  | crash c => rw [hND1] at h; cases h
  | ok ND1 =>
  rw [hND1] at h; simp only [] at h
  have haeq := finish_ok _ _ h
  subst haeq
  simp only [rootsOf_eq, rootsTriple, hsd, extsRoots_ovr]

/-- **Converse.** Without a schema definition in `A`, if `build(A ++ B)` succeeds and equals
`extend(build A, B)`, then `B` is root-stable over `A`. -/
theorem rootsStable_of_eq (a : Schema) (A B : List Def) (hA : A.all Def.isOther = false)
    (hB : B.all Def.isOther = false) (hsd : (collect A).schemaDef = none)
    (ha : buildFromDefs A = .ok a) (v : ValidExt Schema.empty (collect A) (collect B))
    (hok : (buildFromDefs (A ++ B)).isOk = true) (heq : extendDefs a B = buildFromDefs (A ++ B)) :
    rootsStableParts (definesType (collect A)) (collect B) = true := by
  unfold buildFromDefs at ha hok heq
  have hsd2 : (collect (A ++ B)).schemaDef = none := by
    rw [collect_append]; simp only [Parts.merge, v.noSchemaDef]; exact hsd
  cases hc : extendCore Schema.empty A with
  | err e => rw [hc] at ha; cases ha
  | crash c => rw [hc] at ha; cases ha
  | ok a0 =>
  rw [hc] at ha
  simp only [hsd, Option.isSome_none, Bool.false_eq_true, ↓reduceIte] at ha
  cases ha
  have hstage : stage Schema.empty (collect A) = .ok a0 := by
    unfold extendCore at hc
    simpa only [hA, Bool.false_eq_true, ↓reduceIte] using hc
  obtain ⟨hres, hnames⟩ := stage_ok_inv _ _ _ hstage
  have hfun : a0.hasType = definesType (collect A) := by
    funext c; rw [hnames c, hasType_empty, Bool.false_or]
  rw [← extendCore_append Schema.empty a0 A B hA hB hc v] at hok heq
  unfold extendDefs at heq
  unfold extendCore at hok heq
  simp only [hB, Bool.false_eq_true, ↓reduceIte, hsd2, Option.isSome_none] at hok heq
  cases hs : stage a0 (collect B) with
  | err e => rw [hs] at hok; cases hok
  | crash c => rw [hs] at hok; cases hok
  | ok s' =>
  rw [hs] at heq
  simp only [] at heq
  obtain ⟨_, hnames'⟩ := stage_ok_inv _ _ _ hs
  have h1 := stage_roots a0 s' (collect B) v.noSchemaDef (a0.query, a0.mutation, a0.subscription)
    (by rw [withRoots_self]; exact hs)
  have h2 := stage_roots a0 (autopick s') (collect B) v.noSchemaDef
    (pick3 a0.hasType (a0.query, a0.mutation, a0.subscription)) (by rw [← autopick_eq]; exact heq)
  have h3 : ((autopick s').query, (autopick s').mutation, (autopick s').subscription) =
      pick3 s'.hasType (s'.query, s'.mutation, s'.subscription) := rfl
  rw [h3, h1] at h2
  simp only [allRefsResolve, Bool.and_eq_true, rootOk_eq] at hres
  simp only [pick3, or3, Prod.mk.injEq, hnames'] at h2
  simp only [rootsStableParts, Bool.and_eq_true, (extRoots_eq (collect B)).1, (extRoots_eq (collect B)).2.1,
    (extRoots_eq (collect B)).2.2, ← hfun]
  refine ⟨⟨?_, ?_⟩, ?_⟩
  · exact pick_comp_conv _ _ _ a0.query _ (fun hn => by have := hres.1.1.2; rw [hn] at this; exact this) h2.1.symm
  · exact pick_comp_conv _ _ _ a0.mutation _ (fun hn => by have := hres.1.2; rw [hn] at this; exact this) h2.2.1.symm
  · exact pick_comp_conv _ _ _ a0.subscription _ (fun hn => by have := hres.2; rw [hn] at this; exact this) h2.2.2.symm

end Gql.Types
