import Gql.Proofs.IncExecRef
import Gql.Proofs.ExecFuel
/-!
C04 §6, second stage: documents with inline fragments and fragment spreads but **no `@defer`
directive** on any of them (operations and fragment definitions).  The collection of the
incremental executor model (shared grouped field set, tri-state visited map) is simulated by C02's
implementation model of `collect_fields` (shared groups, visited list); C02's refinement
(`collectRoot_rel`, `collectSubfields_rel`) then gives the specification's CollectFields.  Above
collection the recursion is the one of `Gql.Proofs.IncExecRef`.
-/
namespace Gql.Async.IncExec
open Gql.Exec Gql.Async
open Gql.Exec.Refine (OpsOk dirOut)

/-! ### the document class -/

def noDeferDirs (dirs : List Directive) : Bool := dirs.all (fun d => !(d.name == "defer"))

mutual
def noDeferSel : Selection → Bool
  | .field _ _ _ _ sels => noDeferSels sels
  | .inline _ dirs sels => noDeferDirs dirs && noDeferSels sels
  | .spread _ dirs => noDeferDirs dirs
def noDeferSels : List Selection → Bool
  | [] => true
  | x :: rest => noDeferSel x && noDeferSels rest
end

/-- no `@defer` on any inline fragment or fragment spread of the document -/
def noDeferDoc (d : Doc) : Bool :=
  d.ops.all (fun op => noDeferSels op.sels) && d.frags.all (fun f => noDeferSels f.sels)

def PND (sels : List Selection) : Prop := noDeferSels sels = true

theorem stripDirs_id (dirs : List Directive) (h : noDeferDirs dirs = true) : stripDirs dirs = dirs := by
  unfold stripDirs
  rw [List.filter_eq_self]
  simpa [noDeferDirs] using h

mutual
theorem stripSel_id_nd : ∀ s : Selection, noDeferSel s = true → stripSel s = s
  | .field a n args dirs sels, h => by
    simp only [noDeferSel] at h
    simp only [stripSel, stripSels_id_nd sels h]
  | .inline c dirs sels, h => by
    simp only [noDeferSel, Bool.and_eq_true] at h
    simp only [stripSel, stripDirs_id dirs h.1, stripSels_id_nd sels h.2]
  | .spread n dirs, h => by
    simp only [noDeferSel] at h
    simp only [stripSel, stripDirs_id dirs h]
theorem stripSels_id_nd : ∀ l : List Selection, noDeferSels l = true → stripSels l = l
  | [], _ => rfl
  | x :: rest, h => by
    simp only [noDeferSels, Bool.and_eq_true] at h
    simp only [stripSels, stripSel_id_nd x h.1, stripSels_id_nd rest h.2]
end

theorem map_eq_self {α : Type} (f : α → α) : ∀ (l : List α), (∀ x ∈ l, f x = x) → l.map f = l
  | [], _ => rfl
  | x :: rest, h => by
    simp only [List.map_cons, h x List.mem_cons_self,
      map_eq_self f rest (fun y hy => h y (List.mem_cons_of_mem _ hy))]

theorem stripDefer_id (d : Doc) (h : noDeferDoc d = true) : stripDefer d = d := by
  simp only [noDeferDoc, Bool.and_eq_true, List.all_eq_true] at h
  unfold stripDefer
  rw [map_eq_self _ d.ops (fun op hop => by simp only [stripSels_id_nd _ (h.1 op hop)]),
    map_eq_self _ d.frags (fun f hf => by simp only [stripSels_id_nd _ (h.2 f hf)])]

theorem getDeferUsage_off (cx : Impl.Ctx) (dirs : List Directive) (h : noDeferDirs dirs = true) :
    getDeferUsage cx dirs = some .off := by
  unfold getDeferUsage
  have : dirs.find? (fun d => d.name == "defer") = none := by
    rw [List.find?_eq_none]
    intro d hd
    simp only [noDeferDirs, List.all_eq_true] at h
    simpa using h d hd
  simp only [this]

/-! ### collection: simulated by C02's implementation model -/

theorem visitedGet_visitedSet (n m : Name) (b : Bool) :
    ∀ l : List (Name × Bool), visitedGet n (visitedSet m b l) =
      if m = n then some b else visitedGet n l
  | [] => by simp [visitedSet, visitedGet]
  | (k, b') :: rest => by
    by_cases hk : k = m
    · subst hk
      by_cases hn : k = n
      · simp [visitedSet, visitedGet, hn]
      · simp [visitedSet, visitedGet, hn]
    · by_cases hn : k = n
      · subst hn
        simp [visitedSet, visitedGet, hk, Ne.symm hk]
      · simp [visitedSet, visitedGet, hk, hn, visitedGet_visitedSet n m b rest]

structure R (st : CState) (ist : Impl.CState) : Prop where
  nu : st.newUsages = []
  grp : toGroups st.grouped = Refine.nodes ist.groups
  fo : FOg PND st.grouped
  vis : ∀ n, visitedGet n st.visited = if ist.visited.contains n then some false else none

/-- C02's collection ran out of fuel (excluded afterwards), or answered with a related state -/
def Post (st' : CState) : Out Impl.Exn Impl.CState → Prop
  | .ok ist' => R st' ist'
  | .err _ => False
  | .crash _ => True

section
variable (cx : Impl.Ctx) (rt : Name)
variable (hdoc : ∀ n fr, cx.doc.frag n = some fr → noDeferSels fr.sels = true)
variable (recur : Option Nat → List Selection → CState → Option CState)
variable (irecur : List Selection → Impl.CState → Out Impl.Exn Impl.CState)
variable (hrec : ∀ sels st ist st', noDeferSels sels = true → R st ist →
  recur none sels st = some st' → Post st' (irecur sels ist))

include hdoc hrec in
mutual
theorem collectSels_nd : ∀ (sels : List Selection) (st : CState) (ist : Impl.CState) (st' : CState),
    noDeferSels sels = true → R st ist → collectSels cx rt recur none sels st = some st' →
    Post st' (Impl.collectSels cx rt irecur sels ist)
  | [], st, ist, st', _, hr, h => by
    simp only [collectSels, Option.some.injEq] at h
    subst h
    simpa [Impl.collectSels, Post] using hr
  | sel :: rest, st, ist, st', hf, hr, h => by
    simp only [noDeferSels, Bool.and_eq_true] at hf
    rw [collectSels] at h
    rw [Impl.collectSels]
    cases hs : collectSel cx rt recur none sel st with
    | none => simp [hs] at h
    | some st1 =>
      simp only [hs] at h
      have h1 := collectSel_nd sel st ist st1 hf.1 hr hs
      cases hi : Impl.collectSel cx rt irecur sel ist with
      | ok ist1 =>
        simp only [hi, Post] at h1 ⊢
        exact collectSels_nd rest st1 ist1 st' hf.2 h1 h
      | err e => simp [hi, Post] at h1
      | crash c => simp [Post]

theorem collectSel_nd : ∀ (sel : Selection) (st : CState) (ist : Impl.CState) (st' : CState),
    noDeferSel sel = true → R st ist → collectSel cx rt recur none sel st = some st' →
    Post st' (Impl.collectSel cx rt irecur sel ist)
  | .field a n args dirs subs, st, ist, st', hf, hr, h => by
    simp only [noDeferSel] at hf
    rw [collectSel] at h
    rw [Impl.collectSel]
    cases hsi : Impl.shouldInclude cx dirs with
    | ok b =>
      cases b with
      | true =>
        simp only [hsi, Option.some.injEq] at h ⊢
        subst h
        simp only [Post]
        refine ⟨hr.nu, ?_, FOg_addField _ _ _ hr.fo ⟨rfl, hf⟩, hr.vis⟩
        simp only [toGroups_addField, Refine.nodes_addField, hr.grp]
      | false =>
        simp only [hsi, Option.some.injEq] at h ⊢
        subst h
        exact hr
    | err e => simp [hsi] at h
    | crash c => simp [hsi] at h
  | .inline cond dirs subs, st, ist, st', hf, hr, h => by
    simp only [noDeferSel, Bool.and_eq_true] at hf
    rw [collectSel] at h
    rw [Impl.collectSel]
    cases hsi : Impl.shouldInclude cx dirs with
    | ok b =>
      cases b with
      | true =>
        simp only [hsi, getDeferUsage_off cx dirs hf.1] at h ⊢
        by_cases hcm : Impl.condMatch cx.schema cond rt = true
        · simp only [hcm, if_true] at h ⊢
          exact collectSels_nd subs st ist st' hf.2 hr h
        · simp only [hcm, Bool.false_eq_true, if_false, Option.some.injEq] at h ⊢
          subst h
          exact hr
      | false =>
        simp only [hsi, Option.some.injEq] at h ⊢
        subst h
        exact hr
    | err e => simp [hsi] at h
    | crash c => simp [hsi] at h
  | .spread name dirs, st, ist, st', hf, hr, h => by
    simp only [noDeferSel] at hf
    rw [collectSel] at h
    rw [Impl.collectSel]
    cases hsi : Impl.shouldInclude cx dirs with
    | ok b =>
      cases b with
      | true =>
        simp only [hsi] at h ⊢
        cases hfr : cx.doc.frag name with
        | none =>
          simp only [hfr, Option.some.injEq] at h ⊢
          subst h
          exact hr
        | some fr =>
          simp only [hfr, getDeferUsage_off cx dirs hf] at h ⊢
          by_cases hcm : Impl.condMatch cx.schema (some fr.cond) rt = true
          · simp only [hcm, Bool.not_true, Bool.false_eq_true, if_false] at h ⊢
            have hv := hr.vis name
            by_cases hc : ist.visited.contains name = true
            · simp only [hc, if_true] at hv ⊢
              simp only [hv, if_true, Option.some.injEq] at h
              subst h
              exact hr
            · simp only [hc, Bool.false_eq_true, if_false] at hv ⊢
              simp only [hv, reduceCtorEq, if_false] at h
              refine hrec fr.sels _ _ st' (hdoc name fr hfr) ?_ h
              refine ⟨hr.nu, hr.grp, hr.fo, ?_⟩
              intro n
              simp only [visitedGet_visitedSet, List.contains_cons]
              by_cases hn : name = n
              · subst hn
                simp
              · have hn' : (n == name) = false := by simpa using Ne.symm hn
                simp only [hn, if_false, hn', Bool.false_or]
                exact hr.vis n
          · simp only [hcm, Bool.not_false, if_true, Option.some.injEq] at h ⊢
            subst h
            exact hr
      | false =>
        simp only [hsi, Option.some.injEq] at h ⊢
        subst h
        exact hr
    | err e => simp [hsi] at h
    | crash c => simp [hsi] at h
end
end

theorem collectFuel_nd (cx : Impl.Ctx) (rt : Name)
    (hdoc : ∀ n fr, cx.doc.frag n = some fr → noDeferSels fr.sels = true) :
    ∀ (m k : Nat) (sels : List Selection) (st : CState) (ist : Impl.CState) (st' : CState),
      noDeferSels sels = true → R st ist → collectFuel cx rt m none sels st = some st' →
      Post st' (Impl.collectFuel cx rt k sels ist)
  | 0, _, _, _, _, _, _, _, h => by simp [collectFuel] at h
  | m + 1, 0, _, _, _, _, _, _, _ => by simp [Impl.collectFuel, Post]
  | m + 1, k + 1, sels, st, ist, st', hf, hr, h => by
    rw [collectFuel] at h
    rw [Impl.collectFuel]
    exact collectSels_nd cx rt hdoc _ _
      (fun sels st ist st' hf hr h => collectFuel_nd cx rt hdoc m k sels st ist st' hf hr h)
      sels st ist st' hf hr h

def conv (fd : FD) : Impl.FieldDetails := { serial := 0, node := fd.node }

theorem collectSubLoop_nd (cx : Impl.Ctx) (rt : Name)
    (hdoc : ∀ n fr, cx.doc.frag n = some fr → noDeferSels fr.sels = true) :
    ∀ (fds : List FD) (st : CState) (ist : Impl.CState) (st' : CState),
      FOfds PND fds → R st ist → collectSubLoop cx rt fds st = some st' →
      Post st' (Impl.collectSubLoop cx rt (fds.map conv) ist)
  | [], st, ist, st', _, hr, h => by
    simp only [collectSubLoop, Option.some.injEq] at h
    subst h
    simpa [Impl.collectSubLoop, Post] using hr
  | fd :: rest, st, ist, st', hfo, hr, h => by
    rw [collectSubLoop] at h
    rw [List.map_cons, Impl.collectSubLoop]
    have hfd := hfo fd List.mem_cons_self
    cases hs : collectFuel cx rt (fuelOf cx.doc) fd.du fd.node.sels st with
    | none => simp [hs] at h
    | some st1 =>
      simp only [hs] at h
      rw [hfd.1] at hs
      have h1 := collectFuel_nd cx rt hdoc _ (Impl.fuelOf cx.doc) _ st ist st1 hfd.2 hr hs
      simp only [conv] at h1 ⊢
      cases hi : Impl.collectFuel cx rt (Impl.fuelOf cx.doc) fd.node.sels ist with
      | ok ist1 =>
        simp only [hi, Post] at h1 ⊢
        exact collectSubLoop_nd cx rt hdoc rest st1 ist1 st'
          (fun x hx => hfo x (List.mem_cons_of_mem _ hx)) h1 h
      | err e => simp [hi, Post] at h1
      | crash c => simp [Post]

theorem R_init (base : Nat) (heap : List FieldNode) :
    R (initC base) { groups := [], visited := [], heap := heap } :=
  ⟨rfl, rfl, fun e he => by simp [initC] at he, fun n => by simp [initC, visitedGet]⟩

theorem agree_toSpec (cx : Impl.Ctx) : Agree cx (Refine.toSpec cx) := ⟨rfl, rfl, rfl⟩

/-- the no-`@defer` class satisfies `CollectOK` against the specification on the same document -/
theorem collectOK_nd (cx : Impl.Ctx) (hops : OpsOk cx.ops)
    (hdoc : ∀ n fr, cx.doc.frag n = some fr → noDeferSels fr.sels = true) :
    CollectOK cx (Refine.toSpec cx) PND where
  sub := by
    intro rt fds st hrt hfo hs
    simp only [collectSubfields] at hs
    have hpost := collectSubLoop_nd cx rt hdoc fds _ _ st hfo (R_init 0 []) hs
    have hc2 := Refine.collectSubfields_rel cx hops rt hrt (fds.map conv) []
    have hn : (fds.map conv).map (·.node) = nodes fds := by
      simp [nodes, conv, List.map_map, Function.comp_def]
    rw [hn] at hc2
    unfold Impl.collectSubfields at hc2
    cases hsp : Spec.collectFields (Refine.toSpec cx) rt (Spec.mergeSelectionSets (nodes fds)) with
    | crash c => exact absurd hsp (Refine.collectFields_noCrash _ _ _ c)
    | err e =>
      simp only [hsp, Refine.CollectPost] at hc2
      cases hi : Impl.collectSubLoop cx rt (fds.map conv) { groups := [], visited := [], heap := [] } with
      | ok ist1 => simp [hi] at hc2
      | err e' => simp [hi, Post] at hpost
      | crash c => simp [hi] at hc2
    | ok G =>
      simp only [hsp, Refine.CollectPost] at hc2
      obtain ⟨g, heap', e1, e2, _⟩ := hc2
      cases hi : Impl.collectSubLoop cx rt (fds.map conv) { groups := [], visited := [], heap := [] } with
      | ok ist1 =>
        simp only [hi, Out.ok.injEq, Prod.mk.injEq] at e1
        simp only [hi, Post] at hpost
        refine ⟨hpost.nu, hpost.fo, ?_⟩
        rw [hpost.grp, e1.1, e2]
      | err e' => simp [hi] at e1
      | crash c => simp [hi] at e1

theorem collectRoot_nd (cx : Impl.Ctx) (hops : OpsOk cx.ops)
    (hdoc : ∀ n fr, cx.doc.frag n = some fr → noDeferSels fr.sels = true)
    (rt : Name) (hrt : cx.schema.kind rt = .object) (sels : List Selection)
    (hf : noDeferSels sels = true) (st : CState) (hs : collectRoot cx rt sels = some st) :
    st.newUsages = [] ∧ FOg PND st.grouped ∧
      Spec.collectFields (Refine.toSpec cx) rt sels = .ok (toGroups st.grouped) := by
  simp only [collectRoot] at hs
  have hpost := collectFuel_nd cx rt hdoc _ (Impl.fuelOf cx.doc) sels _ _ st hf (R_init 0 []) hs
  have hc2 := Refine.collectRoot_rel cx hops rt hrt sels []
  unfold Impl.collectRoot at hc2
  cases hsp : Spec.collectFields (Refine.toSpec cx) rt sels with
  | crash c => exact absurd hsp (Refine.collectFields_noCrash _ _ _ c)
  | err e =>
    simp only [hsp, Refine.CollectPost] at hc2
    cases hi : Impl.collectFuel cx rt (Impl.fuelOf cx.doc) sels { groups := [], visited := [], heap := [] } with
    | ok ist1 => simp [hi] at hc2
    | err e' => simp [hi, Post] at hpost
    | crash c => simp [hi] at hc2
  | ok G =>
    simp only [hsp, Refine.CollectPost] at hc2
    obtain ⟨g, heap', e1, e2, _⟩ := hc2
    cases hi : Impl.collectFuel cx rt (Impl.fuelOf cx.doc) sels { groups := [], visited := [], heap := [] } with
    | ok ist1 =>
      simp only [hi, Out.ok.injEq, Prod.mk.injEq] at e1
      simp only [hi, Post] at hpost
      refine ⟨hpost.nu, hpost.fo, ?_⟩
      rw [hpost.grp, e1.1, e2]
    | err e' => simp [hi] at e1
    | crash c => simp [hi] at e1

/-! ### the request -/

theorem rootType_object {s : Schema} {k : OpKind} {rt : Name} (h : Impl.rootType s k = some rt) :
    s.kind rt = .object := by
  unfold Impl.rootType at h
  simp only at h
  split at h
  · split at h
    · rename_i hk
      simp only [Option.some.injEq] at h
      subst h
      simpa using hk
    · cases h
  · cases h

theorem frag_mem {d : Doc} {n : Name} {fr : FragDef} (h : d.frag n = some fr) : fr ∈ d.frags := by
  unfold Doc.frag at h
  exact List.mem_reverse.mp (List.mem_of_find?_eq_some h)

/-- For a document without `@defer` (inline fragments, fragment spreads, type conditions,
`@skip`/`@include` allowed): the tree `c.ref` of the cut the incremental executor model produces
is, as a JSON value, the `data` of the specification's response to the document with `@defer`
disabled (here: the document itself), and that response has no errors. -/
theorem incCut_ref_nd {ops : Ops} {s : Schema} {doc : Doc} {opName : Option Name} {vars : Vars}
    {root : RVal} {c : Cut} (hops : OpsOk ops) (hnd : noDeferDoc doc = true)
    (h : incCut ops s doc opName vars root = some c) :
    (Spec.executeRequest ops s (stripDefer doc) opName vars root).errors = [] ∧
    toJ (Spec.executeRequest ops s (stripDefer doc) opName vars root).data = some c.ref := by
  have hnd' := hnd
  simp only [noDeferDoc, Bool.and_eq_true, List.all_eq_true] at hnd'
  have hdoc : ∀ n fr, (Impl.Ctx.mk ops s doc vars).doc.frag n = some fr →
      noDeferSels fr.sels = true := fun n fr hfr => hnd'.2 fr (frag_mem hfr)
  refine incCut_ref_gen (P := PND) ?_ ?_ h
  · rw [stripDefer_id doc hnd]
    exact collectOK_nd (Impl.Ctx.mk ops s doc vars) hops hdoc
  · intro op rt st hop hrt hs
    have hopnd : noDeferSels op.sels = true := hnd'.1 op (selectOp_mem hop)
    rw [stripDefer_id doc hnd, stripSels_id_nd _ hopnd]
    exact collectRoot_nd (Impl.Ctx.mk ops s doc vars) hops hdoc rt (rootType_object hrt) op.sels
      hopnd st hs

/-- the document class for which `c.ref` = the specification's response is proved: every operation
selects fields only (fragment definitions unreachable), or no inline fragment / fragment spread of
the document (operations and fragment definitions) carries `@defer` -/
def refClassDoc (d : Doc) : Bool := fieldsOnlyDoc d || noDeferDoc d

theorem incCut_ref_class {ops : Ops} {s : Schema} {doc : Doc} {opName : Option Name} {vars : Vars}
    {root : RVal} {c : Cut} (hops : OpsOk ops) (hcl : refClassDoc doc = true)
    (h : incCut ops s doc opName vars root = some c) :
    (Spec.executeRequest ops s (stripDefer doc) opName vars root).errors = [] ∧
    toJ (Spec.executeRequest ops s (stripDefer doc) opName vars root).data = some c.ref := by
  simp only [refClassDoc, Bool.or_eq_true] at hcl
  rcases hcl with hfo | hnd
  · exact incCut_ref_fo hops hfo h
  · exact incCut_ref_nd hops hnd h

end Gql.Async.IncExec
