import Gql.Proofs.StreamOrder
/-!
A history invariant for P5 at the payload level: every group that was ever announced keeps all
its proper ancestors out of the graph, from the moment it is announced on.
-/
namespace Gql.Async
open Gql.Spec.Protocol

/-- The groups the events announce. -/
def annGroups (evs : List WQEvent) : List Nat :=
  evs.flatMap (fun e => match e with
    | .groupSuccess _ ng _ => ng
    | .streamValues _ _ ng _ => ng
    | _ => [])

theorem annGroups_append (a b : List WQEvent) : annGroups (a ++ b) = annGroups a ++ annGroups b := by
  simp [annGroups]

theorem annGroups_groupEvents (g : Nat) (v : List GVal) (ng ns : List Nat) :
    annGroups (groupEvents g v ng ns) = ng := by
  unfold groupEvents annGroups
  split <;> simp

theorem finishGroupSuccess_ann (σ : Static) (q : WQ) (g : Nat) (n : GroupNode) :
    annGroups (finishGroupSuccess σ q g n).2.1 = (finishGroupSuccess σ q g n).2.2.1 :=
  annGroups_groupEvents _ _ _ _

/-! ### announced groups become roots -/

theorem successStep_ann (σ : Static) (acc : WQ × List WQEvent × List Nat × List Nat) (g : Nat)
    (h : ∀ b ∈ annGroups acc.2.1, b ∈ acc.2.2.1) :
    ∀ b ∈ annGroups (successStep σ acc g).2.1, b ∈ (successStep σ acc g).2.2.1 := by
  unfold successStep
  split
  · simp only
    split
    · intro b hb
      rw [annGroups_append] at hb
      rcases List.mem_append.mp hb with hb | hb
      · exact List.mem_append.mpr (Or.inl (h b hb))
      · rw [finishGroupSuccess_ann] at hb
        exact List.mem_append.mpr (Or.inr hb)
    · exact h
  · exact h

theorem handle_ann_roots (σ : Static) (q : WQ) (ev : GraphEvent) :
    ∀ b ∈ annGroups (handleGraphEvent σ q ev).2, b ∈ (handleGraphEvent σ q ev).1.rootGroups := by
  cases ev with
  | taskSuccess t r =>
    simp only [handleGraphEvent, taskSuccess]
    have h := foldl_inv (fun acc : WQ × List WQEvent × List Nat × List Nat =>
        ∀ b ∈ annGroups acc.2.1, b ∈ acc.2.2.1) (successStep σ) (σ.tgroups t)
      ((integrateWork σ (setTaskValue q t r.value) r.work (some t)).1, [], [], [])
      (by simp [annGroups]) (fun acc g ha => successStep_ann σ acc g ha)
    intro b hb
    rw [(startNewWork_roots σ _ _ _).1, mem_foldl_oinsert]
    exact Or.inr (h b hb)
  | taskFailure t =>
    simp only [handleGraphEvent, taskFailure]
    have h := foldl_inv (fun acc : WQ × List WQEvent => annGroups acc.2 = [])
      (failureStep σ) (σ.tgroups t) (({ q with taskNodes := aerase q.taskNodes t } : WQ), []) rfl
      (fun acc g ha => by
        unfold failureStep
        split
        · simp only [annGroups_append, ha, List.nil_append]
          simp [annGroups, finishGroupFailure]
        · exact ha)
    intro b hb; rw [h] at hb; cases hb
  | streamItems s items st =>
    simp only [handleGraphEvent, streamItems]
    have hfold : ItemInv q (items.foldl (itemStep σ) (q, [], [], [])) :=
      foldl_inv (ItemInv q) (itemStep σ) items _
        (by intro n hn; rcases hn with hn | hn
            · exact hn
            · simp [nodesOf] at hn)
        (fun acc it ha => itemStep_dom σ q acc it ha)
    have hroot : ∀ b ∈ (items.foldl (itemStep σ) (q, [], [], [])).2.2.1,
        b ∈ (items.foldl (itemStep σ) (q, [], [], [])).1.rootGroups := by
      intro b hb
      exact hfold (.group b) (Or.inr ((mem_nodesOf _ _ _).mpr (Or.inl ⟨b, hb, rfl⟩)))
    split
    · intro b hb
      simp [annGroups] at hb
      exact hroot b hb
    · intro b hb
      simp [annGroups] at hb
      exact hroot b hb
  | streamSuccess s =>
    simp only [handleGraphEvent]
    split <;> intro b hb <;> simp [annGroups] at hb
  | streamFailure s => intro b hb; simp [handleGraphEvent, annGroups] at hb
  | stop => intro b hb; simp [handleGraphEvent, annGroups] at hb

/-! ### nodes only appear for fresh groups -/

theorem finishGroupSuccess_sub (σ : Static) (q : WQ) (g : Nat) (n : GroupNode) :
    SubGraph q (finishGroupSuccess σ q g n).1 := by
  unfold finishGroupSuccess
  simp only
  have h1 : SubGraph q ({ q with groupNodes := aerase q.groupNodes g } : WQ) := subGraph_erase q g
  have h2 : SubGraph ({ q with groupNodes := aerase q.groupNodes g } : WQ)
      (n.tasks.foldl (collectTask σ)
        (({ q with groupNodes := aerase q.groupNodes g } : WQ), ([] : List GVal), ([] : List Nat))).1 :=
    foldl_sub1 (collectTask σ) n.tasks
      (({ q with groupNodes := aerase q.groupNodes g } : WQ), ([] : List GVal), ([] : List Nat))
      (collectTask_sub σ)
  have h3 := prune_sub ((n.tasks.foldl (collectTask σ)
        (({ q with groupNodes := aerase q.groupNodes g } : WQ), ([] : List GVal), ([] : List Nat))).1.groupNodes.length + 1)
      n.children ((n.tasks.foldl (collectTask σ)
        (({ q with groupNodes := aerase q.groupNodes g } : WQ), ([] : List GVal), ([] : List Nat))).1, [])
  exact ((h1.trans h2).trans h3).trans (subGraph_of_eq rfl)

theorem successStep_sub (σ : Static) (acc : WQ × List WQEvent × List Nat × List Nat) (g : Nat) :
    SubGraph acc.1 (successStep σ acc g).1 := by
  unfold successStep
  cases hl : alookup acc.1.groupNodes g with
  | none => exact SubGraph.refl _
  | some n =>
    simp only
    have s0 := subGraph_aset acc.1 g n { n with pending := n.pending - 1 } hl rfl
    split
    · exact s0.trans (finishGroupSuccess_sub σ _ g _)
    · exact s0

theorem failureStep_sub (σ : Static) (acc : WQ × List WQEvent) (g : Nat) :
    SubGraph acc.1 (failureStep σ acc g).1 := by
  unfold failureStep
  split
  · exact (removeGroup_sub σ _ acc.1 g _).trans (subGraph_of_eq rfl)
  · exact SubGraph.refl _

theorem eventOk_introG (σ : Static) (e : EnvSt) (q : WQ) (ev : GraphEvent) (e' : EnvSt)
    (hok : eventOk σ e q ev = some e') : ∀ x ∈ e.introG, x ∈ e'.introG := by
  have hintro : ∀ (e : EnvSt) (w : Option Work), ∀ x ∈ e.introG, x ∈ (e.intro w).introG := by
    intro e w x hx
    cases w with
    | none => exact hx
    | some w => simp only [EnvSt.intro, List.mem_append]; exact Or.inr hx
  have hitems : ∀ (items : List IResult) (e : EnvSt) (n : Nat) (e1 : EnvSt) (n1 : Nat),
      itemsOk σ q e n items = some (e1, n1) → ∀ x ∈ e.introG, x ∈ e1.introG := by
    intro items
    induction items with
    | nil => intro e n e1 n1 h; simp [itemsOk] at h; obtain ⟨rfl, _⟩ := h; exact fun x hx => hx
    | cons it items ih =>
      intro e n e1 n1 h
      unfold itemsOk at h
      by_cases hc : (idxMatches it.value.idx n && workOptOk σ e q none it.work) = true
      · rw [if_pos hc] at h
        exact fun x hx => ih _ _ _ _ h x (hintro e it.work x hx)
      · rw [if_neg hc] at h; cases h
  cases ev with
  | taskSuccess t r =>
    simp only [eventOk] at hok
    split at hok
    · simp only [Option.some.injEq] at hok; rw [← hok]; exact hintro e r.work
    · cases hok
  | taskFailure t =>
    simp only [eventOk] at hok
    split at hok
    · simp only [Option.some.injEq] at hok; rw [← hok]; exact fun x hx => hx
    · cases hok
  | streamItems s items st =>
    simp only [eventOk] at hok
    split at hok
    · cases hi : itemsOk σ q e ((alookup e.streamNext s).getD 0) items with
      | none => simp [hi] at hok
      | some r =>
        obtain ⟨e1, n1⟩ := r
        simp only [hi, Option.some.injEq] at hok
        rw [← hok]
        exact hitems items e _ e1 n1 hi
    · cases hok
  | streamSuccess s =>
    simp only [eventOk] at hok
    split at hok
    · simp only [Option.some.injEq] at hok; rw [← hok]; exact fun x hx => hx
    · cases hok
  | streamFailure s =>
    simp only [eventOk] at hok
    split at hok
    · simp only [Option.some.injEq] at hok; rw [← hok]; exact fun x hx => hx
    · cases hok
  | stop => simp only [eventOk, Option.some.injEq] at hok; rw [← hok]; exact fun x hx => hx

theorem itemStep_newnodes (σ : Static) (e : EnvSt) (acc : WQ × List IVal × List Nat × List Nat)
    (it : IResult) (hw : ∀ w, it.work = some w → ∀ g ∈ w.groups, g ∉ e.introG) (a : Nat)
    (h : hasNode (itemStep σ acc it).1 a) : hasNode acc.1 a ∨ a ∉ e.introG := by
  cases hwk : it.work with
  | none => rw [itemStep_none σ acc it hwk] at h; exact Or.inl h
  | some w =>
    unfold itemStep at h
    simp only [hwk] at h
    have h1 := (startNewWork_shrink σ _ _ _).sub.hasNode h
    have h2 := (prune_sub _ _ ((integrateWork σ acc.1 (some w) none).1, [])).hasNode h1
    rcases integrateWork_nodes σ acc.1 w none a h2 with h3 | h3
    · exact Or.inr (hw w hwk a h3)
    · exact Or.inl h3

theorem items_newnodes (σ : Static) (qe : WQ) (e0 : EnvSt) (items : List IResult) :
    ∀ (e : EnvSt) (n0 : Nat) (acc : WQ × List IVal × List Nat × List Nat) (e1 : EnvSt) (n1 : Nat),
      (∀ x ∈ e0.introG, x ∈ e.introG) → itemsOk σ qe e n0 items = some (e1, n1) →
      ∀ a, hasNode (items.foldl (itemStep σ) acc).1 a → hasNode acc.1 a ∨ a ∉ e0.introG := by
  induction items with
  | nil => intro e n0 acc e1 n1 _ _ a h; exact Or.inl h
  | cons it items ih =>
    intro e n0 acc e1 n1 hmono hi a h
    unfold itemsOk at hi
    by_cases hc : (idxMatches it.value.idx n0 && workOptOk σ e qe none it.work) = true
    · rw [if_pos hc] at hi
      simp only [List.foldl_cons] at h
      simp only [Bool.and_eq_true] at hc
      have hmono' : ∀ x ∈ e0.introG, x ∈ (e.intro it.work).introG := by
        intro x hx
        cases it.work with
        | none => exact hmono x hx
        | some w => simp only [EnvSt.intro, List.mem_append]; exact Or.inr (hmono x hx)
      rcases ih (e.intro it.work) (n0 + 1) _ e1 n1 hmono' hi a h with h1 | h1
      · have hw : ∀ w, it.work = some w → ∀ g ∈ w.groups, g ∉ e0.introG := by
          intro w hwk g hg hm
          have hok := hc.2
          rw [hwk] at hok
          exact (workOk_of σ e qe none w hok).gfresh g hg (hmono g hm)
        exact itemStep_newnodes σ e0 acc it hw a h1
      · exact Or.inr h1
    · rw [if_neg hc] at hi; cases hi

/-- A handler creates nodes only for groups that were not introduced before. -/
theorem handle_newnodes (σ : Static) (e : EnvSt) (q : WQ) (ev : GraphEvent) (e' : EnvSt)
    (hok : eventOk σ e q ev = some e') (a : Nat) (h : hasNode (handleGraphEvent σ q ev).1 a) :
    hasNode q a ∨ a ∉ e.introG := by
  cases ev with
  | taskSuccess t r =>
    simp only [handleGraphEvent, taskSuccess] at h
    have h1 := (startNewWork_shrink σ _ _ _).sub.hasNode h
    have hs : SubGraph (integrateWork σ (setTaskValue q t r.value) r.work (some t)).1
        ((σ.tgroups t).foldl (successStep σ)
          ((integrateWork σ (setTaskValue q t r.value) r.work (some t)).1, [], [], [])).1 :=
      foldl_sub1 _ _ _ (successStep_sub σ)
    have h2 := hs.hasNode h1
    have hsv : ∀ a, hasNode (setTaskValue q t r.value) a → hasNode q a :=
      fun a ha => (setTaskValue_shrink q t r.value).sub.hasNode ha
    cases hwk : r.work with
    | none => rw [hwk, integrateWork_none] at h2; exact Or.inl (hsv a h2)
    | some w =>
      rw [hwk] at h2
      rcases integrateWork_nodes σ _ w (some t) a h2 with h3 | h3
      · right
        simp only [eventOk] at hok
        split at hok
        · rename_i hc
          simp only [Bool.and_eq_true] at hc
          have hw := hc.2
          rw [hwk] at hw
          exact (workOk_of σ e q (some t) w hw).gfresh a h3
        · cases hok
      · exact Or.inl (hsv a h3)
  | taskFailure t =>
    simp only [handleGraphEvent, taskFailure] at h
    have hs : SubGraph ({ q with taskNodes := aerase q.taskNodes t } : WQ)
        ((σ.tgroups t).foldl (failureStep σ) (({ q with taskNodes := aerase q.taskNodes t } : WQ), [])).1 :=
      foldl_sub1 _ _ _ (failureStep_sub σ)
    obtain ⟨m, hm⟩ := hs.hasNode h
    exact Or.inl ⟨m, hm⟩
  | streamItems s items st =>
    simp only [eventOk] at hok
    split at hok
    · cases hi : itemsOk σ q e ((alookup e.streamNext s).getD 0) items with
      | none => simp [hi] at hok
      | some r =>
        obtain ⟨e1, n1⟩ := r
        have key := items_newnodes σ q e items e _ (q, [], [], []) e1 n1 (fun x hx => hx) hi a
        apply key
        simp only [handleGraphEvent, streamItems] at h
        split at h
        · obtain ⟨m, hm⟩ := h; exact ⟨m, hm⟩
        · exact h
    · cases hok
  | streamSuccess s =>
    simp only [handleGraphEvent] at h
    split at h
    · obtain ⟨m, hm⟩ := h; exact Or.inl ⟨m, hm⟩
    · exact Or.inl h
  | streamFailure s =>
    simp only [handleGraphEvent] at h
    obtain ⟨m, hm⟩ := h; exact Or.inl ⟨m, hm⟩
  | stop => exact Or.inl h

/-! ### the history invariant -/

/-- Everything of `P5Inv`, and: every group announced so far (initially or by an event) was
introduced and has no proper ancestor left in the graph. -/
def GoneInv (σ : Static) (D0 : List Node) (G0 : List Nat) (e : EnvSt) (q : WQ) (E : List WQEvent) : Prop :=
  P5Inv σ D0 e q E ∧ ∀ b ∈ G0 ++ annGroups E, b ∈ e.introG ∧ NoAnc σ q b

theorem goneInv_run (σ : Static) (D0 : List Node) (G0 : List Nat) : RunInv σ (GoneInv σ D0 G0) where
  handle := by
    intro e q ev e' E ⟨hp, hg⟩ hst hok
    have hp' := (p5Inv_run σ D0).handle e q ev e' E hp hst hok
    refine ⟨hp', ?_⟩
    obtain ⟨⟨⟨good', _, _⟩, _, anti'⟩, _⟩ := hp'
    obtain ⟨⟨_, closed, _⟩, _⟩ := hp
    intro b hb
    rw [annGroups_append, ← List.append_assoc] at hb
    rcases List.mem_append.mp hb with hb | hb
    · obtain ⟨hi, hn⟩ := hg b hb
      refine ⟨eventOk_introG σ e q ev e' hok b hi, ?_⟩
      intro a ha hnode
      rcases handle_newnodes σ e q ev e' hok a hnode with h1 | h1
      · exact hn a ha h1
      · exact h1 (closed.anc hi ha)
    · have hr := handle_ann_roots σ q ev b hb
      exact ⟨good'.known.roots b hr, anti' b hr⟩
  chan := by
    intro e q E c ⟨hp, hg⟩
    exact ⟨(p5Inv_run σ D0).chan e q E c hp, fun b hb => ⟨(hg b hb).1, (hg b hb).2.sub (subGraph_of_eq rfl)⟩⟩
  defer := by
    intro e q E d ⟨hp, hg⟩
    exact ⟨(p5Inv_run σ D0).defer e q E d hp, fun b hb => ⟨(hg b hb).1, (hg b hb).2.sub (subGraph_of_eq rfl)⟩⟩
  term := by
    intro e q E ⟨hp, hg⟩ h1 h2
    refine ⟨(p5Inv_run σ D0).term e q E hp h1 h2, ?_⟩
    intro b hb
    rw [annGroups_append] at hb
    have : annGroups [WQEvent.termination] = [] := rfl
    rw [this, List.append_nil] at hb
    exact ⟨(hg b hb).1, (hg b hb).2.sub (subGraph_of_eq rfl)⟩

end Gql.Async
