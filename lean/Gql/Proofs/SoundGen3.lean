/-
C13 — soundness, general chain: execution of well-typed groups over conforming data.
-/
import Gql.Proofs.SoundGen2
import Gql.Proofs.SoundExec3

namespace Gql.Exec.Valid
open Gql.Exec Gql.Exec.Refine

/-- the selection sets that execution of `op` can hand to CollectFields: the operation's own, and
the merged sub-selections of any collected group, on any object type -/
inductive ReachSel (cx : Spec.Ctx) (op : Operation) : Name → List Selection → Prop
  | root {rt : Name} : Spec.rootType cx.schema op.kind = some rt → ReachSel cx op rt op.sels
  | step {rt : Name} {sels : List Selection} {groups : Spec.Groups} {k : Name}
      {fs : List FieldNode} {rt' : Name} :
      ReachSel cx op rt sels → Spec.collectFields cx rt sels = .ok groups → (k, fs) ∈ groups →
      cx.schema.kind rt' = .object → ReachSel cx op rt' (Spec.mergeSelectionSets fs)

/-- all fields of a response key select the same field -/
def Uniform (gs : Spec.Groups) : Prop := ∀ p ∈ gs, ∀ f ∈ p.2, ∀ f' ∈ p.2, f.name = f'.name

/-- Field merging as execution needs it: whenever CollectFields runs on a selection set the
operation can reach, the fields grouped under one response key are the same field.  This is what
FieldsInSetCanMerge guarantees (two fields with the same response key whose parent types are the
same or not both object types must have the same name, recursively through merged sub-selections;
fields under different *object* parent types never meet in one runtime group). -/
def MergeOk (cx : Spec.Ctx) (op : Operation) : Prop :=
  ∀ rt sels, ReachSel cx op rt sels → ∀ gs, Spec.collectFields cx rt sels = .ok gs → Uniform gs

/-- the fields of a group are well-typed for a value of type `t` -/
def FieldsWT (g : GCtx) (t : TypeRef) (fields : List FieldNode) : Prop :=
  fields ≠ [] ∧ ∀ f ∈ fields,
    if isLeaf g.cx.schema t.baseName = true then f.sels = [] else SelsOk g t.baseName f.sels

/-- no errors, a value, of the prescribed shape -/
def ResG (cx : Spec.Ctx) (t : TypeRef) (fields : List FieldNode) (d : RVal) (r : Spec.R Json) : Prop :=
  r.errs = [] ∧ ∃ j, r.out = some j ∧ shapeOk cx t fields d j = true

theorem validSels_append (cx : VCtx) (S : Name) (a b : List Selection) :
    validSels cx S (a ++ b) = (validSels cx S a && validSels cx S b) := by
  induction a with
  | nil => simp [validSels]
  | cons h t ih => simp [validSels, ih, Bool.and_assoc]

theorem excSels_append (s : Schema) (env : List VarDef) (vars : Vars) (S : Name) (a b : List Selection) :
    excSels s env vars S (a ++ b) = (excSels s env vars S a || excSels s env vars S b) := by
  induction a with
  | nil => simp [excSels]
  | cons h t ih => simp [excSels, ih, Bool.or_assoc]

theorem spreadsIn_append (a b : List Selection) : spreadsIn (a ++ b) = spreadsIn a ++ spreadsIn b := by
  induction a with
  | nil => simp [spreadsIn]
  | cons h t ih => simp [spreadsIn, ih]

theorem selsOk_merge (g : GCtx) (S : Name) (fields : List FieldNode)
    (h : ∀ f ∈ fields, SelsOk g S f.sels) : SelsOk g S (Spec.mergeSelectionSets fields) := by
  unfold Spec.mergeSelectionSets
  induction fields with
  | nil => exact ⟨by simp [validSels], by simp [excSels], by simp [spreadsIn]⟩
  | cons f rest ih =>
    have hf := h f (List.mem_cons_self ..)
    have hr := ih (fun f' hf' => h f' (List.mem_cons_of_mem _ hf'))
    simp only [List.flatMap_cons]
    refine ⟨?_, ?_, ?_⟩
    · rw [validSels_append, hf.1, hr.1]; rfl
    · rw [excSels_append, hf.2.1, hr.2.1]; rfl
    · intro n hn
      rw [spreadsIn_append] at hn
      rcases List.mem_append.1 hn with hn | hn
      · exact hf.2.2 n hn
      · exact hr.2.2 n hn

variable (g : GCtx) (op : Operation) (hvok : VarsOk g.env g.cx.vars) (hval : ValuesOk g)
variable (hyps : SoundHyps g.cx.ops g.cx.schema)

include hvok hval hyps in
theorem groups_sound_gen (rt : Name) (fs : List FieldDef) (f : Name → ArgMap → RVal)
    (hfs : g.cx.schema.objectFields rt = some fs)
    (hconf : ∀ fd ∈ fs, ∀ args, Conforms g.cx.ops g.cx.schema fd.type (f fd.name args))
    (hchild : ∀ (name : Name) (args : ArgMap) (t : TypeRef) (fields : List FieldNode) (pos : List PSeg),
      Conforms g.cx.ops g.cx.schema t (f name args) → FieldsWT g t fields →
      (∀ rt', g.cx.schema.kind rt' = .object → ReachSel g.cx op rt' (Spec.mergeSelectionSets fields)) →
      ResG g.cx t fields (f name args) (Spec.completeValue g.cx t fields pos (f name args))) :
    ∀ (groups : Spec.Groups) (pos : List PSeg), AllOn g rt groups → Uniform groups →
      (∀ p ∈ groups, ∀ rt', g.cx.schema.kind rt' = .object →
        ReachSel g.cx op rt' (Spec.mergeSelectionSets p.2)) →
      (Spec.executeGroups g.cx rt
          (fun name args t fields pos => Spec.completeValue g.cx t fields pos (f name args)) pos
          groups).errs = [] ∧
      ∃ kvs, (Spec.executeGroups g.cx rt
          (fun name args t fields pos => Spec.completeValue g.cx t fields pos (f name args)) pos
          groups).out = some kvs ∧
        shapeGroups g.cx rt (fun name args t fields j => shapeOk g.cx t fields (f name args) j)
          groups kvs = true
  | [], pos, _, _, _ => by simp [Spec.executeGroups, Spec.R.pure, shapeGroups]
  | (k, fields) :: rest, pos, hall, huni, hreach => by
    obtain ⟨ih1, kvs', ih2, ih3⟩ := groups_sound_gen rt fs f hfs hconf hchild rest pos
      (fun p hp => hall p (List.mem_cons_of_mem _ hp)) (fun p hp => huni p (List.mem_cons_of_mem _ hp))
      (fun p hp => hreach p (List.mem_cons_of_mem _ hp))
    obtain ⟨hne, hon⟩ := hall (k, fields) (List.mem_cons_self ..)
    have hu := huni (k, fields) (List.mem_cons_self ..)
    have hr := hreach (k, fields) (List.mem_cons_self ..)
    cases fields with
    | nil => exact absurd rfl hne
    | cons f0 frest =>
      simp only [Spec.executeGroups, shapeGroups]
      rcases hon f0 (List.mem_cons_self ..) with ⟨hty, _⟩ | ⟨hty, fd, hgf, hargs, hexc, hsub⟩
      · -- the meta field
        have hty' : (f0.name == "__typename") = true := by simp [hty]
        have hstr := hyps.stringId (rt.toList.map Char.toNat)
        simp only [Spec.executeField, hty', ↓reduceIte, Spec.coerceResult, hstr, Spec.absorb,
          Spec.R.pure, Option.map_some, List.nil_append, ih1, ih2, true_and]
        simp [cpsOfName, ih3]
      · have hty' : ¬ (f0.name == "__typename") = true := by simpa using hty
        obtain ⟨hmem, hname⟩ := getField_mem hgf hfs
        obtain ⟨a, ha⟩ := arguments_coerce g.cx g.env hvok hval fd.args f0.args hargs hexc
          (fun x hx d hd' => hyps.defaultsOk rt f0.name fd hgf x hx d hd') fd.args (fun _ h => h) []
        have hwt : FieldsWT g fd.type (f0 :: frest) := by
          refine ⟨by simp, ?_⟩
          intro f' hf'
          have hn : f'.name = f0.name := hu f' hf' f0 (List.mem_cons_self ..)
          rcases hon f' hf' with ⟨hty2, _⟩ | ⟨_, fd', hgf', _, _, hsub'⟩
          · exact absurd (hn ▸ hty2) hty
          · rw [hn, hgf] at hgf'
            cases hgf'
            exact hsub'
        have hc := hchild f0.name a fd.type (f0 :: frest) (pos ++ [PSeg.key k])
          (hname ▸ hconf fd hmem a) hwt (hr)
        obtain ⟨hce, j, hco, hcs⟩ := hc
        simp only [Spec.executeField, hty', Bool.false_eq_true, ↓reduceIte, hgf, ha, Spec.absorb,
          hco, hce, Option.map_some, List.nil_append, ih1, ih2, true_and]
        simp [ih3, ha, hcs]

end Gql.Exec.Valid
