import Gql.Validation.Rules
import Gql.Proofs.ValidationOrder
/-!
C12 — lemmas about the modelled concrete rules (`Gql.Validation.Rules`).
-/
namespace Gql.Validation.Rules
open Gql.Validation

variable {τ : Type}

/-- A rule whose handlers never answer BREAK (and, the `Action` type having no edit, never edit). -/
def NeverBreaks (r : CRule τ) : Prop := ∀ s ph i ti, (r.step s ph i ti).1 ≠ Action.brk

theorem withNode_ne_brk (doc : ATree) (i : Info) (s : RS) (f : ATree → Action × RS × List RErr)
    (h : ∀ n, (f n).1 ≠ Action.brk) : (withNode doc i s f).1 ≠ Action.brk := by
  unfold withNode
  split
  · exact h _
  · simp

theorem loneAnonymousOperation_nb (doc : ATree) : NeverBreaks (loneAnonymousOperation (τ := τ) doc) := by
  intro s ph i ti
  apply withNode_ne_brk
  intro n
  cases ph <;> simp only <;> repeat' split
  all_goals simp

theorem uniqueOperationNames_nb (doc : ATree) : NeverBreaks (uniqueOperationNames (τ := τ) doc) := by
  intro s ph i ti
  apply withNode_ne_brk
  intro n
  cases ph <;> simp only <;> repeat' split
  all_goals simp

theorem uniqueFragmentNames_nb (doc : ATree) : NeverBreaks (uniqueFragmentNames (τ := τ) doc) := by
  intro s ph i ti
  apply withNode_ne_brk
  intro n
  cases ph <;> simp only <;> repeat' split
  all_goals simp

theorem uniqueVariableNames_nb (doc : ATree) : NeverBreaks (uniqueVariableNames (τ := τ) doc) := by
  intro s ph i ti
  apply withNode_ne_brk
  intro n
  cases ph <;> simp only <;> repeat' split
  all_goals simp

theorem uniqueArgumentNames_nb (doc : ATree) : NeverBreaks (uniqueArgumentNames (τ := τ) doc) := by
  intro s ph i ti
  apply withNode_ne_brk
  intro n
  cases ph <;> simp only <;> repeat' split
  all_goals simp

theorem uniqueInputFieldNames_nb (doc : ATree) : NeverBreaks (uniqueInputFieldNames (τ := τ) doc) := by
  intro s ph i ti
  apply withNode_ne_brk
  intro n
  cases ph <;> simp only <;> repeat' split
  all_goals simp

theorem knownFragmentNames_nb (doc : ATree) : NeverBreaks (knownFragmentNames (τ := τ) doc) := by
  intro s ph i ti
  apply withNode_ne_brk
  intro n
  cases ph <;> simp only <;> repeat' split
  all_goals simp

theorem noUnusedFragments_nb (doc : ATree) : NeverBreaks (noUnusedFragments (τ := τ) doc) := by
  intro s ph i ti
  apply withNode_ne_brk
  intro n
  cases ph <;> simp only <;> repeat' split
  all_goals simp

theorem noFragmentCycles_nb (doc : ATree) : NeverBreaks (noFragmentCycles (τ := τ) doc) := by
  intro s ph i ti
  apply withNode_ne_brk
  intro n
  cases ph <;> simp only <;> repeat' split
  all_goals simp

theorem noUndefinedVariables_nb (doc : ATree) : NeverBreaks (noUndefinedVariables (τ := τ) doc) := by
  intro s ph i ti
  apply withNode_ne_brk
  intro n
  cases ph <;> simp only <;> repeat' split
  all_goals simp

theorem noUnusedVariables_nb (doc : ATree) : NeverBreaks (noUnusedVariables (τ := τ) doc) := by
  intro s ph i ti
  apply withNode_ne_brk
  intro n
  cases ph <;> simp only <;> repeat' split
  all_goals simp

theorem modelled_nb (doc : ATree) : ∀ r ∈ modelledRules (τ := τ) doc, NeverBreaks r := by
  intro r hr
  simp only [modelledRules, modelled, List.map_cons, List.map_nil, List.mem_cons, List.not_mem_nil, or_false] at hr
  rcases hr with rfl | rfl | rfl | rfl | rfl | rfl | rfl | rfl | rfl | rfl | rfl
  · exact uniqueOperationNames_nb doc
  · exact loneAnonymousOperation_nb doc
  · exact uniqueFragmentNames_nb doc
  · exact knownFragmentNames_nb doc
  · exact noUnusedFragments_nb doc
  · exact noFragmentCycles_nb doc
  · exact uniqueVariableNames_nb doc
  · exact noUndefinedVariables_nb doc
  · exact noUnusedVariables_nb doc
  · exact uniqueArgumentNames_nb doc
  · exact uniqueInputFieldNames_nb doc

end Gql.Validation.Rules
