import Gql.Proofs.ExecParse
/-!
The parser model on printed operation / fragment definitions and executable documents (stage 1).
-/
namespace Gql.Syntax
open Gql Gql.Text

theorem mk_opNode (a b c d e f : Ast) :
    mkNode "OperationDefinitionNode" [("operation", a), ("description", b), ("name", c),
      ("variable_definitions", d), ("directives", e), ("selection_set", f)] =
    .node "OperationDefinitionNode" [("selection_set", f), ("description", b), ("name", c),
      ("variable_definitions", d), ("directives", e), ("operation", a)] := rfl

theorem mk_fragNode (a b c d e f : Ast) :
    mkNode "FragmentDefinitionNode" [("description", a), ("name", b), ("variable_definitions", c),
      ("type_condition", d), ("directives", e), ("selection_set", f)] =
    .node "FragmentDefinitionNode" [("selection_set", f), ("description", a), ("name", b),
      ("variable_definitions", c), ("directives", e), ("type_condition", d)] := rfl

theorem mk_docNode (a : Ast) : mkNode "DocumentNode" [("definitions", a)] = .node "DocumentNode" [("definitions", a)] := rfl

theorem opTypes_any (t : Token) (ot : List Nat) (hv : t.value = some ot) (h : Exec.isOpType ot) :
    Generated.ParserTables.operationTypes.any (fun o => valueIs t o) = true := by
  rcases h with rfl | rfl | rfl <;>
    simp [Generated.ParserTables.operationTypes, (valueIs_iff hv _)]

theorem parseDescription_none (cfg : Cfg) (s : PS) (h1 : s.cur.kind ≠ .string) (h2 : s.cur.kind ≠ .blockString) :
    parseDescription cfg s = .ok (.none, s) := by
  simp [parseDescription, peekDescription, bind_eq, P.cur, pure_eq', h1, h2]

section
variable (cfg : Cfg) (hm : cfg.maxTokens = none)
include hm

theorem noVarDefs (n : Nat) (s : PS) (h : s.cur.kind ≠ .parenL) :
    parseVariableDefinitions cfg n s = .ok (none, s) := by
  simp only [parseVariableDefinitions, parseOptionalMany, bind_eq, expectOptionalToken_no cfg .parenL s h,
    Bool.false_eq_true, ↓reduceIte, pure_eq']

omit hm in
theorem ssKvs_ne (ss : List Sel) : ∃ ks, Exec.ssKvs ss = (.braceL, none) :: ks := ⟨_, rfl⟩

/-- `parse_operation_definition` on a printed operation. -/
theorem parseOp_ok (n : Nat) (ot nm : List Nat) (ds : List Dir) (ss : List Sel) (fa : Bool)
    (h : Exec.defWf (.op ot nm ds ss)) (toks : List Token) (r : Stream) (cnt : Nat)
    (hn : (Exec.defKvs (.op ot nm ds ss)).length < n)
    (hkv : toks.map Token.kv = Exec.defKvs (.op ot nm ds ss)) (hne : NonEof toks) (hr : r.Ready) :
    ∃ c', parseOperationDefinition cfg n (PSat cnt (feed toks r)) =
      .ok (Exec.defAst fa (.op ot nm ds ss), PSat c' r) := by
  obtain ⟨hot, hnm, hds, hssne, hss⟩ := h
  simp only [Exec.defKvs] at hkv hn
  by_cases hs : Exec.isShorthand ot nm ds
  · rw [if_pos hs] at hkv hn
    obtain ⟨rfl, rfl, rfl⟩ := hs
    obtain ⟨c1, h1⟩ := parseSS cfg hm ss hssne hss n toks r cnt hn hkv hne hr
    have hpk : ((PSat cnt (feed toks r)).cur.kind == TokKind.braceL) = true := by
      rw [PSat_cur_kind _ _ (feed_ready _ _ hne hr), headKind_feed toks _ r hkv]; rfl
    refine ⟨c1, ?_⟩
    simp only [parseOperationDefinition, bind_eq, peek_eq, hpk, ↓reduceIte, h1, pure_eq', mk_opNode]
    simp [Exec.defAst, optName, Exec.dirsAst, optL, strCps, S]
  · rw [if_neg hs] at hkv hn
    rw [List.map_eq_append_iff] at hkv
    obtain ⟨t12, tss, rfl, hk12, hkss⟩ := hkv
    rw [List.map_eq_append_iff] at hk12
    obtain ⟨t1, tds, rfl, hk1, hkds⟩ := hk12
    rw [List.map_eq_cons_iff] at hk1
    obtain ⟨tO, tNl, rfl, hkO, hkNl⟩ := hk1
    obtain ⟨hOk, hOv⟩ := tok_of_kv hkO
    have hne_ds : NonEof tds := hne.append_left.append_right
    have hne_ss : NonEof tss := hne.append_right
    have hR3 : (feed tss r).Ready := feed_ready _ _ hne_ss hr
    have hR2 : (feed tds (feed tss r)).Ready := feed_ready _ _ hne_ds hR3
    have hk3 : headKind (feed tss r) = .braceL := by rw [headKind_feed tss _ r hkss]; rfl
    have hk2 : headKind (feed tds (feed tss r)) = if ds = [] then .braceL else .at := by
      rw [headKind_feed tds _ _ hkds, firstK_dirs, hk3]
    simp only [List.length_append, List.length_cons] at hn
    have hDirs : ∀ c0, ∃ cd, parseDirectives cfg n false (PSat c0 (feed tds (feed tss r))) =
        .ok ((if ds = [] then none else some (ds.map Exec.dirAst)), PSat cd (feed tss r)) := by
      intro c0
      exact parseDirectives_raw cfg hm false ds hds n tds _ c0 (by omega) hkds hne_ds hR3 (by rw [hk3]; decide)
        (by rw [hk3]; decide)
    have hdirsAst : optListO (if ds = [] then none else some (ds.map Exec.dirAst)) = Exec.dirsAst ds := by
      cases ds <;> simp [optListO, Exec.dirsAst, optL]
    have hSS : ∀ c0, ∃ cs, selectionSet n cfg (PSat c0 (feed tss r)) = .ok (Exec.ssAst ss, PSat cs r) := by
      intro c0
      exact parseSS cfg hm ss hssne hss n tss r c0 (by omega) hkss hne_ss hr
    have hnovd : ∀ c0, parseVariableDefinitions cfg n (PSat c0 (feed tds (feed tss r))) =
        .ok (none, PSat c0 (feed tds (feed tss r))) := by
      intro c0
      apply noVarDefs cfg hm
      rw [PSat_cur_kind _ _ hR2, hk2]; split <;> decide
    have hany := opTypes_any tO ot hOv hot
    have hOne : tO.kind ≠ .eof := by rw [hOk]; decide
    by_cases hn0 : nm = []
    · subst hn0
      simp only [List.isEmpty_nil, ↓reduceIte, List.map_eq_nil_iff] at hkNl
      subst hkNl
      obtain ⟨c1, h1⟩ := expectToken_ok cfg hm .name tO (feed tds (feed tss r)) cnt hOk hOne hR2
      have hnn : ((PSat c1 (feed tds (feed tss r))).cur.kind == TokKind.name) = false := by
        rw [PSat_cur_kind _ _ hR2, hk2]; split <;> decide
      obtain ⟨cd, hD⟩ := hDirs c1
      obtain ⟨cs, hS⟩ := hSS cd
      refine ⟨cs, ?_⟩
      have hpk : ((PSat cnt (feed ((tO :: []) ++ tds ++ tss) r)).cur.kind == TokKind.braceL) = false := by
        simp [feed, hOk]
      have hdesc := parseDescription_none cfg (PSat cnt (feed ((tO :: []) ++ tds ++ tss) r))
        (by simp [feed, hOk]) (by simp [feed, hOk])
      simp only [parseOperationDefinition, bind_eq, peek_eq, hpk, Bool.false_eq_true, ↓reduceIte, hdesc,
        parseOperationType]
      simp only [List.nil_append, List.cons_append, List.append_assoc, feed, feed_append, PSat_cons, bind_eq, h1,
        hany, ↓reduceIte, pure_eq', peek_eq, hnn, Bool.false_eq_true, hnovd, hD, hS, mk_opNode, hdirsAst, tokVal,
        hOv]
      simp [Exec.defAst, optName, optListO]
    · have hv : validName nm = true := hnm.resolve_left hn0
      have hne' : nm.isEmpty = false := by cases nm <;> simp_all
      simp only [hne', Bool.false_eq_true, ↓reduceIte, List.map_eq_cons_iff, List.map_eq_nil_iff] at hkNl
      obtain ⟨tN, tE, rfl, hkN, rfl⟩ := hkNl
      obtain ⟨hNk, hNv⟩ := tok_of_kv hkN
      have hNne : tN.kind ≠ .eof := by rw [hNk]; decide
      obtain ⟨c1, h1⟩ := expectToken_ok cfg hm .name tO (.cons tN (feed tds (feed tss r))) cnt hOk hOne
        (by simp [Stream.Ready, hNne])
      obtain ⟨c2, h2⟩ := parseName_ok cfg hm tN nm (feed tds (feed tss r)) c1 hNk hNv hR2
      obtain ⟨cd, hD⟩ := hDirs c2
      obtain ⟨cs, hS⟩ := hSS cd
      refine ⟨cs, ?_⟩
      have hpk : ((PSat cnt (feed ((tO :: [tN]) ++ tds ++ tss) r)).cur.kind == TokKind.braceL) = false := by
        simp [feed, hOk]
      have hdesc := parseDescription_none cfg (PSat cnt (feed ((tO :: [tN]) ++ tds ++ tss) r))
        (by simp [feed, hOk]) (by simp [feed, hOk])
      simp only [parseOperationDefinition, bind_eq, peek_eq, hpk, Bool.false_eq_true, ↓reduceIte, hdesc,
        parseOperationType]
      simp only [List.nil_append, List.cons_append, List.append_assoc, feed, feed_append, PSat_cons, bind_eq, h1,
        hany, ↓reduceIte, pure_eq', peek_eq, hNk, beq_self_eq_true, h2, hnovd, hD, hS, mk_opNode, hdirsAst, tokVal,
        hOv]
      simp [Exec.defAst, optName, optListO, hne', Val.nameNode]

end

end Gql.Syntax

namespace Gql.Syntax
open Gql Gql.Text

theorem expectKeyword_ok (cfg : Cfg) (hm : cfg.maxTokens = none) (v : String) (t : Token) (r : Stream) (c : Nat)
    (hk : t.kind = .name) (hv : valueIs t v = true) (hr : r.Ready) :
    ∃ c', expectKeyword cfg v { cur := t, rest := r, count := c } = .ok ((), PSat c' r) := by
  obtain ⟨c', h⟩ := advance_PSat cfg hm t r c (by rw [hk]; decide) hr
  exact ⟨c', by simp only [expectKeyword, bind_eq, P.cur, hk, hv, and_self, ↓reduceIte, h]⟩

section
variable (cfg : Cfg) (hm : cfg.maxTokens = none)
include hm

/-- `parse_fragment_definition` on a printed fragment definition. -/
theorem parseFrag_ok (n : Nat) (nm tc : List Nat) (ds : List Dir) (ss : List Sel)
    (h : Exec.defWf (.frag nm tc ds ss)) (toks : List Token) (r : Stream) (cnt : Nat)
    (hn : (Exec.defKvs (.frag nm tc ds ss)).length < n)
    (hkv : toks.map Token.kv = Exec.defKvs (.frag nm tc ds ss)) (hne : NonEof toks) (hr : r.Ready) :
    ∃ c', parseFragmentDefinition cfg n (PSat cnt (feed toks r)) =
      .ok (Exec.defAst cfg.fragArgs (.frag nm tc ds ss), PSat c' r) := by
  obtain ⟨hnm, hon, htc, hds, hssne, hss⟩ := h
  simp only [Exec.defKvs] at hkv hn
  rw [List.map_eq_append_iff] at hkv
  obtain ⟨t12, tss, rfl, hk12, hkss⟩ := hkv
  simp only [List.map_eq_cons_iff] at hk12
  obtain ⟨tF, t1, rfl, hkF, tN, t2, rfl, hkN, tOn, t3, rfl, hkOn, tT, tds, rfl, hkT, hkds⟩ := hk12
  obtain ⟨hFk, hFv⟩ := tok_of_kv hkF
  obtain ⟨hNk, hNv⟩ := tok_of_kv hkN
  obtain ⟨hOnk, hOnv⟩ := tok_of_kv hkOn
  obtain ⟨hTk, hTv⟩ := tok_of_kv hkT
  have hNne : tN.kind ≠ .eof := by rw [hNk]; decide
  have hOne : tOn.kind ≠ .eof := by rw [hOnk]; decide
  have hTne : tT.kind ≠ .eof := by rw [hTk]; decide
  have hne_ds : NonEof tds := hne.append_left.tail.tail.tail.tail
  have hne_ss : NonEof tss := hne.append_right
  have hR3 : (feed tss r).Ready := feed_ready _ _ hne_ss hr
  have hR2 : (feed tds (feed tss r)).Ready := feed_ready _ _ hne_ds hR3
  have hk3 : headKind (feed tss r) = .braceL := by rw [headKind_feed tss _ r hkss]; rfl
  simp only [List.length_append, List.length_cons] at hn
  obtain ⟨c1, h1⟩ := expectKeyword_ok cfg hm "fragment" tF
    (.cons tN (.cons tOn (.cons tT (feed tds (feed tss r))))) cnt hFk ((valueIs_iff hFv _).mpr rfl)
    (by simp [Stream.Ready, hNne])
  have hvon : valueIs tN "on" = false := valueIs_false hNv "on" hon
  obtain ⟨c2, h2⟩ := parseName_ok cfg hm tN nm (.cons tOn (.cons tT (feed tds (feed tss r)))) c1 hNk hNv
    (by simp [Stream.Ready, hOne])
  obtain ⟨c3, h3⟩ := expectKeyword_ok cfg hm "on" tOn (.cons tT (feed tds (feed tss r))) c2 hOnk
    ((valueIs_iff hOnv _).mpr rfl) (by simp [Stream.Ready, hTne])
  obtain ⟨c4, h4⟩ := parseName_ok cfg hm tT tc (feed tds (feed tss r)) c3 hTk hTv hR2
  obtain ⟨cd, hD⟩ := parseDirectives_raw cfg hm false ds hds n tds (feed tss r) c4 (by omega) hkds hne_ds hR3
    (by rw [hk3]; decide) (by rw [hk3]; decide)
  obtain ⟨cs, hS⟩ := parseSS cfg hm ss hssne hss n tss r cd (by omega) hkss hne_ss hr
  have hdirsAst : optListO (if ds = [] then none else some (ds.map Exec.dirAst)) = Exec.dirsAst ds := by
    cases ds <;> simp [optListO, Exec.dirsAst, optL]
  have hnovd : parseVariableDefinitions cfg n { cur := tOn, rest := .cons tT (feed tds (feed tss r)), count := c2 } =
      .ok (none, { cur := tOn, rest := .cons tT (feed tds (feed tss r)), count := c2 }) :=
    noVarDefs cfg hm n _ (by simp [hOnk])
  have hdesc := parseDescription_none cfg
    (PSat cnt (feed ((tF :: tN :: tOn :: tT :: tds) ++ tss) r)) (by simp [feed, hFk]) (by simp [feed, hFk])
  refine ⟨cs, ?_⟩
  simp only [parseFragmentDefinition, bind_eq, hdesc]
  simp only [List.cons_append, feed, feed_append, PSat_cons, h1, parseFragmentName, bind_eq, P.cur, hvon,
    Bool.false_eq_true, ↓reduceIte, h2, parseTypeCondition, pure_eq']
  cases hfa : cfg.fragArgs
  · simp only [Bool.false_eq_true, ↓reduceIte, pure_eq', h3, parseNamedType, bind_eq, h4, mk_namedType, hD, hS,
      mk_fragNode, hdirsAst, PSat_cons]
    simp [Exec.defAst, namedType, Val.nameNode]
  · simp only [↓reduceIte, bind_eq, hnovd, pure_eq', h3, parseNamedType, h4, mk_namedType, hD, hS,
      mk_fragNode, hdirsAst, PSat_cons]
    simp [Exec.defAst, namedType, Val.nameNode, optListO]

end

end Gql.Syntax

namespace Gql.Syntax
open Gql Gql.Text
open Gql.Generated

theorem methodFor_ts_op (ot : List Nat) (h : Exec.isOpType ot) :
    methodFor ParserTables.typeSystemDefinitionMethods (some ot) = none ∧
    methodFor ParserTables.executableDefinitionMethods (some ot) = some "operation_definition" := by
  rcases h with rfl | rfl | rfl <;> exact ⟨by decide, by decide⟩

theorem methodFor_ts_frag :
    methodFor ParserTables.typeSystemDefinitionMethods (some (S "fragment")) = none ∧
    methodFor ParserTables.executableDefinitionMethods (some (S "fragment")) = some "fragment_definition" :=
  ⟨by decide, by decide⟩

theorem dd_op (cfg : Cfg) (n : Nat) : dispatchDefinition cfg n "operation_definition" = parseOperationDefinition cfg n := by
  simp [dispatchDefinition]

theorem dd_frag (cfg : Cfg) (n : Nat) : dispatchDefinition cfg n "fragment_definition" = parseFragmentDefinition cfg n := by
  simp [dispatchDefinition]

/-- `parse_definition` when the current token is a NAME keyword of an executable definition. -/
theorem parseDefinition_kw (cfg : Cfg) (n : Nat) (s : PS) (v : List Nat) (m : String) (hk : s.cur.kind = .name)
    (hv : s.cur.value = some v)
    (h1 : methodFor ParserTables.typeSystemDefinitionMethods (some v) = none)
    (h2 : methodFor ParserTables.executableDefinitionMethods (some v) = some m) :
    parseDefinition cfg n s = dispatchDefinition cfg n m s := by
  simp [parseDefinition, bind_eq, peek_eq, peekDescription, P.cur, pure_eq', hk, hv, h1, h2]

theorem parseDefinition_brace (cfg : Cfg) (n : Nat) (s : PS) (hk : s.cur.kind = .braceL) :
    parseDefinition cfg n s = parseOperationDefinition cfg n s := by
  simp [parseDefinition, bind_eq, peek_eq, hk]

section
variable (cfg : Cfg) (hm : cfg.maxTokens = none)
include hm

theorem parseDef_ok (n : Nat) (d : Def) (h : Exec.defWf d) (toks : List Token) (r : Stream) (cnt : Nat)
    (hn : (Exec.defKvs d).length < n) (hkv : toks.map Token.kv = Exec.defKvs d) (hne : NonEof toks)
    (hr : r.Ready) :
    ∃ c', parseDefinition cfg n (PSat cnt (feed toks r)) = .ok (Exec.defAst cfg.fragArgs d, PSat c' r) := by
  cases d with
  | op ot nm ds ss =>
    obtain ⟨c', hp⟩ := parseOp_ok cfg hm n ot nm ds ss cfg.fragArgs h toks r cnt hn hkv hne hr
    refine ⟨c', ?_⟩
    obtain ⟨hot, _⟩ := h
    by_cases hs : Exec.isShorthand ot nm ds
    · have hkv' : toks.map Token.kv = Exec.ssKvs ss := by simpa [Exec.defKvs, hs] using hkv
      rw [parseDefinition_brace cfg n _ (by
        rw [PSat_cur_kind _ _ (feed_ready _ _ hne hr), headKind_feed toks _ r hkv']; rfl)]
      exact hp
    · have hkv' : ∃ t0 ts, toks = t0 :: ts ∧ t0.kind = .name ∧ t0.value = some ot := by
        simp only [Exec.defKvs, hs, ↓reduceIte, List.cons_append, List.map_eq_cons_iff] at hkv
        obtain ⟨t0, ts, rfl, ht0, _⟩ := hkv
        exact ⟨t0, ts, rfl, (tok_of_kv ht0).1, (tok_of_kv ht0).2⟩
      obtain ⟨t0, ts, rfl, hk0, hv0⟩ := hkv'
      obtain ⟨m1, m2⟩ := methodFor_ts_op ot hot
      rw [parseDefinition_kw cfg n _ ot "operation_definition" (by simp [feed, hk0]) (by simp [feed, hv0]) m1 m2,
        dd_op]
      exact hp
  | frag nm tc ds ss =>
    obtain ⟨c', hp⟩ := parseFrag_ok cfg hm n nm tc ds ss h toks r cnt hn hkv hne hr
    refine ⟨c', ?_⟩
    have hkv' : ∃ t0 ts, toks = t0 :: ts ∧ t0.kind = .name ∧ t0.value = some (S "fragment") := by
      simp only [Exec.defKvs, List.cons_append, List.map_eq_cons_iff] at hkv
      obtain ⟨t0, ts, rfl, ht0, _⟩ := hkv
      exact ⟨t0, ts, rfl, (tok_of_kv ht0).1, (tok_of_kv ht0).2⟩
    obtain ⟨t0, ts, rfl, hk0, hv0⟩ := hkv'
    rw [parseDefinition_kw cfg n _ (S "fragment") "fragment_definition" (by simp [feed, hk0]) (by simp [feed, hv0])
      methodFor_ts_frag.1 methodFor_ts_frag.2, dd_frag]
    exact hp

end

end Gql.Syntax

namespace Gql.Syntax
open Gql Gql.Text

theorem defKvs_head (d : Def) (h : Exec.defWf d) : ∃ k ks, Exec.defKvs d = k :: ks ∧ k.1 ≠ .eof := by
  cases d with
  | op ot nm ds ss =>
    simp only [Exec.defKvs]
    split
    · exact ⟨_, _, rfl, by simp⟩
    · exact ⟨(.name, some ot), (if nm.isEmpty then [] else [(.name, some nm)]) ++ Exec.dirsKvs ds ++ Exec.ssKvs ss,
        by simp, by simp⟩
  | frag nm tc ds ss => exact ⟨_, _, rfl, by simp⟩

theorem defsKvs_length_le (defs : List Def) (h : Exec.defsWf defs) : defs.length ≤ (Exec.defsKvs defs).length := by
  induction defs with
  | nil => simp [Exec.defsKvs]
  | cons d r ih =>
    obtain ⟨k, ks, hk, _⟩ := defKvs_head d h.1
    have := ih h.2
    simp [Exec.defsKvs, hk]; omega

section
variable (cfg : Cfg) (hm : cfg.maxTokens = none)
include hm

theorem defsLoop_ok (defs : List Def) (h : Exec.defsWf defs) : ∀ (n m : Nat) (toks : List Token) (a l cc : Nat)
    (cnt : Nat) (acc : List Ast), (Exec.defsKvs defs).length < n → defs.length < m →
    toks.map Token.kv = Exec.defsKvs defs → NonEof toks →
    ∃ c', untilClose cfg .eof (parseDefinition cfg n) m acc (PSat cnt (feed toks (.eof a l cc))) =
      .ok (acc ++ defs.map (Exec.defAst cfg.fragArgs), PSat c' (.eof a l cc)) := by
  induction defs with
  | nil =>
    intro n m toks a l cc cnt acc _ hmm hkv _
    obtain ⟨m, rfl⟩ : ∃ m', m = m' + 1 := ⟨m - 1, by simp at hmm; omega⟩
    simp only [Exec.defsKvs, List.map_eq_nil_iff] at hkv
    subst hkv
    refine ⟨cnt, ?_⟩
    simp [untilClose, feed, bind_eq, expectOptionalToken, P.cur, PSat, eofToken, advanceLexer, pure_eq']
  | cons d rest ih =>
    intro n m toks a l cc cnt acc hn hmm hkv hne
    obtain ⟨m, rfl⟩ : ∃ m', m = m' + 1 := ⟨m - 1, by simp at hmm; omega⟩
    rw [show Exec.defsKvs (d :: rest) = Exec.defKvs d ++ Exec.defsKvs rest from rfl] at hkv hn
    rw [List.map_eq_append_iff] at hkv
    obtain ⟨td, ts', rfl, hkd, hkr⟩ := hkv
    obtain ⟨k0, ks0, hk0, hk0ne⟩ := defKvs_head d h.1
    have hhead : ∃ t0 td', td = t0 :: td' ∧ t0.kind ≠ .eof := by
      rw [hk0, List.map_eq_cons_iff] at hkd
      obtain ⟨t0, td', rfl, ht0, _⟩ := hkd
      exact ⟨t0, td', rfl, by rw [(tok_of_kv ht0).1]; exact hk0ne⟩
    obtain ⟨t0, td', rfl, ht0⟩ := hhead
    have hready : (feed ts' (.eof a l cc)).Ready := feed_ready _ _ hne.append_right (by simp [Stream.Ready])
    simp only [List.length_append] at hn
    obtain ⟨c1, h1⟩ := parseDef_ok cfg hm n d h.1 (t0 :: td') (feed ts' (.eof a l cc)) cnt (by omega) hkd
      hne.append_left hready
    obtain ⟨c2, h2⟩ := ih h.2 n m ts' a l cc c1 (acc ++ [Exec.defAst cfg.fragArgs d]) (by omega)
      (by simp at hmm; omega) hkr hne.append_right
    have hno : expectOptionalToken cfg .eof (PSat cnt (feed (t0 :: td' ++ ts') (.eof a l cc))) =
        .ok (false, PSat cnt (feed (t0 :: td' ++ ts') (.eof a l cc))) :=
      expectOptionalToken_no cfg .eof _ (by simpa [feed] using ht0)
    refine ⟨c2, ?_⟩
    rw [feed_append] at hno ⊢
    simp only [untilClose, bind_eq, hno, Bool.false_eq_true, ↓reduceIte, h1, h2]
    simp

/-- **Round trip for executable documents (stage 1) at the source level.** -/
theorem parseSource_doc_print (w : Widths) (hw : 4 ≤ w.object)
    (hT : tableOK Generated.escapeTable = true) (hC : tableComplete Generated.escapeTable = true)
    (defs : List Def) (hdne : defs ≠ []) (hwf : Exec.defsWf defs) :
    parseSource .document cfg (Exec.printDoc w defs) = .ok (Exec.docAst cfg.fragArgs defs) := by
  obtain ⟨tks, e, hall, hkv, hek, hne0⟩ := lexAll_of_lexes (lexes_doc w hw hT hC defs hwf)
  have hne : NonEof tks := hne0
  have hstream : streamOf (Exec.printDoc w defs) = feed tks (.eof e.start e.line e.column) := by
    rw [streamOf_of_lexAll _ _ hall, toStream_feed tks e hne hek]
  have hlen : tks.length = (Exec.defsKvs defs).length := by rw [← hkv]; simp
  obtain ⟨d, rest, rfl⟩ := List.exists_cons_of_ne_nil hdne
  rw [show Exec.defsKvs (d :: rest) = Exec.defKvs d ++ Exec.defsKvs rest from rfl] at hkv hlen
  rw [List.map_eq_append_iff] at hkv
  obtain ⟨td, ts', rfl, hkd, hkr⟩ := hkv
  have hfuel : parseFuel (feed (td ++ ts') (.eof e.start e.line e.column)) = (td ++ ts').length + 3 := by
    simp [parseFuel, feed_length]
  have hready : (feed ts' (.eof e.start e.line e.column)).Ready :=
    feed_ready _ _ hne.append_right (by simp [Stream.Ready])
  have hreadyAll : (feed (td ++ ts') (.eof e.start e.line e.column)).Ready :=
    feed_ready _ _ hne (by simp [Stream.Ready])
  simp only [List.length_append] at hlen
  obtain ⟨c0, h0⟩ := advance_PSat cfg hm sofToken (feed (td ++ ts') (.eof e.start e.line e.column)) 0
    (by decide) hreadyAll
  obtain ⟨c1, h1⟩ := parseDef_ok cfg hm ((td ++ ts').length + 3) d hwf.1 td
    (feed ts' (.eof e.start e.line e.column)) c0 (by simp only [List.length_append]; omega) hkd hne.append_left hready
  have hl := defsKvs_length_le rest hwf.2
  obtain ⟨c2, h2⟩ := defsLoop_ok cfg hm rest hwf.2 ((td ++ ts').length + 3) ((td ++ ts').length + 3) ts'
    e.start e.line e.column c1 [Exec.defAst cfg.fragArgs d] (by simp only [List.length_append]; omega)
    (by simp only [List.length_append]; omega) hkr hne.append_right
  have hsof : expectToken cfg .sof (initState (feed (td ++ ts') (.eof e.start e.line e.column))) =
      .ok (sofToken, PSat c0 (feed (td ++ ts') (.eof e.start e.line e.column))) := by
    simp only [expectToken, bind_eq, P.cur, initState, sofToken, ↓reduceIte, pure_eq']
    simp only [sofToken] at h0
    rw [h0]
  unfold parseSource parseStream parseStreamWith
  simp only [show (Entry.document = Entry.schemaCoordinate) = False by simp, ↓reduceIte, hstream, runEntry, hfuel]
  rw [feed_append] at hsof ⊢
  simp only [parseDocument, parseMany, bind_eq, hsof, h1, h2, pure_eq', mk_docNode]
  simp [Exec.docAst]

end

end Gql.Syntax
