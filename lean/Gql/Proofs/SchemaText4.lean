import Gql.Proofs.SchemaText3
/-!
C17, text level, part 4: every definition `print_schema` prints lexes to the tokens of its
translated definition.
-/
namespace Gql.Types.PrintSchema
open Gql Gql.Text Gql.Syntax Gql.Generated

theorem S_amp : S " & " = [32, 38, 32] := by decide
theorem S_pipe : S " | " = [32, 124, 32] := by decide

/-- `print_implemented_interfaces` -/
theorem lexes_printImplemented (is : List Str) (h : Exec.namesWf is) :
    Lexes true (printImplemented is) (Exec.implKvs is) ∧ SafeStart (printImplemented is) := by
  by_cases hx : is = []
  · subst hx
    exact ⟨by simpa [printImplemented, Exec.implKvs] using lx_nil, by simpa [printImplemented] using SafeStart.nil⟩
  · have hemp : is.isEmpty = false := by cases is <;> simp_all
    have e1 : S " implements " = [32] ++ (S "implements" ++ [32]) := by decide
    have hd := lexes_delim 38 .amp (by decide) is hx h
    have h1 := Lexes.append_l (Lexes.append_ign (Lexes.name (S "implements") (by decide)) ign32 (by simp)) hd
    have h2 := lx_ign ign32 h1
    refine ⟨?_, by simp only [printImplemented, hemp, Bool.false_eq_true, ↓reduceIte, e1]; exact SafeStart.cons (by decide)⟩
    simpa [printImplemented, hemp, Exec.implKvs, e1, S_amp, List.append_assoc] using h2

/-- ` = A | B` of `print_union` -/
theorem lexes_unionMembers (ms : List Str) (h : Exec.namesWf ms) :
    Lexes true (if ms.isEmpty then [] else S " = " ++ joinWith (S " | ") ms) (Exec.unionKvs ms) ∧
      SafeStart (if ms.isEmpty then [] else S " = " ++ joinWith (S " | ") ms) := by
  by_cases hx : ms = []
  · subst hx
    exact ⟨by simpa [Exec.unionKvs] using lx_nil, by simpa using SafeStart.nil⟩
  · have hemp : ms.isEmpty = false := by cases ms <;> simp_all
    have hd := lexes_delim 124 .pipe (by decide) ms hx h
    have h1 := Lexes.append_l (Lexes.punct 61 .equals (by decide)) (lx_ign ign32 hd)
    have h2 := lx_ign ign32 h1
    refine ⟨?_, by simp only [hemp, Bool.false_eq_true, ↓reduceIte, S_eq]; exact SafeStart.cons (by decide)⟩
    simpa [hemp, Exec.unionKvs, S_eq, S_pipe, List.append_assoc] using h2

section
variable (w : Widths) (hw : 4 ≤ w.object)
variable (hT : tableOK Generated.escapeTable = true) (hC : tableComplete Generated.escapeTable = true)
include hw hT hC

/-- `print_type` -/
theorem lexes_printTypeDef (dd : Bool) (t : TypeDef) (h : Exec.tdefWf dd (typeTDef t)) :
    Lexes true (printTypeDef w t) (Exec.tdefKvs (typeTDef t)) := by
  cases t with
  | scalar n d u =>
    simp only [typeTDef, typeToDef, typeNodeToTDef, Exec.tdefWf] at h
    obtain ⟨hdesc, hn, hds⟩ := h
    have hd := lexes_printDescription w hw hT hC d hdesc 0 true
    obtain ⟨hdir, hsafe⟩ := lexes_wrapDirs w hw hT hC _ hds
    have e1 : S "scalar " = S "scalar" ++ [32] := by decide
    have h1 := lx_app (lexes_kwName (S "scalar") n (by decide) hn) hdir hsafe
    have := Lexes.append_l hd h1
    simpa [printTypeDef, typeTDef, typeToDef, typeNodeToTDef, Exec.tdefKvs, printSpecifiedBy_eq w, e1,
      List.append_assoc] using this
  | object n d is fs =>
    simp only [typeTDef, typeToDef, typeNodeToTDef, Exec.tdefWf] at h
    obtain ⟨hdesc, hn, hifs, _, hfs⟩ := h
    have hd := lexes_printDescription w hw hT hC d hdesc 0 true
    obtain ⟨himp, himps⟩ := lexes_printImplemented is hifs
    obtain ⟨hblk, hblks⟩ := lexes_printBlock (printFieldLine w) (fun f => Exec.fdKvs (toFDef (fieldToFD f))) fs
      (fun b f hf => lexes_printFieldLine w hw hT hC b f
        (hfs _ (by simp only [List.map_map, List.mem_map]; exact ⟨f, hf, rfl⟩)))
    have e1 : S "type " = S "type" ++ [32] := by decide
    have h1 := lx_app (lx_app (lexes_kwName (S "type") n (by decide) hn) himp himps) hblk hblks
    have := Lexes.append_l hd h1
    simpa [printTypeDef, printFields, typeTDef, typeToDef, typeNodeToTDef, Exec.tdefKvs, Exec.objKw, Exec.dirsKvs, e1,
      fdsKvs_eq, List.flatMap_map, List.append_assoc] using this
  | interface n d is fs =>
    simp only [typeTDef, typeToDef, typeNodeToTDef, Exec.tdefWf] at h
    obtain ⟨hdesc, hn, hifs, _, hfs⟩ := h
    have hd := lexes_printDescription w hw hT hC d hdesc 0 true
    obtain ⟨himp, himps⟩ := lexes_printImplemented is hifs
    obtain ⟨hblk, hblks⟩ := lexes_printBlock (printFieldLine w) (fun f => Exec.fdKvs (toFDef (fieldToFD f))) fs
      (fun b f hf => lexes_printFieldLine w hw hT hC b f
        (hfs _ (by simp only [List.map_map, List.mem_map]; exact ⟨f, hf, rfl⟩)))
    have e1 : S "interface " = S "interface" ++ [32] := by decide
    have h1 := lx_app (lx_app (lexes_kwName (S "interface") n (by decide) hn) himp himps) hblk hblks
    have := Lexes.append_l hd h1
    simpa [printTypeDef, printFields, typeTDef, typeToDef, typeNodeToTDef, Exec.tdefKvs, Exec.objKw, Exec.dirsKvs, e1,
      fdsKvs_eq, List.flatMap_map, List.append_assoc] using this
  | union n d ms =>
    simp only [typeTDef, typeToDef, typeNodeToTDef, Exec.tdefWf] at h
    obtain ⟨hdesc, hn, _, hms⟩ := h
    have hd := lexes_printDescription w hw hT hC d hdesc 0 true
    obtain ⟨hm, hmsafe⟩ := lexes_unionMembers ms hms
    have e1 : S "union " = S "union" ++ [32] := by decide
    have h1 := lx_app (lexes_kwName (S "union") n (by decide) hn) hm hmsafe
    have := Lexes.append_l hd h1
    simpa [printTypeDef, typeTDef, typeToDef, typeNodeToTDef, Exec.tdefKvs, Exec.dirsKvs, e1,
      List.append_assoc] using this
  | enum n d vs =>
    simp only [typeTDef, typeToDef, typeNodeToTDef, Exec.tdefWf] at h
    obtain ⟨hdesc, hn, _, hvs⟩ := h
    have hd := lexes_printDescription w hw hT hC d hdesc 0 true
    obtain ⟨hblk, hblks⟩ := lexes_printBlock (printEnumLine w) (fun v => Exec.evKvs (toEVDef (enumValToEVD v))) vs
      (fun b v hv => lexes_printEnumLine w hw hT hC b v
        (hvs _ (by simp only [List.map_map, List.mem_map]; exact ⟨v, hv, rfl⟩)))
    have e1 : S "enum " = S "enum" ++ [32] := by decide
    have h1 := lx_app (lexes_kwName (S "enum") n (by decide) hn) hblk hblks
    have := Lexes.append_l hd h1
    simpa [printTypeDef, typeTDef, typeToDef, typeNodeToTDef, Exec.tdefKvs, Exec.dirsKvs, e1,
      evsKvs_eq, List.flatMap_map, List.append_assoc] using this
  | input n d oneOf fs =>
    simp only [typeTDef, typeToDef, typeNodeToTDef, Exec.tdefWf] at h
    obtain ⟨hdesc, hn, hds, hfs⟩ := h
    have hd := lexes_printDescription w hw hT hC d hdesc 0 true
    obtain ⟨hdir, hsafe⟩ := lexes_wrapDirs w hw hT hC _ hds
    obtain ⟨hblk, hblks⟩ := lexes_printBlock (printInputLine w) (fun a => Exec.ivdKvs (toVarDef (argToIVD a))) fs
      (fun b a ha => lexes_printInputLine w hw hT hC b a
        (hfs _ (by simp only [List.map_map, List.mem_map]; exact ⟨a, ha, rfl⟩)))
    have e1 : S "input " = S "input" ++ [32] := by decide
    have e2 : (if oneOf then S " @oneOf" else []) =
        wrap [32] (Exec.printDirs w ((if oneOf then [(⟨SchemaConsts.oneOfName, []⟩ : DirApp)] else []).map toDir)) := by
      cases oneOf
      · simp [Exec.printDirs, join, joinWith, wrap]
      · simp [Exec.printDirs, Exec.printDir, toDir, join, joinWith, wrap, Val.printFields]
        decide
    have h1 := lx_app (lx_app (lexes_kwName (S "input") n (by decide) hn) hdir hsafe) hblk hblks
    have := Lexes.append_l hd h1
    simpa [printTypeDef, typeTDef, typeToDef, typeNodeToTDef, Exec.tdefKvs, e1, e2,
      ivdsKvs_eq, List.flatMap_map, List.append_assoc] using this

/-- `print_directive` -/
theorem lexes_printDirective (dd : Bool) (d : Directive) (h : Exec.tdefWf dd (directiveTDef d)) :
    Lexes true (printDirective w d) (Exec.tdefKvs (directiveTDef d)) := by
  simp only [directiveTDef, Exec.tdefWf] at h
  obtain ⟨hdesc, hn, hargs, hds, _, hlne, hlocs⟩ := h
  have hlw : Exec.namesWf d.locations := fun l hl => locations_valid l (hlocs l hl)
  have hd := lexes_printDescription w hw hT hC d.desc hdesc 0 true
  obtain ⟨hA, hAs⟩ := lexes_printArgs w hw hT hC d.args 0 hargs
  obtain ⟨hdep, hsafe⟩ := lexes_wrapDirs w hw hT hC _ hds
  have h0 := Lexes.append_l (Lexes.append_ign (Lexes.name (S "directive") (by decide)) ign32 (by simp))
    (Lexes.punct 64 .at (by decide))
  have hB := lx_app (lx_app (Lexes.name d.name hn) hA hAs) hdep hsafe
  have hR : Lexes true (if d.repeatable then S " repeatable" else [])
      (if d.repeatable then [(.name, some (S "repeatable"))] else []) ∧
      SafeStart (if d.repeatable then S " repeatable" else []) := by
    cases d.repeatable
    · exact ⟨by simpa using lx_nil, by simpa using SafeStart.nil⟩
    · simp only [↓reduceIte, S_repeatable]
      exact ⟨lx_ign ign32 (Lexes.name _ (by decide)), SafeStart.cons (by decide)⟩
  have e1 : S " on " = [32] ++ (S "on" ++ [32]) := by decide
  have hE : Lexes true (S " on " ++ joinWith (S " | ") d.locations)
      ((.name, some (S "on")) :: Exec.delimKvs .pipe d.locations) := by
    have := lx_ign ign32 (Lexes.append_l (Lexes.append_ign (Lexes.name (S "on") (by decide)) ign32 (by simp))
      (lexes_delim 124 .pipe (by decide) d.locations hlne hlw))
    simpa [e1, S_pipe, List.append_assoc] using this
  have hF := lx_app (lx_app hB hR.1 hR.2) hE (by rw [e1]; exact SafeStart.cons (by decide))
  have := Lexes.append_l hd (Lexes.append_l h0 hF)
  simpa [printDirective, directiveTDef, Exec.tdefKvs, printDeprecated_eq w, S_directive,
    List.append_assoc] using this

omit hw hT hC in
theorem lexes_printRoot (kw : String) (o : Op) (hkw : S kw = opName o) (r : Option Str)
    (h : ∀ n, r = some n → Gql.Text.validName n = true) :
    Lexes false (printRoot kw r) ((toOts (opEntry o r)).flatMap Exec.otKvs) := by
  cases r with
  | none => simpa [printRoot, opEntry, toOts] using Lexes.nil
  | some n =>
    have hk : Gql.Text.validName (S kw) = true := by rw [hkw]; cases o <;> decide
    have h1 := Lexes.append_l (Lexes.append_punct (Lexes.name (S kw) hk) 58 .colon (by decide) (by decide))
      (Lexes.ignorable [32] ign32)
    have h2 := Lexes.append_l h1 (Lexes.append_ign (Lexes.name n (h n rfl)) ign10 (by simp))
    have h3 := Lexes.append_l (Lexes.ignorable _ ignS2) h2
    simpa [printRoot, opEntry, toOts, Exec.otKvs, S_colon, hkw, List.append_assoc] using h3

/-- `print_schema_definition`: nothing is printed and there is no definition, or the printed
block lexes to the tokens of the one `schema` definition. -/
theorem lexes_printSchemaDefinition (dd : Bool) (s : Schema) (h : ∀ td ∈ schemaDefTDef s, Exec.tdefWf dd td) :
    (printSchemaDefinition w s = none ∧ schemaDefTDef s = []) ∨
    ∃ T td, printSchemaDefinition w s = some T ∧ schemaDefTDef s = [td] ∧ Lexes true T (Exec.tdefKvs td) := by
  by_cases c1 : (s.query.isNone && s.mutation.isNone && s.subscription.isNone) = true
  · left; simp [printSchemaDefinition, schemaDefTDef, schemaDefOf, c1]
  · by_cases c2 : (s.desc.isNone && hasDefaultRoots s) = true
    · left; simp [printSchemaDefinition, schemaDefTDef, schemaDefOf, c1, c2]
    · right
      have e : schemaDefTDef s = [TDef.schema (toDesc (descNode s.desc)) [] (toOts (opEntry Op.query s.query ++
          opEntry Op.mutation s.mutation ++ opEntry Op.subscription s.subscription))] := by
        simp [schemaDefTDef, schemaDefOf, c1, c2]
      have ep : printSchemaDefinition w s = some (printDescription w s.desc ++ S "schema {\n" ++
          printRoot "query" s.query ++ printRoot "mutation" s.mutation ++ printRoot "subscription" s.subscription ++
          S "}") := by
        simp [printSchemaDefinition, c1, c2]
      refine ⟨_, _, ep, e, ?_⟩
      have hwf := h _ (by rw [e]; exact List.mem_singleton.mpr rfl)
      simp only [Exec.tdefWf] at hwf
      obtain ⟨hdesc, _, hne, hots⟩ := hwf
      have hd := lexes_printDescription w hw hT hC s.desc hdesc 0 true
      have hv : ∀ (o : Op) (r : Option Str), (∀ ot ∈ toOts (opEntry o r), Exec.isOpType ot.1 ∧ Gql.Text.validName ot.2 = true) →
          ∀ n, r = some n → Gql.Text.validName n = true := by
        intro o r hh n hn
        subst hn
        exact (hh (opName o, n) (by simp [toOts, opEntry])).2
      have hq := lexes_printRoot "query" .query rfl s.query
        (hv .query s.query (fun ot hot => hots ot (by simp only [toOts, List.map_append, List.mem_append] at hot ⊢; exact Or.inl (Or.inl hot))))
      have hm := lexes_printRoot "mutation" .mutation rfl s.mutation
        (hv .mutation s.mutation (fun ot hot => hots ot (by simp only [toOts, List.map_append, List.mem_append] at hot ⊢; exact Or.inl (Or.inr hot))))
      have hs := lexes_printRoot "subscription" .subscription rfl s.subscription
        (hv .subscription s.subscription (fun ot hot => hots ot (by simp only [toOts, List.map_append, List.mem_append] at hot ⊢; exact Or.inr hot)))
      have e1 : S "schema {\n" = S "schema" ++ ([32] ++ ([123] ++ [10])) := by decide
      have e2 : S "}" = [125] := by decide
      have h0 := Lexes.append_l (Lexes.append_l (Lexes.append_ign (Lexes.name (S "schema") (by decide)) ign32 (by simp))
        (Lexes.punct 123 .braceL (by decide))) (Lexes.ignorable [10] ign10)
      have h1 := Lexes.append_l (Lexes.append_l (Lexes.append_l (Lexes.append_l h0 hq) hm) hs)
        (Lexes.punct 125 .braceR (by decide))
      have h2 := (Lexes.append_l hd h1).weaken true
      have hemp : (toOts (opEntry Op.query s.query ++ opEntry Op.mutation s.mutation ++
          opEntry Op.subscription s.subscription)).isEmpty = false := by
        cases hx : toOts (opEntry Op.query s.query ++ opEntry Op.mutation s.mutation ++
          opEntry Op.subscription s.subscription) with
        | nil => exact absurd hx hne
        | cons a r => rfl
      simp only [Exec.tdefKvs, Exec.bracketKvs, hemp, Bool.false_eq_true, ↓reduceIte, otsKvs_eq]
      simpa [toOts, e1, e2, Exec.dirsKvs, List.flatMap_append, List.append_assoc] using h2

/-- **The whole text.**  `print_schema`'s text lexes to exactly the tokens of the translated
document, provided the translated definitions are well formed for C08. -/
theorem lexes_printSchemaText (dd : Bool) (s : Schema) (h : ∀ td ∈ schemaTDefs s, Exec.tdefWf dd td) :
    Lexes true (printSchemaText w s) (Exec.gdefsKvs true ((schemaTDefs s).map GDef.t)) := by
  rw [gdefsKvs_t]
  have hD : ∀ d ∈ s.directives, Lexes true (printDirective w d) (Exec.tdefKvs (directiveTDef d)) :=
    fun d hd => lexes_printDirective w hw hT hC dd d (h _ (by simp [schemaTDefs]; exact Or.inr (Or.inl ⟨d, hd, rfl⟩)))
  have hTy : ∀ t ∈ s.types, Lexes true (printTypeDef w t) (Exec.tdefKvs (typeTDef t)) :=
    fun t ht => lexes_printTypeDef w hw hT hC dd t (h _ (by simp [schemaTDefs]; exact Or.inr (Or.inr ⟨t, ht, rfl⟩)))
  have hrest := fun (p0 : List (List Nat × List KV)) (hp0 : ∀ p ∈ p0, Lexes true p.1 p.2) =>
    lexes_joinTexts (p0 ++ s.directives.map (fun d => (printDirective w d, Exec.tdefKvs (directiveTDef d))) ++
      s.types.map (fun t => (printTypeDef w t, Exec.tdefKvs (typeTDef t))))
      (by
        intro p hp
        simp only [List.mem_append, List.mem_map] at hp
        rcases hp with (hp | ⟨d, hd, rfl⟩) | ⟨t, ht, rfl⟩
        · exact hp0 p hp
        · exact hD d hd
        · exact hTy t ht)
      [10, 10] (by intro c hc; simp at hc; simp [hc]) (by simp)
  rcases lexes_printSchemaDefinition w hw hT hC dd s (fun td htd => h td (by simp [schemaTDefs, htd])) with
    ⟨h1, h2⟩ | ⟨T, td, h1, h2, hL⟩
  · have := hrest [] (by simp)
    simpa [printSchemaText, schemaTDefs, h1, h2, List.flatMap_append, List.flatMap_map, Function.comp_def] using this
  · have := hrest [(T, Exec.tdefKvs td)] (by simp; exact hL)
    simpa [printSchemaText, schemaTDefs, h1, h2, List.flatMap_append, List.flatMap_map, Function.comp_def] using this

end

end Gql.Types.PrintSchema
