import Gql.Proofs.SchemaExt1
namespace Gql.Types
open Gql Gql.Generated

/-- Componentwise concatenation of what two documents contribute; a later schema definition wins. -/
def Parts.merge (p q : Parts) : Parts :=
  { typeDefs := p.typeDefs ++ q.typeDefs
    typeExts := p.typeExts ++ q.typeExts
    dirDefs := p.dirDefs ++ q.dirDefs
    dirExts := p.dirExts ++ q.dirExts
    schemaDef := match q.schemaDef with
      | some d => some d
      | none => p.schemaDef
    schemaExts := p.schemaExts ++ q.schemaExts }

theorem merge_empty (q : Parts) : Parts.merge {} q = q := by
  cases q with
  | mk a b c d e f => cases e <;> simp [Parts.merge]

theorem collectStep_merge (p q : Parts) (d : Def) :
    Parts.merge (collectStep p d) q = Parts.merge p (Parts.merge (collectStep {} d) q) := by
  cases d <;> cases hq : q.schemaDef <;> simp [collectStep, Parts.merge, hq]

theorem foldl_collectStep (p : Parts) (ds : List Def) :
    ds.foldl collectStep p = Parts.merge p (collect ds) := by
  induction ds generalizing p with
  | nil => cases p with
    | mk a b c d e f => simp [collect, Parts.merge]
  | cons d ds ih =>
    simp only [List.foldl_cons, collect]
    rw [ih (collectStep p d), ih (collectStep {} d), collectStep_merge]

/-- `extend_schema_args` collects from `A ++ B` what it collects from `A` and from `B`. -/
theorem collect_append (A B : List Def) : collect (A ++ B) = Parts.merge (collect A) (collect B) := by
  unfold collect
  rw [List.foldl_append]
  exact foldl_collectStep _ B

end Gql.Types

namespace Gql.Types
open Gql Gql.Generated

theorem mapMOut_congr {α β : Type} (f g : α → B β) (xs : List α) (h : ∀ x ∈ xs, f x = g x) :
    mapMOut f xs = mapMOut g xs := by
  induction xs with
  | nil => rfl
  | cons x xs ih =>
    simp only [mapMOut]
    rw [h x (by simp), ih (fun y hy => h y (by simp [hy]))]

/-- Mapping `f` then `g` over the results is mapping their composition. -/
theorem mapMOut_comp {α β γ : Type} (f : α → B β) (g : β → B γ) (h : α → β → B γ) (xs : List α) (ys : List β)
    (hf : mapMOut f xs = .ok ys) (hh : ∀ x ∈ xs, ∀ y, f x = .ok y → h x y = g y) :
    mapMOut (fun x => andThen (f x) (h x)) xs = mapMOut g ys := by
  induction xs generalizing ys with
  | nil =>
    simp only [mapMOut] at hf
    cases hf; rfl
  | cons x xs ih =>
    simp only [mapMOut] at hf ⊢
    cases hx : f x with
    | ok y =>
      rw [hx] at hf
      cases hxs : mapMOut f xs with
      | ok ys' =>
        rw [hxs] at hf
        cases hf
        have e : andThen (Out.ok y) (h x) = g y := hh x (by simp) y hx
        simp only [mapMOut]
        rw [e, ih ys' hxs (fun z hz => hh z (by simp [hz]))]
      | err e => rw [hxs] at hf; cases hf
      | crash c => rw [hxs] at hf; cases hf
    | err e => rw [hx] at hf; cases hf
    | crash c => rw [hx] at hf; cases hf

theorem mapMOut_keys {α β : Type} (f : α → B β) (k1 : α → Str) (k2 : β → Str) (xs : List α) (ys : List β)
    (hf : mapMOut f xs = .ok ys) (hk : ∀ x ∈ xs, ∀ y, f x = .ok y → k2 y = k1 x) :
    ys.map k2 = xs.map k1 := by
  induction xs generalizing ys with
  | nil => simp only [mapMOut] at hf; cases hf; rfl
  | cons x xs ih =>
    simp only [mapMOut] at hf
    cases hx : f x with
    | ok y =>
      rw [hx] at hf
      cases hxs : mapMOut f xs with
      | ok ys' =>
        rw [hxs] at hf
        cases hf
        simp only [List.map_cons]
        rw [hk x (by simp) y hx, ih ys' hxs (fun z hz => hk z (by simp [hz]))]
      | err e => rw [hxs] at hf; cases hf
      | crash c => rw [hxs] at hf; cases hf
    | err e => rw [hx] at hf; cases hf
    | crash c => rw [hx] at hf; cases hf

theorem extendType_name_kind (t t' : TypeDef) (e : List TypeNode) (h : extendType t e = .ok t') :
    t'.name = t.name ∧ t'.kind = t.kind := by
  cases t <;> simp only [extendType] at h <;>
    first
      | (cases h; exact ⟨rfl, rfl⟩)
      | (split at h <;> first | (cases h; exact ⟨rfl, rfl⟩) | cases h)

theorem buildNamedType_name_kind (d : Option DescNode) (node : TypeNode) (e : List TypeNode) (t : TypeDef)
    (h : buildNamedType d node e = .ok t) : t.name = node.name ∧ t.kind = node.body.kind := by
  unfold buildNamedType at h
  cases hb : node.body <;> rw [hb] at h <;> simp only [] at h
  · split at h
    · exact extendType_name_kind _ _ _ h
    · cases h
    · cases h
  all_goals exact extendType_name_kind _ _ _ h

theorem extendDirective_name (x : List (Str × List DirApp)) (d d' : Directive) (h : extendDirective x d = .ok d') :
    d'.name = d.name := by
  unfold extendDirective at h
  split at h
  · cases h; rfl
  · split at h <;> first | (cases h; rfl) | cases h

end Gql.Types
