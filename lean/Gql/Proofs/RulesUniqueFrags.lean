import Gql.Proofs.RulesUniqueOps
/-!
C12 — `rule_iff_spec` for UniqueFragmentNames (same shape as UniqueOperationNames; a fragment definition always has
a name, a missing one is the crash marker).
-/
namespace Gql.Validation.Rules
open Gql.Validation
variable {τ : Type}

/-- `enter_operation_definition` / `enter_fragment_definition` of UniqueFragmentNames on the node object `n` -/
def frStep (s : RS) (n : ATree) : RS × List RErr :=
  if n.kind == "fragment_definition" then
    match n.kid "name" with
    | some nm => ({ s with known := (uniqueStep "UniqueFragmentNamesRule" s.known nm).1 }, (uniqueStep "UniqueFragmentNamesRule" s.known nm).2)
    | none => (s, [RErr.crash "UniqueFragmentNamesRule"])
  else (s, [])

def foldFr : RS → List ATree → RS × List RErr
  | s, [] => (s, [])
  | s, n :: ns => ((foldFr (frStep s n).1 ns).1, (frStep s n).2 ++ (foldFr (frStep s n).1 ns).2)

theorem foldFr_append (s : RS) (a b : List ATree) :
    foldFr s (a ++ b) = ((foldFr (foldFr s a).1 b).1, (foldFr s a).2 ++ (foldFr (foldFr s a).1 b).2) := by
  induction a generalizing s with
  | nil => simp [foldFr]
  | cons x xs ih => simp [foldFr, ih, List.append_assoc]

theorem ufn_step (doc n : ATree) (s : RS) (ti : TI τ) (hfind : doc.find n.info.id = some n) (_hd : isDef n.info.kind = true) :
    (uniqueFragmentNames (τ := τ) doc).step s .enter n.info ti = (Action.skip, (frStep s n).1, (frStep s n).2) := by
  simp only [uniqueFragmentNames, withNode, hfind, frStep, ATree.kind]
  by_cases hop : (n.info.kind == "fragment_definition") = true
  · cases hnm : n.kid "name" <;> simp [hop]
  · simp [hop]

theorem ufn_trav (doc : ATree) (D : Driver τ) :
    (∀ t : ATree, (∀ n ∈ t.nodes, doc.find n.info.id = some n) → t.ids.Nodup →
      ∀ (ti : TI τ) (m : Member τ RS RErr), m.rule = uniqueFragmentNames doc → m.skipping = .none →
        (Member.trav D ti m t.erase).rule = uniqueFragmentNames doc ∧ (Member.trav D ti m t.erase).skipping = .none ∧
        (Member.trav D ti m t.erase).st = (foldFr m.st (outer t)).1 ∧
        (Member.trav D ti m t.erase).errs = m.errs ++ (foldFr m.st (outer t)).2) ∧
    (∀ ts : List ATree, (∀ n ∈ ATree.nodesList ts, doc.find n.info.id = some n) → (ATree.idsList ts).Nodup →
      ∀ (ti : TI τ) (m : Member τ RS RErr), m.rule = uniqueFragmentNames doc → m.skipping = .none →
        (Member.travList D ti m (ATree.eraseList ts)).rule = uniqueFragmentNames doc ∧
        (Member.travList D ti m (ATree.eraseList ts)).skipping = .none ∧
        (Member.travList D ti m (ATree.eraseList ts)).st = (foldFr m.st (outerList ts)).1 ∧
        (Member.travList D ti m (ATree.eraseList ts)).errs = m.errs ++ (foldFr m.st (outerList ts)).2) := by
  apply ATree.induct
  · intro i f v cs ih hfind hnd ti m hr hs
    simp only [ATree.ids, List.nodup_cons] at hnd
    simp only [ATree.nodes, List.mem_cons, forall_eq_or_imp] at hfind
    rw [ATree.erase, Member.trav, outer]
    have hE : m.rule.hEnter i.kind = isDef i.kind := by rw [hr]; rfl
    have hL : ∀ k, m.rule.hLeave k = false := by intro k; rw [hr]; rfl
    by_cases hd : isDef i.kind = true
    · -- the rule handles the node and answers SKIP
      have hst := ufn_step (τ := τ) doc (.node i f v cs) m.st (D.enter ti i) hfind.1 hd
      simp only [ATree.info] at hst
      have hnot : i ∉ Tree.infosList (ATree.eraseList cs) := by
        intro hmem
        rw [ATree.infos_erase.2] at hmem
        obtain ⟨n, hn, hni⟩ := List.mem_map.mp hmem
        have := ATree.id_mem_ids.2 cs n hn
        rw [ATree.id, hni] at this
        exact hnd.1 this
      have hm1 : Member.enter (D.enter ti i) i m =
          ({ m with st := (frStep m.st (.node i f v cs)).1, skipping := .node i,
                    calls := m.calls ++ [⟨.enter, i, D.enter ti i⟩], errs := m.errs ++ (frStep m.st (.node i f v cs)).2 },
           (frStep m.st (.node i f v cs)).2) := by
        unfold Member.enter
        rw [hE, hd, hr, hst]
        simp [hs, Member.skipOf]
      rw [hm1]
      simp only
      rw [(Member.trav_skipping D i).2 _ _ _ rfl hnot]
      simp only [hd, if_true, foldFr, List.append_nil]
      simp [Member.leave, hr]
    · have hd' : isDef i.kind = false := by simpa using hd
      have hm1 : Member.enter (D.enter ti i) i m = (m, []) := by
        unfold Member.enter
        simp [hE, hd']
      rw [hm1]
      simp only [hd', Bool.false_eq_true, if_false]
      obtain ⟨c1, c2, c3, c4⟩ := ih hfind.2 hnd.2 (D.enter ti i) m hr hs
      have hl := Member.leave_unhandled' (tiTravList D (D.enter ti i) (ATree.eraseList cs)) i _ c2 (by rw [c1]; rfl)
      rw [hl]
      exact ⟨c1, c2, c3, c4⟩
  · intro _ _ ti m hr hs
    simp [ATree.eraseList, Member.travList, outerList, foldFr, hr, hs]
  · intro t ts iht ihts hfind hnd ti m hr hs
    simp only [ATree.idsList, List.nodup_append] at hnd
    simp only [ATree.nodesList, List.mem_append] at hfind
    rw [ATree.eraseList, Member.travList, outerList, foldFr_append]
    obtain ⟨a1, a2, a3, a4⟩ := iht (fun n hn => hfind n (Or.inl hn)) hnd.1 ti m hr hs
    obtain ⟨b1, b2, b3, b4⟩ := ihts (fun n hn => hfind n (Or.inr hn)) hnd.2.1 (tiTrav D ti t.erase) _ a1 a2
    refine ⟨b1, b2, ?_, ?_⟩
    · rw [b3, a3]
    · rw [b4, a4, a3]; simp [List.append_assoc]


/-- the names of the fragment definitions among `ns`, in order -/
def frNames (ns : List ATree) : List String :=
  (ns.filter (fun n => n.kind == "fragment_definition")).filterMap (fun n => (n.kid "name").map (·.value))

theorem foldFr_errs_nil (ns : List ATree) : ∀ s : RS,
    (foldFr s ns).2 = [] ↔
      (∀ n ∈ ns, n.kind = "fragment_definition" → (n.kid "name").isSome = true) ∧
      (frNames ns).Nodup ∧ ∀ x ∈ frNames ns, lookupName x s.known = none := by
  induction ns with
  | nil => intro s; simp [foldFr, frNames]
  | cons n ns ih =>
    intro s
    rw [foldFr]
    simp only [List.append_eq_nil_iff]
    rw [ih]
    by_cases hop : (n.kind == "fragment_definition") = true
    · have hk : n.kind = "fragment_definition" := by simpa using hop
      cases hnm : n.kid "name" with
      | none =>
        have h1 : (frStep s n).2 ≠ [] := by simp [frStep, hop, hnm]
        constructor
        · rintro ⟨h, _⟩; exact absurd h h1
        · rintro ⟨h, _⟩
          have := h n (List.mem_cons_self) hk
          rw [hnm] at this; simp at this
      | some nm =>
        have h2 : frNames (n :: ns) = nm.value :: frNames ns := by simp [frNames, hop, hnm]
        have h3 : (∀ n' ∈ n :: ns, n'.kind = "fragment_definition" → (n'.kid "name").isSome = true) ↔
            (∀ n' ∈ ns, n'.kind = "fragment_definition" → (n'.kid "name").isSome = true) := by
          simp [hnm]
        rw [h2, h3]
        cases hl : lookupName nm.value s.known with
        | some prev =>
          have h1 : (frStep s n).2 ≠ [] := by simp [frStep, hop, hnm, uniqueStep, hl]
          constructor
          · rintro ⟨h, _⟩; exact absurd h h1
          · rintro ⟨_, _, h⟩
            have := h nm.value (List.mem_cons_self)
            rw [hl] at this; simp at this
        | none =>
          have h1 : frStep s n = ({ s with known := s.known ++ [(nm.value, nm.id)] }, []) := by
            simp [frStep, hop, hnm, uniqueStep, hl]
          rw [h1]
          simp only [List.nodup_cons, List.mem_cons, forall_eq_or_imp, true_and, lookupName_snoc]
          constructor
          · rintro ⟨hall, hnd, h⟩
            refine ⟨hall, ⟨?_, hnd⟩, hl, fun x hx => (h x hx).1⟩
            intro hmem
            exact (h _ hmem).2 rfl
          · rintro ⟨hall, ⟨hni, hnd⟩, _, h⟩
            refine ⟨hall, hnd, fun x hx => ⟨h x hx, ?_⟩⟩
            intro he
            exact hni (he ▸ hx)
    · have hop' : (n.kind == "fragment_definition") = false := by simpa using hop
      have hk : n.kind ≠ "fragment_definition" := by simpa using hop
      have h1 : frStep s n = (s, []) := by simp [frStep, hop']
      have h2 : frNames (n :: ns) = frNames ns := by simp [frNames, hop']
      have h3 : (∀ n' ∈ n :: ns, n'.kind = "fragment_definition" → (n'.kid "name").isSome = true) ↔
          (∀ n' ∈ ns, n'.kind = "fragment_definition" → (n'.kid "name").isSome = true) := by
        simp [hk]
      rw [h1, h2, h3]; simp

namespace Spec
/-- "Every fragment definition has a name and these names are pairwise distinct" (spec §5.5.1.1). -/
def uniqueFragmentNames (doc : ATree) : Prop :=
  (∀ n ∈ outer doc, n.kind = "fragment_definition" → (n.kid "name").isSome = true) ∧ (frNames (outer doc)).Nodup
end Spec

theorem uniqueFragmentNames_iff (tbl : TITable) (L : Lookups τ) (doc : ATree) (hu : doc.uniqueIds) :
    validate tbl L none [(uniqueFragmentNames doc, RS.init)] doc.erase = [] ↔ Spec.uniqueFragmentNames doc := by
  rw [validate_single_eq, List.map_eq_nil_iff]
  have h := (ufn_trav doc (realDriver tbl L)).1 doc (fun n hn => ATree.find_of_mem.1 doc hu n hn) hu TI.init
    (Member.start (uniqueFragmentNames doc) RS.init) rfl rfl
  rw [h.2.2.2]
  simp only [Member.start, List.nil_append]
  rw [foldFr_errs_nil]
  unfold Spec.uniqueFragmentNames
  constructor
  · exact fun h => ⟨h.1, h.2.1⟩
  · intro h
    exact ⟨h.1, h.2, fun x _ => rfl⟩

end Gql.Validation.Rules
