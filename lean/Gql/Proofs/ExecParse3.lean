import Gql.Proofs.ExecDefs3
import Gql.Proofs.ExecDocParse2
/-!
C08, stage 3, parser side: the parser model on the tokens of a printed type-system definition.
-/
namespace Gql.Syntax
open Gql Gql.Text
open Gql.Generated

/-! ### generic item lists -/

/-- What may follow an item of a bracketed list: the next item or the closing bracket. -/
def ItemNext (k : TokKind) : Prop :=
  k = .name ∨ k = .string ∨ k = .blockString ∨ k = .braceR ∨ k = .parenR

theorem ItemNext.ne {k : TokKind} (h : ItemNext k) :
    k ≠ .bang ∧ k ≠ .equals ∧ k ≠ .at ∧ k ≠ .parenL ∧ k ≠ .braceL ∧ k ≠ .eof ∧ k ≠ .amp ∧ k ≠ .pipe := by
  rcases h with h | h | h | h | h <;> rw [h] <;> decide

/-- The item parser `p` reads the tokens `kv` as `a`, whatever item or closing bracket follows. -/
def ItemOk (p : P Ast) (a : Ast) (kv : List KV) : Prop :=
  ∀ (toks : List Token) (r : Stream) (cnt : Nat), toks.map Token.kv = kv → NonEof toks → r.Ready →
    ItemNext (headKind r) → ∃ c', p (PSat cnt (feed toks r)) = .ok (a, PSat c' r)

/-- An item starts with a name or a description. -/
def ItemHead (kv : List KV) : Prop :=
  ∃ k ks, kv = k :: ks ∧ (k.1 = .name ∨ k.1 = .string ∨ k.1 = .blockString)

theorem itemNext_feed (toks : List Token) (items : List (Ast × List KV)) (hh : ∀ it ∈ items, ItemHead it.2)
    (tR : Token) (r : Stream) (hkv : toks.map Token.kv = (items.map (·.2)).flatten)
    (hRk : tR.kind = .braceR ∨ tR.kind = .parenR) : ItemNext (headKind (feed toks (.cons tR r))) := by
  rw [headKind_feed toks _ _ hkv]
  cases items with
  | nil =>
    simp only [List.map_nil, List.flatten_nil, firstK, headKind]
    rcases hRk with h | h <;> rw [h] <;> simp [ItemNext]
  | cons it rest =>
    obtain ⟨k, ks, hk, hkk⟩ := hh it (by simp)
    simp only [List.map_cons, List.flatten_cons, hk, List.cons_append, firstK]
    rcases hkk with h | h | h <;> simp [ItemNext, h]

section
variable (cfg : Cfg) (hm : cfg.maxTokens = none)
include hm

theorem itemsLoop_ok (close : TokKind) (hcl : close = .braceR ∨ close = .parenR) (p : P Ast)
    (items : List (Ast × List KV)) (h : ∀ it ∈ items, ItemOk p it.1 it.2 ∧ ItemHead it.2) :
    ∀ (m : Nat) (toks : List Token) (tR : Token) (r : Stream) (cnt : Nat) (acc : List Ast),
    items.length < m → toks.map Token.kv = (items.map (·.2)).flatten → NonEof toks → tR.kind = close → r.Ready →
    ∃ c', untilClose cfg close p m acc (PSat cnt (feed toks (.cons tR r))) =
      .ok (acc ++ items.map (·.1), PSat c' r) := by
  have hce : close ≠ .eof := by rcases hcl with h | h <;> rw [h] <;> decide
  induction items with
  | nil =>
    intro m toks tR r cnt acc hmm hkv _ hRk hr
    obtain ⟨m, rfl⟩ : ∃ m', m = m' + 1 := ⟨m - 1, by simp at hmm; omega⟩
    simp only [List.map_nil, List.flatten_nil, List.map_eq_nil_iff] at hkv
    subst hkv
    obtain ⟨c1, h1⟩ := expectOptionalToken_yes cfg hm close tR r cnt hRk (by rw [hRk]; exact hce) hr
    exact ⟨c1, by simp only [untilClose, feed, PSat_cons, bind_eq, h1, ↓reduceIte, pure_eq', List.map_nil,
      List.append_nil]⟩
  | cons it rest ih =>
    intro m toks tR r cnt acc hmm hkv hne hRk hr
    obtain ⟨m, rfl⟩ : ∃ m', m = m' + 1 := ⟨m - 1, by simp at hmm; omega⟩
    have hRne : tR.kind ≠ .eof := by rw [hRk]; exact hce
    simp only [List.map_cons, List.flatten_cons] at hkv
    rw [List.map_eq_append_iff] at hkv
    obtain ⟨tv, ts', rfl, hkv1, hkv2⟩ := hkv
    obtain ⟨hok, k0, ks0, hk0, hkk⟩ := h it (by simp)
    have hhead : ∃ t0 tv', tv = t0 :: tv' ∧ t0.kind ≠ close := by
      rw [hk0, List.map_eq_cons_iff] at hkv1
      obtain ⟨t0, tv', rfl, ht0, _⟩ := hkv1
      refine ⟨t0, tv', rfl, ?_⟩
      rw [(tok_of_kv ht0).1]
      rcases hkk with h' | h' | h' <;> rw [h'] <;> rcases hcl with h'' | h'' <;> rw [h''] <;> decide
    obtain ⟨t0, tv', rfl, ht0⟩ := hhead
    have hready : (feed ts' (.cons tR r)).Ready :=
      feed_ready _ _ hne.append_right (by simp [Stream.Ready, hRne])
    have hno : expectOptionalToken cfg close (PSat cnt (feed (t0 :: tv' ++ ts') (.cons tR r))) =
        .ok (false, PSat cnt (feed (t0 :: tv' ++ ts') (.cons tR r))) :=
      expectOptionalToken_no cfg close _ (by simpa [feed] using ht0)
    obtain ⟨c1, h1⟩ := hok (t0 :: tv') (feed ts' (.cons tR r)) cnt hkv1 hne.append_left hready
      (itemNext_feed ts' rest (fun x hx => (h x (by simp [hx])).2) tR r hkv2 (by rw [hRk]; exact hcl))
    obtain ⟨c2, h2⟩ := ih (fun x hx => h x (by simp [hx])) m ts' tR r c1 (acc ++ [it.1])
      (by simp at hmm; omega) hkv2 hne.append_right hRk hr
    refine ⟨c2, ?_⟩
    rw [feed_append] at hno ⊢
    simp only [untilClose, bind_eq, hno, Bool.false_eq_true, ↓reduceIte, h1, h2]
    simp

/-- `optional_many(open, item, close)` on an optional bracketed list of items. -/
theorem optMany_ok (o close : TokKind) (ho : o ≠ .eof) (hcl : close = .braceR ∨ close = .parenR) (p : P Ast)
    (items : List (Ast × List KV)) (h : ∀ it ∈ items, ItemOk p it.1 it.2 ∧ ItemHead it.2)
    (n : Nat) (toks : List Token) (r : Stream) (cnt : Nat) (hn : items.length < n)
    (hkv : toks.map Token.kv = Exec.bracketKvs o close (items.map (·.2)).flatten items.isEmpty)
    (hne : NonEof toks) (hr : r.Ready) (hnop : items = [] → headKind r ≠ o) :
    ∃ c', parseOptionalMany cfg n o p close (PSat cnt (feed toks r)) =
      .ok ((if items = [] then none else some (items.map (·.1))), PSat c' r) := by
  have hce : close ≠ .eof := by rcases hcl with h | h <;> rw [h] <;> decide
  cases items with
  | nil =>
    simp only [Exec.bracketKvs, List.isEmpty_nil, ↓reduceIte, List.map_eq_nil_iff] at hkv
    subst hkv
    have hk : (PSat cnt r).cur.kind ≠ o := by rw [PSat_cur_kind cnt r hr]; exact hnop rfl
    refine ⟨cnt, ?_⟩
    simp only [parseOptionalMany, feed, bind_eq, expectOptionalToken_no cfg o _ hk, Bool.false_eq_true, ↓reduceIte,
      pure_eq']
  | cons it rest =>
    simp only [Exec.bracketKvs, List.isEmpty_cons, Bool.false_eq_true, ↓reduceIte, List.map_cons,
      List.flatten_cons, List.cons_append] at hkv
    rw [List.map_eq_cons_iff] at hkv
    obtain ⟨tL, ts, rfl, hkL, hkv⟩ := hkv
    rw [List.map_eq_append_iff] at hkv
    obtain ⟨tsI, tsR, rfl, hkI, hkR⟩ := hkv
    rw [List.map_eq_append_iff] at hkI
    obtain ⟨tv, ts', rfl, hkv1, hkv2⟩ := hkI
    simp only [List.map_eq_cons_iff, List.map_eq_nil_iff] at hkR
    obtain ⟨tR, tsE, rfl, hkR, rfl⟩ := hkR
    obtain ⟨hLk, _⟩ := tok_of_kv hkL
    obtain ⟨hRk, _⟩ := tok_of_kv hkR
    have hRne : tR.kind ≠ .eof := by rw [hRk]; exact hce
    have hneI : NonEof (tv ++ ts') := hne.tail.append_left
    have hready0 : (feed (tv ++ ts') (.cons tR r)).Ready := feed_ready _ _ hneI (by simp [Stream.Ready, hRne])
    have hready1 : (feed ts' (.cons tR r)).Ready :=
      feed_ready _ _ hneI.append_right (by simp [Stream.Ready, hRne])
    obtain ⟨c1, h1⟩ := expectOptionalToken_yes cfg hm o tL (feed (tv ++ ts') (.cons tR r)) cnt hLk
      (by rw [hLk]; exact ho) hready0
    obtain ⟨c2, h2⟩ := (h it (by simp)).1 tv (feed ts' (.cons tR r)) c1 hkv1 hneI.append_left hready1
      (itemNext_feed ts' rest (fun x hx => (h x (by simp [hx])).2) tR r hkv2 (by rw [hRk]; exact hcl))
    obtain ⟨c3, h3⟩ := itemsLoop_ok cfg hm close hcl p rest (fun x hx => h x (by simp [hx])) n ts' tR r c2 [it.1]
      (by simp at hn; omega) hkv2 hneI.append_right hRk hr
    refine ⟨c3, ?_⟩
    rw [feed_append] at h1
    simp only [parseOptionalMany, feed, feed_append, PSat_cons, bind_eq, h1, ↓reduceIte, h2, h3, pure_eq']
    simp

/-- `many(open, item, close)` on a non-empty bracketed list of items. -/
theorem many_ok (o close : TokKind) (ho : o ≠ .eof) (hcl : close = .braceR ∨ close = .parenR) (p : P Ast)
    (items : List (Ast × List KV)) (hine : items ≠ []) (h : ∀ it ∈ items, ItemOk p it.1 it.2 ∧ ItemHead it.2)
    (n : Nat) (toks : List Token) (r : Stream) (cnt : Nat) (hn : items.length < n)
    (hkv : toks.map Token.kv = Exec.bracketKvs o close (items.map (·.2)).flatten items.isEmpty)
    (hne : NonEof toks) (hr : r.Ready) :
    ∃ c', parseMany cfg n o p close (PSat cnt (feed toks r)) = .ok (items.map (·.1), PSat c' r) := by
  have hce : close ≠ .eof := by rcases hcl with h | h <;> rw [h] <;> decide
  cases items with
  | nil => exact absurd rfl hine
  | cons it rest =>
    simp only [Exec.bracketKvs, List.isEmpty_cons, Bool.false_eq_true, ↓reduceIte, List.map_cons,
      List.flatten_cons, List.cons_append] at hkv
    rw [List.map_eq_cons_iff] at hkv
    obtain ⟨tL, ts, rfl, hkL, hkv⟩ := hkv
    rw [List.map_eq_append_iff] at hkv
    obtain ⟨tsI, tsR, rfl, hkI, hkR⟩ := hkv
    rw [List.map_eq_append_iff] at hkI
    obtain ⟨tv, ts', rfl, hkv1, hkv2⟩ := hkI
    simp only [List.map_eq_cons_iff, List.map_eq_nil_iff] at hkR
    obtain ⟨tR, tsE, rfl, hkR, rfl⟩ := hkR
    obtain ⟨hLk, _⟩ := tok_of_kv hkL
    obtain ⟨hRk, _⟩ := tok_of_kv hkR
    have hRne : tR.kind ≠ .eof := by rw [hRk]; exact hce
    have hneI : NonEof (tv ++ ts') := hne.tail.append_left
    have hready0 : (feed (tv ++ ts') (.cons tR r)).Ready := feed_ready _ _ hneI (by simp [Stream.Ready, hRne])
    have hready1 : (feed ts' (.cons tR r)).Ready :=
      feed_ready _ _ hneI.append_right (by simp [Stream.Ready, hRne])
    obtain ⟨c1, h1⟩ := expectToken_ok cfg hm o tL (feed (tv ++ ts') (.cons tR r)) cnt hLk
      (by rw [hLk]; exact ho) hready0
    obtain ⟨c2, h2⟩ := (h it (by simp)).1 tv (feed ts' (.cons tR r)) c1 hkv1 hneI.append_left hready1
      (itemNext_feed ts' rest (fun x hx => (h x (by simp [hx])).2) tR r hkv2 (by rw [hRk]; exact hcl))
    obtain ⟨c3, h3⟩ := itemsLoop_ok cfg hm close hcl p rest (fun x hx => h x (by simp [hx])) n ts' tR r c2 [it.1]
      (by simp at hn; omega) hkv2 hneI.append_right hRk hr
    refine ⟨c3, ?_⟩
    rw [feed_append] at h1
    simp only [parseMany, feed, feed_append, PSat_cons, bind_eq, h1, h2, h3]
    simp

end


/-! ### input value definitions -/

theorem mk_ivdNode (a b c d e : Ast) :
    mkNode "InputValueDefinitionNode" [("description", a), ("name", b), ("type", c), ("default_value", d),
      ("directives", e)] =
    .node "InputValueDefinitionNode" [("name", b), ("type", c), ("description", a), ("default_value", d),
      ("directives", e)] := rfl

theorem descKvs_cases (d : Desc) : Exec.descKvs d = [] ∨ ∃ k, Exec.descKvs d = [k] ∧ (k.1 = .string ∨ k.1 = .blockString) := by
  match d with
  | none => left; rfl
  | some (s, true) => right; exact ⟨_, rfl, Or.inr rfl⟩
  | some (s, false) => right; exact ⟨_, rfl, Or.inl rfl⟩

/-- description followed by a NAME: an item head. -/
theorem itemHead_desc_name (d : Desc) (n : List Nat) (rest : List KV) :
    ItemHead (Exec.descKvs d ++ ((.name, some n) :: rest)) := by
  rcases descKvs_cases d with h | ⟨k, h, hk⟩
  · rw [h]; exact ⟨_, _, rfl, Or.inl rfl⟩
  · rw [h]; exact ⟨k, _, rfl, Or.inr hk⟩

section
variable (cfg : Cfg) (hm : cfg.maxTokens = none)
include hm

theorem parseIvd_ok (n : Nat) (vd : VarDef) (h : Exec.varDefWf vd) (hn : (Exec.ivdKvs vd).length < n) :
    ItemOk (parseInputValueDef cfg n) (Exec.ivdAst vd) (Exec.ivdKvs vd) := by
  intro toks r cnt hkv hne hr hnext
  obtain ⟨hdesc, hname, hty, hsh, hdf, hds⟩ := h
  obtain ⟨hnbang, hneq, hnat, hnpar, _⟩ := hnext.ne
  unfold Exec.ivdKvs at hkv hn
  rw [List.map_eq_append_iff] at hkv
  obtain ⟨t123, tds, rfl, hk123, hkds⟩ := hkv
  rw [List.map_eq_append_iff] at hk123
  obtain ⟨t12, tdf, rfl, hk12, hkdf⟩ := hk123
  rw [List.map_eq_append_iff] at hk12
  obtain ⟨tdesc, tcore, rfl, hkdesc, hkcore⟩ := hk12
  simp only [List.map_eq_cons_iff] at hkcore
  obtain ⟨tN, t2, rfl, hkN, tC, tty, rfl, hkC, hkty⟩ := hkcore
  obtain ⟨hNk, hNv⟩ := tok_of_kv hkN
  obtain ⟨hCk, _⟩ := tok_of_kv hkC
  have hNne : tN.kind ≠ .eof := by rw [hNk]; decide
  have hCne : tC.kind ≠ .eof := by rw [hCk]; decide
  have hne_ds : NonEof tds := hne.append_right
  have hne_df : NonEof tdf := hne.append_left.append_right
  have hne_core : NonEof (tN :: tC :: tty) := hne.append_left.append_left.append_right
  have hne_ty : NonEof tty := hne_core.tail.tail
  have hR4 : (feed tds r).Ready := feed_ready _ _ hne_ds hr
  have hR3 : (feed tdf (feed tds r)).Ready := feed_ready _ _ hne_df hR4
  have hR2 : (feed tty (feed tdf (feed tds r))).Ready := feed_ready _ _ hne_ty hR3
  have hk4 : headKind (feed tds r) = if vd.dirs = [] then headKind r else .at := by
    rw [headKind_feed tds _ r hkds, firstK_dirs]
  have hk3 : headKind (feed tdf (feed tds r)) = if vd.dflt = none then headKind (feed tds r) else .equals := by
    rw [headKind_feed tdf _ _ hkdf]
    cases vd.dflt <;> simp [firstK]
  have hk4ne : headKind (feed tds r) ≠ .bang ∧ headKind (feed tds r) ≠ .equals := by
    rw [hk4]; split
    · exact ⟨hnbang, hneq⟩
    · exact ⟨by decide, by decide⟩
  have hk3ne : headKind (feed tdf (feed tds r)) ≠ .bang := by
    rw [hk3]; split
    · exact hk4ne.1
    · decide
  simp only [List.length_append, List.length_cons] at hn
  obtain ⟨c1, h1⟩ := parseDesc_ok cfg hm vd.desc tdesc
    (feed (tN :: tC :: tty) (feed tdf (feed tds r))) cnt hkdesc
    (feed_ready _ _ hne_core hR3) (fun _ => by simp [headKind_feed_cons, hNk])
  obtain ⟨c3, h3⟩ := parseName_ok cfg hm tN vd.name (.cons tC (feed tty (feed tdf (feed tds r)))) c1 hNk hNv
    (by simp [Stream.Ready, hCne])
  obtain ⟨c4, h4⟩ := expectToken_ok cfg hm .colon tC (feed tty (feed tdf (feed tds r))) c3 hCk hCne hR2
  obtain ⟨_, hTy⟩ := TyP.typeRef_tokens cfg hm vd.ty hty hsh
  have hdep := depth_le_kvs vd.ty
  obtain ⟨c5, h5⟩ := hTy n tty (feed tdf (feed tds r)) c4 (by omega) hkty hR3 (fun _ => hk3ne)
  have hDirs : ∀ c0, ∃ cd, parseDirectives cfg n true (PSat c0 (feed tds r)) =
      .ok ((if vd.dirs = [] then none else some (vd.dirs.map Exec.dirAst)), PSat cd r) := by
    intro c0
    exact parseDirectives_raw cfg hm true vd.dirs hds n tds r c0 (by omega) hkds hne_ds hr hnat hnpar
  have hdirsAst : optListO (if vd.dirs = [] then none else some (vd.dirs.map Exec.dirAst)) = Exec.dirsAst vd.dirs := by
    cases vd.dirs <;> simp [optListO, Exec.dirsAst, optL]
  cases hv : vd.dflt with
  | none =>
    rw [hv] at hkdf hk3
    simp only [List.map_eq_nil_iff] at hkdf
    subst hkdf
    have hno : expectOptionalToken cfg .equals (PSat c5 (feed [] (feed tds r))) =
        .ok (false, PSat c5 (feed [] (feed tds r))) :=
      expectOptionalToken_no cfg .equals _ (by rw [PSat_cur_kind _ _ hR3]; simpa using hk3 ▸ hk4ne.2)
    obtain ⟨cd, hD⟩ := hDirs c5
    refine ⟨cd, ?_⟩
    simp only [feed_append, feed] at h1 h3 h4 h5 hno ⊢
    simp only [parseInputValueDef, bind_eq, h1, PSat_cons, h3, pure_eq', h4, h5,
      hno, Bool.false_eq_true, ↓reduceIte, hD, mk_ivdNode, hdirsAst]
    simp [Exec.ivdAst, Exec.dfltAst, hv, Val.nameNode]
  | some v =>
    rw [hv] at hkdf hdf hn
    rw [List.map_eq_cons_iff] at hkdf
    obtain ⟨tE, tv, rfl, hkE, hkv⟩ := hkdf
    obtain ⟨hEk, _⟩ := tok_of_kv hkE
    have hEne : tE.kind ≠ .eof := by rw [hEk]; decide
    have hne_v : NonEof tv := hne_df.tail
    have hRv : (feed tv (feed tds r)).Ready := feed_ready _ _ hne_v hR4
    obtain ⟨c6, h6⟩ := expectOptionalToken_yes cfg hm .equals tE (feed tv (feed tds r)) c5 hEk hEne hRv
    simp only [List.length_cons] at hn
    obtain ⟨c7, h7⟩ := parseV cfg hm true v hdf n tv (feed tds r) c6 (by omega) hkv hne_v hR4
    obtain ⟨cd, hD⟩ := hDirs c7
    refine ⟨cd, ?_⟩
    simp only [feed_append, feed, PSat_cons] at h1 h3 h4 h5 h6 ⊢
    simp only [parseInputValueDef, bind_eq, h1, PSat_cons, h3, pure_eq', h4, h5,
      h6, ↓reduceIte, h7, hD, mk_ivdNode, hdirsAst]
    simp [Exec.ivdAst, Exec.dfltAst, hv, Val.nameNode]

end

theorem ivdKvs_head (vd : VarDef) : ItemHead (Exec.ivdKvs vd) := by
  unfold Exec.ivdKvs
  simp only [List.append_assoc, List.cons_append]
  exact itemHead_desc_name vd.desc vd.name _

theorem itemHead_length {kv : List KV} (h : ItemHead kv) : 1 ≤ kv.length := by
  obtain ⟨k, ks, rfl, _⟩ := h; simp

theorem ivdsKvs_flatten (xs : List VarDef) :
    Exec.ivdsKvs xs = ((xs.map (fun a => (Exec.ivdAst a, Exec.ivdKvs a))).map (·.2)).flatten := by
  induction xs with
  | nil => rfl
  | cons a r ih => simp [Exec.ivdsKvs, ih]

theorem ivdsKvs_length (xs : List VarDef) : xs.length ≤ (Exec.ivdsKvs xs).length := by
  induction xs with
  | nil => simp
  | cons a r ih =>
    have := itemHead_length (ivdKvs_head a)
    simp [Exec.ivdsKvs]; omega

theorem ivdsKvs_mem_length (xs : List VarDef) : ∀ a ∈ xs, (Exec.ivdKvs a).length ≤ (Exec.ivdsKvs xs).length := by
  induction xs with
  | nil => intro a ha; simp at ha
  | cons b r ih =>
    intro a ha
    rcases List.mem_cons.mp ha with rfl | ha
    · simp [Exec.ivdsKvs]
    · have := ih a ha
      simp [Exec.ivdsKvs]; omega

section
variable (cfg : Cfg) (hm : cfg.maxTokens = none)
include hm

/-- the items of a list of input value definitions -/
theorem ivdItems_ok (n : Nat) (xs : List VarDef) (h : Exec.ivdsWf xs) (hn : (Exec.ivdsKvs xs).length < n) :
    ∀ it ∈ xs.map (fun a => (Exec.ivdAst a, Exec.ivdKvs a)),
      ItemOk (parseInputValueDef cfg n) it.1 it.2 ∧ ItemHead it.2 := by
  intro it hit
  simp only [List.mem_map] at hit
  obtain ⟨a, ha, rfl⟩ := hit
  have := ivdsKvs_mem_length xs a ha
  exact ⟨parseIvd_ok cfg hm n a (h a ha) (by omega), ivdKvs_head a⟩

/-- `parse_argument_defs` / `parse_input_fields_definition`. -/
theorem parseIvdList_ok (o close : TokKind) (ho : o ≠ .eof) (hcl : close = .braceR ∨ close = .parenR)
    (xs : List VarDef) (h : Exec.ivdsWf xs) (n : Nat) (toks : List Token) (r : Stream) (cnt : Nat)
    (hn : (Exec.ivdsKvs xs).length < n)
    (hkv : toks.map Token.kv = Exec.bracketKvs o close (Exec.ivdsKvs xs) xs.isEmpty)
    (hne : NonEof toks) (hr : r.Ready) (hnop : xs = [] → headKind r ≠ o) :
    ∃ c', parseOptionalMany cfg n o (parseInputValueDef cfg n) close (PSat cnt (feed toks r)) =
      .ok ((if xs = [] then none else some (xs.map Exec.ivdAst)), PSat c' r) := by
  have hl := ivdsKvs_length xs
  obtain ⟨c', hp⟩ := optMany_ok cfg hm o close ho hcl (parseInputValueDef cfg n)
    (xs.map (fun a => (Exec.ivdAst a, Exec.ivdKvs a))) (ivdItems_ok cfg hm n xs h hn) n toks r cnt
    (by simp; omega) (by rw [← ivdsKvs_flatten]; simpa using hkv) hne hr (by simpa using hnop)
  refine ⟨c', ?_⟩
  rw [hp]
  cases xs <;> simp [Function.comp_def]

end


/-! ### field definitions, enum values, operation types -/

theorem mk_fdNode (a b c d e : Ast) :
    mkNode "FieldDefinitionNode" [("description", a), ("name", b), ("arguments", c), ("type", d),
      ("directives", e)] =
    .node "FieldDefinitionNode" [("name", b), ("type", d), ("description", a), ("arguments", c),
      ("directives", e)] := rfl

theorem mk_evNode (a b c : Ast) :
    mkNode "EnumValueDefinitionNode" [("description", a), ("name", b), ("directives", c)] =
    .node "EnumValueDefinitionNode" [("name", b), ("description", a), ("directives", c)] := rfl

theorem mk_otNode (a b : Ast) :
    mkNode "OperationTypeDefinitionNode" [("operation", a), ("type", b)] =
    .node "OperationTypeDefinitionNode" [("operation", a), ("type", b)] := rfl

theorem mk_namedTypeNode (a : Ast) : mkNode "NamedTypeNode" [("name", a)] = .node "NamedTypeNode" [("name", a)] := rfl

theorem dirsAst_opt (ds : List Dir) :
    optListO (if ds = [] then none else some (ds.map Exec.dirAst)) = Exec.dirsAst ds := by
  cases ds <;> simp [optListO, Exec.dirsAst, optL]

theorem optL_opt (xs : List Ast) : optListO (if xs = [] then none else some xs) = optL xs := by
  cases xs <;> simp [optListO, optL]

theorem optL_map_opt {α : Type} (f : α → Ast) (xs : List α) :
    optListO (if xs = [] then none else some (xs.map f)) = optL (xs.map f) := by
  cases xs <;> simp [optListO, optL]

theorem firstK_bracket (o c : TokKind) (inner : List KV) (e : Bool) (d : TokKind) :
    firstK (Exec.bracketKvs o c inner e) d = if e then d else o := by
  cases e <;> simp [Exec.bracketKvs, firstK]

section
variable (cfg : Cfg) (hm : cfg.maxTokens = none)
include hm

theorem parseNamedType_ok (t : Token) (nm : List Nat) (r : Stream) (c : Nat) (hk : t.kind = .name)
    (hv : t.value = some nm) (hr : r.Ready) :
    ∃ c', parseNamedType cfg { cur := t, rest := r, count := c } = .ok (namedType nm, PSat c' r) := by
  obtain ⟨c', h⟩ := parseName_ok cfg hm t nm r c hk hv hr
  exact ⟨c', by simp only [parseNamedType, bind_eq, h, pure_eq', mk_namedTypeNode]; rfl⟩

theorem parseFd_ok (n : Nat) (f : FDef) (h : Exec.fdWf f) (hn : (Exec.fdKvs f).length < n) :
    ItemOk (parseFieldDefinition cfg n) (Exec.fdAst f) (Exec.fdKvs f) := by
  intro toks r cnt hkv hne hr hnext
  obtain ⟨hdesc, hname, hargs, hty, hsh, hds⟩ := h
  obtain ⟨hnbang, _, hnat, hnpar, _⟩ := hnext.ne
  unfold Exec.fdKvs at hkv hn
  rw [List.map_eq_append_iff] at hkv
  obtain ⟨t123, tds, rfl, hk123, hkds⟩ := hkv
  rw [List.map_eq_append_iff] at hk123
  obtain ⟨t12, tct, rfl, hk12, hkct⟩ := hk123
  rw [List.map_eq_append_iff] at hk12
  obtain ⟨tdesc, tna, rfl, hkdesc, hkna⟩ := hk12
  rw [List.map_eq_cons_iff] at hkna hkct
  obtain ⟨tN, targs, rfl, hkN, hkargs⟩ := hkna
  obtain ⟨tC, tty, rfl, hkC, hkty⟩ := hkct
  obtain ⟨hNk, hNv⟩ := tok_of_kv hkN
  obtain ⟨hCk, _⟩ := tok_of_kv hkC
  have hNne : tN.kind ≠ .eof := by rw [hNk]; decide
  have hCne : tC.kind ≠ .eof := by rw [hCk]; decide
  have hne_ds : NonEof tds := hne.append_right
  have hne_ct : NonEof (tC :: tty) := hne.append_left.append_right
  have hne_na : NonEof (tN :: targs) := hne.append_left.append_left.append_right
  have hR4 : (feed tds r).Ready := feed_ready _ _ hne_ds hr
  have hR3 : (feed tty (feed tds r)).Ready := feed_ready _ _ hne_ct.tail hR4
  have hR2 : (feed (tC :: tty) (feed tds r)).Ready := feed_ready _ _ hne_ct hR4
  have hR1 : (feed targs (feed (tC :: tty) (feed tds r))).Ready := feed_ready _ _ hne_na.tail hR2
  have hk4 : headKind (feed tds r) ≠ .bang := by
    rw [headKind_feed tds _ r hkds, firstK_dirs]; split
    · exact hnbang
    · decide
  simp only [List.length_append, List.length_cons] at hn
  obtain ⟨c1, h1⟩ := parseDesc_ok cfg hm f.desc tdesc
    (feed (tN :: targs) (feed (tC :: tty) (feed tds r))) cnt hkdesc
    (feed_ready _ _ hne_na hR2) (fun _ => by simp [headKind_feed_cons, hNk])
  obtain ⟨c2, h2⟩ := parseName_ok cfg hm tN f.name (feed targs (feed (tC :: tty) (feed tds r))) c1 hNk hNv hR1
  have hal : (Exec.ivdsKvs f.args).length ≤ (Exec.argDefsKvs f.args).length := by
    unfold Exec.argDefsKvs Exec.bracketKvs
    cases f.args <;> simp [Exec.ivdsKvs]; omega
  obtain ⟨c3, h3⟩ := parseIvdList_ok cfg hm .parenL .parenR (by decide) (Or.inr rfl) f.args hargs n targs
    (feed (tC :: tty) (feed tds r)) c2 (by omega) hkargs hne_na.tail hR2
    (fun _ => by simp [headKind_feed_cons, hCk])
  obtain ⟨c4, h4⟩ := expectToken_ok cfg hm .colon tC (feed tty (feed tds r)) c3 hCk hCne hR3
  obtain ⟨_, hTy⟩ := TyP.typeRef_tokens cfg hm f.ty hty hsh
  have hdep := depth_le_kvs f.ty
  obtain ⟨c5, h5⟩ := hTy n tty (feed tds r) c4 (by omega) hkty hR4 (fun _ => hk4)
  obtain ⟨cd, hD⟩ := parseDirectives_raw cfg hm true f.dirs hds n tds r c5 (by omega) hkds hne_ds hr hnat hnpar
  refine ⟨cd, ?_⟩
  simp only [feed_append, feed, PSat_cons] at h1 h2 h3 h4 h5 ⊢
  simp only [parseFieldDefinition, parseArgumentDefs, bind_eq, h1, h2, h3, h4, h5, hD, pure_eq', mk_fdNode,
    dirsAst_opt, optL_map_opt]
  simp [Exec.fdAst, Val.nameNode, Exec.dirsAst]

theorem parseEv_ok (n : Nat) (e : EVDef) (h : Exec.evWf e) (hn : (Exec.evKvs e).length < n) :
    ItemOk (parseEnumValueDefinition cfg n) (Exec.evAst e) (Exec.evKvs e) := by
  intro toks r cnt hkv hne hr hnext
  obtain ⟨hdesc, hname, ht, hf, hnl, hds⟩ := h
  obtain ⟨_, _, hnat, hnpar, _⟩ := hnext.ne
  unfold Exec.evKvs at hkv hn
  rw [List.map_eq_append_iff] at hkv
  obtain ⟨tdesc, tnd, rfl, hkdesc, hknd⟩ := hkv
  rw [List.map_eq_cons_iff] at hknd
  obtain ⟨tN, tds, rfl, hkN, hkds⟩ := hknd
  obtain ⟨hNk, hNv⟩ := tok_of_kv hkN
  have hne_nd : NonEof (tN :: tds) := hne.append_right
  have hR4 : (feed tds r).Ready := feed_ready _ _ hne_nd.tail hr
  simp only [List.length_append, List.length_cons] at hn
  obtain ⟨c1, h1⟩ := parseDesc_ok cfg hm e.desc tdesc (feed (tN :: tds) r) cnt hkdesc
    (feed_ready _ _ hne_nd hr) (fun _ => by simp [headKind_feed_cons, hNk])
  obtain ⟨c2, h2⟩ := parseName_ok cfg hm tN e.name (feed tds r) c1 hNk hNv hR4
  obtain ⟨cd, hD⟩ := parseDirectives_raw cfg hm true e.dirs hds n tds r c2 (by omega) hkds hne_nd.tail hr hnat hnpar
  have hv1 : valueIs tN "true" = false := valueIs_false hNv "true" ht
  have hv2 : valueIs tN "false" = false := valueIs_false hNv "false" hf
  have hv3 : valueIs tN "null" = false := valueIs_false hNv "null" hnl
  refine ⟨cd, ?_⟩
  simp only [feed_append, feed, PSat_cons] at h1 h2 ⊢
  simp only [parseEnumValueDefinition, parseEnumValueName, bind_eq, h1, P.cur, hv1, hv2, hv3, Bool.or_self,
    Bool.false_eq_true, ↓reduceIte, h2, hD, pure_eq', mk_evNode, dirsAst_opt]
  simp [Exec.evAst, Val.nameNode]

theorem parseOt_ok (ot : List Nat × List Nat) (h : Exec.isOpType ot.1 ∧ validName ot.2 = true) :
    ItemOk (parseOperationTypeDefinition cfg) (Exec.otAst ot) (Exec.otKvs ot) := by
  intro toks r cnt hkv hne hr _
  unfold Exec.otKvs at hkv
  simp only [List.map_eq_cons_iff, List.map_eq_nil_iff] at hkv
  obtain ⟨tO, t1, rfl, hkO, tC, t2, rfl, hkC, tN, t3, rfl, hkN, rfl⟩ := hkv
  obtain ⟨hOk, hOv⟩ := tok_of_kv hkO
  obtain ⟨hCk, _⟩ := tok_of_kv hkC
  obtain ⟨hNk, hNv⟩ := tok_of_kv hkN
  have hOne : tO.kind ≠ .eof := by rw [hOk]; decide
  have hCne : tC.kind ≠ .eof := by rw [hCk]; decide
  have hNne : tN.kind ≠ .eof := by rw [hNk]; decide
  obtain ⟨c1, h1⟩ := expectToken_ok cfg hm .name tO (.cons tC (.cons tN r)) cnt hOk hOne
    (by simp [Stream.Ready, hCne])
  obtain ⟨c2, h2⟩ := expectToken_ok cfg hm .colon tC (.cons tN r) c1 hCk hCne (by simp [Stream.Ready, hNne])
  obtain ⟨c3, h3⟩ := parseNamedType_ok cfg hm tN ot.2 r c2 hNk hNv hr
  have hany := opTypes_any tO ot.1 hOv h.1
  refine ⟨c3, ?_⟩
  simp only [feed, PSat_cons] at h1 h2 h3 ⊢
  simp only [parseOperationTypeDefinition, parseOperationType, bind_eq, h1, hany, ↓reduceIte, pure_eq', h2, h3,
    mk_otNode, tokVal, hOv]
  simp [Exec.otAst]

end

end Gql.Syntax
