import Gql.Proofs.ParseWfValue
import Gql.Proofs.ExecParse
/-!
C08, converse direction (`parse_wf`) for the first layers of the document grammar: arguments,
directives (constant or not) and selection sets (fields with alias / arguments / directives / nested
selection sets, fragment spreads without arguments, inline fragments).  Whatever
`parse_arguments`, `parse_directives`, `parse_selection_set` return from a parser state over the
tokens of a source text without surrogates is the tree of a well-formed typed tree
(`Exec.argsWfC`, `Exec.dirsWfC`, `Exec.selsWf`).
-/
namespace Gql.Syntax
open Gql Gql.Text

section
variable (body : List Nat) (hsrc : ∀ x ∈ body, isSurr x = false) (cfg : Cfg)
include hsrc

/-- `parse_value_literal` returns trees of well-formed values. -/
theorem valueLit_vwf (c : Bool) (n : Nat) (s s' : PS) (a : Ast) (hg : VPS body s)
    (h : valueLit n cfg c s = .ok (a, s')) : VPS body s' ∧ ∃ v : Val, Val.wf c v ∧ a = v.toAst := by
  obtain ⟨hg', v, hv, rfl⟩ := valueLit_vinv body cfg c n s s' a hg h
  exact ⟨hg', v, Val.wf_of_wfG (ChOk body) (fun _ hc => ChOk.isScalar hsrc hc) c v hv, rfl⟩

omit hsrc in
theorem untilClose_prefix (close : TokKind) (item : P Ast) : ∀ (n : Nat) (acc : List Ast) (s s' : PS)
    (xs : List Ast), untilClose cfg close item n acc s = .ok (xs, s') → ∃ ys, xs = acc ++ ys := by
  intro n
  induction n with
  | zero => intro acc s s' xs h; simp [untilClose, P.crash] at h
  | succ n ih =>
    intro acc s s' xs h
    unfold untilClose at h
    obtain ⟨closed, s1, h1, h⟩ := bind_ok_inv h
    cases closed with
    | true =>
      simp only [↓reduceIte, pure_eq'] at h
      cases h
      exact ⟨[], by simp⟩
    | false =>
      simp only [Bool.false_eq_true, ↓reduceIte] at h
      obtain ⟨x, s2, h2, h⟩ := bind_ok_inv h
      obtain ⟨ys, hys⟩ := ih _ _ _ _ h
      exact ⟨x :: ys, by rw [hys]; simp⟩

omit hsrc in
/-- `optional_many`: `None`, or a non-empty tuple of items. -/
theorem parseOptionalMany_vinv (n : Nat) (open_ close : TokKind) (item : P Ast) (R : Ast → Prop)
    (hitem : ∀ s s' a, VPS body s → item s = .ok (a, s') → VPS body s' ∧ R a)
    (s s' : PS) (o : Option (List Ast)) (hg : VPS body s)
    (h : parseOptionalMany cfg n open_ item close s = .ok (o, s')) :
    VPS body s' ∧ (o = none ∨ ∃ xs, o = some xs ∧ xs ≠ [] ∧ ∀ x ∈ xs, R x) := by
  unfold parseOptionalMany at h
  obtain ⟨opened, s1, h1, h⟩ := bind_ok_inv h
  have hg1 := (expectOptionalToken_vinv body cfg open_ s s1 opened h1 hg).1
  cases opened with
  | false =>
    simp only [Bool.false_eq_true, ↓reduceIte, pure_eq'] at h
    cases h
    exact ⟨hg1, Or.inl rfl⟩
  | true =>
    simp only [↓reduceIte] at h
    obtain ⟨x, s2, h2, h⟩ := bind_ok_inv h
    obtain ⟨xs, s3, h3, h⟩ := bind_ok_inv h
    simp only [pure_eq'] at h
    cases h
    obtain ⟨hg2, hx⟩ := hitem _ _ _ hg1 h2
    obtain ⟨hg3, hall⟩ := untilClose_vinv body cfg close item R hitem n [x] _ _ xs hg2
      (by intro y hy; simp only [List.mem_singleton] at hy; subst hy; exact hx) h3
    obtain ⟨ys, hys⟩ := untilClose_prefix cfg close item n [x] _ _ xs h3
    exact ⟨hg3, Or.inr ⟨xs, rfl, by rw [hys]; simp, hall⟩⟩

omit hsrc in
/-- `many`: a non-empty tuple of items. -/
theorem parseMany_vinv (n : Nat) (open_ close : TokKind) (item : P Ast) (R : Ast → Prop)
    (hitem : ∀ s s' a, VPS body s → item s = .ok (a, s') → VPS body s' ∧ R a)
    (s s' : PS) (xs : List Ast) (hg : VPS body s)
    (h : parseMany cfg n open_ item close s = .ok (xs, s')) :
    VPS body s' ∧ xs ≠ [] ∧ ∀ x ∈ xs, R x := by
  unfold parseMany at h
  obtain ⟨t, s1, h1, h⟩ := bind_ok_inv h
  have hg1 := (expectToken_vinv body cfg open_ s s1 t h1 hg).1
  obtain ⟨x, s2, h2, h⟩ := bind_ok_inv h
  obtain ⟨hg2, hx⟩ := hitem _ _ _ hg1 h2
  obtain ⟨hg3, hall⟩ := untilClose_vinv body cfg close item R hitem n [x] _ _ xs hg2
    (by intro y hy; simp only [List.mem_singleton] at hy; subst hy; exact hx) h
  obtain ⟨ys, hys⟩ := untilClose_prefix cfg close item n [x] _ _ xs h
  exact ⟨hg3, by rw [hys]; simp, hall⟩

/-- `parse_argument(is_const)` -/
theorem parseArgument_vinv (n : Nat) (c : Bool) (s s' : PS) (a : Ast) (hg : VPS body s)
    (h : parseArgument cfg n "ArgumentNode" c s = .ok (a, s')) :
    VPS body s' ∧ ∃ (nm : List Nat) (v : Val), validName nm = true ∧ Val.wf c v ∧
      a = .node "ArgumentNode" [("name", Val.nameNode nm), ("value", v.toAst)] := by
  unfold parseArgument at h
  obtain ⟨nmA, t1, e1, h⟩ := bind_ok_inv h
  obtain ⟨ct, t2, e2, h⟩ := bind_ok_inv h
  obtain ⟨va, t3, e3, h⟩ := bind_ok_inv h
  simp only [pure_eq'] at h
  cases h
  obtain ⟨q1, nm, hnm, rfl⟩ := parseName_vinv body cfg s t1 nmA e1 hg
  have q2 := (expectToken_vinv body cfg .colon t1 t2 ct e2 q1).1
  obtain ⟨q3, v, hv, rfl⟩ := valueLit_vwf body hsrc cfg c n t2 _ va q2 e3
  exact ⟨q3, nm, v, hnm, hv, by simp [mk_arg]⟩

omit hsrc in
theorem args_of_all (c : Bool) : ∀ xs : List Ast,
    (∀ x ∈ xs, ∃ (nm : List Nat) (v : Val), validName nm = true ∧ Val.wf c v ∧
      x = .node "ArgumentNode" [("name", Val.nameNode nm), ("value", v.toAst)]) →
    ∃ as : Args, Exec.argsWfC c as ∧ xs = Exec.argsAst as := by
  intro xs
  induction xs with
  | nil => intro _; exact ⟨[], trivial, rfl⟩
  | cons x r ih =>
    intro h
    obtain ⟨n, v, hn, hv, rfl⟩ := h x (by simp)
    obtain ⟨fs, hfs, rfl⟩ := ih (fun y hy => h y (by simp [hy]))
    exact ⟨(n, v) :: fs, by simp only [Exec.argsWfC, Val.wfFields]; exact ⟨hn, hv, hfs⟩,
      by simp [Exec.argsAst]⟩

/-- `parse_arguments(is_const)`: the `arguments` attribute is that of well-formed arguments. -/
theorem parseArguments_vinv (n : Nat) (c : Bool) (s s' : PS) (o : Option (List Ast)) (hg : VPS body s)
    (h : parseArguments cfg n c s = .ok (o, s')) :
    VPS body s' ∧ ∃ as : Args, Exec.argsWfC c as ∧ optListO o = optL (Exec.argsAst as) := by
  unfold parseArguments at h
  obtain ⟨hg', ho⟩ := parseOptionalMany_vinv body cfg n .parenL .parenR _ _
    (fun s s' a hs hh => parseArgument_vinv body hsrc cfg n c s s' a hs hh) s s' o hg h
  refine ⟨hg', ?_⟩
  rcases ho with rfl | ⟨xs, rfl, hne, hall⟩
  · exact ⟨[], trivial, rfl⟩
  · obtain ⟨as, has, rfl⟩ := args_of_all c xs hall
    refine ⟨as, has, ?_⟩
    cases hx : Exec.argsAst as with
    | nil => exact absurd hx hne
    | cons a r => simp [optListO, optL]

/-- `parse_directive(is_const)` -/
theorem parseDirective_vinv (n : Nat) (c : Bool) (s s' : PS) (a : Ast) (hg : VPS body s)
    (h : parseDirective cfg n c s = .ok (a, s')) :
    VPS body s' ∧ ∃ d : Dir, Exec.dirWfC c d ∧ a = Exec.dirAst d := by
  unfold parseDirective at h
  obtain ⟨at_, t1, e1, h⟩ := bind_ok_inv h
  obtain ⟨nmA, t2, e2, h⟩ := bind_ok_inv h
  obtain ⟨o, t3, e3, h⟩ := bind_ok_inv h
  simp only [pure_eq'] at h
  cases h
  have q1 := (expectToken_vinv body cfg .at s t1 at_ e1 hg).1
  obtain ⟨q2, nm, hnm, rfl⟩ := parseName_vinv body cfg t1 t2 nmA e2 q1
  obtain ⟨q3, as, has, hoe⟩ := parseArguments_vinv body hsrc cfg n c t2 _ o q2 e3
  exact ⟨q3, ⟨nm, as⟩, ⟨hnm, has⟩, by simp [mk_dir, Exec.dirAst, hoe]⟩

theorem directivesLoop_vinv (n : Nat) (c : Bool) : ∀ (k : Nat) (acc : List Ast) (s s' : PS) (xs : List Ast),
    VPS body s → (∀ x ∈ acc, ∃ d : Dir, Exec.dirWfC c d ∧ x = Exec.dirAst d) →
    directivesLoop cfg n c k acc s = .ok (xs, s') →
    VPS body s' ∧ ∀ x ∈ xs, ∃ d : Dir, Exec.dirWfC c d ∧ x = Exec.dirAst d := by
  intro k
  induction k with
  | zero => intro acc s s' xs _ _ h; simp [directivesLoop, P.crash] at h
  | succ k ih =>
    intro acc s s' xs hg hacc h
    unfold directivesLoop at h
    obtain ⟨b, s1, h1, h⟩ := bind_ok_inv h
    simp only [peek] at h1
    cases h1
    split at h
    · obtain ⟨d, s2, h2, h⟩ := bind_ok_inv h
      obtain ⟨hg2, hd⟩ := parseDirective_vinv body hsrc cfg n c _ _ d hg h2
      refine ih _ _ _ _ hg2 ?_ h
      intro y hy
      rw [List.mem_append] at hy
      rcases hy with hy | hy
      · exact hacc y hy
      · simp only [List.mem_singleton] at hy; subst hy; exact hd
    · simp only [pure_eq'] at h
      cases h
      exact ⟨hg, hacc⟩

omit hsrc in
theorem dirs_of_all (c : Bool) : ∀ xs : List Ast,
    (∀ x ∈ xs, ∃ d : Dir, Exec.dirWfC c d ∧ x = Exec.dirAst d) →
    ∃ ds : List Dir, Exec.dirsWfC c ds ∧ xs = ds.map Exec.dirAst := by
  intro xs
  induction xs with
  | nil => intro _; exact ⟨[], trivial, rfl⟩
  | cons x r ih =>
    intro h
    obtain ⟨d, hd, rfl⟩ := h x (by simp)
    obtain ⟨ds, hds, rfl⟩ := ih (fun y hy => h y (by simp [hy]))
    exact ⟨d :: ds, by simp only [Exec.dirsWfC]; exact ⟨hd, hds⟩, by simp⟩

/-- `parse_directives(is_const)`: the `directives` attribute is that of well-formed directives. -/
theorem parseDirectives_vinv (n : Nat) (c : Bool) (s s' : PS) (o : Option (List Ast)) (hg : VPS body s)
    (h : parseDirectives cfg n c s = .ok (o, s')) :
    VPS body s' ∧ ∃ ds : List Dir, Exec.dirsWfC c ds ∧ optListO o = Exec.dirsAst ds := by
  unfold parseDirectives at h
  obtain ⟨xs, s1, h1, h⟩ := bind_ok_inv h
  simp only [pure_eq'] at h
  cases h
  obtain ⟨hg1, hall⟩ := directivesLoop_vinv body hsrc cfg n c n [] s _ xs hg (by intro x hx; cases hx) h1
  obtain ⟨ds, hds, rfl⟩ := dirs_of_all c xs hall
  refine ⟨hg1, ds, hds, ?_⟩
  cases ds with
  | nil => simp [optListO, Exec.dirsAst, optL]
  | cons d r => simp [optListO, Exec.dirsAst, optL]

omit hsrc in
/-- `parse_name`, with the token the name was read from. -/
theorem parseName_vinv2 (s s' : PS) (a : Ast) (h : parseName cfg s = .ok (a, s'))
    (hg : VPS body s) : VPS body s' ∧ ∃ n, validName n = true ∧ s.cur.value = some n ∧ a = Val.nameNode n := by
  unfold parseName at h
  obtain ⟨t, s1, he, h⟩ := bind_ok_inv h
  simp only [pure_eq'] at h
  cases h
  obtain ⟨hg1, rfl, hk⟩ := expectToken_vinv body cfg .name s _ _ he hg
  obtain ⟨n, hv, hn⟩ := hg.1.1 hk
  exact ⟨hg1, n, hn, hv, by simp [mkNode_name, tokVal, hv, Val.nameNode]⟩

omit hsrc in
/-- `parse_fragment_name`: a name other than `on`. -/
theorem parseFragmentName_vinv (s s' : PS) (a : Ast) (h : parseFragmentName cfg s = .ok (a, s'))
    (hg : VPS body s) : VPS body s' ∧ ∃ n, validName n = true ∧ n ≠ S "on" ∧ a = Val.nameNode n := by
  simp only [parseFragmentName, bind_eq, P.cur] at h
  split at h
  · simp [unexpected, P.fail, bind_eq, P.cur] at h
  · rename_i hon
    obtain ⟨hg1, n, hn, hv, rfl⟩ := parseName_vinv2 body cfg s s' a h hg
    refine ⟨hg1, n, hn, ?_, rfl⟩
    intro he
    exact hon ((valueIs_iff hv "on").mpr he)

omit hsrc in
theorem expectOptionalKeyword_vinv (v : String) (s s' : PS) (b : Bool)
    (h : expectOptionalKeyword cfg v s = .ok (b, s')) (hg : VPS body s) : VPS body s' := by
  simp only [expectOptionalKeyword, bind_eq, P.cur] at h
  split at h
  · rw [bind_eq] at h
    cases ha : advanceLexer cfg s with
    | ok r =>
      obtain ⟨u, s1⟩ := r
      rw [ha] at h
      simp only [pure_eq'] at h
      cases h
      exact advanceLexer_vinv body cfg s _ ha hg
    | err e => rw [ha] at h; cases h
    | crash c => rw [ha] at h; cases h
  · simp only [pure_eq'] at h
    cases h; exact hg

omit hsrc in
theorem parseNamedType_vinv (s s' : PS) (a : Ast) (h : parseNamedType cfg s = .ok (a, s'))
    (hg : VPS body s) : VPS body s' ∧ ∃ n, validName n = true ∧ a = namedType n := by
  unfold parseNamedType at h
  obtain ⟨nmA, s1, h1, h⟩ := bind_ok_inv h
  simp only [pure_eq'] at h
  cases h
  obtain ⟨hg1, n, hn, rfl⟩ := parseName_vinv body cfg s _ nmA h1 hg
  exact ⟨hg1, n, hn, by simp [mk_namedType, namedType]⟩

omit hsrc in
theorem validName_nonempty {n : List Nat} (h : validName n = true) : n ≠ [] := by
  intro he; subst he; simp [validName] at h

/-- What the nested `parse_selection_set` is assumed to return (induction hypothesis). -/
def SsInv (body : List Nat) (ss : P Ast) : Prop :=
  ∀ s s' a, VPS body s → ss s = .ok (a, s') →
    VPS body s' ∧ ∃ sels : List Sel, Exec.selsWf sels ∧ sels ≠ [] ∧ a = Exec.ssAst sels

/-- `parse_field` -/
theorem parseField_vinv (n : Nat) (ss : P Ast) (hss : SsInv body ss) (s s' : PS) (a : Ast) (hg : VPS body s)
    (h : parseField cfg n ss s = .ok (a, s')) :
    VPS body s' ∧ ∃ sel : Sel, Exec.selWf sel ∧ a = Exec.selAst sel := by
  unfold parseField at h
  obtain ⟨na, t1, e1, h⟩ := bind_ok_inv h
  obtain ⟨hasAlias, t2, e2, h⟩ := bind_ok_inv h
  obtain ⟨nm, t3, e3, h⟩ := bind_ok_inv h
  obtain ⟨oa, t4, e4, h⟩ := bind_ok_inv h
  obtain ⟨od, t5, e5, h⟩ := bind_ok_inv h
  obtain ⟨hasSel, t6, e6, h⟩ := bind_ok_inv h
  obtain ⟨sel, t7, e7, h⟩ := bind_ok_inv h
  simp only [pure_eq'] at h
  cases h
  obtain ⟨q1, n1, hn1, rfl⟩ := parseName_vinv body cfg s t1 na e1 hg
  have q2 := (expectOptionalToken_vinv body cfg .colon t1 t2 hasAlias e2 q1).1
  -- the field name and the alias
  have hname : VPS body t3 ∧ ∃ (al fn : List Nat), (al = [] ∨ validName al = true) ∧ validName fn = true ∧
      nm = Val.nameNode fn ∧ (if hasAlias = true then Val.nameNode n1 else Ast.none) = optName al := by
    cases hasAlias with
    | true =>
      simp only [↓reduceIte] at e3
      obtain ⟨q3, n2, hn2, rfl⟩ := parseName_vinv body cfg t2 t3 nm e3 q2
      refine ⟨q3, n1, n2, Or.inr hn1, hn2, rfl, ?_⟩
      cases n1 with
      | nil => exact absurd rfl (validName_nonempty hn1)
      | cons x r => simp [optName]
    | false =>
      simp only [Bool.false_eq_true, ↓reduceIte, pure_eq'] at e3
      cases e3
      exact ⟨q2, [], n1, Or.inl rfl, hn1, rfl, by simp [optName]⟩
  obtain ⟨q3, al, fn, hal, hfn, rfl, halias⟩ := hname
  obtain ⟨q4, as, has, hoa⟩ := parseArguments_vinv body hsrc cfg n false t3 t4 oa q3 e4
  obtain ⟨q5, ds, hds, hod⟩ := parseDirectives_vinv body hsrc cfg n false t4 t5 od q4 e5
  simp only [peek] at e6
  cases e6
  -- the nested selection set
  have hsel : VPS body s' ∧ ∃ sels : List Sel, Exec.selsWf sels ∧
      sel = (match sels with
        | [] => Ast.none
        | x :: r => .node "SelectionSetNode" [("selections", .list (Exec.selsAst (x :: r)))]) := by
    split at e7
    · obtain ⟨q7, sels, hw, hne, rfl⟩ := hss _ _ _ q5 e7
      refine ⟨q7, sels, hw, ?_⟩
      cases sels with
      | nil => exact absurd rfl hne
      | cons x r => rfl
    · simp only [pure_eq'] at e7
      cases e7
      exact ⟨q5, [], trivial, rfl⟩
  obtain ⟨q7, sels, hsw, rfl⟩ := hsel
  refine ⟨q7, .field al fn as ds sels, ⟨hal, hfn, has, hds, hsw⟩, ?_⟩
  rw [mk_fieldNode, halias, hoa, hod]
  cases sels <;> simp only [Exec.selAst]

/-- `parse_fragment` without `experimental_fragment_arguments`. -/
theorem parseFragment_vinv (hfa : cfg.fragArgs = false) (n : Nat) (ss : P Ast) (hss : SsInv body ss)
    (s s' : PS) (a : Ast) (hg : VPS body s) (h : parseFragment cfg n ss s = .ok (a, s')) :
    VPS body s' ∧ ∃ sel : Sel, Exec.selWf sel ∧ a = Exec.selAst sel := by
  unfold parseFragment at h
  obtain ⟨sp, t1, e1, h⟩ := bind_ok_inv h
  obtain ⟨hasTC, t2, e2, h⟩ := bind_ok_inv h
  obtain ⟨isName, t3, e3, h⟩ := bind_ok_inv h
  have q1 := (expectToken_vinv body cfg .spread s t1 sp e1 hg).1
  have q2 := expectOptionalKeyword_vinv body cfg "on" t1 t2 hasTC e2 q1
  simp only [peek] at e3
  cases e3
  split at h
  · -- fragment spread
    obtain ⟨nmA, t4, e4, h⟩ := bind_ok_inv h
    obtain ⟨paren, t5, e5, h⟩ := bind_ok_inv h
    simp only [peek] at e5
    cases e5
    simp only [hfa, Bool.and_false, Bool.false_eq_true, ↓reduceIte] at h
    obtain ⟨od, t6, e6, h⟩ := bind_ok_inv h
    simp only [pure_eq'] at h
    cases h
    obtain ⟨q4, nm, hnm, hon, rfl⟩ := parseFragmentName_vinv body cfg _ _ nmA e4 q2
    obtain ⟨q6, ds, hds, hod⟩ := parseDirectives_vinv body hsrc cfg n false _ _ od q4 e6
    exact ⟨q6, .spread nm ds, ⟨hnm, hon, hds⟩, by rw [mk_spreadNode, hod]; simp only [Exec.selAst]⟩
  · -- inline fragment
    obtain ⟨tc, t4, e4, h⟩ := bind_ok_inv h
    obtain ⟨od, t5, e5, h⟩ := bind_ok_inv h
    obtain ⟨sel, t6, e6, h⟩ := bind_ok_inv h
    simp only [pure_eq'] at h
    cases h
    have htc : VPS body t4 ∧ ∃ tn : List Nat, (tn = [] ∨ validName tn = true) ∧
        tc = (if tn.isEmpty then Ast.none else namedType tn) := by
      split at e4
      · obtain ⟨q4, tn, htn, rfl⟩ := parseNamedType_vinv body cfg _ _ tc e4 q2
        refine ⟨q4, tn, Or.inr htn, ?_⟩
        cases tn with
        | nil => exact absurd rfl (validName_nonempty htn)
        | cons x r => simp
      · simp only [pure_eq'] at e4
        cases e4
        exact ⟨q2, [], Or.inl rfl, by simp⟩
    obtain ⟨q4, tn, htn, rfl⟩ := htc
    obtain ⟨q5, ds, hds, hod⟩ := parseDirectives_vinv body hsrc cfg n false _ _ od q4 e5
    obtain ⟨q6, sels, hsw, hne, rfl⟩ := hss _ _ _ q5 e6
    exact ⟨q6, .inline tn ds sels, ⟨htn, hds, hne, hsw⟩,
      by rw [mk_inlineNode, hod]; simp only [Exec.selAst, Exec.ssAst]⟩

/-- `parse_selection` -/
theorem parseSelection_vinv (hfa : cfg.fragArgs = false) (n : Nat) (ss : P Ast) (hss : SsInv body ss)
    (s s' : PS) (a : Ast) (hg : VPS body s) (h : parseSelection cfg n ss s = .ok (a, s')) :
    VPS body s' ∧ ∃ sel : Sel, Exec.selWf sel ∧ a = Exec.selAst sel := by
  unfold parseSelection at h
  obtain ⟨sp, t1, e1, h⟩ := bind_ok_inv h
  simp only [peek] at e1
  cases e1
  split at h
  · exact parseFragment_vinv body hsrc cfg hfa n ss hss _ _ a hg h
  · exact parseField_vinv body hsrc cfg n ss hss _ _ a hg h

omit hsrc in
theorem sels_of_all : ∀ xs : List Ast,
    (∀ x ∈ xs, ∃ sel : Sel, Exec.selWf sel ∧ x = Exec.selAst sel) →
    ∃ sels : List Sel, Exec.selsWf sels ∧ xs = Exec.selsAst sels := by
  intro xs
  induction xs with
  | nil => intro _; exact ⟨[], trivial, rfl⟩
  | cons x r ih =>
    intro h
    obtain ⟨d, hd, rfl⟩ := h x (by simp)
    obtain ⟨ds, hds, rfl⟩ := ih (fun y hy => h y (by simp [hy]))
    exact ⟨d :: ds, by simp only [Exec.selsWf]; exact ⟨hd, hds⟩, by simp [Exec.selsAst]⟩

/-- **`parse_wf` for selection sets** (no `experimental_fragment_arguments`): whatever
`parse_selection_set` returns is the tree of a non-empty list of well-formed selections. -/
theorem selectionSet_vinv (hfa : cfg.fragArgs = false) : ∀ n : Nat, SsInv body (selectionSet n cfg) := by
  intro n
  induction n with
  | zero => intro s s' a _ h; simp [selectionSet, P.crash] at h
  | succ n ih =>
    intro s s' a hg h
    unfold selectionSet at h
    obtain ⟨xs, s1, h1, h⟩ := bind_ok_inv h
    simp only [pure_eq'] at h
    cases h
    obtain ⟨hg1, hne, hall⟩ := parseMany_vinv body cfg n .braceL .braceR _ _
      (fun s s' a hs hh => parseSelection_vinv body hsrc cfg hfa n _ ih s s' a hs hh) s _ xs hg h1
    obtain ⟨sels, hsw, rfl⟩ := sels_of_all xs hall
    refine ⟨hg1, sels, hsw, ?_, by simp [mk_ssNode, Exec.ssAst]⟩
    intro he; subst he; exact hne rfl

end

end Gql.Syntax
