import Gql.Proofs.ExecLex2
/-!
`render_lex` for stage-2 definitions and documents.
-/
namespace Gql.Text
open Gql.Syntax

theorem descText_head (w : Widths) (d : Desc) (h : d ≠ none) : (Exec.descText w d).head? = some 34 := by
  match d, h with
  | some (s, true), _ => simp [Exec.descText, printBlockStringW]
  | some (s, false), _ => simp [Exec.descText, printString, printStringWith]

theorem varDefsOp_eq_nil_iff (w : Widths) (vds : List VarDef) : Exec.varDefsOp w vds = [] ↔ vds = [] := by
  constructor
  · intro h
    by_cases hne : vds = []
    · exact hne
    exfalso
    have hts : vds.map (Exec.printVarDef w) ≠ [] := by simpa using hne
    have hnn := printVarDefs_ne_nil w vds
    unfold Exec.varDefsOp at h
    simp only at h
    split at h
    · rw [join_eq_joinWith _ _ hnn, wrap_of_ne _ _ _ (joinWith_eq_nil hnn hts)] at h; simp at h
    · rw [join_eq_joinWith _ _ hnn, wrap_of_ne _ _ _ (joinWith_eq_nil hnn hts)] at h; simp at h
  · rintro rfl; exact varDefsOp_nil w

theorem xopPre_eq (ot n V D : List Nat) (hot : ot ≠ []) :
    join [ot, join [n, V], D] [32] = ot ++ (wrap [32] (n ++ V) ++ wrap [32] D) := by
  rw [join_nil_sep, join_space _ _ hot]
  simp [spaced]

/-- The condition under which `leave_operation_definition` uses the shorthand form. -/
def shortCond (desc : Desc) (ot n : List Nat) (vds : List VarDef) (ds : List Dir) : Prop :=
  desc = none ∧ ot = S "query" ∧ n = [] ∧ vds.isEmpty = true ∧ ds.isEmpty = true

instance (desc : Desc) (ot n : List Nat) (vds : List VarDef) (ds : List Dir) : Decidable (shortCond desc ot n vds ds) := by
  unfold shortCond; infer_instance

theorem xopPre_query_iff (w : Widths) (desc : Desc) (ot n : List Nat) (vds : List VarDef) (ds : List Dir)
    (hot : Exec.isOpType ot) :
    wrap [] (Exec.descText w desc) [10] ++ join [ot, join [n, Exec.varDefsOp w vds], Exec.printDirs w ds] [32] =
      S "query" ↔ shortCond desc ot n vds ds := by
  have hne : ot ≠ [] := validName_ne_nil (validName_opType hot)
  rw [xopPre_eq _ _ _ _ hne]
  unfold shortCond
  constructor
  · intro h
    by_cases hd : desc = none
    · subst hd
      have hw0 : wrap [] (Exec.descText w none) [10] = [] := by simp [Exec.descText, wrap]
      rw [hw0, List.nil_append] at h
      by_cases hnv : n ++ Exec.varDefsOp w vds = []
      · by_cases hds : ds = []
        · have h1 := List.append_eq_nil_iff.mp hnv
          have hv := (varDefsOp_eq_nil_iff w vds).mp h1.2
          subst hds hv
          rw [hnv] at h
          simp [wrap, Exec.printDirs, join, joinWith] at h
          exact ⟨rfl, h, h1.1, rfl, rfl⟩
        · exfalso
          have : 32 ∈ ot ++ (wrap [32] (n ++ Exec.varDefsOp w vds) ++ wrap [32] (Exec.printDirs w ds)) := by
            simp only [List.mem_append]
            exact Or.inr (Or.inr (wrap_space_mem _ (fun h0 => hds ((printDirs_eq_nil_iff w ds).mp h0))))
          rw [h] at this
          revert this; decide
      · exfalso
        have : 32 ∈ ot ++ (wrap [32] (n ++ Exec.varDefsOp w vds) ++ wrap [32] (Exec.printDirs w ds)) := by
          simp only [List.mem_append]
          exact Or.inr (Or.inl (wrap_space_mem _ hnv))
        rw [h] at this
        revert this; decide
    · exfalso
      have hh := descText_head w desc hd
      have hdne : Exec.descText w desc ≠ [] := by intro h0; rw [h0] at hh; simp at hh
      rw [wrap_of_ne _ _ _ hdne] at h
      have := congrArg List.head? h
      obtain ⟨a, r, har⟩ := List.exists_cons_of_ne_nil hdne
      rw [har] at hh this
      simp at hh this
      rw [hh] at this
      revert this; decide
  · rintro ⟨rfl, rfl, rfl, hv, hd⟩
    have hv' : vds = [] := by cases vds <;> simp_all
    have hd' : ds = [] := by cases ds <;> simp_all
    subst hv' hd'
    simp [wrap, Exec.descText, varDefsOp_nil, Exec.printDirs, join, joinWith]

theorem printXDef_op (w : Widths) (desc : Desc) (ot n : List Nat) (vds : List VarDef) (ds : List Dir)
    (ss : List Sel) (hot : Exec.isOpType ot) (hbne : block (Exec.printSels w ss) ≠ []) :
    Exec.printXDef w (.op desc ot n vds ds ss) =
      if shortCond desc ot n vds ds then block (Exec.printSels w ss)
      else wrap [] (Exec.descText w desc) [10] ++ (ot ++ (wrap [32] (n ++ Exec.varDefsOp w vds) ++
        (wrap [32] (Exec.printDirs w ds) ++ wrap [32] (block (Exec.printSels w ss))))) := by
  have hne : ot ≠ [] := validName_ne_nil (validName_opType hot)
  simp only [Exec.printXDef]
  by_cases hs : shortCond desc ot n vds ds
  · rw [if_pos ((xopPre_query_iff w desc ot n vds ds hot).mpr hs), if_pos hs]; simp
  · rw [if_neg (fun h => hs ((xopPre_query_iff w desc ot n vds ds hot).mp h)), if_neg hs, xopPre_eq _ _ _ _ hne,
      wrap_space_of_ne hbne]
    simp [List.append_assoc]

theorem printXDef_frag (w : Widths) (desc : Desc) (n : List Nat) (vds : List VarDef) (tc : List Nat)
    (ds : List Dir) (ss : List Sel) (hn : n ≠ []) (htc : tc ≠ []) (hbne : block (Exec.printSels w ss) ≠ []) :
    Exec.printXDef w (.frag desc n vds tc ds ss) =
      wrap [] (Exec.descText w desc) [10] ++ (S "fragment" ++
        (wrap [32] (n ++ wrap [40] (join (vds.map (Exec.printVarDef w)) [44, 32]) [41]) ++
          (wrap [32] (S "on") ++ (wrap [32] tc ++
            (wrap [32] (Exec.printDirs w ds) ++ wrap [32] (block (Exec.printSels w ss))))))) := by
  simp only [Exec.printXDef]
  have hnv : n ++ wrap [40] (join (vds.map (Exec.printVarDef w)) [44, 32]) [41] ≠ [] := by simp [hn]
  rw [wrap_space_of_ne hnv, wrap_space_of_ne htc, wrap_space_of_ne hbne,
    wrap_space_of_ne (show S "on" ≠ [] by decide), S_fragment, S_on_sp]
  by_cases hd : Exec.printDirs w ds = []
  · simp [hd, wrap, List.append_assoc]
  · have : wrap [] (Exec.printDirs w ds) [32] = Exec.printDirs w ds ++ [32] := by
      cases hx : Exec.printDirs w ds with
      | nil => exact absurd hx hd
      | cons a r => simp [wrap]
    rw [wrap_space_of_ne hd, this]; simp [List.append_assoc]

end Gql.Text

namespace Gql.Text
open Gql.Syntax

/-- optional name directly followed by an optional `( … )` part -/
theorem lexOpt_name_paren (k : Nat) (n : List Nat) (hn : n = [] ∨ validName n = true) (V : List Nat) (kv : List KV)
    (hV : LexOpt V kv) (hhead : V ≠ [] → V.head? = some 40) :
    LexOpt (indentLF k n ++ V) ((if n.isEmpty then [] else [(.name, some n)]) ++ kv) := by
  by_cases hn0 : n = []
  · subst hn0; simpa [indentLF] using hV
  · have hv := hn.resolve_left hn0
    have hne : n.isEmpty = false := by cases n <;> simp_all
    right
    rw [indentLF_no10 k n (name_no10 hv)]
    refine ⟨by simp [hn0], ?_⟩
    rcases hV with ⟨rfl, rfl⟩ | ⟨hVne, hVl⟩
    · simpa [hne] using Lexes.name n hv
    · have := Lexes.append (Lexes.name n hv) hVl (by
        intro _ rest _
        obtain ⟨a, r, har⟩ := List.exists_cons_of_ne_nil hVne
        have := hhead hVne
        rw [har] at this ⊢
        simp at this; subst this
        exact Safe.cons (by decide))
      simpa [hne] using this

section
variable (w : Widths) (hw : 4 ≤ w.object)
variable (hT : tableOK Generated.escapeTable = true) (hC : tableComplete Generated.escapeTable = true)
include hw hT hC

omit hw hT hC in
theorem indentLF_head40 (k : Nat) (V : List Nat) (h : V ≠ [] → V.head? = some 40) :
    indentLF k V ≠ [] → (indentLF k V).head? = some 40 := by
  intro hne
  cases V with
  | nil => simp [indentLF] at hne
  | cons a r =>
    have := h (by simp)
    simp at this; subst this
    simp [indentLF]

omit hw hT hC in
theorem varDefs_head (vds : List VarDef) :
    (Exec.varDefsOp w vds ≠ [] → (Exec.varDefsOp w vds).head? = some 40) ∧
    (wrap [40] (join (vds.map (Exec.printVarDef w)) [44, 32]) [41] ≠ [] →
      (wrap [40] (join (vds.map (Exec.printVarDef w)) [44, 32]) [41]).head? = some 40) := by
  constructor
  · intro h
    unfold Exec.varDefsOp at h ⊢
    simp only at h ⊢
    split <;> rename_i hc <;> simp only [hc, ↓reduceIte] at h <;>
      (unfold wrap at h ⊢; split at h <;> simp_all)
  · intro h
    unfold wrap at h ⊢
    split at h <;> simp_all

theorem lexes_xdef (fa : Bool) (d : XDef) (h : Exec.xdefWf fa d) (k : Nat) :
    Lexes true (indentLF k (Exec.printXDef w d)) (Exec.xdefKvs d) := by
  cases d with
  | op desc ot n vds ds ss =>
    obtain ⟨hdesc, hot, hn, hvds, hds, hssne, hss⟩ := h
    obtain ⟨hbne, hB⟩ := lexes_ss w hw hT hC ss hssne hss k
    rw [printXDef_op w desc ot n vds ds ss hot hbne]
    simp only [Exec.xdefKvs, shortCond]
    by_cases hs : desc = none ∧ ot = S "query" ∧ n = [] ∧ vds.isEmpty = true ∧ ds.isEmpty = true
    · simp only [hs, and_self, ↓reduceIte]
      obtain ⟨rfl, rfl, rfl, _, _⟩ := hs
      simpa using hB
    · simp only [hs, ↓reduceIte]
      have hov := validName_opType hot
      have h0 : Lexes true (indentLF k ot) [(.name, some ot)] := by
        rw [indentLF_no10 k ot (name_no10 hov)]; exact Lexes.name ot hov
      have hNV := lexOpt_name_paren k n hn _ _ (lexes_varDefsOp w hw hT hC vds hvds k)
        (indentLF_head40 k _ (varDefs_head w vds).1)
      have h1 := lexes_optSpace h0 hNV
      have h2 := lexes_optSpace h1 (lexes_dirs w hw hT hC false ds hds k)
      have h3 := lexes_optSpace h2 (lexOpt_of_ne (indentLF_ne_nil hbne) hB)
      have h4 := lexes_descPre w hw hT hC desc hdesc k h3
      simp only [indentLF_append, indentLF_wrap]
      simpa [indentLF, indentLF_append, indentLF_wrap, List.append_assoc] using h4
  | frag desc n vds tc ds ss =>
    obtain ⟨hdesc, hn, _, _, hvds, htc, hds, hssne, hss⟩ := h
    obtain ⟨hbne, hB⟩ := lexes_ss w hw hT hC ss hssne hss k
    rw [printXDef_frag w desc n vds tc ds ss (validName_ne_nil hn) (validName_ne_nil htc) hbne]
    have hname : ∀ (x : List Nat), validName x = true → LexOpt (indentLF k x) [(.name, some x)] := by
      intro x hx
      have := lexOpt_name k x (Or.inr hx)
      have hxe : x.isEmpty = false := by
        have := validName_ne_nil hx; cases x <;> simp_all
      simpa [hxe] using this
    have h0 : Lexes true (indentLF k (S "fragment")) [(.name, some (S "fragment"))] := by
      rw [indentLF_no10 k _ (by decide)]; exact Lexes.name _ (by decide)
    have hNV := lexOpt_name_paren k n (Or.inr hn) _ _ (lexes_varDefsFrag w hw hT hC vds hvds k)
      (indentLF_head40 k _ (varDefs_head w vds).2)
    have hne' : n.isEmpty = false := by
      have := validName_ne_nil hn; cases n <;> simp_all
    have h1 := lexes_optSpace h0 hNV
    have h2 := lexes_optSpace h1 (hname (S "on") (by decide))
    have h3 := lexes_optSpace h2 (hname tc htc)
    have h4 := lexes_optSpace h3 (lexes_dirs w hw hT hC false ds hds k)
    have h5 := lexes_optSpace h4 (lexOpt_of_ne (indentLF_ne_nil hbne) hB)
    have h6 := lexes_descPre w hw hT hC desc hdesc k h5
    simp only [indentLF_append, indentLF_wrap]
    simpa [indentLF, indentLF_append, indentLF_wrap, Exec.xdefKvs, hne', List.append_assoc] using h6

end

end Gql.Text

namespace Gql.Text
open Gql.Syntax

theorem printXDef_last (w : Widths) (fa : Bool) (d : XDef) (h : Exec.xdefWf fa d) :
    (Exec.printXDef w d).getLast? = some 125 := by
  have key : ∀ ss : List Sel, ss ≠ [] → Exec.selsWf ss →
      block (Exec.printSels w ss) ≠ [] ∧ (block (Exec.printSels w ss)).getLast? = some 125 := by
    intro ss hne hss
    have hts : Exec.printSels w ss ≠ [] := by
      obtain ⟨s, r, rfl⟩ := List.exists_cons_of_ne_nil hne
      simp [Exec.printSels]
    have hne' := printSels_ne_nil w ss hss
    exact ⟨by rw [block_eq _ hts hne']; simp, block_last _ hts hne'⟩
  cases d with
  | op desc ot n vds ds ss =>
    obtain ⟨_, _, _, _, _, hssne, hss⟩ := h
    obtain ⟨hb, hl⟩ := key ss hssne hss
    simp only [Exec.printXDef]
    rw [getLast?_append_of_ne hb]; exact hl
  | frag desc n vds tc ds ss =>
    obtain ⟨_, _, _, _, _, _, _, hssne, hss⟩ := h
    obtain ⟨hb, hl⟩ := key ss hssne hss
    simp only [Exec.printXDef]
    rw [getLast?_append_of_ne hb]; exact hl

section
variable (w : Widths) (hw : 4 ≤ w.object)
variable (hT : tableOK Generated.escapeTable = true) (hC : tableComplete Generated.escapeTable = true)
include hw hT hC

theorem lexes_xdefs (fa : Bool) (defs : List XDef) (h : Exec.xdefsWf fa defs) :
    Lexes true (joinWith [10, 10] (defs.map (Exec.printXDef w))) (Exec.xdefsKvs defs) := by
  induction defs with
  | nil => exact Lexes.nil.weaken true
  | cons d r ih =>
    have hd := lexes_xdef w hw hT hC fa d h.1 0
    rw [indentLF_zero] at hd
    have ih' := ih h.2
    cases r with
    | nil => simpa [joinWith, Exec.xdefsKvs] using hd
    | cons d' r' =>
      simp only [List.map_cons, joinWith, Exec.xdefsKvs] at ih' ⊢
      have := Lexes.append_l (Lexes.append_ign hd (sep := [10, 10])
        (by intro x hx; simp at hx; simp [hx]) (by simp)) ih'
      simpa [List.append_assoc] using this

/-- `render_lex` for executable documents, stage 2. -/
theorem lexes_xdoc (fa : Bool) (defs : List XDef) (h : Exec.xdefsWf fa defs) :
    Lexes true (Exec.printXDoc w defs) (Exec.xdefsKvs defs) := by
  have hlast : ∀ t ∈ defs.map (Exec.printXDef w), t.getLast? = some 125 := by
    intro t ht
    simp only [List.mem_map] at ht
    obtain ⟨d, hd, rfl⟩ := ht
    have : Exec.xdefWf fa d := by
      clear hw hT hC
      induction defs with
      | nil => simp at hd
      | cons x r ih =>
        rcases List.mem_cons.mp hd with rfl | hd'
        · exact h.1
        · exact ih h.2 hd'
    exact printXDef_last w fa d this
  have hne : ∀ t ∈ defs.map (Exec.printXDef w), t ≠ [] := by
    intro t ht h0
    have := hlast t ht
    rw [h0] at this; simp at this
  unfold Exec.printXDoc
  rw [documentDefs_id _ hlast none (by intro p hp; cases hp), join_eq_joinWith _ _ hne]
  exact lexes_xdefs w hw hT hC fa defs h

end

end Gql.Text
