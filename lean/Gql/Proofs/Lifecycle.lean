import Gql.Async.Lifecycle
/-! Lemmas for C06: invariant and measure of the lifecycle bookkeeping machine. -/
namespace Gql.Async.Lifecycle

theorem mem_modifyAt (f : Task → Task) (i : Nat) (l : List Task) (t' : Task)
    (h : t' ∈ modifyAt f i l) : t' ∈ l ∨ ∃ t, l[i]? = some t ∧ t' = f t := by
  induction l generalizing i with
  | nil => simp [modifyAt] at h
  | cons a l ih =>
    cases i with
    | zero =>
      simp [modifyAt] at h
      rcases h with h | h
      · exact Or.inr ⟨a, by simp, h⟩
      · exact Or.inl (by simp [h])
    | succ i =>
      simp [modifyAt] at h
      rcases h with h | h
      · exact Or.inl (by simp [h])
      · rcases ih i h with h | ⟨t, ht, hf⟩
        · exact Or.inl (by simp [h])
        · exact Or.inr ⟨t, by simpa using ht, hf⟩

theorem pendingCount_modifyAt (f : Task → Task) (i : Nat) (l : List Task) (t : Task)
    (hi : l[i]? = some t) (hp : t.isPending = true) (hf : (f t).isPending = false) :
    pendingCount (modifyAt f i l) + 1 = pendingCount l := by
  induction l generalizing i with
  | nil => simp at hi
  | cons a l ih =>
    cases i with
    | zero =>
      simp at hi
      subst hi
      simp [modifyAt, pendingCount, hp, hf]
      omega
    | succ i =>
      simp at hi
      have := ih i hi
      simp [modifyAt, pendingCount]
      omega

theorem pendingCount_modifyAt_same (f : Task → Task) (i : Nat) (l : List Task)
    (hf : ∀ t, (f t).isPending = t.isPending) :
    pendingCount (modifyAt f i l) = pendingCount l := by
  induction l generalizing i with
  | nil => simp [modifyAt]
  | cons a l ih =>
    cases i with
    | zero => simp [modifyAt, pendingCount, hf]
    | succ i => simp [modifyAt, pendingCount, ih]

/-- The invariant of every state reachable when all created tasks are registered. -/
structure Inv (s : St) : Prop where
  reg : ∀ t ∈ s.tasks, t.registered = true
  srcRun : ∀ t ∈ s.tasks, t.src = some .running → t.isPending = true
  srcClosed : ∀ t ∈ s.tasks, ∀ n, t.src = some (.closed n) → n = 1
  stopped : s.phase ≠ .running → ∀ t ∈ s.tasks, t.isPending = true → t.cancelReq = true
  hook : s.hookFired = (if s.phase = .finished then 1 else 0)
  rel : s.released = (s.phase == .finished)

theorem inv_init : Inv init := by
  refine ⟨?_, ?_, ?_, ?_, ?_, ?_⟩ <;> simp [init]

theorem closeSrc_cases (o : Option SrcSt) :
    (o = some .running ∧ closeSrc o = some (.closed 1)) ∨ (o ≠ some .running ∧ closeSrc o = o) := by
  cases o with
  | none => right; simp [closeSrc]
  | some s => cases s <;> simp [closeSrc]

/-- a task leaving `pending` through `finish`/`deliverCancel` keeps the per-task clauses -/
theorem leave_ok (t : Task) (st' : TaskSt) (hst : st' ≠ .pending)
    (hc : ∀ n, t.src = some (.closed n) → n = 1) :
    let t' : Task := { t with st := st', src := closeSrc t.src }
    (t'.src = some .running → t'.isPending = true) ∧ (∀ n, t'.src = some (.closed n) → n = 1) ∧
      t'.isPending = false ∧ t'.registered = t.registered := by
  intro t'
  have hp : t'.isPending = false := by
    simp only [t', Task.isPending]
    cases st' <;> simp at hst ⊢
  rcases closeSrc_cases t.src with ⟨_, h2⟩ | ⟨h1, h2⟩
  · refine ⟨?_, ?_, hp, rfl⟩
    · intro h; simp [t', h2] at h
    · intro n h; simp [t', h2] at h; exact h.symm
  · refine ⟨?_, ?_, hp, rfl⟩
    · intro h; simp only [t', h2] at h; exact absurd h h1
    · intro n h; simp only [t', h2] at h; exact hc n h

theorem inv_step (s : St) (a : Action) (h : Inv s) (hen : enabled s a = true)
    (hreg : ∀ r hg ws, a = .spawn r hg ws → r = true) : Inv (step s a) := by
  obtain ⟨hr, hsr, hsc, hst, hh, hrel⟩ := h
  cases a with
  | spawn r hg ws =>
    have hr' := hreg r hg ws rfl
    have hph : s.phase = .running := by simpa [enabled] using hen
    refine ⟨?_, ?_, ?_, ?_, ?_, ?_⟩
    · intro t ht; simp [step] at ht
      rcases ht with ht | ht
      · exact hr t ht
      · simp [ht, hr']
    · intro t ht; simp [step] at ht
      rcases ht with ht | ht
      · exact hsr t ht
      · intro h; subst ht; cases ws <;> simp at h
    · intro t ht n; simp [step] at ht
      rcases ht with ht | ht
      · exact hsc t ht n
      · intro h; subst ht; cases ws <;> simp at h
    · intro hne; simp [step, hph] at hne
    · exact hh
    · exact hrel
  | startSrc i =>
    simp only [enabled] at hen
    cases hi : s.tasks[i]? with
    | none => simp [hi] at hen
    | some t0 =>
      simp [hi] at hen
      obtain ⟨⟨hp0, hc0⟩, hs0⟩ := hen
      have hmem0 : t0 ∈ s.tasks := List.mem_of_getElem? hi
      refine ⟨?_, ?_, ?_, ?_, ?_, ?_⟩
      · intro t ht
        rcases mem_modifyAt _ i _ t ht with h | ⟨u, hu, hf⟩
        · exact hr t h
        · rw [hi] at hu; cases hu; subst hf; exact hr t0 hmem0
      · intro t ht
        rcases mem_modifyAt _ i _ t ht with h | ⟨u, hu, hf⟩
        · exact hsr t h
        · rw [hi] at hu; cases hu; subst hf; intro _; simpa [Task.isPending] using hp0
      · intro t ht n
        rcases mem_modifyAt _ i _ t ht with h | ⟨u, hu, hf⟩
        · exact hsc t h n
        · rw [hi] at hu; cases hu; subst hf; intro h; simp at h
      · intro hne t ht hp
        rcases mem_modifyAt _ i _ t ht with h | ⟨u, hu, hf⟩
        · exact hst hne t h hp
        · rw [hi] at hu; cases hu; subst hf
          have := hst hne t0 hmem0 hp0
          simp [this] at hc0
      · exact hh
      · exact hrel
  | finish i =>
    simp only [enabled] at hen
    cases hi : s.tasks[i]? with
    | none => simp [hi] at hen
    | some t0 =>
      have hmem0 : t0 ∈ s.tasks := List.mem_of_getElem? hi
      have hl := leave_ok t0 .done (by simp) (hsc t0 hmem0)
      refine ⟨?_, ?_, ?_, ?_, ?_, ?_⟩
      · intro t ht
        rcases mem_modifyAt _ i _ t ht with h | ⟨u, hu, hf⟩
        · exact hr t h
        · rw [hi] at hu; cases hu; subst hf; rw [hl.2.2.2]; exact hr t0 hmem0
      · intro t ht
        rcases mem_modifyAt _ i _ t ht with h | ⟨u, hu, hf⟩
        · exact hsr t h
        · rw [hi] at hu; cases hu; subst hf; exact hl.1
      · intro t ht n
        rcases mem_modifyAt _ i _ t ht with h | ⟨u, hu, hf⟩
        · exact hsc t h n
        · rw [hi] at hu; cases hu; subst hf; exact hl.2.1 n
      · intro hne t ht hp
        rcases mem_modifyAt _ i _ t ht with h | ⟨u, hu, hf⟩
        · exact hst hne t h hp
        · rw [hi] at hu; cases hu; subst hf; rw [hl.2.2.1] at hp; cases hp
      · exact hh
      · exact hrel
  | deliverCancel i =>
    simp only [enabled] at hen
    cases hi : s.tasks[i]? with
    | none => simp [hi] at hen
    | some t0 =>
      have hmem0 : t0 ∈ s.tasks := List.mem_of_getElem? hi
      have hl := leave_ok t0 .cancelled (by simp) (hsc t0 hmem0)
      refine ⟨?_, ?_, ?_, ?_, ?_, ?_⟩
      · intro t ht
        rcases mem_modifyAt _ i _ t ht with h | ⟨u, hu, hf⟩
        · exact hr t h
        · rw [hi] at hu; cases hu; subst hf; rw [hl.2.2.2]; exact hr t0 hmem0
      · intro t ht
        rcases mem_modifyAt _ i _ t ht with h | ⟨u, hu, hf⟩
        · exact hsr t h
        · rw [hi] at hu; cases hu; subst hf; exact hl.1
      · intro t ht n
        rcases mem_modifyAt _ i _ t ht with h | ⟨u, hu, hf⟩
        · exact hsc t h n
        · rw [hi] at hu; cases hu; subst hf; exact hl.2.1 n
      · intro hne t ht hp
        rcases mem_modifyAt _ i _ t ht with h | ⟨u, hu, hf⟩
        · exact hst hne t h hp
        · rw [hi] at hu; cases hu; subst hf; rw [hl.2.2.1] at hp; cases hp
      · exact hh
      · exact hrel
  | stop k =>
    have hph : s.phase = .running := by simpa [enabled] using hen
    have hrc : ∀ t : Task, (requestCancel t).registered = t.registered ∧
        (requestCancel t).src = t.src ∧ (requestCancel t).isPending = t.isPending := by
      intro t; unfold requestCancel; split <;> simp [Task.isPending]
    refine ⟨?_, ?_, ?_, ?_, ?_, ?_⟩
    · intro t ht; simp [step] at ht
      obtain ⟨u, hu, rfl⟩ := ht
      rw [(hrc u).1]; exact hr u hu
    · intro t ht; simp [step] at ht
      obtain ⟨u, hu, rfl⟩ := ht
      rw [(hrc u).2.1, (hrc u).2.2]; exact hsr u hu
    · intro t ht n; simp [step] at ht
      obtain ⟨u, hu, rfl⟩ := ht
      rw [(hrc u).2.1]; exact hsc u hu n
    · intro _ t ht hp; simp [step] at ht
      obtain ⟨u, hu, rfl⟩ := ht
      rw [(hrc u).2.2] at hp
      simp [requestCancel, hp, hr u hu]
    · simp [step, hh, hph]
    · simp only [step, hrel, hph]; decide
  | fireHook =>
    have hph : s.phase = .stopping := by
      simp [enabled] at hen; exact hen.1
    refine ⟨hr, hsr, hsc, ?_, ?_, ?_⟩
    · intro _ t ht hp; exact hst (by simp [hph]) t ht hp
    · simp [step, hh, hph]
    · simp [step]

theorem inv_run (acts : List Action) (s : St) (h : Inv s) (hreg : AllRegistered acts)
    (hen : EnabledRun s acts) : Inv (run s acts) := by
  induction acts generalizing s with
  | nil => exact h
  | cons a acts ih =>
    obtain ⟨he, hrest⟩ := hen
    have hreg' : AllRegistered acts := by
      cases a <;> simp [AllRegistered] at hreg ⊢ <;> first | exact hreg | exact hreg.2
    apply ih _ _ hreg' hrest
    apply inv_step s a h he
    intro r hg ws ha
    subst ha
    simp [AllRegistered] at hreg
    exact hreg.1

/-- After a stop: a quiescent state is a good one. -/
theorem quiescent_good (s : St) (h : Inv s) (hph : s.phase ≠ .running) (hq : Quiescent s) :
    Good s := by
  obtain ⟨hr, hsr, hsc, hst, hh, hrel⟩ := h
  have hnp : ∀ t ∈ s.tasks, t.isPending = false := by
    intro t ht
    cases hp : t.isPending with
    | false => rfl
    | true =>
      obtain ⟨i, hi⟩ := List.mem_iff_getElem?.1 ht
      have := hq (.deliverCancel i)
      simp [enabled, hi, hp, hst hph t ht hp] at this
  have hfin : s.phase = .finished := by
    cases hphase : s.phase with
    | running => exact absurd hphase hph
    | finished => rfl
    | stopping =>
      have := hq .fireHook
      simp [enabled, hphase] at this
      obtain ⟨t, ht, hp, _⟩ := this
      rw [hnp t ht] at hp; cases hp
  refine ⟨hnp, ?_, ?_, ?_⟩
  · intro t ht
    cases hs : t.src with
    | none => exact Or.inl rfl
    | some st =>
      cases st with
      | notStarted => exact Or.inr (Or.inl rfl)
      | running => have := hsr t ht hs; rw [hnp t ht] at this; cases this
      | closed n => have := hsc t ht n hs; subst this; exact Or.inr (Or.inr rfl)
  · simp [hh, hfin]
  · simp [hrel, hfin]

theorem phase_step (s : St) (a : Action) (hph : s.phase ≠ .running) (hen : enabled s a = true) :
    (step s a).phase ≠ .running := by
  cases a <;> simp [step, enabled] at hen ⊢ <;> first | exact hph | exact absurd hen hph | skip

/-- After a stop every enabled action consumes one unit of fuel. -/
theorem fuel_step (s : St) (a : Action) (h : Inv s) (hph : s.phase ≠ .running)
    (hen : enabled s a = true) : fuel (step s a) + 1 = fuel s := by
  cases a with
  | spawn r hg ws => simp [enabled] at hen; exact absurd hen hph
  | stop k => simp [enabled] at hen; exact absurd hen hph
  | startSrc i =>
    simp only [enabled] at hen
    cases hi : s.tasks[i]? with
    | none => simp [hi] at hen
    | some t0 =>
      simp [hi] at hen
      have := h.stopped hph t0 (List.mem_of_getElem? hi) hen.1.1
      simp [this] at hen
  | finish i =>
    simp only [enabled] at hen
    cases hi : s.tasks[i]? with
    | none => simp [hi] at hen
    | some t0 =>
      simp [hi] at hen
      have := h.stopped hph t0 (List.mem_of_getElem? hi) hen.1.1
      simp [this] at hen
  | deliverCancel i =>
    simp only [enabled] at hen
    cases hi : s.tasks[i]? with
    | none => simp [hi] at hen
    | some t0 =>
      simp [hi] at hen
      have := pendingCount_modifyAt (fun t => { t with st := .cancelled, src := closeSrc t.src })
        i s.tasks t0 hi hen.1 (by simp [Task.isPending])
      cases hp2 : s.phase <;> simp [fuel, step, hp2] <;> omega
  | fireHook =>
    simp [enabled] at hen
    simp [fuel, step, hen.1]

/-- After a stop no schedule is longer than the fuel: every run ends. -/
theorem run_bounded (acts : List Action) (s : St) (h : Inv s) (hph : s.phase ≠ .running)
    (hreg : AllRegistered acts) (hen : EnabledRun s acts) : acts.length ≤ fuel s := by
  induction acts generalizing s with
  | nil => simp
  | cons a acts ih =>
    obtain ⟨he, hrest⟩ := hen
    have hreg' : AllRegistered acts := by
      cases a <;> simp [AllRegistered] at hreg ⊢ <;> first | exact hreg | exact hreg.2
    have hinv : Inv (step s a) := by
      apply inv_step s a h he
      intro r hg ws ha; subst ha; simp [AllRegistered] at hreg; exact hreg.1
    have := ih (step s a) hinv (phase_step s a hph he) hreg' hrest
    have hf := fuel_step s a h hph he
    simp; omega

theorem phase_run (acts : List Action) (s : St) (hph : s.phase ≠ .running)
    (hen : EnabledRun s acts) : (run s acts).phase ≠ .running := by
  induction acts generalizing s with
  | nil => exact hph
  | cons a acts ih => exact ih _ (phase_step s a hph hen.1) hen.2

instance decEnabledRun : (s : St) → (acts : List Action) → Decidable (EnabledRun s acts)
  | _, [] => isTrue trivial
  | s, a :: acts =>
    have := decEnabledRun (step s a) acts
    (inferInstance : Decidable (enabled s a = true ∧ EnabledRun (step s a) acts))

instance decAllRegistered : (acts : List Action) → Decidable (AllRegistered acts)
  | [] => isTrue trivial
  | .spawn r _ _ :: acts =>
    have := decAllRegistered acts
    (inferInstance : Decidable (r = true ∧ AllRegistered acts))
  | .startSrc _ :: acts => decAllRegistered acts
  | .finish _ :: acts => decAllRegistered acts
  | .stop _ :: acts => decAllRegistered acts
  | .deliverCancel _ :: acts => decAllRegistered acts
  | .fireHook :: acts => decAllRegistered acts

end Gql.Async.Lifecycle
