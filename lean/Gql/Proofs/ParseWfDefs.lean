import Gql.Proofs.ParseWfExec
import Gql.Proofs.ExecDocParse
import Gql.Proofs.ExecParse2
/-!
C08, converse direction (`parse_wf`), second layer of the document grammar: type references (from a
`VPS` state), descriptions, variable definitions, operation definitions and fragment definitions
(no `experimental_fragment_arguments`).  Whatever `parse_operation_definition` /
`parse_fragment_definition` return from a parser state over the tokens of a source text without
surrogates is the tree of a well-formed `XDef`.
-/
namespace Gql.Syntax
open Gql Gql.Text

section
variable (body : List Nat) (hsrc : ∀ x ∈ body, isSurr x = false) (cfg : Cfg)

/-- `parse_type_reference` from a `VPS` state (as `typeRef_inv`, with the stronger invariant). -/
theorem typeRef_vinv : ∀ (n : Nat) (s s' : PS) (a : Ast), VPS body s →
    typeRef n cfg s = .ok (a, s') →
    VPS body s' ∧ ∃ t : Ty, t.wf = true ∧ TyP.shaped t = true ∧ a = t.toAst := by
  intro n
  induction n with
  | zero => intro s s' a _ h; simp [typeRef, P.crash] at h
  | succ n ih =>
    intro s s' a hg h
    unfold typeRef at h
    obtain ⟨isList, s1, h1, h⟩ := bind_ok_inv h
    obtain ⟨ty, s2, h2, h⟩ := bind_ok_inv h
    obtain ⟨bang, s3, h3, h⟩ := bind_ok_inv h
    have hg1 := (expectOptionalToken_vinv body cfg .bracketL s s1 isList h1 hg).1
    have hcore : VPS body s2 ∧ ∃ t : Ty, t.wf = true ∧ TyP.shaped t = true ∧ TyP.isCore t = true ∧
        ty = t.toAst := by
      cases isList with
      | true =>
        simp only [↓reduceIte] at h2
        obtain ⟨inner, s4, e1, h2⟩ := bind_ok_inv h2
        obtain ⟨tk, s5, e2, h2⟩ := bind_ok_inv h2
        simp only [pure_eq'] at h2
        cases h2
        obtain ⟨hg4, t, hwf, hsh, rfl⟩ := ih s1 s4 inner hg1 e1
        exact ⟨(expectToken_vinv body cfg .bracketR s4 _ tk e2 hg4).1, .list t, hwf, hsh, rfl,
          by simp [TyP.mkNode_list, Ty.toAst]⟩
      | false =>
        simp only [Bool.false_eq_true, ↓reduceIte] at h2
        unfold parseNamedType at h2
        obtain ⟨nmA, s4, e1, h2⟩ := bind_ok_inv h2
        simp only [pure_eq'] at h2
        cases h2
        obtain ⟨hg4, nm, hv, rfl⟩ := parseName_vinv body cfg s1 _ nmA e1 hg1
        exact ⟨hg4, .named nm, hv, rfl, rfl, by simp [TyP.mkNode_named, Ty.toAst, Val.nameNode]⟩
    obtain ⟨hg2, t, hwf, hsh, hco, rfl⟩ := hcore
    have hg3 := (expectOptionalToken_vinv body cfg .bang s2 s3 bang h3 hg2).1
    cases bang with
    | true =>
      simp only [↓reduceIte, pure_eq'] at h
      cases h
      exact ⟨hg3, .nonNull t, hwf, by simp [TyP.shaped, hco, hsh], by simp [TyP.mkNode_nonNull, Ty.toAst]⟩
    | false =>
      simp only [Bool.false_eq_true, ↓reduceIte, pure_eq'] at h
      cases h
      exact ⟨hg3, t, hwf, hsh, rfl⟩

include hsrc

/-- `parse_description` -/
theorem parseDescription_vinv (s s' : PS) (a : Ast) (hg : VPS body s)
    (h : parseDescription cfg s = .ok (a, s')) :
    VPS body s' ∧ ∃ d : Desc, Exec.descWf d ∧ a = Exec.descAst d := by
  simp only [parseDescription, peekDescription, bind_eq, P.cur, pure_eq'] at h
  split at h
  · rename_i hk
    simp only [parseStringLiteral, bind_eq, P.cur] at h
    obtain ⟨u, s1, h1, h⟩ := bind_ok_inv (p := advanceLexer cfg) (f := fun _ => pure _) h
    simp only [pure_eq'] at h
    cases h
    have hg1 := advance_vinv body cfg s _ u h1 hg
    simp only [Bool.or_eq_true, beq_iff_eq] at hk
    rcases hk with hk | hk
    · obtain ⟨sv, hsv, hch, _⟩ := hg.1.2.2.2.1 hk
      exact ⟨hg1, some (sv, false), ⟨fun c hc => ChOk.isScalar hsrc (hch c hc), fun hb => by cases hb⟩,
        by simp [mk_str, tokValOrEmpty, hsv, Exec.descAst, hk]⟩
    · obtain ⟨sv, hsv, hch, hrep, _⟩ := hg.1.2.2.2.2 hk
      exact ⟨hg1, some (sv, true), ⟨fun c hc => ChOk.isScalar hsrc (hch c hc), fun _ => hrep⟩,
        by simp [mk_str, tokValOrEmpty, hsv, Exec.descAst, hk]⟩
  · cases h
    exact ⟨hg, none, trivial, rfl⟩

omit hsrc in
theorem parseVariable_vinv (s s' : PS) (a : Ast) (hg : VPS body s) (h : parseVariable cfg s = .ok (a, s')) :
    VPS body s' ∧ ∃ n, validName n = true ∧ a = .node "VariableNode" [("name", Val.nameNode n)] := by
  unfold parseVariable at h
  obtain ⟨t, s1, h1, h⟩ := bind_ok_inv h
  obtain ⟨nm, s2, h2, h⟩ := bind_ok_inv h
  simp only [pure_eq'] at h
  cases h
  have hg1 := (expectToken_vinv body cfg .dollar s _ t h1 hg).1
  obtain ⟨hg2, n', hv, rfl⟩ := parseName_vinv body cfg _ _ nm h2 hg1
  exact ⟨hg2, n', hv, by simp [mk_var]⟩

/-- `parse_variable_definition` -/
theorem parseVariableDefinition_vinv (n : Nat) (s s' : PS) (a : Ast) (hg : VPS body s)
    (h : parseVariableDefinition cfg n s = .ok (a, s')) :
    VPS body s' ∧ ∃ vd : VarDef, Exec.varDefWf vd ∧ a = Exec.varDefAst vd := by
  unfold parseVariableDefinition at h
  obtain ⟨da, t1, e1, h⟩ := bind_ok_inv h
  obtain ⟨va, t2, e2, h⟩ := bind_ok_inv h
  obtain ⟨ct, t3, e3, h⟩ := bind_ok_inv h
  obtain ⟨ta, t4, e4, h⟩ := bind_ok_inv h
  obtain ⟨hasDefault, t5, e5, h⟩ := bind_ok_inv h
  obtain ⟨dflt, t6, e6, h⟩ := bind_ok_inv h
  obtain ⟨od, t7, e7, h⟩ := bind_ok_inv h
  simp only [pure_eq'] at h
  cases h
  obtain ⟨q1, desc, hdesc, rfl⟩ := parseDescription_vinv body hsrc cfg s t1 da hg e1
  obtain ⟨q2, vn, hvn, rfl⟩ := parseVariable_vinv body cfg t1 t2 va q1 e2
  have q3 := (expectToken_vinv body cfg .colon t2 t3 ct e3 q2).1
  obtain ⟨q4, ty, htw, hts, rfl⟩ := typeRef_vinv body cfg n t3 t4 ta q3 e4
  have q5 := (expectOptionalToken_vinv body cfg .equals t4 t5 hasDefault e5 q4).1
  have hd : VPS body t6 ∧ ∃ dv : Option Val, (match dv with | none => True | some v => Val.wf true v) ∧
      dflt = Exec.dfltAst dv := by
    split at e6
    · obtain ⟨q6, v, hv, rfl⟩ := valueLit_vwf body hsrc cfg true n t5 t6 dflt q5 e6
      exact ⟨q6, some v, hv, rfl⟩
    · simp only [pure_eq'] at e6
      cases e6
      exact ⟨q5, none, trivial, rfl⟩
  obtain ⟨q6, dv, hdv, rfl⟩ := hd
  obtain ⟨q7, ds, hds, hod⟩ := parseDirectives_vinv body hsrc cfg n true t6 _ od q6 e7
  exact ⟨q7, ⟨desc, vn, ty, dv, ds⟩, ⟨hdesc, hvn, htw, hts, hdv, hds⟩,
    by rw [mk_varDefNode, hod]; simp only [Exec.varDefAst]⟩

omit hsrc in
theorem varDefs_of_all : ∀ xs : List Ast,
    (∀ x ∈ xs, ∃ vd : VarDef, Exec.varDefWf vd ∧ x = Exec.varDefAst vd) →
    ∃ vds : List VarDef, Exec.varDefsWf vds ∧ xs = vds.map Exec.varDefAst := by
  intro xs
  induction xs with
  | nil => intro _; exact ⟨[], trivial, rfl⟩
  | cons x r ih =>
    intro h
    obtain ⟨d, hd, rfl⟩ := h x (by simp)
    obtain ⟨ds, hds, rfl⟩ := ih (fun y hy => h y (by simp [hy]))
    exact ⟨d :: ds, by simp only [Exec.varDefsWf]; exact ⟨hd, hds⟩, by simp⟩

/-- `parse_variable_definitions` -/
theorem parseVariableDefinitions_vinv (n : Nat) (s s' : PS) (o : Option (List Ast)) (hg : VPS body s)
    (h : parseVariableDefinitions cfg n s = .ok (o, s')) :
    VPS body s' ∧ ∃ vds : List VarDef, Exec.varDefsWf vds ∧ optListO o = optL (vds.map Exec.varDefAst) := by
  unfold parseVariableDefinitions at h
  obtain ⟨hg', ho⟩ := parseOptionalMany_vinv body cfg n .parenL .parenR _ _
    (fun s s' a hs hh => parseVariableDefinition_vinv body hsrc cfg n s s' a hs hh) s s' o hg h
  refine ⟨hg', ?_⟩
  rcases ho with rfl | ⟨xs, rfl, hne, hall⟩
  · exact ⟨[], trivial, rfl⟩
  · obtain ⟨vds, hvds, rfl⟩ := varDefs_of_all xs hall
    refine ⟨vds, hvds, ?_⟩
    cases vds with
    | nil => exact absurd rfl hne
    | cons a r => simp [optListO, optL]

omit hsrc in
/-- `parse_operation_type` -/
theorem parseOperationType_vinv (s s' : PS) (a : Ast) (hg : VPS body s)
    (h : parseOperationType cfg s = .ok (a, s')) :
    VPS body s' ∧ ∃ ot : List Nat, Exec.isOpType ot ∧ a = .str ot := by
  unfold parseOperationType at h
  obtain ⟨t, s1, h1, h⟩ := bind_ok_inv h
  obtain ⟨hg1, rfl, hk⟩ := expectToken_vinv body cfg .name s _ _ h1 hg
  obtain ⟨nv, hnv, _⟩ := hg.1.1 hk
  split at h
  · rename_i hany
    simp only [pure_eq'] at h
    cases h
    refine ⟨hg1, nv, ?_, by simp [tokVal, hnv]⟩
    simp only [Gql.Generated.ParserTables.operationTypes, List.any_cons, List.any_nil, Bool.or_false, Bool.or_eq_true] at hany
    rcases hany with h' | h' | h'
    · exact Or.inl ((valueIs_iff hnv _).mp h')
    · exact Or.inr (Or.inl ((valueIs_iff hnv _).mp h'))
    · exact Or.inr (Or.inr ((valueIs_iff hnv _).mp h'))
  · simp [unexpected, P.fail, bind_eq, P.cur] at h

omit hsrc in
theorem expectKeyword_vinv (v : String) (s s' : PS) (u : Unit)
    (h : expectKeyword cfg v s = .ok (u, s')) (hg : VPS body s) : VPS body s' := by
  simp only [expectKeyword, bind_eq, P.cur] at h
  split at h
  · exact advanceLexer_vinv body cfg s _ h hg
  · cases h

/-- **`parse_wf` for operation definitions** (no `experimental_fragment_arguments`). -/
theorem parseOperationDefinition_vinv (hfa : cfg.fragArgs = false) (n : Nat) (s s' : PS) (a : Ast)
    (hg : VPS body s) (h : parseOperationDefinition cfg n s = .ok (a, s')) :
    VPS body s' ∧ ∃ x : XDef, Exec.xdefWf false x ∧ a = Exec.xdefAst false x := by
  unfold parseOperationDefinition at h
  obtain ⟨brace, t0, e0, h⟩ := bind_ok_inv h
  simp only [peek] at e0
  cases e0
  split at h
  · obtain ⟨sel, t1, e1, h⟩ := bind_ok_inv h
    simp only [pure_eq'] at h
    cases h
    obtain ⟨q1, sels, hsw, hne, rfl⟩ := selectionSet_vinv body hsrc cfg hfa n _ _ sel hg e1
    exact ⟨q1, .op none (S "query") [] [] [] sels, ⟨trivial, Or.inl rfl, Or.inl rfl, trivial, trivial, hne, hsw⟩,
      by rw [mk_opNode]; simp [Exec.xdefAst, Exec.descAst, optName, optL, Exec.dirsAst, strCps, S]⟩
  · obtain ⟨da, t1, e1, h⟩ := bind_ok_inv h
    obtain ⟨oa, t2, e2, h⟩ := bind_ok_inv h
    obtain ⟨isName, t3, e3, h⟩ := bind_ok_inv h
    obtain ⟨nm, t4, e4, h⟩ := bind_ok_inv h
    obtain ⟨ov, t5, e5, h⟩ := bind_ok_inv h
    obtain ⟨od, t6, e6, h⟩ := bind_ok_inv h
    obtain ⟨sel, t7, e7, h⟩ := bind_ok_inv h
    simp only [pure_eq'] at h
    cases h
    obtain ⟨q1, desc, hdesc, rfl⟩ := parseDescription_vinv body hsrc cfg _ t1 da hg e1
    obtain ⟨q2, ot, hot, rfl⟩ := parseOperationType_vinv body cfg t1 t2 oa q1 e2
    simp only [peek] at e3
    cases e3
    have hn : VPS body t4 ∧ ∃ on : List Nat, (on = [] ∨ validName on = true) ∧ nm = optName on := by
      split at e4
      · obtain ⟨q4, on, hon, rfl⟩ := parseName_vinv body cfg _ t4 nm e4 q2
        refine ⟨q4, on, Or.inr hon, ?_⟩
        cases on with
        | nil => exact absurd rfl (validName_nonempty hon)
        | cons x r => simp [optName]
      · simp only [pure_eq'] at e4
        cases e4
        exact ⟨q2, [], Or.inl rfl, by simp [optName]⟩
    obtain ⟨q4, on, hon, rfl⟩ := hn
    obtain ⟨q5, vds, hvds, hov⟩ := parseVariableDefinitions_vinv body hsrc cfg n t4 t5 ov q4 e5
    obtain ⟨q6, ds, hds, hod⟩ := parseDirectives_vinv body hsrc cfg n false t5 t6 od q5 e6
    obtain ⟨q7, sels, hsw, hne, rfl⟩ := selectionSet_vinv body hsrc cfg hfa n t6 _ sel q6 e7
    exact ⟨q7, .op desc ot on vds ds sels, ⟨hdesc, hot, hon, hvds, hds, hne, hsw⟩,
      by rw [mk_opNode, hov, hod]; simp only [Exec.xdefAst]⟩

/-- **`parse_wf` for fragment definitions** (no `experimental_fragment_arguments`). -/
theorem parseFragmentDefinition_vinv (hfa : cfg.fragArgs = false) (n : Nat) (s s' : PS) (a : Ast)
    (hg : VPS body s) (h : parseFragmentDefinition cfg n s = .ok (a, s')) :
    VPS body s' ∧ ∃ x : XDef, Exec.xdefWf false x ∧ a = Exec.xdefAst false x := by
  unfold parseFragmentDefinition at h
  obtain ⟨da, t1, e1, h⟩ := bind_ok_inv h
  obtain ⟨u, t2, e2, h⟩ := bind_ok_inv h
  obtain ⟨nm, t3, e3, h⟩ := bind_ok_inv h
  obtain ⟨vds, t4, e4, h⟩ := bind_ok_inv h
  obtain ⟨tc, t5, e5, h⟩ := bind_ok_inv h
  obtain ⟨od, t6, e6, h⟩ := bind_ok_inv h
  obtain ⟨sel, t7, e7, h⟩ := bind_ok_inv h
  simp only [pure_eq'] at h
  cases h
  obtain ⟨q1, desc, hdesc, rfl⟩ := parseDescription_vinv body hsrc cfg s t1 da hg e1
  have q2 := expectKeyword_vinv body cfg "fragment" t1 t2 u e2 q1
  obtain ⟨q3, fn, hfn, hon, rfl⟩ := parseFragmentName_vinv body cfg t2 t3 nm e3 q2
  simp only [hfa, Bool.false_eq_true, ↓reduceIte, pure_eq'] at e4
  cases e4
  unfold parseTypeCondition at e5
  obtain ⟨u2, t8, e8, e5⟩ := bind_ok_inv e5
  have q4 := expectKeyword_vinv body cfg "on" _ t8 u2 e8 q3
  obtain ⟨q5, tn, htn, rfl⟩ := parseNamedType_vinv body cfg t8 t5 tc e5 q4
  obtain ⟨q6, ds, hds, hod⟩ := parseDirectives_vinv body hsrc cfg n false t5 t6 od q5 e6
  obtain ⟨q7, sels, hsw, hne, rfl⟩ := selectionSet_vinv body hsrc cfg hfa n t6 _ sel q6 e7
  exact ⟨q7, .frag desc fn [] tn ds sels, ⟨hdesc, hfn, hon, Or.inl rfl, trivial, htn, hds, hne, hsw⟩,
    by rw [mk_fragNode, hod]; simp [Exec.xdefAst]⟩

end

end Gql.Syntax
