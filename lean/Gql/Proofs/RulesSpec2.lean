import Gql.Proofs.RulesSpec
import Gql.Proofs.RulesGroup
/-!
C12 — `rule_iff_spec` for NoUnusedVariables, UniqueArgumentNames, UniqueVariableNames.
-/
namespace Gql.Validation.Rules
open Gql.Validation

variable {τ : Type}

theorem unusedVarErrors_nil_iff (used : List String) (n : ATree) :
    unusedVarErrors used n = [] ↔
      ∀ vd ∈ n.kids "variable_definitions", ∃ v, (vd.kid "variable").bind (·.nameValue) = some v ∧ v ∈ used := by
  unfold unusedVarErrors
  rw [List.filterMap_eq_nil_iff]
  apply forall_congr'; intro vd
  apply imp_congr_right; intro _
  cases h : (vd.kid "variable").bind (·.nameValue) with
  | none => simp
  | some v =>
    by_cases hc : v ∈ used
    · simp [hc]
    · simp [hc]

theorem noUnusedVariables_stateless (doc : ATree) :
    (noUnusedVariables (τ := τ) doc).Stateless (reportsOf (noUnusedVariables (τ := τ) doc)) := by
  intro s ph i ti
  simp only [reportsOf, noUnusedVariables, withNode]
  split
  · cases ph
    · rfl
    · simp only
      split <;> rfl
  · rfl

theorem noUnusedVariables_iff (tbl : TITable) (L : Lookups τ) (doc : ATree) (hu : doc.uniqueIds) :
    validate tbl L none [(noUnusedVariables doc, RS.init)] doc.erase = [] ↔ Spec.noUnusedVariables doc := by
  rw [stateless_nil_iff tbl L _ _ (noUnusedVariables_stateless doc)]
  unfold Spec.noUnusedVariables
  apply forall_congr'; intro n
  apply imp_congr_right; intro hn
  have hfind : doc.find n.info.id = some n := ATree.find_of_mem.1 doc hu n hn
  simp only [noUnusedVariables, reportsOf, withNode, hfind, ATree.kind]
  constructor
  · rintro ⟨_, h⟩
    constructor
    · intro hk
      have h' := h (by simp [hk])
      simp only [hk, beq_self_eq_true, if_true] at h'
      exact (unusedVarErrors_nil_iff _ _).mp h'
    · intro hk
      have h' := h (by simp [hk])
      have hne : ("operation_definition" == "fragment_definition") = false := by decide
      simp only [hk, hne] at h'
      exact (unusedVarErrors_nil_iff _ _).mp h'
  · rintro ⟨h1, h2⟩
    refine ⟨by simp, ?_⟩
    intro hk
    by_cases hfd : n.info.kind = "fragment_definition"
    · simp only [hfd, beq_self_eq_true, if_true]
      exact (unusedVarErrors_nil_iff _ _).mpr (h1 hfd)
    · have hop : n.info.kind = "operation_definition" := by
        simp only [Bool.or_eq_true, beq_iff_eq] at hk
        rcases hk with hk | hk
        · exact hk
        · exact absurd hk hfd
      have hne : (n.info.kind == "fragment_definition") = false := by simp [hfd]
      simp only [hne]
      exact (unusedVarErrors_nil_iff _ _).mpr (h2 hop)

namespace Spec
/-- "The arguments of every field and of every directive have pairwise distinct names" (spec §5.4.2). -/
def uniqueArgumentNames (doc : ATree) : Prop :=
  ∀ n ∈ doc.nodes, (n.kind = "field" ∨ n.kind = "directive") →
    ∃ items, keyed (n.kids "arguments") (fun a => a.kid "name") = some items ∧ (items.map Prod.fst).Nodup

/-- "The variables every operation defines have pairwise distinct names" (spec §5.8.1). -/
def uniqueVariableNames (doc : ATree) : Prop :=
  ∀ n ∈ doc.nodes, n.kind = "operation_definition" →
    ∃ items, keyed (n.kids "variable_definitions") (fun vd => (vd.kid "variable").bind (·.kid "name")) = some items ∧
      (items.map Prod.fst).Nodup
end Spec

theorem uniqueArgumentNames_stateless (doc : ATree) :
    (uniqueArgumentNames (τ := τ) doc).Stateless (reportsOf (uniqueArgumentNames (τ := τ) doc)) := by
  intro s ph i ti
  simp only [reportsOf, uniqueArgumentNames, withNode]
  split
  · cases ph
    · simp only
      split <;> rfl
    · rfl
  · rfl

theorem uniqueVariableNames_stateless (doc : ATree) :
    (uniqueVariableNames (τ := τ) doc).Stateless (reportsOf (uniqueVariableNames (τ := τ) doc)) := by
  intro s ph i ti
  simp only [reportsOf, uniqueVariableNames, withNode]
  split
  · cases ph
    · simp only
      split <;> rfl
    · rfl
  · rfl

/-- the shape shared by the two rules: `keyed … = some items` and no duplicate reported -/
theorem keyed_dup_nil_iff (rule : String) (k : Option (List (String × Nat))) :
    (match k with
      | some items => ((Action.idle, RS.init, dupErrors rule items) : Action × RS × List RErr)
      | none => (Action.idle, RS.init, [RErr.crash rule])).2.2 = [] ↔
    ∃ items, k = some items ∧ (items.map Prod.fst).Nodup := by
  cases k with
  | none => simp
  | some items => simp [dupErrors_nil_iff]

theorem uniqueArgumentNames_iff (tbl : TITable) (L : Lookups τ) (doc : ATree) (hu : doc.uniqueIds) :
    validate tbl L none [(uniqueArgumentNames doc, RS.init)] doc.erase = [] ↔ Spec.uniqueArgumentNames doc := by
  rw [stateless_nil_iff tbl L _ _ (uniqueArgumentNames_stateless doc)]
  unfold Spec.uniqueArgumentNames
  apply forall_congr'; intro n
  apply imp_congr_right; intro hn
  have hfind : doc.find n.info.id = some n := ATree.find_of_mem.1 doc hu n hn
  simp only [uniqueArgumentNames, reportsOf, withNode, hfind, ATree.kind]
  generalize keyed (n.kids "arguments") (fun a => a.kid "name") = k
  cases k with
  | none => simp [RErr.crash]
  | some items => simp [dupErrors_nil_iff]

theorem uniqueVariableNames_iff (tbl : TITable) (L : Lookups τ) (doc : ATree) (hu : doc.uniqueIds) :
    validate tbl L none [(uniqueVariableNames doc, RS.init)] doc.erase = [] ↔ Spec.uniqueVariableNames doc := by
  rw [stateless_nil_iff tbl L _ _ (uniqueVariableNames_stateless doc)]
  unfold Spec.uniqueVariableNames
  apply forall_congr'; intro n
  apply imp_congr_right; intro hn
  have hfind : doc.find n.info.id = some n := ATree.find_of_mem.1 doc hu n hn
  simp only [uniqueVariableNames, reportsOf, withNode, hfind, ATree.kind]
  generalize keyed (n.kids "variable_definitions") (fun vd => (vd.kid "variable").bind (·.kid "name")) = k
  cases k with
  | none => simp [RErr.crash]
  | some items => simp [dupErrors_nil_iff]

end Gql.Validation.Rules
