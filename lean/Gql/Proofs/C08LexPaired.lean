import Gql.Proofs.C09Pairs
/-!
C08, lexer inversion for STRING / BLOCK_STRING tokens, `Paired` form: the value of a string token
the lexer returns is a sequence of Unicode scalar values and lead+trail surrogate pairs.
-/
namespace Gql.Text
open Gql Gql.Spec.Lex Gql.Text.Pairs

/- NOTE: this file imports `C09Pairs` only (which brings in `LexerBlock` and `BlockForced2`) and
re-proves the few escape facts it needs under fresh names.  `Gql.Proofs.LexInvString` imports
`C09Pairs` too: both run `fun_induction joinLF`, and two independent realisations of its auxiliary
declarations cannot be imported side by side. -/

theorem paired_single {c : Nat} (h : Scalar c) : Paired [c] :=
  Paired.cons_scalar ((isScalar_iff c).mpr h) Paired.nil

theorem escapedCharacter?_scalar' {d v : Nat} (h : escapedCharacter? d = some v) : Scalar v := by
  unfold escapedCharacter? at h
  unfold Scalar
  repeat' split at h
  all_goals first | cases h | skip
  all_goals omega

theorem escapedUnicodeBraced?_paired {r : List Nat} {n : Nat} {v : List Nat}
    (h : escapedUnicodeBraced? r = some (n, v)) : Paired v := by
  unfold escapedUnicodeBraced? at h
  simp only at h
  split at h
  · rename_i hc
    cases h
    exact paired_single hc.2.2.2
  · cases h

theorem escapedUnicodeFixed?_paired {r : List Nat} {n : Nat} {v : List Nat}
    (h : escapedUnicodeFixed? r = some (n, v)) : Paired v := by
  unfold escapedUnicodeFixed? at h
  cases h4 : hex4? r with
  | none => rw [h4] at h; cases h
  | some code =>
    rw [h4] at h
    simp only at h
    split at h
    · rename_i hsc
      cases h
      exact paired_single hsc
    · split at h
      · rename_i hl
        cases h6 : hex4? (r.drop 6) with
        | none => rw [h6] at h; cases h
        | some trail =>
          rw [h6] at h
          simp only at h
          split at h
          · rename_i ht
            cases h
            refine paired_single ?_
            have hl1 := hl.1
            unfold LeadSurrogate at hl1
            unfold TrailSurrogate at ht
            unfold Scalar
            omega
          · cases h
      · cases h

theorem stringCharacter?_paired {s : List Nat} {n : Nat} {v : List Nat}
    (h : stringCharacter? s = some (n, v)) : Paired v := by
  cases s with
  | nil => simp [stringCharacter?] at h
  | cons c rest =>
    simp only [stringCharacter?] at h
    split at h
    · cases rest with
      | nil => simp at h
      | cons d rest1 =>
        simp only at h
        split at h
        · split at h
          · exact escapedUnicodeBraced?_paired h
          · exact escapedUnicodeFixed?_paired h
        · cases he : escapedCharacter? d with
          | none => rw [he] at h; cases h
          | some x =>
            rw [he] at h
            cases h
            exact paired_single (escapedCharacter?_scalar' he)
    · split at h
      · cases h
      · cases hl : sourceCharLen (c :: rest) with
        | none => rw [hl] at h; cases h
        | some m =>
          rw [hl] at h
          cases h
          exact sourceCharLen_paired hl

theorem stringRest_paired : ∀ (fuel : Nat) (s : List Nat) (n : Nat) (v : List Nat),
    stringRest fuel s = some (n, v) → Paired v := by
  intro fuel
  induction fuel with
  | zero =>
    intro s n v h
    by_cases hq : s.head? = some 34
    · cases s with
      | nil => simp at hq
      | cons a r =>
        simp only [List.head?_cons, Option.some.injEq] at hq
        subst hq
        rw [stringRest_quote] at h
        cases h
        exact Paired.nil
    · rw [stringRest_zero _ hq] at h; cases h
  | succ f ih =>
    intro s n v h
    by_cases hq : s.head? = some 34
    · cases s with
      | nil => simp at hq
      | cons a r =>
        simp only [List.head?_cons, Option.some.injEq] at hq
        subst hq
        rw [stringRest_quote] at h
        cases h
        exact Paired.nil
    · rw [stringRest_succ _ _ hq] at h
      cases hc : stringCharacter? s with
      | none => rw [hc] at h; cases h
      | some nv =>
        obtain ⟨k, u⟩ := nv
        rw [hc] at h
        simp only at h
        cases hr : stringRest f (s.drop k) with
        | none => rw [hr] at h; cases h
        | some mw =>
          obtain ⟨m, w⟩ := mw
          rw [hr] at h
          cases h
          exact Paired.append (stringCharacter?_paired hc) (ih (s.drop k) m w hr)

/-- **STRING tokens**: the value of the token `read_string` returns consists of Unicode scalar
values and surrogate pairs. -/
theorem readString_paired (body : List Nat) (st : LexState) (pos : Nat) (hlt : pos < body.length)
    (hq : body[pos] = 34) (htr : slice body (pos + 1) (pos + 3) ≠ [34, 34]) :
    Post (fun t => ∀ s, t.value = some s → Paired s) (readString body st pos) := by
  have hag := stringClassOK body st pos hlt hq htr
  have hpost := readString_post body st pos
  cases hr : readString body st pos with
  | ok t =>
    rw [hr] at hag hpost
    obtain ⟨mm, hm, hspec, _, _, _⟩ := hag
    have hv : t.value = mm.value := by
      have := congrArg SpecToken.value hspec
      simpa [toSpec] using this
    rw [drop_cons _ _ hlt, hq] at hm
    have e : slice body (pos + 1) (pos + 3) = (body.drop (pos + 1)).take 2 := slice_eq_take_drop _ _ 2
    rw [e] at htr
    rw [string?_not_triple _ htr] at hm
    cases hsr : stringRest (body.drop (pos + 1)).length (body.drop (pos + 1)) with
    | none => rw [hsr] at hm; cases hm
    | some nv =>
      obtain ⟨n, v⟩ := nv
      rw [hsr] at hm
      simp only [Option.some.injEq] at hm
      subst hm
      simp only at hv
      intro s hs
      rw [hv] at hs
      cases hs
      exact stringRest_paired _ _ n v hsr
  | err e => trivial
  | crash c => rw [hr] at hpost; exact hpost.elim

/-- **BLOCK_STRING tokens**: the value consists of Unicode scalar values and surrogate pairs. -/
theorem readBlockString_paired (body : List Nat) (st : LexState) (pos : Nat) (hlt : pos < body.length)
    (hq : body[pos] = 34) (htr : slice body (pos + 1) (pos + 3) = [34, 34]) :
    Post (fun r => ∀ s, r.1.value = some s → Paired s) (readBlockString body st pos) := by
  have hag := blockClassOK body st pos hlt hq htr
  have hpost := readBlockString_post body st pos
  cases hr : readBlockString body st pos with
  | ok r =>
    obtain ⟨t, st'⟩ := r
    rw [hr] at hag hpost
    obtain ⟨mm, hm, hspec, _, _, _⟩ := hag
    have hvm : t.value = mm.value := by
      have := congrArg SpecToken.value hspec
      simpa [toSpec] using this
    have h3 : (body.drop pos).take 3 = [34, 34, 34] := (take3_iff body pos hlt).mp ⟨hq, htr⟩
    have hsplit : body.drop pos = [34, 34, 34] ++ body.drop (pos + 3) := by
      have := List.take_append_drop 3 (body.drop pos)
      rw [h3, List.drop_drop] at this
      exact this.symm
    rw [hsplit] at hm
    simp only [List.cons_append, List.nil_append, blockString?] at hm
    cases hbr : blockRest (body.drop (pos + 3)).length (body.drop (pos + 3)) with
    | none => rw [hbr] at hm; cases hm
    | some nraw =>
      obtain ⟨n, raw⟩ := nraw
      rw [hbr] at hm
      simp only [Option.some.injEq] at hm
      subst hm
      simp only at hvm
      intro s hs
      simp only at hs
      rw [hvm] at hs
      cases hs
      exact blockStringValue_paired raw (blockRest_paired _ _ _ _ hbr)
  | err e => trivial
  | crash c => rw [hr] at hpost; exact hpost.elim

end Gql.Text
