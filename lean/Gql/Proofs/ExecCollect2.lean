/-
C02 — CollectFields refinement, the mutual induction over selections.
-/
import Gql.Proofs.ExecCollect

namespace Gql.Exec.Refine
open Gql.Exec Gql.Exec.Impl

theorem visRel_not_mem {cx : Impl.Ctx} {rt : Name} {ivis svis : List Name} {n : Name}
    (h : VisRel cx rt ivis svis) (hn : applicable cx rt n = true) :
    ivis.contains n = svis.contains n := by
  subst h
  cases hc : svis.contains n
  · simp only [List.contains_eq_mem, decide_eq_false_iff_not] at hc ⊢
    intro hm
    exact hc (List.mem_filter.1 hm).1
  · simp only [List.contains_eq_mem, decide_eq_true_eq] at hc ⊢
    exact List.mem_filter.2 ⟨hc, hn⟩

theorem CRel.same {cx : Impl.Ctx} {rt : Name} {B acc : SG} {st : CState} {vis : List Name}
    (h1 : nodes st.groups = Spec.mergeGroups B acc) (h2 : (keys acc).Nodup)
    (h3 : VisRel cx rt st.visited vis) (h4 : GroupsOk st.heap st.groups) :
    CRel cx rt B st (.ok st) (.ok (acc, vis)) :=
  ⟨st, rfl, h1, h2, h3, ⟨[], by simp⟩, h4⟩

@[simp] theorem toSpec_schema (cx : Impl.Ctx) : (toSpec cx).schema = cx.schema := rfl
@[simp] theorem toSpec_doc (cx : Impl.Ctx) : (toSpec cx).doc = cx.doc := rfl
@[simp] theorem toSpec_vars (cx : Impl.Ctx) : (toSpec cx).vars = cx.vars := rfl
@[simp] theorem toSpec_ops (cx : Impl.Ctx) : (toSpec cx).ops = cx.ops := rfl

variable (cx : Impl.Ctx) (hops : OpsOk cx.ops) (rt : Name) (hrt : cx.schema.kind rt = .object)
variable (irecur : List Selection → CState → Out Exn CState)
variable (srecur : List Selection → List Name → Out ErrKind (SG × List Name))
variable (hrec : RecRel cx rt irecur srecur)

include hops hrt hrec in
mutual
theorem collectSel_rel : (sel : Selection) → ∀ (st : CState) (acc : SG) (vis : List Name) (B : SG),
    nodes st.groups = Spec.mergeGroups B acc → (keys acc).Nodup → VisRel cx rt st.visited vis →
    GroupsOk st.heap st.groups →
    CRel cx rt B st (collectSel cx rt irecur sel st)
      (Spec.collectOne (toSpec cx) rt srecur sel acc vis)
  | .field alias name args dirs sels, st, acc, vis, B, h1, h2, h3, h4 => by
    unfold collectSel Spec.collectOne
    rw [shouldInclude_eq cx hops]
    cases hi : Spec.included (toSpec cx) dirs with
    | none => simp [dirOut, CRel]
    | some b =>
      cases b with
      | false => simpa [dirOut] using CRel.same h1 h2 h3 h4
      | true =>
        simp only [dirOut]
        refine ⟨_, rfl, ?_, nodup_keys_appendGroup _ _ _ h2, h3, ⟨_, rfl⟩, GroupsOk.addField h4 _ _⟩
        simp only [nodes_addField, h1]
        rw [mergeGroups_appendGroup _ _ _ _ h2]
  | .inline cond dirs sels, st, acc, vis, B, h1, h2, h3, h4 => by
    unfold collectSel Spec.collectOne
    rw [shouldInclude_eq cx hops]
    cases hi : Spec.included (toSpec cx) dirs with
    | none => simp [dirOut, CRel]
    | some b =>
      cases b with
      | false => simpa [dirOut] using CRel.same h1 h2 h3 h4
      | true =>
        simp only [dirOut]
        have ih := collectSels_rel sels st [] vis (Spec.mergeGroups B acc)
          (by rw [mergeGroups_nil]; exact h1) (by simp [keys]) h3 h4
        have hsame := CRel.same h1 h2 h3 h4
        simp only [toSpec_schema]
        revert ih
        cases hs : Spec.collectLoop (toSpec cx) rt srecur sels [] vis with
        | crash c =>
          intro ih
          cases cond with
          | none => simpa [condMatch, CRel] using ih
          | some c =>
            rw [condMatch_eq cx.schema c rt hrt]
            cases hc : Spec.doesFragmentTypeApply cx.schema rt c with
            | false => simpa [hc] using hsame
            | true => simpa [CRel, hc] using ih
        | err e =>
          intro ih
          cases cond with
          | none => simpa [condMatch, CRel] using ih
          | some c =>
            rw [condMatch_eq cx.schema c rt hrt]
            cases hc : Spec.doesFragmentTypeApply cx.schema rt c with
            | false => simpa [hc] using hsame
            | true => simpa [CRel, hc] using ih
        | ok r =>
          obtain ⟨fg, vis'⟩ := r
          intro ih
          have key : CRel cx rt B st (collectSels cx rt irecur sels st)
              (Out.ok (Spec.mergeGroups acc fg, vis')) := by
            obtain ⟨st', e1, e2, e3, e4, e5, e6⟩ := ih
            refine ⟨st', e1, ?_, nodup_keys_mergeGroups _ _ h2, e4, e5, e6⟩
            rw [e2, mergeGroups_assoc _ _ _ h2]
          cases cond with
          | none => simpa [condMatch] using key
          | some c =>
            rw [condMatch_eq cx.schema c rt hrt]
            cases hc : Spec.doesFragmentTypeApply cx.schema rt c with
            | false => simpa [hc] using hsame
            | true => simpa [hc] using key
  | .spread name dirs, st, acc, vis, B, h1, h2, h3, h4 => by
    unfold collectSel Spec.collectOne
    rw [shouldInclude_eq cx hops]
    cases hi : Spec.included (toSpec cx) dirs with
    | none => simp [dirOut, CRel]
    | some b =>
      cases b with
      | false => simpa [dirOut] using CRel.same h1 h2 h3 h4
      | true =>
        simp only [dirOut, toSpec_doc, toSpec_schema]
        cases hf : cx.doc.frag name with
        | none =>
          have happ' : applicable cx rt name = false := by simp [applicable, hf]
          cases hv : vis.contains name with
          | true => simpa using CRel.same h1 h2 h3 h4
          | false =>
            have h3' : VisRel cx rt st.visited (name :: vis) := by
              unfold VisRel at h3 ⊢
              simp [List.filter_cons, happ', h3]
            simpa using CRel.same h1 h2 h3' h4
        | some fr =>
          simp only [← condMatch_eq cx.schema fr.cond rt hrt]
          cases hc : condMatch cx.schema (some fr.cond) rt with
          | false =>
            have happ' : applicable cx rt name = false := by simp [applicable, hf, hc]
            cases hv : vis.contains name with
            | true => simpa using CRel.same h1 h2 h3 h4
            | false =>
              have h3' : VisRel cx rt st.visited (name :: vis) := by
                unfold VisRel at h3 ⊢
                simp [List.filter_cons, happ', h3]
              simpa using CRel.same h1 h2 h3' h4
          | true =>
            have happ : applicable cx rt name = true := by simp [applicable, hf, hc]
            have hvis := visRel_not_mem h3 happ
            simp only [hvis, Bool.not_true, Bool.false_eq_true, ↓reduceIte]
            cases hv : vis.contains name with
            | true => simpa using CRel.same h1 h2 h3 h4
            | false =>
              simp only [Bool.false_eq_true, ↓reduceIte]
              have h3' : VisRel cx rt (name :: st.visited) (name :: vis) := by
                unfold VisRel at h3 ⊢
                simp [List.filter_cons, happ, h3]
              have ih := hrec fr.sels { st with visited := name :: st.visited } (name :: vis) h3' h4
              revert ih
              cases hs : srecur fr.sels (name :: vis) with
              | crash c => simp [CRel]
              | err e => simp [CRel]
              | ok r =>
                obtain ⟨fg, vis'⟩ := r
                simp only [CRel]
                rintro ⟨st', e1, e2, e3, e4, e5, e6⟩
                refine ⟨st', e1, ?_, nodup_keys_mergeGroups _ _ h2, e4, e5, e6⟩
                rw [e2, h1, mergeGroups_assoc _ _ _ h2]

theorem collectSels_rel : (sels : List Selection) → ∀ (st : CState) (acc : SG) (vis : List Name) (B : SG),
    nodes st.groups = Spec.mergeGroups B acc → (keys acc).Nodup → VisRel cx rt st.visited vis →
    GroupsOk st.heap st.groups →
    CRel cx rt B st (collectSels cx rt irecur sels st)
      (Spec.collectLoop (toSpec cx) rt srecur sels acc vis)
  | [], st, acc, vis, B, h1, h2, h3, h4 => by
    unfold collectSels Spec.collectLoop
    exact CRel.same h1 h2 h3 h4
  | sel :: rest, st, acc, vis, B, h1, h2, h3, h4 => by
    unfold collectSels Spec.collectLoop
    have ih := collectSel_rel sel st acc vis B h1 h2 h3 h4
    revert ih
    cases hs : Spec.collectOne (toSpec cx) rt srecur sel acc vis with
    | crash c => simp only [CRel]; intro h; rw [h]
    | err e => simp only [CRel]; intro h; rw [h]
    | ok r =>
      obtain ⟨acc', vis'⟩ := r
      simp only [CRel]
      rintro ⟨st', e1, e2, e3, e4, ⟨ext, e5⟩, e6⟩
      rw [e1]
      have ih2 := collectSels_rel rest st' acc' vis' B e2 e3 e4 e6
      revert ih2
      cases hs2 : Spec.collectLoop (toSpec cx) rt srecur rest acc' vis' with
      | crash c => simp [CRel]
      | err e => simp [CRel]
      | ok r2 =>
        obtain ⟨acc2, vis2⟩ := r2
        simp only [CRel]
        rintro ⟨st2, f1, f2, f3, f4, ⟨ext2, f5⟩, f6⟩
        exact ⟨st2, f1, f2, f3, f4, ⟨ext ++ ext2, by rw [f5, e5, List.append_assoc]⟩, f6⟩
end

end Gql.Exec.Refine
