import Gql.Proofs.SchemaBuild6
namespace Gql.Types
open Gql Gql.Generated

/-- Sequencing in `Out` (explicit, to state the merge laws). -/
def andThen {α β : Type} (x : B α) (f : α → B β) : B β :=
  match x with
  | .ok a => f a
  | .err e => .err e
  | .crash c => .crash c

theorem mapMOut_append {α β : Type} (f : α → B β) (xs ys : List α) :
    mapMOut f (xs ++ ys) =
      andThen (mapMOut f xs) (fun a => andThen (mapMOut f ys) (fun b => .ok (a ++ b))) := by
  induction xs with
  | nil =>
    simp only [List.nil_append, mapMOut, andThen]
    cases mapMOut f ys <;> rfl
  | cons x xs ih =>
    simp only [List.cons_append, mapMOut]
    cases hx : f x with
    | ok y =>
      rw [ih]
      cases h1 : mapMOut f xs with
      | ok a =>
        simp only [andThen]
        cases h2 : mapMOut f ys <;> simp
      | err e => simp [andThen]
      | crash c => simp [andThen]
    | err e => simp [andThen]
    | crash c => simp [andThen]

theorem upsertAll_upsertAll {α : Type} (key : α → Str) (xs ys zs : List α) :
    upsertAll key (upsertAll key xs ys) zs = upsertAll key xs (ys ++ zs) := by
  simp [upsertAll, List.foldl_append]

theorem foldSpecifiedBy_append (u : Option Str) (e1 e2 : List TypeNode) :
    foldSpecifiedBy u (e1 ++ e2) = andThen (foldSpecifiedBy u e1) (fun u' => foldSpecifiedBy u' e2) := by
  induction e1 generalizing u with
  | nil => simp [foldSpecifiedBy, andThen]
  | cons e es ih =>
    simp only [List.cons_append, foldSpecifiedBy]
    cases h : specifiedByOf e.dirs with
    | ok v =>
      cases v with
      | none => simp only []; exact ih u
      | some w =>
        simp only []
        split
        · exact ih u
        · exact ih (some w)
    | err x => simp [andThen]
    | crash c => simp [andThen]

/-- **Per-kind merge law** (`object_mapper`, `interface_mapper`, `union_mapper`, `enum_mapper`,
`input_object_mapper`, `scalar_mapper`): applying the extension nodes `e1` and then `e2` to a type
is applying `e1 ++ e2` at once. -/
theorem extendType_append (t : TypeDef) (e1 e2 : List TypeNode) :
    extendType t (e1 ++ e2) = andThen (extendType t e1) (fun t' => extendType t' e2) := by
  cases t with
  | scalar n d u =>
    simp only [extendType, foldSpecifiedBy_append]
    cases foldSpecifiedBy u e1 <;> simp [andThen]
  | union n d ms => simp [extendType, andThen, List.flatMap_append]
  | object n d is fs =>
    simp only [extendType, List.flatMap_append, mapMOut_append]
    cases mapMOut fdToField (e1.flatMap fun e => e.body.fields) with
    | ok a =>
      simp only [andThen]
      cases mapMOut fdToField (e2.flatMap fun e => e.body.fields) <;>
        simp [upsertAll_upsertAll, List.append_assoc]
    | err e => simp [andThen]
    | crash c => simp [andThen]
  | interface n d is fs =>
    simp only [extendType, List.flatMap_append, mapMOut_append]
    cases mapMOut fdToField (e1.flatMap fun e => e.body.fields) with
    | ok a =>
      simp only [andThen]
      cases mapMOut fdToField (e2.flatMap fun e => e.body.fields) <;>
        simp [upsertAll_upsertAll, List.append_assoc]
    | err e => simp [andThen]
    | crash c => simp [andThen]
  | enum n d vs =>
    simp only [extendType, List.flatMap_append, mapMOut_append]
    cases mapMOut evdToEnumVal (e1.flatMap fun e => e.body.values) with
    | ok a =>
      simp only [andThen]
      cases mapMOut evdToEnumVal (e2.flatMap fun e => e.body.values) <;> simp [upsertAll_upsertAll]
    | err e => simp [andThen]
    | crash c => simp [andThen]
  | input n d o fs =>
    simp only [extendType, List.flatMap_append, mapMOut_append]
    cases mapMOut ivdToArg (e1.flatMap fun e => e.body.inputFields) with
    | ok a =>
      simp only [andThen]
      cases mapMOut ivdToArg (e2.flatMap fun e => e.body.inputFields) <;> simp [upsertAll_upsertAll]
    | err e => simp [andThen]
    | crash c => simp [andThen]

/-- A new type built with extensions `e1 ++ e2` is the type built with `e1`, then extended by `e2`
(`build_named_type` with its extension nodes vs. building first and extending later). -/
theorem buildNamedType_append (desc : Option DescNode) (node : TypeNode) (e1 e2 : List TypeNode) :
    buildNamedType desc node (e1 ++ e2) =
      andThen (buildNamedType desc node e1) (fun t => extendType t e2) := by
  unfold buildNamedType
  cases hb : node.body with
  | scalar =>
    simp only []
    cases specifiedByOf node.dirs with
    | ok u => simp only []; exact extendType_append _ e1 e2
    | err e => simp [andThen]
    | crash c => simp [andThen]
  | object is fs => simp only []; rw [← List.cons_append]; exact extendType_append _ _ e2
  | interface is fs => simp only []; rw [← List.cons_append]; exact extendType_append _ _ e2
  | union ms => simp only []; rw [← List.cons_append]; exact extendType_append _ _ e2
  | enum vs => simp only []; rw [← List.cons_append]; exact extendType_append _ _ e2
  | input fs => simp only []; rw [← List.cons_append]; exact extendType_append _ _ e2

theorem extsFor_append (k : Nat) (n : Str) (e1 e2 : List TypeNode) :
    extsFor k n (e1 ++ e2) = extsFor k n e1 ++ extsFor k n e2 := by
  simp [extsFor]

theorem firstExtReason_append (n : Str) (x1 x2 : List (Str × List DirApp)) :
    firstExtReason n (x1 ++ x2) =
      andThen (firstExtReason n x1) (fun r => match r with
        | some v => .ok (some v)
        | none => firstExtReason n x2) := by
  induction x1 with
  | nil => simp [firstExtReason, andThen]
  | cons p ps ih =>
    obtain ⟨m, ds⟩ := p
    simp only [List.cons_append, firstExtReason]
    split
    · cases deprecationOf ds with
      | ok r => cases r <;> simp [andThen, ih]
      | err e => simp [andThen]
      | crash c => simp [andThen]
    · exact ih

/-- Directive extensions (`extend_directive`): applying the extension nodes `x1` and then `x2`
is applying `x1 ++ x2`. -/
theorem extendDirective_append (x1 x2 : List (Str × List DirApp)) (d : Directive) :
    extendDirective (x1 ++ x2) d = andThen (extendDirective x1 d) (extendDirective x2) := by
  unfold extendDirective
  cases hd : d.depr with
  | some r => simp [andThen, hd]
  | none =>
    simp only [firstExtReason_append]
    cases firstExtReason d.name x1 with
    | ok r =>
      cases r with
      | none => simp [andThen]
      | some v => simp [andThen]
    | err e => simp [andThen]
    | crash c => simp [andThen]

end Gql.Types
