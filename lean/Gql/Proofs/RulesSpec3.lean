import Gql.Proofs.RulesSpec2
import Gql.Proofs.RulesReach
import Gql.Proofs.RulesSpreads
/-!
C12 — the declarative spread graph (`Spec.Reaches`), `get_recursively_referenced_fragments` = reachability in it, and
the fully declarative statement of NoUnusedVariables.
-/
namespace Gql.Validation.Rules
open Gql.Validation

variable {τ : Type}

namespace Spec
/-- Reachability in the spread graph of the document: the fragment name `n` is reachable from the selection set
`root` if a spread of `root` names it, or a spread of the selection set of the fragment called `m` names it for a
reachable `m` ("the fragment called `m`" is `get_fragment(m)`: the last definition of that name in
`document.definitions`; a name without definition has no outgoing edges). -/
inductive Reaches (doc root : ATree) : String → Prop
  | base {sp : ATree} {n : String} : SpreadIn root sp → sp.nameValue = some n → Reaches doc root n
  | step {m : String} {g ss sp : ATree} {n : String} : Reaches doc root m → getFragment doc m = some g →
      g.kid "selection_set" = some ss → SpreadIn ss sp → sp.nameValue = some n → Reaches doc root n
end Spec

theorem reach_iff_reaches (doc root : ATree) (n : String) : Reach doc root n ↔ Spec.Reaches doc root n := by
  constructor
  · intro h
    induction h with
    | base hsp hn => exact Spec.Reaches.base ((getSpreads_mem_iff _ _).mp hsp) hn
    | step _ hg hk hsp hn ih => exact Spec.Reaches.step ih hg hk ((getSpreads_mem_iff _ _).mp hsp) hn
  · intro h
    induction h with
    | base hsp hn => exact Reach.base ((getSpreads_mem_iff _ _).mpr hsp) hn
    | step _ hg hk hsp hn ih => exact Reach.step ih hg hk ((getSpreads_mem_iff _ _).mpr hsp) hn

/-- `get_recursively_referenced_fragments(op)` returns exactly the fragments (as `get_fragment` resolves names) of the
names reachable from the operation's selection set. -/
theorem getRecFrags_mem_iff_reaches (doc op ss : ATree) (hss : op.kid "selection_set" = some ss) (f : ATree) :
    f ∈ (getRecFrags doc op).1 ↔ ∃ n, Spec.Reaches doc ss n ∧ getFragment doc n = some f := by
  rw [getRecFrags_mem_iff doc op ss hss f]
  constructor
  · rintro ⟨n, h1, h2⟩; exact ⟨n, (reach_iff_reaches doc ss n).mp h1, h2⟩
  · rintro ⟨n, h1, h2⟩; exact ⟨n, (reach_iff_reaches doc ss n).mpr h1, h2⟩

theorem getFragment_kind {doc : ATree} {n : String} {f : ATree} (h : getFragment doc n = some f) :
    f.kind = "fragment_definition" := by
  have hm : f ∈ fragDefs doc := by
    have := List.mem_of_find?_eq_some (by unfold getFragment at h; exact h)
    exact List.mem_reverse.mp this
  have := (List.mem_filter.mp hm).2
  simpa using this

namespace Spec
/-- the variable `v` occurs in the subtree of `n` (not inside a variable definition) -/
def usesVar (n : ATree) (v : String) : Prop := ∃ u ∈ variablesIn n, u.nameValue = some v

/-- `v` is used by the operation `op`: in the operation itself, or in a fragment reachable from it through spreads
where `v` is not one of that fragment's own (fragment-)variables. -/
def opUsesVar (doc op : ATree) (v : String) : Prop :=
  usesVar op v ∨
  ∃ ss, op.kid "selection_set" = some ss ∧ ∃ m f, Reaches doc ss m ∧ getFragment doc m = some f ∧
    ∃ u ∈ variablesIn f, u.nameValue = some v ∧ fragVarDefined doc f.nameValue (some v) = false

/-- "Every variable an operation defines is used in it or in a fragment it reaches through spreads; every variable a
fragment definition defines is used in it" — stated on the document only (spread graph `Reaches`, structural
`variablesIn`), no context getter. -/
def noUnusedVariablesFull (doc : ATree) : Prop :=
  ∀ n ∈ doc.nodes,
    (n.kind = "fragment_definition" →
      ∀ vd ∈ n.kids "variable_definitions", ∃ v, (vd.kid "variable").bind (·.nameValue) = some v ∧ usesVar n v) ∧
    (n.kind = "operation_definition" →
      ∀ vd ∈ n.kids "variable_definitions", ∃ v, (vd.kid "variable").bind (·.nameValue) = some v ∧ opUsesVar doc n v)
end Spec

theorem usages_names_iff (doc n : ATree) (v : String) :
    v ∈ (getUsages doc n).filterMap (·.name) ↔ Spec.usesVar n v := by
  simp [getUsages, Spec.usesVar, List.mem_filterMap]

theorem recUsages_names_iff (doc op : ATree) (hk : op.kind = "operation_definition") (v : String) :
    v ∈ ((getRecUsages doc op).filter (fun u => !u.fragVar)).filterMap (·.name) ↔ Spec.opUsesVar doc op v := by
  have hne : ("operation_definition" == "fragment_definition") = false := by decide
  unfold getRecUsages Spec.opUsesVar
  rw [List.filter_append, List.filterMap_append, List.mem_append]
  apply or_congr
  · simp [getUsages, Spec.usesVar, List.mem_filterMap, hk, hne]
    constructor
    · rintro ⟨a, ⟨⟨x, hx, rfl⟩, _⟩, hn⟩; exact ⟨x, hx, hn⟩
    · rintro ⟨x, hx, hn⟩; exact ⟨_, ⟨⟨x, hx, rfl⟩, rfl⟩, hn⟩
  · cases hss : op.kid "selection_set" with
    | none => simp [getRecFrags_no_selection_set doc op hss]
    | some ss =>
      simp only [List.mem_filterMap, List.mem_filter, List.mem_flatMap, Option.some.injEq, exists_eq_left']
      constructor
      · rintro ⟨u, ⟨⟨f, hf, hu⟩, hfv⟩, hname⟩
        obtain ⟨m, hr, hg⟩ := (getRecFrags_mem_iff_reaches doc op ss hss f).mp hf
        have hkf := getFragment_kind hg
        simp only [getUsages, List.mem_map] at hu
        obtain ⟨x, hx, rfl⟩ := hu
        simp only at hname hfv
        refine ⟨m, f, hr, hg, x, hx, hname, ?_⟩
        simpa [hkf, hname] using hfv
      · rintro ⟨m, f, hr, hg, x, hx, hname, hfv⟩
        have hkf := getFragment_kind hg
        refine ⟨⟨x, x.nameValue, (f.kind == "fragment_definition") && fragVarDefined doc f.nameValue x.nameValue⟩,
          ⟨⟨f, (getRecFrags_mem_iff_reaches doc op ss hss f).mpr ⟨m, hr, hg⟩, ?_⟩, ?_⟩, hname⟩
        · simp only [getUsages, List.mem_map]
          exact ⟨x, hx, rfl⟩
        · simp [hkf, hname, hfv]

theorem noUnusedVariables_spec_iff_full (doc : ATree) : Spec.noUnusedVariables doc ↔ Spec.noUnusedVariablesFull doc := by
  unfold Spec.noUnusedVariables Spec.noUnusedVariablesFull
  apply forall_congr'; intro n
  apply imp_congr_right; intro _
  apply and_congr
  · apply imp_congr_right; intro _
    apply forall_congr'; intro vd
    apply imp_congr_right; intro _
    apply exists_congr; intro v
    rw [usages_names_iff]
  · apply imp_congr_right; intro hk
    apply forall_congr'; intro vd
    apply imp_congr_right; intro _
    apply exists_congr; intro v
    rw [recUsages_names_iff doc n hk]

theorem noUnusedVariables_iff_full (tbl : TITable) (L : Lookups τ) (doc : ATree) (hu : doc.uniqueIds) :
    validate tbl L none [(noUnusedVariables doc, RS.init)] doc.erase = [] ↔ Spec.noUnusedVariablesFull doc :=
  (noUnusedVariables_iff tbl L doc hu).trans (noUnusedVariables_spec_iff_full doc)

end Gql.Validation.Rules
