import Gql.Proofs.TokenLex
import Gql.Proofs.LexerNumber
/-!
`IntValue` / `FloatValue` texts as the printer emits them (verbatim from the tree) and the lexer's
`read_number` on them: a number text followed by anything that cannot continue it is one token
whose value is the text.
-/
namespace Gql.Text

/-- What may follow a name, a number or a string in printed text: not a name character (letters,
digits, `_`), not `.`, not `"`. -/
def safeHead (c : Nat) : Bool := !isNameContinue c && c != 46 && c != 34

def Safe (rest : List Nat) : Prop := ∀ c, rest.head? = some c → safeHead c = true

theorem safeHead_iff (c : Nat) : safeHead c = true ↔ (isNameContinue c = false ∧ c ≠ 46) ∧ c ≠ 34 := by
  simp [safeHead]

theorem Safe.toStops {rest : List Nat} (h : Safe rest) : stopsName rest = true := by
  cases rest with
  | nil => rfl
  | cons c r =>
    have := (safeHead_iff c).mp (h c rfl)
    simp [stopsName, this.1.1]

theorem Safe.nil : Safe [] := by intro c h; simp at h

theorem Safe.cons {c : Nat} {r : List Nat} (h : safeHead c = true) : Safe (c :: r) := by
  intro d hd; simp at hd; subst hd; exact h

def intPartOK : List Nat → Bool
  | [48] => true
  | c :: r => (49 ≤ c && c ≤ 57) && r.all isDigit
  | [] => false

def digitsOK (ds : List Nat) : Bool := !ds.isEmpty && ds.all isDigit

/-- `IntegerPart FractionalPart? ExponentPart?` given by its parts (`fr`, `ex` empty = absent). -/
structure NumParts where
  sign : List Nat
  ip : List Nat
  fr : List Nat
  ex : List Nat

def NumParts.text (p : NumParts) : List Nat := p.sign ++ (p.ip ++ (p.fr ++ p.ex))

def NumParts.ok (p : NumParts) : Prop :=
  (p.sign = [] ∨ p.sign = [45]) ∧ intPartOK p.ip = true ∧
  (p.fr = [] ∨ ∃ ds, p.fr = 46 :: ds ∧ digitsOK ds = true) ∧
  (p.ex = [] ∨ ∃ e sg ds, p.ex = e :: (sg ++ ds) ∧ (e = 69 ∨ e = 101) ∧
      (sg = [] ∨ sg = [43] ∨ sg = [45]) ∧ digitsOK ds = true)

def NumParts.isFloat (p : NumParts) : Bool := !p.fr.isEmpty || !p.ex.isEmpty

/-- `s` is an `IntValue` (`fl = false`) / `FloatValue` (`fl = true`) text. -/
def IsNum (fl : Bool) (s : List Nat) : Prop := ∃ p : NumParts, p.ok ∧ p.text = s ∧ p.isFloat = fl

/-! ### digit runs -/

theorem digEnd_run (body : List Nat) (ds tail : List Nat) (hd : ds.all isDigit = true)
    (ht : ∀ c, tail.head? = some c → isDigit c = false) :
    ∀ p, body.drop p = ds ++ tail → digEnd body p = p + ds.length := by
  induction ds with
  | nil =>
    intro p hp
    rw [digEnd]
    by_cases hl : p < body.length
    · have : body[p]? = tail.head? := by
        have := congrArg List.head? hp
        simpa [List.head?_drop] using this
      have hc := ht body[p] (by rw [← this]; simp [hl])
      simp [hl, hc]
    · simp [hl]
  | cons d r ih =>
    intro p hp
    simp only [List.all_cons, Bool.and_eq_true] at hd
    have hl : p < body.length := by
      rcases Nat.lt_or_ge p body.length with h | h
      · exact h
      · rw [List.drop_eq_nil_of_le h] at hp; simp at hp
    have hget : body[p] = d := by
      have := congrArg List.head? hp
      simp [List.head?_drop, hl] at this
      exact this
    have hnext : body.drop (p + 1) = r ++ tail := by
      have := congrArg List.tail hp
      simpa [List.tail_drop] using this
    rw [digEnd]
    simp only [hl, ↓reduceDIte, hget, hd.1, ↓reduceIte]
    rw [ih hd.2 (p + 1) hnext]
    simp; omega

theorem charAt_of_drop {body : List Nat} {p : Nat} {x : List Nat} (h : body.drop p = x) :
    charAt body p = x.head? := by
  rw [charAt_eq_head, h]

theorem drop_add_of_drop {body : List Nat} {p : Nat} {a b : List Nat} (h : body.drop p = a ++ b) :
    body.drop (p + a.length) = b := by
  rw [← List.drop_drop, h, List.drop_left]

theorem safe_not_digit {rest : List Nat} (h : Safe rest) : ∀ c, rest.head? = some c → isDigit c = false := by
  intro c hc
  have := (safeHead_iff c).mp (h c hc)
  have h1 := this.1.1
  simp only [isNameContinue, Bool.or_eq_false_iff] at h1
  exact h1.1.2

end Gql.Text

namespace Gql.Text

theorem slice_of_drop {body : List Nat} {p : Nat} {s rest : List Nat} (h : body.drop p = s ++ rest) :
    slice body p (p + s.length) = s := by
  unfold slice
  rw [h, show p + s.length - p = s.length by omega, List.take_left]

theorem isNameStart_continue {c : Nat} (h : isNameStart c = true) : isNameContinue c = true := by
  simp only [isNameStart, isNameContinue, Bool.or_eq_true] at h ⊢
  rcases h with h | h
  · exact Or.inl (Or.inl h)
  · exact Or.inr h

theorem safe_head_facts {rest : List Nat} (h : Safe rest) :
    rest.head? ≠ some 46 ∧ isNameStartOpt rest.head? = false ∧ rest.head? ≠ some 69 ∧ rest.head? ≠ some 101 ∧
      isDigitOpt rest.head? = false := by
  cases rest with
  | nil => simp [isNameStartOpt, isDigitOpt]
  | cons c r =>
    have hc := (safeHead_iff c).mp (h c rfl)
    have hns : isNameStart c = false := by
      cases hx : isNameStart c with
      | false => rfl
      | true => rw [isNameStart_continue hx] at hc; simp at hc
    have hd := safe_not_digit h c rfl
    refine ⟨by simp [hc.1.2], by simp [isNameStartOpt, hns], ?_, ?_, by simp [isDigitOpt, hd]⟩
    · intro he; simp at he; subst he; simp [isNameContinue, isLetter] at hc
    · intro he; simp at he; subst he; simp [isNameContinue, isLetter] at hc

/-- `numFinish` where the number ends. -/
theorem numFinish_ok (body : List Nat) (st : LexState) (start p : Nat) (f : Bool) (rest : List Nat)
    (hdrop : body.drop p = rest) (hs : Safe rest) :
    numFinish body st start p f =
      .ok (mkToken st (if f then .float else .int) start p (some (slice body start p))) := by
  obtain ⟨h46, hns, _, _, _⟩ := safe_head_facts hs
  have hc := charAt_of_drop hdrop
  unfold numFinish
  rw [hc]
  simp [h46, hns]

theorem digitsOK_cons {ds : List Nat} (h : digitsOK ds = true) :
    ∃ d r, ds = d :: r ∧ isDigit d = true ∧ r.all isDigit = true := by
  cases ds with
  | nil => simp [digitsOK] at h
  | cons d r => simp [digitsOK] at h; exact ⟨d, r, rfl, h.1, List.all_eq_true.mpr h.2⟩

/-- Reading `Digit+` at `p`, followed by something that is not a digit. -/
theorem readDigits_run (body : List Nat) (p : Nat) (ds tail : List Nat) (hd : digitsOK ds = true)
    (ht : ∀ c, tail.head? = some c → isDigit c = false) (hdrop : body.drop p = ds ++ tail) :
    readDigits body p (charAt body p) = .ok (p + ds.length) := by
  obtain ⟨d, r, rfl, hd0, hr⟩ := digitsOK_cons hd
  have hc : charAt body p = some d := by rw [charAt_of_drop hdrop]; rfl
  have hnext : body.drop (p + 1) = r ++ tail := by
    have := congrArg List.tail hdrop
    simpa [List.tail_drop] using this
  rw [readDigits_eq, hc]
  simp only [isDigitOpt, hd0, ↓reduceIte]
  rw [digEnd_run body r tail hr ht (p + 1) hnext]
  simp; omega

def ExOK (ex : List Nat) : Prop :=
  ex = [] ∨ ∃ e sg ds, ex = e :: (sg ++ ds) ∧ (e = 69 ∨ e = 101) ∧ (sg = [] ∨ sg = [43] ∨ sg = [45]) ∧
    digitsOK ds = true

def FrOK (fr : List Nat) : Prop := fr = [] ∨ ∃ ds, fr = 46 :: ds ∧ digitsOK ds = true

theorem numTailExp_ok (body : List Nat) (st : LexState) (start p : Nat) (f : Bool) (ex rest : List Nat)
    (hdrop : body.drop p = ex ++ rest) (hex : ExOK ex) (hs : Safe rest) :
    numTailExp body st start p f =
      .ok (mkToken st (if (f || !ex.isEmpty) then .float else .int) start (p + ex.length)
        (some (slice body start (p + ex.length)))) := by
  obtain ⟨_, _, h69, h101, hnd⟩ := safe_head_facts hs
  rcases hex with rfl | ⟨e, sg, ds, rfl, he, hsg, hds⟩
  · simp only [List.nil_append] at hdrop
    have hc := charAt_of_drop hdrop
    unfold numTailExp
    rw [hc]
    simp only [h69, h101, or_self, ↓reduceIte, List.isEmpty_nil, Bool.not_true, Bool.or_false,
      List.length_nil, Nat.add_zero]
    exact numFinish_ok body st start p f rest hdrop hs
  · have hc : charAt body p = some e := by rw [charAt_of_drop hdrop]; rfl
    have hnd' : ∀ c, rest.head? = some c → isDigit c = false := safe_not_digit hs
    obtain ⟨d, r, hdsr, hd0, hr⟩ := digitsOK_cons hds
    have hnext : body.drop (p + 1) = sg ++ ds ++ rest := by
      have := congrArg List.tail hdrop
      simpa [List.tail_drop] using this
    have hfin : ∀ q, q = p + (e :: (sg ++ ds)).length → body.drop q = rest := by
      intro q hq; subst hq
      exact drop_add_of_drop hdrop
    unfold numTailExp
    have hce : charAt body p = some 69 ∨ charAt body p = some 101 := by
      rcases he with rfl | rfl <;> simp [hc]
    simp only [hce, ↓reduceIte]
    rcases hsg with rfl | rfl | rfl
    · -- no sign
      have hc1 : charAt body (p + 1) = some d := by rw [charAt_of_drop hnext, hdsr]; rfl
      have hd43 : d ≠ 43 ∧ d ≠ 45 := by
        simp only [isDigit, Bool.and_eq_true, decide_eq_true_eq] at hd0; omega
      have : ¬ (charAt body (p + 1) = some 43 ∨ charAt body (p + 1) = some 45) := by
        rw [hc1]; simp [hd43.1, hd43.2]
      simp only [this, ↓reduceIte]
      rw [readDigits_run body (p + 1) ds rest hds hnd' (by simpa using hnext)]
      simp only [Out.bind_ok]
      rw [numFinish_ok body st start _ true rest (hfin _ (by simp; omega)) hs]
      simp [Nat.add_assoc, Nat.add_comm 1]
    · have hc1 : charAt body (p + 1) = some 43 := by rw [charAt_of_drop hnext]; rfl
      have hnext2 : body.drop (p + 2) = ds ++ rest := by
        have := drop_add_of_drop (a := [43]) (by simpa using hnext)
        simpa using this
      simp only [hc1, true_or, ↓reduceIte]
      rw [readDigits_run body (p + 2) ds rest hds hnd' hnext2]
      simp only [Out.bind_ok]
      rw [numFinish_ok body st start _ true rest (hfin _ (by simp; omega)) hs]
      simp [Nat.add_assoc, Nat.add_comm 2]
    · have hc1 : charAt body (p + 1) = some 45 := by rw [charAt_of_drop hnext]; rfl
      have hnext2 : body.drop (p + 2) = ds ++ rest := by
        have := drop_add_of_drop (a := [45]) (by simpa using hnext)
        simpa using this
      simp only [hc1, or_true, ↓reduceIte]
      rw [readDigits_run body (p + 2) ds rest hds hnd' hnext2]
      simp only [Out.bind_ok]
      rw [numFinish_ok body st start _ true rest (hfin _ (by simp; omega)) hs]
      simp [Nat.add_assoc, Nat.add_comm 2]

end Gql.Text

namespace Gql.Text

/-- The head of `ex ++ rest` is not a digit and not `.`. -/
theorem exRest_head (ex rest : List Nat) (hex : ExOK ex) (hs : Safe rest) :
    (∀ c, (ex ++ rest).head? = some c → isDigit c = false) ∧ (ex ++ rest).head? ≠ some 46 := by
  rcases hex with rfl | ⟨e, sg, ds, rfl, he, _, _⟩
  · exact ⟨by simpa using safe_not_digit hs, by simpa using (safe_head_facts hs).1⟩
  · constructor
    · intro c hc; simp at hc; subst hc; rcases he with rfl | rfl <;> decide
    · simp; rcases he with rfl | rfl <;> decide

theorem numTailFrac_ok (body : List Nat) (st : LexState) (start p : Nat) (fr ex rest : List Nat)
    (hdrop : body.drop p = fr ++ (ex ++ rest)) (hfr : FrOK fr) (hex : ExOK ex) (hs : Safe rest) :
    numTailFrac body st start p =
      .ok (mkToken st (if (!fr.isEmpty || !ex.isEmpty) then .float else .int) start
        (p + fr.length + ex.length) (some (slice body start (p + fr.length + ex.length)))) := by
  obtain ⟨hnd, h46⟩ := exRest_head ex rest hex hs
  rcases hfr with rfl | ⟨ds, rfl, hds⟩
  · simp only [List.nil_append] at hdrop
    have hc := charAt_of_drop hdrop
    unfold numTailFrac
    rw [hc]
    simp only [h46, ↓reduceIte]
    rw [numTailExp_ok body st start p false ex rest hdrop hex hs]
    simp
  · have hc : charAt body p = some 46 := by rw [charAt_of_drop hdrop]; rfl
    have hnext : body.drop (p + 1) = ds ++ (ex ++ rest) := by
      have := congrArg List.tail hdrop
      simpa [List.tail_drop] using this
    unfold numTailFrac
    simp only [hc, ↓reduceIte]
    rw [readDigits_run body (p + 1) ds (ex ++ rest) hds hnd hnext]
    simp only [Out.bind_ok]
    have hd2 : body.drop (p + 1 + ds.length) = ex ++ rest := drop_add_of_drop hnext
    rw [numTailExp_ok body st start _ true ex rest hd2 hex hs]
    simp [Nat.add_assoc, Nat.add_comm 1]

theorem numStaged_ok (body : List Nat) (st : LexState) (start p0 : Nat) (ip fr ex rest : List Nat)
    (hdrop : body.drop p0 = ip ++ (fr ++ (ex ++ rest))) (hip : intPartOK ip = true) (hfr : FrOK fr)
    (hex : ExOK ex) (hs : Safe rest) :
    numStaged body st start p0 =
      .ok (mkToken st (if (!fr.isEmpty || !ex.isEmpty) then .float else .int) start
        (p0 + ip.length + fr.length + ex.length)
        (some (slice body start (p0 + ip.length + fr.length + ex.length)))) := by
  obtain ⟨hnd, _⟩ := exRest_head ex rest hex hs
  have htail : ∀ c, (fr ++ (ex ++ rest)).head? = some c → isDigit c = false := by
    rcases hfr with rfl | ⟨ds, rfl, _⟩
    · simpa using hnd
    · intro c hc; simp at hc; subst hc; decide
  by_cases hz : ip = [48]
  · subst hz
    have hc : charAt body p0 = some 48 := by rw [charAt_of_drop hdrop]; rfl
    have hnext : body.drop (p0 + 1) = fr ++ (ex ++ rest) := by
      have := congrArg List.tail hdrop
      simpa [List.tail_drop] using this
    have hc1 : isDigitOpt (charAt body (p0 + 1)) = false := by
      rw [charAt_of_drop hnext]
      cases hh : (fr ++ (ex ++ rest)).head? with
      | none => rfl
      | some c => simp [isDigitOpt, htail c hh]
    unfold numStaged
    simp only [hc, ↓reduceIte, hc1, Bool.false_eq_true]
    rw [numTailFrac_ok body st start (p0 + 1) fr ex rest hnext hfr hex hs]
    simp
  · obtain ⟨c, r, rfl, hcr⟩ : ∃ c r, ip = c :: r ∧ ((49 ≤ c ∧ c ≤ 57) ∧ r.all isDigit = true) := by
      cases ip with
      | nil => simp [intPartOK] at hip
      | cons c r =>
        refine ⟨c, r, rfl, ?_⟩
        unfold intPartOK at hip
        split at hip
        · rename_i heq; cases heq; exact absurd rfl hz
        · rename_i heq; cases heq
          simpa using hip
        · rename_i heq; cases heq
    have hc : charAt body p0 = some c := by rw [charAt_of_drop hdrop]; rfl
    have hc48 : c ≠ 48 := by omega
    have hdig : digitsOK (c :: r) = true := by
      simp [digitsOK, isDigit, hcr.2]; omega
    unfold numStaged
    simp only [hc, Option.some.injEq, hc48, ↓reduceIte]
    have hrd := readDigits_run body p0 (c :: r) (fr ++ (ex ++ rest)) hdig htail hdrop
    rw [hc] at hrd
    rw [hrd]
    simp only [Out.bind_ok]
    have hd2 : body.drop (p0 + (c :: r).length) = fr ++ (ex ++ rest) := drop_add_of_drop hdrop
    rw [numTailFrac_ok body st start _ fr ex rest hd2 hfr hex hs]

/-- A number text followed by something that cannot continue it is one INT / FLOAT token. -/
theorem next_number (pre s rest : List Nat) (st : LexState) (fl : Bool) (hn : IsNum fl s) (hs : Safe rest) :
    readNextToken (pre ++ (s ++ rest)) st pre.length =
      .ok (mkToken st (if fl then .float else .int) pre.length (pre.length + s.length) (some s), st) := by
  obtain ⟨⟨sign, ip, fr, ex⟩, ⟨hsign, hip, hfr, hex⟩, rfl, rfl⟩ := hn
  simp only [NumParts.text, NumParts.isFloat] at *
  have hdrop0 : (pre ++ (sign ++ (ip ++ (fr ++ ex)) ++ rest)).drop pre.length =
      sign ++ (ip ++ (fr ++ (ex ++ rest))) := by simp
  -- the first character: `-` or a digit
  obtain ⟨i0, ir, hipc, hi0⟩ : ∃ i0 ir, ip = i0 :: ir ∧ isDigit i0 = true := by
    cases ip with
    | nil => simp [intPartOK] at hip
    | cons c r =>
      refine ⟨c, r, rfl, ?_⟩
      unfold intPartOK at hip
      split at hip
      · rename_i heq; cases heq; decide
      · rename_i heq; cases heq
        simp at hip; simp [isDigit]; omega
      · rename_i heq; cases heq
  generalize hbody : pre ++ (sign ++ (ip ++ (fr ++ ex)) ++ rest) = body at hdrop0 ⊢
  have hstaged : ∀ first, charAt body pre.length = some first → (first = 45 ↔ sign = [45]) →
      readNumber body st pre.length first =
        .ok (mkToken st (if (!fr.isEmpty || !ex.isEmpty) then .float else .int) pre.length
          (pre.length + (sign ++ (ip ++ (fr ++ ex))).length) (some (sign ++ (ip ++ (fr ++ ex))))) := by
    intro first hfirst hiff
    rw [readNumber_eq_staged body st pre.length first hfirst]
    have hsl : slice body pre.length (pre.length + (sign ++ (ip ++ (fr ++ ex))).length) =
        sign ++ (ip ++ (fr ++ ex)) := slice_of_drop (rest := rest) (by rw [hdrop0]; simp)
    rcases hsign with rfl | rfl
    · have : ¬ first = 45 := fun h => by simpa using hiff.mp h
      simp only [this, ↓reduceIte]
      rw [numStaged_ok body st pre.length pre.length ip fr ex rest (by simpa using hdrop0) hip hfr hex hs]
      simp only [List.nil_append, List.length_append] at hsl ⊢
      rw [show pre.length + ip.length + fr.length + ex.length = pre.length + (ip.length + (fr.length + ex.length)) by omega, hsl]
    · have : first = 45 := hiff.mpr rfl
      simp only [this, ↓reduceIte]
      have hd1 : body.drop (pre.length + 1) = ip ++ (fr ++ (ex ++ rest)) := by
        have := drop_add_of_drop (a := [45]) hdrop0
        simpa using this
      rw [numStaged_ok body st pre.length (pre.length + 1) ip fr ex rest hd1 hip hfr hex hs]
      simp only [List.length_append, List.length_cons, List.length_nil] at hsl ⊢
      rw [show pre.length + 1 + ip.length + fr.length + ex.length =
        pre.length + (0 + 1 + (ip.length + (fr.length + ex.length))) by omega, hsl]
  -- dispatch of `read_next_token`
  have hfirst : ∃ first, charAt body pre.length = some first ∧ (first = 45 ↔ sign = [45]) ∧
      (isDigit first = true ∨ first = 45) := by
    rcases hsign with rfl | rfl
    · refine ⟨i0, ?_, ?_, Or.inl hi0⟩
      · rw [charAt_of_drop hdrop0, hipc]; rfl
      · constructor
        · intro h; subst h; simp [isDigit] at hi0
        · intro h; cases h
    · exact ⟨45, by rw [charAt_of_drop hdrop0]; rfl, by simp, Or.inr rfl⟩
  obtain ⟨first, hch, hiff, hkind⟩ := hfirst
  have hget : body[pre.length]? = some first := hch
  obtain ⟨hlen, hidx⟩ := index_of_getElem? hget
  have hfacts : first ≠ 32 ∧ first ≠ 9 ∧ first ≠ 44 ∧ first ≠ 65279 ∧ first ≠ 10 ∧ first ≠ 13 ∧
      first ≠ 35 ∧ first ≠ 34 ∧ punctKind first = none := by
    have hr : (48 ≤ first ∧ first ≤ 57) ∨ first = 45 := by
      rcases hkind with h | h
      · left; simpa [isDigit] using h
      · exact Or.inr h
    refine ⟨by omega, by omega, by omega, by omega, by omega, by omega, by omega, by omega, ?_⟩
    cases hp : punctKind first with
    | none => rfl
    | some k => have := punct_cases hp; omega
  obtain ⟨h1, h2, h3, h4, h5, h6, h7, h8, h9⟩ := hfacts
  have hk' : isDigit first = true ∨ first = 45 := hkind
  rw [readNextToken]
  simp only [hlen, ↓reduceDIte, hidx, Out.bind_ok, h1, h2, h3, h4, h5, h6, h7, h8, h9, or_self, ↓reduceIte, hk']
  rw [hstaged first hch hiff]
  rfl

end Gql.Text
