import Gql.Proofs.Location
namespace Gql.Text
open Spec

theorem sliceOf_self (body : List Nat) (a : Nat) : sliceOf body a a = [] := by
  simp [sliceOf]

theorem sliceOf_snoc (body : List Nat) (j i c : Nat) (hji : j ≤ i) (h : body[i]? = some c) :
    sliceOf body j (i + 1) = sliceOf body j i ++ [c] := by
  unfold sliceOf
  have hlen : i < body.length := by
    rcases Nat.lt_or_ge i body.length with h' | h'
    · exact h'
    · rw [List.getElem?_eq_none h'] at h; exact absurd h (by simp)
  have : i + 1 - j = (i - j) + 1 := by omega
  rw [this, List.take_succ]
  congr 1
  simp [List.getElem?_drop]
  have : j + (i - j) = i := by omega
  rw [this, h]

/-- `re.split` on the terminator regex yields exactly the stretches between terminators. -/
theorem splitNLAux_eq_linesOf (s : List Nat) (cur : List Nat) :
    ∀ (pre : List Nat) (j : Nat), j ≤ pre.length →
      cur.reverse = sliceOf (pre ++ s) j pre.length →
      splitNLAux s cur = linesOf (pre ++ s) (terms s pre.length) j := by
  fun_induction splitNLAux s cur
  · intro pre j hj hc
    simp [terms, linesOf, hc]
  · rename_i rest cur ih
    intro pre j hj hc
    simp only [terms, linesOf]
    rw [hc]
    congr 1
    have := ih (pre ++ [13, 10]) (pre.length + 2) (by simp) (by simp [sliceOf_self])
    simpa [List.append_assoc] using this
  · rename_i rest cur hne ih
    intro pre j hj hc
    rw [terms]
    · simp only [linesOf]
      rw [hc]
      congr 1
      have := ih (pre ++ [13]) (pre.length + 1) (by simp) (by simp [sliceOf_self])
      simpa [List.append_assoc] using this
    · exact hne
  · rename_i rest cur ih
    intro pre j hj hc
    simp only [terms, linesOf]
    rw [hc]
    congr 1
    have := ih (pre ++ [10]) (pre.length + 1) (by simp) (by simp [sliceOf_self])
    simpa [List.append_assoc] using this
  · rename_i c rest cur h1 h2 h3 ih
    intro pre j hj hc
    have ht : terms (c :: rest) pre.length = terms rest (pre.length + 1) := by
      rw [terms]
      · intro r hx _; exact h2 hx
      · intro hx; exact h2 hx
      · intro hx; exact h3 hx
    rw [ht]
    have hget : (pre ++ c :: rest)[pre.length]? = some c := by simp
    have := ih (pre ++ [c]) j (by simp; omega) (by
      simp only [List.reverse_cons, List.append_assoc, List.singleton_append, List.length_append,
        List.length_singleton]
      rw [sliceOf_snoc _ j pre.length c hj hget, hc])
    simpa [List.append_assoc] using this

theorem splitNL_eq_lines (body : List Nat) : splitNL body = lines body := by
  have := splitNLAux_eq_linesOf body [] [] 0 (by simp) (by simp [sliceOf_self])
  simpa [splitNL, lines] using this

end Gql.Text
