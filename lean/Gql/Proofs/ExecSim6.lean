/-
C02 — simulation of `complete_object_value`, `complete_value` and list completion
(structural induction on the data graph).
-/
import Gql.Proofs.ExecSim5

namespace Gql.Exec.Refine
open Gql.Exec Gql.Exec.Impl

variable (cx : Ctx) (hops : OpsOk cx.ops)
variable (hnc : ∀ (rt : Name) (sels : List Selection) (c : String),
  Spec.collectFields (toSpec cx) rt sels ≠ .crash c)

include hops hnc in
theorem completeObject_sim (rt : Name) (hrt : cx.schema.kind rt = .object)
    (ichild : Child) (schild : Spec.Child) (hch : ChildRel cx ichild schild)
    (path : IPath) (fds : List FieldDetails) :
    Sim cx path true (fun h => FdsOk h fds) (completeObject cx rt fds path ichild)
      (Spec.executeSelectionSet (toSpec cx) rt (Spec.mergeSelectionSets (fds.map (·.node)))
        (asList path) schild) := by
  intro st hinv hpre
  have hc := collectSubfieldsM_spec cx hops rt hrt fds st hinv.memo hpre
  unfold completeObject Spec.executeSelectionSet
  revert hc
  cases hs : Spec.collectFields (toSpec cx) rt (Spec.mergeSelectionSets (fds.map (·.node))) with
  | crash c => exact absurd hs (hnc _ _ _)
  | err k =>
    simp only
    intro hc
    refine ⟨st, .raw k, [], by simp [M.bind, hc], rfl, Post.refl hinv.memo hinv.dmemo, by simp⟩
  | ok G =>
    simp only
    rintro ⟨g, st1, e1, e2, e3, e4, e5, ⟨ext, e6⟩, e7, e8, e9, e10⟩
    subst e2
    have hpos : ∀ p ∈ g, PosInv st1.positions (.key p.1 rt :: path) := by
      intro p _
      rw [e8]
      exact hinv.pos.cons _
    have hnd : (g.map (·.1)).Nodup := by rw [← keys_nodes]; exact e3
    obtain ⟨st2, h2⟩ := executeFields_sim cx hops rt ichild schild hch path g st1 e5
      (by rw [e10]; exact hinv.dmemo) hpos e4 hnd
    have hpost1 : Post cx st st1 path true [] [] :=
      ⟨by simp [e7], by simp [e9], ⟨[], by simp [e8], by simp⟩, ⟨ext, e6⟩, e5, by rw [e10]; exact hinv.dmemo⟩
    refine ⟨st2, ?_⟩
    cases hout : (Spec.executeGroups (toSpec cx) rt schild (asList path) (nodes g)).out with
    | none =>
      simp only [hout] at h2
      obtain ⟨e, es, he, herrs, hp⟩ := h2
      simp only [Option.map_none]
      refine ⟨.located e, es, by simp [M.bind, e1, he], herrs, ?_, by simp⟩
      simpa using hpost1.trans hp
    | some kvs =>
      simp only [hout] at h2
      obtain ⟨he, hp⟩ := h2
      simp only [Option.map_some]
      refine ⟨by simp [M.bind, M.pure, e1, he], ?_⟩
      simpa using hpost1.trans hp

theorem ensureValid_eq (s : Schema) (abs : Name) (tn : TN) :
    ensureValidRuntimeType s abs tn = Spec.resolveAbstractType s abs tn := by
  cases tn <;> rfl

theorem ensureValid_object {s : Schema} {abs : Name} {tn : TN} {rt : Name}
    (h : ensureValidRuntimeType s abs tn = .ok rt) : s.kind rt = .object := by
  cases tn with
  | missing => simp [ensureValidRuntimeType] at h
  | bad => simp [ensureValidRuntimeType] at h
  | name n =>
    simp only [ensureValidRuntimeType] at h
    cases hl : s.lookup n with
    | none => simp [hl] at h
    | some d =>
      cases d with
      | object nm is fs =>
        simp only [hl] at h
        split at h
        · cases h
          simp [Schema.kind, hl]
        · cases h
      | _ => simp [hl] at h

include hops hnc in
theorem completeNamed_sim (t : TypeRef) (ichild : Child) (schild : Spec.Child)
    (hch : ChildRel cx ichild schild) (path : IPath) (fds : List FieldDetails)
    (leaf? : Option PyLeaf) (tn : TN) :
    Sim cx path true (fun h => FdsOk h fds) (completeNamed cx t fds path leaf? tn ichild)
      (Spec.completeNamed (toSpec cx) t (fds.map (·.node)) (asList path) leaf? tn schild) := by
  unfold completeNamed Spec.completeNamed
  cases t with
  | list t' nn => exact Sim.throw_raw _
  | named n nn =>
    simp only [toSpec_schema]
    cases hk : cx.schema.kind n with
    | leaf =>
      cases leaf? with
      | none => exact Sim.throw_raw _
      | some l => exact completeLeaf_sim cx path _ n l
    | object => exact completeObject_sim cx hops hnc n hk ichild schild hch path fds
    | abstract =>
      simp only [← ensureValid_eq]
      cases he : ensureValidRuntimeType cx.schema n tn with
      | error k => exact Sim.throw_raw _
      | ok rt => exact completeObject_sim cx hops hnc rt (ensureValid_object he) ichild schild hch path fds
    | input => exact Sim.throw_raw _
    | unknown => exact Sim.throw_raw _

theorem nullChild_rel : ChildRel cx nullChild Spec.nullChild := by
  intro name args t fds path
  exact completeNull_sim cx path _ t

/-- list items: the statement carried through the items of a list at `path`, starting at index `i` -/
def ItemsSim (cx : Ctx) (t : TypeRef) (fds : List FieldDetails) (path : IPath) (i : Nat)
    (items : List RVal) : Prop :=
  ∀ st, MemoInv cx st → DInv cx st.dmemo → (∀ j, i ≤ j → PosInv st.positions (.idx j :: path)) →
    FdsOk st.heap fds →
    Outcome cx path (completeItems cx t fds path i items st) st
      (Spec.completeItems (toSpec cx) t (fds.map (·.node)) (asList path) i items)

include hops hnc in
mutual
theorem completeValue_sim : (d : RVal) → ∀ (t : TypeRef) (fds : List FieldDetails) (path : IPath),
    Sim cx path true (fun h => FdsOk h fds) (completeValue cx t fds path d)
      (Spec.completeValue (toSpec cx) t (fds.map (·.node)) (asList path) d)
  | .raise tag none, t, fds, path => by
    unfold completeValue Spec.completeValue
    exact Sim.throw_raw _
  | .raise tag (some p), t, fds, path => by
    unfold completeValue Spec.completeValue
    exact Sim.throw_located _
  | .null, t, fds, path => by
    unfold completeValue Spec.completeValue
    exact completeNull_sim cx path _ t
  | .leaf l, t, fds, path => by
    unfold completeValue Spec.completeValue
    exact completeNamed_sim cx hops hnc t _ _ (nullChild_rel cx) path fds (some l) .missing
  | .obj tn f, t, fds, path => by
    unfold completeValue Spec.completeValue
    refine completeNamed_sim cx hops hnc t _ _ ?_ path fds none tn
    intro name args t' fds' p
    exact completeValue_sim (f name args) t' fds' p
  | .list items, t, fds, path => by
    unfold completeValue Spec.completeValue
    cases t with
    | named n nn => exact completeNamed_sim cx hops hnc _ _ _ (nullChild_rel cx) path fds none .missing
    | list t' nn =>
      simp only
      intro st hinv hpre
      obtain ⟨st', h⟩ := completeItems_sim items t' fds path 0 st hinv.memo hinv.dmemo
        (fun j _ => hinv.pos.cons _) hpre
      refine ⟨st', ?_⟩
      cases hout : (Spec.completeItems (toSpec cx) t' (fds.map (·.node)) (asList path) 0 items).out with
      | none =>
        simp only [hout] at h
        obtain ⟨e, es, he, herrs, hp⟩ := h
        simp only [Option.map_none]
        exact ⟨.located e, es, by simp [M.bind, he], herrs, hp, by simp⟩
      | some js =>
        simp only [hout] at h
        simp only [Option.map_some]
        exact ⟨by simp [M.bind, M.pure, h.1], h.2⟩

theorem completeItems_sim : (items : List RVal) → ∀ (t : TypeRef) (fds : List FieldDetails)
    (path : IPath) (i : Nat), ItemsSim cx t fds path i items
  | [], t, fds, path, i => by
    intro st hm hd _ _
    unfold completeItems Spec.completeItems
    exact ⟨st, rfl, Post.refl hm hd⟩
  | x :: xs, t, fds, path, i => by
    intro st hm hd hpos hpre
    unfold completeItems Spec.completeItems
    have hcp : Inv cx st (.idx i :: path) := ⟨hm, hd, hpos i (Nat.le_refl _)⟩
    obtain ⟨st1, h1⟩ := Sim.protect t (completeValue_sim x t fds (.idx i :: path)) st hcp hpre
    have hpath : asList (ISeg.idx i :: path) = asList path ++ [PSeg.idx i] := asList_cons _ _
    rw [hpath] at h1
    simp only
    cases hout : (Spec.absorb t (Spec.completeValue (toSpec cx) t (fds.map (·.node))
        (asList path ++ [PSeg.idx i]) x)).out with
    | none =>
      simp only [hout] at h1
      obtain ⟨exn, es, he, herrs, hp, hloc⟩ := h1
      obtain ⟨e, rfl⟩ := hloc trivial
      refine ⟨st1, ?_⟩
      simp only
      refine ⟨e, es, by simp [M.bind, he], ?_, hp.lift⟩
      rw [herrs]; rfl
    | some j =>
      simp only [hout] at h1
      obtain ⟨he, hp⟩ := h1
      obtain ⟨ps, hps, hq⟩ := hp.positions
      have hpos1 : ∀ k, i + 1 ≤ k → PosInv st1.positions (.idx k :: path) := by
        intro k hk o ho
        rw [hps] at ho
        rcases List.mem_append.1 ho with ho | ho
        · exact hpos k (by omega) o ho
        · obtain ⟨q, rfl, hsuf, _⟩ := hq o ho
          have hne : ISeg.idx i ≠ ISeg.idx k := by
            intro h; cases h; omega
          exact ⟨q, rfl, incomparable_sibling hne hsuf⟩
      obtain ⟨ext, hext⟩ := hp.heap
      have hpre1 : FdsOk st1.heap fds := by rw [hext]; exact hpre.mono ext
      obtain ⟨st2, h2⟩ := completeItems_sim xs t fds path (i + 1) st1 hp.memo hp.dmemo hpos1 hpre1
      refine ⟨st2, ?_⟩
      cases hout2 : (Spec.completeItems (toSpec cx) t (fds.map (·.node)) (asList path) (i + 1) xs).out with
      | none =>
        simp only [hout2] at h2
        obtain ⟨exn, es, he2, herrs2, hp2⟩ := h2
        simp only [Option.map_none]
        refine ⟨exn, _ ++ es, by simp [M.bind, he, he2], ?_, hp.lift.trans hp2⟩
        rw [herrs2, List.append_assoc]
      | some js =>
        simp only [hout2] at h2
        obtain ⟨he2, hp2⟩ := h2
        simp only [Option.map_some]
        exact ⟨by simp [M.bind, M.pure, he, he2], hp.lift.trans hp2⟩
end

end Gql.Exec.Refine
