import Gql.Async.Subscribe
/-! Lemmas for C07: the invariant of the subscription transition system. -/
namespace Gql.Async.Subscribe
variable {Ev R X : Type}

@[simp] theorem responsesOf_append (a b : List (Delivered R X)) :
    responsesOf (a ++ b) = responsesOf a ++ responsesOf b := by
  induction a with
  | nil => rfl
  | cons d a ih => cases d <;> simp [responsesOf, ih]

@[simp] theorem responsesOf_replicate_done (j : Nat) :
    responsesOf (List.replicate j (Delivered.done : Delivered R X)) = [] := by
  induction j with
  | zero => rfl
  | succ j ih => simp [List.replicate_succ, responsesOf, ih]

theorem responsesOf_map_resp (exec : Ev → R) (evs : List Ev) :
    responsesOf (evs.map (fun e => (Delivered.resp (exec e) : Delivered R X))) = evs.map exec := by
  induction evs with
  | nil => rfl
  | cons e evs ih => simp [responsesOf, ih]

theorem map_outOf_items (exec : Ev → R) (src : Source Ev X) :
    src.items.map (outOf exec) = expected exec src := by
  unfold Source.items expected
  cases h : src.term <;> simp [Term.item, outOf, List.map_map, Function.comp_def]

theorem responsesOf_expected (exec : Ev → R) (src : Source Ev X) :
    responsesOf (expected exec src) = src.events.map exec := by
  unfold expected
  rw [responsesOf_append, responsesOf_map_resp]
  cases src.term <;> simp [responsesOf]

/-- An item that is not an event. -/
def Item.isTerm : Item Ev X → Prop
  | .ev _ => False
  | _ => True

theorem term_item_isTerm (t : Term X) : (t.item : Item Ev X).isTerm := by
  cases t <;> simp [Term.item, Item.isTerm]

/-- In `events ++ [terminator]` a terminator can only be the last element. -/
theorem term_is_last (l1 l2 : List Ev) (it t : Item Ev X) (rest : List (Item Ev X))
    (hit : it.isTerm)
    (h : l1.map Item.ev ++ it :: rest = l2.map Item.ev ++ [t]) : rest = [] ∧ l1 = l2 := by
  induction l1 generalizing l2 with
  | nil =>
    cases l2 with
    | nil => simp at h; exact ⟨h.2, rfl⟩
    | cons b l2 => simp at h; rw [h.1] at hit; exact absurd hit (by simp [Item.isTerm])
  | cons a l1 ih =>
    cases l2 with
    | nil =>
      simp at h
    | cons b l2 =>
      simp at h
      obtain ⟨hab, h⟩ := h
      have := ih l2 (by simpa using h)
      exact ⟨this.1, by rw [hab, this.2]⟩

/-- The invariant tying a state to its source. -/
structure Inv (exec : Ev → R) (src : Source Ev X) (s : St Ev R X) : Prop where
  ex : ∃ (consumed : List (Item Ev X)) (j : Nat),
    consumed ++ s.queue ++ s.pending = src.items ∧
    s.out = consumed.map (outOf exec) ++ List.replicate j Delivered.done ∧
    (s.finished = false → j = 0 ∧ ∃ evs : List Ev, consumed = evs.map Item.ev) ∧
    (s.finished = true → s.closedEarly = false → s.queue = [] ∧ s.pending = [])
  waitingQ : s.waiting = true → s.queue = [] ∧ s.finished = false ∧ s.started = true
  closed : s.srcClosed = if s.finished && s.started then 1 else 0
  closedEarlyFin : s.closedEarly = true → s.finished = true

theorem inv_init (exec : Ev → R) (src : Source Ev X) : Inv exec src (init src) := by
  refine ⟨⟨[], 0, ?_, ?_, ?_, ?_⟩, ?_, ?_, ?_⟩ <;> simp [init]

/-- Delivering the head of what is available preserves the invariant. -/
theorem inv_deliver (exec : Ev → R) (src : Source Ev X) (s : St Ev R X) (it : Item Ev X)
    (consumed : List (Item Ev X))
    (hsplit : consumed ++ [it] ++ s.queue ++ s.pending = src.items)
    (hout : s.out = consumed.map (outOf exec))
    (hev : ∃ evs : List Ev, consumed = evs.map Item.ev)
    (hfin : s.finished = false) (hstarted : s.started = true) (hclosed : s.srcClosed = 0)
    (hce : s.closedEarly = false) :
    Inv exec src (deliver exec s it) := by
  obtain ⟨evs, hevs⟩ := hev
  cases it with
  | ev e =>
    refine ⟨⟨consumed ++ [Item.ev e], 0, ?_, ?_, ?_, ?_⟩, ?_, ?_, ?_⟩
    · simpa [deliver] using hsplit
    · simp [deliver, hout, outOf]
    · intro _; exact ⟨rfl, evs ++ [e], by simp [hevs]⟩
    · intro h; simp [deliver, hfin] at h
    · intro h; simp [deliver] at h
    · simp [deliver, hfin, hclosed]
    · intro h; simp [deliver, hce] at h
  | stop =>
    have hl := term_is_last evs src.events Item.stop src.term.item (s.queue ++ s.pending)
      (by simp [Item.isTerm])
      (by rw [← hevs]; simpa [Source.items] using hsplit)
    have hq : s.queue = [] ∧ s.pending = [] := by simpa using hl.1
    refine ⟨⟨consumed ++ [Item.stop], 0, ?_, ?_, ?_, ?_⟩, ?_, ?_, ?_⟩
    · simpa [deliver] using hsplit
    · simp [deliver, hout, outOf]
    · intro h; simp [deliver] at h
    · intro _ _; simpa [deliver] using hq
    · intro h; simp [deliver] at h
    · simp [deliver, hstarted, hclosed]
    · intro h; simp [deliver, hce] at h
  | fail x =>
    have hl := term_is_last evs src.events (Item.fail x) src.term.item (s.queue ++ s.pending)
      (by simp [Item.isTerm])
      (by rw [← hevs]; simpa [Source.items] using hsplit)
    have hq : s.queue = [] ∧ s.pending = [] := by simpa using hl.1
    refine ⟨⟨consumed ++ [Item.fail x], 0, ?_, ?_, ?_, ?_⟩, ?_, ?_, ?_⟩
    · simpa [deliver] using hsplit
    · simp [deliver, hout, outOf]
    · intro h; simp [deliver] at h
    · intro _ _; simpa [deliver] using hq
    · intro h; simp [deliver] at h
    · simp [deliver, hstarted, hclosed]
    · intro h; simp [deliver, hce] at h

theorem step_push_nil (exec : Ev → R) (s : St Ev R X) (h : s.pending = []) :
    step exec s .push = s := by simp [step, h]

theorem step_push_wait (exec : Ev → R) (s : St Ev R X) (it : Item Ev X) (rest : List (Item Ev X))
    (h : s.pending = it :: rest) (hw : s.waiting = true) :
    step exec s .push = deliver exec { s with pending := rest } it := by simp [step, h, hw]

theorem step_push_queue (exec : Ev → R) (s : St Ev R X) (it : Item Ev X) (rest : List (Item Ev X))
    (h : s.pending = it :: rest) (hw : s.waiting = false) :
    step exec s .push = { s with pending := rest, queue := s.queue ++ [it] } := by
  simp [step, h, hw]

theorem step_pull_fin (exec : Ev → R) (s : St Ev R X) (h : s.finished = true) :
    step exec s .pull = { s with out := s.out ++ [Delivered.done] } := by simp [step, h]

theorem step_pull_wait (exec : Ev → R) (s : St Ev R X) (h : s.finished = false)
    (hw : s.waiting = true) : step exec s .pull = s := by simp [step, h, hw]

theorem step_pull_empty (exec : Ev → R) (s : St Ev R X) (h : s.finished = false)
    (hw : s.waiting = false) (hq : s.queue = []) :
    step exec s .pull = { s with waiting := true, started := true } := by simp [step, h, hw, hq]

theorem step_pull_item (exec : Ev → R) (s : St Ev R X) (it : Item Ev X) (q : List (Item Ev X))
    (h : s.finished = false) (hw : s.waiting = false) (hq : s.queue = it :: q) :
    step exec s .pull = deliver exec { s with queue := q, started := true } it := by
  simp [step, h, hw, hq]

theorem step_close_noop (exec : Ev → R) (s : St Ev R X) (h : (s.finished || s.waiting) = true) :
    step exec s .close = s := by simp [step, h]

theorem step_close (exec : Ev → R) (s : St Ev R X) (h : s.finished = false) (hw : s.waiting = false) :
    step exec s .close =
      { s with finished := true, closedEarly := true,
               srcClosed := if s.started then s.srcClosed + 1 else s.srcClosed } := by
  simp [step, h, hw]

theorem inv_step (exec : Ev → R) (src : Source Ev X) (s : St Ev R X) (op : Op)
    (h : Inv exec src s) : Inv exec src (step exec s op) := by
  have h0 := h
  obtain ⟨⟨consumed, j, hsplit, hout, hnf, hfc⟩, hw, hcl, hce⟩ := h
  have hceF : s.finished = false → s.closedEarly = false := by
    intro hf
    cases h : s.closedEarly with
    | false => rfl
    | true => rw [hce h] at hf; cases hf
  cases op with
  | push =>
    cases hp : s.pending with
    | nil => rw [step_push_nil exec s hp]; exact h0
    | cons it rest =>
      cases hwt : s.waiting with
      | true =>
        obtain ⟨hq, hfin, hst⟩ := hw hwt
        obtain ⟨hj, hevs⟩ := hnf hfin
        rw [step_push_wait exec s it rest hp hwt]
        apply inv_deliver exec src _ it consumed
        · simpa [hq, hp] using hsplit
        · simpa [hj] using hout
        · exact hevs
        · exact hfin
        · exact hst
        · simpa [hfin] using hcl
        · exact hceF hfin
      | false =>
        rw [step_push_queue exec s it rest hp hwt]
        refine ⟨⟨consumed, j, ?_, hout, hnf, ?_⟩, ?_, hcl, hce⟩
        · simpa [hp] using hsplit
        · intro hf hc; have := (hfc hf hc).2; rw [hp] at this; cases this
        · intro h; rw [hwt] at h; cases h
  | pull =>
    cases hfin : s.finished with
    | true =>
      rw [step_pull_fin exec s hfin]
      refine ⟨⟨consumed, j + 1, hsplit, ?_, ?_, hfc⟩, hw, hcl, hce⟩
      · simp [hout, List.replicate_succ', List.append_assoc]
      · intro h; rw [hfin] at h; cases h
    | false =>
      cases hwt : s.waiting with
      | true => rw [step_pull_wait exec s hfin hwt]; exact h0
      | false =>
        obtain ⟨hj, hevs⟩ := hnf hfin
        cases hq : s.queue with
        | nil =>
          rw [step_pull_empty exec s hfin hwt hq]
          refine ⟨⟨consumed, j, hsplit, hout, hnf, hfc⟩, ?_, ?_, hce⟩
          · intro _; exact ⟨hq, hfin, rfl⟩
          · simp [hfin, hcl]
        | cons it q =>
          rw [step_pull_item exec s it q hfin hwt hq]
          apply inv_deliver exec src _ it consumed
          · simpa [hq] using hsplit
          · simpa [hj] using hout
          · exact hevs
          · exact hfin
          · rfl
          · simpa [hfin] using hcl
          · exact hceF hfin
  | close =>
    cases hfin : s.finished with
    | true => rw [step_close_noop exec s (by simp [hfin])]; exact h0
    | false =>
      cases hwt : s.waiting with
      | true => rw [step_close_noop exec s (by simp [hwt])]; exact h0
      | false =>
        rw [step_close exec s hfin hwt]
        obtain ⟨hj, hevs⟩ := hnf hfin
        refine ⟨⟨consumed, j, hsplit, hout, ?_, ?_⟩, ?_, ?_, ?_⟩
        · intro h; cases h
        · intro _ h; cases h
        · intro h; rw [hwt] at h; cases h
        · have h0 : s.srcClosed = 0 := by simpa [hfin] using hcl
          cases hs : s.started <;> simp [h0]
        · intro _; rfl

theorem inv_run (exec : Ev → R) (src : Source Ev X) (ops : List Op) (s : St Ev R X)
    (h : Inv exec src s) : Inv exec src (run exec s ops) := by
  induction ops generalizing s with
  | nil => exact h
  | cons op ops ih => exact ih _ (inv_step exec src s op h)

/-! ### Progress -/

instance decEnabledRun (exec : Ev → R) :
    (s : St Ev R X) → (ops : List Op) → Decidable (EnabledRun exec s ops)
  | _, [] => isTrue trivial
  | s, op :: ops =>
    have := decEnabledRun exec (step exec s op) ops
    (inferInstance : Decidable (enabled s op = true ∧ EnabledRun exec (step exec s op) ops))


theorem deliver_finished (exec : Ev → R) (s : St Ev R X) (it : Item Ev X)
    (h : s.finished = true) : (deliver exec s it).finished = true := by
  cases it <;> simp [deliver, h]

theorem finished_step (exec : Ev → R) (s : St Ev R X) (op : Op) (h : s.finished = true) :
    (step exec s op).finished = true := by
  cases op with
  | push =>
    cases hp : s.pending with
    | nil => rw [step_push_nil exec s hp]; exact h
    | cons it rest =>
      cases hw : s.waiting with
      | true => rw [step_push_wait exec s it rest hp hw]; exact deliver_finished exec _ it h
      | false => rw [step_push_queue exec s it rest hp hw]; exact h
  | pull => rw [step_pull_fin exec s h]; exact h
  | close => rw [step_close_noop exec s (by simp [h])]; exact h

theorem finished_run (exec : Ev → R) (ops : List Op) (s : St Ev R X) (h : s.finished = true) :
    (run exec s ops).finished = true := by
  induction ops generalizing s with
  | nil => exact h
  | cons op ops ih => exact ih _ (finished_step exec s op h)

theorem fuel_pos (exec : Ev → R) (src : Source Ev X) (s : St Ev R X) (h : Inv exec src s)
    (hfin : s.finished = false) : 0 < fuel s := by
  obtain ⟨⟨consumed, j, hsplit, hout, hnf, hfc⟩, hw, hcl, hce⟩ := h
  unfold fuel
  cases hwt : s.waiting with
  | false => simp
  | true =>
    obtain ⟨hq, _, _⟩ := hw hwt
    obtain ⟨_, evs, hevs⟩ := hnf hfin
    cases hp : s.pending with
    | cons it rest => simp; omega
    | nil =>
      -- nothing queued, nothing pending: the terminator would have been consumed
      exfalso
      rw [hq, hp, hevs] at hsplit
      simp [Source.items] at hsplit
      have := congrArg List.length hsplit
      simp at this
      have h2 : evs.length = src.events.length + 1 := this
      have hl : (List.map Item.ev evs : List (Item Ev X)) = List.map Item.ev src.events ++ [src.term.item] := hsplit
      have hmem : src.term.item ∈ (List.map Item.ev evs : List (Item Ev X)) := by
        rw [hl]; simp
      obtain ⟨e, _, he⟩ := List.mem_map.1 hmem
      cases ht : src.term <;> simp [ht, Term.item] at he

theorem deliver_progress (exec : Ev → R) (s : St Ev R X) (it : Item Ev X) :
    (deliver exec s it).finished = true ∨
      ((deliver exec s it).pending = s.pending ∧ (deliver exec s it).queue = s.queue ∧
        (deliver exec s it).waiting = false) := by
  cases it <;> simp [deliver]

theorem step_progress (exec : Ev → R) (src : Source Ev X) (s : St Ev R X) (op : Op)
    (h : Inv exec src s) (hfin : s.finished = false) (hen : enabled s op = true) :
    (step exec s op).finished = true ∨ fuel (step exec s op) < fuel s := by
  obtain ⟨_, hw, _, _⟩ := h
  cases op with
  | close => simp [enabled] at hen
  | push =>
    cases hp : s.pending with
    | nil => simp [enabled, hp] at hen
    | cons it rest =>
      cases hwt : s.waiting with
      | true =>
        obtain ⟨hq, _, _⟩ := hw hwt
        rw [step_push_wait exec s it rest hp hwt]
        rcases deliver_progress exec { s with pending := rest } it with hd | ⟨h1, h2, h3⟩
        · exact Or.inl hd
        · right; unfold fuel; rw [h1, h2, h3]; simp [hp, hq, hwt]; omega
      | false =>
        right
        rw [step_push_queue exec s it rest hp hwt]
        unfold fuel; simp [hp, hwt]; omega
  | pull =>
    cases hwt : s.waiting with
    | true => simp [enabled, hfin, hwt] at hen
    | false =>
      cases hq : s.queue with
      | nil =>
        right
        rw [step_pull_empty exec s hfin hwt hq]
        unfold fuel; simp [hq, hwt]
      | cons it q =>
        rw [step_pull_item exec s it q hfin hwt hq]
        rcases deliver_progress exec { s with queue := q, started := true } it with hd | ⟨h1, h2, h3⟩
        · exact Or.inl hd
        · right; unfold fuel; rw [h1, h2, h3]; simp [hq, hwt]

theorem enabled_run_finishes (exec : Ev → R) (src : Source Ev X) (ops : List Op) (s : St Ev R X)
    (h : Inv exec src s) (hen : EnabledRun exec s ops) (hlen : fuel s ≤ ops.length) :
    (run exec s ops).finished = true := by
  induction ops generalizing s with
  | nil =>
    cases hfin : s.finished with
    | true => exact hfin
    | false => have := fuel_pos exec src s h hfin; simp at hlen; omega
  | cons op ops ih =>
    cases hfin : s.finished with
    | true => exact finished_run exec (op :: ops) s hfin
    | false =>
      obtain ⟨he, hrest⟩ := hen
      have hinv := inv_step exec src s op h
      rcases step_progress exec src s op h hfin he with hd | hlt
      · exact finished_run exec ops _ hd
      · apply ih _ hinv hrest
        simp at hlen; omega

/-- Without a `close` in the schedule the consumer never closed early. -/
theorem closedEarly_step (exec : Ev → R) (s : St Ev R X) (op : Op) (hop : op ≠ .close)
    (h : s.closedEarly = false) : (step exec s op).closedEarly = false := by
  have hd : ∀ (t : St Ev R X) (it : Item Ev X), (deliver exec t it).closedEarly = t.closedEarly := by
    intro t it; cases it <;> rfl
  cases op with
  | close => exact absurd rfl hop
  | push =>
    cases hp : s.pending with
    | nil => rw [step_push_nil exec s hp]; exact h
    | cons it rest =>
      cases hw : s.waiting with
      | true => rw [step_push_wait exec s it rest hp hw, hd]; exact h
      | false => rw [step_push_queue exec s it rest hp hw]; exact h
  | pull =>
    cases hfin : s.finished with
    | true => rw [step_pull_fin exec s hfin]; exact h
    | false =>
      cases hw : s.waiting with
      | true => rw [step_pull_wait exec s hfin hw]; exact h
      | false =>
        cases hq : s.queue with
        | nil => rw [step_pull_empty exec s hfin hw hq]; exact h
        | cons it q => rw [step_pull_item exec s it q hfin hw hq, hd]; exact h

theorem closedEarly_run (exec : Ev → R) (ops : List Op) (s : St Ev R X) (hops : Op.close ∉ ops)
    (h : s.closedEarly = false) : (run exec s ops).closedEarly = false := by
  induction ops generalizing s with
  | nil => exact h
  | cons op ops ih =>
    simp at hops
    exact ih _ hops.2 (closedEarly_step exec s op (fun e => hops.1 e.symm) h)

end Gql.Async.Subscribe
