import Gql.Proofs.RulesSpec
/-!
C12 — `rule_iff_spec` for LoneAnonymousOperation: a rule whose private state is set once, at the document node, and
only read below it.
-/
namespace Gql.Validation
variable {τ σ ε : Type}

/-- On nodes whose kind satisfies `P` the handlers keep the state and answer `None`; what they report may depend on
the state. -/
def Rule.QuietOn (r : Rule τ σ ε) (P : String → Bool) (f : σ → Phase → Info → List ε) : Prop :=
  ∀ s ph i ti, P i.kind = true → r.step s ph i ti = (Action.idle, s, f s ph i)

theorem Member.enter_quiet (ti : TI τ) (i : Info) (m : Member τ σ ε) (P : String → Bool) (f : σ → Phase → Info → List ε)
    (hs : m.skipping = .none) (hf : m.rule.QuietOn P f) (hp : P i.kind = true) :
    (Member.enter ti i m).1.rule = m.rule ∧ (Member.enter ti i m).1.skipping = .none ∧ (Member.enter ti i m).1.st = m.st ∧
    (Member.enter ti i m).1.errs = m.errs ++ (if m.rule.hEnter i.kind then f m.st .enter i else []) := by
  unfold Member.enter
  by_cases h : m.rule.hEnter i.kind = true
  · simp [hs, h, hf _ _ _ _ hp, Member.skipOf]
  · simp [hs, h]

theorem Member.leave_quiet (ti : TI τ) (i : Info) (m : Member τ σ ε) (P : String → Bool) (f : σ → Phase → Info → List ε)
    (hs : m.skipping = .none) (hf : m.rule.QuietOn P f) (hp : P i.kind = true) :
    (Member.leave ti i m).1.rule = m.rule ∧ (Member.leave ti i m).1.skipping = .none ∧ (Member.leave ti i m).1.st = m.st ∧
    (Member.leave ti i m).1.errs = m.errs ++ (if m.rule.hLeave i.kind then f m.st .leave i else []) := by
  unfold Member.leave
  by_cases h : m.rule.hLeave i.kind = true
  · simp [hs, h, hf _ _ _ _ hp]
  · simp [hs, h]

theorem Member.trav_quiet (D : Driver τ) (r : Rule τ σ ε) (P : String → Bool) (f : σ → Phase → Info → List ε)
    (hf : r.QuietOn P f) :
    (∀ t (ti : TI τ) (m : Member τ σ ε), m.rule = r → m.skipping = .none → (∀ i ∈ t.infos, P i.kind = true) →
      (Member.trav D ti m t).rule = r ∧ (Member.trav D ti m t).skipping = .none ∧ (Member.trav D ti m t).st = m.st ∧
      (Member.trav D ti m t).errs = m.errs ++ evErrs r.hEnter r.hLeave (f m.st) t) ∧
    (∀ ts (ti : TI τ) (m : Member τ σ ε), m.rule = r → m.skipping = .none → (∀ i ∈ Tree.infosList ts, P i.kind = true) →
      (Member.travList D ti m ts).rule = r ∧ (Member.travList D ti m ts).skipping = .none ∧ (Member.travList D ti m ts).st = m.st ∧
      (Member.travList D ti m ts).errs = m.errs ++ evErrsList r.hEnter r.hLeave (f m.st) ts) := by
  apply Tree.induct
  · intro i cs ih ti m hr hs hP
    rw [Member.trav, evErrs]
    simp only [Tree.infos, List.mem_cons, forall_eq_or_imp] at hP
    have hfm : m.rule.QuietOn P f := hr ▸ hf
    obtain ⟨e1, e2, e3, e4⟩ := Member.enter_quiet (D.enter ti i) i m P f hs hfm hP.1
    obtain ⟨c1, c2, c3, c4⟩ := ih (D.enter ti i) (Member.enter (D.enter ti i) i m).1 (e1.trans hr) e2 hP.2
    have hfc : (Member.travList D (D.enter ti i) (Member.enter (D.enter ti i) i m).1 cs).rule.QuietOn P f := c1 ▸ hf
    obtain ⟨l1, l2, l3, l4⟩ := Member.leave_quiet (tiTravList D (D.enter ti i) cs) i _ P f c2 hfc hP.1
    refine ⟨l1.trans c1, l2, l3.trans (c3.trans e3), ?_⟩
    rw [l4, c4, e4, c1, hr, c3, e3]
    simp [List.append_assoc]
  · intro ti m hr hs _
    rw [Member.travList, evErrsList]
    simp [hr, hs]
  · intro t ts iht ihts ti m hr hs hP
    rw [Member.travList, evErrsList]
    simp only [Tree.infosList, List.mem_append] at hP
    obtain ⟨a1, a2, a3, a4⟩ := iht ti m hr hs (fun i hi => hP i (Or.inl hi))
    obtain ⟨b1, b2, b3, b4⟩ := ihts (tiTrav D ti t) (Member.trav D ti m t) a1 a2 (fun i hi => hP i (Or.inr hi))
    refine ⟨b1, b2, b3.trans a3, ?_⟩
    rw [b4, a4, a3]
    simp [List.append_assoc]

/-- `validate([rule])` returns the errors of the rule's own traversal record. -/
theorem validate_single_eq (tbl : TITable) (L : Lookups τ) (r : Rule τ σ ε) (s0 : σ) (doc : Tree) :
    validate tbl L none [(r, s0)] doc =
      (Member.trav (realDriver tbl L) TI.init (Member.start r s0) doc).errs.map Reported.error := by
  have h1 : validate tbl L none [(r, s0)] doc =
      (errsTrav (realDriver tbl L) TI.init (startMembers [(r, s0)]) doc).map Reported.error := by
    unfold validate validateRun
    rw [run_closed]
    simp [Sink.result]
  rw [h1]
  have h2 := errsTrav_single (realDriver tbl L) TI.init (r, s0) doc
  simp only [startMembers, List.map_cons, List.map_nil]
  rw [← h2]

end Gql.Validation

namespace Gql.Validation.Rules
open Gql.Validation
variable {τ : Type}

namespace Spec
/-- "If the document defines more than one operation, no operation definition is anonymous" (spec §5.2.2.1). -/
def loneAnonymousOperation (doc : ATree) : Prop :=
  (opDefs doc).length > 1 → ∀ n ∈ doc.nodes, n.kind = "operation_definition" → (n.kid "name").isSome = true
end Spec

/-- what LoneAnonymousOperation reports below the document node, given its state -/
def loneReports (doc : ATree) (s : RS) (ph : Phase) (i : Info) : List RErr :=
  ((loneAnonymousOperation (τ := Unit) doc).step s ph i TI.init).2.2

theorem lone_quiet (doc : ATree) :
    (loneAnonymousOperation (τ := τ) doc).QuietOn (fun k => k != "document") (loneReports doc) := by
  intro s ph i ti hp
  have hk : (i.kind == "document") = false := by simpa using hp
  simp only [loneReports, loneAnonymousOperation, withNode]
  split
  · cases ph
    · simp only [hk, Bool.false_eq_true, if_false]
      split <;> rfl
    · rfl
  · rfl

theorem Member.leave_unhandled' {τ σ ε : Type} (ti : TI τ) (i : Info) (m : Member τ σ ε) (hs : m.skipping = .none)
    (h : m.rule.hLeave i.kind = false) : (Member.leave ti i m).1 = m := by
  unfold Member.leave
  simp [hs, h]

theorem lone_reports_at (doc n : ATree) (s : RS) (hfind : doc.find n.info.id = some n) (hk : n.kind ≠ "document") :
    loneReports doc s .enter n.info =
      if (n.kid "name").isNone && s.count > 1 then [⟨"LoneAnonymousOperationRule", "", [n.id]⟩] else [] := by
  have hk' : (n.info.kind == "document") = false := by simpa [ATree.kind] using hk
  simp only [loneReports, loneAnonymousOperation, withNode, hfind, hk', Bool.false_eq_true, if_false]
  split <;> rfl

theorem loneAnonymousOperation_iff (tbl : TITable) (L : Lookups τ) (i : Info) (f v : String) (cs : List ATree)
    (hk : i.kind = "document") (hu : (ATree.node i f v cs).uniqueIds)
    (hnd : ∀ n ∈ ATree.nodesList cs, n.kind ≠ "document") :
    validate tbl L none [(loneAnonymousOperation (ATree.node i f v cs), RS.init)] (ATree.node i f v cs).erase = [] ↔
      Spec.loneAnonymousOperation (ATree.node i f v cs) := by
  rw [validate_single_eq, List.map_eq_nil_iff]
  generalize hdoc : ATree.node i f v cs = doc at *
  have herase : doc.erase = .node i (ATree.eraseList cs) := by rw [← hdoc, ATree.erase]
  have hnodes : doc.nodes = doc :: ATree.nodesList cs := by rw [← hdoc, ATree.nodes]
  have hroot : doc.find i.id = some doc := by rw [← hdoc]; simp [ATree.find]
  have hdk : doc.kind = "document" := by rw [← hdoc]; simpa [ATree.kind, ATree.info] using hk
  rw [herase, Member.trav]
  -- the enter of the document node
  have hstep : ∀ ti : TI τ, (loneAnonymousOperation (τ := τ) doc).step RS.init .enter i ti =
      (Action.idle, { RS.init with count := (opDefs doc).length }, []) := by
    intro ti
    simp [loneAnonymousOperation, withNode, hroot, hk, opDefs]
  have hE : (loneAnonymousOperation (τ := τ) doc).hEnter i.kind = true := by simp [loneAnonymousOperation, hk]
  have hL : ∀ k, (loneAnonymousOperation (τ := τ) doc).hLeave k = false := by intro k; rfl
  let D := realDriver tbl L
  let m1 := (Member.enter (D.enter TI.init i) i (Member.start (loneAnonymousOperation (τ := τ) doc) RS.init)).1
  have hm1 : m1.rule = loneAnonymousOperation doc ∧ m1.skipping = .none ∧
      m1.st = { RS.init with count := (opDefs doc).length } ∧ m1.errs = [] := by
    simp only [m1, Member.enter, Member.start, hE, and_self, if_true, hstep, Member.skipOf]
    simp
  obtain ⟨r1, r2, r3, r4⟩ := hm1
  have hP : ∀ j ∈ Tree.infosList (ATree.eraseList cs), (fun k : String => k != "document") j.kind = true := by
    intro j hj
    rw [ATree.infos_erase.2] at hj
    obtain ⟨n, hn, rfl⟩ := List.mem_map.mp hj
    simpa [ATree.kind] using hnd n hn
  obtain ⟨c1, c2, c3, c4⟩ := (Member.trav_quiet D _ _ _ (lone_quiet (τ := τ) doc)).2 (ATree.eraseList cs) (D.enter TI.init i) m1 r1 r2 hP
  have hleave := Member.leave_unhandled' (tiTravList D (D.enter TI.init i) (ATree.eraseList cs)) i
    (Member.travList D (D.enter TI.init i) m1 (ATree.eraseList cs)) c2 (by rw [c1]; exact hL _)
  show (Member.leave _ i (Member.travList D (D.enter TI.init i) m1 (ATree.eraseList cs))).1.errs = [] ↔ _
  rw [hleave, c4, r4, r3, List.nil_append, (evErrs_nil_iff _ _ _).2, ATree.infos_erase.2]
  have hfind : ∀ n ∈ ATree.nodesList cs, doc.find n.info.id = some n := by
    intro n hn
    exact ATree.find_of_mem.1 doc hu n (by rw [hnodes]; exact List.mem_cons_of_mem _ hn)
  unfold Spec.loneAnonymousOperation
  constructor
  · intro h hc n hn hop
    rw [hnodes] at hn
    rcases List.mem_cons.mp hn with rfl | hn
    · rw [hdk] at hop; exact absurd hop (by decide)
    · have h1 := (h n.info (List.mem_map_of_mem hn)).1 (by simp [loneAnonymousOperation, ATree.kind] at hop ⊢; simp [hop])
      rw [lone_reports_at doc n _ (hfind n hn) (hnd n hn)] at h1
      cases hnm : (n.kid "name") with
      | some _ => rfl
      | none =>
        exfalso
        simp [hnm, hc] at h1
  · intro h j hj
    obtain ⟨n, hn, rfl⟩ := List.mem_map.mp hj
    refine ⟨?_, by intro hl; rw [hL] at hl; exact absurd hl (by simp)⟩
    intro hen
    rw [lone_reports_at doc n _ (hfind n hn) (hnd n hn)]
    have hop : n.kind = "operation_definition" := by
      have hnk := hnd n hn
      simp only [loneAnonymousOperation, Bool.or_eq_true, beq_iff_eq] at hen
      rcases hen with hen | hen
      · exact absurd hen hnk
      · exact hen
    by_cases hc : (opDefs doc).length > 1
    · have hsome := h hc n (by rw [hnodes]; exact List.mem_cons_of_mem _ hn) hop
      cases hnm : n.kid "name" with
      | none => rw [hnm] at hsome; simp at hsome
      | some _ => simp
    · simp [hc]

end Gql.Validation.Rules
