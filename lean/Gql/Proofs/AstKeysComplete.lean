import Gql.Generated.AstKeys
/-!
T1 proof obligation of C11: the generated table of node classes (fields with the kind of their
annotation) against the generated `QUERY_DOCUMENT_KEYS`.  Re-checked by `decide` whenever
`tools/c11_extract.py` rewrites `Gql/Generated/AstKeys.lean`.
-/
namespace Gql.Generated

def isNodeValued : FieldKind → Bool
  | .node | .optNode | .nodes | .optNodes => true
  | _ => false

/-- `QUERY_DOCUMENT_KEYS.get(kind, ())` -/
def keysFor (kind : String) : List String :=
  match queryDocumentKeys.lookup kind with
  | some ks => ks
  | none => []

/-- every concrete node class: no field of mixed kind, a field is node-valued iff it is listed
for the class's kind, and every listed key is a node-valued field of the class -/
def classesCovered : Bool :=
  nodeClasses.all fun c => c.abstract ||
    ((c.fields.all fun (f, k) => k != .mixed && (isNodeValued k == (keysFor c.kind).contains f)) &&
     ((keysFor c.kind).all fun k => c.fields.any fun (f, fk) => f == k && isNodeValued fk))

/-- every entry of the table belongs to a concrete class and lists no key twice -/
def tableTight : Bool :=
  queryDocumentKeys.all fun (kind, ks) =>
    decide ks.Nodup && nodeClasses.any fun c => !c.abstract && c.kind == kind

theorem astKeys_complete :
    classesCovered = true ∧ tableTight = true ∧ (queryDocumentKeys.map Prod.fst).Nodup := by
  decide +kernel

end Gql.Generated
