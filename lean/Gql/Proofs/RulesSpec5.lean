import Gql.Proofs.RulesSpec3
/-!
C12 — `get_recursive_variable_usages(operation)` in terms of the spread graph: a statement about all usages that are
not fragment variables is a statement about the variables of the operation and of the fragments it reaches.
-/
namespace Gql.Validation.Rules
open Gql.Validation

theorem recUsages_forall_iff (doc op : ATree) (hk : op.kind = "operation_definition") (P : ATree → Option String → Prop) :
    (∀ u ∈ getRecUsages doc op, u.fragVar = false → P u.node u.name) ↔
      (∀ x ∈ variablesIn op, P x x.nameValue) ∧
      (∀ ss, op.kid "selection_set" = some ss → ∀ m f, Spec.Reaches doc ss m → getFragment doc m = some f →
        ∀ x ∈ variablesIn f, fragVarDefined doc f.nameValue x.nameValue = false → P x x.nameValue) := by
  have hne : ("operation_definition" == "fragment_definition") = false := by decide
  unfold getRecUsages
  rw [List.forall_mem_append]
  apply and_congr
  · simp only [getUsages, List.mem_map, hk, hne, Bool.false_and]
    constructor
    · intro h x hx; exact h ⟨x, x.nameValue, false⟩ ⟨x, hx, rfl⟩ rfl
    · rintro h u ⟨x, hx, rfl⟩ _; exact h x hx
  · cases hss : op.kid "selection_set" with
    | none => simp [getRecFrags_no_selection_set doc op hss]
    | some ss =>
      simp only [List.mem_flatMap, Option.some.injEq, forall_eq']
      constructor
      · intro h m f hr hg x hx hfv
        have hkf := getFragment_kind hg
        exact h ⟨x, x.nameValue, (f.kind == "fragment_definition") && fragVarDefined doc f.nameValue x.nameValue⟩
          ⟨f, (getRecFrags_mem_iff_reaches doc op ss hss f).mpr ⟨m, hr, hg⟩, by
            simp only [getUsages, List.mem_map]; exact ⟨x, hx, rfl⟩⟩ (by simp [hfv])
      · rintro h u ⟨f, hf, hu⟩ hfv
        obtain ⟨m, hr, hg⟩ := (getRecFrags_mem_iff_reaches doc op ss hss f).mp hf
        have hkf := getFragment_kind hg
        simp only [getUsages, List.mem_map] at hu
        obtain ⟨x, hx, rfl⟩ := hu
        simp only at hfv ⊢
        exact h m f hr hg x hx (by simpa [hkf] using hfv)

end Gql.Validation.Rules
