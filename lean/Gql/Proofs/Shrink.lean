import Gql.Proofs.Attach
/-!
The scheduler-graph invariant, part 2: the stream side (`SForest`), the complete invariant
`Good`, and the relation `Shrink` (nodes deleted, tasks / counters / values changed, fresh empty
task nodes added) under which it is preserved.
-/
namespace Gql.Async

/-- Child streams wait in the node of exactly one task, once, and are not roots. -/
structure SForest (q : WQ) : Prop where
  nodup : ∀ t tn, alookup q.taskNodes t = some tn → tn.childStreams.Nodup
  notRoot : ∀ t tn s, alookup q.taskNodes t = some tn → s ∈ tn.childStreams → s ∉ q.rootStreams
  owner : ∀ t t' tn tn' s, alookup q.taskNodes t = some tn → alookup q.taskNodes t' = some tn' →
    s ∈ tn.childStreams → s ∈ tn'.childStreams → t = t'

/-- Every stream the graph knows is in `Y`. -/
structure SKnown (Y : List Nat) (q : WQ) : Prop where
  roots : ∀ s ∈ q.rootStreams, s ∈ Y
  children : ∀ t tn s, alookup q.taskNodes t = some tn → s ∈ tn.childStreams → s ∈ Y

/-- The scheduler-graph invariant, relative to the environment's ghost state. -/
structure Good (σ : Static) (e : EnvSt) (q : WQ) : Prop where
  forest : Forest σ q
  known : KnownIn e.introG q
  sforest : SForest q
  sknown : SKnown e.introS q

/-- Task nodes of `q'` are task nodes of `q` with the same child streams, or have none. -/
def TSub (q q' : WQ) : Prop :=
  ∀ t tn', alookup q'.taskNodes t = some tn' →
    tn'.childStreams = [] ∨ ∃ tn, alookup q.taskNodes t = some tn ∧ tn'.childStreams = tn.childStreams

theorem TSub.refl (q : WQ) : TSub q q := fun _ tn h => Or.inr ⟨tn, h, rfl⟩

theorem TSub.trans {a b c : WQ} (h1 : TSub a b) (h2 : TSub b c) : TSub a c := by
  intro t tn' h
  rcases h2 t tn' h with e | ⟨tn1, e1, c1⟩
  · exact Or.inl e
  · rcases h1 t tn1 e1 with e0 | ⟨tn0, e0, c0⟩
    · exact Or.inl (c1.trans e0)
    · exact Or.inr ⟨tn0, e0, c1.trans c0⟩

theorem tsub_of_eq {q q' : WQ} (h : q'.taskNodes = q.taskNodes) : TSub q q' :=
  fun _ tn e => Or.inr ⟨tn, h ▸ e, rfl⟩

structure Shrink (q q' : WQ) : Prop where
  sub : SubGraph q q'
  tsub : TSub q q'

theorem Shrink.refl (q : WQ) : Shrink q q := ⟨SubGraph.refl q, TSub.refl q⟩
theorem Shrink.trans {a b c : WQ} (h1 : Shrink a b) (h2 : Shrink b c) : Shrink a c :=
  ⟨h1.sub.trans h2.sub, h1.tsub.trans h2.tsub⟩

theorem shrink_of_eq {q q' : WQ} (hg : q'.groupNodes = q.groupNodes) (ht : q'.taskNodes = q.taskNodes) :
    Shrink q q' := ⟨subGraph_of_eq hg, tsub_of_eq ht⟩

theorem foldl_shrink {α : Type} (f : WQ → α → WQ) (l : List α) (q : WQ)
    (h : ∀ q a, Shrink q (f q a)) : Shrink q (l.foldl f q) := by
  induction l generalizing q with
  | nil => exact Shrink.refl q
  | cons a l ih => exact (h q a).trans (ih _)

theorem foldl_shrink1 {α β : Type} (f : WQ × β → α → WQ × β) (l : List α) (acc : WQ × β)
    (h : ∀ acc a, Shrink acc.1 (f acc a).1) : Shrink acc.1 (l.foldl f acc).1 := by
  induction l generalizing acc with
  | nil => exact Shrink.refl _
  | cons a l ih => exact (h acc a).trans (ih _)

/-- The stream side survives shrinking (with no new root streams). -/
theorem SForest.shrink {q q' : WQ} (s : SForest q) (h : TSub q q')
    (hr : ∀ x, x ∈ q'.rootStreams → x ∈ q.rootStreams) : SForest q' where
  nodup t tn' e := by
    rcases h t tn' e with e0 | ⟨tn, e0, c0⟩
    · rw [e0]; exact List.nodup_nil
    · rw [c0]; exact s.nodup t tn e0
  notRoot t tn' x e hx hroot := by
    rcases h t tn' e with e0 | ⟨tn, e0, c0⟩
    · rw [e0] at hx; cases hx
    · exact s.notRoot t tn x e0 (c0 ▸ hx) (hr x hroot)
  owner t t' tn1 tn2 x e1 e2 h1 h2 := by
    rcases h t tn1 e1 with a | ⟨m1, a1, c1⟩
    · rw [a] at h1; cases h1
    · rcases h t' tn2 e2 with b | ⟨m2, b1, c2⟩
      · rw [b] at h2; cases h2
      · exact s.owner t t' m1 m2 x a1 b1 (c1 ▸ h1) (c2 ▸ h2)

theorem SKnown.shrink {Y : List Nat} {q q' : WQ} (s : SKnown Y q) (h : TSub q q')
    (hr : ∀ x, x ∈ q'.rootStreams → x ∈ q.rootStreams) : SKnown Y q' where
  roots x hx := s.roots x (hr x hx)
  children t tn' x e hx := by
    rcases h t tn' e with e0 | ⟨tn, e0, c0⟩
    · rw [e0] at hx; cases hx
    · exact s.children t tn x e0 (c0 ▸ hx)

theorem Good.shrink {σ : Static} {e : EnvSt} {q q' : WQ} (g : Good σ e q) (h : Shrink q q')
    (hrg : ∀ x, x ∈ q'.rootGroups → x ∈ q.rootGroups)
    (hrs : ∀ x, x ∈ q'.rootStreams → x ∈ q.rootStreams) : Good σ e q' :=
  ⟨g.forest.sub h.sub hrg, g.known.sub h.sub hrg, g.sforest.shrink h.tsub hrs, g.sknown.shrink h.tsub hrs⟩

theorem Good.frame {σ : Static} {e : EnvSt} {q q' : WQ} (g : Good σ e q) (h : Shrink q q')
    (f : RootFrame q q') : Good σ e q' :=
  g.shrink h (fun x hx => f.rg ▸ hx) (fun x hx => f.rs ▸ hx)

/-! ### the shrinking functions -/

theorem push_shrink (q : WQ) (ev : GraphEvent) : Shrink q (push q ev) := by
  unfold push; split
  · exact Shrink.refl q
  · exact shrink_of_eq rfl rfl

theorem startTask_shrink (σ : Static) (q : WQ) (t : Nat) : Shrink q (startTask σ q t) := by
  unfold startTask
  split
  · exact Shrink.refl q
  · rename_i hnone
    have h1 : Shrink q ({ q with taskNodes := aset q.taskNodes t {}, started := q.started ++ [t] } : WQ) := by
      refine ⟨subGraph_of_eq rfl, ?_⟩
      intro x tn' hx
      by_cases e : t = x
      · subst e; simp only at hx; rw [alookup_aset_self] at hx; cases hx; exact Or.inl rfl
      · simp only at hx; rw [alookup_aset_ne _ _ _ _ e] at hx; exact Or.inr ⟨tn', hx, rfl⟩
    simp only
    split
    · exact h1.trans (push_shrink _ _)
    · exact h1.trans (push_shrink _ _)
    · exact h1
    · exact h1.trans (shrink_of_eq rfl rfl)
    · exact h1.trans (shrink_of_eq rfl rfl)

theorem startGroup_shrink (σ : Static) (q : WQ) (g : Nat) : Shrink q (startGroup σ q g) := by
  unfold startGroup
  split
  · exact foldl_shrink _ _ _ (startTask_shrink σ)
  · exact Shrink.refl q

theorem addTaskStep_shrink (σ : Static) (t : Nat) (q : WQ) (g : Nat) : Shrink q (addTaskStep σ t q g) := by
  unfold addTaskStep
  split
  · rename_i n hn
    let n' : GroupNode := { n with tasks := oinsert n.tasks t, pending := n.pending + 1 }
    have h1 : Shrink q ({ q with groupNodes := aset q.groupNodes g n' } : WQ) :=
      ⟨subGraph_aset q g n n' hn rfl, tsub_of_eq rfl⟩
    simp only
    split
    · exact h1.trans (startTask_shrink σ _ t)
    · exact h1
  · exact Shrink.refl q

theorem addTask_shrink (σ : Static) (q : WQ) (t : Nat) : Shrink q (addTask σ q t) :=
  foldl_shrink _ _ _ (addTaskStep_shrink σ t)

theorem setTaskValue_shrink (q : WQ) (t : Nat) (v : GVal) : Shrink q (setTaskValue q t v) := by
  unfold setTaskValue
  split
  · rename_i tn htn
    refine ⟨subGraph_of_eq rfl, ?_⟩
    intro x tn' hx
    by_cases e : t = x
    · subst e; simp only at hx; rw [alookup_aset_self] at hx; cases hx; exact Or.inr ⟨tn, htn, rfl⟩
    · simp only at hx; rw [alookup_aset_ne _ _ _ _ e] at hx; exact Or.inr ⟨tn', hx, rfl⟩
  · exact Shrink.refl q

theorem removeTask_tsub (σ : Static) (q : WQ) (t : Nat) : TSub q (removeTask σ q t) := by
  unfold removeTask
  intro x tn' hx
  by_cases e : t = x
  · subst e; simp only at hx; rw [alookup_aerase_self] at hx; cases hx
  · simp only at hx; rw [alookup_aerase_ne _ _ _ e] at hx; exact Or.inr ⟨tn', hx, rfl⟩

theorem removeTask_shrink (σ : Static) (q : WQ) (t : Nat) : Shrink q (removeTask σ q t) :=
  ⟨removeTask_sub σ q t, removeTask_tsub σ q t⟩

theorem dropOrphanTask_shrink (σ : Static) (q : WQ) (t : Nat) : Shrink q (dropOrphanTask σ q t) := by
  unfold dropOrphanTask
  split
  · exact removeTask_shrink σ q t
  · exact Shrink.refl q

theorem erase_shrink (q : WQ) (g : Nat) : Shrink q { q with groupNodes := aerase q.groupNodes g } :=
  ⟨subGraph_erase q g, tsub_of_eq rfl⟩

theorem removeGroup_shrink (σ : Static) (fuel : Nat) (q : WQ) (g : Nat) (n : GroupNode) :
    Shrink q (removeGroup σ fuel q g n) := by
  induction fuel generalizing q g n with
  | zero => exact Shrink.refl q
  | succ k ih =>
    unfold removeGroup
    simp only
    refine (erase_shrink q g).trans ?_
    refine (foldl_shrink _ n.tasks _ (dropOrphanTask_shrink σ)).trans ?_
    refine foldl_shrink _ n.children _ ?_
    intro q c
    split
    · exact ih _ _ _
    · exact Shrink.refl q

theorem prune_shrink (fuel : Nat) (gs : List Nat) (st : WQ × List Nat) :
    Shrink st.1 (prune fuel gs st).1 := by
  induction fuel generalizing gs st with
  | zero => exact Shrink.refl _
  | succ n ih =>
    unfold prune
    refine foldl_shrink1 _ gs st ?_
    intro st g
    split
    · exact Shrink.refl _
    · split
      · exact Shrink.refl _
      · exact (erase_shrink st.1 g).trans (ih _ (_, st.2))

theorem prune_taskNodes (fuel : Nat) (gs : List Nat) (st : WQ × List Nat) :
    (prune fuel gs st).1.taskNodes = st.1.taskNodes := by
  induction fuel generalizing gs st with
  | zero => rfl
  | succ n ih =>
    unfold prune
    induction gs generalizing st with
    | nil => rfl
    | cons g gs ihg =>
      simp only [List.foldl_cons]
      rw [ihg]
      split
      · rfl
      · split
        · rfl
        · rw [ih]

theorem collectTask_shrink (σ : Static) (acc : WQ × List GVal × List Nat) (t : Nat) :
    Shrink acc.1 (collectTask σ acc t).1 := by
  unfold collectTask
  split
  · exact removeTask_shrink σ _ t
  · exact Shrink.refl _

end Gql.Async
