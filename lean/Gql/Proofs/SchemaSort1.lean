import Gql.Proofs.SchemaDiff3
namespace Gql.Types
open Gql Gql.Generated

theorem sortByName_perm {α : Type} (key : α → Str) (xs : List α) : (sortByName key xs).Perm xs :=
  List.mergeSort_perm _ _

theorem mem_sortByName {α : Type} (key : α → Str) (xs : List α) (x : α) : x ∈ sortByName key xs ↔ x ∈ xs :=
  (sortByName_perm key xs).mem_iff

theorem argsSim_sort (s : Schema) (as : List Arg) (h : wfArgs s as = true) : ArgsSim as (sortArgs as) := by
  simp only [wfArgs, Bool.and_eq_true] at h
  exact ⟨by simpa [sortArgs] using sortByName_perm Arg.name as, fun _ => rfl, (nodupNames_iff _).mp h.1⟩

theorem fieldSim_sort (s : Schema) (f : Field) (h : wfField s f = true) : FieldSim f (sortField f) := by
  simp only [wfField, Bool.and_eq_true] at h
  exact ⟨rfl, rfl, argsSim_sort s f.args h.2⟩

theorem typeSim_sort (s : Schema) (t : TypeDef) (h : wfType s t = true) : TypeSim t (sortType t) := by
  cases t with
  | scalar n d u => exact .scalar n d u
  | union n d ms => exact .union n d ms _ (sortByName_perm id ms)
  | enum n d vs =>
    simp only [wfType, Bool.and_eq_true] at h
    exact .enum n d vs _ ⟨by simpa using sortByName_perm EnumVal.name vs, fun _ => rfl, (nodupNames_iff _).mp h.1.2⟩
  | input n d o fs =>
    simp only [wfType, Bool.and_eq_true] at h
    exact .input n d o fs _ (argsSim_sort s fs h.2)
  | object n d is fs =>
    simp only [wfType, Bool.and_eq_true, List.all_eq_true] at h
    exact .object n d is _ fs _ sortField (sortByName_perm id is)
      ⟨sortByName_perm Field.name _, fun _ => rfl, (nodupNames_iff _).mp h.1.2⟩
      (fun f hf => fieldSim_sort s f (h.2 f hf))
  | interface n d is fs =>
    simp only [wfType, Bool.and_eq_true, List.all_eq_true] at h
    exact .interface n d is _ fs _ sortField (sortByName_perm id is)
      ⟨sortByName_perm Field.name _, fun _ => rfl, (nodupNames_iff _).mp h.1.2⟩
      (fun f hf => fieldSim_sort s f (h.2 f hf))

theorem dirSim_sort (s : Schema) (d : Directive) (h : wfDirective s d = true) : DirSim d (sortDirective d) := by
  simp only [wfDirective, Bool.and_eq_true] at h
  exact ⟨rfl, rfl, rfl, sortByName_perm id d.locations, argsSim_sort s d.args h.1.1.2⟩

theorem sortType_name (t : TypeDef) : (sortType t).name = t.name := by cases t <;> rfl

theorem mem_argRefs_sort (as : List Arg) (n : Str) : n ∈ argRefs (sortArgs as) ↔ n ∈ argRefs as := by
  unfold argRefs sortArgs
  exact ((sortByName_perm Arg.name as).map _).mem_iff

theorem mem_typeRefNames_sort (t : TypeDef) (n : Str) : n ∈ typeRefNames (sortType t) ↔ n ∈ typeRefNames t := by
  have hf : ∀ fs : List Field, n ∈ (sortFields fs).flatMap (fun f => f.type.base :: argRefs f.args) ↔
      n ∈ fs.flatMap (fun f => f.type.base :: argRefs f.args) := by
    intro fs
    simp only [List.mem_flatMap, sortFields, mem_sortByName, List.mem_map]
    constructor
    · rintro ⟨f', ⟨f, hf, rfl⟩, hn⟩
      refine ⟨f, hf, ?_⟩
      simp only [sortField, List.mem_cons] at hn ⊢
      rcases hn with h | h
      · exact Or.inl h
      · exact Or.inr ((mem_argRefs_sort f.args n).mp h)
    · rintro ⟨f, hf, hn⟩
      refine ⟨sortField f, ⟨f, hf, rfl⟩, ?_⟩
      simp only [sortField, List.mem_cons] at hn ⊢
      rcases hn with h | h
      · exact Or.inl h
      · exact Or.inr ((mem_argRefs_sort f.args n).mpr h)
  cases t with
  | scalar => simp [sortType, typeRefNames]
  | union => simp [sortType, typeRefNames]
  | enum => simp [sortType, typeRefNames]
  | input n' d o fs => simpa [sortType, typeRefNames] using mem_argRefs_sort fs n
  | object n' d is fs => simpa [sortType, typeRefNames] using hf fs
  | interface n' d is fs => simpa [sortType, typeRefNames] using hf fs

theorem mem_referencedNames_sort (s : Schema) (n : Str) :
    n ∈ referencedNames (sortSchema s) ↔ n ∈ referencedNames s := by
  simp only [referencedNames, sortSchema, List.mem_append, List.mem_flatMap, mem_sortByName, List.mem_map]
  constructor
  · rintro (⟨t', ⟨t, ht, rfl⟩, hn⟩ | ⟨d', ⟨d, hd, rfl⟩, hn⟩)
    · exact Or.inl ⟨t, ht, (mem_typeRefNames_sort t n).mp hn⟩
    · exact Or.inr ⟨d, hd, (mem_argRefs_sort d.args n).mp hn⟩
  · rintro (⟨t, ht, hn⟩ | ⟨d, hd, hn⟩)
    · exact Or.inl ⟨sortType t, ⟨t, ht, rfl⟩, (mem_typeRefNames_sort t n).mpr hn⟩
    · exact Or.inr ⟨sortDirective d, ⟨d, hd, rfl⟩, (mem_argRefs_sort d.args n).mpr hn⟩

theorem diffTypes_sort (s : Schema) :
    diffTypes (sortSchema s) = sortByName TypeDef.name (s.types.map sortType) ++
      (SchemaConsts.specifiedScalarNames.filter
        (fun n => (referencedNames s).contains n || SchemaConsts.alwaysPresentScalarNames.contains n)).map
        (fun n => .scalar n none none) := by
  unfold diffTypes
  have : (fun n => (referencedNames (sortSchema s)).contains n || SchemaConsts.alwaysPresentScalarNames.contains n) =
      (fun n => (referencedNames s).contains n || SchemaConsts.alwaysPresentScalarNames.contains n) := by
    funext n
    congr 1
    rw [Bool.eq_iff_iff, List.contains_iff_mem, List.contains_iff_mem]
    exact mem_referencedNames_sort s n
  rw [this]
  rfl

/-- **Sorting changes only ordering: no difference is detected against the original.** -/
theorem sort_only_reorders (s : Schema) (h : WFSchema s = true) : changes s (sortSchema s) = [] := by
  have hwf := h
  simp only [WFSchema, Bool.and_eq_true] at h
  obtain ⟨⟨⟨⟨⟨⟨⟨_, htypes⟩, hdn⟩, hdirs⟩, _⟩, _⟩, _⟩, _⟩ := h
  apply changes_nil_of_sim s (sortSchema s) sortType sortDirective
  · refine ⟨?_, sortType_name, diffTypes_names_nodup s hwf⟩
    rw [diffTypes_sort]
    unfold diffTypes
    rw [List.map_append]
    apply List.Perm.append (sortByName_perm _ _)
    rw [List.map_map]
    exact List.Perm.refl _
  · intro t ht
    unfold diffTypes at ht
    rcases List.mem_append.mp ht with h1 | h2
    · exact typeSim_sort s t (List.all_eq_true.mp htypes t h1)
    · obtain ⟨n, _, rfl⟩ := List.mem_map.mp h2
      exact .scalar n none none
  · exact ⟨sortByName_perm _ _, fun _ => rfl, (nodupNames_iff _).mp hdn⟩
  · exact fun d hd => dirSim_sort s d (List.all_eq_true.mp hdirs d hd)

end Gql.Types
