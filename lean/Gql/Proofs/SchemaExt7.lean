import Gql.Proofs.SchemaExt6
namespace Gql.Types
open Gql Gql.Generated

theorem hasType_empty (c : Str) : Schema.empty.hasType c = false := rfl

/-- **Extend equals build** for a base document without a schema definition. -/
theorem extend_eq_build_of_noSchemaDef (a : Schema) (A B : List Def) (hA : A.all Def.isOther = false)
    (hB : B.all Def.isOther = false) (hsd : (collect A).schemaDef = none)
    (ha : buildFromDefs A = .ok a) (v : ValidExt Schema.empty (collect A) (collect B))
    (hst : rootsStableParts (definesType (collect A)) (collect B) = true) :
    extendDefs a B = buildFromDefs (A ++ B) := by
  unfold buildFromDefs at ha ⊢
  have hsd2 : (collect (A ++ B)).schemaDef = none := by
    rw [collect_append]; simp only [Parts.merge, v.noSchemaDef]; exact hsd
  cases hc : extendCore Schema.empty A with
  | ok a0 =>
    rw [hc] at ha
    simp only [hsd, Option.isSome_none, Bool.false_eq_true, ↓reduceIte] at ha
    cases ha
    have hstage : stage Schema.empty (collect A) = .ok a0 := by
      unfold extendCore at hc
      simpa only [hA, Bool.false_eq_true, ↓reduceIte] using hc
    obtain ⟨hres, hnames⟩ := stage_ok_inv _ _ _ hstage
    have hfun : a0.hasType = definesType (collect A) := by
      funext c; rw [hnames c, hasType_empty, Bool.false_or]
    rw [← extendCore_append Schema.empty a0 A B hA hB hc v]
    unfold extendDefs extendCore
    simp only [hB, Bool.false_eq_true, ↓reduceIte, hsd2, Option.isSome_none]
    rw [stage_autopick a0 (collect B) v.noSchemaDef hres (by rw [hfun]; exact hst)]
    rfl
  | err e => rw [hc] at ha; cases ha
  | crash c => rw [hc] at ha; cases ha

/-- **Extend equals build** under root stability (either kind of base document). -/
theorem extend_eq_build_of_rootsStable (a : Schema) (A B : List Def) (hA : A.all Def.isOther = false)
    (hB : B.all Def.isOther = false) (ha : buildFromDefs A = .ok a)
    (v : ValidExt Schema.empty (collect A) (collect B)) (hst : rootsStable A B = true) :
    extendDefs a B = buildFromDefs (A ++ B) := by
  cases hsd : (collect A).schemaDef with
  | some d => exact extend_eq_build_of_schemaDef a A B hA hB (by rw [hsd]; rfl) ha v
  | none =>
    simp only [rootsStable, hsd, Option.isSome_none, Bool.false_or] at hst
    exact extend_eq_build_of_noSchemaDef a A B hA hB hsd ha v hst

end Gql.Types
