import Gql.Proofs.SchemaDcDfs
import Gql.Proofs.SchemaAssemble
/-
Lemmas for C20, part 12: the default-value circular-reference validator over the whole type map:
its recursion budget is never exhausted, and (for well-formed names) it reports nothing exactly
when the specification's InputObjectDefaultValueHasCycle is false for every input object type.
-/
namespace Gql.Types
open Gql

/-! ### the budget is never exhausted (no well-formedness needed) -/

def DCInv (base : List Str) (st : DCState) : Prop :=
  st.outOfFuel = false ∧ ∀ c ∈ base, c ∈ st.visited

theorem runNodes_inv (s : RawSchema) (cb : InputValue → Str → Str → DCState → DCState) (base : List Str) :
    ∀ (ns : List DNode),
    (∀ x ∈ ns, ∀ acc, DCInv base acc → DCInv acc.visited (cb x.f x.m x.c acc)) →
    ∀ acc, DCInv base acc → DCInv base (runNodes cb ns acc)
  | [], _, acc, h => by simpa [runNodes] using h
  | x :: ns, H, acc, h => by
    have h1 := H x (by simp) acc h
    have hrun : runNodes cb (x :: ns) acc = runNodes cb ns (cb x.f x.m x.c acc) := by simp [runNodes]
    rw [hrun]
    exact runNodes_inv s cb base ns (fun y hy => H y (by simp [hy])) _
      ⟨h1.1, fun c hc => h1.2 c (h.2 c hc)⟩

theorem dcField_inv (s : RawSchema) : ∀ (fuel : Nat) (n : DNode) (st : DCState),
    NodeOK s n → dcUnvisited s st < fuel → st.outOfFuel = false →
    DCInv st.visited (dcField s fuel n.f n.m n.c st)
  | 0, _, _, _, h, _ => by omega
  | fuel + 1, n, st, hok, hfuel, hoof => by
    unfold dcField
    cases hd : n.f.default with
    | none => exact ⟨hoof, fun _ h => h⟩
    | some lit =>
      simp only
      cases hfind : List.find? (fun e => e.1 == n.c) st.index with
      | some e => exact ⟨hoof, fun _ h => h⟩
      | none =>
        simp only
        by_cases hv : st.visited.contains n.c = true
        · simp only [hv, ↓reduceIte]; exact ⟨hoof, fun _ h => h⟩
        · simp only [hv, Bool.false_eq_true, ↓reduceIte]
          rw [dcLit_eq]
          suffices key : ∀ st2 : DCState, st2.visited = n.c :: st.visited → st2.outOfFuel = false →
              DCInv st.visited (runNodes (dcField s fuel) (need s lit n.m) st2) from
            ⟨(key ⟨n.c :: st.visited, _, _, st.errs, st.outOfFuel⟩ rfl hoof).1,
              (key ⟨n.c :: st.visited, _, _, st.errs, st.outOfFuel⟩ rfl hoof).2⟩
          intro st2 hvis2 hoof2
          have hlt : dcUnvisited s st2 < dcUnvisited s st := by
            unfold dcUnvisited
            apply countP_lt_of_mem _ _ _ n.c
            · intro x hx
              simp only [hvis2, List.contains_eq_mem, List.mem_cons, Bool.not_eq_eq_eq_not, Bool.not_true,
                decide_eq_false_iff_not, not_or] at hx ⊢
              exact hx.2
            · exact node_mem_universe hok
            · simpa using hv
            · simp [hvis2]
          have := runNodes_inv s (dcField s fuel) st2.visited (need s lit n.m)
            (by
              intro x hx acc hacc
              have hedge : EdgeD s n x := by unfold EdgeD succD; rw [hd]; exact hx
              exact dcField_inv s fuel x acc (succD_ok hedge)
                (by have := dcUnvisited_mono s (st := st2) (st' := acc) hacc.2; omega) hacc.1)
            st2 ⟨hoof2, fun _ h => h⟩
          exact ⟨this.1, fun c hc => this.2 c (by rw [hvis2]; exact List.mem_cons_of_mem _ hc)⟩

theorem dcCall_eq (s : RawSchema) (tn : Str) (st : DCState) :
    dcCall s tn st = runNodes (dcField s (dcFuel s)) (needObject s tn []) st := by
  unfold dcCall
  exact dcObject_eq s _ tn [] [] (fun k => by simp [lookupLast, DRel]) st

theorem startNodes_ok (s : RawSchema) (tn : Str) : ∀ x ∈ needObject s tn [], NodeOK s x :=
  needObject_ok s tn [] (fun k h hl => by simp [lookupLast] at hl)

/-- The default-value circular-reference validator never exhausts `dcFuel`. -/
theorem runDC_terminates (s : RawSchema) (tn : Str) (st : VState) (h : st.outOfFuel = false) :
    (runDC s tn st).2.outOfFuel = false := by
  unfold runDC
  rw [dcCall_eq]
  have := runNodes_inv s (dcField s (dcFuel s)) st.dcVisited (needObject s tn [])
    (fun x hx acc hacc => dcField_inv s (dcFuel s) x acc (startNodes_ok s tn x hx)
      (dcUnvisited_lt_fuel s acc) hacc.1)
    ⟨st.dcVisited, [], [], [], false⟩ ⟨rfl, fun _ h => h⟩
  simp [h, this.1]

theorem cycleErrs_oof (s : RawSchema) (t : NamedType) (st : VState) (h : st.outOfFuel = false) :
    (cycleErrs s t st).2.outOfFuel = false := by
  unfold cycleErrs
  cases t.defn <;> simp only [h]
  exact runDC_terminates s _ _ (runNN_terminates s _ _ h)

theorem validateTypesLoop_oof (s : RawSchema)
    (dflt : RawSchema → InputValue → Str → Out Unit (List Err)) :
    ∀ (ts : List NamedType) (st : VState) (r : List Err × VState), st.outOfFuel = false →
      validateTypesLoop s dflt ts st = .ok r → r.2.outOfFuel = false
  | [], st, r, h, hr => by
    simp only [validateTypesLoop, Out.ok.injEq] at hr; subst hr; exact h
  | t :: ts, st, r, h, hr => by
    unfold validateTypesLoop at hr
    rw [validateType_eq] at hr
    cases hl : localErrs s dflt t with
    | ok e =>
      simp only [hl, Out.mapOk] at hr
      cases hrest : validateTypesLoop s dflt ts (cycleErrs s t st).2 with
      | ok r2 =>
        simp only [hrest, Out.ok.injEq] at hr
        subst hr
        exact validateTypesLoop_oof s dflt ts _ r2 (cycleErrs_oof s t st h) hrest
      | err u => simp [hrest] at hr
      | crash c => simp [hrest] at hr
    | err u => simp [hl, Out.mapOk] at hr
    | crash c => simp [hl, Out.mapOk] at hr

/-- Neither circular-reference validator ever exhausts its recursion budget. -/
theorem validateSchemaOutOfFuel_false (s : RawSchema) : validateSchemaOutOfFuel s = false := by
  unfold validateSchemaOutOfFuel validateSchemaWith
  cases hd : validateDirectives s validateDefault with
  | ok ds =>
    cases hl : validateTypesLoop s validateDefault s.types ⟨[], [], false⟩ with
    | ok r =>
      simp only
      exact validateTypesLoop_oof s validateDefault s.types _ r rfl hl
    | err u => rfl
    | crash c => rfl
  | err u => rfl
  | crash c => rfl


/-! ### the validator over the whole type map against the default-value graph -/

/-- from `x` a field is reachable that reaches itself -/
def ReachesCycle (s : RawSchema) (x : DNode) : Prop :=
  ∃ h, RStar (EdgeD s) x h ∧ RPlus (EdgeD s) h h

theorem rstar_ok {s : RawSchema} {x h : DNode} (hr : RStar (EdgeD s) x h) (hx : NodeOK s x) :
    NodeOK s h := by
  induction hr with
  | refl => exact hx
  | step e _ ih => exact ih (succD_ok e)

theorem rplus_live {s : RawSchema} {h h' : DNode} (hp : RPlus (EdgeD s) h h') : Live h := by
  obtain ⟨_, e, _⟩ := hp; exact edge_live e

theorem blackD_top (vis : List Str) (x : Str) : BlackD ⟨vis, [], [], [], false⟩ x ↔ x ∈ vis := by
  simp [BlackD, dcKeys]

theorem dcThread_spec (s : RawSchema) (hwf : NamesWF s) : ∀ (ts : List NamedType) (vis : List Str),
    (∀ e ∈ dcThread s ts vis, CycleErrD s e) ∧
    (dcThread s ts vis = [] → ClosedD s (· ∈ vis) → AcyclicD s (· ∈ vis) →
      ∀ t ∈ ts, ∀ fs o, t.defn = .input fs o →
        ∀ x ∈ needObject s t.name [], ¬ ReachesCycle s x)
  | [], vis => by simp [dcThread]
  | t :: ts, vis => by
    rcases t with ⟨name, defn⟩
    have hnot : ∀ d, (∀ fs o, d ≠ TypeDef.input fs o) →
        dcThread s (⟨name, d⟩ :: ts) vis = dcThread s ts vis := by
      intro d hd
      cases d <;> first | rfl | exact absurd rfl (hd _ _)
    have hskip : ∀ d, (∀ fs o, d ≠ TypeDef.input fs o) →
        (∀ e ∈ dcThread s (⟨name, d⟩ :: ts) vis, CycleErrD s e) ∧
        (dcThread s (⟨name, d⟩ :: ts) vis = [] → ClosedD s (· ∈ vis) → AcyclicD s (· ∈ vis) →
          ∀ t ∈ (⟨name, d⟩ :: ts : List NamedType), ∀ fs o, t.defn = .input fs o →
            ∀ x ∈ needObject s t.name [], ¬ ReachesCycle s x) := by
      intro d hd
      rw [hnot d hd]
      have ih := dcThread_spec s hwf ts vis
      refine ⟨ih.1, fun hnil hc ha t ht fs o hdef => ?_⟩
      rcases List.mem_cons.mp ht with rfl | ht
      · exact absurd hdef (hd fs o)
      · exact ih.2 hnil hc ha t ht fs o hdef
    cases defn with
    | input fs0 o0 =>
      have hstep := runNodes_step s (dcField s (dcFuel s)) [] vis (needObject s name [])
        (by
          intro x hx acc ho hi _ hk
          exact dcField_step s hwf (dcFuel s) x acc (startNodes_ok s name x hx)
            (dcUnvisited_lt_fuel s acc) ho hk (by intro c hc; simp [dcKeys, hi] at hc))
        ⟨vis, [], [], [], false⟩ rfl rfl (fun _ h => h) (by simp [dcKeys])
      rw [← dcCall_eq] at hstep
      generalize hr : dcCall s name ⟨vis, [], [], [], false⟩ = r at hstep
      have ih := dcThread_spec s hwf ts r.visited
      have hunf : dcThread s (⟨name, .input fs0 o0⟩ :: ts) vis = r.errs ++ dcThread s ts r.visited := by
        simp only [dcThread, hr]
      rw [hunf]
      obtain ⟨new, e1, c1, k1⟩ := hstep.errs
      have e1' : r.errs = new := by simpa using e1
      have hidx : r.index = [] := hstep.index_eq
      have hblack : ∀ x, BlackD r x ↔ x ∈ r.visited := by
        intro x; simp [BlackD, dcKeys, hidx]
      constructor
      · intro e he
        rcases List.mem_append.mp he with h | h
        · exact c1 e (e1' ▸ h)
        · exact ih.1 e h
      · intro hnil hc ha t ht fs o hdef
        obtain ⟨hn1, hn2⟩ := List.append_eq_nil_iff.mp hnil
        obtain ⟨d1, d2, d3⟩ := k1 (e1' ▸ hn1) (hc.congr (fun x => (blackD_top vis x).symm))
          (ha.congr (fun x => (blackD_top vis x).symm))
        rcases List.mem_cons.mp ht with rfl | ht
        · intro x hx ⟨h, hr1, hr2⟩
          have hokx := startNodes_ok s name x hx
          have hlh : Live h := rplus_live hr2
          have hlx : Live x := by
            rcases rstar_live hr1 with rfl | hl
            · exact hlh
            · exact hl
          have hbx : BlackD r x.c := d3 x hx hlx
          exact d2 h (rstar_ok hr1 hokx) (closedD_reach d1 hr1 hokx hbx hlh) hr2
        · exact ih.2 hn2 (d1.congr hblack) (d2.congr hblack) t ht fs o hdef
    | scalar k => exact hskip _ (by intro _ _ h; cases h)
    | object is fs1 => exact hskip _ (by intro _ _ h; cases h)
    | interface is fs1 => exact hskip _ (by intro _ _ h; cases h)
    | union ms => exact hskip _ (by intro _ _ h; cases h)
    | enum vs => exact hskip _ (by intro _ _ h; cases h)

/-! ### the specification's algorithm against the same graph -/

/-- InputFieldDefaultValueHasCycle's "otherwise" branch, on a reached field -/
def specHit (s : RawSchema) (b : Nat) (visited : List Str) (x : DNode) : Bool :=
  Spec.fieldDefaultHasCycle s b visited x.f x.m x.c

theorem specHit_succ (s : RawSchema) (b : Nat) (visited : List Str) (x : DNode) :
    specHit s (b + 1) visited x =
      (match x.f.default with
       | none => false
       | some _ => visited.contains x.c || (succD s x).any (specHit s b (x.c :: visited))) := by
  show Spec.fieldDefaultHasCycle s (b + 1) visited x.f x.m x.c = _
  rw [Spec.fieldDefaultHasCycle]
  cases hd : x.f.default with
  | none => rfl
  | some v =>
    simp only
    rw [valueHasCycle_eq]
    simp only [anyNode, succD, hd]
    rfl

def unseenCoords (s : RawSchema) (visited : List Str) : Nat :=
  (coordUniverse s).countP (fun c => !visited.contains c)

/-- some field on the current path is reachable from `x` -/
def Back (s : RawSchema) (visited : List Str) (x : DNode) : Prop :=
  ∃ y, NodeOK s y ∧ y.c ∈ visited ∧ RStar (EdgeD s) x y

theorem unseenCoords_cons_lt (s : RawSchema) (visited : List Str) {x : DNode} (hok : NodeOK s x)
    (hx : x.c ∉ visited) : unseenCoords s (x.c :: visited) < unseenCoords s visited := by
  unfold unseenCoords
  apply countP_lt_of_mem _ _ _ x.c
  · intro c hc
    simp only [List.contains_eq_mem, List.mem_cons, Bool.not_eq_eq_eq_not, Bool.not_true,
      decide_eq_false_iff_not, not_or] at hc ⊢
    exact hc.2
  · exact node_mem_universe hok
  · simpa using hx
  · simp

theorem specHit_sound (s : RawSchema) (hwf : NamesWF s) : ∀ (b : Nat) (visited : List Str) (x : DNode),
    NodeOK s x → unseenCoords s visited < b → specHit s b visited x = true →
    Back s visited x ∨ ReachesCycle s x
  | 0, _, _, _, h, _ => by omega
  | b + 1, visited, x, hok, hb, hhit => by
    rw [specHit_succ] at hhit
    cases hd : x.f.default with
    | none => simp [hd] at hhit
    | some v =>
      simp only [hd, Bool.or_eq_true, List.any_eq_true] at hhit
      by_cases hc : x.c ∈ visited
      · exact Or.inl ⟨x, hok, hc, .refl x⟩
      · rcases hhit with hcon | ⟨w, hw, hwhit⟩
        · exact absurd (by simpa using hcon) hc
        · have hedge : EdgeD s x w := hw
          have hlt := unseenCoords_cons_lt s visited hok hc
          rcases specHit_sound s hwf b (x.c :: visited) w (succD_ok hedge) (by omega) hwhit with
            ⟨y, hoky, hyv, hry⟩ | ⟨h, hr1, hr2⟩
          · rcases List.mem_cons.mp hyv with hyc | hyv
            · have : y = x := node_inj hwf hoky hok hyc
              subst this
              exact Or.inr ⟨y, .refl y, w, hedge, hry⟩
            · exact Or.inl ⟨y, hoky, hyv, .step hedge hry⟩
          · exact Or.inr ⟨h, .step hedge hr1, hr2⟩

theorem reachesCycle_succ {s : RawSchema} {x : DNode} (h : ReachesCycle s x) :
    ∃ w, EdgeD s x w ∧ ReachesCycle s w := by
  obtain ⟨h, hr1, hr2⟩ := h
  cases hr1 with
  | refl =>
    obtain ⟨w, e, hr⟩ := hr2
    exact ⟨w, e, x, hr, w, e, hr⟩
  | step e hr => exact ⟨_, e, h, hr, hr2⟩

theorem specHit_complete (s : RawSchema) : ∀ (b : Nat) (visited : List Str) (x : DNode),
    NodeOK s x → unseenCoords s visited < b → ReachesCycle s x → specHit s b visited x = true
  | 0, _, _, _, h, _ => by omega
  | b + 1, visited, x, hok, hb, hcyc => by
    obtain ⟨w, hedge, hw⟩ := reachesCycle_succ hcyc
    have hl : Live x := edge_live hedge
    rw [specHit_succ]
    cases hd : x.f.default with
    | none => simp [Live, hd] at hl
    | some v =>
      simp only [Bool.or_eq_true, List.any_eq_true]
      by_cases hc : x.c ∈ visited
      · exact Or.inl (by simpa using hc)
      · have hlt := unseenCoords_cons_lt s visited hok hc
        exact Or.inr ⟨w, hedge, specHit_complete s b (x.c :: visited) w (succD_ok hedge) (by omega) hw⟩

/-- InputObjectDefaultValueHasCycle(inputObject) is true exactly when one of the object's fields
(of input object type, its own default applying) reaches a field that reaches itself. -/
theorem defaultValueHasCycle_iff (s : RawSchema) (hwf : NamesWF s) (tn : Str) :
    Spec.defaultValueHasCycle s tn = true ↔ ∃ x ∈ needObject s tn [], ReachesCycle s x := by
  unfold Spec.defaultValueHasCycle
  rw [objectHasCycle_eq s _ tn [] [] (fun k => by simp [lookupLast, SRel])]
  have hB : unseenCoords s [] < Spec.inputFieldCount s + 1 := by
    have h1 : unseenCoords s [] ≤ (coordUniverse s).length := List.countP_le_length
    have h2 := coordUniverse_length s
    have h3 : dcFuel s = Spec.inputFieldCount s + 1 := rfl
    omega
  simp only [anyNode, List.any_eq_true]
  constructor
  · rintro ⟨x, hx, hhit⟩
    rcases specHit_sound s hwf _ [] x (startNodes_ok s tn x hx) hB hhit with ⟨y, _, hy, _⟩ | h
    · simp at hy
    · exact ⟨x, hx, h⟩
  · rintro ⟨x, hx, h⟩
    exact ⟨x, hx, specHit_complete s _ [] x (startNodes_ok s tn x hx) hB h⟩

/-- The default-value-cycle family. -/
theorem dcThread_iff (s : RawSchema) (hwf : NamesWF s) :
    dcThread s s.types [] = [] ↔
      ∀ t ∈ s.types, ∀ fs o, t.defn = .input fs o → Spec.defaultValueHasCycle s t.name = false := by
  have hspec := dcThread_spec s hwf s.types []
  constructor
  · intro hnil t ht fs o hdef
    cases hv : Spec.defaultValueHasCycle s t.name with
    | false => rfl
    | true =>
      exfalso
      obtain ⟨x, hx, hcyc⟩ := (defaultValueHasCycle_iff s hwf t.name).mp hv
      exact hspec.2 hnil (fun n _ hn => by simp at hn) (fun n _ hn => by simp at hn) t ht fs o hdef x hx hcyc
  · intro hall
    cases hE : dcThread s s.types [] with
    | nil => rfl
    | cons e es =>
      exfalso
      obtain ⟨_, n, hok, _, hcyc⟩ := hspec.1 e (by rw [hE]; simp)
      obtain ⟨tn, fields, o, hl, hf, hm, hi, hcc⟩ := hok
      obtain ⟨t, ht, hn, hd⟩ := lookup_mem hl
      have hfalse := hall t ht fields o hd
      have hstart : n ∈ needObject s tn [] := by
        unfold needObject
        rw [hl]
        refine List.mem_flatMap.mpr ⟨n.f, hf, ?_⟩
        have hi' : s.isInputObject n.f.type.namedType = true := hm ▸ hi
        simp only [hi', Bool.not_true, Bool.false_eq_true, ↓reduceIte, lookupLast, List.mem_singleton]
        rcases n with ⟨f, m, c⟩
        simp only at hm hcc
        subst hm hcc
        rfl
      have htrue := (defaultValueHasCycle_iff s hwf tn).mpr ⟨n, hstart, n, .refl n, hcyc⟩
      rw [hn] at hfalse
      rw [hfalse] at htrue
      cases htrue

end Gql.Types
