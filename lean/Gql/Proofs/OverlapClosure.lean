import Gql.Exec.Overlap
/-! Lemmas for C14 (termination): everything the rule touches is a part of the document. -/
namespace Gql.Exec
open Overlap

def nodeDepth (n : FieldNode) : Nat := 1 + selsDepth n.sub

/-! ### structure of selection sets -/

mutual
theorem Sel.fields_facts : ∀ (x : Sel) (n : FieldNode), n ∈ x.fields →
    (n.hasSub = true → n.subSet ∈ x.subSets) ∧ nodeDepth n ≤ x.depth ∧
      selsSubSets n.sub ⊆ x.subSets
  | .field id al name args st hasSub subId sub, n, h => by
    simp only [Sel.fields, List.mem_singleton] at h
    subst h
    refine ⟨fun hs => ?_, ?_, ?_⟩
    · simp only at hs
      simp [Sel.subSets, hs, FieldNode.subSet]
    · simp [nodeDepth, Sel.depth]
    · intro a ha
      simp only [Sel.subSets, List.mem_append]
      exact Or.inr ha
  | .inline tc ssId sels, n, h => by
    simp only [Sel.fields] at h
    obtain ⟨h1, h2, h3⟩ := selsFields_facts sels n h
    refine ⟨fun hs => ?_, ?_, ?_⟩
    · simp only [Sel.subSets, List.mem_cons]; exact Or.inr (h1 hs)
    · simpa [Sel.depth] using h2
    · intro a ha
      simp only [Sel.subSets, List.mem_cons]; exact Or.inr (h3 ha)
  | .spread _, n, h => by simp [Sel.fields] at h
theorem selsFields_facts : ∀ (xs : List Sel) (n : FieldNode), n ∈ selsFields xs →
    (n.hasSub = true → n.subSet ∈ selsSubSets xs) ∧ nodeDepth n ≤ selsDepth xs ∧
      selsSubSets n.sub ⊆ selsSubSets xs
  | [], n, h => by simp [selsFields] at h
  | x :: xs, n, h => by
    simp only [selsFields, List.mem_append] at h
    rcases h with h | h
    · obtain ⟨h1, h2, h3⟩ := Sel.fields_facts x n h
      refine ⟨fun hs => ?_, ?_, ?_⟩
      · simp only [selsSubSets, List.mem_append]; exact Or.inl (h1 hs)
      · simp only [selsDepth]; omega
      · intro a ha
        simp only [selsSubSets, List.mem_append]; exact Or.inl (h3 ha)
    · obtain ⟨h1, h2, h3⟩ := selsFields_facts xs n h
      refine ⟨fun hs => ?_, ?_, ?_⟩
      · simp only [selsSubSets, List.mem_append]; exact Or.inr (h1 hs)
      · simp only [selsDepth]; omega
      · intro a ha
        simp only [selsSubSets, List.mem_append]; exact Or.inr (h3 ha)
end

mutual
theorem Sel.subSets_facts : ∀ (x : Sel) (ss : SelSet), ss ∈ x.subSets →
    selsSubSets ss.sels ⊆ x.subSets ∧ selsDepth ss.sels ≤ x.depth ∧
      selsSpreadNames ss.sels ⊆ x.spreadNames
  | .field id al name args st hasSub subId sub, ss, h => by
    simp only [Sel.subSets, List.mem_append] at h
    rcases h with h | h
    · cases hasSub with
      | false => simp at h
      | true =>
        simp only [if_true, List.mem_singleton] at h
        subst h
        refine ⟨fun a ha => ?_, ?_, ?_⟩
        · simp only [Sel.subSets, List.mem_append]; exact Or.inr ha
        · simp [Sel.depth]
        · simp [Sel.spreadNames]
    · obtain ⟨h1, h2, h3⟩ := selsSubSets_facts sub ss h
      refine ⟨fun a ha => ?_, ?_, ?_⟩
      · simp only [Sel.subSets, List.mem_append]; exact Or.inr (h1 ha)
      · simp only [Sel.depth]; omega
      · simpa [Sel.spreadNames] using h3
  | .inline tc ssId sels, ss, h => by
    simp only [Sel.subSets, List.mem_cons] at h
    rcases h with h | h
    · subst h
      refine ⟨fun a ha => ?_, ?_, ?_⟩
      · simp only [Sel.subSets, List.mem_cons]; exact Or.inr ha
      · simp [Sel.depth]
      · simp [Sel.spreadNames]
    · obtain ⟨h1, h2, h3⟩ := selsSubSets_facts sels ss h
      refine ⟨fun a ha => ?_, ?_, ?_⟩
      · simp only [Sel.subSets, List.mem_cons]; exact Or.inr (h1 ha)
      · simpa [Sel.depth] using h2
      · simpa [Sel.spreadNames] using h3
  | .spread _, ss, h => by simp [Sel.subSets] at h
theorem selsSubSets_facts : ∀ (xs : List Sel) (ss : SelSet), ss ∈ selsSubSets xs →
    selsSubSets ss.sels ⊆ selsSubSets xs ∧ selsDepth ss.sels ≤ selsDepth xs ∧
      selsSpreadNames ss.sels ⊆ selsSpreadNames xs
  | [], ss, h => by simp [selsSubSets] at h
  | x :: xs, ss, h => by
    simp only [selsSubSets, List.mem_append] at h
    rcases h with h | h
    · obtain ⟨h1, h2, h3⟩ := Sel.subSets_facts x ss h
      refine ⟨fun a ha => ?_, ?_, ?_⟩
      · simp only [selsSubSets, List.mem_append]; exact Or.inl (h1 ha)
      · simp only [selsDepth]; omega
      · intro a ha
        simp only [selsSpreadNames, List.mem_append]; exact Or.inl (h3 ha)
    · obtain ⟨h1, h2, h3⟩ := selsSubSets_facts xs ss h
      refine ⟨fun a ha => ?_, ?_, ?_⟩
      · simp only [selsSubSets, List.mem_append]; exact Or.inr (h1 ha)
      · simp only [selsDepth]; omega
      · intro a ha
        simp only [selsSpreadNames, List.mem_append]; exact Or.inr (h3 ha)
end

mutual
theorem Sel.directSpreads_sub : ∀ (x : Sel), x.directSpreads ⊆ x.spreadNames
  | .field .. => by simp [Sel.directSpreads]
  | .inline _ _ sels => by simpa [Sel.directSpreads, Sel.spreadNames] using selsDirectSpreads_sub sels
  | .spread _ => by simp [Sel.directSpreads, Sel.spreadNames]
theorem selsDirectSpreads_sub : ∀ (xs : List Sel), selsDirectSpreads xs ⊆ selsSpreadNames xs
  | [] => by simp [selsDirectSpreads]
  | x :: xs => by
    intro a ha
    simp only [selsDirectSpreads, List.mem_append] at ha
    simp only [selsSpreadNames, List.mem_append]
    rcases ha with ha | ha
    · exact Or.inl (Sel.directSpreads_sub x ha)
    · exact Or.inr (selsDirectSpreads_sub xs ha)
end

/-! ### document level -/

theorem foldr_max_ge (xs : List Nat) (x : Nat) (h : x ∈ xs) : x ≤ xs.foldr max 0 := by
  induction xs with
  | nil => cases h
  | cons y ys ih =>
    simp only [List.foldr_cons]
    rcases List.mem_cons.1 h with rfl | h
    · omega
    · have := ih h; omega

theorem Doc.depth_ge {d : Doc} {df : Defn} (h : df ∈ d) : selsDepth df.ss.sels ≤ d.depth :=
  foldr_max_ge _ _ (List.mem_map.2 ⟨df, h, rfl⟩)

theorem Doc.mem_allSets {d : Doc} {ss : SelSet} (h : ss ∈ d.allSets) :
    ∃ df ∈ d, ss = df.ss ∨ ss ∈ selsSubSets df.ss.sels := by
  simp only [Doc.allSets, List.mem_flatMap, List.mem_cons] at h
  exact h

theorem Doc.allSets_closed {d : Doc} {ss : SelSet} (h : ss ∈ d.allSets) :
    selsSubSets ss.sels ⊆ d.allSets := by
  obtain ⟨df, hdf, h⟩ := Doc.mem_allSets h
  intro a ha
  simp only [Doc.allSets, List.mem_flatMap, List.mem_cons]
  refine ⟨df, hdf, Or.inr ?_⟩
  rcases h with rfl | h
  · exact ha
  · exact (selsSubSets_facts _ _ h).1 ha

theorem Doc.allSets_depth {d : Doc} {ss : SelSet} (h : ss ∈ d.allSets) :
    selsDepth ss.sels ≤ d.depth := by
  obtain ⟨df, hdf, h⟩ := Doc.mem_allSets h
  have := Doc.depth_ge hdf
  rcases h with rfl | h
  · exact this
  · have := (selsSubSets_facts _ _ h).2.1; omega

theorem Doc.allSets_spreads {d : Doc} {ss : SelSet} (h : ss ∈ d.allSets) :
    selsDirectSpreads ss.sels ⊆ d.spreadNames := by
  obtain ⟨df, hdf, h⟩ := Doc.mem_allSets h
  intro a ha
  have ha := selsDirectSpreads_sub _ ha
  simp only [Doc.spreadNames, List.mem_flatMap]
  refine ⟨df, hdf, ?_⟩
  rcases h with rfl | h
  · exact ha
  · exact (selsSubSets_facts _ _ h).2.2 ha

theorem Doc.getFragment_mem {d : Doc} {n : String} {fr : FragDef}
    (h : d.getFragment n = some fr) : fr.ss ∈ d.allSets := by
  have h1 := List.mem_of_find?_eq_some h
  have h2 : fr ∈ d.frags := List.mem_reverse.1 h1
  simp only [Doc.frags, List.mem_filterMap] at h2
  obtain ⟨df, hdf, hx⟩ := h2
  cases df with
  | op _ _ => simp at hx
  | frag f =>
    simp only [Option.some.injEq] at hx
    subst hx
    simp only [Doc.allSets, List.mem_flatMap, List.mem_cons]
    exact ⟨_, hdf, Or.inl rfl⟩

/-- a field node found in a selection set of the document -/
theorem Doc.node_facts {d : Doc} {ss : SelSet} (hss : ss ∈ d.allSets) {n : FieldNode}
    (hn : n ∈ selsFields ss.sels) :
    (n.hasSub = true → n.subSet ∈ d.allSets) ∧ nodeDepth n ≤ selsDepth ss.sels := by
  obtain ⟨h1, h2, _⟩ := selsFields_facts _ _ hn
  exact ⟨fun hs => Doc.allSets_closed hss (h1 hs), h2⟩

/-! ### what `collect_fields_and_fragment_spreads` puts into a field map -/

/-- the accumulator only holds field nodes of `F` and spreads of names in `N` -/
def AccOK (d : Doc) (F : List FieldNode) (N : List String)
    (acc : List (String × List FieldEntry) × List Spread) : Prop :=
  (∀ rn es, (rn, es) ∈ acc.1 → ∀ e ∈ es, e.node ∈ F) ∧
    (∀ sp ∈ acc.2, sp.name ∈ N ∧ sp = mkSpread d sp.name)

theorem addEntry_mem {m : List (String × List FieldEntry)} {rn : String} {e : FieldEntry}
    {rn' : String} {es' : List FieldEntry} (h : (rn', es') ∈ addEntry m rn e) :
    ∀ e' ∈ es', e' = e ∨ ∃ es0, (rn', es0) ∈ m ∧ e' ∈ es0 := by
  induction m with
  | nil =>
    simp only [addEntry, List.mem_singleton, Prod.mk.injEq] at h
    intro e' he'
    rw [h.2] at he'
    simp at he'
    exact Or.inl he'
  | cons x xs ih =>
    obtain ⟨k, es⟩ := x
    simp only [addEntry] at h
    split at h
    · rcases List.mem_cons.1 h with h | h
      · simp only [Prod.mk.injEq] at h
        intro e' he'
        rw [h.2] at he'
        rcases List.mem_append.1 he' with he' | he'
        · exact Or.inr ⟨es, by simp [h.1], he'⟩
        · simp at he'; exact Or.inl he'
      · intro e' he'
        exact Or.inr ⟨es', List.mem_cons_of_mem _ h, he'⟩
    · rcases List.mem_cons.1 h with h | h
      · intro e' he'
        exact Or.inr ⟨es', by rw [h]; exact List.mem_cons_self, he'⟩
      · intro e' he'
        rcases ih h e' he' with h1 | ⟨es0, h1, h2⟩
        · exact Or.inl h1
        · exact Or.inr ⟨es0, List.mem_cons_of_mem _ h1, h2⟩

theorem addSpread_mem {sps : List Spread} {sp sp' : Spread} (h : sp' ∈ addSpread sps sp) :
    sp' ∈ sps ∨ sp' = sp := by
  simp only [addSpread] at h
  split at h
  · exact Or.inl h
  · rcases List.mem_append.1 h with h | h
    · exact Or.inl h
    · simp at h; exact Or.inr h

mutual
theorem collectSel_ok (s : Schema) (d : Doc) (F : List FieldNode) (N : List String) :
    ∀ (x : Sel) (p : Option String) (acc), AccOK d F N acc → x.fields ⊆ F →
      x.directSpreads ⊆ N → AccOK d F N (collectSel s d p x acc)
  | .field id al name args st hasSub subId sub, p, (m, sps), h, hf, _ => by
    simp only [collectSel]
    refine ⟨fun rn es hm e he => ?_, h.2⟩
    rcases addEntry_mem hm e he with h1 | ⟨es0, h1, h2⟩
    · subst h1
      apply hf
      simp [Sel.fields, mkFieldNode]
    · exact h.1 rn es0 h1 e h2
  | .inline tc ssId sels, p, acc, h, hf, hs => by
    simp only [collectSel]
    exact collectSels_ok s d F N sels _ acc h (by simpa [Sel.fields] using hf)
      (by simpa [Sel.directSpreads] using hs)
  | .spread n, p, (m, sps), h, _, hs => by
    simp only [collectSel]
    refine ⟨h.1, fun sp hsp => ?_⟩
    rcases addSpread_mem hsp with h1 | h1
    · exact h.2 sp h1
    · subst h1
      refine ⟨hs (by simp [Sel.directSpreads, mkSpread]), rfl⟩
theorem collectSels_ok (s : Schema) (d : Doc) (F : List FieldNode) (N : List String) :
    ∀ (xs : List Sel) (p : Option String) (acc), AccOK d F N acc → selsFields xs ⊆ F →
      selsDirectSpreads xs ⊆ N → AccOK d F N (collectSels s d p xs acc)
  | [], _, acc, h, _, _ => by simpa [collectSels] using h
  | x :: xs, p, acc, h, hf, hs => by
    simp only [collectSels]
    simp only [selsFields, selsDirectSpreads] at hf hs
    exact collectSels_ok s d F N xs p _
      (collectSel_ok s d F N x p acc h (fun a ha => hf (List.mem_append_left _ ha))
        (fun a ha => hs (List.mem_append_left _ ha)))
      (fun a ha => hf (List.mem_append_right _ ha)) (fun a ha => hs (List.mem_append_right _ ha))
end

/-- the cached pair was collected from selection set `ss` -/
def CachedFrom (d : Doc) (ss : SelSet) (c : Cached) : Prop :=
  c.1.id = ss.id ∧ AccOK d (selsFields ss.sels) (selsDirectSpreads ss.sels) (c.1.entries, c.2)

theorem computeFields_ok (s : Schema) (d : Doc) (p : Option String) (ss : SelSet) :
    CachedFrom d ss (computeFields s d p ss) := by
  refine ⟨rfl, ?_⟩
  exact collectSels_ok s d _ _ ss.sels p ([], []) ⟨by simp, by simp⟩ (fun _ h => h) (fun _ h => h)

/-- every cache entry was collected from the selection set of the document with that identity -/
def CacheOK (d : Doc) (σ : St) : Prop :=
  ∀ i c, assocGet σ.cache i = some c → ∃ ss ∈ d.allSets, ss.id = i ∧ CachedFrom d ss c

end Gql.Exec
