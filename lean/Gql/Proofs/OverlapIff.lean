import Gql.Proofs.OverlapRun4
/-! C14: the rule reports a conflict iff the specification rejects — all documents. -/
namespace Gql.Exec
open Overlap

theorem Doc.IdsNodup.unique {d : Doc} (h : d.IdsNodup) : d.IdsUnique :=
  fun a ha b hb e => eq_of_nodup_map (fun (x : SelSet) => x.id) (l := d.allSets) h ha hb e

/-- GraphQL names contain no parenthesis, so `Name()` (defined fragment) and `Name` (undefined)
never collide. -/
theorem keysInj_of_names {d : Doc} (h : ∀ n ∈ d.spreadNames, '(' ∉ n.toList) : KeysInj d := by
  intro n1 h1 n2 h2 e
  simp only [mkSpread] at e
  have hp : ("()" : String).toList = ['(', ')'] := by decide
  by_cases d1 : (d.getFragment n1).isSome = true <;> by_cases d2 : (d.getFragment n2).isSome = true
  · simp only [d1, d2, if_true] at e
    have := congrArg String.toList e
    simp only [String.toList_append] at this
    exact String.toList_inj.mp (List.append_cancel_right this)
  · simp only [d1, d2, if_true, Bool.false_eq_true, if_false] at e
    have := congrArg String.toList e
    simp only [String.toList_append, hp] at this
    exact absurd (by rw [← this]; simp) (h n2 h2)
  · simp only [d1, d2, if_true, Bool.false_eq_true, if_false] at e
    have := congrArg String.toList e
    simp only [String.toList_append, hp] at this
    exact absurd (by rw [this]; simp) (h n1 h1)
  · simpa [d1, d2] using e

/-- **The rule accepts exactly what the specification accepts** (any linear sort-key order, the
proved recursion bound). -/
theorem overlap_iff_le (le : String → String → Bool) (hle : LinOrd le) (s : Schema) (d : Doc)
    (hI : d.IdsNodup) (hA : d.argsWF = true) (hT : d.NoTypename) (hR : RootsObject s d)
    (hL : LeafNoSub s d) (hK : KeysInj d) :
    ∃ cs, implConflictsFuel le (fuelBound d) s d = some cs ∧
      (cs ≠ [] ↔ Spec.SpecConflict s d) := by
  have hU := hI.typed s
  have hA' : ∀ a, DocInst s d a → a.node.argsOK := fun a ha => Doc.argsWF_inst hA ha
  have hT' : ∀ a, DocInst s d a → a.node.name ≠ "__typename" := fun a ha => hT.inst ha
  have hsome := implConflictsFuel_isSome le s d hI.unique (fuelBound d) (Nat.le_refl _)
  cases hr : implConflictsFuel le (fuelBound d) s d with
  | none => rw [hr] at hsome; cases hsome
  | some cs =>
    refine ⟨cs, rfl, ?_, ?_⟩
    · intro hne
      exact uw_specConflict hA' hL
        (implConflictsFuel_sound le hle s d hU hA' hT' hR _ cs hr hne)
    · intro hsc hnil
      subst hnil
      exact implConflictsFuel_complete le hle s d hU hA' hT' hR hK _ hr (specConflict_uw hsc)

/-! ### ScalarLeafs implies `LeafNoSub`, with fragments -/

theorem reach_docInst_gen {s : Schema} {d : Doc} {st0 st : Spec.State}
    (hr : Spec.Reach s d st0 st) :
    DocInst s d st0.a → DocInst s d st0.b → DocInst s d st.a ∧ DocInst s d st.b := by
  induction hr with
  | refl st => exact fun ha hb => ⟨ha, hb⟩
  | @step a b c hstep _ ih =>
    intro ha hb
    simp only [Spec.Step, Spec.succs] at hstep
    split at hstep
    · cases hstep
    · obtain ⟨pr, hpr, rfl⟩ := List.mem_map.1 hstep
      have hm := Spec.pairsOf_mem (Spec.mem_sameNamePairs.1 hpr).1
      exact ih (((merged_mem s d _ _ _).1 hm.1).docInst ha hb)
        (((merged_mem s d _ _ _).1 hm.2).docInst ha hb)

theorem leafNoSub_of_scalarLeafs_gen {s : Schema} {d : Doc} (hs : ScalarLeafs s d) :
    LeafNoSub s d := by
  intro st0 h0 st hr hl
  obtain ⟨t, ht, pr, hpr, rfl⟩ := mem_initStates_gen.1 h0
  have hm := Spec.pairsOf_mem (Spec.mem_sameNamePairs.1 hpr).1
  have ha0 := InE.docInst ht ((expand_mem s d _ _ _).1 hm.1)
  have hb0 := InE.docInst ht ((expand_mem s d _ _ _).1 hm.2)
  obtain ⟨⟨ta, hta, hma⟩, ⟨tb, htb, hmb⟩⟩ := reach_docInst_gen hr ha0 hb0
  have xa := hs ta hta _ hma
  have xb := hs tb htb _ hmb
  simp only [Spec.leafStop, Spec.typesOf] at hl
  cases h1 : Spec.fieldType s st.a.parent st.a.node.name with
  | none => simp [h1] at hl
  | some ty1 =>
    cases h2 : Spec.fieldType s st.b.parent st.b.node.name with
    | none => simp [h1, h2] at hl
    | some ty2 =>
      simp only [h1, h2, Bool.or_eq_true] at hl
      simp only [h1, Bool.and_eq_false_iff] at xa
      simp only [h2, Bool.and_eq_false_iff] at xb
      rcases hl with hl | hl
      · rcases xa with xa | xa
        · simp [xa]
        · rw [hl] at xa; cases xa
      · rcases xb with xb | xb
        · simp [xb]
        · rw [hl] at xb; cases xb

end Gql.Exec
