import Gql.Async.Plan
/-!
Lemmas about `Gql.Async.Plan` (model of build_execution_plan.py): the loop invariant of
`buildExecutionPlan`, and the characterisation of `getFilteredDeferUsageSet`.
-/
namespace Gql.Async.Plan

variable {κ : Type} [DecidableEq κ]

/-! ### `dict.__setitem__` on a fresh key appends -/

theorem dictSet_fresh {α : Type} (k : κ) (v : α) (g : List (κ × α)) (h : k ∉ g.map Prod.fst) :
    dictSet k v g = g ++ [(k, v)] := by
  induction g with
  | nil => rfl
  | cons x rest ih =>
    obtain ⟨k', v'⟩ := x
    simp only [List.map_cons, List.mem_cons, not_or] at h
    have hne : ¬ k' = k := fun e => h.1 e.symm
    simp [dictSet, hne, ih h.2]

/-! ### The parts of a plan -/

/-- all parts: the planned grouped field set first, then the new ones in creation order -/
def parts (plan : ExecutionPlan κ) : List (GroupedFieldSet κ) :=
  plan.groupedFieldSet :: plan.newGroupedFieldSets.map Prod.snd

/-- Loop invariant of `build_execution_plan` after the entries `done` have been processed. -/
structure Inv (filt : FieldDetailsList → DeferUsageSet) (parent : DeferUsageSet)
    (done : GroupedFieldSet κ) (plan : ExecutionPlan κ) : Prop where
  sub_planned : plan.groupedFieldSet.Sublist done
  sub_new : ∀ sg ∈ plan.newGroupedFieldSets, sg.2.Sublist done
  perm : done.Perm (plan.groupedFieldSet ++ (plan.newGroupedFieldSets.map Prod.snd).flatten)
  planned_iff : ∀ e ∈ plan.groupedFieldSet, setEq (filt e.2) parent = true
  new_spec : ∀ sg ∈ plan.newGroupedFieldSets,
    sg.2 ≠ [] ∧ ∀ e ∈ sg.2, setEq sg.1 (filt e.2) = true ∧ setEq (filt e.2) parent = false
  distinct : plan.newGroupedFieldSets.Pairwise (fun a b => setEq a.1 b.1 = false)

omit [DecidableEq κ] in
theorem sublist_keys {g done : GroupedFieldSet κ} (h : g.Sublist done) {k : κ}
    (hk : k ∉ done.map Prod.fst) : k ∉ g.map Prod.fst :=
  fun hin => hk ((h.map Prod.fst).subset hin)

/-- what `addToSets` does, given that the key is fresh in every part -/
theorem addToSets_spec (fs : DeferUsageSet) (k : κ) (fdl : FieldDetailsList)
    (sets : List (DeferUsageSet × GroupedFieldSet κ))
    (hfresh : ∀ sg ∈ sets, k ∉ sg.2.map Prod.fst) :
    (∃ pre s g post, sets = pre ++ (s, g) :: post ∧ setEq s fs = true ∧
        (∀ sg ∈ pre, setEq sg.1 fs = false) ∧
        addToSets fs k fdl sets = pre ++ (s, g ++ [(k, fdl)]) :: post) ∨
    ((∀ sg ∈ sets, setEq sg.1 fs = false) ∧ addToSets fs k fdl sets = sets ++ [(fs, [(k, fdl)])]) := by
  induction sets with
  | nil => right; simp [addToSets]
  | cons x rest ih =>
    obtain ⟨s, g⟩ := x
    by_cases hs : setEq s fs = true
    · left
      refine ⟨[], s, g, rest, rfl, hs, by simp, ?_⟩
      have := dictSet_fresh k fdl g (hfresh (s, g) (by simp))
      simp [addToSets, hs, this]
    · have hs' : setEq s fs = false := by simpa using hs
      have hf' : ∀ sg ∈ rest, k ∉ sg.2.map Prod.fst := fun sg h => hfresh sg (by simp [h])
      rcases ih hf' with ⟨pre, s', g', post, he, hs2, hpre, hres⟩ | ⟨hall, hres⟩
      · left
        refine ⟨(s, g) :: pre, s', g', post, by simp [he], hs2, ?_, ?_⟩
        · intro sg hsg
          rcases List.mem_cons.mp hsg with rfl | h
          · exact hs'
          · exact hpre sg h
        · simp [addToSets, hs', hres]
      · right
        refine ⟨?_, by simp [addToSets, hs', hres]⟩
        intro sg hsg
        rcases List.mem_cons.mp hsg with rfl | h
        · exact hs'
        · exact hall sg h

theorem perm_insert_part {α : Type} (done : List α) (e : α) (planned : List α)
    (pre post : List (List α)) (g : List α)
    (h : done.Perm (planned ++ (pre ++ g :: post).flatten)) :
    (done ++ [e]).Perm (planned ++ (pre ++ (g ++ [e]) :: post).flatten) := by
  simp only [List.flatten_append, List.flatten_cons, List.append_assoc] at h ⊢
  have h1 : (done ++ [e]).Perm ((planned ++ (pre.flatten ++ (g ++ post.flatten))) ++ [e]) :=
    h.append_right [e]
  refine h1.trans ?_
  simp only [List.append_assoc]
  refine List.Perm.append_left planned (List.Perm.append_left pre.flatten (List.Perm.append_left g ?_))
  exact List.perm_append_comm

theorem inv_step (filt : FieldDetailsList → DeferUsageSet) (parent : DeferUsageSet)
    (done : GroupedFieldSet κ) (plan : ExecutionPlan κ) (e : κ × FieldDetailsList)
    (hinv : Inv filt parent done plan) (hk : e.1 ∉ done.map Prod.fst) :
    Inv filt parent (done ++ [e])
      (if setEq (filt e.2) parent then
        { plan with groupedFieldSet := dictSet e.1 e.2 plan.groupedFieldSet }
       else { plan with newGroupedFieldSets := addToSets (filt e.2) e.1 e.2 plan.newGroupedFieldSets }) := by
  obtain ⟨k, fdl⟩ := e
  by_cases hp : setEq (filt fdl) parent = true
  · simp only [hp, if_true]
    have hfresh := dictSet_fresh k fdl plan.groupedFieldSet (sublist_keys hinv.sub_planned hk)
    refine ⟨?_, ?_, ?_, ?_, hinv.new_spec, hinv.distinct⟩
    · simp only [hfresh]; exact hinv.sub_planned.append (List.Sublist.refl _)
    · intro sg hsg
      exact (hinv.sub_new sg hsg).trans (List.sublist_append_left _ _)
    · simp only [hfresh]
      have := perm_insert_part done (k, fdl) [] [] ((plan.newGroupedFieldSets.map Prod.snd)) plan.groupedFieldSet
        (by simpa using hinv.perm)
      simpa using this
    · intro e he
      simp only [hfresh, List.mem_append, List.mem_singleton] at he
      rcases he with h | rfl
      · exact hinv.planned_iff e h
      · exact hp
  · have hp' : setEq (filt fdl) parent = false := by simpa using hp
    simp only [hp', Bool.false_eq_true, if_false]
    have hfreshAll : ∀ sg ∈ plan.newGroupedFieldSets, k ∉ sg.2.map Prod.fst :=
      fun sg hsg => sublist_keys (hinv.sub_new sg hsg) hk
    rcases addToSets_spec (filt fdl) k fdl plan.newGroupedFieldSets hfreshAll with
      ⟨pre, s, g, post, he, hs, hpre, hres⟩ | ⟨hall, hres⟩
    · simp only [hres]
      refine ⟨hinv.sub_planned.trans (List.sublist_append_left _ _), ?_, ?_, hinv.planned_iff, ?_, ?_⟩
      · intro sg hsg
        rcases List.mem_append.mp hsg with h | h
        · exact (hinv.sub_new sg (by simp [he, h])).trans (List.sublist_append_left _ _)
        · rcases List.mem_cons.mp h with rfl | h
          · exact (hinv.sub_new (s, g) (by simp [he])).append (List.Sublist.refl _)
          · exact (hinv.sub_new sg (by simp [he, h])).trans (List.sublist_append_left _ _)
      · have hperm := hinv.perm
        rw [he] at hperm
        simp only [List.map_append, List.map_cons] at hperm ⊢
        exact perm_insert_part done (k, fdl) plan.groupedFieldSet _ _ g hperm
      · intro sg hsg
        rcases List.mem_append.mp hsg with h | h
        · exact hinv.new_spec sg (by simp [he, h])
        · rcases List.mem_cons.mp h with rfl | h
          · have hold := hinv.new_spec (s, g) (by simp [he])
            refine ⟨by simp, ?_⟩
            intro e' he'
            rcases List.mem_append.mp he' with h' | h'
            · exact hold.2 e' h'
            · simp only [List.mem_singleton] at h'
              subst h'
              exact ⟨hs, hp'⟩
          · exact hinv.new_spec sg (by simp [he, h])
      · have hd := hinv.distinct
        rw [he] at hd
        simpa [List.pairwise_append, List.pairwise_cons] using hd
    · simp only [hres]
      refine ⟨hinv.sub_planned.trans (List.sublist_append_left _ _), ?_, ?_, hinv.planned_iff, ?_, ?_⟩
      · intro sg hsg
        rcases List.mem_append.mp hsg with h | h
        · exact (hinv.sub_new sg h).trans (List.sublist_append_left _ _)
        · simp only [List.mem_singleton] at h
          subst h
          exact List.sublist_append_right _ _
      · have hperm := hinv.perm
        simp only [List.map_append, List.map_cons, List.map_nil, List.flatten_append,
          List.flatten_cons, List.flatten_nil, List.append_nil]
        have := hperm.append_right [(k, fdl)]
        simpa [List.append_assoc] using this
      · intro sg hsg
        rcases List.mem_append.mp hsg with h | h
        · exact hinv.new_spec sg h
        · simp only [List.mem_singleton] at h
          subst h
          refine ⟨by simp, ?_⟩
          intro e' he'
          simp only [List.mem_singleton] at he'
          subst he'
          exact ⟨by simp [setEq, List.all_eq_true], hp'⟩
      · rw [List.pairwise_append]
        refine ⟨hinv.distinct, by simp, ?_⟩
        intro a ha b hb
        simp only [List.mem_singleton] at hb
        subst hb
        exact hall a ha

theorem inv_foldl (parentOf : Nat → Option Nat) (fuel : Nat) (parent : DeferUsageSet)
    (rest done : GroupedFieldSet κ) (plan : ExecutionPlan κ)
    (hinv : Inv (getFilteredDeferUsageSet parentOf fuel) parent done plan)
    (hnd : ((done ++ rest).map Prod.fst).Nodup) :
    Inv (getFilteredDeferUsageSet parentOf fuel) parent (done ++ rest)
      (rest.foldl (planStep parentOf fuel parent) plan) := by
  induction rest generalizing done plan with
  | nil => simpa using hinv
  | cons e rest ih =>
    have hk : e.1 ∉ done.map Prod.fst := by
      have := hnd
      simp only [List.map_append, List.map_cons] at this
      have h2 := (List.nodup_append.mp this).2.2
      intro hin
      exact h2 e.1 hin e.1 (by simp) rfl
    have hstep := inv_step (getFilteredDeferUsageSet parentOf fuel) parent done plan e hinv hk
    have := ih (done ++ [e]) _ hstep (by simpa [List.append_assoc] using hnd)
    simpa [List.foldl_cons, planStep, List.append_assoc] using this

omit [DecidableEq κ] in
theorem inv_nil (filt : FieldDetailsList → DeferUsageSet) (parent : DeferUsageSet) :
    Inv (κ := κ) filt parent [] { groupedFieldSet := [], newGroupedFieldSets := [] } :=
  ⟨List.Sublist.refl _, by simp, by simp, by simp, by simp, by simp⟩

theorem build_inv (parentOf : Nat → Option Nat) (fuel : Nat) (parent : DeferUsageSet)
    (orig : GroupedFieldSet κ) (hnd : (orig.map Prod.fst).Nodup) :
    Inv (getFilteredDeferUsageSet parentOf fuel) parent orig
      (buildExecutionPlan parentOf fuel orig parent) := by
  have := inv_foldl parentOf fuel parent orig [] _ (inv_nil _ parent) (by simpa using hnd)
  simpa [buildExecutionPlan] using this

end Gql.Async.Plan
