import Gql.Proofs.Lexes
import Gql.Proofs.BlockIndent
import Gql.Proofs.BlockShift
/-!
`Lexes` for the leaf tokens of printed text: punctuators, names, numbers, quoted strings, block
strings (also re-indented).
-/
namespace Gql.Text

theorem punct_ne {c : Nat} {k : TokKind} (h : punctKind c = some k) : k ≠ .eof ∧ k ≠ .comment := by
  rcases punct_cases h with h' | h' | h' | h' | h' | h' | h' | h' | h' | h' | h' | h' | h' <;> subst h' <;>
    simp [punctKind] at h <;> subst h <;> simp

theorem Lexes.punct (c : Nat) (k : TokKind) (h : punctKind c = some k) : Lexes false [c] [(k, none)] := by
  apply Lexes.single false [c] k none (punct_ne h).1 (punct_ne h).2
  intro pre rest st _
  refine ⟨_, st, next_punct _ st pre.length c k ((getElem?_pre0 pre _).trans rfl) h, rfl, rfl, rfl⟩

theorem Lexes.name (n : List Nat) (h : validName n = true) : Lexes true n [(.name, some n)] := by
  apply Lexes.single true n .name (some n) (by decide) (by decide)
  intro pre rest st hs
  exact ⟨_, st, next_name pre n rest st h (hs rfl).toStops, rfl, rfl, rfl⟩

theorem Lexes.number (fl : Bool) (s : List Nat) (h : IsNum fl s) :
    Lexes true s [(if fl then .float else .int, some s)] := by
  apply Lexes.single true s _ (some s) (by cases fl <;> decide) (by cases fl <;> decide)
  intro pre rest st hs
  exact ⟨_, st, next_number pre s rest st fl h (hs rfl), rfl, rfl, rfl⟩

/-! ### quoted strings -/

/-- The second and third character of `print_string(s) ++ rest` are not both quotes. -/
theorem printString_not_block (table : List (Nat × List Nat)) (hT : tableOK table = true)
    (hC : tableComplete table = true) (s rest : List Nat) (hs : Safe rest) (pre : List Nat) :
    slice (pre ++ (printStringWith table s ++ rest)) (pre.length + 1) (pre.length + 3) ≠ [34, 34] := by
  have hb : pre ++ (printStringWith table s ++ rest) = (pre ++ [34]) ++ (translate table s ++ (34 :: rest)) := by
    simp [printStringWith]
  rw [hb, show pre.length + 3 = (pre.length + 1) + 2 by omega]
  apply slice_two_ne
  intro ⟨h0, h1⟩
  have e0 := getElem?_pre (pre ++ [34]) (translate table s ++ 34 :: rest) 0
  have e1 := getElem?_pre (pre ++ [34]) (translate table s ++ 34 :: rest) 1
  simp only [List.length_append, List.length_cons, List.length_nil, Nat.zero_add, Nat.add_zero] at e0 e1
  rw [e0] at h0
  rw [show pre.length + 1 + 1 = pre.length + 1 + 1 from rfl, e1] at h1
  cases s with
  | nil =>
    simp [translate] at h1
    have := (safeHead_iff 34).mp (hs 34 (by rw [List.head?_eq_getElem?]; exact h1))
    simp at this
  | cons c r =>
    cases hl : escapeLookup table c with
    | none =>
      have := (tableComplete_none hC hl).1
      simp [translate, hl] at h0
      exact this h0
    | some e =>
      have hOK := tableOK_lookup hT hl
      unfold entryOK at hOK
      split at hOK
      · simp [translate, hl] at h0
      · simp [translate, hl] at h0
      · simp at hOK

theorem Lexes.string (s : List Nat) (hsc : ∀ c ∈ s, isScalar c = true)
    (hT : tableOK Generated.escapeTable = true) (hC : tableComplete Generated.escapeTable = true) :
    Lexes true (printString s) [(.string, some s)] := by
  apply Lexes.single true (printString s) .string (some s) (by decide) (by decide)
  intro pre rest st hs
  have hsafe := hs rfl
  have hnb := printString_not_block Generated.escapeTable hT hC s rest hsafe pre
  have hget : (pre ++ (printString s ++ rest))[pre.length]? = some 34 := by
    rw [getElem?_pre0]; rfl
  obtain ⟨hlen, hidx⟩ := index_of_getElem? hget
  have hloop := readStringLoop_translate Generated.escapeTable hT hC st pre.length rest s (pre ++ [34]) []
    (pre.length + 1) (by simp) hsc
  have hb : pre ++ (printString s ++ rest) = (pre ++ [34]) ++ (translate Generated.escapeTable s ++ 34 :: rest) := by
    simp [printString, printStringWith]
  refine ⟨mkToken st .string pre.length (pre.length + (printString s).length) (some s), st, ?_, rfl, rfl, rfl⟩
  rw [readNextToken]
  simp only [hlen, ↓reduceDIte, hidx, Out.bind_ok]
  simp only [show ¬ ((34 : Nat) = 32 ∨ (34 : Nat) = 9 ∨ (34 : Nat) = 44 ∨ (34 : Nat) = 65279) by decide,
    ↓reduceIte, show ¬ ((34 : Nat) = 10) by decide, show ¬ ((34 : Nat) = 13) by decide,
    show ¬ ((34 : Nat) = 35) by decide]
  simp only [printString] at hnb ⊢
  simp only [hnb, ↓reduceIte, readString]
  have hb' : pre ++ (printStringWith Generated.escapeTable s ++ rest) =
      (pre ++ [34]) ++ (translate Generated.escapeTable s ++ 34 :: rest) := by
    simp [printStringWith]
  have hl : (pre ++ [34]).length = pre.length + 1 := by simp
  rw [hl] at hloop
  rw [hb', hloop, slice_self]
  simp [printStringWith, mkToken, Nat.add_assoc, Nat.add_comm 1]

end Gql.Text

namespace Gql.Text

theorem tokOf_eq_ok {x : LexOut (Token × LexState)} {t : Token} (h : tokOf x = .ok t) :
    ∃ st', x = .ok (t, st') := by
  cases x with
  | ok p => obtain ⟨t', st'⟩ := p; simp [tokOf] at h; exact ⟨st', by rw [h]⟩
  | err e => simp [tokOf] at h
  | crash c => simp [tokOf] at h

theorem indentLF_printBlock_head (k w : Nat) (s : List Nat) :
    ∃ X, indentLF k (printBlockStringW w s false) = 34 :: 34 :: 34 :: X := by
  unfold printBlockStringW
  simp only [List.append_assoc, List.cons_append, List.nil_append, indentLF]
  exact ⟨_, rfl⟩

/-- A (re-indented) printed block string, anywhere in a text. -/
theorem Lexes.block (k w : Nat) (s : List Nat) (hsc : ∀ c ∈ s, isScalar c = true)
    (hrep : BlockRepresentable s) :
    Lexes true (indentLF k (printBlockStringW w s false)) [(.blockString, some s)] := by
  apply Lexes.single true _ .blockString (some s) (by decide) (by decide)
  intro pre rest st _
  obtain ⟨X, hX⟩ := indentLF_printBlock_head k w s
  have hloop := indent_printed_roundtrip_loop k w s rest st pre.length
  have hshift := blockLoop_shift pre (indentLF k (printBlockStringW w s false) ++ rest) st pre.length
    ((indentLF k (printBlockStringW w s false) ++ rest).length) 3 3 st.lineStart st.lineStart [] []
    (by omega)
  rw [hloop st.lineStart hsc hrep] at hshift
  simp only [shiftOut] at hshift
  obtain ⟨st', hst⟩ := tokOf_eq_ok hshift
  refine ⟨{ mkToken st .blockString pre.length (indentLF k (printBlockStringW w s false)).length (some s) with
    stop := (indentLF k (printBlockStringW w s false)).length + pre.length }, st', ?_, rfl, rfl, ?_⟩
  · have hget : (pre ++ (indentLF k (printBlockStringW w s false) ++ rest))[pre.length]? = some 34 := by
      rw [getElem?_pre0, hX]; rfl
    obtain ⟨hlen, hidx⟩ := index_of_getElem? hget
    have hs2 : slice (pre ++ (indentLF k (printBlockStringW w s false) ++ rest)) (pre.length + 1) (pre.length + 3) =
        [34, 34] := by
      rw [show pre.length + 3 = pre.length + 1 + 2 by omega]
      apply slice_two
      · rw [getElem?_pre, hX]; rfl
      · rw [show pre.length + 1 + 1 = pre.length + 2 by omega, getElem?_pre, hX]; rfl
    rw [readNextToken]
    simp only [hlen, ↓reduceDIte, hidx, Out.bind_ok]
    simp only [show ¬ ((34 : Nat) = 32 ∨ (34 : Nat) = 9 ∨ (34 : Nat) = 44 ∨ (34 : Nat) = 65279) by decide,
      ↓reduceIte, show ¬ ((34 : Nat) = 10) by decide, show ¬ ((34 : Nat) = 13) by decide,
      show ¬ ((34 : Nat) = 35) by decide, hs2, readBlockString]
    exact hst
  · simp [mkToken, Nat.add_comm]

end Gql.Text
