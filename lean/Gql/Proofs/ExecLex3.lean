import Gql.Proofs.ExecDefs3
import Gql.Proofs.ExecDocLex2
/-!
C08, stage 3, lexer side: the printed text of a type-system definition lexes to its tokens.
-/
namespace Gql.Text
open Gql.Syntax

/-! ### generic item lists -/

theorem lexes_joinItems {α : Type} (pr : α → List Nat) (kv : α → List KV) (kvs : List α → List KV)
    (hnil : kvs [] = []) (hcons : ∀ a r, kvs (a :: r) = kv a ++ kvs r) (xs : List α) (k : Nat)
    (h : ∀ a ∈ xs, Lexes true (indentLF k (pr a)) (kv a)) (sep : List Nat) (hsep : Ignorable sep)
    (hne : sep ≠ []) :
    Lexes true (joinWith sep ((xs.map pr).map (indentLF k))) (kvs xs) := by
  induction xs with
  | nil => rw [hnil]; exact Lexes.nil.weaken true
  | cons a r ih =>
    have hv := h a (by simp)
    have ih' := ih (fun b hb => h b (by simp [hb]))
    cases r with
    | nil => simpa [joinWith, hcons, hnil] using hv
    | cons b r' =>
      rw [hcons]
      simp only [List.map_cons, joinWith] at ih' ⊢
      have := Lexes.append_l (Lexes.append_ign hv hsep hne) ih'
      simpa [List.append_assoc] using this

/-- `open LF indent(items) LF close`, re-indented. -/
theorem lexes_wrappedItems (o cl : Nat) (ko kc : TokKind) (hko : punctKind o = some ko)
    (hkc : punctKind cl = some kc) (hsafe : safeHead cl = true) (ho : o ≠ 10) (hcl : cl ≠ 10)
    (ts : List (List Nat)) (K : List KV) (hts : ts ≠ []) (hne : ∀ t ∈ ts, t ≠ [])
    (k : Nat) (hJ : Lexes true (joinWith (10 :: List.replicate (k + 2) 32) (ts.map (indentLF (k + 2)))) K) :
    Lexes true (indentLF k ([o] ++ [10] ++ indent (joinWith [10] ts) ++ [10] ++ [cl]))
      ((ko, none) :: K ++ [(kc, none)]) := by
  rw [indentLF_wrapped k o cl _ hts hne ho hcl]
  exact lexes_bracket o cl ko kc hko hkc hsafe
    (10 :: List.replicate k 32 ++ [32, 32]) (10 :: List.replicate k 32) _ _
    (ignorable_append (ignorable_lf_spaces k) (by intro x hx; simp at hx; subst hx; simp))
    (ignorable_lf_spaces k) hJ

theorem block_nil : block [] = [] := by simp [block, join, joinWith, indent, indentNL, wrap]

/-- The optional block `{ LF items LF }` of a list of items. -/
theorem lexOpt_blockItems {α : Type} (pr : α → List Nat) (kv : α → List KV) (kvs : List α → List KV)
    (hnil : kvs [] = []) (hcons : ∀ a r, kvs (a :: r) = kv a ++ kvs r) (xs : List α)
    (hnn : ∀ a ∈ xs, pr a ≠ []) (h : ∀ a ∈ xs, ∀ k, Lexes true (indentLF k (pr a)) (kv a)) (k : Nat) :
    LexOpt (indentLF k (block (xs.map pr))) (Exec.bracketKvs .braceL .braceR (kvs xs) xs.isEmpty) := by
  by_cases hx : xs = []
  · subst hx; left; simp [block_nil, indentLF, Exec.bracketKvs]
  · right
    have hts : xs.map pr ≠ [] := by simpa using hx
    have hne : ∀ t ∈ xs.map pr, t ≠ [] := by
      intro t ht
      simp only [List.mem_map] at ht
      obtain ⟨a, ha, rfl⟩ := ht
      exact hnn a ha
    have hJ := lexes_joinItems pr kv kvs hnil hcons xs (k + 2) (fun a ha => h a ha (k + 2))
      (10 :: List.replicate (k + 2) 32) (ignorable_lf_spaces (k + 2)) (by simp)
    have hemp : xs.isEmpty = false := by cases xs <;> simp_all
    have hB := lexes_wrappedItems 123 125 .braceL .braceR (by decide) (by decide) (by decide) (by decide)
      (by decide) (xs.map pr) (kvs xs) hts hne k hJ
    rw [← block_eq _ hts hne] at hB
    refine ⟨indentLF_ne_nil ?_, ?_⟩
    · rw [block_eq _ hts hne]; simp
    · simpa [Exec.bracketKvs, hemp] using hB


/-! ### input value definitions -/

theorem wrap_wrap_eq (x : List Nat) : wrap [32] (wrap (S "= ") x) = wrap (S " = ") x := by
  cases x with
  | nil => simp [wrap]
  | cons a r =>
    have h1 : S "= " = [61, 32] := by decide
    simp [wrap, S_eq, h1]

theorem printIvd_eq (w : Widths) (vd : VarDef) (hn : vd.name ≠ []) :
    Exec.printIvd w vd = wrap [] (Exec.descText w vd.desc) [10] ++ (vd.name ++ S ": " ++ vd.ty.print) ++
      wrap (S " = ") (Exec.dfltText w vd.dflt) ++ wrap [32] (Exec.printDirs w vd.dirs) := by
  unfold Exec.printIvd Exec.descPre
  rw [join_space _ _ (by
    intro h
    have := List.append_eq_nil_iff.mp h
    exact hn (List.append_eq_nil_iff.mp this.1).1)]
  simp [spaced, wrap_wrap_eq, List.append_assoc]

section
variable (w : Widths) (hw : 4 ≤ w.object)
variable (hT : tableOK Generated.escapeTable = true) (hC : tableComplete Generated.escapeTable = true)
include hw hT hC

theorem lexes_ivd (vd : VarDef) (h : Exec.varDefWf vd) (k : Nat) :
    Lexes true (indentLF k (Exec.printIvd w vd)) (Exec.ivdKvs vd) := by
  obtain ⟨hdesc, hname, hty, _, hdf, hds⟩ := h
  rw [printIvd_eq w vd (validName_ne_nil hname)]
  have hcore : Lexes true (vd.name ++ S ": " ++ vd.ty.print)
      ((.name, some vd.name) :: (.colon, none) :: vd.ty.kvs) := by
    have h2 := Lexes.append_punct (Lexes.name vd.name hname) 58 .colon (by decide) (by decide)
    have h3 := Lexes.append_l h2 (Lexes.ignorable [32] (by intro x hx; simp at hx; simp [hx]))
    have h4 := Lexes.append_l h3 (Lexes.ty vd.ty hty)
    simpa [S_colon, List.append_assoc] using h4
  have hcore10 : ∀ x ∈ (vd.name ++ S ": " ++ vd.ty.print), x ≠ 10 := by
    intro x hx
    simp only [S_colon, List.mem_cons, List.mem_append, List.not_mem_nil, or_false] at hx
    rcases hx with (hx | rfl | rfl) | hx
    · exact name_no10 hname x hx
    · omega
    · omega
    · exact ty_no10 vd.ty hty x hx
  have hD : LexOpt (indentLF k (Exec.dfltText w vd.dflt)) (match vd.dflt with
      | none => []
      | some v => v.kvs) := by
    cases hv : vd.dflt with
    | none => left; simp [Exec.dfltText, indentLF]
    | some v =>
      rw [hv] at hdf
      right
      exact ⟨indentLF_ne_nil (print_ne_nil w hw true v hdf), lexV w hw true hT hC v hdf k⟩
  have hdirs := lexes_dirs w hw hT hC true vd.dirs hds k
  have h1 : Lexes true (indentLF k (vd.name ++ S ": " ++ vd.ty.print))
      ((.name, some vd.name) :: (.colon, none) :: vd.ty.kvs) := by
    rw [indentLF_no10 k _ hcore10]; exact hcore
  have h2 := lexes_optEquals h1 hD
  have h3 := lexes_optSpace h2 hdirs
  have h4 := lexes_descPre w hw hT hC vd.desc hdesc k h3
  unfold Exec.ivdKvs
  simp only [indentLF_append, indentLF_wrap, S_eq]
  have hemp : (indentLF k (Exec.dfltText w vd.dflt)).isEmpty = vd.dflt.isNone := by
    rw [indentLF_isEmpty]
    cases hv : vd.dflt with
    | none => simp [Exec.dfltText]
    | some v =>
      rw [hv] at hdf
      have := print_ne_nil w hw true v hdf
      cases hp : Val.print w v with
      | nil => exact absurd hp this
      | cons a r => simp [Exec.dfltText, hp]
  rw [hemp] at h4
  cases hv : vd.dflt with
  | none => simpa [hv, indentLF, indentLF_append, indentLF_wrap, List.append_assoc] using h4
  | some v => simpa [hv, indentLF, indentLF_append, indentLF_wrap, List.append_assoc] using h4

end

theorem printIvd_ne_nil (w : Widths) (vd : VarDef) (hn : vd.name ≠ []) : Exec.printIvd w vd ≠ [] := by
  rw [printIvd_eq w vd hn]
  intro h
  have h1 := List.append_eq_nil_iff.mp h
  have h2 := List.append_eq_nil_iff.mp h1.1
  have h3 := List.append_eq_nil_iff.mp h2.1
  have h4 := List.append_eq_nil_iff.mp h3.2
  exact hn (List.append_eq_nil_iff.mp h4.1).1

section
variable (w : Widths) (hw : 4 ≤ w.object)
variable (hT : tableOK Generated.escapeTable = true) (hC : tableComplete Generated.escapeTable = true)
include hw hT hC

/-- `argDefs`: the optional parenthesised list of input value definitions, in both layouts. -/
theorem lexOpt_argDefs (args : List VarDef) (h : Exec.ivdsWf args) (k : Nat) :
    LexOpt (indentLF k (argDefs (args.map (Exec.printIvd w)))) (Exec.argDefsKvs args) := by
  by_cases hx : args = []
  · subst hx; left; simp [argDefs, hasMultilineItems, join, joinWith, wrap, indentLF, Exec.argDefsKvs, Exec.bracketKvs]
  · right
    have hts : args.map (Exec.printIvd w) ≠ [] := by simpa using hx
    have hnn : ∀ t ∈ args.map (Exec.printIvd w), t ≠ [] := by
      intro t ht
      simp only [List.mem_map] at ht
      obtain ⟨a, ha, rfl⟩ := ht
      exact printIvd_ne_nil w a (validName_ne_nil (h a ha).2.1)
    have hemp : args.isEmpty = false := by cases args <;> simp_all
    have hitem : ∀ a ∈ args, ∀ k, Lexes true (indentLF k (Exec.printIvd w a)) (Exec.ivdKvs a) :=
      fun a ha k => lexes_ivd w hw hT hC a (h a ha) k
    unfold argDefs
    split
    · -- multi-line
      rw [join_eq_joinWith _ _ hnn]
      have hin : indent (joinWith [10] (args.map (Exec.printIvd w))) ≠ [] := by
        rw [indent_of_ne (joinWith_eq_nil hnn hts)]; simp
      rw [wrap_of_ne _ _ _ hin]
      have hJ := lexes_joinItems (Exec.printIvd w) Exec.ivdKvs Exec.ivdsKvs rfl (fun _ _ => rfl) args (k + 2)
        (fun a ha => hitem a ha (k + 2)) (10 :: List.replicate (k + 2) 32) (ignorable_lf_spaces (k + 2)) (by simp)
      have hB := lexes_wrappedItems 40 41 .parenL .parenR (by decide) (by decide) (by decide) (by decide)
        (by decide) (args.map (Exec.printIvd w)) (Exec.ivdsKvs args) hts hnn k hJ
      refine ⟨indentLF_ne_nil (by simp), ?_⟩
      simpa [Exec.argDefsKvs, Exec.bracketKvs, hemp, List.append_assoc] using hB
    · -- one line
      rw [join_eq_joinWith _ _ hnn, wrap_of_ne _ _ _ (joinWith_eq_nil hnn hts)]
      have hJ := lexes_joinItems (Exec.printIvd w) Exec.ivdKvs Exec.ivdsKvs rfl (fun _ _ => rfl) args k
        (fun a ha => hitem a ha k) [44, 32]
        (by intro x hx; simp at hx; rcases hx with rfl | rfl <;> simp) (by simp)
      have := lexes_bracket 40 41 .parenL .parenR (by decide) (by decide) (by decide) [] [] _ _
        (by intro x hx; simp at hx) (by intro x hx; simp at hx) hJ
      refine ⟨indentLF_ne_nil (by simp), ?_⟩
      simpa [indentLF_append, indentLF_joinWith, indentLF, List.append_assoc, Exec.argDefsKvs, Exec.bracketKvs,
        hemp] using this

end


/-! ### field definitions, enum values, operation types, delimited names -/

theorem argDefs_head (ts : List (List Nat)) : argDefs ts ≠ [] → (argDefs ts).head? = some 40 := by
  intro h
  unfold argDefs at h ⊢
  split <;> rename_i hc <;> simp only [hc, ↓reduceIte] at h <;>
    (unfold wrap at h ⊢; split at h <;> simp_all)

/-- a name immediately followed by an optional `( … )` -/
theorem lexes_name_paren (n : List Nat) (hn : validName n = true) (V : List Nat) (kv : List KV)
    (hV : LexOpt V kv) (hhead : V ≠ [] → V.head? = some 40) :
    Lexes true (n ++ V) ((.name, some n) :: kv) := by
  rcases hV with ⟨rfl, rfl⟩ | ⟨hVne, hVl⟩
  · simpa using Lexes.name n hn
  · have := Lexes.append (Lexes.name n hn) hVl (by
      intro _ rest _
      obtain ⟨a, r, har⟩ := List.exists_cons_of_ne_nil hVne
      have := hhead hVne
      rw [har] at this ⊢
      simp at this; subst this
      exact Safe.cons (by decide))
    simpa using this

theorem ign32 : Ignorable [32] := by intro x hx; simp at hx; simp [hx]

section
variable (w : Widths) (hw : 4 ≤ w.object)
variable (hT : tableOK Generated.escapeTable = true) (hC : tableComplete Generated.escapeTable = true)
include hw hT hC

theorem lexes_fd (f : FDef) (h : Exec.fdWf f) (k : Nat) :
    Lexes true (indentLF k (Exec.printFd w f)) (Exec.fdKvs f) := by
  obtain ⟨hdesc, hname, hargs, hty, _, hds⟩ := h
  have hA := lexOpt_argDefs w hw hT hC f.args hargs k
  have h1 := lexes_name_paren f.name hname _ _ hA (indentLF_head40 k _ (argDefs_head _))
  have h2 := Lexes.append_punct h1 58 .colon (by decide) (by decide)
  have h3 := Lexes.append_l h2 (Lexes.ignorable [32] ign32)
  have h4 := Lexes.append_l h3 (Lexes.ty f.ty hty)
  have h5 := lexes_optSpace h4 (lexes_dirs w hw hT hC true f.dirs hds k)
  have h6 := lexes_descPre w hw hT hC f.desc hdesc k h5
  unfold Exec.printFd Exec.fdKvs Exec.descPre
  simp only [indentLF_append, indentLF_wrap, indentLF_no10 k _ (name_no10 hname),
    indentLF_no10 k _ (ty_no10 f.ty hty), S_colon]
  simpa [indentLF, indentLF_wrap, List.append_assoc] using h6

theorem lexes_ev (e : EVDef) (h : Exec.evWf e) (k : Nat) :
    Lexes true (indentLF k (Exec.printEv w e)) (Exec.evKvs e) := by
  obtain ⟨hdesc, hname, _, _, _, hds⟩ := h
  have h5 := lexes_optSpace (Lexes.name e.name hname) (lexes_dirs w hw hT hC true e.dirs hds k)
  have h6 := lexes_descPre w hw hT hC e.desc hdesc k h5
  unfold Exec.printEv Exec.evKvs Exec.descPre
  rw [join_space _ _ (validName_ne_nil hname)]
  simp only [indentLF_append, indentLF_wrap, indentLF_no10 k _ (name_no10 hname), spaced]
  simpa [indentLF, indentLF_wrap, List.append_assoc] using h6

end

theorem lexes_ot (ot : List Nat × List Nat) (h : Exec.isOpType ot.1 ∧ validName ot.2 = true) (k : Nat) :
    Lexes true (indentLF k (Exec.printOt ot)) (Exec.otKvs ot) := by
  have h1 := validName_opType h.1
  have h2 := Lexes.append_punct (Lexes.name ot.1 h1) 58 .colon (by decide) (by decide)
  have h3 := Lexes.append_l h2 (Lexes.ignorable [32] ign32)
  have h4 := Lexes.append_l h3 (Lexes.name ot.2 h.2)
  unfold Exec.printOt Exec.otKvs
  simp only [indentLF_append, indentLF_no10 k _ (name_no10 h1), indentLF_no10 k _ (name_no10 h.2), S_colon]
  simpa [indentLF, List.append_assoc] using h4

theorem printOt_ne_nil (ot : List Nat × List Nat) (h : Exec.isOpType ot.1) : Exec.printOt ot ≠ [] := by
  unfold Exec.printOt
  intro h0
  have := List.append_eq_nil_iff.mp h0
  have := List.append_eq_nil_iff.mp this.1
  exact validName_ne_nil (validName_opType h) this.1

/-- `A d B d C` — names separated by ` d `. -/
theorem lexes_delim (d : Nat) (kd : TokKind) (hkd : punctKind d = some kd) (ns : List (List Nat))
    (hne : ns ≠ []) (h : Exec.namesWf ns) :
    Lexes true (joinWith [32, d, 32] ns) (Exec.delimKvs kd ns) := by
  induction ns with
  | nil => exact absurd rfl hne
  | cons a r ih =>
    have ha := h a (by simp)
    cases r with
    | nil => simpa [joinWith, Exec.delimKvs] using Lexes.name a ha
    | cons b r' =>
      have ih' := ih (by simp) (fun x hx => h x (by simp at hx ⊢; exact Or.inr hx))
      have h1 := Lexes.append_ign (Lexes.name a ha) ign32 (by simp)
      have h2 := Lexes.append_l h1 (Lexes.punct d kd hkd)
      have h3 := Lexes.append_l h2 (Lexes.ignorable [32] ign32)
      have h4 := Lexes.append_l h3 ih'
      simpa [joinWith, Exec.delimKvs, List.append_assoc] using h4

theorem delim_no10 (d : Nat) (hd : d ≠ 10) (ns : List (List Nat)) (h : Exec.namesWf ns) :
    ∀ c ∈ joinWith [32, d, 32] ns, c ≠ 10 := by
  induction ns with
  | nil => intro c hc; simp [joinWith] at hc
  | cons a r ih =>
    have ha := name_no10 (h a (by simp))
    have ih' := ih (fun x hx => h x (by simp at hx ⊢; exact Or.inr hx))
    cases r with
    | nil => simpa [joinWith] using ha
    | cons b r' =>
      intro c hc
      simp only [joinWith, List.mem_append, List.mem_cons, List.not_mem_nil, or_false] at hc
      rcases hc with (hc | rfl | rfl | rfl) | hc
      · exact ha c hc
      · omega
      · exact hd
      · omega
      · exact ih' c hc

theorem names_ne_nil (ns : List (List Nat)) (h : Exec.namesWf ns) : ∀ t ∈ ns, t ≠ [] :=
  fun t ht => validName_ne_nil (h t ht)

/-- the optional ` implements A & B` / `= A | B` piece (after re-indentation: no line feeds) -/
theorem lexOpt_delimPiece (k : Nat) (pre : List Nat) (kpre : KV) (hpre : Lexes false pre [kpre])
    (hpre10 : ∀ c ∈ pre, c ≠ 10) (d : Nat) (kd : TokKind) (hkd : punctKind d = some kd) (hd : d ≠ 10)
    (ns : List (List Nat)) (h : Exec.namesWf ns) :
    LexOpt (indentLF k (wrap pre (join ns [32, d, 32]) []))
      (if ns.isEmpty then [] else kpre :: Exec.delimKvs kd ns) := by
  by_cases hx : ns = []
  · subst hx; left; simp [join, joinWith, wrap, indentLF]
  · right
    have hemp : ns.isEmpty = false := by cases ns <;> simp_all
    rw [join_eq_joinWith _ _ (names_ne_nil ns h), wrap_of_ne _ _ _ (joinWith_eq_nil (names_ne_nil ns h) hx)]
    have hJ := lexes_delim d kd hkd ns hx h
    have := Lexes.append_l hpre hJ
    simp only [List.append_nil, indentLF_append, indentLF_no10 k _ hpre10,
      indentLF_no10 k _ (delim_no10 d hd ns h), hemp]
    refine ⟨?_, by simpa using this⟩
    intro h0
    exact joinWith_eq_nil (names_ne_nil ns h) hx (List.append_eq_nil_iff.mp h0).2


/-! ### definitions -/

theorem indentLF_spaced (k : Nat) (ps : List (List Nat)) : indentLF k (spaced ps) = spaced (ps.map (indentLF k)) := by
  induction ps with
  | nil => simp [spaced, indentLF]
  | cons a r ih => simp [spaced, indentLF_append, indentLF_wrap, indentLF, ih]

theorem lexes_spaced {A : List Nat} {ka : List KV} (hA : Lexes true A ka) (parts : List (List Nat × List KV))
    (h : ∀ p ∈ parts, LexOpt p.1 p.2) :
    Lexes true (A ++ spaced (parts.map (·.1))) (ka ++ (parts.map (·.2)).flatten) := by
  induction parts generalizing A ka with
  | nil => simpa [spaced] using hA
  | cons p r ih =>
    have h1 := lexes_optSpace hA (h p (by simp))
    have h2 := ih h1 (fun q hq => h q (by simp [hq]))
    simpa [spaced, List.append_assoc] using h2

theorem lexOpt_validName (k : Nat) (n : List Nat) (hn : validName n = true) :
    LexOpt (indentLF k n) [(.name, some n)] := by
  rw [indentLF_no10 k n (name_no10 hn)]
  exact lexOpt_of_ne (validName_ne_nil hn) (Lexes.name n hn)

section
variable (w : Widths) (hw : 4 ≤ w.object)
variable (hT : tableOK Generated.escapeTable = true) (hC : tableComplete Generated.escapeTable = true)
include hw hT hC

/-- `"desc" LF kw part part …` with optional parts separated by single blanks. -/
theorem lexes_kwForm (k : Nat) (desc : Desc) (hdesc : Exec.descWf desc) (kw : List Nat) (hkw : validName kw = true)
    (parts : List (List Nat × List KV)) (h : ∀ p ∈ parts, LexOpt (indentLF k p.1) p.2) :
    Lexes true (indentLF k (Exec.descPre w desc ++ join (kw :: parts.map (·.1)) [32]))
      (Exec.descKvs desc ++ ((.name, some kw) :: (parts.map (·.2)).flatten)) := by
  rw [join_space _ _ (validName_ne_nil hkw)]
  have h1 := lexes_spaced (Lexes.name kw hkw) (parts.map (fun p => (indentLF k p.1, p.2))) (by
    intro p hp
    simp only [List.mem_map] at hp
    obtain ⟨q, hq, rfl⟩ := hp
    exact h q hq)
  have h2 := lexes_descPre w hw hT hC desc hdesc k h1
  unfold Exec.descPre
  simp only [indentLF_append, indentLF_spaced, indentLF_no10 k _ (name_no10 hkw)]
  simpa [List.map_map, Function.comp_def] using h2

end

theorem printFd_ne_nil (w : Widths) (f : FDef) (hn : f.name ≠ []) : Exec.printFd w f ≠ [] := by
  unfold Exec.printFd
  intro h
  have h1 := List.append_eq_nil_iff.mp h
  have h2 := List.append_eq_nil_iff.mp h1.1
  have h3 := List.append_eq_nil_iff.mp h2.1
  have h4 := List.append_eq_nil_iff.mp h3.1
  exact hn (List.append_eq_nil_iff.mp h4.1).2

theorem printEv_ne_nil (w : Widths) (e : EVDef) (hn : e.name ≠ []) : Exec.printEv w e ≠ [] := by
  unfold Exec.printEv
  rw [join_space _ _ hn]
  intro h
  have h1 := List.append_eq_nil_iff.mp h
  exact hn (List.append_eq_nil_iff.mp h1.2).1

theorem S_implements : S "implements " = S "implements" ++ [32] := by decide
theorem S_amp : S " & " = [32, 38, 32] := by decide
theorem S_pipe : S " | " = [32, 124, 32] := by decide
theorem S_eqsp : S "= " = [61, 32] := by decide

theorem lexOpt_impl (k : Nat) (ifs : List (List Nat)) (h : Exec.namesWf ifs) :
    LexOpt (indentLF k (wrap (S "implements ") (join ifs (S " & ")))) (Exec.implKvs ifs) := by
  have hp : Lexes false (S "implements ") [(.name, some (S "implements"))] := by
    rw [S_implements]
    exact Lexes.append_ign (Lexes.name _ (by decide)) ign32 (by simp)
  have := lexOpt_delimPiece k (S "implements ") _ hp (by decide) 38 .amp (by decide) (by decide) ifs h
  rw [S_amp]
  exact this

theorem lexOpt_unionTypes (k : Nat) (ts : List (List Nat)) (h : Exec.namesWf ts) :
    LexOpt (indentLF k (wrap (S "= ") (join ts (S " | ")))) (Exec.unionKvs ts) := by
  have hp : Lexes false (S "= ") [(.equals, none)] := by
    rw [S_eqsp]
    have := Lexes.append_l (Lexes.punct 61 .equals (by decide)) (Lexes.ignorable [32] ign32)
    simpa using this
  have := lexOpt_delimPiece k (S "= ") _ hp (by decide) 124 .pipe (by decide) (by decide) ts h
  rw [S_pipe]
  exact this

theorem locations_valid : ∀ l ∈ Generated.ParserTables.directiveLocations.map strCps, validName l = true := by
  decide

theorem objKw_valid (iface : Bool) : validName (Exec.objKw iface) = true := by
  cases iface <;> decide

/-- Well-formedness as far as lexing goes: a `schema` block may be empty (it is for `extend schema @d`). -/
def tdefWfL (dd : Bool) : TDef → Prop
  | .schema desc ds ots =>
    Exec.descWf desc ∧ Exec.dirsWfC true ds ∧ ∀ ot ∈ ots, Exec.isOpType ot.1 ∧ validName ot.2 = true
  | d => Exec.tdefWf dd d

theorem tdefWf_L {dd : Bool} {d : TDef} (h : Exec.tdefWf dd d) : tdefWfL dd d := by
  cases d with
  | schema desc ds ots => exact ⟨h.1, h.2.1, h.2.2.2⟩
  | _ => exact h

theorem edef_base_wfL (dd : Bool) (d : EDef) (h : Exec.edefWf d) : tdefWfL dd d.base := by
  cases d with
  | schema ds ots => exact ⟨trivial, h.1, h.2.1⟩
  | scalar n ds => exact ⟨trivial, h.1, h.2.1⟩
  | object iface n ifs ds fs => exact ⟨trivial, h.1, h.2.1, h.2.2.1, h.2.2.2.1⟩
  | union n ds ts => exact ⟨trivial, h.1, h.2.1, h.2.2.1⟩
  | enum n ds vs => exact ⟨trivial, h.1, h.2.1, h.2.2.1⟩
  | input n ds fs => exact ⟨trivial, h.1, h.2.1, h.2.2.1⟩

theorem S_extend_sp : S "extend " = S "extend" ++ [32] := by decide

theorem S_directive : S "directive @" = S "directive" ++ [32] ++ [64] := by decide
theorem S_repeatable : S " repeatable" = [32] ++ S "repeatable" := by decide

section
variable (w : Widths) (hw : 4 ≤ w.object)
variable (hT : tableOK Generated.escapeTable = true) (hC : tableComplete Generated.escapeTable = true)
include hw hT hC

theorem lexes_tdef (dd : Bool) (d : TDef) (h : tdefWfL dd d) (k : Nat) :
    Lexes true (indentLF k (Exec.printTDef w d)) (Exec.tdefKvs d) := by
  cases d with
  | schema desc ds ots =>
    obtain ⟨hdesc, hds, hots⟩ := h
    have hB := lexOpt_blockItems Exec.printOt Exec.otKvs Exec.otsKvs rfl (fun _ _ => rfl) ots
      (fun a ha => printOt_ne_nil a (hots a ha).1) (fun a ha k => lexes_ot a (hots a ha) k) k
    have := lexes_kwForm w hw hT hC k desc hdesc (S "schema") (by decide)
      [(Exec.printDirs w ds, Exec.dirsKvs ds), (block (ots.map Exec.printOt), Exec.bracketKvs .braceL .braceR (Exec.otsKvs ots) ots.isEmpty)]
      (by
        intro p hp
        simp only [List.mem_cons, List.not_mem_nil, or_false] at hp
        rcases hp with rfl | rfl
        · exact lexes_dirs w hw hT hC true ds hds k
        · exact hB)
    simpa [Exec.printTDef, Exec.tdefKvs, List.append_assoc] using this
  | scalar desc n ds =>
    obtain ⟨hdesc, hn, hds⟩ := h
    have := lexes_kwForm w hw hT hC k desc hdesc (S "scalar") (by decide)
      [(n, [(.name, some n)]), (Exec.printDirs w ds, Exec.dirsKvs ds)]
      (by
        intro p hp
        simp only [List.mem_cons, List.not_mem_nil, or_false] at hp
        rcases hp with rfl | rfl
        · exact lexOpt_validName k n hn
        · exact lexes_dirs w hw hT hC true ds hds k)
    simpa [Exec.printTDef, Exec.tdefKvs, List.append_assoc] using this
  | object iface desc n ifs ds fs =>
    obtain ⟨hdesc, hn, hifs, hds, hfs⟩ := h
    have hB := lexOpt_blockItems (Exec.printFd w) Exec.fdKvs Exec.fdsKvs rfl (fun _ _ => rfl) fs
      (fun a ha => printFd_ne_nil w a (validName_ne_nil (hfs a ha).2.1))
      (fun a ha k => lexes_fd w hw hT hC a (hfs a ha) k) k
    have := lexes_kwForm w hw hT hC k desc hdesc (Exec.objKw iface) (objKw_valid iface)
      [(n, [(.name, some n)]), (wrap (S "implements ") (join ifs (S " & ")), Exec.implKvs ifs),
        (Exec.printDirs w ds, Exec.dirsKvs ds), (block (fs.map (Exec.printFd w)), Exec.bracketKvs .braceL .braceR (Exec.fdsKvs fs) fs.isEmpty)]
      (by
        intro p hp
        simp only [List.mem_cons, List.not_mem_nil, or_false] at hp
        rcases hp with rfl | rfl | rfl | rfl
        · exact lexOpt_validName k n hn
        · exact lexOpt_impl k ifs hifs
        · exact lexes_dirs w hw hT hC true ds hds k
        · exact hB)
    simpa [Exec.printTDef, Exec.tdefKvs, List.append_assoc] using this
  | union desc n ds ts =>
    obtain ⟨hdesc, hn, hds, hts⟩ := h
    have := lexes_kwForm w hw hT hC k desc hdesc (S "union") (by decide)
      [(n, [(.name, some n)]), (Exec.printDirs w ds, Exec.dirsKvs ds),
        (wrap (S "= ") (join ts (S " | ")), Exec.unionKvs ts)]
      (by
        intro p hp
        simp only [List.mem_cons, List.not_mem_nil, or_false] at hp
        rcases hp with rfl | rfl | rfl
        · exact lexOpt_validName k n hn
        · exact lexes_dirs w hw hT hC true ds hds k
        · exact lexOpt_unionTypes k ts hts)
    simpa [Exec.printTDef, Exec.tdefKvs, List.append_assoc] using this
  | enum desc n ds vs =>
    obtain ⟨hdesc, hn, hds, hvs⟩ := h
    have hB := lexOpt_blockItems (Exec.printEv w) Exec.evKvs Exec.evsKvs rfl (fun _ _ => rfl) vs
      (fun a ha => printEv_ne_nil w a (validName_ne_nil (hvs a ha).2.1))
      (fun a ha k => lexes_ev w hw hT hC a (hvs a ha) k) k
    have := lexes_kwForm w hw hT hC k desc hdesc (S "enum") (by decide)
      [(n, [(.name, some n)]), (Exec.printDirs w ds, Exec.dirsKvs ds), (block (vs.map (Exec.printEv w)), Exec.bracketKvs .braceL .braceR (Exec.evsKvs vs) vs.isEmpty)]
      (by
        intro p hp
        simp only [List.mem_cons, List.not_mem_nil, or_false] at hp
        rcases hp with rfl | rfl | rfl
        · exact lexOpt_validName k n hn
        · exact lexes_dirs w hw hT hC true ds hds k
        · exact hB)
    simpa [Exec.printTDef, Exec.tdefKvs, List.append_assoc] using this
  | input desc n ds fs =>
    obtain ⟨hdesc, hn, hds, hfs⟩ := h
    have hB := lexOpt_blockItems (Exec.printIvd w) Exec.ivdKvs Exec.ivdsKvs rfl (fun _ _ => rfl) fs
      (fun a ha => printIvd_ne_nil w a (validName_ne_nil (hfs a ha).2.1))
      (fun a ha k => lexes_ivd w hw hT hC a (hfs a ha) k) k
    have := lexes_kwForm w hw hT hC k desc hdesc (S "input") (by decide)
      [(n, [(.name, some n)]), (Exec.printDirs w ds, Exec.dirsKvs ds), (block (fs.map (Exec.printIvd w)), Exec.bracketKvs .braceL .braceR (Exec.ivdsKvs fs) fs.isEmpty)]
      (by
        intro p hp
        simp only [List.mem_cons, List.not_mem_nil, or_false] at hp
        rcases hp with rfl | rfl | rfl
        · exact lexOpt_validName k n hn
        · exact lexes_dirs w hw hT hC true ds hds k
        · exact hB)
    simpa [Exec.printTDef, Exec.tdefKvs, List.append_assoc] using this
  | directive desc n args ds rep locs =>
    obtain ⟨hdesc, hn, hargs, hds, _, hlne, hlocs⟩ := h
    have hlw : Exec.namesWf locs := fun l hl => locations_valid l (hlocs l hl)
    have hA := lexOpt_argDefs w hw hT hC args hargs k
    have h0 := Lexes.append_ign (Lexes.name (S "directive") (by decide)) ign32 (by simp)
    have h1 := Lexes.append_l h0 (Lexes.punct 64 .at (by decide))
    have h2 := Lexes.append_l h1 (lexes_name_paren n hn _ _ hA (indentLF_head40 k _ (argDefs_head _)))
    have h3 := lexes_optSpace h2 (lexes_dirs w hw hT hC true ds hds k)
    have hR : LexOpt (if rep then S "repeatable" else []) (if rep then [(.name, some (S "repeatable"))] else []) := by
      cases rep
      · left; simp
      · right; exact ⟨by decide, Lexes.name _ (by decide)⟩
    have h4 := lexes_optSpace h3 hR
    have h5 := Lexes.append_ign h4 ign32 (by simp)
    have h6 := Lexes.append_l h5 (Lexes.name (S "on") (by decide))
    have h7 := Lexes.append_ign h6 ign32 (by simp)
    have h8 := Lexes.append_l h7 (lexes_delim 124 .pipe (by decide) locs hlne hlw)
    have h9 := lexes_descPre w hw hT hC desc hdesc k h8
    have hrep : (if rep then S " repeatable" else []) = wrap [32] (if rep then S "repeatable" else []) := by
      cases rep
      · simp [wrap]
      · simp only [↓reduceIte]; decide
    simp only [Exec.printTDef, Exec.tdefKvs, Exec.descPre]
    rw [hrep, S_directive, S_on_sp, S_pipe, join_eq_joinWith _ _ (names_ne_nil locs hlw)]
    simp only [indentLF_append, indentLF_wrap, indentLF_no10 k _ (name_no10 hn),
      indentLF_no10 k _ (delim_no10 124 (by decide) locs hlw)]
    have e1 : indentLF k (S "directive") = S "directive" := indentLF_no10 k _ (by decide)
    have e2 : indentLF k (S "on") = S "on" := indentLF_no10 k _ (by decide)
    have e3 : indentLF k (if rep then S "repeatable" else []) = (if rep then S "repeatable" else []) := by
      cases rep <;> simp [indentLF]
      exact indentLF_no10 k _ (by decide)
    rw [e1, e2, e3]
    simpa [indentLF, indentLF_wrap, List.append_assoc] using h9

end


section
variable (w : Widths) (hw : 4 ≤ w.object)
variable (hT : tableOK Generated.escapeTable = true) (hC : tableComplete Generated.escapeTable = true)
include hw hT hC

theorem lexes_edef (d : EDef) (h : Exec.edefWf d) (k : Nat) :
    Lexes true (indentLF k (Exec.printEDef w d)) (Exec.edefKvs d) := by
  have hb := lexes_tdef w hw hT hC false d.base (edef_base_wfL false d h) k
  have h0 := Lexes.append_ign (Lexes.name (S "extend") (by decide)) ign32 (by simp)
  have := Lexes.append_l h0 hb
  unfold Exec.printEDef Exec.edefKvs
  rw [S_extend_sp, indentLF_append, indentLF_no10 k _ (by decide)]
  simpa using this

end

end Gql.Text
