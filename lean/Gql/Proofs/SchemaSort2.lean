import Gql.Proofs.SchemaSort1
namespace Gql.Types
open Gql Gql.Generated Std

theorem natLe_trans (a b c : Str) (h1 : natLe a b = true) (h2 : natLe b c = true) : natLe a c = true := by
  unfold natLe at *
  exact TransCmp.isLE_trans h1 h2

theorem natLe_total (a b : Str) : (natLe a b || natLe b a) = true := by
  unfold natLe
  have h := OrientedCmp.eq_swap (cmp := compare) (a := natKey a) (b := natKey b)
  cases hc : compare (natKey b) (natKey a) <;> simp [hc] at h ⊢ <;> simp [h]

theorem sortByName_sorted {α : Type} (key : α → Str) (xs : List α) :
    (sortByName key xs).Pairwise (fun a b => natLe (key a) (key b) = true) := by
  unfold sortByName
  apply List.pairwise_mergeSort
  · intro a b c; exact natLe_trans _ _ _
  · intro a b; exact natLe_total _ _

theorem sortByName_idem {α : Type} (key : α → Str) (xs : List α) :
    sortByName key (sortByName key xs) = sortByName key xs := by
  have := sortByName_sorted key xs
  unfold sortByName at *
  exact List.mergeSort_of_pairwise this

/-- Sorting the `g`-images again (with `g` idempotent) changes nothing. -/
theorem sortMap_idem {α : Type} (key : α → Str) (g : α → α) (hg : ∀ x, g (g x) = g x) (xs : List α) :
    sortByName key ((sortByName key (xs.map g)).map g) = sortByName key (xs.map g) := by
  have : (sortByName key (xs.map g)).map g = sortByName key (xs.map g) := by
    conv => rhs; rw [← List.map_id (sortByName key (xs.map g))]
    apply List.map_congr_left
    intro x hx
    obtain ⟨y, _, rfl⟩ := List.mem_map.mp ((mem_sortByName key _ x).mp hx)
    simp [hg]
  rw [this, sortByName_idem]

theorem sortArgs_idem (as : List Arg) : sortArgs (sortArgs as) = sortArgs as := sortByName_idem _ _

theorem sortField_idem (f : Field) : sortField (sortField f) = sortField f := by
  simp [sortField, sortArgs_idem]

theorem sortFields_idem (fs : List Field) : sortFields (sortFields fs) = sortFields fs :=
  sortMap_idem Field.name sortField sortField_idem fs

theorem sortType_idem (t : TypeDef) : sortType (sortType t) = sortType t := by
  cases t <;> simp [sortType, sortByName_idem, sortFields_idem, sortArgs_idem]

theorem sortDirective_idem (d : Directive) : sortDirective (sortDirective d) = sortDirective d := by
  simp [sortDirective, sortByName_idem, sortArgs_idem]

/-- **Sorting twice equals sorting once.** -/
theorem sort_idem (s : Schema) : sortSchema (sortSchema s) = sortSchema s := by
  simp only [sortSchema, sortMap_idem TypeDef.name sortType sortType_idem,
    sortMap_idem Directive.name sortDirective sortDirective_idem]

end Gql.Types
