import Gql.Types.SchemaValidate
/-
Lemmas for C20, part 3: the recursion budgets of the two circular-reference validators are
never exhausted (every recursive call marks a new type / a new field visited).
-/
namespace Gql.Types
open Gql

theorem countP_lt_of_mem {α : Type} (p q : α → Bool) : ∀ (l : List α) (a : α),
    (∀ x, q x = true → p x = true) → a ∈ l → p a = true → q a = false →
    l.countP q < l.countP p
  | [], _, _, h, _, _ => by simp at h
  | x :: xs, a, hqp, h, hpa, hqa => by
    have hle : xs.countP q ≤ xs.countP p := List.countP_mono_left (fun y _ hy => hqp y hy)
    rcases List.mem_cons.mp h with rfl | hm
    · simp only [List.countP_cons, hpa, hqa]; simp; omega
    · have ih := countP_lt_of_mem p q xs a hqp hm hpa hqa
      simp only [List.countP_cons]
      by_cases hq : q x = true
      · simp [hq, hqp x hq]; omega
      · simp only [Bool.not_eq_true] at hq
        simp only [hq]
        by_cases hp : p x = true <;> simp [hp] <;> omega

theorem lookup_mem {s : RawSchema} {n : Str} {d : TypeDef} (h : s.lookup n = some d) :
    ∃ t ∈ s.types, t.name = n ∧ t.defn = d := by
  unfold RawSchema.lookup at h
  cases hf : s.types.find? (fun t => t.name == n) with
  | none => simp [hf] at h
  | some t =>
    simp only [hf, Option.map_some, Option.some.injEq] at h
    have h1 := List.find?_some hf
    have h2 := List.mem_of_find?_eq_some hf
    exact ⟨t, h2, by simpa using h1, h⟩

/-! ### non-null references -/

/-- type names not yet visited -/
def nnUnvisited (s : RawSchema) (st : NNState) : Nat :=
  (s.types.map (·.name)).countP (fun n => !st.visited.contains n)

/-- nothing was cut short, and the visited set only grew from `base` -/
def NNInv (base : List Str) (st : NNState) : Prop :=
  st.outOfFuel = false ∧ ∀ n ∈ base, n ∈ st.visited

theorem nnUnvisited_mono (s : RawSchema) {st st' : NNState}
    (h : ∀ n ∈ st.visited, n ∈ st'.visited) : nnUnvisited s st' ≤ nnUnvisited s st := by
  unfold nnUnvisited
  apply List.countP_mono_left
  intro n _ hn
  simp only [List.contains_eq_mem, Bool.not_eq_eq_eq_not, Bool.not_true, decide_eq_false_iff_not] at hn ⊢
  exact fun hc => hn (h n hc)

theorem nnCall_inv (s : RawSchema) : ∀ (fuel : Nat) (tn : Str) (st : NNState),
    nnUnvisited s st < fuel → st.outOfFuel = false → NNInv st.visited (nnCall s fuel tn st)
  | 0, _, _, h, _ => by omega
  | fuel + 1, tn, st, hfuel, hoof => by
    unfold nnCall
    by_cases hv : st.visited.contains tn = true
    · simp only [hv, ↓reduceIte]; exact ⟨hoof, fun n hn => hn⟩
    · simp only [hv, Bool.false_eq_true, ↓reduceIte]
      split
      · rename_i fields oneOf hl
        -- the state after marking `tn`
        suffices key : ∀ st1 : NNState, st1.visited = tn :: st.visited → st1.outOfFuel = false →
            NNInv st.visited
              { (fields.foldl (nnField s (nnCall s fuel) tn) st1) with
                index := (fields.foldl (nnField s (nnCall s fuel) tn) st1).index.filter
                  (fun e => !(e.1 == tn)) } from key _ rfl hoof
        intro st1 hvis1 hoof1
        have hlt : nnUnvisited s st1 < nnUnvisited s st := by
          obtain ⟨t, ht, hn, _⟩ := lookup_mem hl
          unfold nnUnvisited
          apply countP_lt_of_mem _ _ _ tn
          · intro x hx
            simp only [hvis1, List.contains_eq_mem, List.mem_cons, Bool.not_eq_eq_eq_not, Bool.not_true,
              decide_eq_false_iff_not, not_or] at hx ⊢
            exact hx.2
          · exact List.mem_map.mpr ⟨t, ht, hn⟩
          · simpa using hv
          · simp [hvis1]
        -- the loop over the fields keeps the invariant
        have hfold : ∀ (fs : List InputValue) (acc : NNState), NNInv st1.visited acc →
            NNInv st1.visited (fs.foldl (nnField s (nnCall s fuel) tn) acc) := by
          intro fs
          induction fs with
          | nil => intro acc h; exact h
          | cons f fs ih =>
            intro acc hacc
            apply ih
            unfold nnField
            split
            · exact hacc
            · rename_i m _
              simp only
              split
              · -- recursive call
                have hmono : nnUnvisited s { acc with path := acc.path ++ [dot tn f.name] } ≤ nnUnvisited s st1 :=
                  nnUnvisited_mono s hacc.2
                have := nnCall_inv s fuel m { acc with path := acc.path ++ [dot tn f.name] }
                  (by omega) hacc.1
                exact ⟨this.1, fun n hn => this.2 n (hacc.2 n hn)⟩
              · exact hacc
        have := hfold fields st1 ⟨hoof1, fun n hn => hn⟩
        refine ⟨this.1, fun n hn => this.2 n ?_⟩
        rw [hvis1]; exact List.mem_cons_of_mem _ hn
      · exact ⟨hoof, fun n hn => hn⟩

theorem nnUnvisited_le (s : RawSchema) (st : NNState) : nnUnvisited s st ≤ s.types.length := by
  unfold nnUnvisited
  exact Nat.le_trans List.countP_le_length (by simp)

/-- The non-null circular-reference validator never exhausts `nnFuel`. -/
theorem runNN_terminates (s : RawSchema) (tn : Str) (st : VState) (h : st.outOfFuel = false) :
    (runNN s tn st).2.outOfFuel = false := by
  unfold runNN
  have := nnCall_inv s (nnFuel s) tn ⟨st.nnVisited, [], [], [], false⟩
    (by unfold nnFuel; have := nnUnvisited_le s ⟨st.nnVisited, [], [], [], false⟩; omega) rfl
  simp [h, this.1]

end Gql.Types
