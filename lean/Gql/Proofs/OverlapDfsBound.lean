import Gql.Proofs.OverlapDfsUniv
/-! C14, oracle = specification, part B2: the fuel of `Spec.specConflictB` is enough.

* a merged set has at most `3·F` fields (`F = countFields d`): the expansion with one shared
  visited set lists the own fields of the two sub-selections and the own fields of every fragment
  at most once (`ExpLen`, a budget argument on the fragments not yet visited — no acyclicity);
* so a state has at most `(3F)²` successors;
* the keys of document states lie in a list of `2·F²` keys. -/
namespace Gql.Exec
open Overlap

/-! ### weighted filters -/

theorem wfilter_mono {α : Type} (f : α → Nat) (p q : α → Bool) (l : List α)
    (h : ∀ x ∈ l, q x = true → p x = true) :
    ((l.filter q).map f).sum ≤ ((l.filter p).map f).sum := by
  induction l with
  | nil => simp
  | cons x xs ih =>
    have ih' := ih (fun y hy => h y (List.mem_cons_of_mem _ hy))
    simp only [List.filter_cons]
    by_cases hq : q x = true
    · have hp := h x List.mem_cons_self hq
      simp only [hq, hp, if_true, List.map_cons, List.sum_cons]; omega
    · have hq' : q x = false := by simpa using hq
      by_cases hp : p x = true
      · simp only [hq', hp, if_true, Bool.false_eq_true, if_false, List.map_cons, List.sum_cons]
        omega
      · have hp' : p x = false := by simpa using hp
        simp only [hq', hp', Bool.false_eq_true, if_false]
        exact ih'

theorem wfilter_lt {α : Type} (f : α → Nat) (p q : α → Bool) (l : List α)
    (h : ∀ x ∈ l, q x = true → p x = true) {y : α} (hy : y ∈ l) (hpy : p y = true)
    (hqy : q y = false) : ((l.filter q).map f).sum + f y ≤ ((l.filter p).map f).sum := by
  induction l with
  | nil => cases hy
  | cons x xs ih =>
    have hmono := wfilter_mono f p q xs (fun z hz => h z (List.mem_cons_of_mem _ hz))
    simp only [List.filter_cons]
    rcases List.mem_cons.1 hy with rfl | hy'
    · simp only [hpy, hqy, if_true, Bool.false_eq_true, if_false, List.map_cons, List.sum_cons]
      omega
    · have ih' := ih (fun z hz => h z (List.mem_cons_of_mem _ hz)) hy'
      by_cases hq : q x = true
      · have hp := h x List.mem_cons_self hq
        simp only [hq, hp, if_true, List.map_cons, List.sum_cons]; omega
      · have hq' : q x = false := by simpa using hq
        by_cases hp : p x = true
        · simp only [hq', hp, if_true, Bool.false_eq_true, if_false, List.map_cons, List.sum_cons]
          omega
        · have hp' : p x = false := by simpa using hp
          simp only [hq', hp', Bool.false_eq_true, if_false]
          exact ih'

/-! ### the budget of an expansion -/

/-- number of own fields of a fragment definition -/
def fragW (fr : FragDef) : Nat := (selsFields fr.ss.sels).length

/-- own fields of the fragment definitions whose name was not visited yet -/
def remW (d : Doc) (vis : List String) : Nat :=
  ((d.frags.filter (fun fr => !vis.contains fr.name)).map fragW).sum

theorem remW_mono (d : Doc) {vis vis' : List String} (h : vis ⊆ vis') :
    remW d vis' ≤ remW d vis := by
  apply wfilter_mono
  intro x _ hx
  simp only [Bool.not_eq_true', List.contains_eq_mem, decide_eq_false_iff_not] at hx ⊢
  exact fun hm => hx (h hm)

theorem remW_cons (d : Doc) {vis : List String} {n : String} {fr : FragDef}
    (hg : d.getFragment n = some fr) (hv : n ∉ vis) :
    remW d (n :: vis) + fragW fr ≤ remW d vis := by
  have hname : fr.name = n := (getFragment_name hg).1
  have hmem : fr ∈ d.frags := List.mem_reverse.1 (List.mem_of_find?_eq_some hg)
  apply wfilter_lt fragW _ _ _ _ hmem
  · simp [hname, hv]
  · simp [hname]
  · intro x _ hx
    simp only [Bool.not_eq_true', List.contains_eq_mem, decide_eq_false_iff_not, List.mem_cons,
      not_or] at hx ⊢
    exact hx.2

/-- the fields returned, plus what is left of the budget, fit in the own fields `w` of the
selection plus the budget before -/
def ExpLen (d : Doc) (w : Nat) (vis : List String) (r : List Spec.FieldInst × List String) :
    Prop :=
  r.1.length + remW d r.2 ≤ w + remW d vis

section rec
variable (s : Schema) (d : Doc) (rec : Spec.Expander)
  (hrec : ∀ p xs vis, ExpLen d (selsFields xs).length vis (rec p xs vis))
include hrec

mutual
theorem expandSel_len : ∀ (x : Sel) (p : Option String) (vis : List String),
    ExpLen d x.fields.length vis (Spec.expandSel s d rec p x vis)
  | .field id al name args st hasSub subId sub, p, vis => by
    simp [Spec.expandSel, Sel.fields, ExpLen]
  | .inline tc ssId sels, p, vis => by
    cases tc <;> simp only [Spec.expandSel, Sel.fields] <;> exact expandSels_len sels _ vis
  | .spread name, p, vis => by
    simp only [Spec.expandSel, Sel.fields]
    by_cases hc : vis.contains name = true
    · simp only [hc, if_true, ExpLen]
      exact Nat.le_refl _
    · have hnm : name ∉ vis := by simpa using hc
      simp only [hc, Bool.false_eq_true, if_false]
      cases hg : d.getFragment name with
      | none =>
        simp only [ExpLen, List.length_nil, Nat.zero_add]
        exact remW_mono d (fun _ h => List.mem_cons_of_mem _ h)
      | some fr =>
        simp only
        have R := hrec (s.typeFromAst fr.typeCond) fr.ss.sels (name :: vis)
        have C := remW_cons d hg hnm
        simp only [ExpLen, fragW, List.length_nil, Nat.zero_add] at R C ⊢
        omega
theorem expandSels_len : ∀ (xs : List Sel) (p : Option String) (vis : List String),
    ExpLen d (selsFields xs).length vis (Spec.expandSels s d rec p xs vis)
  | [], p, vis => by simp [Spec.expandSels, selsFields, ExpLen]
  | x :: xs, p, vis => by
    have h1 := expandSel_len x p vis
    have h2 := expandSels_len xs p (Spec.expandSel s d rec p x vis).2
    simp only [ExpLen, Spec.expandSels, selsFields, List.length_append] at h1 h2 ⊢
    omega
end
end rec

theorem expandLvl_len (s : Schema) (d : Doc) : ∀ (n : Nat) (p : Option String) (xs : List Sel)
    (vis : List String), ExpLen d (selsFields xs).length vis (Spec.expandLvl s d n p xs vis) := by
  intro n
  induction n with
  | zero => intro p xs vis; simp [Spec.expandLvl, ExpLen]
  | succ n ih =>
    intro p xs vis
    simp only [Spec.expandLvl]
    exact expandSels_len s d _ ih xs p vis

theorem expandWith_len (s : Schema) (d : Doc) (p : Option String) (xs : List Sel)
    (vis : List String) : ExpLen d (selsFields xs).length vis (Spec.expandWith s d p xs vis) :=
  expandLvl_len s d _ p xs vis

/-! ### counting field nodes -/

mutual
theorem Sel.fields_length : ∀ (x : Sel), x.fields.length ≤ Spec.countFieldsSel x
  | .field .. => by simp [Sel.fields, Spec.countFieldsSel]
  | .inline _ _ sels => by simpa [Sel.fields, Spec.countFieldsSel] using selsFields_length sels
  | .spread _ => by simp [Sel.fields]
theorem selsFields_length : ∀ (xs : List Sel), (selsFields xs).length ≤ Spec.countFieldsSels xs
  | [] => by simp [selsFields]
  | x :: xs => by
    have h1 := Sel.fields_length x
    have h2 := selsFields_length xs
    simp only [selsFields, List.length_append, Spec.countFieldsSels]
    omega
end

mutual
theorem Sel.subSets_count : ∀ (x : Sel) (ss : SelSet), ss ∈ x.subSets →
    Spec.countFieldsSels ss.sels ≤ Spec.countFieldsSel x
  | .field id al name args st hasSub subId sub, ss, h => by
    simp only [Sel.subSets, List.mem_append] at h
    simp only [Spec.countFieldsSel]
    rcases h with h | h
    · cases hasSub with
      | false => simp at h
      | true =>
        simp only [if_true, List.mem_singleton] at h
        subst h
        simp only
        omega
    · have := selsSubSets_count sub ss h
      omega
  | .inline tc ssId sels, ss, h => by
    simp only [Sel.subSets, List.mem_cons] at h
    simp only [Spec.countFieldsSel]
    rcases h with rfl | h
    · exact Nat.le_refl _
    · exact selsSubSets_count sels ss h
  | .spread _, ss, h => by simp [Sel.subSets] at h
theorem selsSubSets_count : ∀ (xs : List Sel) (ss : SelSet), ss ∈ selsSubSets xs →
    Spec.countFieldsSels ss.sels ≤ Spec.countFieldsSels xs
  | [], ss, h => by simp [selsSubSets] at h
  | x :: xs, ss, h => by
    simp only [selsSubSets, List.mem_append] at h
    simp only [Spec.countFieldsSels]
    rcases h with h | h
    · have := Sel.subSets_count x ss h
      omega
    · have := selsSubSets_count xs ss h
      omega
end

theorem countFields_cons (df : Defn) (rest : Doc) :
    Spec.countFields (df :: rest) = Spec.countFieldsSels df.ss.sels + Spec.countFields rest := by
  cases df <;> simp [Spec.countFields, Defn.ss]

theorem countFields_defn {d : Doc} {df : Defn} (h : df ∈ d) :
    Spec.countFieldsSels df.ss.sels ≤ Spec.countFields d := by
  induction d with
  | nil => cases h
  | cons x rest ih =>
    rw [countFields_cons]
    rcases List.mem_cons.1 h with rfl | h
    · omega
    · have := ih h
      omega

theorem countFields_set {d : Doc} {ss : SelSet} (h : ss ∈ d.allSets) :
    Spec.countFieldsSels ss.sels ≤ Spec.countFields d := by
  obtain ⟨df, hdf, hcase⟩ := Doc.mem_allSets h
  have h1 := countFields_defn hdf
  rcases hcase with rfl | hin
  · exact h1
  · exact Nat.le_trans (selsSubSets_count _ ss hin) h1

theorem filter_const_true {α : Type} (l : List α) : l.filter (fun _ => true) = l := by
  induction l with
  | nil => rfl
  | cons x xs ih => simp [List.filter_cons, ih]

theorem fragsW_le (d : Doc) : (d.frags.map fragW).sum ≤ Spec.countFields d := by
  induction d with
  | nil => simp [Doc.frags]
  | cons df rest ih =>
    rw [countFields_cons]
    cases df with
    | op root ss =>
      have : Doc.frags (Defn.op root ss :: rest) = Doc.frags rest := by simp [Doc.frags]
      rw [this]
      omega
    | frag f =>
      have : Doc.frags (Defn.frag f :: rest) = f :: Doc.frags rest := by simp [Doc.frags]
      rw [this]
      have := selsFields_length f.ss.sels
      simp only [List.map_cons, List.sum_cons, fragW, Defn.ss] at ih ⊢
      omega

theorem remW_nil_le (d : Doc) : remW d [] ≤ Spec.countFields d := by
  have e : remW d [] = (d.frags.map fragW).sum := by
    simp only [remW, List.contains_nil, Bool.not_false, filter_const_true]
  rw [e]
  exact fragsW_le d

/-! ### a merged set has at most `3·F` fields -/

theorem subSels_count {s : Schema} {d : Doc} {a : Spec.FieldInst} (ha : DocInst s d a) :
    (selsFields (if a.node.hasSub = true then a.node.sub else [])).length ≤
      Spec.countFields d := by
  cases hs : a.node.hasSub with
  | false => simp [selsFields]
  | true =>
    simp only [if_true]
    have h1 : a.node.subSet ∈ d.allSets := Doc.typedSets_allSets (ha.sub hs)
    exact Nat.le_trans (selsFields_length _) (countFields_set h1)

theorem mergedFields_length {s : Schema} {d : Doc} {a b : Spec.FieldInst} (ha : DocInst s d a)
    (hb : DocInst s d b) : (Spec.mergedFields s d a b).length ≤ 3 * Spec.countFields d := by
  simp only [Spec.mergedFields, List.length_append]
  have HA := expandWith_len s d ((Spec.fieldType s a.parent a.node.name).map Ty.named)
    (if a.node.hasSub = true then a.node.sub else []) []
  have HB := expandWith_len s d ((Spec.fieldType s b.parent b.node.name).map Ty.named)
    (if b.node.hasSub = true then b.node.sub else [])
    (Spec.expandWith s d ((Spec.fieldType s a.parent a.node.name).map Ty.named)
      (if a.node.hasSub = true then a.node.sub else []) []).2
  have wa := subSels_count ha
  have wb := subSels_count hb
  have wf := remW_nil_le d
  simp only [ExpLen] at HA HB
  omega

theorem pairsOf_length {α : Type} (l : List α) : (Spec.pairsOf l).length ≤ l.length * l.length := by
  induction l with
  | nil => simp [Spec.pairsOf]
  | cons x xs ih =>
    simp only [Spec.pairsOf, List.length_append, List.length_map, List.length_cons,
      Nat.add_mul, Nat.mul_add, Nat.one_mul, Nat.mul_one]
    omega

theorem succs_length {s : Schema} {d : Doc} {x : Spec.State} (hx : DocState s d x) :
    (Spec.succs s d x).length ≤ 9 * (Spec.countFields d * Spec.countFields d) := by
  simp only [Spec.succs]
  split
  · simp
  · rw [List.length_map]
    have h1 : (Spec.sameNamePairs (Spec.mergedFields s d x.a x.b)).length ≤
        (Spec.pairsOf (Spec.mergedFields s d x.a x.b)).length := List.length_filter_le _ _
    have h2 := pairsOf_length (Spec.mergedFields s d x.a x.b)
    have h3 := mergedFields_length hx.1 hx.2
    have h4 := Nat.mul_le_mul h3 h3
    have h5 : 3 * Spec.countFields d * (3 * Spec.countFields d) =
        9 * (Spec.countFields d * Spec.countFields d) := by
      rw [Nat.mul_mul_mul_comm]
    omega

/-! ### the keys of document states -/

def allKeys (ids : List Nat) : List Spec.Key :=
  ids.flatMap (fun i => ids.flatMap (fun j => [(i, j, true), (i, j, false)]))

theorem mem_allKeys {ids : List Nat} {i j : Nat} (b : Bool) (hi : i ∈ ids) (hj : j ∈ ids) :
    (i, j, b) ∈ allKeys ids := by
  simp only [allKeys, List.mem_flatMap]
  exact ⟨i, hi, j, hj, by cases b <;> simp⟩

theorem length_flatMap_const {α β : Type} (l : List α) (g : α → List β) (c : Nat)
    (h : ∀ x, (g x).length = c) : (l.flatMap g).length = l.length * c := by
  induction l with
  | nil => simp
  | cons x xs ih =>
    simp only [List.flatMap_cons, List.length_append, ih, h, List.length_cons, Nat.succ_mul]
    omega

theorem allKeys_length (ids : List Nat) : (allKeys ids).length = ids.length * (ids.length * 2) := by
  unfold allKeys
  apply length_flatMap_const
  intro i
  apply length_flatMap_const
  intro j
  rfl

theorem DocInst.id_mem {s : Schema} {d : Doc} {a : Spec.FieldInst} (h : DocInst s d a) :
    a.node.id ∈ d.fieldIds := by
  rw [← Doc.allInsts_ids s d]
  exact List.mem_map.2 ⟨a, h.mem_allInsts, rfl⟩

theorem fieldIds_length (s : Schema) (d : Doc) : d.fieldIds.length ≤ Spec.countFields d := by
  rw [← Doc.allInsts_ids s d, List.length_map]
  exact Doc.allInsts_length s d

/-- **The fuel is enough**: `specConflictB` always answers. -/
theorem specConflictB_isSome (s : Schema) (d : Doc) : (Spec.specConflictB s d).isSome = true := by
  unfold Spec.specConflictB
  apply dfs_isSome s d (DocState s d) (allKeys d.fieldIds)
    (9 * (Spec.countFields d * Spec.countFields d)) (fun x hx => hx.succs)
    (fun x hx => ⟨mem_allKeys x.full hx.1.id_mem hx.2.id_mem, succs_length hx⟩) _ _ _
    (fun x hx => DocState.init hx)
  have h1 : unseen (allKeys d.fieldIds) [] ≤ (allKeys d.fieldIds).length :=
    List.length_filter_le _ _
  rw [allKeys_length] at h1
  have h2 := fieldIds_length s d
  have h3 : d.fieldIds.length * (d.fieldIds.length * 2) ≤
      Spec.countFields d * (Spec.countFields d * 2) :=
    Nat.mul_le_mul h2 (Nat.mul_le_mul_right _ h2)
  have h4 : unseen (allKeys d.fieldIds) [] * (9 * (Spec.countFields d * Spec.countFields d) + 1) ≤
      (2 * (Spec.countFields d * Spec.countFields d) + 1) *
        (9 * (Spec.countFields d * Spec.countFields d) + 1) := by
    apply Nat.mul_le_mul_right
    have : Spec.countFields d * (Spec.countFields d * 2) =
        2 * (Spec.countFields d * Spec.countFields d) := by
      rw [← Nat.mul_assoc, Nat.mul_comm]
    omega
  simp only [Spec.specFuel]
  omega

/-- **The executable oracle decides the specification.** -/
theorem specConflictB_iff {s : Schema} {d : Doc} (hF : d.FieldIdsNodup) :
    Spec.specConflictB s d = some true ↔ Spec.SpecConflict s d := by
  have hs := specConflictB_isSome s d
  cases hb : Spec.specConflictB s d with
  | none => rw [hb] at hs; cases hs
  | some b =>
    have := dfs_init_iff hF (Spec.specFuel s d) b hb
    rw [← this]
    simp

/-- soundness of the oracle needs no hypothesis on identities -/
theorem specConflictB_sound {s : Schema} {d : Doc} (h : Spec.specConflictB s d = some true) :
    Spec.SpecConflict s d :=
  dfs_sound s d _ [] _ h

end Gql.Exec
