import Gql.Proofs.BlockRoundtrip
/-!
C08-2, forcedness: every value the lexer produces for a block string literal is
`BlockRepresentable` — the hypothesis of `block_roundtrip` excludes nothing that a parsed
document can contain.

Part 1: the raw lines collected by `read_block_string` contain no line terminator.
-/
namespace Gql.Text

/-- No line feed and no carriage return. -/
def NoNL (l : List Nat) : Prop := ∀ c ∈ l, c ≠ 10 ∧ c ≠ 13

theorem NoNL_nil : NoNL [] := by intro c hc; simp at hc

theorem NoNL_append {a b : List Nat} (ha : NoNL a) (hb : NoNL b) : NoNL (a ++ b) := by
  intro c hc
  rcases List.mem_append.mp hc with h | h
  · exact ha c h
  · exact hb c h

theorem slice_snoc2 (body : List Nat) (cs pos c d : Nat) (h : cs ≤ pos) (hc : body[pos]? = some c)
    (hd : body[pos + 1]? = some d) : slice body cs (pos + 2) = slice body cs pos ++ [c, d] := by
  have h1 := slice_snoc body cs pos c h hc
  have h2 := slice_snoc body cs (pos + 1) d (by omega) hd
  rw [show pos + 2 = pos + 1 + 1 by omega, h2, h1]
  simp

theorem slice_eq_three {body : List Nat} {p : Nat} (h : slice body p (p + 3) = [34, 34, 34]) :
    NoNL (slice body p (p + 3)) := by
  rw [h]; intro c hc; simp at hc; subst hc; decide

/-- Invariant of the block string loop. -/
theorem blockLoop_lines (body : List Nat) (st : LexState) (start : Nat) :
    ∀ (n pos cs ls : Nat) (cl : List Nat) (bl : List (List Nat)) (tok : Token) (st' : LexState),
      body.length - pos ≤ n → cs ≤ pos →
      (∀ l ∈ bl, NoNL l) → NoNL (cl ++ slice body cs pos) →
      readBlockStringLoop body st start pos cs ls cl bl = .ok (tok, st') →
      ∃ lines, tok.value = some (joinLines (dedentBlockStringLines lines)) ∧ ∀ l ∈ lines, NoNL l := by
  intro n
  induction n with
  | zero =>
    intro pos cs ls cl bl tok st' hn _ _ _ h
    rw [readBlockStringLoop] at h
    have : ¬ pos < body.length := by omega
    simp [this] at h
  | succ n ih =>
    intro pos cs ls cl bl tok st' hn hcs hbl hcur h
    rw [readBlockStringLoop] at h
    by_cases hlt : pos < body.length
    · have hget : body[pos]? = some body[pos] := by simp [hlt]
      have hidx : (Out.index body pos : LexOut Nat) = .ok body[pos] := by simp [Out.index, hlt]
      simp only [hlt, ↓reduceDIte, hidx, Out.bind_ok] at h
      generalize hc : body[pos] = c at h hget
      by_cases c1 : c = 34 ∧ slice body (pos + 1) (pos + 3) = [34, 34]
      · simp only [c1, and_self, ↓reduceIte] at h
        simp only [Out.pure_eq, Out.ok.injEq, Prod.mk.injEq] at h
        refine ⟨bl ++ [cl ++ slice body cs pos], ?_, ?_⟩
        · rw [← h.1]; rfl
        · intro l hl
          rcases List.mem_append.mp hl with h' | h'
          · exact hbl l h'
          · simp at h'; subst h'; exact hcur
      · simp only [c1, ↓reduceIte] at h
        by_cases c2 : c = 92 ∧ slice body (pos + 1) (pos + 4) = [34, 34, 34]
        · simp only [c2, and_self, ↓reduceIte] at h
          apply ih (pos + 4) (pos + 1) ls (cl ++ slice body cs pos) bl tok st' (by omega) (by omega) hbl _ h
          apply NoNL_append hcur
          have := c2.2
          rw [show pos + 4 = pos + 1 + 3 by omega] at this ⊢
          exact slice_eq_three this
        · simp only [c2, ↓reduceIte] at h
          by_cases c3 : c = 13 ∨ c = 10
          · simp only [c3, ↓reduceIte] at h
            apply ih _ _ _ [] (bl ++ [cl ++ slice body cs pos]) tok st' _ (Nat.le_refl _) _ _ h
            · split <;> omega
            · intro l hl
              rcases List.mem_append.mp hl with h' | h'
              · exact hbl l h'
              · simp at h'; subst h'; exact hcur
            · simp [slice_self, NoNL_nil]
          · simp only [c3, ↓reduceIte] at h
            have hcne : c ≠ 10 ∧ c ≠ 13 := by
              simp only [not_or] at c3; exact ⟨c3.2, c3.1⟩
            by_cases c4 : isScalar c = true
            · simp only [c4, ↓reduceIte] at h
              apply ih (pos + 1) cs ls cl bl tok st' (by omega) (by omega) hbl _ h
              rw [slice_snoc body cs pos c hcs hget, ← List.append_assoc]
              apply NoNL_append hcur
              intro d hd; simp at hd; subst hd; exact hcne
            · simp only [c4, Bool.false_eq_true, ↓reduceIte] at h
              by_cases c5 : isSupplementary body pos = true
              · simp only [c5, ↓reduceIte] at h
                -- the pair is a lead and a trail surrogate: neither is a line terminator
                unfold isSupplementary at c5
                rw [hget] at c5
                cases hd : body[pos + 1]? with
                | none => simp [hd] at c5
                | some d =>
                  simp only [hd, Bool.and_eq_true] at c5
                  apply ih (pos + 2) cs ls cl bl tok st' (by omega) (by omega) hbl _ h
                  rw [slice_snoc2 body cs pos c d hcs hget hd, ← List.append_assoc]
                  apply NoNL_append hcur
                  intro e he
                  simp at he
                  have h1 := c5.1
                  have h2 := c5.2
                  simp only [isLeadSurrogate, isTrailSurrogate, Bool.and_eq_true, decide_eq_true_eq] at h1 h2
                  rcases he with he | he <;> subst he <;> omega
              · simp [c5] at h
    · simp [hlt] at h

/-- Every value produced by `read_block_string` is the dedentation of lines without line
terminators. -/
theorem readBlockString_lines (body : List Nat) (st : LexState) (start : Nat) (tok : Token)
    (st' : LexState) (h : readBlockString body st start = .ok (tok, st')) :
    ∃ lines, tok.value = some (joinLines (dedentBlockStringLines lines)) ∧ ∀ l ∈ lines, NoNL l := by
  unfold readBlockString at h
  exact blockLoop_lines body st start (body.length - (start + 3)) (start + 3) (start + 3) st.lineStart [] []
    tok st' (Nat.le_refl _) (Nat.le_refl _) (by simp) (by simp [slice_self, NoNL_nil]) h

end Gql.Text
