import Gql.Proofs.OverlapPEq
/-! C14, documents without fragment spreads, implementation side (2): `find_conflict` and the
visitor decide the between-conflicts `BConf` / `WConf`. -/
namespace Gql.Exec
open Overlap

/-- One call of `find_conflict`, split at the specification's local requirement: if the pair
violates it a single conflict is returned; otherwise the result is that of the sub-selection
comparison (made under "mutually exclusive" iff the specification would not merge fully). -/
theorem fc_unfold (env : Env) (hle : LinOrd env.le) (n : Nat) (excl : Bool) (rn : String)
    (e1 e2 : FieldEntry) (σ : St) (h1 : e1.node.argsOK) (h2 : e2.node.argsOK)
    (hd1 : e1.defTy = Spec.fieldType env.s e1.parent e1.node.name)
    (hd2 : e2.defTy = Spec.fieldType env.s e2.parent e2.node.name) :
    (Spec.direct env.s ⟨e1.inst, e2.inst, !excl⟩ = true →
      ∃ c, findConflict env (n + 1) excl rn e1 e2 σ = some (σ, [c])) ∧
    (Spec.direct env.s ⟨e1.inst, e2.inst, !excl⟩ = false →
      findConflict env (n + 1) excl rn e1 e2 σ =
        if (e1.node.hasSub && e2.node.hasSub) = true then
          match findConflictsBetweenSubSelectionSets env n
              (!Spec.deeper env.s ⟨e1.inst, e2.inst, !excl⟩) (e1.defTy.map Ty.named)
              e1.node.subSet (e2.defTy.map Ty.named) e2.node.subSet σ with
          | none => none
          | some (σ', cs) => some (σ', subfieldConflicts cs rn e1.node.id e2.node.id)
        else some (σ, [])) := by
  have hargs := sameArguments_eq_argsEquiv hle e1.node.args e2.node.args h1.1 h2.1
  have hstr := sameStreams_eq_streamsEquiv hle e1.node.stream e2.node.stream h1.2 h2.2
  have hty := defsConflict_eq e1.defTy e2.defTy
  rw [hd1, hd2] at hty
  simp only [findConflict, hargs, hstr]
  simp only [Spec.direct, Spec.deeper, Spec.typesOf, Overlap.FieldEntry.inst, Spec.parentsOverlap,
    hty, hd1, hd2]
  generalize Spec.typesConflict (Spec.fieldType env.s e1.parent e1.node.name)
    (Spec.fieldType env.s e2.parent e2.node.name) = tc
  generalize Spec.argsEquiv e1.node.args e2.node.args = ae
  generalize Spec.streamsEquiv e1.node.stream e2.node.stream = se
  generalize env.s.isObject e1.parent = o1
  generalize env.s.isObject e2.parent = o2
  generalize hpe : (e1.parent != e2.parent) = pne
  have hpe' : (e1.parent == e2.parent) = !pne := by rw [← hpe]; simp [bne]
  rw [hpe']
  generalize hne : (e1.node.name != e2.node.name) = nne
  cases excl <;> cases pne <;> cases o1 <;> cases o2 <;> cases nne <;> cases ae <;>
    cases se <;> cases tc <;> simp <;> rfl

theorem BConf.instEq {s : Schema} {full : Bool} {a b : Spec.FieldInst} (h : BConf s full a b) :
    ∀ {a' b' : Spec.FieldInst}, InstEq s a a' → InstEq s b b' → BConf s full a' b' := by
  induction h with
  | here hd =>
    intro a' b' ha hb
    exact BConf.here (by rw [← direct_instEq ha hb]; exact hd)
  | @sub full a b c1 c2 hsa hsb h1 h2 hrn _ ih =>
    intro a' b' ha hb
    have e1 : a'.node = a.node := ha.1.symm
    have e2 : b'.node = b.node := hb.1.symm
    refine BConf.sub (c1 := c1) (c2 := c2) (by rw [e1]; exact hsa) (by rw [e2]; exact hsb)
      (by rw [e1, ← ha.subP]; exact h1) (by rw [e2, ← hb.subP]; exact h2) hrn ?_
    rw [← deeper_instEq ha hb]
    exact ih (InstEq.refl _ _) (InstEq.refl _ _)

theorem subfieldConflicts_ne_nil (cs : List Conflict) (rn : String) (i j : Nat) :
    subfieldConflicts cs rn i j ≠ [] ↔ cs ≠ [] := by
  cases cs <;> simp [subfieldConflicts]

section nofrag
variable (env : Env)

/-- identities of the typed selection sets are identities -/
def TypedIdsUnique (s : Schema) (d : Doc) : Prop :=
  ∀ x ∈ d.typedSets s, ∀ y ∈ d.typedSets s, x.2.id = y.2.id → x = y

/-- every cache entry was collected from the typed set with that identity, for a parent that
is the set's parent after normalisation -/
def CacheNF (σ : St) : Prop :=
  ∀ i c, assocGet σ.cache i = some c →
    ∃ t ∈ env.d.typedSets env.s, t.2.id = i ∧ ∃ q, PEq env.s t.1 q ∧ c = computeFields env.s env.d q t.2

theorem getFields_nf (hU : TypedIdsUnique env.s env.d) {σ : St} (hσ : CacheNF env σ)
    {t : Option String × SelSet} (ht : t ∈ env.d.typedSets env.s) {q : Option String}
    (hq : PEq env.s t.1 q) :
    CacheNF env (getFields env.s env.d σ q t.2).1 ∧
      ∃ q', PEq env.s t.1 q' ∧ (getFields env.s env.d σ q t.2).2 = computeFields env.s env.d q' t.2 := by
  unfold getFields
  cases hg : assocGet σ.cache t.2.id with
  | some c =>
    obtain ⟨t', ht', hid, q', hq', hc⟩ := hσ _ _ hg
    have : t' = t := hU _ ht' _ ht hid
    subst this
    exact ⟨hσ, q', hq', hc⟩
  | none =>
    refine ⟨?_, q, hq, rfl⟩
    intro i c hi
    by_cases hid : t.2.id = i
    · subst hid
      simp only [assocGet_assocSet_same, Option.some.injEq] at hi
      exact ⟨t, ht, rfl, q, hq, hi.symm⟩
    · simp only [assocGet_assocSet_other _ _ _ _ hid] at hi
      exact hσ i c hi

/-- `r` returns, keeps the cache invariant, and reports a conflict exactly when `P` -/
def Dec (r : St → Res) (P : Prop) : Prop :=
  ∀ σ, CacheNF env σ → ∃ σ' cs, r σ = some (σ', cs) ∧ CacheNF env σ' ∧ (cs ≠ [] ↔ P)

theorem Dec.congr {r : St → Res} {P Q : Prop} (h : Dec env r P) (hpq : P ↔ Q) : Dec env r Q := by
  intro σ hσ
  obtain ⟨σ', cs, e, g, i⟩ := h σ hσ
  exact ⟨σ', cs, e, g, i.trans hpq⟩

theorem dec_nil : Dec env (fun σ => some (σ, [])) False :=
  fun σ hσ => ⟨σ, [], rfl, hσ, by simp⟩

theorem dec_andThen {r k : St → Res} {P Q : Prop} (hr : Dec env r P) (hk : Dec env k Q) :
    Dec env (fun σ => andThen (r σ) k) (P ∨ Q) := by
  intro σ hσ
  obtain ⟨σ1, c1, e1, g1, i1⟩ := hr σ hσ
  obtain ⟨σ2, c2, e2, g2, i2⟩ := hk σ1 g1
  refine ⟨σ2, c1 ++ c2, by simp [andThen, e1, e2], g2, ?_⟩
  rw [← i1, ← i2]
  cases c1 <;> cases c2 <;> simp

theorem dec_forEach {α : Type} (xs : List α) (f : α → St → Res) (P : α → Prop)
    (hf : ∀ x ∈ xs, Dec env (f x) (P x)) : Dec env (forEach xs f) (∃ x ∈ xs, P x) := by
  induction xs with
  | nil => exact fun σ hσ => ⟨σ, [], rfl, hσ, by simp⟩
  | cons x xs ih =>
    intro σ hσ
    obtain ⟨σ1, c1, e1, g1, i1⟩ := hf x List.mem_cons_self σ hσ
    obtain ⟨σ2, c2, e2, g2, i2⟩ := ih (fun y hy => hf y (List.mem_cons_of_mem _ hy)) σ1 g1
    refine ⟨σ2, c1 ++ c2, by simp [forEach, e1, e2], g2, ?_⟩
    simp only [List.mem_cons, exists_eq_or_imp, ← i1, ← i2]
    cases c1 <;> cases c2 <;> simp

end nofrag

end Gql.Exec
