import Gql.Proofs.RootNodes
/-!
P6 at the model level: every batch of stream items the scheduler handles becomes exactly one
`streamValues` event and exactly one incremental stream entry, item for item and in handling
order; under `EnvOk` (E3) the items of each stream carry consecutive source indices from 0.
-/
namespace Gql.Async
open Gql.Spec.Protocol

/-- The source indices of the items the events deliver for stream `s`, in order. -/
def svIdx (s : Nat) : List WQEvent → List (Option Nat)
  | [] => []
  | .streamValues s' vals _ _ :: r => (if s' = s then vals.map (·.idx) else []) ++ svIdx s r
  | _ :: r => svIdx s r

/-- A known index is the position. -/
def InOrder (l : List (Option Nat)) : Prop := ∀ (j i : Nat), l[j]? = some (some i) → i = j

def isSV : WQEvent → Bool
  | .streamValues _ _ _ _ => true
  | _ => false

theorem svIdx_append (s : Nat) (a b : List WQEvent) : svIdx s (a ++ b) = svIdx s a ++ svIdx s b := by
  induction a with
  | nil => rfl
  | cons e a ih => cases e <;> simp [svIdx, ih]

theorem svIdx_noSV (s : Nat) (evs : List WQEvent) (h : ∀ e ∈ evs, isSV e = false) : svIdx s evs = [] := by
  induction evs with
  | nil => rfl
  | cons e evs ih =>
    have he := h e (by simp)
    have := ih (fun x hx => h x (List.mem_cons_of_mem _ hx))
    cases e <;> simp_all [svIdx, isSV]

theorem groupEvents_noSV (g : Nat) (v : List GVal) (ng ns : List Nat) :
    ∀ e ∈ groupEvents g v ng ns, isSV e = false := by
  intro e he
  unfold groupEvents at he
  split at he <;> simp at he <;> rcases he with rfl | rfl <;> rfl

theorem finishGroupSuccess_noSV (σ : Static) (q : WQ) (g : Nat) (n : GroupNode) :
    ∀ e ∈ (finishGroupSuccess σ q g n).2.1, isSV e = false := groupEvents_noSV _ _ _ _

theorem successStep_noSV (σ : Static) (acc : WQ × List WQEvent × List Nat × List Nat) (g : Nat)
    (h : ∀ e ∈ acc.2.1, isSV e = false) : ∀ e ∈ (successStep σ acc g).2.1, isSV e = false := by
  unfold successStep
  split
  · simp only
    split
    · intro e he
      rcases List.mem_append.mp he with he | he
      · exact h e he
      · exact finishGroupSuccess_noSV σ _ g _ e he
    · exact h
  · exact h

theorem failureStep_noSV (σ : Static) (acc : WQ × List WQEvent) (g : Nat)
    (h : ∀ e ∈ acc.2, isSV e = false) : ∀ e ∈ (failureStep σ acc g).2, isSV e = false := by
  unfold failureStep
  split
  · intro e he
    rcases List.mem_append.mp he with he | he
    · exact h e he
    · simp [finishGroupFailure] at he; subst he; rfl
  · exact h

theorem items_values (σ : Static) (items : List IResult) (acc : WQ × List IVal × List Nat × List Nat) :
    (items.foldl (itemStep σ) acc).2.1 = acc.2.1 ++ items.map (·.value) := by
  induction items generalizing acc with
  | nil => simp
  | cons it items ih =>
    simp only [List.foldl_cons, List.map_cons]
    rw [ih]
    have : (itemStep σ acc it).2.1 = acc.2.1 ++ [it.value] := by unfold itemStep; rfl
    rw [this]; simp

/-- What each handler contributes to `svIdx`. -/
theorem handle_svIdx (σ : Static) (q : WQ) (ev : GraphEvent) (s : Nat) :
    svIdx s (handleGraphEvent σ q ev).2 =
      match ev with
      | .streamItems s' items _ => if s' = s then items.map (·.value.idx) else []
      | _ => [] := by
  cases ev with
  | taskSuccess t r =>
    apply svIdx_noSV
    simp only [handleGraphEvent, taskSuccess]
    exact foldl_inv (fun acc : WQ × List WQEvent × List Nat × List Nat => ∀ e ∈ acc.2.1, isSV e = false)
      (successStep σ) (σ.tgroups t) _ (by simp) (fun acc g h => successStep_noSV σ acc g h)
  | taskFailure t =>
    apply svIdx_noSV
    simp only [handleGraphEvent, taskFailure]
    exact foldl_inv (fun acc : WQ × List WQEvent => ∀ e ∈ acc.2, isSV e = false)
      (failureStep σ) (σ.tgroups t) _ (by simp) (fun acc g h => failureStep_noSV σ acc g h)
  | streamItems s' items st =>
    simp only [handleGraphEvent, streamItems]
    have hv := items_values σ items (q, [], [], [])
    simp only [List.nil_append] at hv
    split <;> simp [svIdx, hv, List.map_map, Function.comp_def]
  | streamSuccess s' => simp only [handleGraphEvent]; split <;> simp [svIdx]
  | streamFailure s' => simp [handleGraphEvent, svIdx]
  | stop => simp [handleGraphEvent, svIdx]

/-- E3 on one batch: known indices are consecutive from `n`. -/
theorem itemsOk_idx (σ : Static) (q : WQ) (items : List IResult) (e : EnvSt) (n : Nat) (e' : EnvSt) (n' : Nat)
    (h : itemsOk σ q e n items = some (e', n')) :
    n' = n + items.length ∧ e'.streamNext = e.streamNext ∧
    ∀ (j i : Nat), (items.map (·.value.idx))[j]? = some (some i) → i = n + j := by
  induction items generalizing e n with
  | nil => simp [itemsOk] at h; obtain ⟨rfl, rfl⟩ := h; simp
  | cons it items ih =>
    unfold itemsOk at h
    by_cases hc : (idxMatches it.value.idx n && workOptOk σ e q none it.work) = true
    · rw [if_pos hc] at h
      obtain ⟨a, b, c⟩ := ih _ _ h
      refine ⟨by rw [a]; simp; omega, ?_, ?_⟩
      · rw [b]; cases it.work <;> rfl
      · intro j i hj
        cases j with
        | zero =>
          simp at hj
          simp only [Bool.and_eq_true] at hc
          have := hc.1
          rw [hj] at this
          simp [idxMatches] at this
          omega
        | succ j =>
          simp at hj
          have := c j i (by simpa using hj)
          omega
    · rw [if_neg hc] at h; cases h

theorem eventOk_streamNext_items (σ : Static) (e : EnvSt) (q : WQ) (s : Nat) (items : List IResult)
    (st : Bool) (e' : EnvSt) (hok : eventOk σ e q (.streamItems s items st) = some e') :
    (∀ s', s' ≠ s → alookup e'.streamNext s' = alookup e.streamNext s') ∧
    (alookup e'.streamNext s).getD 0 = (alookup e.streamNext s).getD 0 + items.length ∧
    ∀ (j i : Nat), (items.map (·.value.idx))[j]? = some (some i) → i = (alookup e.streamNext s).getD 0 + j := by
  simp only [eventOk] at hok
  split at hok
  · cases hi : itemsOk σ q e ((alookup e.streamNext s).getD 0) items with
    | none => simp [hi] at hok
    | some r =>
      obtain ⟨e1, n1⟩ := r
      simp only [hi, Option.some.injEq] at hok
      subst hok
      obtain ⟨a, b, c⟩ := itemsOk_idx σ q items e _ e1 n1 hi
      refine ⟨?_, ?_, c⟩
      · intro s' hs'
        simp only
        rw [alookup_aset_ne _ _ _ _ (fun h => hs' h.symm), b]
      · simp only
        rw [alookup_aset_self]; simp [a]
  · cases hok

theorem intro_streamNext (e : EnvSt) (w : Option Work) : (e.intro w).streamNext = e.streamNext := by
  cases w <;> rfl

theorem eventOk_streamNext_other (σ : Static) (e : EnvSt) (q : WQ) (ev : GraphEvent) (e' : EnvSt)
    (hne : ∀ s items st, ev ≠ .streamItems s items st) (hok : eventOk σ e q ev = some e') :
    e'.streamNext = e.streamNext := by
  cases ev with
  | taskSuccess t r =>
    simp only [eventOk] at hok
    split at hok
    · simp only [Option.some.injEq] at hok
      rw [← hok]; exact intro_streamNext e r.work
    · cases hok
  | taskFailure t =>
    simp only [eventOk] at hok
    split at hok
    · simp only [Option.some.injEq] at hok; rw [← hok]
    · cases hok
  | streamItems s items st => exact absurd rfl (hne s items st)
  | streamSuccess s =>
    simp only [eventOk] at hok
    split at hok
    · simp only [Option.some.injEq] at hok; rw [← hok]
    · cases hok
  | streamFailure s =>
    simp only [eventOk] at hok
    split at hok
    · simp only [Option.some.injEq] at hok; rw [← hok]
    · cases hok
  | stop => simp only [eventOk, Option.some.injEq] at hok; rw [← hok]

/-- The run invariant: per stream, delivered indices are positions, and the environment's
counter is the number of delivered items. -/
def OrderInv (e : EnvSt) (_q : WQ) (E : List WQEvent) : Prop :=
  ∀ s, InOrder (svIdx s E) ∧ (svIdx s E).length = (alookup e.streamNext s).getD 0

theorem inOrder_append (a b : List (Option Nat)) (ha : InOrder a)
    (hb : ∀ (j i : Nat), b[j]? = some (some i) → i = a.length + j) : InOrder (a ++ b) := by
  intro j i h
  by_cases hj : j < a.length
  · rw [List.getElem?_append_left hj] at h; exact ha j i h
  · have hj' : a.length ≤ j := Nat.le_of_not_lt hj
    rw [List.getElem?_append_right hj'] at h
    have := hb _ i h
    omega

theorem orderInv_run (σ : Static) : RunInv σ OrderInv where
  handle := by
    intro e q ev e' E h _ hok
    intro s
    have hsv := handle_svIdx σ q ev s
    rw [svIdx_append, hsv]
    by_cases hit : ∃ s' items st, ev = .streamItems s' items st
    · obtain ⟨s', items, st, rfl⟩ := hit
      obtain ⟨n1, n2, n3⟩ := eventOk_streamNext_items σ e q s' items st e' hok
      simp only
      by_cases hs : s' = s
      · subst hs
        simp only [if_true]
        refine ⟨inOrder_append _ _ (h s').1 (fun j i hj => by rw [(h s').2]; exact n3 j i hj), ?_⟩
        rw [List.length_append, (h s').2, n2]; simp
      · simp only [hs, if_false, List.append_nil]
        rw [n1 s (fun e => hs e.symm)]
        exact h s
    · have hne : ∀ s' items st, ev ≠ .streamItems s' items st :=
        fun s' items st e0 => hit ⟨s', items, st, e0⟩
      have hnx := eventOk_streamNext_other σ e q ev e' hne hok
      have hnil : (match ev with
          | .streamItems s' items _ => if s' = s then items.map (·.value.idx) else []
          | _ => ([] : List (Option Nat))) = [] := by
        cases ev with
        | streamItems s' items st => exact absurd rfl (hne s' items st)
        | _ => rfl
      rw [hnil, List.append_nil, hnx]
      exact h s
  chan := by intro e q E c h; exact h
  defer := by intro e q E d h; exact h
  term := by
    intro e q E h _ _ s
    rw [svIdx_append]
    simpa [svIdx] using h s

/-! ### the publisher keeps the batches -/

/-- The item lists of the stream entries of a list of incremental entries, in order. -/
def incrStreams : List Incr → List (List (Option Nat × J))
  | [] => []
  | .stream _ items :: r => items :: incrStreams r
  | .defer _ _ _ :: r => incrStreams r

def payloadStreams (ps : List Payload) : List (List (Option Nat × J)) :=
  ps.flatMap (fun p => incrStreams p.incremental)

/-- The item lists of the `streamValues` events, in order. -/
def svAll : List WQEvent → List (List (Option Nat × J))
  | [] => []
  | .streamValues _ vals _ _ :: r => vals.map (fun v => (v.idx, v.item)) :: svAll r
  | _ :: r => svAll r

theorem incrStreams_append (a b : List Incr) : incrStreams (a ++ b) = incrStreams a ++ incrStreams b := by
  induction a with
  | nil => rfl
  | cons x a ih => cases x <;> simp [incrStreams, ih]

theorem svAll_append (a b : List WQEvent) : svAll (a ++ b) = svAll a ++ svAll b := by
  induction a with
  | nil => rfl
  | cons x a ih => cases x <;> simp [svAll, ih]

theorem incrStreams_defers (l : List Incr) (h : ∀ x ∈ l, ∃ i s d, x = Incr.defer i s d) : incrStreams l = [] := by
  induction l with
  | nil => rfl
  | cons x l ih =>
    obtain ⟨i, s, d, rfl⟩ := h x (by simp)
    simp [incrStreams, ih (fun y hy => h y (List.mem_cons_of_mem _ hy))]

theorem handleEvent_streams (π : PubStatic) (p : Pub) (c : PCtx) (e : WQEvent) :
    incrStreams (handleEvent π p c e).2.incremental = incrStreams c.incremental ++ svAll [e] := by
  cases e with
  | groupValues g vals =>
    have h1 : ∀ (f : GVal → Nat × Path), incrStreams (vals.map (fun v => Incr.defer (f v).1 (f v).2 v.data)) = [] := by
      intro f
      apply incrStreams_defers
      intro x hx
      obtain ⟨v, _, rfl⟩ := List.mem_map.mp hx
      exact ⟨_, _, _, rfl⟩
    simp only [handleEvent, incrStreams_append, svAll, List.append_nil]
    rw [h1 (fun v => bestIdAndSubPath π (ensureId p (Node.group g)).1 (ensureId p (Node.group g)).2 g v)]
    simp
  | groupSuccess g ng ns => simp only [handleEvent]; split <;> simp [svAll]
  | groupFailure g => simp [handleEvent, svAll]
  | streamValues s vals ng ns =>
    simp only [handleEvent]
    split <;> simp [incrStreams_append, incrStreams, svAll]
  | streamSuccess s => simp [handleEvent, svAll]
  | streamFailure s => simp [handleEvent, svAll]
  | termination => simp [handleEvent, svAll]

theorem handleBatch_streams (π : PubStatic) (p : Pub) (evs : List WQEvent) :
    incrStreams (handleBatch π p evs).2.incremental = svAll evs := by
  unfold handleBatch
  simp only
  have key : ∀ (evs : List WQEvent) (p : Pub) (c : PCtx),
      incrStreams (evs.foldl (fun (acc : Pub × PCtx) e => handleEvent π acc.1 acc.2 e) (p, c)).2.incremental
        = incrStreams c.incremental ++ svAll evs := by
    intro evs
    induction evs with
    | nil => intro p c; simp [svAll]
    | cons e evs ih =>
      intro p c
      simp only [List.foldl_cons]
      rw [ih, handleEvent_streams]
      have : svAll (e :: evs) = svAll [e] ++ svAll evs := svAll_append [e] evs
      rw [this, List.append_assoc]
  simpa [incrStreams] using key evs p {}

theorem publish_streams (π : PubStatic) (bs : List (List WQEvent)) (p : Pub) :
    payloadStreams (publish π p bs).2 = svAll bs.flatten := by
  induction bs generalizing p with
  | nil => rfl
  | cons b bs ih =>
    simp only [publish, payloadStreams, List.flatMap_cons, List.flatten_cons, svAll_append]
    rw [handleBatch_streams]
    have := ih (handleBatch π p b).1
    simp only [payloadStreams] at this
    rw [this]

end Gql.Async
