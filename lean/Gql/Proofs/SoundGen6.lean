/-
C13 — field merging is trivial for plain selection sets (fields only, distinct response keys).
-/
import Gql.Proofs.SoundGen5

namespace Gql.Exec.Valid
open Gql.Exec Gql.Exec.Refine

theorem plainSels_mem {sels : List Selection} (h : plainSels sels = true) {sel : Selection}
    (hm : sel ∈ sels) : plainSel sel = true := by
  induction sels with
  | nil => cases hm
  | cons a t ih =>
    simp only [plainSels, Bool.and_eq_true] at h
    rcases List.mem_cons.1 hm with rfl | hm
    · exact h.1
    · exact ih h.2 hm

theorem distinctSelsAux_mem {sels : List Selection} (h : distinctSelsAux sels = true) {sel : Selection}
    (hm : sel ∈ sels) : distinctSel sel = true := by
  induction sels with
  | nil => cases hm
  | cons a t ih =>
    simp only [distinctSelsAux, Bool.and_eq_true] at h
    rcases List.mem_cons.1 hm with rfl | hm
    · exact h.1
    · exact ih h.2 hm

theorem reach_plain (cx : Spec.Ctx) (op : Operation) (hp : plainSels op.sels = true)
    (hd : distinctSels op.sels = true) :
    ∀ rt sels, ReachSel cx op rt sels → plainSels sels = true ∧ distinctSels sels = true := by
  intro rt sels h
  induction h with
  | root _ => exact ⟨hp, hd⟩
  | @step rt0 sels0 groups k fs rt' _ hcol hmem _ ih =>
    obtain ⟨ihp, ihd⟩ := ih
    have ihd' := ihd
    simp only [distinctSels, Bool.and_eq_true] at ihd'
    have hnd : (sels0.map keyOfSel).Nodup := (nodupNames_iff _).1 ihd'.1
    rw [collectFields_plain cx rt0 sels0 ihp hnd] at hcol
    cases hcol
    simp only [groupsOf, List.mem_map, Prod.mk.injEq] at hmem
    obtain ⟨sel, hsel, _, rfl⟩ := hmem
    have h1 := plainSels_mem ihp hsel
    have h2 := distinctSelsAux_mem ihd'.2 hsel
    cases sel with
    | inline c d ss => simp [plainSel] at h1
    | spread n d => simp [plainSel] at h1
    | field a n args dirs ss =>
      simp only [plainSel, Bool.and_eq_true] at h1
      simp only [Spec.mergeSelectionSets, nodeOfSel, List.flatMap_cons, List.flatMap_nil, List.append_nil]
      exact ⟨h1.2, by simpa [distinctSel, distinctSels] using h2⟩

/-- plain operations satisfy the merge hypothesis -/
theorem mergeOk_of_plain (cx : Spec.Ctx) (op : Operation) (hp : plainSels op.sels = true)
    (hd : distinctSels op.sels = true) : MergeOk cx op := by
  intro rt sels hr gs hcol
  obtain ⟨ihp, ihd⟩ := reach_plain cx op hp hd rt sels hr
  simp only [distinctSels, Bool.and_eq_true] at ihd
  have hnd : (sels.map keyOfSel).Nodup := (nodupNames_iff _).1 ihd.1
  rw [collectFields_plain cx rt sels ihp hnd] at hcol
  cases hcol
  intro p hp' f hf f' hf'
  simp only [groupsOf, List.mem_map] at hp'
  obtain ⟨sel, _, rfl⟩ := hp'
  simp only [List.mem_singleton] at hf hf'
  rw [hf, hf']

end Gql.Exec.Valid
