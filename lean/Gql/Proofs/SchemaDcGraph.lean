import Gql.Proofs.SchemaNeed
import Gql.Proofs.SchemaCycles
/-
Lemmas for C20, part 10: the graph of default values — from an input field with a default to the
input fields whose own default is applied when that default is coerced — and the
well-formedness of raw schemas under which a coordinate `T.f` names one field.
-/
namespace Gql.Types
open Gql

/-- reflexive-transitive closure -/
inductive RStar {α : Type} (E : α → α → Prop) : α → α → Prop where
  | refl (a : α) : RStar E a a
  | step {a b c : α} : E a b → RStar E b c → RStar E a c

def RPlus {α : Type} (E : α → α → Prop) (a c : α) : Prop := ∃ b, E a b ∧ RStar E b c

theorem RStar.trans {α : Type} {E : α → α → Prop} {a b c : α} (h1 : RStar E a b) (h2 : RStar E b c) :
    RStar E a c := by
  induction h1 with
  | refl => exact h2
  | step e _ ih => exact .step e (ih h2)

theorem RStar.tail {α : Type} {E : α → α → Prop} {a b c : α} (h1 : RStar E a b) (e : E b c) :
    RStar E a c := h1.trans (.step e (.refl c))

theorem RPlus.of_star_edge {α : Type} {E : α → α → Prop} {a b c : α} (h1 : RStar E a b) (e : E b c) :
    RPlus E a c := by
  cases h1 with
  | refl => exact ⟨c, e, .refl c⟩
  | step e1 h => exact ⟨_, e1, h.tail e⟩

theorem RPlus.tail {α : Type} {E : α → α → Prop} {a b c : α} (h1 : RPlus E a b) (e : E b c) :
    RPlus E a c := by
  obtain ⟨x, e1, h⟩ := h1; exact ⟨x, e1, h.tail e⟩

/-- the fields whose default is applied when the default of `n` is coerced -/
def succD (s : RawSchema) (n : DNode) : List DNode :=
  match n.f.default with
  | none => []
  | some lit => need s lit n.m

def EdgeD (s : RawSchema) (n n' : DNode) : Prop := n' ∈ succD s n

/-- a field of an input object type of the schema whose named type is an input object -/
def NodeOK (s : RawSchema) (n : DNode) : Prop :=
  ∃ tn fields o, s.lookup tn = some (.input fields o) ∧ n.f ∈ fields ∧
    n.m = n.f.type.namedType ∧ s.isInputObject n.m = true ∧ n.c = dot tn n.f.name

/-- the field has a default value -/
def Live (n : DNode) : Prop := n.f.default.isSome = true

theorem edge_live {s : RawSchema} {n n' : DNode} (h : EdgeD s n n') : Live n := by
  unfold EdgeD succD at h
  unfold Live
  cases hd : n.f.default with
  | none => simp [hd] at h
  | some _ => rfl

theorem rstar_live {s : RawSchema} {n n' : DNode} (h : RStar (EdgeD s) n n') : n = n' ∨ Live n := by
  cases h with
  | refl => exact Or.inl rfl
  | step e _ => exact Or.inr (edge_live e)

/-! ### everything the traversal reaches is a genuine field -/

theorem needObject_ok (s : RawSchema) (tn : Str) (subs : List (Str × (Str → List DNode)))
    (hsubs : ∀ k h, lookupLast subs k = some h → ∀ m n, n ∈ h m → NodeOK s n) :
    ∀ n ∈ needObject s tn subs, NodeOK s n := by
  intro n hn
  unfold needObject at hn
  split at hn
  · rename_i fields o hl
    obtain ⟨f, hf, hn⟩ := List.mem_flatMap.mp hn
    by_cases hi : s.isInputObject f.type.namedType = true
    · simp only [hi, Bool.not_true, Bool.false_eq_true, ↓reduceIte] at hn
      split at hn
      · rename_i g hg; exact hsubs _ g hg _ n hn
      · simp only [List.mem_singleton] at hn
        subst hn
        exact ⟨tn, fields, o, hl, hf, rfl, hi, rfl⟩
    · simp only [Bool.not_eq_true] at hi
      simp [hi] at hn
  · simp at hn

mutual
theorem need_ok (s : RawSchema) : ∀ (lit : Lit) (tn : Str) (n : DNode), n ∈ need s lit tn → NodeOK s n
  | .list xs, tn, n, h => by unfold need at h; exact needs_ok s xs tn n h
  | .obj fs, tn, n, h => by
    unfold need at h
    exact needObject_ok s tn _ (needEntries_ok s fs) n h
  | .null, _, _, h => by simp [need] at h
  | .int _, _, _, h => by simp [need] at h
  | .float, _, _, h => by simp [need] at h
  | .str, _, _, h => by simp [need] at h
  | .bool, _, _, h => by simp [need] at h
  | .enum _, _, _, h => by simp [need] at h
theorem needs_ok (s : RawSchema) : ∀ (xs : List Lit) (tn : Str) (n : DNode), n ∈ needs s xs tn → NodeOK s n
  | [], _, _, h => by simp [needs] at h
  | x :: xs, tn, n, h => by
    unfold needs at h
    rcases List.mem_append.mp h with h | h
    · exact need_ok s x tn n h
    · exact needs_ok s xs tn n h
theorem needEntries_ok (s : RawSchema) : ∀ (fs : List (Str × Lit)) (k : Str) (h : Str → List DNode),
    lookupLast (needEntries s fs) k = some h → ∀ m n, n ∈ h m → NodeOK s n
  | [], k, h, hl => by simp [needEntries, lookupLast] at hl
  | e :: rest, k, h, hl => by
    unfold needEntries lookupLast at hl
    split at hl
    · rename_i x hx
      simp at hl; subst hl
      exact needEntries_ok s rest k x hx
    · split at hl
      · simp at hl; subst hl
        exact fun m n hn => need_ok s e.2 m n hn
      · simp at hl
end

theorem succD_ok {s : RawSchema} {n n' : DNode} (h : EdgeD s n n') : NodeOK s n' := by
  unfold EdgeD succD at h
  cases hd : n.f.default with
  | none => simp [hd] at h
  | some lit => rw [hd] at h; exact need_ok s lit n.m n' h

/-! ### coordinates name fields -/

/-- What construction guarantees (`assert_name`, dict keys): type names contain no `.`, and the
field names of an input object type are pairwise different. -/
def NamesWF (s : RawSchema) : Prop :=
  (∀ t ∈ s.types, (46 : Nat) ∉ t.name) ∧
  (∀ t ∈ s.types, ∀ fs o, t.defn = .input fs o → (fs.map (·.name)).Nodup)

theorem dot_inj : ∀ (a a' b b' : Str), (46 : Nat) ∉ a → (46 : Nat) ∉ a' → dot a b = dot a' b' →
    a = a' ∧ b = b'
  | [], [], b, b', _, _, h => by simpa [dot] using h
  | [], x :: a', b, b', _, h2, h => by
    simp only [dot, List.nil_append, List.cons_append, List.cons.injEq] at h
    exact absurd (by simp [← h.1]) h2
  | x :: a, [], b, b', h1, _, h => by
    simp only [dot, List.nil_append, List.cons_append, List.cons.injEq] at h
    exact absurd (by simp [h.1]) h1
  | x :: a, y :: a', b, b', h1, h2, h => by
    simp only [dot, List.cons_append, List.cons.injEq] at h
    have := dot_inj a a' b b' (fun hh => h1 (List.mem_cons_of_mem _ hh))
      (fun hh => h2 (List.mem_cons_of_mem _ hh)) (by simpa [dot] using h.2)
    exact ⟨by rw [h.1, this.1], this.2⟩

theorem name_inj_of_nodup {fs : List InputValue} (hnd : (fs.map (·.name)).Nodup) {f g : InputValue}
    (hf : f ∈ fs) (hg : g ∈ fs) (h : f.name = g.name) : f = g := by
  induction fs with
  | nil => simp at hf
  | cons x xs ih =>
    simp only [List.map_cons, List.nodup_cons, List.mem_map, not_exists, not_and] at hnd
    rcases List.mem_cons.mp hf with rfl | hf' <;> rcases List.mem_cons.mp hg with rfl | hg'
    · rfl
    · exact absurd h.symm (hnd.1 g hg')
    · exact absurd h (hnd.1 f hf')
    · exact ih hnd.2 hf' hg'

theorem node_inj {s : RawSchema} (hwf : NamesWF s) {n n' : DNode} (h1 : NodeOK s n) (h2 : NodeOK s n')
    (hc : n.c = n'.c) : n = n' := by
  obtain ⟨tn, fields, o, hl, hf, hm, _, hcc⟩ := h1
  obtain ⟨tn', fields', o', hl', hf', hm', _, hcc'⟩ := h2
  obtain ⟨t, ht, hn, hd⟩ := lookup_mem hl
  obtain ⟨t', ht', hn', hd'⟩ := lookup_mem hl'
  have hdot := dot_inj tn tn' n.f.name n'.f.name (hn ▸ hwf.1 t ht) (hn' ▸ hwf.1 t' ht')
    (by rw [← hcc, ← hcc', hc])
  obtain ⟨rfl, hname⟩ := hdot
  rw [hl] at hl'
  simp only [Option.some.injEq, TypeDef.input.injEq] at hl'
  obtain ⟨rfl, rfl⟩ := hl'
  have hfeq : n.f = n'.f := name_inj_of_nodup (hwf.2 t ht fields o hd) hf hf' hname
  rcases n with ⟨f, m, c⟩
  rcases n' with ⟨f', m', c'⟩
  simp only at hfeq hm hm' hc
  subst hfeq hc
  simp [hm, hm']

/-! ### the universe of coordinates -/

def coordUniverse (s : RawSchema) : List Str :=
  s.types.flatMap (fun t =>
    match t.defn with
    | .input fs _ => fs.map (fun f => dot t.name f.name)
    | _ => [])

theorem coordUniverse_length (s : RawSchema) : (coordUniverse s).length + 1 = dcFuel s := by
  unfold coordUniverse dcFuel
  congr 1
  induction s.types with
  | nil => rfl
  | cons t ts ih =>
    simp only [List.flatMap_cons, List.length_append, List.map_cons, List.sum_cons, ih]
    congr 1
    cases t.defn <;> simp

theorem node_mem_universe {s : RawSchema} {n : DNode} (h : NodeOK s n) : n.c ∈ coordUniverse s := by
  obtain ⟨tn, fields, o, hl, hf, _, _, hcc⟩ := h
  obtain ⟨t, ht, hn, hd⟩ := lookup_mem hl
  unfold coordUniverse
  refine List.mem_flatMap.mpr ⟨t, ht, ?_⟩
  rw [hd]
  exact List.mem_map.mpr ⟨n.f, hf, by rw [hcc, hn]⟩

end Gql.Types
